import IncrVerif.Proofs.Life8
/-!
# Observer lifecycle over whole histories, part 9: a dead subscription is never notified again
(the observer side of C09, for whole histories)

* `liveTokens x`: the tokens registered on an observer record that is created or in use.
* `Dead s tok`: the token has been issued (`tok < nextToken`) and is not registered on any observer
  that is created or in use.
* `Mute tok s s'`: if `tok` is dead in `s` it is dead in `s'`, and every event in the log of `s'` that is
  not already in the log of `s` is not a notification for `tok`.
* `Pres (Mute tok) m` for every function of the model reachable from `stepAction`.
-/
namespace IncrVerif.Proofs.Life
open IncrVerif.Engine IncrVerif.Proofs.Obs

def liveTokens (x : ObsRec) : List Nat :=
  match x.state with
  | .created | .inUse => x.handlers.map (·.token)
  | _ => []

def Dead (s : State) (tok : Nat) : Prop :=
  tok < s.nextToken ∧ ∀ (o : Nat) (ob : ObsRec), s.observers[o]? = some ob → tok ∉ liveTokens ob

def Mute (tok : Nat) (s s' : State) : Prop :=
  Dead s tok → Dead s' tok ∧ ∀ e, e ∈ s'.log → e ∈ s.log ∨ ∀ u, e ≠ .notif tok u

theorem Mute.refl (tok : Nat) (s : State) : Mute tok s s := fun hd => ⟨hd, fun _ he => .inl he⟩

theorem Mute.trans {tok : Nat} {a b c : State} (h1 : Mute tok a b) (h2 : Mute tok b c) :
    Mute tok a c := fun hd => by
  obtain ⟨hd1, l1⟩ := h1 hd
  obtain ⟨hd2, l2⟩ := h2 hd1
  refine ⟨hd2, fun e he => ?_⟩
  rcases l2 e he with h | h
  · exact l1 e h
  · exact .inr h

/-- the dead tokens stay dead when `nextToken` does not decrease and live registrations only shrink -/
theorem Dead.of_shrink {s s' : State} {tok : Nat} (hn : s.nextToken ≤ s'.nextToken)
    (hs : ∀ (o : Nat) (ob' : ObsRec), s'.observers[o]? = some ob' → tok ∈ liveTokens ob' →
      ∃ (o0 : Nat) (ob : ObsRec), s.observers[o0]? = some ob ∧ tok ∈ liveTokens ob)
    (hd : Dead s tok) : Dead s' tok :=
  ⟨Nat.lt_of_lt_of_le hd.1 hn, fun o ob' e' hm => by
    obtain ⟨o0, ob, e, hm0⟩ := hs o ob' e' hm
    exact hd.2 o0 ob e hm0⟩

theorem Mute.of_dead {tok : Nat} {s s' : State} (hD : Dead s tok → Dead s' tok)
    (hl : s'.log = s.log) : Mute tok s s' :=
  fun hd => ⟨hD hd, fun e he => .inl (by rw [← hl]; exact he)⟩

instance (tok : Nat) : ObsLocal (Mute tok) where
  refl := Mute.refl tok
  trans := Mute.trans
  of_eq s s' h1 _ _ h4 h5 := Mute.of_dead (fun hd => ⟨by rw [h4]; exact hd.1, by rw [h1]; exact hd.2⟩) h5
  logEv e s he := fun hd => ⟨hd, fun e' he' => by
    rcases List.mem_cons.1 he' with rfl | h
    · exact .inr (he tok)
    · exact .inl h⟩

/-- a `modObs` under which the live registrations of the record at `o` only shrink -/
theorem Mute.modify_at {tok : Nat} {s s' : State} (o : Nat) (f : ObsRec → ObsRec)
    (ho : s'.observers = s.observers.modify o f) (hn : s'.nextToken = s.nextToken)
    (hl : s'.log = s.log)
    (hf : ∀ x, s.observers[o]? = some x → ∀ t, t ∈ liveTokens (f x) → t ∈ liveTokens x) :
    Mute tok s s' := by
  refine Mute.of_dead (Dead.of_shrink (Nat.le_of_eq hn.symm) fun m ob' e' hm => ?_) hl
  rw [ho, Array.getElem?_modify] at e'
  split at e'
  · rename_i hm'; subst hm'
    cases hx : s.observers[o]? with
    | none => rw [hx] at e'; cases e'
    | some x =>
      rw [hx] at e'
      simp only [Option.map_some, Option.some.injEq] at e'
      subst e'
      exact ⟨o, x, hx, hf x hx _ hm⟩
  · exact ⟨m, ob', e', hm⟩

theorem PresMu.modObs (tok o : Nat) (f : ObsRec → ObsRec)
    (hf : ∀ x t, t ∈ liveTokens (f x) → t ∈ liveTokens x) : Pres (Mute tok) (modObs o f) := by
  unfold Engine.modObs
  exact Pres.modify fun s => Mute.modify_at o f rfl rfl rfl fun x _ => hf x

theorem liveTokens_state_eq {x y : ObsRec} (hs : y.state = x.state) (hh : y.handlers = x.handlers) :
    liveTokens y = liveTokens x := by
  simp only [liveTokens, hs, hh]

theorem liveTokens_sub {x y : ObsRec} (hs : y.state = x.state)
    (hh : ∀ t, t ∈ y.handlers.map (·.token) → t ∈ x.handlers.map (·.token)) :
    ∀ t, t ∈ liveTokens y → t ∈ liveTokens x := by
  intro t
  simp only [liveTokens, hs]
  cases x.state <;> simp only [] <;> first | exact hh t | exact id

theorem PresMu.modObs_setPrev (tok o : Nat) (g : HandlerRec → HandlerRec)
    (hg : ∀ h, (g h).token = h.token) :
    Pres (Mute tok) (Engine.modObs o fun x => { x with handlers := x.handlers.map g }) := by
  refine PresMu.modObs tok o _ fun x => liveTokens_sub rfl fun t ht => ?_
  simp only [List.map_map, List.mem_map, Function.comp_def] at ht ⊢
  obtain ⟨a, ha, rfl⟩ := ht
  exact ⟨a, ha, (hg a).symm⟩

theorem PresMu.modObs_filter (tok o : Nat) (p : HandlerRec → Bool) :
    Pres (Mute tok) (Engine.modObs o fun x => { x with handlers := x.handlers.filter p }) := by
  refine PresMu.modObs tok o _ fun x => liveTokens_sub rfl fun t ht => ?_
  simp only [List.mem_map, List.mem_filter] at ht ⊢
  obtain ⟨a, ⟨ha, _⟩, rfl⟩ := ht
  exact ⟨a, ha, rfl⟩

/-- leaves: the `modObs` calls of the model other than created ↦ in use and `subscribe` -/
macro_rules
  | `(tactic| lleaf) =>
    `(tactic| ((with_reducible apply PresMu.modObs); intro x t ht; (first | exact ht | exact absurd ht List.not_mem_nil)))
macro_rules
  | `(tactic| lleaf) =>
    `(tactic| ((with_reducible apply PresMu.modObs_setPrev); intro h; (try dsimp only); split <;> rfl))
life_leaf PresMu.modObs_filter

theorem Mute.afterDis {tok : Nat} (s : State) (o : Nat) :
    Mute tok s (afterDisCreated s o) ∧ Mute tok s (afterDisInUse s o) :=
  ⟨Mute.modify_at o (fun x => { x with state := .unlinked, handlers := [] }) rfl rfl rfl
      fun _ _ _ ht => absurd ht List.not_mem_nil,
   Mute.modify_at o (fun x => { x with state := .disallowed }) rfl rfl rfl
      fun _ _ _ ht => absurd ht List.not_mem_nil⟩

theorem PresMu.disallowFutureUse (tok o : Nat) : Pres (Mute tok) (disallowFutureUse o) := by
  constructor
  intro s r s' h
  rw [disallowFutureUse_run] at h
  split at h
  · cases h; exact Mute.refl _ _
  · split at h <;> cases h
    · exact (Mute.afterDis s o).1
    · exact (Mute.afterDis s o).2
    · exact Mute.refl _ _
    · exact Mute.refl _ _

instance (tok : Nat) : DisLocal (Mute tok) := ⟨PresMu.disallowFutureUse tok⟩

/-! ## handlers -/

theorem deliveryCheck_inv {o t : Nat} {s s1 : State} {r : Except Panic Unit}
    (h : (deliveryCheck o t).run.run s = (r, s1)) : s1 = s ∧ (r = .ok () → Deliverable s o t) := by
  unfold deliveryCheck at h
  cases e : s.observers[o]? with
  | none => rw [run_bind_error (run_getObs_none e)] at h; cases h; exact ⟨rfl, fun h => by cases h⟩
  | some ob =>
    rw [run_bind_ok (run_getObs_some e), run_assertM] at h
    split at h <;> cases h
    · rename_i hc
      refine ⟨rfl, fun _ => ⟨ob, e, ?_, ?_⟩⟩
      · simp only [Bool.and_eq_true, beq_iff_eq] at hc; exact hc.1
      · simp only [Bool.and_eq_true, List.any_eq_true, beq_iff_eq] at hc
        obtain ⟨x, hx, hxt⟩ := hc.2
        exact List.mem_map.2 ⟨x, hx, hxt⟩
    · exact ⟨rfl, fun h => by cases h⟩

/-- the one notification site, behind its ghost check -/
theorem PresMu.check_notif {β} (tok o t : Nat) (upd : Update) (k : Unit → M β)
    (hk : ∀ u, Pres (Mute tok) (k u)) :
    Pres (Mute tok) (deliveryCheck o t >>= fun _ => logEv (.notif t upd) >>= k) := by
  constructor
  intro s r s' hrun
  rw [run_bind] at hrun
  rcases hc : (deliveryCheck o t).run.run s with ⟨rc, sc⟩
  obtain ⟨rfl, hdel⟩ := deliveryCheck_inv hc
  rw [hc] at hrun
  cases rc with
  | error e => cases hrun; exact Mute.refl _ _
  | ok u =>
    simp only [] at hrun
    obtain ⟨ob, e, hst, htok⟩ := hdel rfl
    by_cases htt : t = tok
    · -- a live token is not dead
      intro hd
      exfalso
      refine hd.2 o ob e ?_
      rw [← htt]
      simp only [liveTokens, hst]
      exact htok
    · rw [run_bind] at hrun
      have h1 : Mute tok sc { sc with log := .notif t upd :: sc.log } := fun hd =>
        ⟨hd, fun e' he' => by
          rcases List.mem_cons.1 he' with rfl | h
          · exact .inr fun u hu => by cases hu; exact htt rfl
          · exact .inl h⟩
      exact Mute.trans h1 ((hk ()).h _ _ _ hrun)

macro_rules
  | `(tactic| lspecial) => `(tactic| with_reducible apply PresMu.check_notif)

theorem PresMu.runAllBodyChecked (tok env fuel o n nu now h) :
    Pres (Mute tok) (runAllBodyChecked env fuel o n nu now h) := by
  unfold Life.runAllBodyChecked; lpres

theorem PresMu.runAll (tok env fuel o n nu now) : Pres (Mute tok) (runAll env fuel o n nu now) := by
  rw [← runAllChecked_eq]
  unfold runAllChecked
  have := PresMu.runAllBodyChecked tok env fuel o n nu now
  lpres
  all_goals exact this _
life_leaf PresMu.runAll

theorem PresMu.stabiliseEnd (tok env fuel) : Pres (Mute tok) (stabiliseEnd env fuel) := by
  unfold Engine.stabiliseEnd; lpres
life_leaf PresMu.stabiliseEnd

/-! ## the observer phases, `stabilise` -/

/-- `Mute` does not look at the two observer queues -/
macro_rules
  | `(tactic| lleaf) =>
    `(tactic| ((with_reducible apply Pres.modify); intro _; exact Mute.of_dead (fun hd => hd) rfl))

/-- the loop body shape of `add_new_observers`, for any relation -/
theorem Pres.getObs_match {R : State → State → Prop} [PreOrd R] {β} (o : Nat) (k1 k2 k3 : M β)
    (f : ObsRec → ObsRec) (k4 : ObsRec → M β)
    (hf : ∀ (s : State) (x : ObsRec), s.observers[o]? = some x → x.state = .created →
      R s { s with observers := s.observers.modify o f })
    (h1 : Pres R k1) (h2 : Pres R k2) (h3 : Pres R k3) (h4 : ∀ ob, Pres R (k4 ob)) :
    Pres R (getObs o >>= fun ob => match ob.state with
      | .inUse => k1 | .disallowed => k2 | .unlinked => k3
      | .created => Engine.modObs o f >>= fun _ => k4 ob) := by
  constructor
  intro s r s' h
  cases hob : s.observers[o]? with
  | none => rw [run_bind_error (run_getObs_none hob)] at h; cases h; exact PreOrd.refl _
  | some ob =>
    rw [run_bind_ok (run_getObs_some hob)] at h
    cases hst : ob.state <;> simp only [hst] at h
    · rw [run_bind, run_modObs] at h
      exact PreOrd.trans (hf s ob hob hst) ((h4 ob).h _ _ _ h)
    · exact h1.h _ _ _ h
    · exact h2.h _ _ _ h
    · exact h3.h _ _ _ h

theorem PresMu.addNewObservers (tok env fuel) : Pres (Mute tok) (addNewObservers env fuel) := by
  unfold Engine.addNewObservers
  apply Pres.bind Pres.get; intro _
  apply Pres.bind
  · lpres
  intro _
  apply Pres.bind _ (fun _ => Pres.pure _)
  apply Pres.forIn; intro o _
  refine Pres.getObs_match o _ _ _ _ _ (fun s x hx hst => ?_) ?_ ?_ ?_ fun ob => ?_
  · exact Mute.modify_at o (fun x => { x with state := .inUse }) rfl rfl rfl fun y hy t ht => by
      rw [hx] at hy; cases hy
      simpa [liveTokens, hst] using ht
  all_goals lpres
life_leaf PresMu.addNewObservers

theorem PresMu.unlinkDisallowedObservers (tok fuel) :
    Pres (Mute tok) (unlinkDisallowedObservers fuel) := by
  unfold Engine.unlinkDisallowedObservers; lpres
life_leaf PresMu.unlinkDisallowedObservers

theorem PresMu.stabilise (tok env fuel) : Pres (Mute tok) (stabilise env fuel) := by
  unfold Engine.stabilise; lpres
life_leaf PresMu.stabilise

/-! ## `subscribe` issues a fresh token -/

theorem Pres.get_bind_at {R : State → State → Prop} {β} (k : State → M β)
    (h : ∀ s0 r s', (k s0).run.run s0 = (r, s') → R s0 s') : Pres R (get >>= k) := by
  constructor
  intro s r s' hrun
  rw [run_bind, run_get] at hrun
  exact h s r s' hrun

theorem PresMu.subscribe (tok o hid) : Pres (Mute tok) (subscribe o hid) := by
  unfold Engine.subscribe
  apply Pres.get_bind_at
  intro s r s' hrun
  split at hrun
  · simp only [run_pure] at hrun; cases hrun; exact Mute.refl _ _
  cases hob : s.observers[o]? with
  | none => rw [run_bind_error (run_getObs_none hob)] at hrun; cases hrun; exact Mute.refl _ _
  | some ob =>
    rw [run_bind_ok (run_getObs_some hob)] at hrun
    have key : ∀ (rest : M (Except ObsError Nat)), Pres (Mute tok) rest →
        ((modify fun s => { s with nextToken := s.nextToken + 1 }) >>= fun _ =>
          Engine.modObs o (fun x => { x with handlers := x.handlers ++
            [{ token := s.nextToken, hid := hid, createdAt := s.stabNum }] }) >>= fun _ => rest).run.run s
          = (r, s') → Mute tok s s' := by
      intro rest hrest h
      simp only [run_bind, run_modify, run_modObs] at h
      have h2 := hrest.h _ _ _ h
      refine Mute.trans ?_ h2
      intro hd
      refine ⟨⟨Nat.lt_succ_of_lt hd.1, fun m x' e' hm => ?_⟩, fun e he => .inl he⟩
      simp only [Array.getElem?_modify] at e'
      split at e'
      · rename_i hmo; subst hmo
        rw [hob] at e'
        simp only [Option.map_some, Option.some.injEq] at e'
        subst e'
        have : tok ∈ liveTokens ob ∨ tok = s.nextToken := by
          revert hm
          simp only [liveTokens]
          cases ob.state <;> simp
        rcases this with h1 | h1
        · exact hd.2 o ob hob h1
        · exact absurd hd.1 (by rw [h1]; exact Nat.lt_irrefl _)
      · exact hd.2 m x' e' hm
    cases hst : ob.state <;> simp only [hst] at hrun
    · exact key _ (by lpres) hrun
    · exact key _ (by lpres) hrun
    · simp only [run_pure] at hrun; cases hrun; exact Mute.refl _ _
    · simp only [run_pure] at hrun; cases hrun; exact Mute.refl _ _
life_leaf PresMu.subscribe

theorem PresMu.unsubscribe (tok o t w) : Pres (Mute tok) (unsubscribe o t w) := by
  unfold Engine.unsubscribe; lpres
life_leaf PresMu.unsubscribe

theorem Mute.of_push {tok : Nat} {s s' : State} (n : Nat)
    (ho : s'.observers = s.observers.push { node := n }) (hn : s'.nextToken = s.nextToken)
    (hl : s'.log = s.log) : Mute tok s s' := by
  refine Mute.of_dead (Dead.of_shrink (Nat.le_of_eq hn.symm) fun m ob' e' hm => ?_) hl
  rw [ho, Array.getElem?_push] at e'
  split at e'
  · cases e'; exact absurd hm List.not_mem_nil
  · exact ⟨m, ob', e', hm⟩

macro_rules
  | `(tactic| lleaf) =>
    `(tactic| ((with_reducible apply Pres.modify); intro _; exact Mute.of_push _ rfl rfl rfl))

/-- every API action, every outcome: a dead token stays dead and is not notified -/
theorem PresMu.stepAction (tok : Nat) (env : Env) (a : Action) (tokens : Array Nat) :
    Pres (Mute tok) (stepAction env a tokens) := by
  cases a <;> (simp only [Engine.stepAction]; lpres)

theorem Run.mute {env : Env} {P : Action → Except Panic (String × Array Nat) → Prop} {s s' : State}
    (tok : Nat) (h : Run env P s s') : Mute tok s s' :=
  Run.induct (fun a tokens _ => PresMu.stepAction tok env a tokens)
    (fun _ hd => ⟨hd, fun _ he => absurd he List.not_mem_nil⟩) h

end IncrVerif.Proofs.Life
