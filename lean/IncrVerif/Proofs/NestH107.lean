import IncrVerif.Proofs.NestH106
/-!
# Total correctness for nested binds (F2), part i2: the ingredients of the history theorem

* `T2i.stepAction_size`: the node count only grows in an API action (every action, every outcome);
* `T2i.RFrame`: what `RhsRan` reads (bind table, validity and `recomputedAt` of the nodes); kept by the simple actions (`T2i.PresR.stepAction`: observer actions,
  writes, read-only actions — every outcome);
* `step_rhsRan2`: `RhsRan` is kept by every action of F2 other than `stabilise` (`create`: the new nodes are pristine — `recomputedAt = -1` —, a new bind record
  has a new change detector; old records and old nodes are untouched: `C2c.Ext`);
* `runS`: `Quiet.runActions` that also returns the state reached when an action panics; `runS_none_iff`, `runS_some_iff`, `runS_size`;
* `ActionIdx`, `ValidIdx`: the indices named by the actions of a history exist, in terms of the statically known numbers of naming-table entries, var cells,
  observers (no room condition; the node count is not tracked).
-/
namespace IncrVerif.Proofs.NestH
open IncrVerif.Engine IncrVerif.Driver IncrVerif.Proofs IncrVerif.Proofs.Step IncrVerif.Proofs.Sched IncrVerif.Proofs.Quiet
open IncrVerif.Proofs.BindH

namespace T2i

/-! ## the node count only grows -/

/-- every API action, every outcome: no node is removed -/
theorem PresMono.stepAction (env : Env) (a : Action) (tokens : Array Nat) : Step.Pres Inval.Mono (stepAction env a tokens) := by
  cases a <;> (simp only [Engine.stepAction]; mpres)

theorem stepAction_size {env : Env} {a : Action} {tk : Array Nat} {s s' : State} {r : Except Panic (String × Array Nat)}
    (h : (stepAction env a tk).run.run s = (r, s')) : s.nodes.size ≤ s'.nodes.size :=
  ((PresMono.stepAction env a tk).h s r s' h).size

/-! ## what `RhsRan` reads -/

structure RFrame (s s' : State) : Prop where
  binds : s'.binds = s.binds
  valid : ∀ m, (s'.nodeD m).valid = (s.nodeD m).valid
  recomputedAt : ∀ m, (s'.nodeD m).recomputedAt = (s.nodeD m).recomputedAt

theorem RFrame.refl (s : State) : RFrame s s := ⟨rfl, fun _ => rfl, fun _ => rfl⟩

theorem RFrame.trans {a b c : State} (h1 : RFrame a b) (h2 : RFrame b c) : RFrame a c :=
  ⟨h2.binds.trans h1.binds, fun m => (h2.valid m).trans (h1.valid m), fun m => (h2.recomputedAt m).trans (h1.recomputedAt m)⟩

instance : PreOrd RFrame := ⟨RFrame.refl, RFrame.trans⟩

theorem RFrame.of_nodes {s s' : State} (h1 : s'.nodes = s.nodes) (h2 : s'.binds = s.binds) : RFrame s s' := by
  have hD : ∀ m, s'.nodeD m = s.nodeD m := fun m => by simp only [State.nodeD, h1]
  exact ⟨h2, fun m => by rw [hD], fun m => by rw [hD]⟩

theorem RFrame.modNode (s : State) (n : Nat) (f : Node → Node) (hf : ∀ x, (f x).valid = x.valid ∧ (f x).recomputedAt = x.recomputedAt) :
    RFrame s { s with nodes := s.nodes.modify n f } := by
  refine ⟨rfl, fun m => ?_, fun m => ?_⟩
  · rw [nodeD_modify]; split
    · exact (hf _).1
    · rfl
  · rw [nodeD_modify]; split
    · exact (hf _).2
    · rfl

theorem RFrame.rhsRan {s s' : State} (F : RFrame s s') (H : RhsRan s) : RhsRan s' :=
  rhsRan_congr H F.binds F.valid F.recomputedAt

theorem PresR.modNode (n : Nat) (f : Node → Node) (hf : ∀ x, (f x).valid = x.valid ∧ (f x).recomputedAt = x.recomputedAt) :
    Step.Pres RFrame (modNode n f) := by
  unfold Engine.modNode; exact Step.Pres.modify fun s => RFrame.modNode s n f hf

macro_rules
  | `(tactic| qleaf) =>
    `(tactic| ((with_reducible apply Step.Pres.modify); intro _; exact RFrame.of_nodes rfl rfl))
macro_rules
  | `(tactic| qleaf) => `(tactic| ((with_reducible apply PresR.modNode); intro _; exact ⟨rfl, rfl⟩))

/-- register a `Pres RFrame` lemma as a leaf -/
macro "rf_leaf " n:ident : command =>
  `(macro_rules | `(tactic| qleaf) => `(tactic| with_reducible apply $n))

theorem PresR.bumpCounter (f) : Step.Pres RFrame (bumpCounter f) := by unfold Engine.bumpCounter; qpres
rf_leaf PresR.bumpCounter
theorem PresR.modVar (b f) : Step.Pres RFrame (modVar b f) := by unfold Engine.modVar; qpres
rf_leaf PresR.modVar
theorem PresR.modObs (b f) : Step.Pres RFrame (modObs b f) := by unfold Engine.modObs; qpres
rf_leaf PresR.modObs
theorem PresR.rchLink (n) : Step.Pres RFrame (rchLink n) := by unfold Engine.rchLink; qpres
rf_leaf PresR.rchLink
theorem PresR.rchInsert (n) : Step.Pres RFrame (rchInsert n) := by unfold Engine.rchInsert; qpres
rf_leaf PresR.rchInsert
theorem PresR.didSetVarWhileNotStabilising (v) : Step.Pres RFrame (didSetVarWhileNotStabilising v) := by
  unfold Engine.didSetVarWhileNotStabilising; qpres
rf_leaf PresR.didSetVarWhileNotStabilising
theorem PresR.writeVar (v f b) : Step.Pres RFrame (writeVar v f b) := by unfold Engine.writeVar; qpres
rf_leaf PresR.writeVar
theorem PresR.disallowFutureUse (o) : Step.Pres RFrame (disallowFutureUse o) := by
  unfold Engine.disallowFutureUse; qpres
rf_leaf PresR.disallowFutureUse

/-- the observer actions, the writes and the read-only actions keep what `RhsRan` reads, whatever their outcome -/
theorem PresR.stepAction (env : Env) {a : Action} (tokens : Array Nat) (ha : SimpleAction a) : Step.Pres RFrame (stepAction env a tokens) := by
  cases a <;> try exact ha.elim
  all_goals (unfold Engine.stepAction; qpres)

end T2i

/-- **`RhsRan` ("a valid change detector that has run has installed a right-hand side") is kept by every API action of F2 other than `stabilise`.** -/
theorem step_rhsRan2 {env : Env} {rk : Nat → Nat} {s s' : State} {a : Action} {tk : Array Nat} {r : String × Array Nat}
    (Q : QInv2 env rk s) (H : RhsRan s) (ha : ActionF2 env s.top.size a) (hns : a ≠ .stabilise)
    (h : (stepAction env a tk).run.run s = (.ok r, s')) : RhsRan s' := by
  by_cases hc : ∃ i, a = .create i
  · obtain ⟨i, rfl⟩ := hc
    obtain ⟨rk', U, Q', E, -⟩ := step_create2_rk Q ha h
    intro b br hbr hv hrec
    by_cases hlt : br.lhsChange < s.nodes.size
    · -- an old change detector: the record is old
      have hk' := (Q'.struct.frag.recs b br hbr).2.2.1
      rw [E.old _ hlt] at hk' hv hrec
      obtain ⟨br0, hbr0, -⟩ := (Q.struct.frag.node _ hlt).lcRec b hk'
      have hb : b < s.binds.size := (Array.getElem?_eq_some_iff.1 hbr0).1
      rw [E.bold b hb, hbr0] at hbr
      cases hbr
      exact H b _ hbr0 hv hrec
    · -- a new change detector has not run
      exact absurd (E.new _ (by omega)).recomputedAt hrec
  · have hc' : ∀ i, a ≠ .create i := fun i e => hc ⟨i, e⟩
    exact ((T2i.PresR.stepAction env tk (T2k.simple_of_F2 ha hc' hns)).h _ _ _ h).rhsRan H

/-! ## the state-keeping runner -/

/-- run a history; returns the panic (if any) and the state reached — `M` keeps the state when a panic is raised -/
def runS (env : Env) : List Action → State → Array Nat → Option Panic × State
  | [], s, _ => (none, s)
  | a :: as, s, tk =>
    match (stepAction env a tk).run.run s with
    | (.ok r, s') => runS env as s' r.2
    | (.error e, s') => (some e, s')

theorem runS_none_iff (env : Env) (acts : List Action) (s s' : State) (tk : Array Nat) :
    (runS env acts s tk = (none, s')) ↔ ∃ tk', Quiet.runActions env acts s tk = .ok (s', tk') := by
  induction acts generalizing s tk with
  | nil =>
    simp only [runS, Quiet.runActions]
    constructor
    · intro h; cases h; exact ⟨tk, rfl⟩
    · rintro ⟨tk', h⟩; cases h; rfl
  | cons a as ih =>
    simp only [runS, Quiet.runActions]
    rcases (stepAction env a tk).run.run s with ⟨e | r, s1⟩
    · simp
    · exact ih s1 r.2

theorem runS_some_iff (env : Env) (acts : List Action) (s : State) (tk : Array Nat) (e : Panic) :
    (∃ s', runS env acts s tk = (some e, s')) ↔ Quiet.runActions env acts s tk = .error e := by
  induction acts generalizing s tk with
  | nil => simp [runS, Quiet.runActions]
  | cons a as ih =>
    simp only [runS, Quiet.runActions]
    rcases (stepAction env a tk).run.run s with ⟨e' | r, s1⟩
    · simp only [Prod.mk.injEq, Option.some.injEq, Except.error.injEq]
      constructor
      · rintro ⟨_, h, -⟩; exact h
      · intro h; exact ⟨s1, h, rfl⟩
    · exact ih s1 r.2

/-- the node count only grows along a history, whatever the outcome -/
theorem runS_size (env : Env) (acts : List Action) (s : State) (tk : Array Nat) :
    s.nodes.size ≤ (runS env acts s tk).2.nodes.size := by
  induction acts generalizing s tk with
  | nil => exact Nat.le_refl _
  | cons a as ih =>
    simp only [runS]
    rcases hx : (stepAction env a tk).run.run s with ⟨e | r, s1⟩
    · exact T2i.stepAction_size hx
    · exact Nat.le_trans (T2i.stepAction_size hx) (ih s1 r.2)

/-! ## index validity, statically -/

/-- `ActionIn2` in terms of the numbers of naming-table entries, var cells and observers -/
def ActionIdx (nt nv no : Nat) : Action → Prop
  | .create i =>
    (match i with
      | .map _ args => ∀ a, a ∈ args → ∃ k, a = Opnd.outer k ∧ k < nt
      | .fold _ _ cs => ∀ a, a ∈ cs → ∃ k, a = Opnd.outer k ∧ k < nt
      | .zip a b => (∃ k, a = Opnd.outer k ∧ k < nt) ∧ (∃ k, b = Opnd.outer k ∧ k < nt)
      | .bind _ lhs => ∃ k, lhs = Opnd.outer k ∧ k < nt
      | _ => True)
  | .observe n => ∃ k, n = Opnd.outer k ∧ k < nt
  | .dropObs o | .disallow o => o < no
  | .set v _ | .modify v _ | .update v _ | .replace v _ | .replaceWith v _ | .get v => v < nv
  | _ => True

theorem actionIn2_of {s : State} {a : Action} (h : ActionIdx s.top.size s.vars.size s.observers.size a) : ActionIn2 s a := by
  cases a <;> try exact h
  case create i =>
    cases i <;> try trivial
    case map f args => exact fun a ha => T2k.opndIn_of2 rfl (h a ha)
    case fold f init cs => exact fun a ha => T2k.opndIn_of2 rfl (h a ha)
    case zip a b => exact ⟨T2k.opndIn_of2 rfl h.1, T2k.opndIn_of2 rfl h.2⟩
    case bind body lhs => exact T2k.opndIn_of2 rfl h
  case observe n => exact T2k.opndIn_of2 rfl h

/-- the indices named by the actions of a history exist; `nt`, `nv`, `no` = numbers of naming-table entries, var cells, observers before the history
(a `create` adds a naming-table entry, a `create (var _)` a var cell, an `observe` an observer; a `stabilise` changes none of them) -/
def ValidIdx : Nat → Nat → Nat → List Action → Prop
  | _, _, _, [] => True
  | nt, nv, no, a :: as =>
    ActionIdx nt nv no a ∧ ValidIdx (nt + growTop a) (nv + (grow2 a).2.1) (no + (grow2 a).2.2) as

end IncrVerif.Proofs.NestH
