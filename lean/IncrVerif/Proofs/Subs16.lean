import IncrVerif.Proofs.Subs15
/-!
# Subscriptions, part 14: a live registration stays live until it is killed
-/
namespace IncrVerif.Proofs.SubsH
open IncrVerif.Engine IncrVerif.Driver IncrVerif.Proofs IncrVerif.Proofs.Step IncrVerif.Proofs.Sched
open IncrVerif.Proofs.Quiet

/-- the actions that may end the registration of token `t` on observer `o` -/
def Kills (t o : Nat) : Action → Prop
  | .unsubscribe o' t' => o' = o ∧ t' = t
  | .stateUnsub t' => t' = t
  | .disallow o' => o' = o
  | .dropObs o' => o' = o
  | _ => False

/-! ## keeping a live registration -/

/-- the record of `o` keeps its state and the handler record `x` -/
theorem P14.live_keep {s s' : State} {t o : Nat} {x : HandlerRec} (hl : Live s t o x)
    (h : ∀ ob, s.observers[o]? = some ob → x ∈ ob.handlers →
      ∃ ob', s'.observers[o]? = some ob' ∧ ob'.state = ob.state ∧ x ∈ ob'.handlers) : Live s' t o x := by
  obtain ⟨ob, ho, hs, hx, ht⟩ := hl
  obtain ⟨ob', ho', hs', hx'⟩ := h ob ho hx
  exact ⟨ob', ho', by rw [hs']; exact hs, hx', ht⟩

theorem P14.live_same {s s' : State} {t o : Nat} {x : HandlerRec} (hl : Live s t o x)
    (h : s'.observers[o]? = s.observers[o]?) : Live s' t o x :=
  P14.live_keep hl fun ob ho hx => ⟨ob, by rw [h]; exact ho, rfl, hx⟩

/-- one record is modified, keeping its state and (when it is the record of `o`) the handler record `x` -/
theorem P14.live_modify {s s' : State} {t o o' : Nat} {x : HandlerRec} {f : ObsRec → ObsRec}
    (hl : Live s t o x) (ho : s'.observers = s.observers.modify o' f)
    (hf : o' = o → ∀ ob, (f ob).state = ob.state ∧ (x ∈ ob.handlers → x ∈ (f ob).handlers)) :
    Live s' t o x := by
  refine P14.live_keep hl fun ob hob hx => ?_
  rw [ho, Array.getElem?_modify]
  by_cases e : o' = o
  · rw [if_pos e, hob]
    exact ⟨f ob, rfl, (hf e ob).1, (hf e ob).2 hx⟩
  · rw [if_neg e]
    exact ⟨ob, hob, rfl, hx⟩

theorem P14.mem_filter_ne {l : List HandlerRec} {x : HandlerRec} {t t' : Nat} (ht : x.token = t)
    (hne : t' ≠ t) (hx : x ∈ l) : x ∈ l.filter (·.token != t') := by
  rw [List.mem_filter]
  refine ⟨hx, ?_⟩
  rw [ht]
  simpa using fun e => hne e.symm

theorem P14.disallowState_other (s : State) {o o' : Nat} (hne : o' ≠ o) :
    (Life.disallowState s o').observers[o]? = s.observers[o]? := by
  unfold Life.disallowState
  split
  · rfl
  · split
    · simp only [Life.afterDisCreated, Array.getElem?_modify, if_neg hne]
    · simp only [Life.afterDisInUse, Array.getElem?_modify, if_neg hne]
    · rfl
    · rfl

theorem P14.dropObsState_other (s : State) {o o' : Nat} (hne : o' ≠ o) :
    (Life.dropObsState s o').observers[o]? = s.observers[o]? := by
  unfold Life.dropObsState
  have h1 : ({ s with observers := s.observers.modify o' fun x => { x with clones := x.clones - 1 } } :
      State).observers[o]? = s.observers[o]? := by
    show (s.observers.modify o' _)[o]? = _
    rw [Array.getElem?_modify, if_neg hne]
  split
  · rfl
  · dsimp only
    split
    · rfl
    · split
      · rw [P14.disallowState_other _ hne, h1]
      · exact h1

/-- a successful `subscribe` makes its token live on its observer -/
theorem subscribe_live {env : Env} {s s' : State} {o hid : Nat} {tokens : Array Nat} {r : String × Array Nat}
    (U : UInv env s) (h : (stepAction env (.subscribe o hid) tokens).run.run s = (.ok r, s'))
    (hr : s'.nextToken = s.nextToken + 1) : liveObs s' s.nextToken = some o := by
  obtain ⟨U', -, hc⟩ := step_subscribe U h
  rcases hc with ⟨e, -⟩ | ⟨-, -, ob, hob, hst, ho⟩
  · rw [e] at hr; omega
  · refine liveObs_of_live (x := { token := s.nextToken, hid := hid, createdAt := s.stabNum }) U'.hinv
      ⟨{ ob with handlers := ob.handlers ++ [{ token := s.nextToken, hid := hid, createdAt := s.stabNum }] },
        ?_, hst, ?_, rfl⟩
    · rw [ho, Array.getElem?_modify, if_pos rfl, hob]; rfl
    · exact List.mem_append_right _ (List.mem_singleton.2 rfl)

theorem P14.stab_keeps {env : Env} {fuel : Nat} {s s' : State} {t o : Nat} {x : HandlerRec}
    (R : Stabilised env fuel s s') (hl : Live s t o x) : ∃ x', Live s' t o x' := by
  obtain ⟨ob, ho, hs, hx, ht⟩ := hl
  obtain ⟨ob', ho', -, hst'⟩ := R.obs.2 o ob ho
  have hst : ob'.state = .inUse := by
    rw [hst']; rcases hs with e | e <;> rw [e] <;> rfl
  obtain ⟨t3, M⟩ := R.mid
  have hlt : o < t3.observers.size := by
    rw [M.obsMap.1]; exact (Array.getElem?_eq_some_iff.1 ho).1
  obtain ⟨ob3, ho3⟩ : ∃ ob3, t3.observers[o]? = some ob3 := ⟨_, Array.getElem?_eq_getElem hlt⟩
  have hh : ob3.handlers = ob.handlers := by
    have := M.handlers o
    rw [hOf_of_some ho3, hOf_of_some ho] at this
    exact this
  have hE := M.ended.obs o ob3 ho3
  rw [ho'] at hE
  injection hE with hE
  split at hE
  · refine ⟨stepPrev (nuAt env t3 ob3.node) x, ob', ho', Or.inr hst, ?_, ?_⟩
    · rw [hE]
      exact List.mem_map.2 ⟨x, by rw [hh]; exact hx, rfl⟩
    · rw [← ht]; unfold stepPrev; split <;> rfl
  · exact ⟨x, ob', ho', Or.inr hst, by rw [hE, hh]; exact hx, ht⟩

/-- **a live registration stays live** under every action of the fragment that does not kill it
(`stabilise` included: a created observer goes in use, the record is stepped, the token stays) -/
theorem live_persists {env : Env} {s s' : State} {a : Action} {tokens : Array Nat} {r : String × Array Nat}
    {t o : Nat} (U : UInv env s) (heff : PureHandlers env) (ha : SubAction env a) (hk : ¬ Kills t o a)
    (h : (stepAction env a tokens).run.run s = (.ok r, s')) (hl : liveObs s t = some o) :
    liveObs s' t = some o := by
  have H' : HInv s' := (step_u U heff ha h).1.hinv
  obtain ⟨x, hx⟩ := liveObs_some hl
  have ht : x.token = t := by obtain ⟨_, _, _, _, ht⟩ := hx; exact ht
  suffices ∃ x', Live s' t o x' by
    obtain ⟨x', hx'⟩ := this
    exact liveObs_of_live H' hx'
  cases a <;> try exact ha.elim
  case create i =>
    obtain ⟨-, -, K⟩ := step_create U.core ha h
    exact ⟨x, P14.live_same hx (by rw [K.observers])⟩
  case observe n =>
    rw [Life.stepAction_observe_run] at h
    cases hn : Life.resolvePure s [] n with
    | error e => rw [hn] at h; cases h
    | ok m =>
      rw [hn] at h
      have e : s' = Obs.pushObserver s m := by cases h; rfl
      refine ⟨x, P14.live_keep hx fun ob ho hm => ⟨ob, ?_, rfl, hm⟩⟩
      have hlt : o < s.observers.size := (Array.getElem?_eq_some_iff.1 ho).1
      rw [e]
      show (s.observers.push _)[o]? = _
      rw [Array.getElem?_push, if_neg (by omega)]; exact ho
  case cloneObs o' =>
    rw [Life.stepAction_cloneObs_run] at h
    have e : s'.observers = s.observers.modify o' fun x => { x with clones := x.clones + 1 } := by
      cases h; rfl
    exact ⟨x, P14.live_modify hx e (fun _ ob => ⟨rfl, id⟩)⟩
  case dropObs o' =>
    have hne : o' ≠ o := fun e => hk e
    rw [Life.stepAction_dropObs_run] at h
    have e : s' = Life.dropObsState s o' := (Prod.mk.inj h).2.symm
    exact ⟨x, P14.live_same hx (by rw [e]; exact P14.dropObsState_other s hne)⟩
  case disallow o' =>
    have hne : o' ≠ o := fun e => hk e
    rw [Life.stepAction_disallow_run] at h
    have e : s' = Life.disallowState s o' := (Prod.mk.inj h).2.symm
    exact ⟨x, P14.live_same hx (by rw [e]; exact P14.disallowState_other s hne)⟩
  case subscribe o' hid =>
    obtain ⟨-, -, hc⟩ := step_subscribe U h
    rcases hc with ⟨e, -⟩ | ⟨-, -, ob, -, -, ho⟩
    · rw [e]; exact ⟨x, hx⟩
    · exact ⟨x, P14.live_modify hx ho (fun _ ob => ⟨rfl, fun hm => List.mem_append_left _ hm⟩)⟩
  case unsubscribe o' t' =>
    obtain ⟨-, -, -, -, hc⟩ := step_unsubscribe U h
    rcases hc with e | ⟨-, ob, -, -, ho⟩
    · rw [e]; exact ⟨x, hx⟩
    · refine ⟨x, P14.live_modify hx ho (fun e ob => ⟨rfl, fun hm => ?_⟩)⟩
      have hne : t' ≠ t := fun e' => hk ⟨e, e'⟩
      exact P14.mem_filter_ne ht hne hm
  case stateUnsub t' =>
    obtain ⟨-, -, -, -, hc⟩ := step_stateUnsub U h
    rcases hc with e | ⟨o', ob, -, -, -, ho⟩
    · rw [e]; exact ⟨x, hx⟩
    · refine ⟨x, P14.live_modify hx ho (fun e ob => ⟨rfl, fun hm => ?_⟩)⟩
      have hne : t' ≠ t := fun e' => hk e'
      exact P14.mem_filter_ne ht hne hm
  case stabilise => exact P14.stab_keeps (stabilise_u U heff (step_stabilise h)) hx
  all_goals
    (obtain ⟨-, -, K⟩ := step_write U.core (by trivial) h
     exact ⟨x, P14.live_same hx (by rw [K.observers])⟩)

end IncrVerif.Proofs.SubsH
