import IncrVerif.Proofs.MemoH10
import IncrVerif.Proofs.MemoH13
import IncrVerif.Proofs.MemoH16
/-!
# C20 over whole histories, part 9: K3 assembled; checkers and concrete states for the examples
-/
namespace IncrVerif.Proofs.MemoH
open IncrVerif.Engine IncrVerif.Proofs.Obs IncrVerif.Proofs.Memo IncrVerif.Proofs.Own

/-- a table entry is registered with no bind -/
theorem entry_not_registered {env : Env} {s : State} (ht : TInv env s) (hr : RegScoped s) {m : Nat}
    {tbl : List (Int × Nat)} (hm : (m, tbl) ∈ s.memos) {key : Int} {n : Nat} (hk : (key, n) ∈ tbl) (b : Nat) :
    n ∉ rhsNodes s b := by
  intro hn
  unfold rhsNodes at hn
  cases hb : s.binds[b]? with
  | none => rw [hb] at hn; cases hn
  | some br =>
    rw [hb] at hn
    have h1 := (hr b br hb n hn).2
    have h2 := (ht.entry m tbl hm key n hk).facts.2
    rw [h2] at h1; cases h1

theorem regScoped_init (k : Nat) (d : Bool) : RegScoped (State.init k d) :=
  fun b br h => by simp [State.init] at h

theorem topValid_init (k : Nat) (d : Bool) : TopValid (State.init k d) :=
  fun n h => absurd h.lt (by simp [State.init])

theorem entriesSTop_of_nil {s : State} (h : s.memos = []) : EntriesSTop s :=
  fun m tbl hm => by rw [h] at hm; cases hm

/-- K3 assembled: along any history of the fragment, the table entries stay hereditarily static top-level nodes,
all such nodes stay valid, registrations stay scoped -/
theorem k3_run {env : Env} (hok : MemoBodyOK env) (henv : EnvK3 env) {P} {s s' : State}
    (h : Life.Run env P s s') (ho : MemoOuterOK env s) (he : EntriesSTop s) (hv : TopValid s)
    (hr : RegScoped s) (hn : NoPK s') :
    EntriesSTop s' ∧ TopValid s' ∧ RegScoped s' ∧ MemoOuterOK env s' := by
  have h1 := es_run hok h
  have h2 := topValid_run_cor (aspec env henv) henv h hn hr hv
  exact ⟨h1.stop ho he, h2.1, h2.2, ho.mono h1.fut⟩

/-! ## a Boolean checker for `NoPK` -/

def noPKb (s : State) : Bool :=
  (List.range s.nodes.size).all fun n =>
    match (s.nodeD n).kind with
    | .map f _ => decide (f < fnPerKey)
    | _ => true

theorem noPKb_sound {s : State} (h : noPKb s = true) : NoPK s := by
  intro n f args hn hk
  have := (List.all_eq_true.1 h) n (List.mem_range.2 hn)
  rw [hk] at this
  simpa using this

/-! ## concrete environment and histories for the examples -/

/-- memo function (any id): `|key| map f0 (n0, const key)`; bind body (any id, any input): calls memo 0 with
key 1 and returns that node; `f0` adds the integer views -/
def exEnvH : Env := { Obs.exEnv with
  fn := fun _ vs => .int ((vs.map Val.toInt).foldl (· + ·) 0),
  memo := fun _ => { instrs := [.lhsConst, .map 0 [.outer 0, .loc 0]], ret := .loc 1 },
  body := fun _ _ => { instrs := [.memoCall 0 1], ret := .loc 0 } }

theorem exEnvH_bodyOK : MemoBodyOK exEnvH := fun _ =>
  ⟨fun i hi => by
      simp only [exEnvH, List.mem_cons, List.not_mem_nil, or_false] at hi
      rcases hi with rfl | rfl <;> trivial,
   ⟨1, rfl⟩⟩

theorem exEnvH_k3 : EnvK3 exEnvH :=
  ⟨fun _ _ e he => by simp [exEnvH, Obs.exEnv] at he, fun _ _ e he => by simp [exEnvH, Obs.exEnv] at he⟩

/-- the state the harness reaches after running `acts` from the initial state (height limit 8, debug) -/
def exRun (acts : List Action) : State := (Life.runStates exEnvH acts 0 { s := State.init 8 }).s

/-- call, call again -/
def exShare : List Action :=
  [.create (.var (.int 2)), .create (.memoCall 0 1), .create (.memoCall 0 1)]

/-- call, drop the handle, stabilise, call -/
def exRelease : List Action :=
  [.create (.var (.int 2)), .create (.memoCall 0 1), .dropHandle (.outer 1), .stabilise,
   .create (.memoCall 0 1)]

/-- a bind whose closure calls the memoised function; the bind runs twice; then a top-level call -/
def exBind : List Action :=
  [.create (.var (.int 2)), .create (.bind 0 (.outer 0)), .observe (.outer 1), .stabilise,
   .set 0 (.int 3), .stabilise, .create (.memoCall 0 1)]

/-- after `var 2`: the state from which the K3 hypotheses hold -/
def exVar : State := exRun [.create (.var (.int 2))]

theorem exVar_stop0 : STop exVar 0 :=
  .mk 0 (by decide +kernel) (by decide +kernel) (by
    have : (exVar.nodeD 0).kind = .var 0 := by decide +kernel
    rw [this]; trivial) (by
    have : (exVar.nodeD 0).kind = .var 0 := by decide +kernel
    rw [this]; exact fun _ h => nomatch h) (by
    have : (exVar.nodeD 0).kind = .var 0 := by decide +kernel
    rw [this]; exact fun _ h => nomatch h)

theorem exVar_outerOK : MemoOuterOK exEnvH exVar := by
  intro m i hi o ho
  simp only [exEnvH, List.mem_cons, List.not_mem_nil, or_false] at hi
  rcases hi with rfl | rfl
  · cases ho
  · simp only [instrOpnds, List.mem_cons, List.not_mem_nil, or_false] at ho
    rcases ho with rfl | rfl
    · exact ⟨0, by decide +kernel, exVar_stop0⟩
    · trivial

theorem exVar_topValid : TopValid exVar := by
  intro n hn
  have hlt := hn.lt
  have : exVar.nodes.size = 1 := by decide +kernel
  have : n = 0 := by omega
  subst this
  decide +kernel

theorem exVar_regScoped : RegScoped exVar := by
  intro b br hb
  have : exVar.binds = #[] := by decide +kernel
  rw [this] at hb; simp at hb

/-- the harness state after the first action of the examples -/
def exRs1 : RunState := (traceAction exEnvH 0 (.create (.var (.int 2))) { s := State.init 8 }).1

theorem exVar_eq : exVar = exRs1.s := rfl
theorem exBind_eq : exRun exBind = (Life.runStates exEnvH exBind.tail 1 exRs1).s := by
  simp only [exRun, exBind, List.tail_cons, Life.runStates, exRs1]

/-- the rest of `exBind` is a history from `exVar` -/
theorem exBind_run : Life.Run exEnvH (fun _ _ => True) exVar (exRun exBind) := by
  rw [exVar_eq, exBind_eq]
  exact Life.run_runStates exEnvH (fun _ _ => True) exBind.tail (fun _ _ _ => trivial) 1 exRs1

end IncrVerif.Proofs.MemoH
