import IncrVerif.Proofs.Quiet28
import IncrVerif.Proofs.Life10
import IncrVerif.Proofs.Handlers
/-!
# Subscriptions in the static fragment, part 1: the invariants

`Quiet.QInv` (the invariant between API actions of `Props/C01History.lean`) demands that no observer has an
update handler.  Here it is split into
* `SubsH.QInv env s` — the same invariant WITHOUT the three clauses about update handlers
  (`ob.handlers = []`, `numOnUpdateHandlers ≤ 0`, `handleAfterStab = []`), and
* `SubsH.HInv s` — the bookkeeping of update handlers the model maintains.
`UInv env s := QInv env s ∧ HInv s`.
-/
namespace IncrVerif.Proofs.SubsH
open IncrVerif.Engine IncrVerif.Driver IncrVerif.Proofs IncrVerif.Proofs.Step IncrVerif.Proofs.Sched
open IncrVerif.Proofs.Quiet

/-! ## observers (as `Quiet.ObsInv`, handlers allowed) -/

/-- observer bookkeeping, relative to the observers still waiting to be added (`pn`) and to be unlinked (`pd`) -/
structure ObsInv (s : State) (pn pd : List Nat) : Prop where
  /-- observers watch existing nodes -/
  inRange : ∀ (o : Nat) (ob : ObsRec), s.observers[o]? = some ob → ob.node < s.nodes.size
  /-- the observer list of a node: exactly the linked (in use or disallowed) observers of that node -/
  mem : ∀ n o, o ∈ (s.nodeD n).observers ↔
    ∃ ob, s.observers[o]? = some ob ∧ ob.node = n ∧ (ob.state = .inUse ∨ ob.state = .disallowed)
  created : ∀ (o : Nat) (ob : ObsRec), s.observers[o]? = some ob → ob.state = .created → o ∈ pn
  newIn : ∀ o, o ∈ pn → ∃ ob, s.observers[o]? = some ob
  dis : ∀ (o : Nat) (ob : ObsRec), s.observers[o]? = some ob → (ob.state = .disallowed ↔ o ∈ pd)
  disIn : ∀ o, o ∈ pd → ∃ ob, s.observers[o]? = some ob
  disNodup : pd.Nodup

def ObsOK (s : State) : Prop := ObsInv s s.newObservers s.disallowedObservers

/-! ## the core invariant between API actions (`Quiet.QInv` minus the handler clauses) -/

structure QInv (env : Env) (s : State) : Prop where
  struct : Struct env s
  vars : VarsOK s
  obs : ObsOK s
  now : 0 ≤ s.stabNum
  /-- every stamp is from an earlier round -/
  stamps : ∀ m, (s.nodeD m).recomputedAt < s.stabNum ∧ (s.nodeD m).changedAt < s.stabNum
  varStamp : ∀ (c : Nat) (vc : VarCell), s.vars[c]? = some vc → vc.setAt ≤ s.stabNum
  /-- EVERY node that is not stale (necessary or not) is consistent with its children -/
  cons : ∀ m, m < s.nodes.size → staleOf s m = false → Consistent env s m
  status : s.status = .notStabilising
  alive : s.alive = true
  setDuringStab : s.setDuringStab = []
  deadVars : s.deadVars = []
  pinv : s.propagateInvalidity = []
  /-- the naming table of top-level nodes -/
  top : ∀ (k n : Nat), s.top[k]? = some n → n < s.nodes.size

theorem QInv.quiet {env : Env} {s : State} (Q : QInv env s) : QuietInv env s where
  graph := Q.struct.graph Q.vars
  heap := Q.struct.heapInv
  now := Q.now
  stamps := Q.stamps
  varStamp := Q.varStamp
  queued := Q.struct.queued_iff
  cons m hm hs := by
    have hlt := nec_lt_size hm
    rw [GInv.isStale Q.struct hlt] at hs
    exact Q.cons m hlt hs
  watch n c hn hk := Q.vars.node n c (nec_lt_size hn) hk
  cell c vc h _ := (Q.vars.cell c vc h).2
  status := Q.status

/-- the invariant of `Props/C01History.lean` is the special case without handlers -/
theorem QInv.of_quiet {env : Env} {s : State} (Q : Quiet.QInv env s) : QInv env s :=
  ⟨Q.struct, Q.vars,
    ⟨fun o ob h => (Q.obs.inRange o ob h).1, Q.obs.mem, Q.obs.created, Q.obs.newIn, Q.obs.dis, Q.obs.disIn,
      Q.obs.disNodup⟩,
    Q.now, Q.stamps, Q.varStamp, Q.cons, Q.status, Q.alive, Q.setDuringStab, Q.deadVars, Q.pinv, Q.top⟩

/-! ## the frame of the prefix of `stabilise` (as `Quiet.PFrame`, handler counts may change) -/

def nodeKeyP (nd : Node) :=
  (nd.kind, nd.createdIn, nd.cutoff, nd.value, nd.valid, nd.recomputedAt, nd.changedAt, nd.forceNecessary)

structure PFrame (s s' : State) : Prop where
  size : s'.nodes.size = s.nodes.size
  node : ∀ m, nodeKeyP (s'.nodeD m) = nodeKeyP (s.nodeD m)
  key : stateKeyP s' = stateKeyP s
  pc : s.panicCountdown = none → s'.panicCountdown = none

theorem PFrame.refl (s : State) : PFrame s s := ⟨rfl, fun _ => rfl, rfl, id⟩
theorem PFrame.trans {a b c : State} (h1 : PFrame a b) (h2 : PFrame b c) : PFrame a c :=
  ⟨h2.size.trans h1.size, fun m => (h2.node m).trans (h1.node m), h2.key.trans h1.key,
    fun h => h2.pc (h1.pc h)⟩

theorem PFrame.of_quiet {s s' : State} (h : Quiet.PFrame s s') : PFrame s s' := by
  refine ⟨h.size, fun m => ?_, h.key, h.pc⟩
  have := h.node m
  simp only [Quiet.nodeKeyP, Prod.mk.injEq] at this
  simp only [nodeKeyP, Prod.mk.injEq]
  exact ⟨this.1, this.2.1, this.2.2.1, this.2.2.2.1, this.2.2.2.2.1, this.2.2.2.2.2.1,
    this.2.2.2.2.2.2.1, this.2.2.2.2.2.2.2.1⟩

theorem CFrame.toP {s s' : State} (h : CFrame s s') : PFrame s s' := PFrame.of_quiet (Quiet.CFrame.toP h)

/-! ## the bookkeeping of update handlers -/

/-- the handlers registered on observer `o` -/
def hOf (s : State) (o : Nat) : List HandlerRec :=
  match s.observers[o]? with
  | some ob => ob.handlers
  | none => []

/-- the number of handlers registered on the observers in the observer list of node `n` -/
def numOf (s : State) (n : Nat) : Int :=
  ((s.nodeD n).observers.map fun o => ((hOf s o).length : Int)).sum

/-- the `previous_update_kind`s that occur in the static fragment -/
def PrevOK : Previously → Prop
  | .neverBeenUpdated | .necessary | .changed => True
  | _ => False

/-- the queue of nodes whose handlers run at the end of the stabilisation, and the per-node flag -/
structure HasOK (s : State) : Prop where
  nodup : s.handleAfterStab.Nodup
  flag : ∀ n, n ∈ s.handleAfterStab ↔ (s.nodeD n).inHandleAfterStab = true

/-- what the model maintains about update handlers -/
structure HInv (s : State) : Prop where
  /-- `num_on_update_handlers` of a node = the number of handlers registered on its linked (in use or
  disallowed, not yet unlinked) observers; handlers of `created` observers are counted when the observer is
  linked -/
  count : ∀ n, (s.nodeD n).numOnUpdateHandlers = numOf s n
  obsNodup : ∀ n, (s.nodeD n).observers.Nodup
  /-- registered tokens have been issued and belong to one observer -/
  tok : Life.TokWF s
  tokNodup : ∀ (o : Nat) (ob : ObsRec), s.observers[o]? = some ob → (ob.handlers.map (·.token)).Nodup
  has : HasOK s
  createdAt : ∀ (o : Nat) (ob : ObsRec) (h : HandlerRec), s.observers[o]? = some ob → h ∈ ob.handlers →
    h.createdAt ≤ s.stabNum
  prev : ∀ (o : Nat) (ob : ObsRec) (h : HandlerRec), s.observers[o]? = some ob → h ∈ ob.handlers →
    PrevOK h.prev
  /-- a handler that has not been called yet, on an observer that is (or will be) in use: its node is queued -/
  pending : ∀ (o : Nat) (ob : ObsRec) (h : HandlerRec), s.observers[o]? = some ob →
    (ob.state = .created ∨ ob.state = .inUse) → h ∈ ob.handlers → h.prev = .neverBeenUpdated →
    ob.node ∈ s.handleAfterStab

/-- **the invariant between API actions of the fragment with subscriptions** -/
structure UInv (env : Env) (s : State) : Prop where
  core : QInv env s
  hinv : HInv s

theorem hOf_of_some {s : State} {o : Nat} {ob : ObsRec} (h : s.observers[o]? = some ob) :
    hOf s o = ob.handlers := by simp [hOf, h]

theorem hOf_congr {s s' : State} (h : s'.observers = s.observers) (o : Nat) : hOf s' o = hOf s o := by
  simp [hOf, h]

theorem numOf_congr {s s' : State} (h : s'.observers = s.observers)
    (hn : ∀ n, (s'.nodeD n).observers = (s.nodeD n).observers) (n : Nat) : numOf s' n = numOf s n := by
  unfold numOf
  rw [hn]
  congr 1
  exact List.map_congr_left fun o _ => by rw [hOf_congr h]

/-- `HInv` reads: the observer records, `nextToken`, `stabNum`, `handleAfterStab`, and of every node its
observer list, handler count and queue flag -/
theorem HInv.congr {s s' : State} (H : HInv s) (h1 : s'.observers = s.observers)
    (h2 : s'.nextToken = s.nextToken) (h3 : s'.stabNum = s.stabNum)
    (h4 : s'.handleAfterStab = s.handleAfterStab)
    (h5 : ∀ n, (s'.nodeD n).observers = (s.nodeD n).observers)
    (h6 : ∀ n, (s'.nodeD n).numOnUpdateHandlers = (s.nodeD n).numOnUpdateHandlers)
    (h7 : ∀ n, (s'.nodeD n).inHandleAfterStab = (s.nodeD n).inHandleAfterStab) : HInv s' where
  count n := by rw [h6, numOf_congr h1 h5]; exact H.count n
  obsNodup n := by rw [h5]; exact H.obsNodup n
  tok := Life.TokStep.of_obs h1 h2 H.tok
  tokNodup o ob ho := by rw [h1] at ho; exact H.tokNodup o ob ho
  has := ⟨by rw [h4]; exact H.has.nodup, fun n => by rw [h4, h7]; exact H.has.flag n⟩
  createdAt o ob h ho hh := by rw [h1] at ho; rw [h3]; exact H.createdAt o ob h ho hh
  prev o ob h ho hh := by rw [h1] at ho; exact H.prev o ob h ho hh
  pending o ob h ho hs hh hp := by rw [h1] at ho; rw [h4]; exact H.pending o ob h ho hs hh hp

theorem HInv.of_nodes {s s' : State} (H : HInv s) (h1 : s'.observers = s.observers)
    (h2 : s'.nextToken = s.nextToken) (h3 : s'.stabNum = s.stabNum)
    (h4 : s'.handleAfterStab = s.handleAfterStab) (h5 : s'.nodes = s.nodes) : HInv s' := by
  have hnd : ∀ m, s'.nodeD m = s.nodeD m := fun m => by simp [State.nodeD, h5]
  exact H.congr h1 h2 h3 h4 (fun n => by rw [hnd]) (fun n => by rw [hnd]) (fun n => by rw [hnd])

theorem hinv_init (N : Nat) (d : Bool) : HInv (State.init N d) := by
  have hnd : ∀ m, (State.init N d).nodeD m = default := Quiet.init_nodeD N d
  have hobs : ∀ (o : Nat) (ob : ObsRec), (State.init N d).observers[o]? = some ob → False := by
    intro o ob h; simp [State.init] at h
  refine ⟨fun n => ?_, fun n => ?_, Life.TokWF.init N d, fun o ob h => (hobs o ob h).elim,
    ⟨List.nodup_nil, fun n => ?_⟩, fun o ob _ h => (hobs o ob h).elim, fun o ob _ h => (hobs o ob h).elim,
    fun o ob _ h => (hobs o ob h).elim⟩
  · unfold numOf; rw [hnd]; rfl
  · rw [hnd]; exact List.nodup_nil
  · rw [hnd]; simp [State.init]
    rfl

/-! ## the frame of the actions that touch neither observers nor handlers (creation, writes, reads) -/

/-- what `HInv` and the subscription theorems read of a node -/
def hKey (nd : Node) := (nd.observers, nd.numOnUpdateHandlers, nd.inHandleAfterStab, nd.value)

structure KFrame (s s' : State) : Prop where
  observers : s'.observers = s.observers
  nextToken : s'.nextToken = s.nextToken
  stabNum : s'.stabNum = s.stabNum
  handleAfterStab : s'.handleAfterStab = s.handleAfterStab
  log : s'.log = s.log
  node : ∀ m, hKey (s'.nodeD m) = hKey (s.nodeD m)

theorem KFrame.refl (s : State) : KFrame s s := ⟨rfl, rfl, rfl, rfl, rfl, fun _ => rfl⟩

theorem KFrame.nk {s s' : State} (K : KFrame s s') (m : Nat) :
    (s'.nodeD m).observers = (s.nodeD m).observers ∧
    (s'.nodeD m).numOnUpdateHandlers = (s.nodeD m).numOnUpdateHandlers ∧
    (s'.nodeD m).inHandleAfterStab = (s.nodeD m).inHandleAfterStab ∧
    (s'.nodeD m).value = (s.nodeD m).value := by
  have := K.node m
  simpa only [hKey, Prod.mk.injEq] using this

theorem KFrame.hinv {s s' : State} (K : KFrame s s') (H : HInv s) : HInv s' :=
  H.congr K.observers K.nextToken K.stabNum K.handleAfterStab (fun n => (K.nk n).1) (fun n => (K.nk n).2.1)
    (fun n => (K.nk n).2.2.1)

end IncrVerif.Proofs.SubsH
