import IncrVerif.Proofs.FaultH10
import IncrVerif.Proofs.FaultH8
/-!
# Faults in whole histories, part 7: the events of the fault-free run are those of `Props/C09History`; the state left by
a handler panic shows the completed propagation
-/
namespace IncrVerif.Proofs.FaultH
open IncrVerif.Engine IncrVerif.Driver IncrVerif.Proofs IncrVerif.Proofs.Step
open IncrVerif.Proofs.SubsH (PureHandlers UInv SubAction)

variable {env : Env}

theorem notNotif_of_isInv {e : Event} (h : IsInv e) : ¬ IsNotif e := by
  obtain ⟨w, n, a, r, rfl⟩ := h
  rintro ⟨t, u, h⟩; cases h

/-- the notifications `del` of `stabilise_armed` are the delivery list of `SubsH.stabilise_delivers`, the events `pre` are
its prefix (there newest first) -/
theorem armed_lists {fuel : Nat} {s s' : State} {pre del pre' del' : List Event}
    (h1 : s'.log = del.reverse ++ (pre.reverse ++ s.log)) (hp : ∀ e, e ∈ pre → IsInv e)
    (hd : ∀ e, e ∈ del → IsNotif e)
    (h2 : s'.log = del'.reverse ++ (pre' ++ s.log)) (hp' : ∀ e, e ∈ pre' → SubsH.NotNotif e)
    (hd' : ∀ e, e ∈ del' → ∃ t u, e = .notif t u) : del = del' ∧ pre.reverse = pre' := by
  have e : del.reverse ++ pre.reverse = del'.reverse ++ pre' := by
    rw [h1, ← List.append_assoc, ← List.append_assoc] at h2
    exact List.append_cancel_right h2
  obtain ⟨e1, e2⟩ := P4.split_unique (Q := IsNotif) e
    (fun x hx => hd x (List.mem_reverse.1 hx)) (fun x hx => hd' x (List.mem_reverse.1 hx))
    (fun x hx => notNotif_of_isInv (hp x (List.mem_reverse.1 hx)))
    (fun x hx => by
      have := hp' x hx
      rintro ⟨t, u, rfl⟩
      exact this)
  exact ⟨by have := congrArg List.reverse e1; simpa using this, e2⟩

/-- **F1, complete statement.**  For a state satisfying the invariant and a fault-free `stabilise` that returns: the events
`pre` (node functions and fold passes, oldest first; no notification) and the notifications `del` it logs, with the
characterisation of `del` of `Props/C09History` (S2), and for every `k` the outcome of the same call with the fault armed -/
theorem stabilise_classified {fuel : Nat} {s s' : State} (U : UInv env s) (heff : PureHandlers env)
    (h : (stabilise env fuel).run.run s = (.ok (), s')) :
    ∃ pre del : List Event, s'.log = del.reverse ++ (pre.reverse ++ s.log) ∧
      (∀ e, e ∈ pre → IsInv e) ∧ (∀ e, e ∈ del → IsNotif e) ∧
      (∀ t u, Event.notif t u ∈ del ↔
        ∃ (o : Nat) (ob : ObsRec) (hr : HandlerRec), s.observers[o]? = some ob ∧ hr ∈ ob.handlers ∧
          hr.token = t ∧ SubsH.expected s s' o hr = some u) ∧
      (del.filterMap SubsH.notifTok).Nodup ∧
      ∀ k, Armed env fuel s s' k pre del := by
  obtain ⟨pre, del, h1, hp, hd, A⟩ := stabilise_armed U heff h
  obtain ⟨pre', del', h2, hp', hd', hiff, hnd⟩ := SubsH.stabilise_delivers U heff h
  obtain ⟨e1, -⟩ := armed_lists (fuel := fuel) h1 hp hd h2 hp' hd'
  subst e1
  exact ⟨pre, del, h1, hp, hd, hiff, hnd, A⟩

/-! ## the state left by a handler panic -/

theorem HRel.nodeD {a b : State} (h : HRel a b) (n : Nat) : b.nodeD n = a.nodeD n := by
  simp only [State.nodeD, h.nodes]

theorem HRel.isNecessary {a b : State} (h : HRel a b) (n : Nat) : b.isNecessary n = a.isNecessary n := by
  simp only [State.isNecessary, h.nodeD]

theorem HRel.children {a b : State} (h : HRel a b) (n : Nat) : b.children n = a.children n := by
  simp only [State.children, h.nodeD, h.binds, h.experts]

theorem HRel.isStale {a b : State} (h : HRel a b) (n : Nat) : b.isStale n = a.isStale n := by
  simp only [State.isStale, h.nodeD, h.children, h.vars, h.experts]

theorem HRel.value {a b : State} (h : HRel a b) (n : Nat) : b.value env n = a.value env n :=
  value_congr env a b (by rw [h.nodes]) (fun m => by rw [h.nodeD]) n

theorem HRel.eval {a b : State} (h : HRel a b) (k n : Nat) : Sched.eval env b k n = Sched.eval env a k n :=
  Quiet.eval_congr (fun m => by rw [h.nodeD]) h.vars k n

/-- reads in a state that is `HRel` to `a` up to the status, neither status being `stabilising` -/
theorem HRel.read {a b : State} (h : HRel a { b with status := a.status }) (ha : a.status ≠ .stabilising)
    (hb : b.status ≠ .stabilising) (o : Nat) : b.tryGetValue env o = a.tryGetValue env o := by
  have hal : b.alive = a.alive := h.alive
  have hval : ∀ n, b.value env n = a.value env n := fun n => by
    have := h.value (env := env) n
    rw [← this]
    exact value_congr env ({ b with status := a.status } : State) b rfl (fun _ => rfl) n
  unfold State.tryGetValue
  have e1 : (b.status == Status.stabilising) = false := by
    cases hs : b.status <;> simp_all
  have e2 : (a.status == Status.stabilising) = false := by
    cases hs : a.status <;> simp_all
  rw [hal, e1, e2]
  cases hoa : a.observers[o]? with
  | none =>
    have := h.obsAt o
    rw [hoa] at this
    have hob : b.observers[o]? = none := by
      cases hb' : b.observers[o]? with
      | none => rfl
      | some x =>
        have hb'' : ({ b with status := a.status } : State).observers[o]? = some x := hb'
        rw [hb''] at this; cases this
    rw [hob]
  | some oa =>
    obtain ⟨ob, hob, hn, hs, -⟩ := h.obsSome hoa
    have hob' : b.observers[o]? = some ob := hob
    rw [hob']
    dsimp only
    rw [hs, hn, hval]

/-- (as `Props.C09History.delivered_value_is_eval`) an observer that was created or in use before a fault-free `stabilise`
is in use afterwards and reads the from-scratch value of its node -/
theorem delivered_eval {fuel : Nat} {s s' : State} (U : UInv env s)
    (heff : PureHandlers env) (hrun : (stabilise env fuel).run.run s = (.ok (), s')) {o : Nat} {ob : ObsRec}
    (ho : s.observers[o]? = some ob) (hs : ob.state = .created ∨ ob.state = .inUse) :
    ∃ ob' v, s'.observers[o]? = some ob' ∧ ob'.node = ob.node ∧ ob'.state = .inUse ∧
      s'.tryGetValue env o = .ok v ∧
      ∀ k, (s'.nodeD ob.node).height.toNat < k → Sched.eval env s' k ob.node = some v := by
  have R := SubsH.stabilise_u U heff hrun
  obtain ⟨t3, M⟩ := R.mid
  obtain ⟨ob', v, ho', hn', hst', hval, hread, -⟩ := SubsH.stab_live R M (default : HandlerRec) ho hs
  refine ⟨ob', v, ho', hn', hst', hread, fun k hk => ?_⟩
  have O' := SubsH.obsInv_final R
  have hmem : o ∈ (s'.nodeD ob.node).observers :=
    (O'.mem ob.node o).2 ⟨ob', ho', hn', Or.inl hst'⟩
  have hnec : s'.isNecessary ob.node = true := by
    rw [Quiet.isNecessary_iff]; right; left; exact List.ne_nil_of_mem hmem
  obtain ⟨-, -, h3, -, -⟩ := R.values ob.node hnec k hk
  rw [← h3]; exact hval

/-- **the handler case shows the completed propagation.**  `t` is the state left by a panic in an update handler
(`Armed.inHandlers`), `s'` the final state of the fault-free run: every read in `t` answers what it answers in `s'`, and
every necessary node of `t` is valid, not stale, and holds — stored and as read through an observer — the from-scratch
value `Sched.eval` on the current variable values. -/
theorem handler_panic_state {fuel : Nat} {s s' t : State} (U : UInv env s) (heff : PureHandlers env)
    (h : (stabilise env fuel).run.run s = (.ok (), s'))
    (hst : t.status = .runningOnUpdateHandlers) (R : HRel s' { t with status := .notStabilising }) :
    (∀ o, t.tryGetValue env o = s'.tryGetValue env o) ∧ t.vars = s.vars ∧
    (∀ n, t.isNecessary n = true → ∀ k, (t.nodeD n).height.toNat < k →
      (t.nodeD n).valid = true ∧ t.isStale n = false ∧ (t.nodeD n).value = Sched.eval env t k n ∧
        t.value env n = Sched.eval env t k n ∧ (Sched.eval env t k n).isSome = true) ∧
    (∀ (o : Nat) (ob : ObsRec), s.observers[o]? = some ob → ob.state = .created ∨ ob.state = .inUse →
      ∃ ob' v, t.observers[o]? = some ob' ∧ ob'.node = ob.node ∧ ob'.state = .inUse ∧
        t.tryGetValue env o = .ok v ∧ ∀ k, (t.nodeD ob.node).height.toNat < k → Sched.eval env t k ob.node = some v) := by
  have S := SubsH.stabilise_u U heff h
  have hs' : s'.status = .notStabilising := S.inv.core.status
  have R' : HRel s' { t with status := s'.status } := by rw [hs']; exact R
  have hread : ∀ o, t.tryGetValue env o = s'.tryGetValue env o := fun o =>
    HRel.read R' (by rw [hs']; intro e; cases e) (by rw [hst]; intro e; cases e) o
  have hnd : ∀ n, t.nodeD n = s'.nodeD n := fun n => R.nodeD n
  have hnec : ∀ n, t.isNecessary n = s'.isNecessary n := fun n => R.isNecessary n
  have hstale : ∀ n, t.isStale n = s'.isStale n := fun n => R.isStale n
  have hval : ∀ n, t.value env n = s'.value env n := fun n => by
    rw [← R.value (env := env) n]; exact value_congr env ({ t with status := .notStabilising } : State) t rfl (fun _ => rfl) n
  have hev : ∀ k n, Sched.eval env t k n = Sched.eval env s' k n := fun k n => by
    rw [← R.eval (env := env) k n]; exact Quiet.eval_congr (s := ({ t with status := .notStabilising } : State)) (s' := t) (fun _ => rfl) rfl k n
  have hvars : t.vars = s'.vars := R.vars
  have hrch : t.rch = s'.rch := R.rch
  refine ⟨hread, hvars.trans S.vars, ?_, ?_⟩
  · intro n hn k hk
    rw [hnd, hstale, hval, hev]
    rw [hnec] at hn
    rw [hnd] at hk
    exact S.values n hn k hk
  · intro o ob ho hs
    obtain ⟨ob', v, ho', hn', hst', hr, he⟩ := delivered_eval U heff h ho hs
    obtain ⟨ot, hot, hnt, hstt, -⟩ := R.obsSome ho'
    refine ⟨ot, v, hot, hnt.trans hn', hstt.trans hst', by rw [hread]; exact hr, fun k hk => ?_⟩
    rw [hev]
    rw [hnd] at hk
    exact he k hk

end IncrVerif.Proofs.FaultH
