import IncrVerif.Proofs.PerKeyH62
import IncrVerif.Proofs.PerKeyH63
import IncrVerif.Proofs.PerKeyH64
import IncrVerif.Proofs.PerKeyH39
/-!
# One `.right` iteration of the per-key loop, part e: the chain from the loop invariant
-/
namespace IncrVerif.Proofs.PerKeyH
open IncrVerif.Engine IncrVerif.Driver IncrVerif.Proofs IncrVerif.Proofs.Step IncrVerif.Proofs.Sched
open IncrVerif.Proofs.ExpertH IncrVerif.Proofs.EffH IncrVerif.Proofs.DriverH IncrVerif.Proofs.ExpertH.QR IncrVerif.Proofs.Xp

/-! ## the start of the loop and `σ` -/

theorem r_started_size (n : Nat) (s : State) : (started n s).nodes.size = s.nodes.size := by
  simp [started]

theorem r_started_kind (n m : Nat) (s : State) : ((started n s).nodeD m).kind = (s.nodeD m).kind := by
  rw [started_nodeD]; split <;> rfl

/-- what `LI.lf` says about `s` itself -/
structure RS0 (eres : Nat) (s σ : State) : Prop where
  grow : s.nodes.size ≤ σ.nodes.size
  xgrow : s.experts.size ≤ σ.experts.size
  top : σ.top = s.top
  kind : ∀ m, m < s.nodes.size → (σ.nodeD m).kind = (s.nodeD m).kind
  xrec : ∀ (e : Nat) (er : ExpertRec), s.experts[e]? = some er → ∃ er', σ.experts[e]? = some er' ∧
    er'.node = er.node ∧ er'.pk = er.pk ∧ (¬ e = eres → er'.children = er.children)

theorem r_s0 {eres n : Nat} {s σ : State} (h : LF (fun e => e = eres) (started n s) σ) : RS0 eres s σ := by
  have B := LF.bf h
  refine ⟨by rw [← r_started_size n s]; exact B.grow, B.xrec |> fun _ => h.xgrow, B.top, fun m hm => ?_,
    fun e er he => ?_⟩
  · rw [B.kind m (by rw [r_started_size]; exact hm), r_started_kind]
  · obtain ⟨er', h1, h2, h3, h4, -⟩ := B.xrec e er he
    exact ⟨er', h1, h2, h3, h4⟩

/-- the facts about the running operator in `σ` -/
structure RCx (env : Env) (op : Nat) (pr : PerKeyRec) (pn : List (Int × (Nat × Nat))) (eres : Nat) (er0 : ExpertRec)
    (σ : State) : Prop where
  core : OpCore env σ op { pr with prevNodes := pn }
  hres : (σ.nodeD pr.result).kind = .expert eres
  he : σ.experts[eres]? = some er0
  rlt : pr.result + 2 < σ.nodes.size
  lc : pr.lhsChange = pr.result + 1
  pos : 1 ≤ pr.result
  out : ∀ k, k ∈ templOuter (env.perKey pr.fam) → ∃ o, σ.top[k]? = some o ∧ o < pr.result - 1
  named : ∀ (k x : Nat), σ.top[k]? = some x → x < σ.nodes.size
  ops : ∀ (op' : Nat) (pr' : PerKeyRec), σ.perkeys[op']? = some pr' → pr'.result < σ.nodes.size ∧
    pr'.lhsChange < σ.nodes.size ∧ ∀ key p d, (key, (p, d)) ∈ pr'.prevNodes → p < σ.nodes.size

theorem r_cx {env : Env} {s : State} {n op : Nat} {pr : PerKeyRec} {eres : Nat} {rk uk : List Int} {σ : State}
    {pn : List (Int × (Nat × Nat))} (B : LcBase env s n op pr eres) (I : LI env s n op pr eres rk uk σ)
    (hop : σ.perkeys[op]? = some { pr with prevNodes := pn }) : ∃ er0, RCx env op pr pn eres er0 σ := by
  have C := I.core _ hop
  have S0 := r_s0 I.lf
  obtain ⟨x, e, er0, hN, he, hpk, hchs, hent, hout⟩ := C.nodes
  have hOK := B.pd.aux.pk.ops op pr B.hop
  obtain ⟨xs, es, ers, hNs, -⟩ := hOK.nodes
  have hrs : pr.result < s.nodes.size := by have := hNs.lt; omega
  have hres : (σ.nodeD pr.result).kind = .expert eres := by rw [S0.kind _ hrs]; exact B.hres
  have hee : e = eres := by have := hN.result; rw [show ({ pr with prevNodes := pn } : PerKeyRec).result = pr.result from rfl, hres] at this; cases this; rfl
  subst hee
  refine ⟨er0, C, hres, he, hN.lt, hN.lc, hN.pos, hout, fun k x hk => ?_, fun op' pr' hp' => ?_⟩
  · rw [S0.top] at hk
    exact Nat.lt_of_lt_of_le (B.pd.aux.named k x hk) S0.grow
  · by_cases ho : op' = op
    · subst ho
      rw [hop] at hp'; cases hp'
      have h1 : pr.result + 2 < σ.nodes.size := hN.lt
      have h2 : pr.lhsChange = pr.result + 1 := hN.lc
      refine ⟨show pr.result < _ by omega, show pr.lhsChange < _ by omega,
        fun key p d hm => (hent key p d hm).plt⟩
    · rw [I.pother op' ho] at hp'
      have hOK' := B.pd.aux.pk.ops op' pr' hp'
      obtain ⟨x', e', er', hN', -, -, -, hent', -⟩ := hOK'.nodes
      have h1 := hN'.lt; have h2 := hN'.lc
      refine ⟨by have := S0.grow; omega, by have := S0.grow; omega, fun key p d hm => ?_⟩
      exact Nat.lt_of_lt_of_le (hent' key p d hm).plt S0.grow

/-! ## the chain -/

theorem r_chain {env : Env} {s : State} {n op : Nat} {pr : PerKeyRec} {eres : Nat} {rk uk : List Int} {σ σ' : State}
    {fuel : Nat} {key v : Int} {pn : List (Int × (Nat × Nat))} {er0 : ExpertRec}
    (I : LI env s n op pr eres rk uk σ) (hop : σ.perkeys[op]? = some { pr with prevNodes := pn })
    (X : RCx env op pr pn eres er0 σ)
    (hrun : (PKL.perKeyStep env fuel op .top (key, .right v)).run.run σ = (.ok (), σ')) :
    ∃ mapped dep σ5, σ' = rS6 op key σ.nodes.size dep σ5 ∧
      RSh env op key pr.lhsChange (env.perKey pr.fam) (fun e => e = eres) σ σ' mapped ∧
      REF op key eres er0 σ σ' mapped dep ∧
      RSh env op key pr.lhsChange (env.perKey pr.fam) (fun e => e = eres) σ σ5 mapped ∧
      σ5.perkeys = σ.perkeys := by
  have hg : σ.perkeys[op]?.getD default = { pr with prevNodes := pn } := by rw [hop]; rfl
  obtain ⟨d1, σ2, ev, mapped, σ4, dep, σ5, h1, hrest⟩ := right_run (by rw [hg]; exact X.core.cut) hrun
  rw [hg] at h1 hrest
  have h1 : (expertAddDependency env fuel σ.nodes.size pr.lhsChange false).run.run (rS1 op key σ) = (.ok d1, σ2) := h1
  have hlc : pr.lhsChange < σ.nodes.size := by have := X.lc; have := X.rlt; omega
  have hpc2 : σ2.panicCountdown = none := (r_stepAB (op := op) (key := key) I.mid I.slots hlc h1).1.frag.pc
  obtain ⟨h4, h5, hσ'⟩ := hrest hpc2
  have h4 : (elabTemplateBase (env.perKey pr.fam) (.int key) [σ.nodes.size]).run.run (rLog ev σ2) = (.ok mapped, σ4) := h4
  have h5 : (expertAddDependency env fuel pr.result mapped true).run.run σ4 = (.ok dep, σ5) := h5
  have hT : TemplOK env (env.perKey pr.fam) := X.core.templ
  have hout : ∀ k, k ∈ templOuter (env.perKey pr.fam) → ∀ o, σ.top[k]? = some o → o < pr.lhsChange := by
    intro k hk o ho
    obtain ⟨o', h1, h2⟩ := X.out k hk
    rw [ho] at h1; cases h1
    have := X.lc; omega
  obtain ⟨R4, hnd4, hpk4, hmlt⟩ := r_stepAD (op := op) I.mid I.slots hlc hT
    (fun k hk o ho => Nat.lt_trans (hout k hk o ho) hlc) h1 h4
  -- acyclicity, by the potential
  obtain ⟨ψ, P⟩ := I.pot
  have hPop := P.op op _ hop
  have hlcψ : ψ pr.lhsChange = 2 * pr.lhsChange := hPop.2.1
  have hresψ : ψ pr.result = 2 * pr.lhsChange + 1 := hPop.1
  have P4 : Pot σ4 (rPsi σ pr.lhsChange ψ) :=
    R4.pot hT I.mid P X.named hlc hlcψ hout hpk4 X.ops (fun _ _ _ _ _ _ _ h => h.elim)
  have hacyc : ¬ ExpertH.Below σ4 mapped pr.result := by
    intro hb
    have h1 := P4.below hb
    rw [rPsi_lt (by have := X.rlt; omega)] at h1
    have h2 := R4.pot_mapped hT P hlc hout
    omega
  obtain ⟨R6, E6, R5, hpk5⟩ := r_stepEF R4 hnd4 hpk4 hmlt (by have := X.rlt; omega) X.hres X.he hacyc h5
  subst hσ'
  exact ⟨mapped, dep, σ5, rfl, R6, E6, R5, hpk5⟩

end IncrVerif.Proofs.PerKeyH
