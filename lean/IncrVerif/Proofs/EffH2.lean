import IncrVerif.Proofs.EffH1
/-!
# Effects, part 2: closed form of `runEffects` on write effects while `status = stabilising`
-/
namespace IncrVerif.Proofs.EffH
open IncrVerif.Engine IncrVerif.Driver IncrVerif.Proofs IncrVerif.Proofs.Step IncrVerif.Proofs.Sched
open IncrVerif.Proofs.Quiet

theorem e2_lt_of_some {α} {a : Array α} {v : Nat} {x : α} (h : a[v]? = some x) : v < a.size :=
  (Array.getElem?_eq_some_iff.1 h).1

theorem e2_some_of_lt {α} {a : Array α} {v : Nat} (h : v < a.size) : ∃ x, a[v]? = some x :=
  ⟨a[v], Array.getElem?_eq_getElem h⟩

theorem SameP.refl (s : State) : SameP s s := ⟨rfl, rfl, fun _ a h => ⟨a, h, CellP.refl a⟩⟩
theorem SameP.trans {a b c : State} (h1 : SameP a b) (h2 : SameP b c) : SameP a c := by
  refine ⟨?_, h2.size.trans h1.size, ?_⟩
  · have e1 := h1.eq
    have e2 := h2.eq
    rw [e2]; rw [e1]
  · intro v x hx
    obtain ⟨y, hy, hxy⟩ := h1.cell v x hx
    obtain ⟨z, hz, hyz⟩ := h2.cell v y hy
    exact ⟨z, hz, hxy.trans hyz⟩
theorem SameP.symm {a b : State} (h : SameP a b) : SameP b a := by
  refine ⟨?_, h.size.symm, ?_⟩
  · have e1 := h.eq
    rw [e1]
  · intro v x hx
    have hlt : v < a.vars.size := h.size ▸ e2_lt_of_some hx
    obtain ⟨y, hy⟩ := e2_some_of_lt hlt
    obtain ⟨z, hz, hyz⟩ := h.cell v y hy
    rw [hx] at hz; cases hz
    exact ⟨y, hy, hyz.symm⟩

theorem SameP.handlesOK {s s' : State} (h : SameP s s') (hh : HandlesOK s) : HandlesOK s' := by
  intro v c hc
  obtain ⟨b, hb, hcb⟩ := h.symm.cell v c hc
  rw [← hcb.handles]
  exact hh v b hb

theorem e2_deferred_sameP (v : Nat) (vc : VarCell) (f : Val → Val) (es : List Event) (s : State)
    (hv : s.vars[v]? = some vc) : SameP s (logged es (deferred v vc f s)) := by
  refine ⟨rfl, ?_, ?_⟩
  · show (s.vars.setIfInBounds v _).size = _
    rw [Array.size_setIfInBounds]
  · intro w a hw
    show ∃ b, (s.vars.setIfInBounds v _)[w]? = some b ∧ _
    rw [Array.getElem?_setIfInBounds]
    by_cases hvw : v = w
    · subst hvw
      rw [hv] at hw; cases hw
      rw [if_pos rfl, if_pos (e2_lt_of_some hv)]
      exact ⟨_, rfl, rfl⟩
    · rw [if_neg hvw]
      exact ⟨a, hw, CellP.refl a⟩

theorem effStep_sameP (e : Effect) (s : State) : SameP s (effStep e s) := by
  unfold effStep
  cases effWrite e with
  | none => exact SameP.refl s
  | some p =>
    obtain ⟨v, f⟩ := p
    show SameP s (match s.vars[v]? with | none => s | some vc => _)
    cases hv : s.vars[v]? with
    | none => exact SameP.refl s
    | some vc => exact e2_deferred_sameP v vc f _ s hv

theorem effSteps_sameP (es : List Effect) (s : State) : SameP s (effSteps es s) := by
  induction es generalizing s with
  | nil => exact SameP.refl s
  | cons e es ih => rw [effSteps_cons]; exact (effStep_sameP e s).trans (ih _)

theorem e2_effStep_started (e : Effect) (n : Nat) (s : State) :
    effStep e (started n s) = started n (effStep e s) := by
  unfold effStep
  cases effWrite e with
  | none => rfl
  | some p =>
    obtain ⟨v, f⟩ := p
    show (match s.vars[v]? with | none => started n s | some vc => _) =
      started n (match s.vars[v]? with | none => s | some vc => _)
    cases s.vars[v]? with
    | none => rfl
    | some vc => rfl

/-- the prefix of `recomputeOne` commutes with deferred writes -/
theorem effSteps_started (es : List Effect) (n : Nat) (s : State) :
    effSteps es (started n s) = started n (effSteps es s) := by
  induction es generalizing s with
  | nil => rfl
  | cons e es ih => rw [effSteps_cons, effSteps_cons, e2_effStep_started, ih]

theorem e2_runEffects_cons (env : Env) (fuel : Nat) (e : Effect) (es : List Effect) (arg : Int)
    (hw : (effWrite e).isSome = true) :
    runEffects env fuel (e :: es) arg = runEffectBasic env e >>= fun _ => runEffects env fuel es arg := by
  unfold runEffects
  rw [List.forIn_cons]
  cases e <;> first | (exact Bool.noConfusion hw) | skip
  all_goals simp only [bind_assoc, pure_bind]

theorem e2_discard_eq {α} (x : M α) : discard x = x >>= fun _ => pure () := by
  rw [Functor.discard, map_const, Function.comp_apply, map_eq_pure_bind]

theorem e2_run_withVarHandle (v : Nat) (act : M Unit) (s : State) (hh : HandlesOK s) :
    (withVarHandle v act).run.run s = act.run.run s := by
  unfold withVarHandle
  rw [run_bind_get]
  cases hv : s.vars[v]? with
  | none => rfl
  | some vc =>
    have h0 : (vc.handles == 0) = false := by
      have := hh v vc hv
      simpa using this
    simp only [h0]
    rfl

theorem e2_write_core (v : Nat) (f : Val → Val) (isSet : Bool) (k : Val → M Unit) (note : Val → List Event)
    (hk : ∀ x s, (k x).run.run s = (.ok (), logged (note x) s)) {s s1 : State} {u : Unit}
    (hst : s.status = .stabilising) (hh : HandlesOK s)
    (h : (withVarHandle v (writeVar v f isSet >>= k)).run.run s = (.ok u, s1)) :
    ∃ vc, s.vars[v]? = some vc ∧ s1 = logged (note (vc.pending.getD vc.value)) (deferred v vc f s) := by
  rw [e2_run_withVarHandle _ _ _ hh] at h
  cases hv : s.vars[v]? with
  | none =>
    exfalso
    obtain ⟨a, s2, h1, -⟩ := bind_ok_inv h
    unfold writeVar at h1
    obtain ⟨a', s3, h3, -⟩ := bind_ok_inv h1
    rw [run_getVar, hv] at h3
    cases h3
  | some vc =>
    refine ⟨vc, rfl, ?_⟩
    rw [run_bind, writeVar_inside_run v f isSet s vc hv hst] at h
    simp only [hk] at h
    cases h
    rfl

theorem e2_runEffectBasic_write {env : Env} {e : Effect} {s s1 : State} {u : Unit}
    (hst : s.status = .stabilising) (hw : (effWrite e).isSome = true) (hh : HandlesOK s)
    (h : (runEffectBasic env e).run.run s = (.ok u, s1)) :
    s1 = effStep e s ∧ ∀ v f, effWrite e = some (v, f) → ∃ c, s.vars[v]? = some c := by
  cases e <;> first | (exact Bool.noConfusion hw) | skip
  case setVar v x =>
    unfold runEffectBasic at h
    simp only [e2_discard_eq] at h
    obtain ⟨vc, hv, e1⟩ := e2_write_core v _ _ _ (fun _ => []) (fun _ _ => rfl) hst hh h
    refine ⟨?_, ?_⟩
    · rw [e1]; unfold effStep; simp only [effWrite, hv]; rfl
    · intro v' f' he; cases he; exact ⟨vc, hv⟩
  case modifyVar v d =>
    unfold runEffectBasic at h
    simp only [e2_discard_eq] at h
    obtain ⟨vc, hv, e1⟩ := e2_write_core v _ _ _ (fun _ => []) (fun _ _ => rfl) hst hh h
    refine ⟨?_, ?_⟩
    · rw [e1]; unfold effStep; simp only [effWrite, hv]; rfl
    · intro v' f' he; cases he; exact ⟨vc, hv⟩
  case updateVar v d =>
    unfold runEffectBasic at h
    simp only [e2_discard_eq] at h
    obtain ⟨vc, hv, e1⟩ := e2_write_core v _ _ _ (fun _ => []) (fun _ _ => rfl) hst hh h
    refine ⟨?_, ?_⟩
    · rw [e1]; unfold effStep; simp only [effWrite, hv]; rfl
    · intro v' f' he; cases he; exact ⟨vc, hv⟩
  case replaceVar v x =>
    unfold runEffectBasic at h
    obtain ⟨vc, hv, e1⟩ := e2_write_core v _ _ _
      (fun old => [.note s!"replace v{v} -> {old.render}"]) (fun _ _ => rfl) hst hh h
    refine ⟨?_, ?_⟩
    · rw [e1]; unfold effStep; simp only [effWrite, hv]; rfl
    · intro v' f' he; cases he; exact ⟨vc, hv⟩
  case replaceWithVar v d =>
    unfold runEffectBasic at h
    obtain ⟨vc, hv, e1⟩ := e2_write_core v _ _ _
      (fun old => [.note s!"replacewith v{v} -> {old.render}"]) (fun _ _ => rfl) hst hh h
    refine ⟨?_, ?_⟩
    · rw [e1]; unfold effStep; simp only [effWrite, hv]; rfl
    · intro v' f' he; cases he; exact ⟨vc, hv⟩

theorem SameP.e2_status {s s' : State} (h : SameP s s') : s'.status = s.status := by
  have := h.eq; rw [this]

theorem SameP.e2_get_back {s s' : State} (h : SameP s s') {v : Nat} {c : VarCell} (hc : s'.vars[v]? = some c) :
    ∃ a, s.vars[v]? = some a := by
  obtain ⟨a, ha, -⟩ := h.symm.cell v c hc
  exact ⟨a, ha⟩

theorem e2_writesOf_nil : writesOf [] = [] := rfl

theorem e2_writesOf_cons_some {e : Effect} {v : Nat} {f : Val → Val} (es : List Effect) (h : effWrite e = some (v, f)) :
    writesOf (e :: es) = (v, f) :: writesOf es := by
  unfold writesOf; rw [List.filterMap_cons_some h]

/-- **closed form.** While `status = stabilising`, a successful run of write effects (through live handles) is
`effSteps`; every written cell exists. -/
theorem runEffects_writes {env : Env} {fuel : Nat} {es : List Effect} {arg : Int} {s s' : State} {u : Unit}
    (hst : s.status = .stabilising) (hw : ∀ e, e ∈ es → (effWrite e).isSome = true) (hh : HandlesOK s)
    (h : (runEffects env fuel es arg).run.run s = (.ok u, s')) :
    s' = effSteps es s ∧ ∀ v f, (v, f) ∈ writesOf es → ∃ c, s.vars[v]? = some c := by
  induction es generalizing s with
  | nil =>
    rw [runEffects_nil] at h
    obtain ⟨-, e1⟩ := pure_ok_inv h
    exact ⟨e1, fun v f hm => by cases hm⟩
  | cons e es ih =>
    have he := hw e (List.mem_cons_self ..)
    rw [e2_runEffects_cons env fuel e es arg he] at h
    obtain ⟨u1, s1, h1, h2⟩ := bind_ok_inv h
    obtain ⟨e1, hex⟩ := e2_runEffectBasic_write hst he hh h1
    have sp : SameP s s1 := e1 ▸ effStep_sameP e s
    obtain ⟨e2, hex2⟩ := ih (s := s1) (sp.e2_status.trans hst) (fun e' he' => hw e' (List.mem_cons_of_mem _ he'))
      (sp.handlesOK hh) h2
    refine ⟨by rw [e2, e1, effSteps_cons], ?_⟩
    obtain ⟨⟨v0, f0⟩, hv0⟩ := Option.isSome_iff_exists.1 he
    rw [e2_writesOf_cons_some es hv0]
    intro v f hm
    rcases List.mem_cons.1 hm with hm | hm
    · cases hm; exact hex v0 f0 hv0
    · obtain ⟨c, hc⟩ := hex2 v f hm
      exact sp.e2_get_back hc

theorem Pend.start {t : State} (hc : ∀ (v : Nat) (c : VarCell), t.vars[v]? = some c → c.pending = none)
    (hs : t.setDuringStab = []) : Pend t [] t := by
  refine ⟨rfl, hc, fun v c h => h, fun v => ?_⟩
  rw [hs]
  exact ⟨fun h => (by cases h), fun h => absurd rfl h⟩

/-- `Pend` only reads `vars` and `setDuringStab` -/
theorem Pend.congr {t : State} {W : Writes} {s s' : State} (P : Pend t W s) (hv : s'.vars = s.vars)
    (hs : s'.setDuringStab = s.setDuringStab) : Pend t W s' := by
  refine ⟨?_, P.clean, ?_, ?_⟩
  · rw [hv]; exact P.size
  · rw [hv]; exact P.cell
  · rw [hs]; exact P.mem

theorem e2_writesTo_append (w : Nat) (W W' : Writes) : writesTo w (W ++ W') = writesTo w W ++ writesTo w W' := by
  unfold writesTo; rw [List.filter_append, List.map_append]

theorem e2_writesTo_single_self (v : Nat) (f : Val → Val) : writesTo v [(v, f)] = [f] := by
  simp [writesTo]

theorem e2_writesTo_single_ne {v w : Nat} (f : Val → Val) (h : v ≠ w) : writesTo w [(v, f)] = [] := by
  simp [writesTo, h]

theorem e2_foldW_snoc (fs : List (Val → Val)) (f : Val → Val) (x : Val) : foldW (fs ++ [f]) x = f (foldW fs x) := by
  unfold foldW; rw [List.foldl_append]; rfl

theorem e2_cellW_snoc (fs : List (Val → Val)) (f : Val → Val) (c : VarCell) :
    { (cellW fs c) with pending := some (f ((cellW fs c).pending.getD (cellW fs c).value)) } = cellW (fs ++ [f]) c := by
  cases fs with
  | nil => rfl
  | cons g gs =>
    show _ = cellW (g :: (gs ++ [f])) c
    unfold cellW
    simp only [Option.getD_some]
    rw [← List.cons_append, e2_foldW_snoc]

theorem e2_cellW_pending_none {fs : List (Val → Val)} {c : VarCell} (hc : c.pending = none) :
    (cellW fs c).pending = none ↔ fs = [] := by
  cases fs with
  | nil => exact ⟨fun _ => rfl, fun _ => hc⟩
  | cons g gs => exact ⟨fun h => (by simp [cellW] at h), fun h => (by cases h)⟩

theorem e2_effStep_pend {t : State} {W : Writes} {s : State} {e : Effect} {v : Nat} {f : Val → Val}
    (P : Pend t W s) (hw : effWrite e = some (v, f)) (hex : ∃ c, s.vars[v]? = some c) :
    Pend t (W ++ [(v, f)]) (effStep e s) := by
  obtain ⟨vc, hv⟩ := hex
  have hlt : v < s.vars.size := e2_lt_of_some hv
  obtain ⟨c, hc⟩ := e2_some_of_lt (P.size ▸ hlt)
  have hvc : vc = cellW (writesTo v W) c := by
    have := P.cell v c hc; rw [hv] at this; cases this; rfl
  have hcn := P.clean v c hc
  have hE : effStep e s = logged (effNote e (vc.pending.getD vc.value)) (deferred v vc f s) := by
    unfold effStep; simp only [hw, hv]
  rw [hE]
  refine ⟨?_, P.clean, ?_, ?_⟩
  · show (s.vars.setIfInBounds v _).size = _
    rw [Array.size_setIfInBounds]; exact P.size
  · intro w c' hc'
    show (s.vars.setIfInBounds v _)[w]? = _
    rw [Array.getElem?_setIfInBounds, e2_writesTo_append]
    by_cases hvw : v = w
    · subst hvw
      rw [hc] at hc'; cases hc'
      rw [if_pos rfl, if_pos hlt, e2_writesTo_single_self, hvc, e2_cellW_snoc]
    · rw [if_neg hvw, e2_writesTo_single_ne f hvw, List.append_nil]
      exact P.cell w c' hc'
  · intro w
    show w ∈ (if vc.pending = none then v :: s.setDuringStab else s.setDuringStab) ↔ _
    rw [e2_writesTo_append]
    by_cases hvw : v = w
    · subst hvw
      rw [e2_writesTo_single_self]
      refine ⟨fun _ => (by simp), fun _ => ?_⟩
      by_cases hp : vc.pending = none
      · rw [if_pos hp]; exact List.mem_cons_self ..
      · rw [if_neg hp, P.mem v]
        intro h0
        exact hp (by rw [hvc]; exact (e2_cellW_pending_none hcn).2 h0)
    · rw [e2_writesTo_single_ne f hvw, List.append_nil, ← P.mem w]
      by_cases hp : vc.pending = none
      · rw [if_pos hp, List.mem_cons]
        exact ⟨fun h => h.resolve_left (fun h' => hvw h'.symm), Or.inr⟩
      · rw [if_neg hp]

/-- deferred writes extend the ghost list in program order -/
theorem effSteps_pend {t : State} {W : Writes} {s : State} {es : List Effect} (P : Pend t W s)
    (hex : ∀ v f, (v, f) ∈ writesOf es → ∃ c, s.vars[v]? = some c) :
    Pend t (W ++ writesOf es) (effSteps es s) := by
  induction es generalizing s W with
  | nil => rw [e2_writesOf_nil, List.append_nil]; exact P
  | cons e es ih =>
    rw [effSteps_cons]
    cases hw : effWrite e with
    | none =>
      have h1 : writesOf (e :: es) = writesOf es := by
        unfold writesOf; rw [List.filterMap_cons_none hw]
      have h2 : effStep e s = s := by unfold effStep; rw [hw]
      rw [h1] at hex ⊢; rw [h2]
      exact ih P hex
    | some p =>
      obtain ⟨v, f⟩ := p
      rw [e2_writesOf_cons_some es hw] at hex ⊢
      have P1 := e2_effStep_pend P hw (hex v f (List.mem_cons_self ..))
      have := ih P1 (fun v' f' hm => by
        obtain ⟨c, hc⟩ := hex v' f' (List.mem_cons_of_mem _ hm)
        obtain ⟨b, hb, -⟩ := (effStep_sameP e s).cell v' c hc
        exact ⟨b, hb⟩)
      rw [List.append_assoc] at this
      exact this

/-- what `Pend` says about a cell, spelled out: the value is the one of `t`; `pending` is the program-order fold -/
theorem Pend.cell_facts {t : State} {W : Writes} {s : State} (P : Pend t W s) (v : Nat) (c : VarCell)
    (hc : t.vars[v]? = some c) :
    ∃ c', s.vars[v]? = some c' ∧ CellP c c' ∧
      c'.pending = (match writesTo v W with | [] => none | f :: fs => some (foldW (f :: fs) c.value)) := by
  refine ⟨_, P.cell v c hc, ?_, ?_⟩
  · cases writesTo v W <;> rfl
  · have hcn := P.clean v c hc
    cases writesTo v W with
    | nil => exact hcn
    | cons g gs =>
      show some (foldW (g :: gs) (c.pending.getD c.value)) = _
      rw [hcn]; rfl

theorem Pend.sameP_vars {t : State} {W : Writes} {s : State} (P : Pend t W s) :
    s.vars.size = t.vars.size ∧ ∀ (v : Nat) (a : VarCell), t.vars[v]? = some a → ∃ b, s.vars[v]? = some b ∧ CellP a b := by
  refine ⟨P.size, fun v a ha => ?_⟩
  obtain ⟨b, hb, hab, -⟩ := P.cell_facts v a ha
  exact ⟨b, hb, hab⟩

end IncrVerif.Proofs.EffH
