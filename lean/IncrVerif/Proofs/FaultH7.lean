import IncrVerif.Proofs.FaultH6
/-!
# Faults in whole histories, part G1: every action other than `stabilise` is an `AfterR` step, from any state,
returning or panicking
-/
namespace IncrVerif.Proofs.FaultH
open IncrVerif.Engine IncrVerif.Driver IncrVerif.Proofs IncrVerif.Proofs.Step

namespace G1

/-! ## building `AfterR` -/

theorem of_same {s s' : State} (h1 : s'.status = s.status) (h2 : s'.cfg = s.cfg) (h3 : s'.alive = s.alive)
    (h4 : s'.log = s.log) (h5 : s'.nodes = s.nodes) (h6 : s'.observers = s.observers) (h7 : s'.vars = s.vars) :
    AfterR s s' :=
  ⟨h1, h2, fun h => by rw [← h3]; exact h, h4, fun n nd h => ⟨nd, by rw [h5]; exact h, rfl, rfl, rfl⟩,
    fun o ob h hs => ⟨ob, by rw [← h6]; exact h, hs, rfl⟩, fun _ v vc h => ⟨vc, by rw [h7]; exact h, rfl⟩⟩

theorem modify_same {f : State → State} (h : ∀ s, (f s).status = s.status ∧ (f s).cfg = s.cfg ∧
    (f s).alive = s.alive ∧ (f s).log = s.log ∧ (f s).nodes = s.nodes ∧ (f s).observers = s.observers ∧
    (f s).vars = s.vars) : Step.Pres AfterR (modify f : M Unit) :=
  Step.Pres.modify fun s => of_same (h s).1 (h s).2.1 (h s).2.2.1 (h s).2.2.2.1 (h s).2.2.2.2.1 (h s).2.2.2.2.2.1
    (h s).2.2.2.2.2.2

theorem bumpCounter_after (f : Counters → Counters) : Step.Pres AfterR (bumpCounter f) := by
  unfold bumpCounter; exact modify_same fun s => ⟨rfl, rfl, rfl, rfl, rfl, rfl, rfl⟩

theorem modBind_after (b : Nat) (f : BindRec → BindRec) : Step.Pres AfterR (modBind b f) := by
  unfold modBind; exact modify_same fun s => ⟨rfl, rfl, rfl, rfl, rfl, rfl, rfl⟩

theorem modNode_after (n : Nat) (f : Node → Node)
    (hf : ∀ x, (f x).value = x.value ∧ (f x).kind = x.kind ∧ (f x).valid = x.valid) :
    Step.Pres AfterR (modNode n f) := by
  unfold modNode
  refine Step.Pres.modify fun s => ⟨rfl, rfl, id, rfl, fun m nd h => ?_, fun o ob h hs => ⟨ob, h, hs, rfl⟩,
    fun _ v vc h => ⟨vc, h, rfl⟩⟩
  show ∃ nd', (s.nodes.modify n f)[m]? = some nd' ∧ _
  rw [Array.getElem?_modify]
  split
  · rw [h]; exact ⟨f nd, rfl, (hf nd).1, (hf nd).2.1, (hf nd).2.2⟩
  · exact ⟨nd, h, rfl, rfl, rfl⟩

theorem modObs_after (o : Nat) (f : ObsRec → ObsRec)
    (hf : ∀ x, (f x).state = .inUse → x.state = .inUse ∧ x.node = (f x).node) :
    Step.Pres AfterR (modObs o f) := by
  unfold modObs
  refine Step.Pres.modify fun s => ⟨rfl, rfl, id, rfl, fun m nd h => ⟨nd, h, rfl, rfl, rfl⟩, fun o' ob' h hs => ?_,
    fun _ v vc h => ⟨vc, h, rfl⟩⟩
  have h' : (s.observers.modify o f)[o']? = some ob' := h
  rw [Array.getElem?_modify] at h'
  split at h'
  · cases hx : s.observers[o']? with
    | none => rw [hx] at h'; cases h'
    | some x =>
      rw [hx] at h'
      simp only [Option.map_some, Option.some.injEq] at h'
      subst h'
      exact ⟨x, rfl, (hf x hs).1, (hf x hs).2⟩
  · exact ⟨ob', h', hs, rfl⟩

theorem pushNode_after (nd0 : Node) :
    Step.Pres AfterR (modify fun s => { s with nodes := s.nodes.push nd0 } : M Unit) := by
  refine Step.Pres.modify fun s => ⟨rfl, rfl, id, rfl, fun m nd h => ⟨nd, ?_, rfl, rfl, rfl⟩,
    fun o ob h hs => ⟨ob, h, hs, rfl⟩, fun _ v vc h => ⟨vc, h, rfl⟩⟩
  show (s.nodes.push nd0)[m]? = some nd
  have hlt := (Array.getElem?_eq_some_iff.1 h).1
  rw [Array.getElem?_push, if_neg (by omega)]; exact h

theorem resolveOpnd_after (loc : List Nat) (o : Opnd) : Step.Pres AfterR (resolveOpnd loc o) := by
  refine Step.Pres.of_readonly _ fun s => ?_
  unfold resolveOpnd
  cases o <;> dsimp only
  case outer k => simp only [run_bind_get]; cases s.top[k]? <;> rfl
  case abs n => rfl
  case loc j => cases loc[j]? <;> rfl
  case slot k => simp only [run_bind_get]; cases s.slots.lookup k <;> rfl

theorem isConstant_after (n : Nat) : Step.Pres AfterR (isConstant n) := by
  unfold isConstant
  refine Step.Pres.bind (Step.Pres.getNode n) fun nd => ?_
  split <;> exact Step.Pres.pure _

theorem getObs_after (o : Nat) : Step.Pres AfterR (getObs o) := by
  refine Step.Pres.of_readonly _ fun s => ?_
  unfold getObs
  rw [run_bind_get]
  cases s.observers[o]? <;> rfl

theorem discard_after {α} {x : M α} (hx : Step.Pres AfterR x) : Step.Pres AfterR (discard x) := by
  unfold Functor.discard
  exact Step.Pres.map _ hx

theorem pushVar_after (vc0 : VarCell) :
    Step.Pres AfterR (modify fun s => { s with vars := s.vars.push vc0 } : M Unit) := by
  refine Step.Pres.modify fun s => ⟨rfl, rfl, id, rfl, fun m nd h => ⟨nd, h, rfl, rfl, rfl⟩,
    fun o ob h hs => ⟨ob, h, hs, rfl⟩, fun _ w vc h => ⟨vc, ?_, rfl⟩⟩
  show (s.vars.push _)[w]? = some vc
  have hlt := (Array.getElem?_eq_some_iff.1 h).1
  rw [Array.getElem?_push, if_neg (by omega)]; exact h

end G1

macro_rules | `(tactic| qleaf) => `(tactic| with_reducible apply G1.bumpCounter_after)
macro_rules | `(tactic| qleaf) => `(tactic| with_reducible apply G1.modBind_after)
macro_rules | `(tactic| qleaf) => `(tactic| with_reducible apply G1.pushNode_after)
macro_rules | `(tactic| qleaf) => `(tactic| (with_reducible apply G1.discard_after))
macro_rules | `(tactic| qleaf) => `(tactic| with_reducible apply G1.resolveOpnd_after)
macro_rules | `(tactic| qleaf) => `(tactic| with_reducible apply G1.isConstant_after)
macro_rules | `(tactic| qleaf) => `(tactic| with_reducible apply G1.getObs_after)
macro_rules | `(tactic| qleaf) => `(tactic| (with_reducible apply G1.modNode_after; intro x; exact ⟨rfl, rfl, rfl⟩))
macro_rules | `(tactic| qleaf) => `(tactic|
  (with_reducible apply G1.modObs_after; intro x h; first | exact ⟨h, rfl⟩ | cases h))
macro_rules | `(tactic| qleaf) => `(tactic|
  (with_reducible apply G1.modify_same; intro s; exact ⟨rfl, rfl, rfl, rfl, rfl, rfl, rfl⟩))

namespace G1

theorem createNode_after (k : Kind) (sc : Scope) (c : CutoffK) : Step.Pres AfterR (createNode k sc c) := by
  unfold createNode; qpres

theorem createVar_after (v : Val) (sc : Scope) : Step.Pres AfterR (createVar v sc) := by
  unfold createVar; qpres
  · exact createNode_after _ _ _
  · refine Step.Pres.modify fun s => ⟨rfl, rfl, id, rfl, fun m nd h => ⟨nd, h, rfl, rfl, rfl⟩,
      fun o ob h hs => ⟨ob, h, hs, rfl⟩, fun _ w vc h => ⟨vc, ?_, rfl⟩⟩
    show (s.vars.push _)[w]? = some vc
    have hlt := (Array.getElem?_eq_some_iff.1 h).1
    rw [Array.getElem?_push, if_neg (by omega)]; exact h

theorem handleAfterStabilisation_after (n : Nat) : Step.Pres AfterR (handleAfterStabilisation n) := by
  unfold handleAfterStabilisation; qpres

theorem rchLink_after (n : Nat) : Step.Pres AfterR (rchLink n) := by
  unfold rchLink; qpres

theorem rchInsert_after (n : Nat) : Step.Pres AfterR (rchInsert n) := by
  unfold rchInsert; qpres
  all_goals exact rchLink_after n

theorem disallowFutureUse_after (o : Nat) : Step.Pres AfterR (disallowFutureUse o) := by
  unfold disallowFutureUse; qpres

theorem subscribe_after (o hid : Nat) : Step.Pres AfterR (Engine.subscribe o hid) := by
  unfold Engine.subscribe; qpres
  all_goals first
    | exact handleAfterStabilisation_after _
    | skip

theorem unsubscribe_after (o t owner : Nat) : Step.Pres AfterR (Engine.unsubscribe o t owner) := by
  unfold Engine.unsubscribe; qpres

/-- a state that differs only in var cells, heap bookkeeping … , from a state that is NOT `stabilising` -/
theorem of_not_stab {s s' : State} (hst : s.status ≠ .stabilising) (h1 : s'.status = s.status) (h2 : s'.cfg = s.cfg)
    (h3 : s'.alive = s.alive) (h4 : s'.log = s.log) (h5 : s'.nodes = s.nodes) (h6 : s'.observers = s.observers) :
    AfterR s s' :=
  ⟨h1, h2, fun h => by rw [← h3]; exact h, h4, fun n nd h => ⟨nd, by rw [h5]; exact h, rfl, rfl, rfl⟩,
    fun o ob h hs => ⟨ob, by rw [← h6]; exact h, hs, rfl⟩, fun h => absurd h hst⟩

theorem run_getVar_none {v : Nat} {s : State} (h : s.vars[v]? = none) :
    (getVar v).run.run s = (.error (.site "model:no-such-var"), s) := by
  unfold getVar; rw [run_bind_get, h]; rfl

theorem writeVar_after (v : Nat) (f : Val → Val) (isSet : Bool) : Step.Pres AfterR (writeVar v f isSet) := by
  constructor
  intro s r s' h
  cases hv : s.vars[v]? with
  | none =>
    unfold writeVar at h
    rw [Proofs.run_bind, run_getVar_none hv] at h
    cases h; exact AfterR.refl _
  | some vc =>
    by_cases hst : s.status = .stabilising
    · rw [Proofs.writeVar_inside_run v f isSet s vc hv hst] at h
      cases h
      refine ⟨rfl, rfl, id, rfl, fun m nd h => ⟨nd, h, rfl, rfl, rfl⟩, fun o ob h hs => ⟨ob, h, hs, rfl⟩,
        fun _ w wc hw => ?_⟩
      show ∃ vc', (s.vars.setIfInBounds v _)[w]? = some vc' ∧ _
      by_cases e : v = w
      · subst e
        rw [hv] at hw; cases hw
        have hlt := (Array.getElem?_eq_some_iff.1 hv).1
        refine ⟨{ vc with pending := some (f (vc.pending.getD vc.value)) }, ?_, rfl⟩
        rw [Array.getElem?_setIfInBounds, if_pos rfl, if_pos hlt]
      · rw [Array.getElem?_setIfInBounds, if_neg e]
        exact ⟨wc, hw, rfl⟩
    · rw [Proofs.writeVar_outside_closed v f isSet s vc hv hst] at h
      have hw : ∀ c, AfterR s (Proofs.withCell v c s) := fun c => of_not_stab hst rfl rfl rfl rfl rfl rfl
      have hsw : ∀ x, AfterR s (Proofs.stampedWrite v vc x s) := fun x => of_not_stab hst rfl rfl rfl rfl rfl rfl
      split at h
      · cases h; exact hw _
      · split at h
        · cases h; exact of_not_stab hst rfl rfl rfl rfl rfl rfl
        · split at h
          · cases h; exact hsw _
          · split at h
            · rcases hx : (rchInsert vc.node).run.run (Proofs.stampedWrite v vc (f vc.value) s) with ⟨r1, s1⟩
              rw [hx] at h
              have : s' = s1 := by
                unfold Proofs.mapOk at h
                cases r1 <;> cases h <;> rfl
              rw [this]
              exact (hsw _).trans ((rchInsert_after vc.node).h _ _ _ hx)
            · cases h; exact hsw _

theorem getVar_after (v : Nat) : Step.Pres AfterR (getVar v) := Step.Pres.getVar v

end G1

macro_rules | `(tactic| qleaf) => `(tactic| with_reducible apply G1.disallowFutureUse_after)
macro_rules | `(tactic| qleaf) => `(tactic| with_reducible apply G1.subscribe_after)
macro_rules | `(tactic| qleaf) => `(tactic| with_reducible apply G1.unsubscribe_after)
macro_rules | `(tactic| qleaf) => `(tactic| with_reducible apply G1.writeVar_after)
macro_rules | `(tactic| qleaf) => `(tactic| with_reducible apply G1.createNode_after)
macro_rules | `(tactic| qleaf) => `(tactic| with_reducible apply G1.createVar_after)

/-! ## the actions -/

theorem G1.create_after {env : Env} {i : Instr} (hi : Quiet.StaticInstr env i) (tk : Array Nat) :
    Step.Pres AfterR (stepAction env (.create i) tk) := by
  unfold stepAction
  dsimp only
  cases i <;> try exact hi.elim
  all_goals
    unfold elabInstrM
    dsimp only
    unfold elabInstr
    dsimp only
    qpres

/-- **every action of the fragment other than `stabilise`**, from any state, returning or panicking -/
theorem stepAction_after {env : Env} {a : Action} (ha : FAction env a) (hns : a ≠ .stabilise) (tk : Array Nat) :
    Step.Pres AfterR (stepAction env a tk) := by
  cases a <;> try exact ha.elim
  case create i => exact G1.create_after ha tk
  case stabilise => exact absurd rfl hns
  case dropAll =>
    unfold stepAction; dsimp only
    refine Step.Pres.bind (Step.Pres.modify fun s => ?_) fun _ => Step.Pres.pure _
    exact { status := rfl, cfg := rfl, alive := fun h => Bool.noConfusion h, log := rfl,
            nodes := fun m nd h => ⟨nd, h, rfl, rfl, rfl⟩, obsInUse := fun o ob h hs => ⟨ob, h, hs, rfl⟩,
            parked := fun _ v vc h => ⟨vc, h, rfl⟩ }
  case observe n =>
    unfold stepAction; dsimp only
    qpres
    refine Step.Pres.modify fun s => ⟨rfl, rfl, id, rfl, fun m nd h => ⟨nd, h, rfl, rfl, rfl⟩, fun o ob h hs => ?_,
      fun _ v vc h => ⟨vc, h, rfl⟩⟩
    have h' : (s.observers.push { node := _ })[o]? = some ob := h
    rw [Array.getElem?_push] at h'
    split at h'
    · cases h'; cases hs
    · exact ⟨ob, h', hs, rfl⟩
  all_goals
    unfold stepAction; dsimp only
    qpres

end IncrVerif.Proofs.FaultH
