import IncrVerif.Proofs.PerKeyH15
import IncrVerif.Proofs.PerKeyH16
import IncrVerif.Proofs.PerKeyH24
import IncrVerif.Proofs.PerKeyH25
/-!
# A run of a per-key change detector, part 6b: the START — the loop invariant holds in `started n s`

`li_start_of`: from `LcBase` and "the result is necessary" (`res_nec`, LC2) to `LI env s n op pr eres [] [] (started n s)`.
The structure part `Mid (twEnv env) (twL [] (started n s))` follows `DriverH.midOfDInv`: `struct_started` on `V s`
(the drain invariant lives there), then `Kin` transfer to the virtual twin.
-/
namespace IncrVerif.Proofs.PerKeyH
open IncrVerif.Engine IncrVerif.Driver IncrVerif.Proofs IncrVerif.Proofs.Step IncrVerif.Proofs.Sched
open IncrVerif.Proofs.ExpertH IncrVerif.Proofs.EffH IncrVerif.Proofs.DriverH IncrVerif.Proofs.ExpertH.QR

/-! ## `started` and the kind-twins -/

theorem Kin.started {t t' : State} (K : Kin t t') (n : Nat) : Kin (started n t) (started n t') where
  size := by rw [DriverH.started_size, DriverH.started_size]; exact K.size
  node m := by
    rw [started_nodeD, started_nodeD, K.size, K.stabNum]
    have h := K.node m
    split
    · rw [h]
    · exact h
  kids m := by rw [DriverH.started_kind, DriverH.started_kind]; exact K.kids m
  var m c := by rw [DriverH.started_kind, DriverH.started_kind]; exact K.var m c
  const m := by rw [DriverH.started_kind, DriverH.started_kind]; exact K.const m
  rest := by
    have h := K.rest
    exact congrArg (fun u : State =>
      ({ u with
          currentlyRunning := if u.cfg.debug = true then some n else u.currentlyRunning,
          counters := { u.counters with recomputed := u.counters.recomputed + 1 } } : State)) h

theorem ahhEmpty_twin {s : State} (A : AhhEmpty s) (l : List Event) : AhhEmpty (twL l s) :=
  ⟨A.length, A.buckets, fun m => by rw [KtwL_nodeD]; exact A.marks m⟩

theorem started_isStale_ne (n : Nat) (s : State) {m : Nat} (h : m ≠ n) : (started n s).isStale m = s.isStale m := by
  have hm : (started n s).nodeD m = s.nodeD m := started_other' n s h
  have hch : (started n s).children m = s.children m := by
    unfold State.children; rw [hm]; rfl
  have hca : ∀ c, ((started n s).nodeD c).changedAt = (s.nodeD c).changedAt := by
    intro c; rw [started_nodeD]; split <;> rfl
  unfold State.isStale
  simp only [hm, hch, hca]
  rfl

theorem started_observers (n : Nat) (s : State) (m : Nat) :
    ((started n s).nodeD m).observers = (s.nodeD m).observers := by
  rw [started_nodeD]; split <;> rfl

/-- the twin of the stamped state satisfies the invariant between two effects -/
theorem mid_started {env : Env} {s : State} {n : Nat} (D : PD env s (some n))
    (hne : ∀ e, (s.nodeD n).kind ≠ .expert e) : Mid (twEnv env) (twL [] (started n s)) := by
  have A := D.aux
  have F := A.frag
  rw [twL_started]
  obtain ⟨rk, AS⟩ := A.rank
  have nd : ∀ c, ((V s).nodeD c).parents.Nodup := fun c => by
    rw [V_nodeD, vNode_parents]; exact A.nodup c
  have S1 : Struct (penv env) rk (started n (V s)) := DriverH.struct_started D.inv AS nd
  have K : Kin (started n (V s)) (started n (virt (twL [] s))) := Kin.started (kin_twin_V [] s).symm n
  have hne' : ∀ e, ((twL [] s).nodeD n).kind ≠ .expert e := by
    intro e h
    rw [KtwL_kind, KtwKind_eq_expert] at h
    exact hne e h
  have hsk : SK (virtEnv (twEnv env)) (started n (virt (twL [] s))) := by
    intro m
    rw [DriverH.started_kind]
    exact sk_virt_twin [] F m
  refine ⟨DriverH.xfrag_started (xfrag_twin [] F) n, DriverH.ahhEmpty_started (ahhEmpty_twin A.ahh []) n, ⟨rk, ?_⟩,
    A.pinv, fun m => ?_⟩
  · rw [virt_started n (twL [] s) hne']
    exact K.struct S1 hsk
  · rw [started_nodeD]
    split
    · show ((twL [] s).nodeD m).numOnUpdateHandlers ≤ 0
      rw [KtwL_nodeD]; exact A.handlers m
    · rw [KtwL_nodeD]; exact A.handlers m

/-! ## the other fields -/

theorem pfrag_started {env : Env} {s : State} (F : PFrag env s) (n : Nat) : PFrag env (started n s) :=
  pfrag_of_same F (DriverH.started_size n s) rfl rfl (started_same n s)
    (fun _ erT he => ⟨erT, he, rfl, rfl, rfl, rfl⟩) (fun _ er he => ⟨er, he, rfl⟩)

theorem slotInv_started {env : Env} {s : State} (L : SlotInv env s) {n : Nat}
    (hne : ∀ e, (s.nodeD n).kind ≠ .expert e) : SlotInv env (started n s) := by
  refine ⟨fun e er he => L.deps e er he, fun m e er hk he hw => ?_, fun m e er hk he hc => ?_⟩
  · rw [DriverH.started_kind] at hk
    rw [DriverH.started_isNecessary]
    exact L.flag m e er hk he hw
  · rw [DriverH.started_kind] at hk
    have hmn : m ≠ n := fun e' => hne e (e' ▸ hk)
    rw [started_isStale_ne n s hmn] at hc
    intro ed hed hcb
    rw [started_value]
    exact L.good m e er hk he hc ed hed hcb

theorem bf_started (D : Nat → Prop) (n : Nat) (s : State) (hn : ∀ e, (s.nodeD n).kind ≠ .expert e) :
    BF D s (started n s) :=
  ⟨Nat.le_of_eq (DriverH.started_size n s).symm, fun m _ => DriverH.started_kind n s m, rfl,
    fun _ er h => ⟨er, h, rfl, rfl, fun _ => rfl, [], (List.append_nil _).symm⟩,
    fun m e _ hk hs => V_stamp_keep hk (DriverH.started_kind n s m) (by
      rw [started_nodeD]
      split
      · rename_i h
        have : m = n := h.1.symm
        subst this
        exact absurd hk (hn e)
      · rfl) (fun h => h) hs⟩

theorem pot_started {s : State} {ψ : Nat → Nat} (P : Pot s ψ) (n : Nat) : Pot (started n s) ψ := by
  refine ⟨fun a c ha hc => ?_, P.top, P.op, fun a ha => ?_⟩
  · rw [DriverH.started_size] at ha
    rw [DriverH.started_kind] at hc
    exact P.mono a c ha hc
  · rw [DriverH.started_size] at ha
    exact P.le a ha

/-- **the loop invariant at the start** (`hres`: LC2 `res_nec`) -/
theorem li_start_of {env : Env} {s : State} {n op eres : Nat} {pr : PerKeyRec} (B : LcBase env s n op pr eres)
    (hres : s.isNecessary pr.result = true) : LI env s n op pr eres [] [] (started n s) := by
  have D := B.pd
  have A := D.aux
  have F := A.frag
  have Hop := A.pk.ops op pr B.hop
  obtain ⟨x, e, er, hN, he, hpk, -⟩ := Hop.nodes
  have hnr : n = pr.result + 1 := by rw [← B.hn]; exact hN.lc
  have hkn : (s.nodeD n).kind = .map (fnPerKey + op) [pr.result - 1] := by rw [hnr]; exact hN.lcKind
  have hne : ∀ e, (s.nodeD n).kind ≠ .expert e := fun e h => by rw [hkn] at h; cases h
  have hpop : (started n s).perkeys[op]? = some pr := B.hop
  refine
    { mid := mid_started D hne, lf := LF.refl _ _, frag := pfrag_started F n, slots := slotInv_started A.slots hne,
      obs := ?_, psize := rfl, pother := fun _ _ => rfl, pop := ⟨pr.prevNodes, hpop⟩,
      core := ?_, dom := ?_, pnOld := ?_, newrec := ?_, pot := ?_, newKids := ?_, resKids := ?_,
      resNec := by rw [DriverH.started_isNecessary]; exact hres, forcedU := ?_, resAlt := ?_, fsame := ?_ }
  · intro m o ho
    rw [started_observers] at ho
    exact A.obs m o ho
  · intro pr' hp'
    rw [hpop] at hp'
    cases hp'
    exact OpCore.bf_same_size (bf_started (fun _ => False) n s hne) F Hop.core (DriverH.started_size n s)
      (fun e er er' h1 h2 => by
        have h2' : s.experts[e]? = some er' := h2
        rw [h1] at h2'; cases h2'; rfl)
      (fun m _ => started_observers n s m)
  · intro pr' hp' key
    rw [hpop] at hp'
    cases hp'
    simp only [List.not_mem_nil, decide_false, Bool.or_false]
    exact (Hop.dom key).symm
  · intro pr' hp' key p d hmem
    rw [hpop] at hp'
    cases hp'
    exact hmem
  · intro e er he hx
    have hx' : s.experts[e]? = some er := hx
    have := (Array.getElem?_eq_some_iff.1 hx').1
    omega
  · obtain ⟨ψ, P⟩ := A.pk.pot
    exact ⟨ψ, pot_started P n⟩
  · intro c x hc hc'
    rw [DriverH.started_size] at hc'
    omega
  · intro er er' h1 h2 ed hed
    have h2' : s.experts[eres]? = some er' := h2
    rw [h1] at h2'; cases h2'
    exact Or.inl hed
  · intro key p d hk
    cases hk
  · left
    refine ⟨fun pr' hp' => ?_, fun er er' h1 h2 => ?_⟩
    · rw [hpop] at hp'
      cases hp'
      rfl
    · have h2' : s.experts[eres]? = some er' := h2
      rw [h1] at h2'; cases h2'
      exact ⟨rfl, rfl⟩
  · intro e er er' _ h1 h2
    have h2' : s.experts[e]? = some er' := h2
    rw [h1] at h2'; cases h2'
    exact Or.inl rfl

end IncrVerif.Proofs.PerKeyH
