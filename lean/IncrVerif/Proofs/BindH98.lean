import IncrVerif.Proofs.BindH61
import IncrVerif.Proofs.BindH13
/-!
# Binds, part 5a: "generations are current" (`GenOK`) and the from-scratch semantics of programs with binds (`den`)

`evalB` (B3g) evaluates a bind's main node through the bind's CURRENT right-hand side, a node of the state.  The specification-level semantics `den` does not
look at the nodes a closure created at all: the value of `bindMain b` is obtained by evaluating the bind's lhs, applying the closure `env.body` to that value, and
evaluating the resulting TEMPLATE (`denT`).  The two agree when every change detector that is not stale last ran on the current lhs value, i.e. when the registered
nodes of the bind are the image of the template for that value (`ElabOf`, `GenOK`).
-/
namespace IncrVerif.Proofs.BindH
open IncrVerif.Engine IncrVerif.Proofs IncrVerif.Proofs.Step IncrVerif.Proofs.Sched

/-! ## the image of a template in the state -/

/-- resolve an operand against the naming table and the list of locals (as `resolveOpnd` does) -/
def resolveP (s : State) (locs : List Nat) : Opnd → Option Nat
  | .outer k => s.top[k]?
  | .loc j => locs[j]?
  | _ => none

def resolveAll (s : State) (locs : List Nat) : List Opnd → Option (List Nat)
  | [] => some []
  | o :: os =>
    match resolveP s locs o, resolveAll s locs os with
    | some n, some ns => some (n :: ns)
    | _, _ => none

/-- the kind of the node an F1 instruction creates, given the locals created before it and the lhs value -/
def kindOfInstr (s : State) (locs : List Nat) (v : Val) : Instr → Option Kind
  | .const w => some (.const w)
  | .lhsConst => some (.const v)
  | .map f args => (resolveAll s locs args).map (Kind.map f)
  | .fold f init cs => (resolveAll s locs cs).map fun l => if l.isEmpty then Kind.const init else Kind.fold f init l
  | _ => none

/-- `locs` (in creation order) is the image of template `t` for lhs value `v`, and `rhs` is what the template returns -/
structure ElabOf (s : State) (t : Template) (v : Val) (locs : List Nat) (rhs : Nat) : Prop where
  len : locs.length = t.instrs.length
  kinds : ∀ j i m, t.instrs[j]? = some i → locs[j]? = some m →
    kindOfInstr s (locs.take j) v i = some (s.nodeD m).kind
  ret : resolveP s locs t.ret = some rhs

/-- **generations are current**: a change detector that is not stale last ran on the CURRENT value of the lhs: the bind's registered nodes and right-hand side are
the image of the closure's template for that value -/
def GenOK (env : Env) (s : State) : Prop :=
  ∀ (b : Nat) (br : BindRec), s.binds[b]? = some br → s.isStale br.lhsChange = false →
    ∃ v r, (s.nodeD br.lhs).value = some v ∧ br.rhs = some r ∧
      ElabOf s (env.body br.body v) v br.allNodesCreatedOnRhs r

/-! ## from-scratch semantics -/

/-- all of a list of optional values -/
def allSome : List (Option Val) → Option (List Val)
  | [] => some []
  | a :: as =>
    match a, allSome as with
    | some v, some vs => some (v :: vs)
    | _, _ => none

/-- the value of an operand of a template: `ev` evaluates top-level nodes, `vals` are the values of the locals computed so far -/
def denOpnd (ev : Nat → Option Val) (top : Array Nat) (vals : List (Option Val)) : Opnd → Option Val
  | .outer k => match top[k]? with
    | some n => ev n
    | none => none
  | .loc j => (vals[j]?).join
  | _ => none

/-- the value of one instruction of a template -/
def denInstr (env : Env) (ev : Nat → Option Val) (top : Array Nat) (v : Val) (vals : List (Option Val)) :
    Instr → Option Val
  | .const w => some w
  | .lhsConst => some v
  | .map f args => (allSome (args.map (denOpnd ev top vals))).map (env.fn f)
  | .fold f init cs => (allSome (cs.map (denOpnd ev top vals))).map (List.foldl (env.foldStep f) init)
  | _ => none

/-- the values of the instructions of a template, in order -/
def denInstrs (env : Env) (ev : Nat → Option Val) (top : Array Nat) (v : Val) :
    List Instr → List (Option Val) → List (Option Val)
  | [], vals => vals
  | i :: is, vals => denInstrs env ev top v is (vals ++ [denInstr env ev top v vals i])

/-- the value of a template applied to lhs value `v` -/
def denT (env : Env) (ev : Nat → Option Val) (top : Array Nat) (t : Template) (v : Val) : Option Val :=
  denOpnd ev top (denInstrs env ev top v t.instrs []) t.ret

/-- **from-scratch semantics of a top-level node** (fuel `k`): `const`, `var`, `map`, `fold` as `Sched.eval`; a bind's main node: evaluate the lhs, run the closure
on that value, evaluate the template it yields.  No node created by a closure is looked at. -/
def den (env : Env) (s : State) : Nat → Nat → Option Val
  | 0, _ => none
  | k+1, n =>
    match (s.nodeD n).kind with
    | .const v => some v
    | .var c => (s.vars[c]?).map (·.value)
    | .map f args => (evalArgs (fun a => den env s k a) args).map (env.fn f)
    | .fold f init cs => (evalArgs (fun a => den env s k a) cs).map (List.foldl (env.foldStep f) init)
    | .bindLhsChange _ => some .unit
    | .bindMain b _ => match s.binds[b]? with
      | some br => match den env s k br.lhs with
        | some v => denT env (den env s k) s.top (env.body br.body v) v
        | none => none
      | none => none
    | _ => none

end IncrVerif.Proofs.BindH
