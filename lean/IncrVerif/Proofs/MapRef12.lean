import IncrVerif.Proofs.MapRef11
/-!
# map_ref fragment, part 5: the `didChange` invariant through the step of a node that is not a map_ref node
-/
namespace IncrVerif.Proofs.MapRefH
open IncrVerif.Engine IncrVerif.Proofs IncrVerif.Proofs.Step IncrVerif.Proofs.Sched IncrVerif.Proofs.Quiet

section
variable {env : Env} {g : Nat → Option Val} {s : State}

/-- recorded parent entries of map_ref parents are real child edges: from the graph invariant of the virtual state -/
theorem edgeOK_of_graph (gr : Graph (virtEnv env) (virt g s)) : EdgeOK s := by
  intro c p ci pr i hmem hk
  have hm : (p, ci) ∈ ((virt g s).nodeD c).parents := by rw [virt_nodeD, virtNode_parents]; exact hmem
  have := (gr.parent c p ci hm).2
  rw [virt_kids, hk] at this
  simp only [kidsR] at this
  cases ci with
  | zero => simpa using this
  | succ k => simp at this

/-- the child edge of a necessary map_ref node is recorded, and the input is necessary -/
theorem mapRef_edge (gr : Graph (virtEnv env) (virt g s)) {m pr i : Nat} (hm : s.isNecessary m = true)
    (hk : (s.nodeD m).kind = .mapRef pr i) : s.isNecessary i = true ∧ (m, 0) ∈ (s.nodeD i).parents := by
  have hmv : (virt g s).isNecessary m = true := by rw [virt_isNecessary]; exact hm
  have := gr.child m hmv 0 i (by rw [virt_kids, hk]; rfl)
  rw [virt_isNecessary, virt_nodeD, virtNode_parents] at this
  exact ⟨this.1, this.2.1⟩

theorem UpM.snoc {W : State} {i n m ci : Nat} (h : UpM W i n) (hmi : (m, ci) ∈ (W.nodeD i).parents)
    (hm : IsMapRef (W.nodeD m).kind) : UpM W m n := by
  induction h with
  | base h1 h2 => exact UpM.step h1 h2 (UpM.base hmi hm)
  | step h1 h2 _ ih => exact UpM.step h1 h2 (ih hmi)

/-- `UpM` only reads kinds and parent lists -/
theorem UpM.congr {W W' : State} (hk : ∀ m, (W'.nodeD m).kind = (W.nodeD m).kind)
    (hp : ∀ m, (W'.nodeD m).parents = (W.nodeD m).parents) {m c : Nat} (h : UpM W m c) : UpM W' m c := by
  induction h with
  | base h1 h2 => exact UpM.base (by rw [hp]; exact h1) (by rw [hk]; exact h2)
  | step h1 h2 _ ih => exact UpM.step (by rw [hp]; exact h1) (by rw [hk]; exact h2) ih

/-- a necessary map_ref node is above `n`, or reads in `W` what it read in `s` — when `W` is `s` up to the stored
value of the node `n` (which is not a map_ref node) and fields that `State.value` does not read -/
theorem up_or_same {W : State} {n : Nat} (F : RFrag env s) (FW : RFrag env W)
    (gr : Graph (virtEnv env) (virt g s))
    (hk : ∀ m, (W.nodeD m).kind = (s.nodeD m).kind)
    (hval : ∀ m, m ≠ n → (W.nodeD m).value = (s.nodeD m).value) :
    ∀ m pr i, s.isNecessary m = true → (s.nodeD m).kind = .mapRef pr i →
      UpM s m n ∨ W.value env m = s.value env m := by
  intro m
  induction m using Nat.strongRecOn with
  | _ m ih =>
    intro pr i hm hkm
    obtain ⟨hin, hedge⟩ := mapRef_edge gr hm hkm
    have hlt := F.lt_of_mapRef hkm
    have hi : i < m := F.back m hlt i (by rw [hkm]; simp [kidsR])
    have hmr : IsMapRef (s.nodeD m).kind := by rw [hkm]; trivial
    by_cases hin' : i = n
    · subst hin'; exact Or.inl (UpM.base hedge hmr)
    · rw [value_mapRef FW (by rw [hk]; exact hkm), value_mapRef F hkm]
      by_cases hmi : ∀ p j, (s.nodeD i).kind ≠ .mapRef p j
      · right
        rw [value_not_mapRef hmi, value_not_mapRef (by intro p j; rw [hk]; exact hmi p j), hval i hin']
      · have : ∃ p j, (s.nodeD i).kind = .mapRef p j := by
          cases hki : (s.nodeD i).kind <;>
            first | exact ⟨_, _, rfl⟩ | (exfalso; apply hmi; intro p j; rw [hki]; intro h; cases h)
        obtain ⟨p, j, hki⟩ := this
        rcases ih i hi p j hin hki with hu | hs
        · exact Or.inl (hu.snoc hedge hmr)
        · right; rw [hs]

end

/-- what a state must share with the pre-state `s` of the step for the flag argument: everything `State.value`,
necessity and the flags read — except the stored value of `n` -/
structure ValFrame (n : Nat) (s W : State) : Prop where
  size : W.nodes.size = s.nodes.size
  kind : ∀ m, (W.nodeD m).kind = (s.nodeD m).kind
  valid : ∀ m, (W.nodeD m).valid = (s.nodeD m).valid
  cutoff : ∀ m, (W.nodeD m).cutoff = (s.nodeD m).cutoff
  parents : ∀ m, (W.nodeD m).parents = (s.nodeD m).parents
  observers : ∀ m, (W.nodeD m).observers = (s.nodeD m).observers
  force : ∀ m, (W.nodeD m).forceNecessary = (s.nodeD m).forceNecessary
  flag : ∀ m, (W.nodeD m).didChange = (s.nodeD m).didChange
  value : ∀ m, m ≠ n → (W.nodeD m).value = (s.nodeD m).value
  pc : s.panicCountdown = none → W.panicCountdown = none

theorem ValFrame.nec {n : Nat} {s W : State} (h : ValFrame n s W) (m : Nat) : W.isNecessary m = s.isNecessary m := by
  simp only [State.isNecessary, Node.isNecessary, h.parents, h.observers, h.force]

theorem ValFrame.frag {env : Env} {n : Nat} {s W : State} (h : ValFrame n s W) (F : RFrag env s) : RFrag env W where
  pc := h.pc F.pc
  kind m hm := by rw [h.kind]; exact F.kind m (by rw [← h.size]; exact hm)
  valid m hm := by rw [h.valid]; exact F.valid m (by rw [← h.size]; exact hm)
  back m hm := by rw [h.kind]; exact F.back m (by rw [← h.size]; exact hm)
  cut m p i hk := by rw [h.kind] at hk; rw [h.cutoff]; exact F.cut m p i hk

theorem ValFrame.trans_quiet {n : Nat} {s W W' : State} (h : ValFrame n s W) (q : Step.Quiet W W')
    (hf : ∀ m, (W'.nodeD m).didChange = (W.nodeD m).didChange) : ValFrame n s W' where
  size := q.size.trans h.size
  kind m := (q.node m).kind.trans (h.kind m)
  valid m := (q.node m).valid.trans (h.valid m)
  cutoff m := (q.node m).cutoff.trans (h.cutoff m)
  parents m := (q.node m).parents.trans (h.parents m)
  observers m := (q.node m).observers.trans (h.observers m)
  force m := (q.node m).forceNecessary.trans (h.force m)
  flag m := (hf m).trans (h.flag m)
  value m hm := (q.node m).value.trans (h.value m hm)
  pc hp := q.pc (h.pc hp)


theorem ValFrame.refl (n : Nat) (s : State) : ValFrame n s s :=
  ⟨rfl, fun _ => rfl, fun _ => rfl, fun _ => rfl, fun _ => rfl, fun _ => rfl, fun _ => rfl, fun _ => rfl,
    fun _ _ => rfl, id⟩

theorem ValFrame.logged {n : Nat} {s W : State} (h : ValFrame n s W) (es : List Event) :
    ValFrame n s (Step.logged es W) :=
  ⟨h.size, h.kind, h.valid, h.cutoff, h.parents, h.observers, h.force, h.flag, h.value, h.pc⟩

theorem ValFrame.setValue {n : Nat} {s W : State} (h : ValFrame n s W) (v : Option Val) :
    ValFrame n s (Step.setValue n v W) := by
  have e : ∀ m, (Step.setValue n v W).nodeD m =
      if n = m ∧ m < W.nodes.size then { W.nodeD m with value := v } else W.nodeD m := fun m => setValue_nodeD n m v W
  refine ⟨by rw [← h.size]; simp [Step.setValue], ?_, ?_, ?_, ?_, ?_, ?_, ?_, ?_, h.pc⟩
  all_goals intro m
  · rw [e]; split <;> exact h.kind m
  · rw [e]; split <;> exact h.valid m
  · rw [e]; split <;> exact h.cutoff m
  · rw [e]; split <;> exact h.parents m
  · rw [e]; split <;> exact h.observers m
  · rw [e]; split <;> exact h.force m
  · rw [e]; split <;> exact h.flag m
  · intro hm; rw [e, if_neg (fun hh => hm hh.1.symm)]; exact h.value m hm

theorem ValFrame.touched {n : Nat} {s W : State} (h : ValFrame n s W) : ValFrame n s (Step.touched n W) := by
  have e := fun m => touched_nodeD n m W
  refine ⟨by rw [← h.size]; simp [Step.touched], ?_, ?_, ?_, ?_, ?_, ?_, ?_, ?_, h.pc⟩
  all_goals intro m
  · rw [e]; split <;> exact h.kind m
  · rw [e]; split <;> exact h.valid m
  · rw [e]; split <;> exact h.cutoff m
  · rw [e]; split <;> exact h.parents m
  · rw [e]; split <;> exact h.observers m
  · rw [e]; split <;> exact h.force m
  · rw [e]; split <;> exact h.flag m
  · intro hm; rw [e, if_neg (fun hh => hm hh.1.symm)]; exact h.value m hm

theorem ValFrame.started (n : Nat) (s : State) : ValFrame n s (Step.started n s) := by
  have e := fun m => started_nodeD n m s
  refine ⟨by simp [Step.started], ?_, ?_, ?_, ?_, ?_, ?_, ?_, ?_, id⟩
  all_goals intro m
  all_goals first
    | (intro hm; rw [e, if_neg (fun hh => hm hh.1.symm)])
    | (rw [e]; split <;> rfl)

/-- the `didChange` invariant only reads necessity, kinds, flags and read values -/
theorem KInv.congr {env : Env} {g : Nat → Option Val} {s s' : State} (K : KInv env g s)
    (hn : ∀ m, s'.isNecessary m = s.isNecessary m) (hk : ∀ m, (s'.nodeD m).kind = (s.nodeD m).kind)
    (hf : ∀ m, (s'.nodeD m).didChange = false → (s.nodeD m).didChange = false)
    (hv : ∀ m p i, s.isNecessary m = true → (s.nodeD m).kind = .mapRef p i → (s'.nodeD m).didChange = false →
      s'.value env m = s.value env m) : KInv env g s' := by
  intro m p i hm hkm hd
  rw [hn] at hm; rw [hk] at hkm
  rw [K m p i hm hkm (hf m hd), hv m p i hm hkm hd]


theorem RFrag.of_quiet {env : Env} {s s' : State} (F : RFrag env s) (q : Step.Quiet s s') : RFrag env s' where
  pc := q.pc F.pc
  kind m hm := by rw [(q.node m).kind]; exact F.kind m (by rw [← q.size]; exact hm)
  valid m hm := by rw [(q.node m).valid]; exact F.valid m (by rw [← q.size]; exact hm)
  back m hm := by rw [(q.node m).kind]; exact F.back m (by rw [← q.size]; exact hm)
  cut m p i hk := by rw [(q.node m).kind] at hk; rw [(q.node m).cutoff]; exact F.cut m p i hk

theorem EdgeOK.congr {s W : State} (h : EdgeOK s) (hk : ∀ m, (W.nodeD m).kind = (s.nodeD m).kind)
    (hp : ∀ m, (W.nodeD m).parents = (s.nodeD m).parents) : EdgeOK W := by
  intro c p ci pr i hm hkp
  rw [hp] at hm; rw [hk] at hkp
  exact h c p ci pr i hm hkp

/-- **the `didChange` invariant through `maybe_change_value`** of a node `n` that is not a map_ref node, run in a
state `S0` that is the pre-state `s` up to stamps/log/counters. -/
theorem mcv_keepsK {env : Env} {g : Nat → Option Val} {s S0 s' : State} {fuel n : Nat} {v : Val} {r : Option Nat}
    (F : RFrag env s) (gr : Graph (virtEnv env) (virt g s)) (K : KInv env g s)
    (hn : n < s.nodes.size) (hnm : ∀ p i, (s.nodeD n).kind ≠ .mapRef p i)
    (hcut : (s.nodeD n).cutoff = .eq ∨ (s.nodeD n).cutoff = .never)
    (VF : ValFrame n s S0) (hv0 : (S0.nodeD n).value = (s.nodeD n).value)
    (h : (maybeChangeValue env fuel n v).run.run S0 = (.ok r, s')) : KInv env g s' ∧ RFrag env s' := by
  have hn0 : n < S0.nodes.size := by rw [VF.size]; exact hn
  have hnn := some_of_lt hn0
  have hpc : S0.panicCountdown = none := VF.pc F.pc
  have hcut0 : (S0.nodeD n).cutoff = .eq ∨ (S0.nodeD n).cutoff = .never := by rw [VF.cutoff]; exact hcut
  rcases mcvChanges_static env S0 n v hcut0 with hd | ⟨hd, hold⟩
  · -- propagate
    rw [mcv_run' env fuel n v S0 _ hnn hpc, hd] at h
    dsimp only at h
    generalize hW0 : setValue n (some v) (logged (mcvLog env S0 n v) S0) = W0 at h
    have VF0 : ValFrame n s W0 := by rw [← hW0]; exact (VF.logged _).setValue _
    have VFW : ValFrame n s (touched n W0) := VF0.touched
    have q : Step.Quiet (touched n W0) s' := mcvm_true_quiet _ _ _ _ _ _ _ _ h
    have fm : FM W0 s' := (PresFM.maybeChangeValueManual ..).h _ _ _ h
    have C : CCtx env s (touched n W0) :=
      ⟨VFW.frag F, F, fun m => (VFW.kind m).symm, (edgeOK_of_graph gr).congr VFW.kind VFW.parents⟩
    have hold : ∀ o, (S0.nodeD n).value = some o → s.value env n = some o := by
      intro o ho; rw [value_not_mapRef hnm, ← hv0]; exact ho
    have flags := mcvm_flags C hold h
    refine ⟨?_, (VFW.frag F).of_quiet q⟩
    refine K.congr (fun m => ?_) (fun m => (q.node m).kind.trans (VFW.kind m)) (fun m hd' => ?_) ?_
    · have : (s'.nodeD m).isNecessary = ((touched n W0).nodeD m).isNecessary := (q.node m).isNecessary
      exact this.trans (VFW.nec m)
    · cases hs : (s.nodeD m).didChange with
      | false => rfl
      | true =>
        have := fm m (by rw [VF0.flag]; exact hs)
        rw [this] at hd'; cases hd'
    · intro m p i hm hk hd'
      rw [q.value_eqM env m]
      rcases up_or_same (W := touched n W0) F (VFW.frag F) gr VFW.kind VFW.value m p i hm hk with hu | hs
      · have hu' : UpM (touched n W0) m n :=
          hu.congr VFW.kind VFW.parents
        by_cases hc : Changed env s (touched n W0) m
        · rw [flags m hu' hc] at hd'; cases hd'
        · unfold Changed at hc
          have : ¬ (s.value env m ≠ (touched n W0).value env m) := fun h => hc (Or.inr h)
          exact (Decidable.not_not.1 this).symm
      · exact hs
  · -- suppress: nothing a reader sees changes
    rw [mcv_suppress env fuel n v S0 _ hnn hpc hd] at h
    cases h
    have VF1 : ValFrame n s (setValue n (some v) (logged (mcvLog env S0 n v) S0)) := (VF.logged _).setValue _
    have hvn : ((setValue n (some v) (logged (mcvLog env S0 n v) S0)).nodeD n).value = (s.nodeD n).value := by
      rw [setValue_nodeD, if_pos ⟨rfl, hn0⟩, ← hv0, hold]
    refine ⟨?_, VF1.frag F⟩
    refine K.congr VF1.nec VF1.kind (fun m hd' => by rw [← VF1.flag]; exact hd') (fun m p i _ _ _ => ?_)
    refine value_congr env s _ VF1.size (fun k => ?_) m
    simp only [valueCore, VF1.kind, VF1.valid]
    by_cases hkn : k = n
    · subst hkn; rw [hvn]
    · rw [VF1.value k hkn]

end IncrVerif.Proofs.MapRefH
