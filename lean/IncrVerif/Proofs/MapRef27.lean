import IncrVerif.Proofs.MapRef26
/-!
# map_ref fragment: the API actions other than `stabilise` keep the kinds in the fragment (`RKRel`)
-/
namespace IncrVerif.Proofs.MapRefH
open IncrVerif.Engine IncrVerif.Driver IncrVerif.Proofs IncrVerif.Proofs.Step IncrVerif.Proofs.Sched IncrVerif.Proofs.Quiet

def RKAll (env : Env) (s : State) : Prop := ∀ n, n < s.nodes.size → RKind env (s.nodeD n).kind

def RKRel (env : Env) (s s' : State) : Prop := RKAll env s → RKAll env s'

instance (env : Env) : Step.PreOrd (RKRel env) := ⟨fun _ h => h, fun h1 h2 h => h2 (h1 h)⟩

def RInstrOK (env : Env) : Instr → Prop
  | .map f _ => f < projBase ∧ (f < fnZip → ∀ vals, env.fnEff f vals = [])
  | .mapRef p _ => projBase + p < fnPerKey
  | _ => True

def RActionOK (env : Env) : Action → Prop
  | .create i => RInstrOK env i
  | _ => True

theorem RKRel.of_nodes {env : Env} {s s' : State} (h : s'.nodes = s.nodes) : RKRel env s s' := by
  intro hs n hn
  have : s'.nodeD n = s.nodeD n := by simp [State.nodeD, h]
  rw [this]; exact hs n (by rw [← h]; exact hn)

theorem RKRel.modNode {env : Env} (s : State) (n : Nat) (f : Node → Node) (hf : ∀ x, (f x).kind = x.kind) :
    RKRel env s { s with nodes := s.nodes.modify n f } := by
  intro hs m hm
  have hm' : m < s.nodes.size := by simpa using hm
  rw [nodeD_modify]; split
  · rw [hf]; exact hs m hm'
  · exact hs m hm'

theorem RKRel.push {env : Env} (s : State) (nd : Node) (hk : RKind env nd.kind) :
    RKRel env s { s with nodes := s.nodes.push nd } := by
  intro hs m hm
  have hm' : m < s.nodes.size + 1 := by simpa using hm
  simp only [State.nodeD, Array.getElem?_push]
  split
  · exact hk
  · have := hs m (by omega)
    simpa [State.nodeD] using this

theorem PresRK.modNode {env : Env} (n : Nat) (f : Node → Node) (hf : ∀ x, (f x).kind = x.kind) :
    Step.Pres (RKRel env) (Engine.modNode n f) := by
  unfold Engine.modNode; exact Step.Pres.modify fun s => RKRel.modNode s n f hf

macro_rules
  | `(tactic| qleaf) =>
    `(tactic| ((with_reducible apply Step.Pres.modify); intro _; exact RKRel.of_nodes rfl))
macro_rules
  | `(tactic| qleaf) => `(tactic| ((with_reducible apply PresRK.modNode); intro _; rfl))

macro "rk_leaf " n:ident : command =>
  `(macro_rules | `(tactic| qleaf) => `(tactic| with_reducible apply $n))

section
variable {env : Env}

theorem PresRK.bumpCounter (f) : Step.Pres (RKRel env) (Engine.bumpCounter f) := by
  unfold Engine.bumpCounter; qpres
rk_leaf PresRK.bumpCounter
theorem PresRK.modBind (b f) : Step.Pres (RKRel env) (Engine.modBind b f) := by unfold Engine.modBind; qpres
rk_leaf PresRK.modBind

theorem PresRK.createNode (k sc c) (hk : RKind env k) : Step.Pres (RKRel env) (Engine.createNode k sc c) := by
  unfold Engine.createNode
  qpres
  apply Step.Pres.modify; intro s
  exact RKRel.push s _ hk

theorem PresRK.createVar (v sc) : Step.Pres (RKRel env) (Engine.createVar v sc) := by
  unfold Engine.createVar
  refine Step.Pres.bind Step.Pres.get fun s => ?_
  refine Step.Pres.bind (PresRK.createNode _ _ _ trivial) fun n => ?_
  qpres

theorem PresRK.resolveOpnd (loc o) : Step.Pres (RKRel env) (Engine.resolveOpnd loc o) := by
  unfold Engine.resolveOpnd; qpres
rk_leaf PresRK.resolveOpnd
theorem PresRK.isConstant (n) : Step.Pres (RKRel env) (Engine.isConstant n) := by
  unfold Engine.isConstant; qpres
rk_leaf PresRK.isConstant

theorem fnZip_lt_projBase : fnZip < projBase := by decide

theorem PresRK.elabInstr {i : Instr} (h : RInstr i) (hok : RInstrOK env i) :
    Step.Pres (RKRel env) (Engine.elabInstr [] .unit i) := by
  unfold Engine.elabInstr
  cases i <;> simp only [RInstr] at h <;> simp only [RInstrOK] at hok
  case const v =>
    refine Step.Pres.bind Step.Pres.get fun s => Step.Pres.map _ (PresRK.createNode _ _ _ trivial)
  case var v =>
    refine Step.Pres.bind Step.Pres.get fun s => Step.Pres.map _ (PresRK.createVar _ _)
  case map f args =>
    refine Step.Pres.bind Step.Pres.get fun s => ?_
    refine Step.Pres.bind (Step.Pres.mapM (fun a => PresRK.resolveOpnd _ a) _) fun as => ?_
    exact Step.Pres.map _ (PresRK.createNode _ _ _ hok)
  case fold f init cs =>
    refine Step.Pres.bind Step.Pres.get fun s => ?_
    refine Step.Pres.bind (Step.Pres.mapM (fun a => PresRK.resolveOpnd _ a) _) fun as => ?_
    split
    · exact Step.Pres.map _ (PresRK.createNode _ _ _ trivial)
    · exact Step.Pres.map _ (PresRK.createNode _ _ _ trivial)
  case mapRef p i =>
    refine Step.Pres.bind Step.Pres.get fun s => ?_
    refine Step.Pres.bind (PresRK.resolveOpnd _ _) fun x => ?_
    exact Step.Pres.map _ (PresRK.createNode _ _ _ hok)
  case zip a b =>
    refine Step.Pres.bind Step.Pres.get fun s => ?_
    refine Step.Pres.bind (PresRK.resolveOpnd _ _) fun x => ?_
    refine Step.Pres.bind (PresRK.resolveOpnd _ _) fun y => ?_
    refine Step.Pres.bind (PresRK.isConstant _) fun cx => ?_
    refine Step.Pres.bind (PresRK.isConstant _) fun cy => ?_
    split
    · exact Step.Pres.map _ (PresRK.createNode _ _ _ trivial)
    · exact Step.Pres.map _ (PresRK.createNode _ _ _
        ⟨fnZip_lt_projBase, fun h => absurd h (Nat.lt_irrefl _)⟩)

theorem PresRK.elabInstrM {i : Instr} (h : RInstr i) (hok : RInstrOK env i) :
    Step.Pres (RKRel env) (Engine.elabInstrM env [] .unit i) := by
  rw [elabInstrM_eq _ _ _ h]; exact PresRK.elabInstr h hok

theorem PresRK.getObs (o) : Step.Pres (RKRel env) (Engine.getObs o) := by unfold Engine.getObs; qpres
rk_leaf PresRK.getObs
theorem PresRK.modObs (o f) : Step.Pres (RKRel env) (Engine.modObs o f) := by unfold Engine.modObs; qpres
rk_leaf PresRK.modObs
theorem PresRK.disallowFutureUse (o) : Step.Pres (RKRel env) (Engine.disallowFutureUse o) := by
  unfold Engine.disallowFutureUse; qpres
rk_leaf PresRK.disallowFutureUse
theorem PresRK.modVar (v f) : Step.Pres (RKRel env) (Engine.modVar v f) := by unfold Engine.modVar; qpres
rk_leaf PresRK.modVar
theorem PresRK.rchLink (n) : Step.Pres (RKRel env) (Engine.rchLink n) := by unfold Engine.rchLink; qpres
rk_leaf PresRK.rchLink
theorem PresRK.rchInsert (n) : Step.Pres (RKRel env) (Engine.rchInsert n) := by unfold Engine.rchInsert; qpres
rk_leaf PresRK.rchInsert
theorem PresRK.didSetVarWhileNotStabilising (v) :
    Step.Pres (RKRel env) (Engine.didSetVarWhileNotStabilising v) := by
  unfold Engine.didSetVarWhileNotStabilising; qpres
rk_leaf PresRK.didSetVarWhileNotStabilising
theorem PresRK.writeVar (v f b) : Step.Pres (RKRel env) (Engine.writeVar v f b) := by
  unfold Engine.writeVar; qpres
rk_leaf PresRK.writeVar

theorem PresRK.discard {α} {x : M α} (h : Step.Pres (RKRel env) x) : Step.Pres (RKRel env) (discard x) := by
  unfold Functor.discard; exact Step.Pres.map _ h

end

theorem PresRK.stepAction (env : Env) (a : Action) (tk : Array Nat) (h : RAction a) (hok : RActionOK env a) :
    Step.Pres (RKRel env) (Engine.stepAction env a tk) := by
  unfold Engine.stepAction
  cases a <;> simp only [RAction] at h <;> simp only [RActionOK] at hok
  case create i =>
    refine Step.Pres.bind (PresRK.elabInstrM h hok) fun r => ?_
    qpres
  all_goals first
    | (qpres; done)
    | (refine Step.Pres.bind (PresRK.discard (PresRK.writeVar _ _ _)) fun _ => ?_; qpres; done)

end IncrVerif.Proofs.MapRefH
