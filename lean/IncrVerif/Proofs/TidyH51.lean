import IncrVerif.Proofs.TidyH50
import IncrVerif.Proofs.TidyH44
import IncrVerif.Proofs.TidyH46
import IncrVerif.Proofs.TidyH47
/-!
# T4, part 4: `stabilise` RETURNS on states of fragment X1 (pending observers allowed) and keeps the extra invariant
-/
namespace IncrVerif.Proofs.TidyH.XT
open IncrVerif.Engine IncrVerif.Driver IncrVerif.Proofs IncrVerif.Proofs.Step IncrVerif.Proofs.Sched
open IncrVerif.Proofs.ExpertH IncrVerif.Proofs.ExpertH.QR IncrVerif.Proofs.TidyH.XT.XR

set_option maxHeartbeats 1000000 in
/-- **`stabilise` returns** (fragment X1, enough fuel), and the extra invariant is kept. -/
theorem stabilise_totalX {env : Env} {rk : Nat → Nat} {N fuel : Nat} {s : State} (Q : QInvX env rk s)
    (T : TInvX N s) (hf : 3 * s.nodes.size + 4 ≤ fuel) :
    ∃ s', (stabilise env fuel).run.run s = (.ok (), s') ∧ TInvX N s' ∧ s'.nodes.size = s.nodes.size ∧
      s'.vars.size = s.vars.size ∧ s'.observers.size = s.observers.size := by
  have Qv := Q.q
  -- the state with the status set
  obtain ⟨s0, hs0⟩ : ∃ s0 : State, s0 = { s with status := .stabilising } := ⟨_, rfl⟩
  have hs0v : virt s0 = { virt s with status := .stabilising } := by rw [hs0]; rfl
  have hsz0 : s0.nodes.size = s.nodes.size := by rw [hs0]
  have F0 : XFrag env s0 := by
    rw [hs0]; exact ⟨Q.frag.pc, Q.frag.kind, Q.frag.valid, Q.frag.xrec, Q.frag.xok⟩
  have A0 : QR.AhhEmpty s0 := by
    rw [hs0]; exact ⟨Q.ahh.length, Q.ahh.buckets, Q.ahh.marks⟩
  have hp0 : s0.propagateInvalidity = [] := by rw [hs0]; exact Q.pinv
  have S0 : SInv (virtEnv env) rk (virt s0) (virt s0).newObservers (virt s0).disallowedObservers := by
    rw [hs0v]
    exact ⟨Qv.struct.congr (SameG.of_nodes rfl rfl rfl rfl rfl),
      ⟨Qv.obs.inRange, Qv.obs.mem, Qv.obs.created, Qv.obs.newIn, Qv.obs.dis, Qv.obs.disIn, Qv.obs.disNodup⟩,
      Qv.pinv, Qv.handlers⟩
  have hb0 : HBd (virt s0) allClosed := X4f.hbd_of_nodes T.hb (by rw [hs0v])
  have R0 : Room N (virt s0) := by rw [hs0v]; exact ⟨T.room.ahh, T.room.rch, T.room.size⟩
  have fr0 : FrR s0 := FrR.of_frag F0 hp0
  -- the two loops
  have hf1 : 2 * (virt s0).nodes.size + 2 ≤ fuel := by rw [virt_size, hsz0]; omega
  obtain ⟨_, v1, hv1, hb1⟩ := addNewObservers_totalR (fuel := fuel) S0 hb0 R0
    (by rw [hs0v]; exact T.newNodup) (by rw [hs0v]; exact T.newState) hf1
  obtain ⟨t1, h1, e1, frr1⟩ := SimR.addNewObservers env fuel s0 fr0 _ v1 hv1
  rw [e1] at hv1 hb1
  have fr1 : Fr t1 := frr1.fr
  obtain ⟨S1, hn1, hd1, P1, O1, -⟩ := addNewObservers_s S0 hv1
  have F1 : XFrag env t1 := F0.of_xf ((PresX.addNewObservers env fuel).h _ _ _ h1) fr1
  have A1 : QR.AhhEmpty t1 := ahhEmpty_of_ahf A0 ((PresAh.addNewObservers env fuel).h _ _ _ h1)
  have hf2 : 3 * (virt t1).nodes.size + 3 ≤ fuel := by rw [P1.size, virt_size, hsz0]; omega
  obtain ⟨_, v2, hv2, hb2⟩ := unlinkDisallowedObservers_totalR (fuel := fuel) S1 hn1 hb1 hf2
  obtain ⟨t2, h2, e2, frr2⟩ := SimR.unlinkDisallowedObservers fuel t1 frr1 _ v2 hv2
  rw [e2] at hv2 hb2
  have fr2 : Fr t2 := frr2.fr
  obtain ⟨S2, hn2, hd2, P2, O2⟩ := unlinkDisallowedObservers_s S1 hn1 hv2
  have F2 : XFrag env t2 := F1.of_xf ((PresX.unlinkDisallowedObservers fuel).h _ _ _ h2) fr2
  have A2 : QR.AhhEmpty t2 := ahhEmpty_of_ahf A1 ((PresAh.unlinkDisallowedObservers fuel).h _ _ _ h2)
  have P := P1.trans P2
  have R2 : Room N (virt t2) := R0.of_pframe P
  -- the drain
  obtain ⟨D2, U2⟩ := drain_start Qv hs0v S2 P
  have DR2 : DInvX env t2 none := ⟨F2, D2, fr2.pinv, A2⟩
  have hsz2 : t2.nodes.size = s.nodes.size := by
    have := P.size; rw [virt_size, virt_size, hsz0] at this; exact this
  have Sf : Safe (virt t2) := by
    refine ⟨fun n hn => ?_, fun n hn => (GInv.node S2.struct (nec_lt_size hn)).top⟩
    have h1 := hb2 n hn rfl
    have h2 := dp_room S2.struct.static R2 (nec_lt_size hn)
    rw [R2.rch]; omega
  obtain ⟨t3, h3, DR3, he3, f3, -⟩ := drainHeapX_total_inv (fuel := fuel) DR2 Sf (by rw [hsz2]; omega)
  have c3 := f3.calm
  have hk := f3.keyD
  simp only [KeyD, stateKeyD, Prod.mk.injEq] at hk
  obtain ⟨k_obs, -, -, k_top, -, -, -, -, -, -, k_ahh⟩ := hk
  -- the end
  have hset3 : t3.setDuringStab = [] := by
    have := c3.setDuringStab
    have e1 : (virt t3).setDuringStab = t3.setDuringStab := rfl
    rw [← e1, this, P.setDuringStab, hs0v]; exact Qv.setDuringStab
  have hdead3 : t3.deadVars = [] := by
    have := c3.deadVars
    have e1 : (virt t3).deadVars = t3.deadVars := rfl
    rw [← e1, this, P.deadVars, hs0v]; exact Qv.deadVars
  have hobs3 : ∀ (o : Nat) (ob : ObsRec), t3.observers[o]? = some ob → ob.handlers = [] := by
    intro o ob ho
    have e1 : (virt t3).observers = t3.observers := rfl
    rw [← e1, k_obs] at ho
    exact (S2.obs.inRange o ob ho).2
  have hhas0 : HasRange s0 := by
    intro n hn
    have : s0.handleAfterStab = [] := by rw [hs0]; exact Qv.handleAfterStab
    rw [this] at hn; cases hn
  have hhas2 : HasRange t2 := unlinkDisallowedObservers_hasRange h2 (addNewObservers_hasRange h1 hhas0)
  have hnum2 : ∀ m, ((virt t2).nodeD m).numOnUpdateHandlers ≤ 0 := S2.handlers
  have hhas3 : ∀ n, n ∈ t3.handleAfterStab → n < t3.nodes.size := by
    intro n hn
    have e1 : (virt t3).handleAfterStab = t3.handleAfterStab := rfl
    have e2' : (virt t2).handleAfterStab = t2.handleAfterStab := rfl
    rw [← e1, c3.has hnum2, e2'] at hn
    have := f3.frame.size
    rw [virt_size, virt_size] at this
    rw [this]; exact hhas2 n hn
  have hno3 : ∀ n o, o ∈ (t3.nodeD n).observers → o < t3.observers.size := by
    intro n o ho
    have e1 : ((virt t3).nodeD n).observers = (t3.nodeD n).observers := by rw [virt_nodeD]; rfl
    rw [← e1, (f3.frame.shape n).observers] at ho
    obtain ⟨ob, hob, -⟩ := (S2.obs.mem n o).1 ho
    have e3 : (virt t3).observers = t3.observers := rfl
    rw [← e3, k_obs]
    exact (Array.getElem?_eq_some_iff.1 hob).1
  obtain ⟨_, s', h4, -⟩ := stabiliseEnd_total (env := env) (fuel := fuel) (s := t3) hset3 hdead3 hobs3 hhas3 hno3
  have E := stabiliseEnd_fin (env := env) (fuel := fuel) (s := t3) (s' := s') hset3 hdead3 hobs3 h4
  have Ev := finished_virt E
  -- the run
  have hrun : (stabilise env fuel).run.run s = (.ok (), s') := by
    unfold stabilise
    have hst : (s.status == Status.notStabilising) = true := by
      have : s.status = .notStabilising := Qv.status
      rw [this]; rfl
    rw [run_bind_get, run_bind_ok (show (assertM (s.status == Status.notStabilising)
      "state:stabilise:status").run.run s = (.ok (), s) by rw [run_assertM, hst]; rfl),
      run_bind_modify]
    rw [← hs0, run_bind_ok h1, run_bind_ok h2, run_bind_ok h3]
    exact h4
  have hsize' : s'.nodes.size = s.nodes.size := by
    have := f3.frame.size
    rw [virt_size, virt_size] at this
    rw [E.size, this, hsz2]
  refine ⟨s', hrun, ?_, hsize', ?_, ?_⟩
  -- the extra invariant at the end, read in the virtual states
  · have hEn : ∀ m, ∃ b, (virt s').nodeD m = { (virt t3).nodeD m with inHandleAfterStab := b } := Ev.node
    have hnec' : ∀ m, (virt s').isNecessary m = (virt t2).isNecessary m := fun m => by
      obtain ⟨b, hb⟩ := hEn m
      have e1 : (virt s').isNecessary m = (virt t3).isNecessary m := by
        simp only [State.isNecessary, hb]; rfl
      rw [e1, f3.frame.nec]
    have hh' : ∀ m, ((virt s').nodeD m).height = ((virt t2).nodeD m).height := fun m => by
      obtain ⟨b, hb⟩ := hEn m
      rw [hb]; exact (f3.frame.shape m).height
    have hk' : ∀ m, ((virt s').nodeD m).kind = ((virt t2).nodeD m).kind := fun m => by
      obtain ⟨b, hb⟩ := hEn m
      rw [hb]; exact (f3.frame.shape m).kind
    have hsz' : (virt s').nodes.size = (virt t2).nodes.size := by rw [Ev.size, f3.frame.size]
    refine ⟨X4g.HBd_of_eq hb2 hnec' hh' hk' hsz', ⟨?_, ?_, ?_⟩, ?_, ?_, ?_, ?_⟩
    · rw [Ev.ahh, k_ahh]; exact R2.ahh
    · rw [Ev.rch, ← R2.rch]; exact maxAllowed_congr f3.frame.qsize
    · rw [hsz']; exact R2.size
    · intro c vc hc
      rw [Ev.vars, f3.frame.vars, P.vars, hs0v] at hc
      exact T.linked c vc hc
    · rw [Ev.top, k_top, P.top, hs0v, hsz', P.size, hs0v]; exact T.topSize
    · rw [Ev.newObservers, c3.newObservers, hn2]; exact List.nodup_nil
    · intro o ob ho
      rw [Ev.newObservers, c3.newObservers, hn2] at ho; cases ho
  · have e1 : (virt s').vars = s'.vars := rfl
    have e2' : (virt s).vars = s.vars := rfl
    rw [← e1, Ev.vars, f3.frame.vars, P.vars, hs0v]
    rfl
  · have e1 : (virt s').observers = s'.observers := rfl
    rw [← e1, Ev.observers, k_obs, O2.1, O1.1, hs0v]
    rfl

end IncrVerif.Proofs.TidyH.XT
