import IncrVerif.Proofs.MapRef13
/-!
# map_ref fragment, part 7: one `recomputeOne` — a map_ref node

No simulation here (the actual node fires iff its `didChange` flag is up, the virtual node iff its ghost value
differs from the new projection): the step relation `Sched.StepRel` of the virtual states is assembled from the
actual run, with the new ghost value `g' n = some (proj p (value of the input))`.
-/
namespace IncrVerif.Proofs.MapRefH
open IncrVerif.Engine IncrVerif.Proofs IncrVerif.Proofs.Step IncrVerif.Proofs.Sched IncrVerif.Proofs.Quiet

/-- `g` with the ghost value of `n` replaced -/
def upd1 (g : Nat → Option Val) (n : Nat) (x : Option Val) : Nat → Option Val := fun m => if m = n then x else g m

theorem upd1_self (g : Nat → Option Val) (n : Nat) (x : Option Val) : upd1 g n x n = x := by simp [upd1]
theorem upd1_other (g : Nat → Option Val) (n : Nat) (x : Option Val) {m : Nat} (h : m ≠ n) : upd1 g n x m = g m := by
  simp [upd1, h]

/-- `State.value` does not read the stored value of a (valid) map_ref node -/
theorem value_congr_mr (env : Env) (s s' : State) (hsz : s'.nodes.size = s.nodes.size)
    (h : ∀ m, (s'.nodeD m).kind = (s.nodeD m).kind ∧ (s'.nodeD m).valid = (s.nodeD m).valid ∧
      ((s'.nodeD m).value = (s.nodeD m).value ∨ (IsMapRef (s.nodeD m).kind ∧ (s.nodeD m).valid = true)))
    (n : Nat) : s'.value env n = s.value env n := by
  simp only [State.value, hsz]
  generalize s.nodes.size + 1 = fuel
  induction fuel generalizing n with
  | zero => rfl
  | succ f ih =>
    rw [valueWith_succ', valueWith_succ']
    have hrec : (s'.valueWith env.proj f) = (s.valueWith env.proj f) := funext ih
    rw [hrec]
    obtain ⟨hk, hv, hval⟩ := h n
    simp only [valueCore, hk, hv]
    rcases hval with hval | ⟨hmr, hvt⟩
    · rw [hval]
    · obtain ⟨p, i, hkk⟩ := isMapRef_iff.1 hmr
      rw [hkk, hvt]; rfl

theorem cleared_nodeD (n m : Nat) (s : State) :
    (cleared n s).nodeD m =
      if n = m ∧ m < s.nodes.size then { s.nodeD m with value := none, didChange := false } else s.nodeD m :=
  nodeD_modify s n m _

/-- the node fields of the state in which the notifications of a map_ref step start -/
theorem cleared_started_nodeD (n m : Nat) (s : State) (hn : n < s.nodes.size) :
    (cleared n (started n s)).nodeD m =
      if m = n then { s.nodeD n with recomputedAt := s.stabNum, value := none, didChange := false } else s.nodeD m := by
  rw [cleared_nodeD, started_nodeD]
  have hsz : (started n s).nodes.size = s.nodes.size := by simp [started]
  by_cases hm : m = n
  · subst hm; rw [if_pos ⟨rfl, by rw [hsz]; exact hn⟩, if_pos ⟨rfl, hn⟩, if_pos rfl]
  · rw [if_neg (fun h => hm h.1.symm), if_neg (fun h => hm h.1.symm), if_neg hm]

section
variable {env : Env} {g : Nat → Option Val} {s : State}

/-- the `didChange` invariant after the step of the map_ref node `n`, for any state that agrees with the
pre-state on necessity, kinds, read values and (off `n`) lowered flags -/
theorem kInv_after_mapRef {n : Nat} {v : Val} {Y : State} (K : KInv env g s)
    (hvn : s.value env n = some v)
    (hnec : ∀ m, Y.isNecessary m = s.isNecessary m) (hkind : ∀ m, (Y.nodeD m).kind = (s.nodeD m).kind)
    (hflag : ∀ m, m ≠ n → (Y.nodeD m).didChange = false → (s.nodeD m).didChange = false)
    (hval : ∀ m, Y.value env m = s.value env m) : KInv env (upd1 g n (some v)) Y := by
  intro m p i hm hk hd
  rw [hval]
  by_cases hmn : m = n
  · subst hmn; rw [upd1_self, hvn]
  · rw [upd1_other _ _ _ hmn]
    exact K m p i (by rw [← hnec]; exact hm) (by rw [← hkind]; exact hk) (hflag m hmn hd)


/-- the facts of the map_ref step that do not depend on whether the node fires -/
structure MRSetup (env : Env) (g : Nat → Option Val) (s : State) (n p i : Nat) (vi : Val) : Prop where
  frag : RFrag env s
  inv : Inv (virtEnv env) (virt g s) (some n)
  lt : n < s.nodes.size
  kind : (s.nodeD n).kind = .mapRef p i
  nec : s.isNecessary n = true
  hvi : s.value env i = some vi
  htvi : tv g s i = some vi

theorem MRSetup.value (S : MRSetup env g s n p i vi) : s.value env n = some (env.proj p vi) := by
  rw [value_mapRef S.frag S.kind, S.hvi]; rfl

theorem MRSetup.target (S : MRSetup env g s n p i vi) : Target (virtEnv env) (virt g s) n (env.proj p vi) := by
  unfold Target
  have hkv : ((virt g s).nodeD n).kind = .map (projBase + p) [i] := by
    rw [virt_nodeD, virtNode_kind, S.kind]; rfl
  rw [hkv]
  refine ⟨[vi], ?_, by rw [virtEnv_fn_proj]; rfl⟩
  rw [virt_plainVals]
  simp only [evalArgs, S.htvi]

/-- the virtual image of the state in which the notifications start -/
theorem MRSetup.upd (S : MRSetup env g s n p i vi) :
    Upd n (virt g s) (virt (upd1 g n (some (env.proj p vi))) (cleared n (started n s))) := by
  have hX := fun m => cleared_started_nodeD n m s S.lt
  refine ⟨by simp [virt_size, cleared, started], rfl, rfl, S.frag.pc, rfl, fun m hm => ?_, ?_, ?_⟩
  · rw [virt_nodeD, virt_nodeD, hX, if_neg hm, upd1_other _ _ _ hm]
  · rw [virt_nodeD, virt_nodeD, hX, if_pos rfl]
    refine ⟨?_, ?_, ?_, ?_, ?_, ?_, ?_, ?_⟩ <;>
      simp only [virtNode_kind, virtNode_createdIn, virtNode_valid, virtNode_cutoff, virtNode_height,
        virtNode_parents, virtNode_observers, virtNode_forceNecessary]
  · rw [virt_nodeD, virt_nodeD, hX, if_pos rfl]
    simp only [virtNode_heightInRch]


theorem MRSetup.xnode (S : MRSetup env g s n p i vi) :
    (virt (upd1 g n (some (env.proj p vi))) (cleared n (started n s))).nodeD n =
      virtNode (some (env.proj p vi))
        { s.nodeD n with recomputedAt := s.stabNum, value := none, didChange := false } := by
  rw [virt_nodeD, cleared_started_nodeD n n s S.lt, if_pos rfl, upd1_self]

/-- the flag is down: nothing happens; the virtual node keeps its value -/
theorem MRSetup.stepRel_quiet (S : MRSetup env g s n p i vi) (K : KInv env g s)
    (hd : (s.nodeD n).didChange = false) :
    StepRel n (env.proj p vi) false none (virt g s)
      (virt (upd1 g n (some (env.proj p vi))) (cleared n (started n s))) := by
  have hU := S.upd
  have hk' : ({ s.nodeD n with recomputedAt := s.stabNum, value := none, didChange := false } : Node).kind
      = .mapRef p i := S.kind
  refine stepRel_of_quiet hU (Step.Quiet.refl _) ?_ ?_ ?_ (fun _ => ⟨?_, rfl⟩) (hU.heap S.inv.heap) rfl
    (fun m hm => Or.inl hm) (fun hc => by cases hc) (fun q hq => by cases hq)
  · rw [S.xnode, virtNode_value_mapRef _ _ hk']
  · rw [S.xnode, virtNode_recomputedAt]; rfl
  · rw [S.xnode, virtNode_changedAt, virt_nodeD, virtNode_changedAt]; simp
  · show tv g s n = _
    rw [tv_mapRef S.kind, K n p i S.nec S.kind hd, S.value]

/-- the flag is up: the node fires; the notification part is simulated by the virtual engine -/
theorem MRSetup.stepRel_fire (S : MRSetup env g s n p i vi) {fuel : Nat} {s' : State} {r : Option Nat}
    (hp : s.propagateInvalidity = [])
    (h : (maybeChangeValueManual env fuel n none true false).run.run (cleared n (started n s)) = (.ok r, s')) :
    StepRel n (env.proj p vi) true r (virt g s) (virt (upd1 g n (some (env.proj p vi))) s') ∧ Fr s' := by
  have gr := S.inv.graph
  have hi := S.inv.heap
  generalize hg' : upd1 g n (some (env.proj p vi)) = g' at *
  have hUW := S.upd
  rw [hg'] at hUW
  generalize hW : virt g' (cleared n (started n s)) = W at hUW
  -- the runtime facts of the state in which the notifications start
  have hX := fun m => cleared_started_nodeD n m s S.lt
  have FX : RFrag env (cleared n (started n s)) := by
    have hsz : (cleared n (started n s)).nodes.size = s.nodes.size := by simp [cleared, started]
    have hkk : ∀ m, ((cleared n (started n s)).nodeD m).kind = (s.nodeD m).kind := by
      intro m; rw [hX]; split
      · rename_i e; rw [e]
      · rfl
    refine ⟨S.frag.pc, fun m hm => by rw [hkk]; exact S.frag.kind m (by rw [← hsz]; exact hm), fun m hm => ?_,
      fun m hm => by rw [hkk]; exact S.frag.back m (by rw [← hsz]; exact hm), fun m q j hk => ?_⟩
    · rw [hX]; split
      · rename_i e; exact S.frag.valid n S.lt
      · exact S.frag.valid m (by rw [← hsz]; exact hm)
    · rw [hkk] at hk; rw [hX]; split
      · rename_i e; rw [e] at hk; exact S.frag.cut n q j hk
      · exact S.frag.cut m q j hk
  have frX : Fr (cleared n (started n s)) := FX.fr hp
  obtain ⟨hsim, hfr'⟩ := St.mcvm (g := g') env fuel (fuel + 1) n none none true false (Or.inl (Nat.succ_pos _))
    (cleared n (started n s)) frX r s' h
  rw [hW] at hsim
  -- now as in `Sched.mcv_static`, on the virtual run
  have hlt : n < (virt g s).nodes.size := by rw [virt_size]; exact S.lt
  have hltW : n < W.nodes.size := by rw [hUW.size]; exact hlt
  have q : Step.Quiet (touched n W) (virt g' s') := mcvm_true_quiet _ _ _ _ _ _ _ _ hsim
  have hUT : Upd n (virt g s) (touched n W) := hUW.touched
  have eT : (touched n W).nodeD n = { W.nodeD n with changedAt := W.stabNum } := by
    rw [touched_nodeD, if_pos ⟨rfl, hltW⟩]
  have eWn : W.nodeD n = virtNode (some (env.proj p vi))
      { s.nodeD n with recomputedAt := s.stabNum, value := none, didChange := false } := by
    rw [← hW, ← hg']; exact S.xnode
  have hk' : ({ s.nodeD n with recomputedAt := s.stabNum, value := none, didChange := false } : Node).kind
      = .mapRef p i := S.kind
  have hparT : ((touched n W).nodeD n).parents = ((virt g s).nodeD n).parents := hUT.shape.parents
  have hnv : (virt g s).isNecessary n = true := by rw [virt_isNecessary]; exact S.nec
  have hpar : ∀ q, q ∈ ((touched n W).nodeD n).parents.map (·.1) → ParentOK (virtEnv env) (touched n W) q := by
    intro q hq
    rw [hparT] at hq
    obtain ⟨⟨p', ci⟩, hmem, rfl⟩ := List.mem_map.1 hq
    have hpn := (gr.parent n p' ci hmem).1
    obtain ⟨h1, h2, h3, _, _⟩ := gr.nec p' hpn
    have sh := hUT.shapeAll p'
    exact ⟨by rw [hUT.size]; exact h1, by rw [sh.valid]; exact h2, by rw [sh.kind]; exact h3,
      by rw [hUT.nec]; exact hpn⟩
  obtain ⟨k, hret⟩ := mcvm_heap (hUT.heap hi) hpar hsim
  have hpin := mcvm_parents (virtEnv env) (fuel + 1) n _ W (virt g' s') r _ (some_of_lt hltW) hsim
  have hparW : (W.nodeD n).parents = ((virt g s).nodeD n).parents := hUW.shape.parents
  refine ⟨stepRel_of_quiet hUT q ?_ ?_ ?_ (fun hc => by cases hc) k.heap k.qsize ?_ ?_ ?_, hfr'⟩
  · rw [eT, eWn]; exact virtNode_value_mapRef _ _ hk'
  · rw [eT, eWn]; show (virtNode _ _).recomputedAt = _; rw [virtNode_recomputedAt]; rfl
  · rw [eT, if_pos rfl]; exact hUW.stabNum
  · intro m hm
    rcases k.only m hm with h1 | h1
    · exact Or.inl h1
    · rw [hparT] at h1; exact Or.inr ⟨rfl, h1⟩
  · intro _ q' hq'
    rw [← hparW] at hq'
    rcases hpin q' hq' with h1 | h1
    · exact Or.inl h1.2
    · exact Or.inr h1.2.1
  · intro q' hq'
    obtain ⟨h1, h2, h3⟩ := hret q' hq'
    rw [hparT] at h1
    exact ⟨rfl, h1, h2, h3⟩


/-- what a state after the step of the map_ref node `n` shares with the pre-state -/
structure After (n : Nat) (s Y : State) : Prop where
  size : Y.nodes.size = s.nodes.size
  kind : ∀ m, (Y.nodeD m).kind = (s.nodeD m).kind
  valid : ∀ m, (Y.nodeD m).valid = (s.nodeD m).valid
  cutoff : ∀ m, (Y.nodeD m).cutoff = (s.nodeD m).cutoff
  parents : ∀ m, (Y.nodeD m).parents = (s.nodeD m).parents
  observers : ∀ m, (Y.nodeD m).observers = (s.nodeD m).observers
  force : ∀ m, (Y.nodeD m).forceNecessary = (s.nodeD m).forceNecessary
  value : ∀ m, m ≠ n → (Y.nodeD m).value = (s.nodeD m).value
  flag : ∀ m, m ≠ n → (Y.nodeD m).didChange = false → (s.nodeD m).didChange = false
  pc : s.panicCountdown = none → Y.panicCountdown = none

theorem After.cleared (n : Nat) (s : State) (hn : n < s.nodes.size) : After n s (MapRefH.cleared n (started n s)) := by
  have hX := fun m => cleared_started_nodeD n m s hn
  refine ⟨by simp [MapRefH.cleared, started], ?_, ?_, ?_, ?_, ?_, ?_, ?_, ?_, id⟩
  · intro m; rw [hX]; split
    · rename_i e; rw [e]
    · rfl
  · intro m; rw [hX]; split
    · rename_i e; rw [e]
    · rfl
  · intro m; rw [hX]; split
    · rename_i e; rw [e]
    · rfl
  · intro m; rw [hX]; split
    · rename_i e; rw [e]
    · rfl
  · intro m; rw [hX]; split
    · rename_i e; rw [e]
    · rfl
  · intro m; rw [hX]; split
    · rename_i e; rw [e]
    · rfl
  · intro m hm; rw [hX, if_neg hm]
  · intro m hm; rw [hX, if_neg hm]; exact id

theorem After.touched {n : Nat} {s Y : State} (h : After n s Y) : After n s (Step.touched n Y) := by
  have e := fun m => touched_nodeD n m Y
  refine ⟨by rw [← h.size]; simp [Step.touched], ?_, ?_, ?_, ?_, ?_, ?_, ?_, ?_, h.pc⟩
  all_goals intro m
  · rw [e]; split <;> exact h.kind m
  · rw [e]; split <;> exact h.valid m
  · rw [e]; split <;> exact h.cutoff m
  · rw [e]; split <;> exact h.parents m
  · rw [e]; split <;> exact h.observers m
  · rw [e]; split <;> exact h.force m
  · intro hm; rw [e, if_neg (fun hh => hm hh.1.symm)]; exact h.value m hm
  · intro hm; rw [e, if_neg (fun hh => hm hh.1.symm)]; exact h.flag m hm

theorem After.quiet {n : Nat} {s Y Y' : State} (h : After n s Y) (q : Step.Quiet Y Y') (f : FM Y Y') : After n s Y' where
  size := q.size.trans h.size
  kind m := (q.node m).kind.trans (h.kind m)
  valid m := (q.node m).valid.trans (h.valid m)
  cutoff m := (q.node m).cutoff.trans (h.cutoff m)
  parents m := (q.node m).parents.trans (h.parents m)
  observers m := (q.node m).observers.trans (h.observers m)
  force m := (q.node m).forceNecessary.trans (h.force m)
  value m hm := (q.node m).value.trans (h.value m hm)
  flag m hm hd := by
    apply h.flag m hm
    cases hy : (Y.nodeD m).didChange with
    | false => rfl
    | true => rw [f m hy] at hd; cases hd
  pc hp := q.pc (h.pc hp)

theorem After.nec {n : Nat} {s Y : State} (h : After n s Y) (m : Nat) : Y.isNecessary m = s.isNecessary m := by
  simp only [State.isNecessary, Node.isNecessary, h.parents, h.observers, h.force]

theorem After.frag {env : Env} {n : Nat} {s Y : State} (h : After n s Y) (F : RFrag env s) : RFrag env Y where
  pc := h.pc F.pc
  kind m hm := by rw [h.kind]; exact F.kind m (by rw [← h.size]; exact hm)
  valid m hm := by rw [h.valid]; exact F.valid m (by rw [← h.size]; exact hm)
  back m hm := by rw [h.kind]; exact F.back m (by rw [← h.size]; exact hm)
  cut m p i hk := by rw [h.kind] at hk; rw [h.cutoff]; exact F.cut m p i hk

theorem After.value_eq {env : Env} {n p i : Nat} {s Y : State} (h : After n s Y) (F : RFrag env s)
    (hk : (s.nodeD n).kind = .mapRef p i) (m : Nat) : Y.value env m = s.value env m := by
  refine value_congr_mr env s Y h.size (fun k => ⟨h.kind k, h.valid k, ?_⟩) m
  by_cases hkn : k = n
  · subst hkn
    exact Or.inr ⟨by rw [hk]; trivial, F.valid k (F.lt_of_mapRef hk)⟩
  · exact Or.inl (h.value k hkn)

theorem stateKeyD_virt (g : Nat → Option Val) (s : State) : stateKeyD (virt g s) = stateKeyD s := rfl

theorem calm_virt {s s' : State} (g g' : Nat → Option Val) (c : Calm s s') : Calm (virt g s) (virt g' s') where
  status := c.status
  setDuringStab := c.setDuringStab
  deadVars := c.deadVars
  newObservers := c.newObservers
  disallowedObservers := c.disallowedObservers
  num m := by rw [virt_nodeD, virt_nodeD, virtNode_num, virtNode_num]; exact c.num m
  has h := c.has (fun m => by have := h m; rwa [virt_nodeD, virtNode_num] at this)

theorem keyD_virt {s s' : State} (g g' : Nat → Option Val) (c : KeyD s s') : KeyD (virt g s) (virt g' s') := by
  unfold KeyD at *; rw [stateKeyD_virt, stateKeyD_virt]; exact c

/-- **one step, a map_ref node.** -/
theorem step_mapRef_node {fuel n p i : Nat} {s' : State} {r : Option Nat} (F : RFrag env s)
    (I : Inv (virtEnv env) (virt g s) (some n)) (K : KInv env g s) (hp : s.propagateInvalidity = [])
    (hk : (s.nodeD n).kind = .mapRef p i)
    (h : (recomputeOne env fuel n).run.run s = (.ok r, s')) :
    ∃ g' v ch, Target (virtEnv env) (virt g s) n v ∧ StepRel n v ch r (virt g s) (virt g' s') ∧
      KInv env g' s' ∧ RFrag env s' ∧ s'.propagateInvalidity = [] ∧ Calm s s' ∧ KeyD s s' := by
  obtain ⟨hnv, -⟩ := I.cur n rfl
  have hn : s.isNecessary n = true := by rw [← virt_isNecessary g s]; exact hnv
  have hlt := F.lt_of_mapRef hk
  have hnn := some_of_lt hlt
  obtain ⟨htv, hsome⟩ := Inv.kids_settled F I i (by rw [hk]; simp [kidsR])
  obtain ⟨vi, hvi⟩ := Option.isSome_iff_exists.1 hsome
  have S : MRSetup env g s n p i vi := ⟨F, I, hlt, hk, hn, hvi, by rw [htv]; exact hvi⟩
  rw [recomputeOne_mapRef_run hnn (F.valid n hlt) hk] at h
  have A0 := After.cleared n s hlt
  have c0 : Calm s (cleared n (started n s)) :=
    (Calm.started n s).trans (Calm.modNode _ n _ (fun _ => rfl))
  have k0 : KeyD s (cleared n (started n s)) := rfl
  cases hd : (s.nodeD n).didChange with
  | false =>
    rw [hd, run_mcvm_false] at h
    cases h
    refine ⟨_, _, false, S.target, S.stepRel_quiet K hd, ?_, A0.frag F, hp, c0, k0⟩
    exact kInv_after_mapRef K S.value A0.nec A0.kind A0.flag (A0.value_eq F hk)
  | true =>
    rw [hd] at h
    obtain ⟨R, hfr⟩ := S.stepRel_fire hp h
    have q : Step.Quiet (touched n (cleared n (started n s))) s' := mcvm_true_quiet _ _ _ _ _ _ _ _ h
    have fm : FM (cleared n (started n s)) s' := (PresFM.maybeChangeValueManual ..).h _ _ _ h
    have fmT : FM (touched n (cleared n (started n s))) s' := by
      intro m hm
      apply fm m
      rw [touched_nodeD] at hm
      split at hm <;> exact hm
    have A1 : After n s s' := A0.touched.quiet q fmT
    refine ⟨_, _, true, S.target, R, ?_, A1.frag F, hfr.pinv,
      c0.trans ((PresC.maybeChangeValueManual ..).h _ _ _ h),
      KeyD.trans k0 ((PresK.maybeChangeValueManual ..).h _ _ _ h)⟩
    exact kInv_after_mapRef K S.value A1.nec A1.kind A1.flag (A1.value_eq F hk)

end
end IncrVerif.Proofs.MapRefH
