import IncrVerif.Proofs.CutH15
import IncrVerif.Proofs.CutH6
import IncrVerif.Engine.Run
-- Port of Proofs/Quiet14.lean to ARBITRARY cutoffs (scratch name Q14); overview in Props/C06History.lean
/-!
# Part 13: two more facts about the drain of the static fragment
-/
namespace IncrVerif.Proofs.CutH
open IncrVerif.Engine IncrVerif.Driver IncrVerif.Proofs IncrVerif.Proofs.Step IncrVerif.Proofs.Sched
variable {e : Bool}

/-- state fields the drain never touches (in addition to what `Sched.Frame` and `Sched.Calm` say) -/
def stateKeyD (s : State) :=
  (s.observers, s.allObservers, s.currentScope, s.top, s.handles, s.alive, s.propagateInvalidity, s.binds,
    s.memos, s.slots, s.ahh)

/-- the drain's frame on the state fields of `stateKeyD` -/
def KeyD (s s' : State) : Prop := stateKeyD s' = stateKeyD s

theorem KeyD.refl (s : State) : KeyD s s := rfl
theorem KeyD.trans {a b c : State} (h1 : KeyD a b) (h2 : KeyD b c) : KeyD a c :=
  Eq.trans h2 h1
instance : PreOrd KeyD := ⟨KeyD.refl, KeyD.trans⟩

theorem PresK.modNode (n : Nat) (f : Node → Node) : Step.Pres KeyD (modNode n f) := by
  unfold Engine.modNode; exact Step.Pres.modify fun _ => rfl

macro_rules
  | `(tactic| qleaf) =>
    `(tactic| ((with_reducible apply Step.Pres.modify); intro _; exact (rfl : stateKeyD _ = stateKeyD _)))
macro_rules
  | `(tactic| qleaf) => `(tactic| (with_reducible apply PresK.modNode))

macro "keyd_leaf " n:ident : command =>
  `(macro_rules | `(tactic| qleaf) => `(tactic| with_reducible apply $n))

theorem PresK.tick : Step.Pres KeyD tick := by unfold Engine.tick; qpres
keyd_leaf PresK.tick
theorem PresK.logEv (e) : Step.Pres KeyD (logEv e) := by unfold Engine.logEv; qpres
keyd_leaf PresK.logEv
theorem PresK.bumpCounter (f) : Step.Pres KeyD (bumpCounter f) := by unfold Engine.bumpCounter; qpres
keyd_leaf PresK.bumpCounter
theorem PresK.modExpert (e f) : Step.Pres KeyD (modExpert e f) := by unfold Engine.modExpert; qpres
keyd_leaf PresK.modExpert
theorem PresK.shouldCutoff (env n o v) : Step.Pres KeyD (shouldCutoff env n o v) := by
  unfold Engine.shouldCutoff; qpres
keyd_leaf PresK.shouldCutoff
theorem PresK.edgeOnChange (env e edge) : Step.Pres KeyD (edgeOnChange env e edge) := by
  unfold Engine.edgeOnChange; qpres
keyd_leaf PresK.edgeOnChange
theorem PresK.runEdgeCallback (env e i) : Step.Pres KeyD (runEdgeCallback env e i) := by
  unfold Engine.runEdgeCallback; qpres
keyd_leaf PresK.runEdgeCallback
theorem PresK.rchLink (n) : Step.Pres KeyD (rchLink n) := by unfold Engine.rchLink; qpres
keyd_leaf PresK.rchLink
theorem PresK.rchInsert (n) : Step.Pres KeyD (rchInsert n) := by unfold Engine.rchInsert; qpres
keyd_leaf PresK.rchInsert
theorem PresK.rchMinHeight : Step.Pres KeyD rchMinHeight := by unfold Engine.rchMinHeight; qpres
keyd_leaf PresK.rchMinHeight
theorem PresK.handleAfterStabilisation (n) : Step.Pres KeyD (handleAfterStabilisation n) := by
  unfold Engine.handleAfterStabilisation; qpres
keyd_leaf PresK.handleAfterStabilisation
theorem PresK.maybeHandleAfterStabilisation (n) : Step.Pres KeyD (maybeHandleAfterStabilisation n) := by
  unfold Engine.maybeHandleAfterStabilisation; qpres
keyd_leaf PresK.maybeHandleAfterStabilisation

theorem PresK.childChanged (env : Env) (fuel p c ci : Nat) (o : Option Val) :
    Step.Pres KeyD (childChanged env fuel p c ci o) := by
  induction fuel generalizing p c ci o with
  | zero => unfold Engine.childChanged; qpres
  | succ fuel ih =>
    unfold Engine.childChanged
    qpres
    all_goals (apply Step.Pres.forIn; intro a b; qpres; exact ih _ _ _ _)
keyd_leaf PresK.childChanged

theorem PresK.parentIterCanRecomputeNow (p c : Nat) :
    Step.Pres KeyD (parentIterCanRecomputeNow p c) := by
  unfold Engine.parentIterCanRecomputeNow; qpres
keyd_leaf PresK.parentIterCanRecomputeNow

theorem PresK.maybeChangeValueManual (env fuel n o d b) :
    Step.Pres KeyD (maybeChangeValueManual env fuel n o d b) := by
  unfold Engine.maybeChangeValueManual
  qpres
  all_goals (apply Step.Pres.forIn; intro a b; qpres)
keyd_leaf PresK.maybeChangeValueManual

theorem PresK.maybeChangeValue (env fuel n v) : Step.Pres KeyD (maybeChangeValue env fuel n v) := by
  unfold Engine.maybeChangeValue; qpres

theorem KeyD.started (n : Nat) (s : State) : KeyD s (Step.started n s) := rfl
theorem KeyD.logged (es : List Event) (s : State) : KeyD s (Step.logged es s) := rfl

theorem recomputeOne_keyD {env : Env} {fuel n : Nat} {s s' : State} {r : Option Nat}
    (g : Graph env s) (hn : s.isNecessary n = true)
    (hvals : ∃ vals, plainVals s (kids (s.nodeD n).kind) = some vals)
    (h : (recomputeOne env fuel n).run.run s = (.ok r, s')) : KeyD s s' := by
  obtain ⟨hlt, hv, hk, _⟩ := g.nec n hn
  have hnn := some_of_lt hlt
  obtain ⟨vals, hvals⟩ := hvals
  have hvo := g.valuesOf hn
  rw [hvals] at hvo
  have mcv := fun v S0 (h0 : (maybeChangeValue env fuel n v).run.run S0 = (.ok r, s')) =>
    (PresK.maybeChangeValue env fuel n v).h S0 _ s' h0
  cases hkd : (s.nodeD n).kind with
  | const w =>
    rw [recomputeOne_const_run env fuel n s _ w hnn hv hkd] at h
    exact (KeyD.started n s).trans (mcv _ _ h)
  | var c =>
    obtain ⟨vc, hvc⟩ := g.var n c hn hkd
    rw [recomputeOne_var_run env fuel n s _ c vc hnn hv hkd hvc] at h
    exact (KeyD.started n s).trans (mcv _ _ h)
  | map f args =>
    rw [hkd] at hk hvo
    by_cases hf : f < fnZip
    · rw [recomputeOne_map_run env fuel n s _ f args vals hnn hv hkd hf hvo (hk.2 hf vals) g.pc] at h
      exact ((KeyD.started n s).trans (KeyD.logged _ _)).trans (mcv _ _ h)
    · rw [recomputeOne_mapBuiltin_run env fuel n s _ f args vals hnn hv hkd hf hk.1 hvo] at h
      exact (KeyD.started n s).trans (mcv _ _ h)
  | fold f init cs =>
    rw [hkd] at hvo
    rw [recomputeOne_fold_run env fuel n s _ f init cs vals hnn hv hkd hvo g.pc] at h
    exact ((KeyD.started n s).trans (KeyD.logged _ _)).trans (mcv _ _ h)
  | mapRef _ _ => rw [hkd] at hk; exact hk.elim
  | mapWithOld _ _ => rw [hkd] at hk; exact hk.elim
  | bindLhsChange _ => rw [hkd] at hk; exact hk.elim
  | bindMain _ _ => rw [hkd] at hk; exact hk.elim
  | expert _ => rw [hkd] at hk; exact hk.elim

theorem recompute_keyD {env : Env} : ∀ (fuel n : Nat) (s s' : State), Inv env e s (some n) →
    (recompute env fuel n).run.run s = (.ok (), s') → KeyD s s' := by
  intro fuel
  induction fuel with
  | zero => intro n s s' _ h; unfold recompute at h; cases h
  | succ fuel ih =>
    intro n s s' I h
    unfold recompute at h
    obtain ⟨r, s1, h1, h2⟩ := bind_ok_inv h
    have c1 := recomputeOne_keyD I.graph (I.cur n rfl).1 I.kids_values h1
    obtain ⟨I1, -, -⟩ := recomputeOne_inv I h1
    cases r with
    | none => obtain ⟨-, rfl⟩ := pure_ok_inv h2; exact c1
    | some p => exact c1.trans (ih p s1 s' I1 h2)

theorem pop_keyD {s s1 : State} {n : Nat} (hi : HeapInv s)
    (hr : rchRemoveMin.run.run s = (.ok (some n), s1)) : KeyD s s1 := by
  obtain ⟨-, -, -, hs1, -⟩ := rchRemoveMin_inv hi hr
  rw [hs1]
  rfl

theorem drainHeap_keyD' {env : Env} : ∀ (fuel : Nat) (s s' : State), DrainInv env e s →
    (drainHeap env fuel).run.run s = (.ok (), s') → KeyD s s' := by
  intro fuel
  induction fuel with
  | zero => intro s s' _ h; unfold drainHeap at h; cases h
  | succ fuel ih =>
    intro s s' I h
    unfold drainHeap at h
    obtain ⟨r, s1, h1, h2⟩ := bind_ok_inv h
    cases r with
    | none =>
      obtain ⟨-, rfl⟩ := pure_ok_inv h2
      obtain ⟨rfl, -⟩ := rchRemoveMin_inv I.heap h1
      exact KeyD.refl _
    | some n =>
      obtain ⟨u, s2, h3, h4⟩ := bind_ok_inv h2
      obtain ⟨I1, -⟩ := pop_inv I h1
      obtain ⟨I2, -⟩ := recompute_inv fuel n s1 s2 I1 h3
      exact ((pop_keyD I.heap h1).trans (recompute_keyD fuel n s1 s2 I1 h3)).trans (ih s2 s' I2 h4)

theorem drainHeap_keyD {env : Env} {fuel : Nat} {s s' : State} (I : DrainInv env e s)
    (h : (drainHeap env fuel).run.run s = (.ok (), s')) : stateKeyD s' = stateKeyD s :=
  drainHeap_keyD' fuel s s' I h

/-- unnecessary nodes: not stamped in the current round; consistent with their children unless stale -/
def UnnecOK (env : Env) (e : Bool) (s : State) : Prop :=
  ∀ m, m < s.nodes.size → s.isNecessary m = false →
    (s.nodeD m).recomputedAt < s.stabNum ∧ (staleOf s m = false → ConsE env e s m)

/-- `UnnecOK` only reads sizes, necessity, variables, the round number, and kind / stamps / value of nodes -/
theorem UnnecOK.congr {env : Env} {s s' : State} (hU : UnnecOK env e s)
    (hsz : s'.nodes.size = s.nodes.size) (hnec : ∀ m, s'.isNecessary m = s.isNecessary m)
    (hv : s'.vars = s.vars) (hst : s'.stabNum = s.stabNum)
    (hk : ∀ m, (s'.nodeD m).kind = (s.nodeD m).kind)
    (hr : ∀ m, (s'.nodeD m).recomputedAt = (s.nodeD m).recomputedAt)
    (hc : ∀ m, (s'.nodeD m).changedAt = (s.nodeD m).changedAt)
    (hval : ∀ m, (s'.nodeD m).value = (s.nodeD m).value) : UnnecOK env e s' := by
  intro m hm hn
  rw [hsz] at hm
  rw [hnec] at hn
  obtain ⟨h1, h2⟩ := hU m hm hn
  refine ⟨by rw [hr, hst]; exact h1, fun hs => ?_⟩
  rw [staleOf_congr (hk m) (hr m) hv (fun c _ => hc c)] at hs
  obtain ⟨w, hvl, hw⟩ := h2 hs
  exact ⟨w, by rw [hval]; exact hvl, fun he => Target.congr (hk m) hv (fun c _ => hval c) (hw he)⟩

/-- one recompute step (in the form of `StepRel`) keeps `UnnecOK` -/
theorem step_unnec {env : Env} {s s' : State} {n : Nat} {v : Val} {ch : Bool} {r : Option Nat}
    (hn : s.isNecessary n = true) (hx : e = true → ExactCut (s.nodeD n).cutoff)
    (R : StepRel env n v ch r s s') (hU : UnnecOK env e s) : UnnecOK env e s' := by
  intro m hm hnm
  rw [R.size] at hm
  rw [R.nec] at hnm
  have hne : m ≠ n := by intro e; rw [e, hn] at hnm; cases hnm
  obtain ⟨h1, h2⟩ := hU m hm hnm
  have o := R.other m hne
  refine ⟨by rw [o.recomputedAt, R.stabNum]; exact h1, fun hs => ?_⟩
  -- the child `n` of `m`, if it is one, did not change
  have hch : n ∈ kids (s.nodeD m).kind → ch = false := by
    intro hk
    cases hc : ch with
    | false => rfl
    | true =>
      exfalso
      have : staleOf s' m = true := by
        refine staleOf_of_child (c := n) (by rw [o.kind]; exact hk) ?_
        rw [R.changedAt, hc, o.recomputedAt]
        simpa using h1
      rw [this] at hs; cases hs
  have hcA : ∀ c, c ∈ kids (s.nodeD m).kind → (s'.nodeD c).changedAt = (s.nodeD c).changedAt := by
    intro c hc
    by_cases hcn : c = n
    · rw [hcn] at hc ⊢; rw [R.changedAt, hch hc]; simp
    · exact (R.other c hcn).changedAt
  have hcV : e = true → ∀ c, c ∈ kids (s.nodeD m).kind → (s'.nodeD c).value = (s.nodeD c).value := by
    intro he c hc
    by_cases hcn : c = n
    · rw [hcn] at hc ⊢
      obtain ⟨⟨old, hold, heq⟩, -⟩ := R.unch (hch hc)
      rw [R.value, hold, heq (hx he)]
    · exact (R.other c hcn).value
  rw [staleOf_congr o.kind o.recomputedAt R.vars hcA] at hs
  obtain ⟨w, hvl, hw⟩ := h2 hs
  exact ⟨w, by rw [o.value]; exact hvl, fun he => Target.congr o.kind R.vars (hcV he) (hw he)⟩

theorem recomputeOne_unnec {env : Env} {fuel n : Nat} {s s' : State} {r : Option Nat}
    (I : Inv env e s (some n)) (hU : UnnecOK env e s)
    (h : (recomputeOne env fuel n).run.run s = (.ok r, s')) : UnnecOK env e s' := by
  obtain ⟨v, ch, -, R⟩ := recomputeOne_static I.graph I.heap (I.cur n rfl).1 I.kids_values h
  exact step_unnec (I.cur n rfl).1 (fun he => I.exact he n) R hU

theorem recompute_unnec {env : Env} : ∀ (fuel n : Nat) (s s' : State), Inv env e s (some n) →
    UnnecOK env e s → (recompute env fuel n).run.run s = (.ok (), s') → UnnecOK env e s' := by
  intro fuel
  induction fuel with
  | zero => intro n s s' _ _ h; unfold recompute at h; cases h
  | succ fuel ih =>
    intro n s s' I hU h
    unfold recompute at h
    obtain ⟨r, s1, h1, h2⟩ := bind_ok_inv h
    have U1 := recomputeOne_unnec I hU h1
    obtain ⟨I1, -, -⟩ := recomputeOne_inv I h1
    cases r with
    | none => obtain ⟨-, rfl⟩ := pure_ok_inv h2; exact U1
    | some p => exact ih p s1 s' I1 U1 h2

theorem pop_unnec {env : Env} {s s1 : State} {n : Nat} (hi : HeapInv s) (hU : UnnecOK env e s)
    (hr : rchRemoveMin.run.run s = (.ok (some n), s1)) : UnnecOK env e s1 := by
  obtain ⟨-, -, -, hs1, -⟩ := rchRemoveMin_inv hi hr
  have hnd : ∀ m, s1.nodeD m =
      if n = m ∧ m < s.nodes.size then { s.nodeD m with heightInRch := -1 } else s.nodeD m := by
    intro m; rw [hs1]; exact nodeD_modify s n m _
  have hsh : ∀ m, SameShape (s.nodeD m) (s1.nodeD m) := by
    intro m; rw [hnd]; split
    · exact ⟨rfl, rfl, rfl, rfl, rfl, rfl, rfl, rfl⟩
    · exact SameShape.refl _
  refine hU.congr (by rw [hs1]; simp) (isNecessary_of_shape hsh) (by rw [hs1]) (by rw [hs1])
    (fun m => (hsh m).kind) ?_ ?_ ?_ <;> (intro m; rw [hnd]; split <;> rfl)

theorem drainHeap_unnec' {env : Env} : ∀ (fuel : Nat) (s s' : State), DrainInv env e s → UnnecOK env e s →
    (drainHeap env fuel).run.run s = (.ok (), s') → UnnecOK env e s' := by
  intro fuel
  induction fuel with
  | zero => intro s s' _ _ h; unfold drainHeap at h; cases h
  | succ fuel ih =>
    intro s s' I hU h
    unfold drainHeap at h
    obtain ⟨r, s1, h1, h2⟩ := bind_ok_inv h
    cases r with
    | none =>
      obtain ⟨-, rfl⟩ := pure_ok_inv h2
      obtain ⟨rfl, -⟩ := rchRemoveMin_inv I.heap h1
      exact hU
    | some n =>
      obtain ⟨u, s2, h3, h4⟩ := bind_ok_inv h2
      obtain ⟨I1, -⟩ := pop_inv I h1
      obtain ⟨I2, -⟩ := recompute_inv fuel n s1 s2 I1 h3
      exact ih s2 s' I2 (recompute_unnec fuel n s1 s2 I1 (pop_unnec I.heap hU h1) h3) h4

theorem drainHeap_unnec {env : Env} {fuel : Nat} {s s' : State} (I : DrainInv env e s) (hU : UnnecOK env e s)
    (h : (drainHeap env fuel).run.run s = (.ok (), s')) : UnnecOK env e s' :=
  drainHeap_unnec' fuel s s' I hU h

end IncrVerif.Proofs.CutH
