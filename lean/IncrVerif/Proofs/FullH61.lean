import IncrVerif.Proofs.FullH53
import IncrVerif.Proofs.FullH60
/-!
# C01 full fragment: the headline theorems, closed (no hypothesis on the steps)
-/
namespace IncrVerif.Proofs.FullH
open IncrVerif.Engine IncrVerif.Driver IncrVerif.Proofs IncrVerif.Proofs.Step IncrVerif.Proofs.Sched IncrVerif.Proofs.Quiet
open IncrVerif.Proofs.NestH (progOf ZipPair den2)

section
variable {env : Env} {sp : Nat → Val → Val}

/-- the kit of special steps, from the global hypothesis on the closure bodies -/
theorem kit (E : EnvS env sp) (hF : FirstFn env) : Kit env sp := kit_of E hF (lcKSpec_of_envS E)

/-- **one `recomputeOne` of the drain** -/
theorem recomputeOne_full' (E : EnvS env sp) (hF : FirstFn env) {t s : State} {g : Nat → Option Val} {fuel n : Nat} {r : Option Nat} {s' : State}
    (D : DInvF env sp t s g (some n)) (h : (recomputeOne env fuel n).run.run s = (.ok r, s')) :
    ∃ g', DInvF env sp t s' g' r ∧ BindH.FrameB (virt g s) (virt g' s') ∧
      ((virt g' s').nodeD n).recomputedAt = s.stabNum ∧ ((virt g' s').nodeD n).valid = true :=
  recomputeOne_full (kit E hF) D h

/-- **the drain** -/
theorem drainHeap_full' (E : EnvS env sp) (hF : FirstFn env) {fuel : Nat} {t s s' : State} {g : Nat → Option Val} (D : DInvF env sp t s g none)
    (h : (drainHeap env fuel).run.run s = (.ok (), s')) :
    ∃ g', DInvF env sp t s' g' none ∧ s'.rch.length = 0 ∧ BindH.FrameB (virt g s) (virt g' s') :=
  drainHeap_full (kit E hF) fuel t s s' g D h

/-- **`stabilise`** -/
theorem stabilise_full' (E : EnvS env sp) (hF : FirstFn env) {fuel : Nat} {s s' : State} {g : Nat → Option Val} (Q : QInvF env sp s g)
    (h : (stabilise env fuel).run.run s = (.ok (), s')) : ∃ g', StabF env sp s s' g' :=
  stabilise_full (kit E hF) Q h

/-- **every API action keeps the invariant between actions** -/
theorem step_all (E : EnvS env sp) (hF : FirstFn env) {s s' : State} {a : Action} {tk : Array Nat} {r : String × Array Nat}
    (Q : QInvFE env sp s) (hA : ActionFull env sp s.top.size a)
    (h : (stepAction env a tk).run.run s = (.ok r, s')) : QInvFE env sp s' := by
  by_cases hs : a = .stabilise
  · subst hs
    obtain ⟨g, Q⟩ := Q
    obtain ⟨g', R⟩ := stabilise_full (kit E hF) Q (stabilise_run_of_step h).1
    exact ⟨g', R.inv⟩
  · exact step_full Q hA hs h

/-- **whole histories** -/
theorem history_inv (E : EnvS env sp) (hF : FirstFn env) {N : Nat} {d : Bool} {acts : List Action} {s : State} {tk : Array Nat}
    (hH : HistFull env sp 0 acts) (h : Quiet.runActions env acts (State.init N d) #[] = .ok (s, tk)) : QInvFE env sp s := by
  obtain ⟨g, Q, -, -⟩ := history_full (kit E hF) (po := fun _ => true) hH h
  exact ⟨g, Q⟩

theorem history_stabilise_virt' (E : EnvS env sp) (hF : FirstFn env) (po : Nat → Bool) (Z : ZipPair env) {N : Nat} {d : Bool} {as bs : List Action}
    {s : State} {tk : Array Nat} (hH : HistFull env sp 0 (as ++ Action.stabilise :: bs))
    (h : Quiet.runActions env (as ++ Action.stabilise :: bs) (State.init N d) #[] = .ok (s, tk)) :
    ∃ s1 tk1 s2, Quiet.runActions env as (State.init N d) #[] = .ok (s1, tk1) ∧ QInvFE env sp s1 ∧
      (stabilise env fuelDefault).run.run s1 = (.ok (), s2) ∧ QInvFE env sp s2 ∧
      (∀ (o : Nat) (ob : ObsRec), s2.observers[o]? = some ob → ob.state = .inUse →
        ∃ v j, s2.tryGetValue env o = .ok v ∧ s2.top[j]? = some ob.node ∧
          ∃ F, ∀ f, F ≤ f → Spec.denoteTop (progOf (VE env sp) po (as.map virtA)) f j = some v) ∧
      (∀ n, s2.isNecessary n = true → (s2.nodeD n).valid = true ∧ s2.isStale n = false) ∧
      Quiet.runActions env bs s2 tk1 = .ok (s, tk) :=
  history_stabilise_virt (kit E hF) po Z hH h

theorem history_stabilise_denote' (E : EnvS env sp) (hF : FirstFn env) (po : Nat → Bool) (Z : ZipPair env)
    (hpo : ∀ m, po m = true) (hsp : ∀ m v, sp m v = v) {N : Nat} {d : Bool} {as bs : List Action}
    {s : State} {tk : Array Nat} (hH : HistFull env sp 0 (as ++ Action.stabilise :: bs))
    (h : Quiet.runActions env (as ++ Action.stabilise :: bs) (State.init N d) #[] = .ok (s, tk)) :
    ∃ s1 tk1 s2, Quiet.runActions env as (State.init N d) #[] = .ok (s1, tk1) ∧
      (stabilise env fuelDefault).run.run s1 = (.ok (), s2) ∧ QInvFE env sp s2 ∧
      (∀ (o : Nat) (ob : ObsRec), s2.observers[o]? = some ob → ob.state = .inUse →
        ∃ v j, s2.tryGetValue env o = .ok v ∧ s2.top[j]? = some ob.node ∧
          ∃ F, ∀ f, F ≤ f → Spec.denoteTop (progOf env po as) f j = some v) ∧
      Quiet.runActions env bs s2 tk1 = .ok (s, tk) :=
  history_stabilise_denote (kit E hF) E po Z hpo hsp hF hH h

end
end IncrVerif.Proofs.FullH
