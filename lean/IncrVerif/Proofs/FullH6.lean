import IncrVerif.Proofs.FullH2
/-!
# C01 full fragment: simulation of the heap, height and necessity functions (port of MapRef4 / MapOld4)
-/
namespace IncrVerif.Proofs.FullH
open IncrVerif.Engine IncrVerif.Proofs IncrVerif.Proofs.Step IncrVerif.Proofs.Sched IncrVerif.Proofs.Quiet

/-- registered `Sim` lemmas -/
syntax "fsim_leaf" : tactic
macro_rules | `(tactic| fsim_leaf) => `(tactic| fail "no leaf")

set_option hygiene false in
macro "fsim_step" : tactic => `(tactic| first
  | with_reducible exact SimAt.ret _
  | with_reducible exact SimAt.thr _ _
  | with_reducible exact SimAt.pan _ _
  | ((with_reducible refine SimAt.get_seq ?_); try fnorm)
  | ((with_reducible refine SimAt.getNode_seq fun nd hnd hne => ?_); try fnorm)
  | ((with_reducible refine SimAt.mod_seq ?_ ?_ ?_) <;> (first | rfl | skip))
  | ((with_reducible refine SimAt.mod ?_ ?_) <;> rfl)
  | ((with_reducible refine Sim.at ?_ _); fsim_leaf)
  | ((with_reducible refine Sim.at (Sim.forIn _ (fun _ _ => ?_) _) _); intro _)
  | (with_reducible refine SimAt.seq ?_ fun _ _ _ => ?_)
  | (refine SimAt.cond Iff.rfl (fun _ => ?_) (fun _ => ?_)))

macro "fsim" : tactic => `(tactic| repeat (any_goals fsim_step))

theorem kind_of_kind? {nd : Node} {k : Kind} (h : nd.kind? = some k) : nd.kind = k := by
  unfold Node.kind? at h; split at h
  · cases h; rfl
  · cases h

set_option hygiene false in
/-- a `match` on the kind of the node last read by `getNode` -/
macro "fsim_kind" : tactic => `(tactic| (
  simp only [virtNode_kind?]
  rcases hk : nd.kind? with _ | k
  all_goals try cases k
  all_goals simp only [Option.map_none, Option.map_some, virtKind]
  all_goals try exact absurd (kind_of_kind? hk) (hne _)
  fsim))

section
variable {K : Kind → Prop} {g : Nat → Option Val}

macro_rules | `(tactic| fsim_leaf) => `(tactic| with_reducible exact Sim.dassert _ _)
macro_rules | `(tactic| fsim_leaf) => `(tactic| with_reducible exact Sim.assertM _ _)
macro_rules | `(tactic| fsim_leaf) => `(tactic| ((with_reducible refine Sim.modNode _ ?_ ?_) <;> first | fcomm | fkind))

theorem Sim.addParent (c i p : Nat) : Sim K g (Engine.addParent c i p) (Engine.addParent c i p) := by
  intro s; unfold Engine.addParent; fsim
macro_rules | `(tactic| fsim_leaf) => `(tactic| with_reducible exact Sim.addParent _ _ _)

theorem Sim.setHeight (n : Nat) (h : Int) : Sim K g (Engine.setHeight n h) (Engine.setHeight n h) := by
  intro s; unfold Engine.setHeight; fsim
macro_rules | `(tactic| fsim_leaf) => `(tactic| with_reducible exact Sim.setHeight _ _)

theorem Sim.rchLink (n : Nat) : Sim K g (Engine.rchLink n) (Engine.rchLink n) := by
  intro s; unfold Engine.rchLink; fsim
macro_rules | `(tactic| fsim_leaf) => `(tactic| with_reducible exact Sim.rchLink _)

theorem Sim.rchInsert (n : Nat) : Sim K g (Engine.rchInsert n) (Engine.rchInsert n) := by
  intro s; unfold Engine.rchInsert; fsim
macro_rules | `(tactic| fsim_leaf) => `(tactic| with_reducible exact Sim.rchInsert _)

/-! ## flag-only work is invisible in the virtual state -/

/-- `s'` has the same virtual state as `s` (and the same kinds) -/
structure VEq (g : Nat → Option Val) (s s' : State) : Prop where
  veq : virt g s' = virt g s
  kind : ∀ m, (s'.nodeD m).kind = (s.nodeD m).kind
  flag : ∀ m, (s'.nodeD m).didChange = false → (s.nodeD m).didChange = false
  cutoff : ∀ m, (s'.nodeD m).cutoff = (s.nodeD m).cutoff

instance : Step.PreOrd (VEq g) :=
  ⟨fun _ => ⟨rfl, fun _ => rfl, fun _ h => h, fun _ => rfl⟩, fun h1 h2 => ⟨h2.veq.trans h1.veq, fun m => (h2.kind m).trans (h1.kind m),
    fun m h => h1.flag m (h2.flag m h), fun m => (h2.cutoff m).trans (h1.cutoff m)⟩⟩

theorem VEq.modNode (s : State) (n : Nat) (f : Node → Node)
    (hf : ∀ gv x, virtNode gv (f x) = virtNode gv x ∧ (f x).kind = x.kind ∧
      ((f x).didChange = false → x.didChange = false) ∧ (f x).cutoff = x.cutoff) :
    VEq g s { s with nodes := s.nodes.modify n f } := by
  refine ⟨?_, fun m => ?_, fun m h => ?_, fun m => ?_⟩
  · unfold virt
    congr 1
    apply Array.ext
    · simp
    · intro i h1 h2
      simp only [Array.getElem_mapIdx, Array.getElem_modify]
      split
      · exact (hf _ _).1
      · rfl
  · rw [nodeD_modify]; split
    · exact (hf none _).2.1
    · rfl
  · rw [nodeD_modify] at h; split at h
    · exact (hf none _).2.2.1 h
    · exact h
  · rw [nodeD_modify]; split
    · exact (hf none _).2.2.2
    · rfl

theorem PresV.modNode (n : Nat) (f : Node → Node)
    (hf : ∀ gv x, virtNode gv (f x) = virtNode gv x ∧ (f x).kind = x.kind ∧
      ((f x).didChange = false → x.didChange = false) ∧ (f x).cutoff = x.cutoff) :
    Step.Pres (VEq g) (Engine.modNode n f) := by
  unfold Engine.modNode; exact Step.Pres.modify fun s => VEq.modNode s n f hf

/-- closes `∀ gv x, virtNode gv (f x) = virtNode gv x ∧ (f x).kind = x.kind ∧ ((f x).didChange = false → x.didChange = false) ∧ (f x).cutoff = x.cutoff`
for an `f` that only RAISES `didChange` (`true` or `x.didChange || b`) -/
macro "fflag" : tactic => `(tactic| (intro gv nd
                                     refine ⟨?_, rfl, fun h => (by first | cases h | exact (Bool.or_eq_false_iff.1 h).1), rfl⟩
                                     rcases nd with ⟨k⟩; cases k <;> rfl))

macro_rules | `(tactic| qleaf) => `(tactic| ((with_reducible apply PresV.modNode); fflag))

theorem PresV.markMapRefUnknown (fuel n : Nat) : Step.Pres (VEq g) (Engine.markMapRefUnknown fuel n) := by
  induction fuel generalizing n with
  | zero => unfold Engine.markMapRefUnknown; qpres
  | succ fuel ih =>
    unfold Engine.markMapRefUnknown
    qpres
    all_goals first
      | exact ih _
      | (apply Step.Pres.forIn; intro a b; qpres; exact ih _)

theorem VEq.valid {s s' : State} (h : VEq g s s') (n : Nat) : (s'.nodeD n).valid = (s.nodeD n).valid := by
  have h1 : ((virt g s').nodeD n).valid = ((virt g s).nodeD n).valid := by rw [h.veq]
  rwa [virt_nodeD, virt_nodeD, virtNode_valid, virtNode_valid] at h1

theorem VEq.size {s s' : State} (h : VEq g s s') : s'.nodes.size = s.nodes.size := by
  have h1 : (virt g s').nodes.size = (virt g s).nodes.size := by rw [h.veq]
  rwa [virt_size, virt_size] at h1

theorem VEq.fr {s s' : State} (h : VEq g s s') (hn : Fr K g s) : Fr K g s' := by
  refine ⟨fun n hs => ?_, fun n e => ?_, fun n => ?_, fun n hs => hn.fresh n (by rw [← h.size]; exact hs)⟩
  · rw [h.kind]; exact hn.kinds n (by rw [← h.size]; exact hs)
  · rw [h.kind]; exact hn.noExp n e
  · rw [h.kind, h.cutoff]; exact hn.cut n

theorem VEq.vm {s s' : State} (h : VEq g s s') : VM s s' := by
  refine ⟨Nat.le_of_eq h.size.symm, fun m hv => by rw [h.valid]; exact hv, fun m _ => ⟨h.kind m, ?_, ?_⟩, fun m _ => h.flag m,
    fun m h1 h2 => absurd h2 (by have := h.size; omega)⟩
  · exact h.cutoff m
  · have h2 : ((virt g s').nodeD m).oldState = ((virt g s).nodeD m).oldState := by rw [h.veq]
    rwa [virt_nodeD, virt_nodeD, virtNode_oldState, virtNode_oldState] at h2

/-- a program that only does flag work is simulated by doing nothing -/
theorem SimAt.of_veq {s : State} {x : M Unit} (h : Step.Pres (VEq g) x) : SimAt K g s x (pure ()) := by
  intro hn r s' hr
  have hv := h.h s _ s' hr
  rw [run_pure, hv.veq]; exact ⟨rfl, hv.fr hn, hv.vm⟩

theorem SimAt.ite_left {α} {s : State} {c : Prop} {_ : Decidable c} {a b x' : M α}
    (ha : c → SimAt K g s a x') (hb : ¬ c → SimAt K g s b x') : SimAt K g s (if c then a else b) x' := by
  by_cases h : c
  · rw [if_pos h]; exact ha h
  · rw [if_neg h]; exact hb h

/-- flag work followed by `k` is simulated by `k'` if `k` is -/
theorem SimAt.veq_seq {β} {s : State} {x : M Unit} {k : Unit → M β} {k' : M β} (h : Step.Pres (VEq g) x)
    (hk : ∀ s1, VEq g s s1 → SimAt K g s1 (k ()) k') : SimAt K g s (x >>= k) k' := by
  intro hn r s' hr
  obtain ⟨a, s1, h1, h2⟩ := bind_ok_inv hr
  have hv := h.h s _ s1 h1
  obtain ⟨e, f, v⟩ := hk s1 hv (hv.fr hn) r s' h2
  rw [hv.veq] at e
  exact ⟨e, f, hv.vm.trans v⟩

theorem virt_markMapRefUnknown_run (fuel n : Nat) (s : State) (nd : Node) (h : s.nodes[n]? = some nd) :
    (Engine.markMapRefUnknown (fuel + 1) n).run.run (virt g s) = (.ok (), virt g s) := by
  unfold Engine.markMapRefUnknown
  have hv : (virt g s).nodes[n]? = some (virtNode (g n) nd) := by rw [virt_getElem?, h]; rfl
  rw [run_bind_ok (run_getNode_some hv), virtNode_kind?]
  cases hk : nd.kind? with
  | none => rfl
  | some k => cases k <;> rfl

theorem Sim.markMapRefUnknown (fuel n : Nat) :
    Sim K g (Engine.markMapRefUnknown fuel n) (Engine.markMapRefUnknown fuel n) := by
  intro s hn r s' hr
  cases fuel with
  | zero => unfold Engine.markMapRefUnknown at hr; cases hr
  | succ fuel =>
    have hv := (PresV.markMapRefUnknown (g := g) (fuel + 1) n).h s _ s' hr
    unfold Engine.markMapRefUnknown at hr
    obtain ⟨nd, hnd, -⟩ := bind_getNode_inv hr
    rw [virt_markMapRefUnknown_run fuel n s nd hnd, hv.veq]; exact ⟨rfl, hv.fr hn, hv.vm⟩
macro_rules | `(tactic| fsim_leaf) => `(tactic| with_reducible exact Sim.markMapRefUnknown _ _)
macro_rules | `(tactic| qleaf) => `(tactic| with_reducible apply PresV.markMapRefUnknown)

end
end IncrVerif.Proofs.FullH
