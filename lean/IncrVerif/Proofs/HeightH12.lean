import IncrVerif.Proofs.HeightH11
/-!
# C19 for whole histories, part 7: what `maxHeightSeen` is

`maxHeightSeen` after a history = the greatest static height the `stabilise`s of the history had to set
(`histNeed`) = the greatest static height of a node that was necessary in some state of the history.  It never
decreases — in particular not when the nodes become unnecessary again.
-/
namespace IncrVerif.Proofs.HeightH
open IncrVerif.Engine IncrVerif.Driver IncrVerif.Proofs IncrVerif.Proofs.Step IncrVerif.Proofs.Sched
open IncrVerif.Proofs.Quiet

/-- the greatest static height action `a` has to set when issued in `s` -/
def stabNeed (a : Action) (s : State) : Nat := match a with | .stabilise => pendingNeed s | _ => 0

/-- the greatest static height the `stabilise`s of the history had to set: the maximum of `pendingNeed` over the
states in which a `stabilise` was issued -/
def histNeed (env : Env) : List Action → State → Array Nat → Nat
  | [], _, _ => 0
  | a :: as, s, tk =>
    match (stepAction env a tk).run.run s with
    | (.ok r, s') => max (stabNeed a s) (histNeed env as s' r.2)
    | (.error _, _) => 0

theorem seenAfter_eq (a : Action) (s : State) (h0 : 0 ≤ s.maxHeightSeen) :
    seenAfter a s = max s.maxHeightSeen (stabNeed a s : Int) := by
  cases a <;> simp only [seenAfter, stabNeed] <;> omega

/-- **the largest height seen after a history** is `max` of what it was before and `histNeed` -/
theorem runActions_seen {env : Env} {N M : Nat} {acts : List Action} {s s' : State} {tk tk' : Array Nat}
    (Q : QInv env s) (T : TInvH N s) (ha : ∀ a, a ∈ acts → StaticActionH env a)
    (hv : ValidHist M s.nodes.size s.vars.size s.observers.size acts)
    (h : runActions env acts s tk = .ok (s', tk')) :
    s'.maxHeightSeen = max s.maxHeightSeen (histNeed env acts s tk : Int) := by
  induction acts generalizing s N with
  | nil =>
    simp only [runActions] at h
    cases h
    simp only [histNeed]; have := T.room.seen0; omega
  | cons a as ih =>
    obtain ⟨hok, hrest⟩ := hv
    obtain ⟨E1, E2⟩ := step_exact (tk := tk) Q T (ha a (List.mem_cons_self ..)) (actionOKH_of_c T.topSize hok)
    by_cases hr : Refused s a
    · obtain ⟨s1, h1, -⟩ := E2 hr
      simp only [runActions] at h
      rw [h1] at h
      cases h
    · obtain ⟨r, s1, h1, htk, Q1, T1, hg, hseen, -⟩ := E1 hr
      obtain ⟨g1, g2, g3⟩ := hg
      rw [← g1, ← g2, ← g3] at hrest
      simp only [runActions] at h
      rw [h1] at h
      simp only [htk] at h
      have := ih Q1 T1 (fun b hb => ha b (List.mem_cons_of_mem _ hb)) hrest h
      rw [this, hseen, seenAfter_eq a s T.room.seen0]
      simp only [histNeed, h1, htk]
      omega

/-- after a `stabilise` that returns, the greatest static height it had to set is that of a node that is now
necessary (the node of an observer that is now in use) -/
theorem stabilise_attained {env : Env} {fuel : Nat} {s s' : State} (Q : QInv env s)
    (h : (stabilise env fuel).run.run s = (.ok (), s')) (hp : pendingNeed s ≠ 0) :
    ∃ n, s'.isNecessary n = true ∧ needH s' n = pendingNeed s := by
  have hne : needsOf s s.newObservers ≠ [] := by
    intro e; apply hp; unfold pendingNeed; rw [e]; rfl
  obtain ⟨o, ob, -, hob, hst, hneed⟩ := mem_needsOf.1 (lmax_attained hne)
  have R := stabilise_q Q h
  obtain ⟨ob', hob', hnode, hstate⟩ := R.obs.2 o ob hob
  rw [hst] at hstate
  have hmem : o ∈ (s'.nodeD ob.node).observers :=
    (R.inv.obs.mem ob.node o).2 ⟨ob', hob', hnode, Or.inl hstate⟩
  refine ⟨ob.node, (isNecessary_iff s' ob.node).2 (Or.inr (Or.inl (List.ne_nil_of_mem hmem))), ?_⟩
  rw [needH_congr R.kind]
  exact hneed.symm

/-- `histNeed` is attained: it is `0`, or the static height of a node that is necessary in the state after one of
the `stabilise`s of the history -/
theorem histNeed_attained {env : Env} {N M : Nat} {acts : List Action} {s s' : State} {tk tk' : Array Nat}
    (Q : QInv env s) (T : TInvH N s) (ha : ∀ a, a ∈ acts → StaticActionH env a)
    (hv : ValidHist M s.nodes.size s.vars.size s.observers.size acts)
    (h : runActions env acts s tk = .ok (s', tk')) :
    histNeed env acts s tk = 0 ∨ ∃ as bs st tk1, acts = as ++ bs ∧ runActions env as s tk = .ok (st, tk1) ∧
      ∃ n, st.isNecessary n = true ∧ needH st n = histNeed env acts s tk := by
  induction acts generalizing s N with
  | nil => exact Or.inl rfl
  | cons a as ih =>
    obtain ⟨hok, hrest⟩ := hv
    obtain ⟨E1, E2⟩ := step_exact (tk := tk) Q T (ha a (List.mem_cons_self ..)) (actionOKH_of_c T.topSize hok)
    by_cases hr : Refused s a
    · obtain ⟨s1, h1, -⟩ := E2 hr
      simp only [runActions] at h
      rw [h1] at h
      cases h
    · obtain ⟨r, s1, h1, htk, Q1, T1, hg, hseen, -⟩ := E1 hr
      obtain ⟨g1, g2, g3⟩ := hg
      rw [← g1, ← g2, ← g3] at hrest
      simp only [runActions] at h
      rw [h1] at h
      simp only [htk] at h
      have IH := ih Q1 T1 (fun b hb => ha b (List.mem_cons_of_mem _ hb)) hrest h
      have hrun1 : ∀ (l : List Action) (x : State × Array Nat), runActions env l s1 tk = .ok x →
          runActions env (a :: l) s tk = .ok x := by
        intro l x hx
        simp only [runActions]; rw [h1]; simp only [htk]; exact hx
      simp only [histNeed, h1, htk]
      by_cases hbig : stabNeed a s ≤ histNeed env as s1 tk
      · rw [Nat.max_eq_right hbig]
        rcases IH with e | ⟨as', bs', st, tk1, e, hrun, n, hn, hneed⟩
        · exact Or.inl e
        · exact Or.inr ⟨a :: as', bs', st, tk1, by rw [e]; rfl, hrun1 _ _ hrun, n, hn, hneed⟩
      · rw [Nat.max_eq_left (by omega)]
        right
        cases a <;> try (exfalso; exact hbig (Nat.zero_le _))
        have hs := step_stabilise h1
        have hp : pendingNeed s ≠ 0 := by
          intro e; apply hbig; show pendingNeed s ≤ _; omega
        obtain ⟨n, hn, hneed⟩ := stabilise_attained Q hs hp
        refine ⟨[.stabilise], as, s1, tk, rfl, ?_, n, hn, hneed⟩
        simp only [runActions]; rw [h1]; simp only [htk]

/-- **What `maxHeightSeen` is (H3).**  After a history of the extended fragment from a state with invariants:
(1) it is `max old histNeed`; (2) it bounds the static height of every node that is necessary in ANY state of the
history (measured in the final program: static heights of existing nodes never change) — also of nodes that have
become unnecessary since; (3) it is attained: it is the old value, or the static height of a node that was
necessary after one of the `stabilise`s. -/
theorem seen_characterised {env : Env} {N M : Nat} {acts : List Action} {s s' : State} {tk tk' : Array Nat}
    (Q : QInv env s) (T : TInvH N s) (ha : ∀ a, a ∈ acts → StaticActionH env a)
    (hv : ValidHist M s.nodes.size s.vars.size s.observers.size acts)
    (h : runActions env acts s tk = .ok (s', tk')) :
    s'.maxHeightSeen = max s.maxHeightSeen (histNeed env acts s tk : Int) ∧
    (∀ as bs st tk1 n, acts = as ++ bs → runActions env as s tk = .ok (st, tk1) → st.isNecessary n = true →
      needH s' n = needH st n ∧ (needH s' n : Int) ≤ s'.maxHeightSeen) ∧
    (s'.maxHeightSeen = s.maxHeightSeen ∨
      ∃ as bs st tk1 n, acts = as ++ bs ∧ runActions env as s tk = .ok (st, tk1) ∧ st.isNecessary n = true ∧
        (needH s' n : Int) = s'.maxHeightSeen) := by
  have hseen := runActions_seen Q T ha hv h
  -- static heights of the nodes of an intermediate state, in the final state
  have hmid : ∀ as bs st tk1 n, acts = as ++ bs → runActions env as s tk = .ok (st, tk1) →
      st.isNecessary n = true → needH s' n = needH st n ∧ (needH st n : Int) ≤ st.maxHeightSeen ∧
        st.maxHeightSeen ≤ s'.maxHeightSeen := by
    intro as bs st tk1 n e hrun hn
    subst e
    have hvas := validHist_prefix hv
    obtain ⟨Q1, T1, e1, -, -, -⟩ := runActions_inv Q T (fun x hx => ha x (List.mem_append_left _ hx)) hvas hrun
    rw [runActions_append, hrun] at h
    have hvbs : ValidHist M st.nodes.size st.vars.size st.observers.size bs :=
      validHist_after Q T (fun x hx => ha x (List.mem_append_left _ hx)) hv hrun
    obtain ⟨-, -, -, hs2, -, hk2⟩ := runActions_inv Q1 T1 (fun x hx => ha x (List.mem_append_right _ hx)) hvbs h
    have hlt := nec_lt_size hn
    refine ⟨needH_congr_lt (kidsLt_of_static Q1.struct.static) (fun m hm => hk2 m (by omega)),
      (T1.hx n hn rfl).2, hs2⟩
  refine ⟨hseen, fun as bs st tk1 n e hrun hn => ?_, ?_⟩
  · obtain ⟨h1, h2, h3⟩ := hmid as bs st tk1 n e hrun hn
    exact ⟨h1, by rw [h1]; omega⟩
  · rcases histNeed_attained Q T ha hv h with e | ⟨as, bs, st, tk1, e, hrun, n, hn, hneed⟩
    · left; rw [hseen, e]; have := T.room.seen0; omega
    · by_cases hle : (histNeed env acts s tk : Int) ≤ s.maxHeightSeen
      · left; rw [hseen]; omega
      · right
        obtain ⟨h1, -, -⟩ := hmid as bs st tk1 n e hrun hn
        exact ⟨as, bs, st, tk1, n, e, hrun, hn, by rw [h1, hneed, hseen]; omega⟩

end IncrVerif.Proofs.HeightH
