import IncrVerif.Proofs.FaultH14
/-!
# Faults in whole histories, part H2: after a handler panic the engine behaves, for every action other than `stabilise`,
exactly as the healthy engine that completed the `stabilise`
-/
namespace IncrVerif.Proofs.FaultH
open IncrVerif.Engine IncrVerif.Driver IncrVerif.Proofs IncrVerif.Proofs.Step

theorem Sim.create {env : Env} {i : Instr} (hi : Quiet.StaticInstr env i) (tk : Array Nat) :
    Sim (stepAction env (.create i) tk) (stepAction env (.create i) tk) := by
  intro s
  unfold stepAction
  dsimp only
  cases i <;> try exact hi.elim
  all_goals
    unfold elabInstrM; dsimp only; unfold elabInstr; dsimp only
    ssim
  all_goals (repeat (any_goals (first | (split <;> ssim))))

theorem Sim.observe (env : Env) (n : Opnd) (tk : Array Nat) :
    Sim (stepAction env (.observe n) tk) (stepAction env (.observe n) tk) := by
  intro s
  unfold stepAction
  dsimp only
  refine SimAt.seq (Sim.resolveOpnd [] n s) fun m s1 _ => ?_
  refine SimAt.get_seq ?_
  dsimp only
  have hsz : (s1.observers.map erOb).size = s1.observers.size := Array.size_map ..
  rw [hsz]
  refine SimAt.seq ?_ fun _ s2 _ => ?_
  · refine SimAt.mod ?_ rfl
    show erWith ({ s1 with newObservers := s1.newObservers ++ [s1.observers.size] } : State)
        ((s1.observers.push { node := m }).map erOb) =
      erWith ({ s1 with newObservers := s1.newObservers ++ [s1.observers.size] } : State)
        ((s1.observers.map erOb).push { node := m })
    rw [Array.map_push]
    rfl
  · ssim

/-- **every action of the fragment other than `stabilise`** reads nothing of what `er` erases -/
theorem Sim.stepAction {env : Env} {a : Action} (ha : FAction env a) (hns : a ≠ .stabilise) (tk : Array Nat) :
    Sim (stepAction env a tk) (stepAction env a tk) := by
  cases a <;> try exact ha.elim
  case create i => exact Sim.create ha tk
  case observe n => exact Sim.observe env n tk
  case stabilise => exact absurd rfl hns
  all_goals
    intro s
    unfold Engine.stepAction
    dsimp only
    ssim
  all_goals (repeat (any_goals (first | (split <;> ssim) | exact SimAt.ret _)))

end IncrVerif.Proofs.FaultH
