import IncrVerif.Proofs.ExpertH37
/-!
# `adjustHeights` for `QR.GInv` (port of BindH29), part 3: `ensureHeightRequirement` keeps the loop invariant;
the loop; the headline theorem `adjustHeights_specR`; closing a queued linking node
-/
namespace IncrVerif.Proofs.ExpertH.QR
open IncrVerif.Engine IncrVerif.Proofs IncrVerif.Proofs.Step IncrVerif.Proofs.Sched

namespace BA

theorem HRel.added (p : Nat) (x : Int) (s : State) : HRel s (ahhAdded p x s) :=
  HRel.upd (s := s) (n := p) (f := fun y => { y with heightInAhh := x }) rfl rfl (fun _ => ⟨rfl, rfl⟩) rfl
    (Int.le_refl _)

theorem HRel.heightSet {p : Nat} {v : Int} {s : State} (hv : (s.nodeD p).height ≤ v) :
    HRel s (heightSet p v s) :=
  HRel.upd (s := s) (n := p) (f := fun y => { y with height := v }) rfl rfl (fun _ => ⟨rfl, rfl⟩) rfl hv

theorem ahhAdded_nodeD {p : Nat} {x : Int} {s : State} (hp : p < s.nodes.size) (m : Nat) :
    (ahhAdded p x s).nodeD m = if m = p then { s.nodeD p with heightInAhh := x } else s.nodeD m :=
  nodeD_upd (s := s) (f := fun y => { y with heightInAhh := x }) rfl hp m

/-- `ensureHeightRequirement c p` inside the loop: the edges `c → p` are fine afterwards -/
theorem ehr_step {rk : Nat → Nat} {B : Nat} {s0 s s' : State} {X : Nat → Nat → Nat → Prop} {Y : Nat → Prop} {oc op c p : Nat} {u : Unit}
    (h : (ensureHeightRequirement oc op c p).run.run s = (.ok u, s')) (A : AInv rk B s0 s X Y)
    (hX : ∀ x q i, X x q i → x = c) (hne : ∀ x q i, (q, i) ∈ (s0.nodeD x).parents → x ≠ q) (hcp : c ≠ p)
    (hlb : s.ahh.lowerBound ≤ (s.nodeD p).height) (hB : rk B ≤ rk p) :
    AInv rk B s0 s' (fun x q i => X x q i ∧ q ≠ p) Y ∧ HRel s s' ∧ s'.ahh.lowerBound = s.ahh.lowerBound := by
  obtain ⟨hc, hp, hcase⟩ := ehr_ok_inv h
  rcases hcase with ⟨hlt, e⟩ | ⟨hge, s1, hs1, e⟩
  · rw [e]
    refine ⟨⟨A.rel, A.wf, A.heap, ?_, A.old, A.hgt, A.hle, A.low, A.memB⟩, HRel.refl s, rfl⟩
    intro x q i hm
    rcases A.edge x q i hm with h1 | h1 | h1
    · exact Or.inl h1
    · exact Or.inr (Or.inl h1)
    · by_cases eq : q = p
      · left; rw [hX x q i h1, eq]; exact hlt
      · exact Or.inr (Or.inr ⟨h1, eq⟩)
  · have hne1 : ∀ (t : State), HRel s0 t → ∀ x q i, (q, i) ∈ (t.nodeD x).parents → x ≠ q := by
      intro t ht x q i hm
      rw [ht.parents] at hm
      exact hne x q i hm
    rcases hs1 with ⟨hmem, e1⟩ | ⟨hnm, h0, hx, e1⟩
    · rw [e1] at e
      rw [e]
      exact ⟨A.raise hp hmem (by omega) (by omega) hX (hne1 s A.rel), HRel.heightSet (by omega), rfl⟩
    · have hpar : ∀ q i, (q, i) ∈ (s.nodeD p).parents → (s.nodeD p).height < (s.nodeD q).height := by
        intro q i hm
        rcases A.edge p q i hm with h1 | h1 | h1
        · exact h1
        · exact absurd hnm h1
        · exact absurd (hX p q i h1).symm hcp
      have A1 := A.add hp hnm h0 hx hlb hpar hB
      rw [← e1] at A1
      have key := ahhAdded_nodeD (x := (s.nodeD p).height) hp
      have hhp : (s1.nodeD p).height = (s.nodeD p).height := by rw [e1, key, if_pos rfl]
      have hhc : (s1.nodeD c).height = (s.nodeD c).height := by rw [e1, key, if_neg hcp]
      have hmem : ahhMk s1 p ≠ -1 := by
        simp only [ahhMk]
        rw [e1, key, if_pos rfl]
        show (s.nodeD p).height ≠ -1
        omega
      have hp1 : p < s1.nodes.size := by rw [e1]; simpa [ahhAdded] using hp
      rw [e]
      refine ⟨A1.raise hp1 hmem (by omega) (by omega) hX (hne1 s1 A1.rel), ?_, ?_⟩
      · have r1 : HRel s s1 := by rw [e1]; exact HRel.added _ _ _
        exact r1.trans (HRel.heightSet (by omega))
      · rw [e1]; rfl

/-- the tail of one iteration of the loop, after the popped node has been re-bucketed -/
def loopTail (oc op c fuel : Nat) : M Unit := do
  for (p, _) in (← getNode c).parents do
    ensureHeightRequirement oc op c p
  match (← getNode c).kind? with
  | some (.bindLhsChange b) =>
    for r in (← getBind b).allNodesCreatedOnRhs do
      if (← get).isNecessary r then ensureHeightRequirement oc op c r
  | _ => pure ()
  adjustHeightsLoop oc op fuel

/-- what the loop guarantees -/
def LoopSpec (rk : Nat → Nat) (B : Nat) (s0 : State) (oc op fuel : Nat) : Prop :=
  ∀ s s', (adjustHeightsLoop oc op fuel).run.run s = (.ok (), s') → AInv rk B s0 s noX noY →
    AInv rk B s0 s' noX noY ∧ AhhEmpty s'

theorem tail_spec {env : Env} {rk : Nat → Nat} {B : Nat} {s0 s s' : State} {oc op c fuel : Nat}
    (hlt : ∀ x q i, (q, i) ∈ (s0.nodeD x).parents → rk x < rk q)
    (hstat : ∀ m, m < s0.nodes.size → StaticKind env (s0.nodeD m).kind)
    (ih : LoopSpec rk B s0 oc op fuel)
    (h : (loopTail oc op c fuel).run.run s = (.ok (), s')) (A : AInv rk B s0 s (fun x _ _ => x = c) noY)
    (hlb : ∀ q i, (q, i) ∈ (s.nodeD c).parents → s.ahh.lowerBound ≤ (s.nodeD q).height) (hB : rk B ≤ rk c) :
    AInv rk B s0 s' noX noY ∧ AhhEmpty s' := by
  have hne : ∀ x q i, (q, i) ∈ (s0.nodeD x).parents → x ≠ q := fun x q i hm e => by
    have := hlt x q i hm; rw [e] at this; omega
  unfold loopTail at h
  obtain ⟨nd, hnd, h⟩ := bind_getNode_inv h
  have hndD : s.nodeD c = nd := nodeD_of_some hnd
  obtain ⟨_, t, hfor, h⟩ := bind_ok_inv h
  -- the loop over the parents of `c`
  have hloop := forIn_ok_inv _ nd.parents
    (fun j (_ : PUnit) (t : State) =>
      AInv rk B s0 t (fun x q i => x = c ∧ ∃ k, j ≤ k ∧ nd.parents[k]? = some (q, i)) noY ∧
        t.ahh.lowerBound = s.ahh.lowerBound ∧ ∀ m, (s.nodeD m).height ≤ (t.nodeD m).height)
    (by
      intro j a b t r t' hj ⟨At, hlbt, hgrow⟩ hbody
      obtain ⟨_, t1, ha, hbody⟩ := bind_ok_inv hbody
      obtain ⟨hr, ht'⟩ := pure_ok_inv hbody
      subst ht'
      refine ⟨_, hr, ?_⟩
      have hmem : (a.1, a.2) ∈ (s.nodeD c).parents := by
        rw [hndD]; exact List.mem_of_getElem? hj
      have hmem0 : (a.1, a.2) ∈ (s0.nodeD c).parents := by rw [← A.rel.parents]; exact hmem
      have hca : c ≠ a.1 := hne c a.1 a.2 hmem0
      obtain ⟨At1, hr1, hlb1⟩ := ehr_step ha At (fun x q i hx => hx.1) hne hca
        (by
          rw [hlbt]
          have := hlb a.1 a.2 hmem
          have := hgrow a.1
          omega)
        (by have := hlt c a.1 a.2 hmem0; omega)
      refine ⟨At1.mono ?_ (fun _ hy => hy), by rw [hlb1, hlbt], fun m => ?_⟩
      · rintro x q i - ⟨⟨hx, k, hk, hkq⟩, hqa⟩
        refine ⟨hx, k, ?_, hkq⟩
        rcases Nat.lt_or_ge j k with hlt | hge
        · exact hlt
        · have : k = j := by omega
          rw [this, hj] at hkq
          cases hkq
          exact absurd rfl hqa
      · exact Int.le_trans (hgrow m) (hr1.height m))
    nd.parents 0 PUnit.unit s _ t (by simp) (Nat.zero_le _)
    ⟨A.mono (by
        intro x q i hm hx
        refine ⟨hx, ?_⟩
        rw [hx, hndD] at hm
        obtain ⟨k, hk⟩ := List.mem_iff_getElem?.1 hm
        exact ⟨k, Nat.zero_le _, hk⟩) (fun _ hy => hy), rfl, fun _ => Int.le_refl _⟩ hfor
  obtain ⟨At, -, -⟩ := hloop
  have At' : AInv rk B s0 t noX noY := by
    refine At.mono ?_ (fun _ hy => hy)
    rintro x q i - ⟨-, k, hk, hkq⟩
    rw [List.getElem?_eq_none hk] at hkq
    cases hkq
  -- the bind part does nothing in fragment F0
  obtain ⟨nd', hnd', h⟩ := bind_getNode_inv h
  dsimp only at h
  split at h
  · rename_i b hkb
    exfalso
    have hc : c < s0.nodes.size := by rw [← At'.rel.size]; exact lt_of_some hnd'
    have hk := hstat c hc
    rw [← At'.rel.kind c, nodeD_of_some hnd'] at hk
    unfold Node.kind? at hkb
    split at hkb
    · have e := Option.some.inj hkb
      rw [e] at hk; exact hk
    · cases hkb
  · exact ih t s' h At'

theorem loop_spec {env : Env} {rk : Nat → Nat} {B : Nat} {s0 : State} {oc op : Nat} (hlt : ∀ x q i, (q, i) ∈ (s0.nodeD x).parents → rk x < rk q)
    (hstat : ∀ m, m < s0.nodes.size → StaticKind env (s0.nodeD m).kind) (fuel : Nat) :
    LoopSpec rk B s0 oc op fuel := by
  induction fuel with
  | zero => intro s s' h; unfold adjustHeightsLoop at h; cases h
  | succ fuel ih =>
    intro s s' h A
    unfold adjustHeightsLoop at h
    obtain ⟨r, s1, h1, h⟩ := bind_ok_inv h
    rcases ahhRemoveMin_ok_inv h1 with ⟨er, e1, hnone⟩ | ⟨c, rest, er, hq, e1⟩
    · rw [er] at h
      obtain ⟨-, e⟩ := pure_ok_inv h
      rw [e, e1]
      exact ⟨A, A.wf.none_empty hnone⟩
    · rw [er] at h
      dsimp only at h
      obtain ⟨A1, hBc, hlb1, key⟩ := A.pop hq
      rw [← e1] at A1 hlb1 key
      obtain ⟨nd, hnd, h⟩ := bind_getNode_inv h
      have hndD : s1.nodeD c = nd := nodeD_of_some hnd
      have hc1 : c < s1.nodes.size := lt_of_some hnd
      have hpar1 : (s1.nodeD c).parents = (s.nodeD c).parents := by rw [key, if_pos rfl]
      by_cases hin : nd.inRch = true
      · rw [if_pos hin] at h
        obtain ⟨_, s2, h2, h⟩ := bind_ok_inv h
        obtain ⟨Q, -, h0, hmax, hQ, e2⟩ := rchIncreaseHeight_ok_inv h2
        have hwf : HeapWF s2 := by
          have := (triple_iff _ _ _ _).1 (rchIncreaseHeight_spec .release c) s1
            ⟨(HWF_release_iff s1).2 A1.heap.wf, Or.inr ⟨s1.nodeD c, some_of_lt hc1, h0, by
              simp only [Heap.maxAllowed] at hmax; omega⟩⟩
          rw [h2] at this
          exact (HWF_release_iff s2).1 this
        rw [e2] at hwf
        have A2 := A1.rebucket hc1 (by rw [hndD]; exact hin) h0 hQ hwf (fun _ hy => hy) hBc
        rw [← e2] at A2
        have key2 : ∀ m, (s2.nodeD m).height = (s1.nodeD m).height ∧
            (s2.nodeD m).parents = (s1.nodeD m).parents := by
          intro m
          rw [e2, nodeD_upd (s := s1) (f := fun y => { y with heightInRch := (s1.nodeD c).height }) rfl hc1]
          split
          · rename_i e; rw [e]; exact ⟨rfl, rfl⟩
          · exact ⟨rfl, rfl⟩
        refine tail_spec hlt hstat ih h A2 ?_ hBc
        intro q i hm
        rw [(key2 c).2, hpar1] at hm
        have := hlb1 q i hm
        rw [(key2 q).1]
        have e : s2.ahh.lowerBound = s1.ahh.lowerBound := by rw [e2]; rfl
        rw [e]; omega
      · rw [if_neg hin] at h
        have A2 : AInv rk B s0 s1 (fun x _ _ => x = c) noY := by
          refine ⟨A1.rel, A1.wf, A1.heap, A1.edge, A1.old, ?_, A1.hle, A1.low, A1.memB⟩
          intro m hq' hm _
          by_cases e : m = c
          · rw [e, hndD] at hq'; exact absurd hq' hin
          · exact A1.hgt m hq' hm e
        refine tail_spec hlt hstat ih h A2 ?_ hBc
        intro q i hm
        rw [hpar1] at hm
        have := hlb1 q i hm
        omega

/-! ## the invariant after the loop (the open node stays open) -/

theorem keep {env : Env} {rk : Nat → Nat} {B : Nat} {s s' : State} {op : Nat → Op} {op' : Nat}
    (A : AInv rk B s s' noX noY) (E : AhhEmpty s') (I : GInv env rk s op) :
    GInv env rk s' op ∧
      (∀ c i, (op', i) ∈ (s'.nodeD c).parents → (s'.nodeD c).height < (s'.nodeD op').height) ∧
      ((s'.nodeD op').inRch = true → (s'.nodeD op').heightInRch = (s'.nodeD op').height) := by
  have R := A.rel
  have hw : ∀ p i, Wants s' op p i ↔ Wants s op p i := by
    intro p i; unfold Wants; rw [R.nec]
  have hfine : ∀ c p i, (p, i) ∈ (s'.nodeD c).parents → (s'.nodeD c).height < (s'.nodeD p).height := by
    intro c p i hm
    rcases A.edge c p i hm with h | h | h
    · exact h
    · exact absurd (E.marks c) h
    · exact h.elim
  refine ⟨{ static := R.static I.static, par := ?_, conv := ?_, nodup := ?_, hlt := ?_, hpos := ?_,
            lnec := ?_, unec := ?_, heap := A.heap, hgt := ?_, qnec := ?_, queued := ?_,
            qstale := ?_, opLt := ?_ }, fun c i hm => hfine c op' i hm,
    fun hq => A.hgt op' hq (E.marks op') (fun h => h)⟩
  · intro c p i hm
    rw [R.parents] at hm
    obtain ⟨h1, h2⟩ := I.par c p i hm
    exact ⟨by rw [R.kind]; exact h1, (hw p i).2 h2⟩
  · intro p i c hk hw'
    rw [R.kind] at hk
    rw [R.parents]
    exact I.conv p i c hk ((hw p i).1 hw')
  · intro c; rw [R.parents]; exact I.nodup c
  · intro c p i hm _
    exact hfine c p i hm
  · intro n hn ho
    rw [R.nec] at hn
    have h2 := I.hpos n hn ho
    have h3 := R.height n
    omega
  · intro p k ho; rw [R.nec]; exact I.lnec p k ho
  · intro p k ho; rw [R.nec]; exact I.unec p k ho
  · intro m hqm _
    exact A.hgt m hqm (E.marks m) (fun h => h)
  · intro m hqm
    rw [R.inRch] at hqm
    rw [R.nec]
    exact I.qnec m hqm
  · intro m ho hn hs
    rw [R.nec] at hn
    rw [R.staleOf] at hs
    rw [R.inRch]
    exact I.queued m ho hn hs
  · intro m hqm
    rw [R.inRch] at hqm
    rw [R.staleOf]; exact I.qstale m hqm
  · intro m ho; rw [R.size]; exact I.opLt m ho

end BA

open BA in
/-- **`adjustHeights` restores the height invariant** for `QR.GInv` (partial correctness).  `op'` is the only open
node, all its child edges are recorded, the edges `oc → op'` are the only ones that may violate the height rule.
The open node stays open.  Also: nodes of rank below `op'` are untouched. -/
theorem adjustHeights_specR_full {env : Env} {rk : Nat → Nat} {oc op' fuel : Nat} {s s' : State} {op : Nat → Op}
    (h : (adjustHeights oc op' fuel).run.run s = (.ok (), s'))
    (I : GInv env rk s op)
    (hclosed : ∀ m, m ≠ op' → op m = .closed)
    (hedge : ∃ i, (op', i) ∈ (s.nodeD oc).parents)
    (hother : ∀ c i, (op', i) ∈ (s.nodeD c).parents → c ≠ oc → (s.nodeD c).height < (s.nodeD op').height)
    (hgtop : (s.nodeD op').inRch = true → (s.nodeD op').heightInRch = (s.nodeD op').height)
    (hah : AhhEmpty s) :
    GInv env rk s' op ∧ AhhEmpty s' ∧ HRel s s' ∧
      (∀ c i, (op', i) ∈ (s'.nodeD c).parents → (s'.nodeD c).height < (s'.nodeD op').height) ∧
      ((s'.nodeD op').inRch = true → (s'.nodeD op').heightInRch = (s'.nodeD op').height) ∧
      ∀ m, rk m < rk op' → s'.nodeD m = s.nodeD m := by
  obtain ⟨i0, hedge⟩ := hedge
  have hocp : oc ≠ op' := I.par_ne hedge
  have hlt0 : ∀ x q i, (q, i) ∈ (s.nodeD x).parents → rk x < rk q := fun x q i hm => I.par_lt hm
  have hne0 : ∀ x q i, (q, i) ∈ (s.nodeD x).parents → x ≠ q := fun x q i hm => I.par_ne hm
  have hstat : ∀ m, m < s.nodes.size → StaticKind env (s.nodeD m).kind := fun m hm => (I.node hm).kind
  unfold adjustHeights at h
  rw [run_bind_get] at h
  replace h := bind_dassert_inv h
  replace h := bind_dassert_inv h
  obtain ⟨s1, hs1, h⟩ := bind_modify_inv h
  obtain ⟨_, s2, h2, h⟩ := bind_ok_inv h
  obtain ⟨_, s3, h3, h⟩ := bind_ok_inv h
  rw [run_bind_get] at h
  replace h := bind_dassert_inv h
  have e3 := dassert_ok_inv h
  -- the invariant holds initially, with the edges `oc → op'` still to be looked at
  have hnd1 : ∀ m, s1.nodeD m = s.nodeD m := fun m => by rw [hs1]; rfl
  have E1 : AhhEmpty s1 := by
    rw [hs1]; exact ⟨hah.length, hah.buckets, hah.marks⟩
  have A1 : AInv rk op' s s1 (fun x q _ => x = oc ∧ q = op') noY := by
    refine ⟨by rw [hs1]; exact HRel.same_nodes rfl rfl, AhhEmpty.wf E1,
      I.heap.congr (by rw [hs1]) (by rw [hs1]) (fun m => by rw [hnd1]), ?_, ?_, ?_, ?_, fun m _ => hnd1 m,
      fun m hmm => absurd (E1.marks m) hmm⟩
    · intro c p i hm
      rw [hnd1] at hm
      rw [hnd1, hnd1]
      by_cases e : p = op'
      · by_cases ec : c = oc
        · exact Or.inr (Or.inr ⟨ec, e⟩)
        · rw [e] at hm ⊢; exact Or.inl (hother c i hm ec)
      · exact Or.inl (I.hlt c p i hm (hclosed p e))
    · intro c p i _ hmc
      exact absurd (E1.marks c) hmc
    · intro m hqm _ _
      rw [hnd1] at hqm ⊢
      by_cases e : m = op'
      · rw [e] at hqm ⊢; exact hgtop hqm
      · exact I.hgt m hqm (hclosed m e)
    · intro m hqm
      rw [hnd1] at hqm ⊢
      by_cases e : m = op'
      · rw [e] at hqm ⊢; rw [hgtop hqm]; exact Int.le_refl _
      · rw [I.hgt m hqm (hclosed m e)]; exact Int.le_refl _
  obtain ⟨A2, -, -⟩ := ehr_step h2 A1 (fun x q i hx => hx.1) hne0 hocp
    (by rw [hnd1, hs1]; exact Int.le_refl _) (Nat.le_refl _)
  have A2' : AInv rk op' s s2 noX noY := A2.mono (fun x q i _ hx => hx.2 hx.1.2) (fun _ hy => hy)
  obtain ⟨A3, E3⟩ := loop_spec hlt0 hstat fuel s2 s3 h3 A2'
  rw [e3]
  obtain ⟨k1, k2, k3⟩ := keep (op' := op') A3 E3 I
  exact ⟨k1, E3, A3.rel, k2, k3, A3.low⟩

/-- the headline in the form asked for (`hopen`, `hpos` are not used) -/
theorem adjustHeights_specR {env : Env} {rk : Nat → Nat} {oc op' fuel : Nat} {s s' : State} {op : Nat → Op}
    (h : (adjustHeights oc op' fuel).run.run s = (.ok (), s'))
    (I : GInv env rk s op)
    (hopen : op op' = .linking (kids (s.nodeD op').kind).length) (hclosed : ∀ m, m ≠ op' → op m = .closed)
    (hedge : ∃ i, (op', i) ∈ (s.nodeD oc).parents)
    (hother : ∀ c i, (op', i) ∈ (s.nodeD c).parents → c ≠ oc → (s.nodeD c).height < (s.nodeD op').height)
    (hgtop : (s.nodeD op').inRch = true → (s.nodeD op').heightInRch = (s.nodeD op').height)
    (hpos : 0 ≤ (s.nodeD op').height)
    (hah : AhhEmpty s) :
    GInv env rk s' op ∧ AhhEmpty s' ∧ HRel s s' ∧
      (∀ c i, (op', i) ∈ (s'.nodeD c).parents → (s'.nodeD c).height < (s'.nodeD op').height) ∧
      ((s'.nodeD op').inRch = true → (s'.nodeD op').heightInRch = (s'.nodeD op').height) := by
  obtain ⟨h1, h2, h3, h4, h5, -⟩ := adjustHeights_specR_full h I hclosed hedge hother hgtop hah
  exact ⟨h1, h2, h3, h4, h5⟩

/-- closing a linking node that is already queued (in the bucket of its height) -/
theorem GInv.close_link_queued {env : Env} {rk : Nat → Nat} {s : State} {op : Nat → Op} {n k : Nat}
    (I : GInv env rk s op) (hop : op n = .linking k)
    (hk : (kids (s.nodeD n).kind).length ≤ k)
    (hh : ∀ (i c : Nat), (kids (s.nodeD n).kind)[i]? = some c → (s.nodeD c).height < (s.nodeD n).height)
    (h0 : 0 ≤ (s.nodeD n).height)
    (hq : (s.nodeD n).inRch = true) (hg : (s.nodeD n).heightInRch = (s.nodeD n).height) :
    GInv env rk s (upd op n .closed) := by
  have hnn := I.lnec n k hop
  have hopn : upd op n .closed n = .closed := upd_self ..
  have hopo : ∀ m, m ≠ n → upd op n .closed m = op m := fun m h => upd_other _ _ _ h
  have hw : ∀ q i c, (kids (s.nodeD q).kind)[i]? = some c →
      (Wants s (upd op n .closed) q i ↔ Wants s op q i) := by
    intro q i c hkq
    by_cases e : q = n
    · rw [e] at hkq ⊢
      rw [wants_closed hopn, wants_linking hop, hnn]
      have : i < (kids (s.nodeD n).kind).length := by
        rcases Nat.lt_or_ge i (kids (s.nodeD n).kind).length with h | h
        · exact h
        · rw [List.getElem?_eq_none h] at hkq; cases hkq
      simp; omega
    · unfold Wants; rw [hopo q e]
  refine { static := I.static, par := ?_, conv := ?_, nodup := I.nodup, hlt := ?_, hpos := ?_,
           lnec := ?_, unec := ?_, heap := I.heap, hgt := ?_, qnec := ?_, queued := ?_,
           qstale := I.qstale, opLt := ?_ }
  · intro c q i hm
    obtain ⟨h1, h2⟩ := I.par c q i hm
    exact ⟨h1, (hw q i c h1).2 h2⟩
  · intro q i c hkq hw'
    exact I.conv q i c hkq ((hw q i c hkq).1 hw')
  · intro c q i hm ho
    by_cases e : q = n
    · rw [e] at hm ⊢; exact hh i c (I.par c n i hm).1
    · rw [hopo q e] at ho; exact I.hlt c q i hm ho
  · intro m hn ho
    by_cases e : m = n
    · rw [e]; exact h0
    · rw [hopo m e] at ho; exact I.hpos m hn ho
  · intro q k' ho
    have e : q ≠ n := by intro e; rw [e, hopn] at ho; cases ho
    rw [hopo q e] at ho
    exact I.lnec q k' ho
  · intro q k' ho
    have e : q ≠ n := by intro e; rw [e, hopn] at ho; cases ho
    rw [hopo q e] at ho
    exact I.unec q k' ho
  · intro m hq' ho
    by_cases e : m = n
    · rw [e]; exact hg
    · rw [hopo m e] at ho; exact I.hgt m hq' ho
  · intro m hq'
    by_cases e : m = n
    · rw [e]; exact Or.inl hnn
    · rcases I.qnec m hq' with h | ⟨k', h⟩
      · exact Or.inl h
      · exact Or.inr ⟨k', by rw [hopo m e]; exact h⟩
  · intro m ho hn hs
    by_cases e : m = n
    · rw [e]; exact hq
    · rw [hopo m e] at ho; exact I.queued m ho hn hs
  · intro m ho
    have e : m ≠ n := by intro e; rw [e, hopn] at ho; exact ho rfl
    rw [hopo m e] at ho
    exact I.opLt m ho

end IncrVerif.Proofs.ExpertH.QR
