import IncrVerif.Proofs.FullH5
import IncrVerif.Proofs.FullH12
/-!
# C01 full fragment, part 5: the invariant between API actions
-/
namespace IncrVerif.Proofs.FullH
open IncrVerif.Engine IncrVerif.Driver IncrVerif.Proofs IncrVerif.Proofs.Step IncrVerif.Proofs.Sched IncrVerif.Proofs.Quiet
open IncrVerif.Proofs.NestH (QG2 QI2 QInv2 GenOK2)

/-- every closure body of the environment is of the fragment, for every lhs value: its instructions are simulated (`InstrS`, `SC1.lean`: `const`, `lhsConst`,
pure `map` with a user or built-in function id, `fold`, `mapRef` with a projection id `< 100000`, `mapWithOld` with a `Good` machine, `bind`, …) and their
operands name top-level handles or earlier locals -/
def EnvS (env : Env) (sp : Nat → Val → Val) : Prop :=
  ∀ (b : Nat) (v : Val), (∀ i, i ∈ (env.body b v).instrs → InstrS env sp i ∧ ∀ o, o ∈ InstrOpnds i → OpndS o) ∧
    OpndS (env.body b v).ret

/-- **the invariant between API actions** of the full fragment, with the ghost `g` -/
structure QInvF (env : Env) (sp : Nat → Val → Val) (s : State) (g : Nat → Option Val) : Prop where
  frag : FFrag env sp g s
  q : QG2 (VE env sp) (virt g s)
  k : KInv env g s
  m : MInv env s
  gs : GSome g s
  dep : DepInv g s

def QInvFE (env : Env) (sp : Nat → Val → Val) (s : State) : Prop := ∃ g, QInvF env sp s g

end IncrVerif.Proofs.FullH
