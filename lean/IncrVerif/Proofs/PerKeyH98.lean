import IncrVerif.Proofs.PerKeyH88
import IncrVerif.Proofs.PerKey
/-!
# Per-key operators, API actions part 7: `create (.perKey cut fam (.outer k))`, the run
-/
namespace IncrVerif.Proofs.PerKeyH
open IncrVerif.Engine IncrVerif.Driver IncrVerif.Proofs IncrVerif.Proofs.Step IncrVerif.Proofs.Sched
open IncrVerif.Proofs.ExpertH IncrVerif.Proofs.EffH IncrVerif.Proofs.DriverH

/-- the expert record of the result of a fresh operator -/
def pkNewRec (s : State) : ExpertRec :=
  { f := 0, pk := some (s.perkeys.size, none), node := s.nodes.size + 1,
    children := [{ dep := s.nextDep, child := s.nodes.size + 2, cb := none }], forceStale := true }

/-- a family together with the cutoff argument of the operator (`incr_mapi_` / `incr_mapi_cutoff`) -/
structure FamCut where
  fam : Nat
  cut : Option CutoffK

/-- the record of a fresh operator -/
def pkNewOp (fam : FamCut) (s : State) : PerKeyRec :=
  { fam := fam.fam, cut := fam.cut, result := s.nodes.size + 1, lhsChange := s.nodes.size + 2 }

/-- the state after `create (.perKey cut fam x)` (`fam : FamCut` = family + cutoff argument) at top level, `x` resolving to `a0` -/
def pkCreated (fam : FamCut) (a0 : Nat) (s : State) : State :=
  { s with
    counters := { s.counters with created := s.counters.created + 1 + 1 + 1 + 1 },
    nodes := (((s.nodes.push { kind := .map fnIdent [a0], createdIn := .top }).push
          { kind := .expert s.experts.size, createdIn := .top }).push
          { kind := .map (fnPerKey + s.perkeys.size) [s.nodes.size], createdIn := .top }).push
          { kind := .map fnIdent [s.nodes.size + 1], createdIn := .top },
    experts := s.experts.push (pkNewRec s),
    perkeys := s.perkeys.push (pkNewOp fam s),
    nextDep := s.nextDep + 1,
    currentScope := .top,
    top := s.top.push (s.nodes.size + 3),
    handles := (s.nodes.size + 3) :: s.handles }

theorem perKey_create_run (env : Env) (fam : FamCut) (k a0 : Nat) (tk : Array Nat) (s : State) (hsc : s.currentScope = .top)
    (hk : s.top[k]? = some a0) :
    ∃ str, (stepAction env (.create (.perKey fam.cut fam.fam (.outer k))) tk).run.run s = (.ok (str, tk), pkCreated fam a0 s) := by
  simp only [stepAction, elabInstrM, elabInstr, resolveOpnd, createNode, bumpCounter, modExpert, bind_assoc, run_bind_get,
    run_bind_modify, hsc, hk, pure_bind, run_pure, map_eq_pure_bind, Array.size_push]
  refine ⟨toString "ok #" ++ toString (s.nodes.size + 1 + 1 + 1), ?_⟩
  rw [push_modify_last, push_modify_last]
  rfl


theorem perKey_create_inv {env : Env} {fam : FamCut} {k a0 : Nat} {tk : Array Nat} {s s' : State} {r : String × Array Nat}
    (hsc : s.currentScope = .top) (hk : s.top[k]? = some a0)
    (h : (stepAction env (.create (.perKey fam.cut fam.fam (.outer k))) tk).run.run s = (.ok r, s')) :
    s' = pkCreated fam a0 s := by
  obtain ⟨str, h'⟩ := perKey_create_run env fam k a0 tk s hsc hk
  rw [h'] at h
  cases h; rfl

/-! ## field lemmas of `pkCreated` -/

section
variable (fam : FamCut) (a0 : Nat) (s : State)

theorem pkc_nodes : (pkCreated fam a0 s).nodes =
    (((s.nodes.push { kind := .map fnIdent [a0], createdIn := .top }).push
          { kind := .expert s.experts.size, createdIn := .top }).push
          { kind := .map (fnPerKey + s.perkeys.size) [s.nodes.size], createdIn := .top }).push
          { kind := .map fnIdent [s.nodes.size + 1], createdIn := .top } := rfl
theorem pkc_size : (pkCreated fam a0 s).nodes.size = s.nodes.size + 4 := by
  simp [pkc_nodes]
theorem pkc_experts : (pkCreated fam a0 s).experts = s.experts.push (pkNewRec s) := rfl
theorem pkc_perkeys : (pkCreated fam a0 s).perkeys = s.perkeys.push (pkNewOp fam s) := rfl
theorem pkc_top : (pkCreated fam a0 s).top = s.top.push (s.nodes.size + 3) := rfl
theorem pkc_nextDep : (pkCreated fam a0 s).nextDep = s.nextDep + 1 := rfl
theorem pkc_vars : (pkCreated fam a0 s).vars = s.vars := rfl
theorem pkc_observers : (pkCreated fam a0 s).observers = s.observers := rfl
theorem pkc_ahh : (pkCreated fam a0 s).ahh = s.ahh := rfl
theorem pkc_pc : (pkCreated fam a0 s).panicCountdown = s.panicCountdown := rfl
theorem pkc_scope : (pkCreated fam a0 s).currentScope = .top := rfl

theorem pkc_nodeD_lt {m : Nat} (h : m < s.nodes.size) : (pkCreated fam a0 s).nodeD m = s.nodeD m := by
  simp only [State.nodeD, pkc_nodes, Array.getElem?_push, Array.size_push]
  rw [if_neg (by omega), if_neg (by omega), if_neg (by omega), if_neg (by omega)]
theorem pkc_nodeD_0 : (pkCreated fam a0 s).nodeD s.nodes.size = { kind := .map fnIdent [a0], createdIn := .top } := by
  simp only [State.nodeD, pkc_nodes, Array.getElem?_push, Array.size_push]
  rw [if_neg (by omega), if_neg (by omega), if_neg (by omega), if_pos trivial]; rfl
theorem pkc_nodeD_1 : (pkCreated fam a0 s).nodeD (s.nodes.size + 1) =
    { kind := .expert s.experts.size, createdIn := .top } := by
  simp only [State.nodeD, pkc_nodes, Array.getElem?_push, Array.size_push]
  rw [if_neg (by omega), if_neg (by omega), if_pos trivial]; rfl
theorem pkc_nodeD_2 : (pkCreated fam a0 s).nodeD (s.nodes.size + 2) =
    { kind := .map (fnPerKey + s.perkeys.size) [s.nodes.size], createdIn := .top } := by
  simp only [State.nodeD, pkc_nodes, Array.getElem?_push, Array.size_push]
  rw [if_neg (by omega), if_pos trivial]; rfl
theorem pkc_nodeD_3 : (pkCreated fam a0 s).nodeD (s.nodes.size + 3) =
    { kind := .map fnIdent [s.nodes.size + 1], createdIn := .top } := by
  simp only [State.nodeD, pkc_nodes, Array.getElem?_push, Array.size_push]
  rw [if_pos trivial]; rfl

/-- the index cases of the new state -/
theorem pkc_cases {m : Nat} (h : m < (pkCreated fam a0 s).nodes.size) :
    m < s.nodes.size ∨ m = s.nodes.size ∨ m = s.nodes.size + 1 ∨ m = s.nodes.size + 2 ∨ m = s.nodes.size + 3 := by
  rw [pkc_size] at h; omega

theorem pkc_expert_lt {e : Nat} (h : e < s.experts.size) : (pkCreated fam a0 s).experts[e]? = s.experts[e]? := by
  rw [pkc_experts, Array.getElem?_push, if_neg (by omega)]
theorem pkc_expert_new : (pkCreated fam a0 s).experts[s.experts.size]? = some (pkNewRec s) := by
  rw [pkc_experts, Array.getElem?_push, if_pos rfl]
theorem pkc_expert_inv {e : Nat} {er : ExpertRec} (h : (pkCreated fam a0 s).experts[e]? = some er) :
    s.experts[e]? = some er ∨ (e = s.experts.size ∧ er = pkNewRec s) := by
  rw [pkc_experts, Array.getElem?_push] at h
  split at h
  · right; rename_i e0; cases h; exact ⟨e0, rfl⟩
  · left; exact h
theorem pkc_expert_old {e : Nat} {er : ExpertRec} (h : s.experts[e]? = some er) :
    (pkCreated fam a0 s).experts[e]? = some er := by
  rw [pkc_expert_lt fam a0 s (Array.getElem?_eq_some_iff.1 h).1]; exact h
theorem pkc_perkey_new : (pkCreated fam a0 s).perkeys[s.perkeys.size]? = some (pkNewOp fam s) := by
  rw [pkc_perkeys, Array.getElem?_push, if_pos rfl]
theorem pkc_perkey_inv {op : Nat} {pr : PerKeyRec} (h : (pkCreated fam a0 s).perkeys[op]? = some pr) :
    s.perkeys[op]? = some pr ∨ (op = s.perkeys.size ∧ pr = pkNewOp fam s) := by
  rw [pkc_perkeys, Array.getElem?_push] at h
  split at h
  · right; rename_i e0; cases h; exact ⟨e0, rfl⟩
  · left; exact h
theorem pkc_perkey_old {op : Nat} {pr : PerKeyRec} (h : s.perkeys[op]? = some pr) :
    (pkCreated fam a0 s).perkeys[op]? = some pr := by
  rw [pkc_perkeys, Array.getElem?_push, if_neg (by have := (Array.getElem?_eq_some_iff.1 h).1; omega)]; exact h
theorem pkc_top_old {j n : Nat} (h : s.top[j]? = some n) : (pkCreated fam a0 s).top[j]? = some n := by
  rw [pkc_top, Array.getElem?_push, if_neg (by have := (Array.getElem?_eq_some_iff.1 h).1; omega)]; exact h
theorem pkc_top_inv {j n : Nat} (h : (pkCreated fam a0 s).top[j]? = some n) :
    s.top[j]? = some n ∨ n = s.nodes.size + 3 := by
  rw [pkc_top, Array.getElem?_push] at h
  split at h
  · right; cases h; rfl
  · left; exact h
end

end IncrVerif.Proofs.PerKeyH
