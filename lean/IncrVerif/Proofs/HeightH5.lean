import IncrVerif.Proofs.HeightH3
import IncrVerif.Proofs.HeightH4
/-!
# C19 for whole histories, part 4: the two loops at the start of `stabilise`

`addNewObservers` returns iff the greatest static height it has to set (`pendingNeed`) is within the limit, and then
`maxHeightSeen` has become `max old pendingNeed`; otherwise it panics with the height diagnostic.
`unlinkDisallowedObservers` returns and sets no height.
-/
namespace IncrVerif.Proofs.HeightH
open IncrVerif.Engine IncrVerif.Driver IncrVerif.Proofs IncrVerif.Proofs.Step IncrVerif.Proofs.Sched
open IncrVerif.Proofs.Quiet IncrVerif.Proofs.Quiet.P12

/-- an outcome together with a relation that every run (returning or panicking) satisfies -/
theorem Out.and_pres {α} {x : M α} {s : State} {Q : α → State → Prop} {P : State → Prop}
    {R : State → State → Prop} (T : Out x s Q P) (hp : Step.Pres R x) :
    Out x s (fun a s' => Q a s' ∧ R s s') (fun s' => P s' ∧ R s s') := by
  rcases T with ⟨a, s1, h1, h2⟩ | ⟨s1, h1, h2⟩
  · exact Or.inl ⟨a, s1, h1, h2, hp.h s _ s1 h1⟩
  · exact Or.inr ⟨s1, h1, h2, hp.h s _ s1 h1⟩

namespace P4

theorem Out.bind_getObs {β} {o : Nat} {ob : ObsRec} {f : ObsRec → M β} {s : State} {Q : β → State → Prop}
    {P : State → Prop} (h : s.observers[o]? = some ob) (T : Out (f ob) s Q P) : Out (getObs o >>= f) s Q P :=
  Out.bind_ok (by rw [Quiet.run_getObs, h]) T

theorem Out.bind_modObs {β} {o : Nat} {g : ObsRec → ObsRec} {f : Unit → M β} {s : State} {Q : β → State → Prop}
    {P : State → Prop} (T : Out (f ()) { s with observers := s.observers.modify o g } Q P) :
    Out (modObs o g >>= f) s Q P := by
  unfold modObs; exact Out.bind_modify (fun s1 hs1 => by rw [hs1]; exact T)

theorem nodeUpd_kind {n : Nat} {l : List Nat} {t t' : State} (U : NodeUpd n (fObservers l) t t') (m : Nat) :
    (t'.nodeD m).kind = (t.nodeD m).kind := by
  by_cases e : m = n
  · rw [e]; exact U.self.kind
  · exact (U.other m e).kind

/-- the exact heights through a change of the observer list of `n` -/
theorem hex_upd {n : Nat} {l : List Nat} {t t' : State} {op op' : Nat → Op} (hb : HEx t op)
    (U : NodeUpd n (fObservers l) t t') (hs : t'.maxHeightSeen = t.maxHeightSeen)
    (hoth : ∀ m, m ≠ n → op' m = .closed → op m = .closed)
    (hself : t'.isNecessary n = true → op' n = .closed → t.isNecessary n = true ∧ op n = .closed) :
    HEx t' op' := by
  refine hb.transfer (nodeUpd_kind U) (by rw [hs]; exact Int.le_refl _) (fun m hm hc => ?_)
  by_cases e : m = n
  · rw [e] at hm hc ⊢
    obtain ⟨h1, h2⟩ := hself hm hc
    exact ⟨h1, h2, U.height_self⟩
  · rw [U.nec_other e] at hm
    exact ⟨hm, hoth m e hc, U.height_other e⟩

theorem has_seen {n : Nat} {s s' : State} {r : Except Panic Unit}
    (h : (handleAfterStabilisation n).run.run s = (r, s')) : s'.maxHeightSeen = s.maxHeightSeen := by
  rcases has_cases h with e | e <;> rw [e] <;> rfl

theorem roomH_of_pframe {N : Nat} {s s' : State} (R : RoomH N s) (h : PFrame s s')
    (hs : s.maxHeightSeen ≤ s'.maxHeightSeen) (hN : s'.maxHeightSeen ≤ (N : Int)) : RoomH N s' := by
  have hk := h.key
  simp only [stateKeyP, Prod.mk.injEq] at hk
  have h1 : s'.rch.queues.size = s.rch.queues.size := hk.2.2.2.2.2.2.2.2.2.2.1
  have h2 : s'.ahh = s.ahh := hk.2.2.2.2.2.2.2.2.2.2.2.1
  exact ⟨by rw [h2]; exact R.ahh, by rw [← R.rch]; simp only [Heap.maxAllowed, h1], hN,
    by have := R.seen0; omega⟩

/-- the end of a `created` iteration of `add_new_observers`: the assertion holds; the cascade returns iff the
node's static height is within the limit -/
theorem add_tail_out {env : Env} {N fuel o : Nat} {rest pd : List Nat} {t t4 : State} {ob : ObsRec}
    (I : SInv env t (o :: rest) pd) (hob : t.observers[o]? = some ob) (hbt : HEx t allClosed) (Rt : RoomH N t)
    (hf : 2 * t.nodes.size + 2 ≤ fuel)
    (h4 : (handleAfterStabilisation ob.node).run.run (obsAdded o ob.node ((0 : Nat) : Int) t) = (.ok (), t4)) :
    t4.isNecessary ob.node = true ∧
      Out (if (!t.isNecessary ob.node) = true then do
            becameNecessaryPropagate env fuel ob.node
            pure (ForInStep.yield PUnit.unit)
          else pure (ForInStep.yield PUnit.unit)) t4
        (fun _ t' => needH t ob.node ≤ N ∧ HEx t' allClosed ∧
          t'.maxHeightSeen = max t.maxHeightSeen (needH t ob.node : Int))
        (fun t' => N < needH t ob.node ∧ t'.maxHeightSeen = (N : Int) + 1 ∧ t'.status = t.status) := by
  have hn : ob.node < t.nodes.size := (I.obs.inRange o ob hob).1
  have U3 : NodeUpd ob.node (fObservers ((t.nodeD ob.node).observers ++ [o])) t
      (obsAdded o ob.node ((0 : Nat) : Int) t) := obsAdded_upd hn
  have R : Irrel ob.node (obsAdded o ob.node ((0 : Nat) : Int) t) t4 := by
    rcases has_cases h4 with e | e
    · rw [e]; exact Irrel.refl _ _
    · rw [e]; exact Irrel.marked _ _
  have hs4 : t4.maxHeightSeen = t.maxHeightSeen := (has_seen h4).trans rfl
  have U4 := U3.then_same R.same
  have L := R.rel (fun _ => False)
  have hp4 : t4.propagateInvalidity = [] := (L.pinv.trans rfl).trans I.pinv
  have hl : (t.nodeD ob.node).observers ++ [o] ≠ [] := by simp
  have P4 : PFrame t t4 := (obsAdded_frame o ob.node t).trans L.fr.toP
  have hk4 : ∀ m, (t4.nodeD m).kind = (t.nodeD m).kind := PFrame.kind P4
  have R4 : RoomH N t4 := roomH_of_pframe Rt P4 (by rw [hs4]; exact Int.le_refl _) (by rw [hs4]; exact Rt.seen)
  refine ⟨(U4.nec_self_iff (keeps_fObservers _)).2 (Or.inr (Or.inl hl)), ?_⟩
  cases hw : t.isNecessary ob.node with
  | true =>
    simp only [Bool.not_true, Bool.false_eq_true, if_false]
    refine Out.pure ⟨hbt.le Rt hw rfl, hex_upd hbt U4 hs4 (fun _ _ h => h) (fun _ _ => ⟨hw, rfl⟩), ?_⟩
    rw [hs4]; have := (hbt _ hw rfl).2; omega
  | false =>
    simp only [Bool.not_false, if_true]
    obtain ⟨I1, hpar⟩ := GInv.addObs_open I.struct U4 hl hw rfl
    have hlow : ∀ m, upd allClosed ob.node (.linking 0) m ≠ .closed → ob.node ≤ m := by
      intro m hm
      by_cases e : m = ob.node
      · omega
      · rw [upd_other _ _ _ e] at hm; exact absurd rfl hm
    have hpar' : ∀ p i, (p, i) ∈ (t4.nodeD ob.node).parents →
        upd allClosed ob.node (.linking 0) p ≠ .closed := by
      intro p i hpi; rw [hpar] at hpi; cases hpi
    have T := becameNecessary_out (fuel := fuel) I1
      (hex_upd hbt U4 hs4 (op' := upd allClosed ob.node (.linking 0)) (fun _ _ _ => rfl)
        (fun _ h => by rw [upd_self] at h; cases h))
      R4 (upd_self _ _ _) hlow hpar' (by omega)
    rw [upd_upd, upd_eq_self allClosed _ .closed rfl, needH_congr hk4, hs4] at T
    unfold becameNecessaryPropagate
    simp only [bind_assoc]
    have hst4 : t4.status = t.status := by
      have hk := P4.key
      simp only [stateKeyP, Prod.mk.injEq] at hk
      exact hk.2.2.1
    refine Out.bind' (Out.and_pres T (PresF.becameNecessary env fuel ob.node))
      (fun t' ⟨⟨p1, p2⟩, F⟩ => ⟨p1, p2, by
        have hk := F.key
        simp only [stateKey, Prod.mk.injEq] at hk
        rw [hk.2.2.2.1, hst4]⟩) (fun _ t6 h6 ⟨⟨q1, q2, q3⟩, _⟩ => ?_)
    obtain ⟨-, -, hL⟩ := Quiet.becameNecessary_spec h6 I1 (upd_self _ _ _) hlow hpar'
    have hp6 : t6.propagateInvalidity = [] := by rw [hL.pinv]; exact hp4
    refine Out.bind_ok (Quiet.P23.propagateInvalidity_ok hp6 (by omega)) ?_
    exact Out.pure ⟨q1, q2, q3⟩

end P4

/-- **`add_new_observers`, exactly.**  It returns iff `pendingNeed s ≤ N`; then the exact heights hold and
`maxHeightSeen = max old (pendingNeed s)`.  Otherwise it panics with `"height-limit"`. -/
theorem addNewObservers_out {env : Env} {N fuel : Nat} {s : State}
    (I : SInv env s s.newObservers s.disallowedObservers) (hb : HEx s allClosed) (R : RoomH N s)
    (hnd : s.newObservers.Nodup)
    (hst : ∀ (o : Nat) (ob : ObsRec), o ∈ s.newObservers → s.observers[o]? = some ob →
      ob.state = .created ∨ ob.state = .unlinked)
    (hf : 2 * s.nodes.size + 2 ≤ fuel) :
    Out (addNewObservers env fuel) s
      (fun _ s' => pendingNeed s ≤ N ∧ HEx s' allClosed ∧
        s'.maxHeightSeen = max s.maxHeightSeen (pendingNeed s : Int))
      (fun s' => N < pendingNeed s ∧ s'.maxHeightSeen = (N : Int) + 1 ∧ s'.status = s.status) := by
  unfold addNewObservers
  refine Out.bind_get ?_
  refine Out.bind_modify (fun s0 hs0 => ?_)
  have I0 : SInv env s0 s.newObservers s.disallowedObservers := by
    rw [hs0]; exact sInv_congr I rfl rfl rfl rfl rfl rfl rfl
  have hb0 : HEx s0 allClosed := by
    rw [hs0]; exact hb.transfer (fun _ => rfl) (Int.le_refl _) (fun m hm ho => ⟨hm, ho, rfl⟩)
  have hstat0 : s0.status = s.status := by rw [hs0]
  have R0 : RoomH N s0 := by rw [hs0]; exact ⟨R.ahh, R.rch, R.seen, R.seen0⟩
  have hobs0 : s0.observers = s.observers := by rw [hs0]
  have hseen0 : s0.maxHeightSeen = s.maxHeightSeen := by rw [hs0]
  have hkind0 : ∀ m, (s0.nodeD m).kind = (s.nodeD m).kind := by intro m; rw [hs0]; rfl
  have hneed0 : ∀ l, needsOf s0 l = needsOf s l := by
    intro l
    have : obsNeed s0 = obsNeed s := by
      funext o; simp only [obsNeed, hobs0, needH_congr hkind0]
    unfold needsOf; rw [this]
  rw [show pendingNeed s = lmax (needsOf s0 s.newObservers) by rw [hneed0]; rfl]
  refine Out.bind (forIn_out _ s.newObservers
    (fun j (_ : PUnit) t => SInv env t (s.newObservers.drop j) s.disallowedObservers ∧
      t.nodes.size = s.nodes.size ∧ HEx t allClosed ∧ RoomH N t ∧
      (∀ (o : Nat) (ob : ObsRec), o ∈ s.newObservers.drop j → t.observers[o]? = some ob →
        ob.state = .created ∨ ob.state = .unlinked) ∧
      (∀ o, o ∈ s.newObservers.drop j → t.observers[o]? = s0.observers[o]?) ∧
      PFrame s0 t ∧
      lmax (needsOf s0 (s.newObservers.take j)) ≤ N ∧
      t.maxHeightSeen = max s0.maxHeightSeen (lmax (needsOf s0 (s.newObservers.take j)) : Int))
    (fun s' => N < lmax (needsOf s0 s.newObservers) ∧ s'.maxHeightSeen = (N : Int) + 1 ∧
      s'.status = s.status) ?_ _ _
    ⟨by rw [List.drop_zero]; exact I0, by rw [hs0], hb0, R0, by rw [List.drop_zero, hobs0]; exact hst,
      fun _ _ => rfl, PFrame.refl _, by simp [needsOf_nil, lmax_nil],
      by simp only [List.take_zero, needsOf_nil, lmax_nil]; have := R0.seen0; omega⟩) ?_
  · intro j o b t hj ⟨It, hsz, hbt, Rt, hpt, hrec, hfr, hmaxN, hseen⟩
    have hndj : (o :: s.newObservers.drop (j + 1)).Nodup := by
      rw [← drop_of_getElem? hj]; exact List.Nodup.sublist (List.drop_sublist _ _) hnd
    rw [drop_of_getElem? hj] at It hpt hrec
    obtain ⟨ob, hob⟩ := It.obs.newIn o (List.mem_cons_self ..)
    have hob0 : s0.observers[o]? = some ob := by rw [← hrec o (List.mem_cons_self ..)]; exact hob
    have hkind : ∀ m, (t.nodeD m).kind = (s0.nodeD m).kind := PFrame.kind hfr
    have hstat : t.status = s.status := by
      have hk := hfr.key
      simp only [stateKeyP, Prod.mk.injEq] at hk
      rw [hk.2.2.1, hstat0]
    have hh : ob.handlers = [] := (It.obs.inRange o ob hob).2
    have hn : ob.node < t.nodes.size := (It.obs.inRange o ob hob).1
    have htake : s.newObservers.take (j + 1) = s.newObservers.take j ++ [o] := by
      rw [List.take_add_one, hj]; rfl
    have hmemo : o ∈ s.newObservers := List.mem_of_getElem? hj
    refine P4.Out.bind_getObs hob ?_
    rcases hpt o ob (List.mem_cons_self ..) hob with hc | hu
    · rw [hc]
      dsimp only
      have hnd1 : needsOf s0 [o] = [needH s0 ob.node] := needsOf_single_created hob0 hc
      have hneedt : needH t ob.node = needH s0 ob.node := needH_congr hkind _
      have hmem : needH s0 ob.node ∈ needsOf s0 s.newObservers :=
        mem_needsOf.2 ⟨o, ob, hmemo, hob0, hc, rfl⟩
      refine P4.Out.bind_modObs ?_
      refine Out.bind_get ?_
      refine Out.bind_modify (fun u1 hu1 => ?_)
      refine Out.bind_modNode (fun u2 hu2 => ?_)
      have e2 : u2 = obsAdded o ob.node ((ob.handlers.length : Nat) : Int) t := by rw [hu2, hu1]; rfl
      rw [e2, hh, List.length_nil]
      obtain ⟨t4, h4⟩ := Quiet.P23.has_ok (n := ob.node) (s := obsAdded o ob.node ((0 : Nat) : Int) t)
        (by rw [(obsAdded_upd (o := o) (k := ((0 : Nat) : Int)) hn).size]; exact hn)
      obtain ⟨hnec4, T⟩ := P4.add_tail_out (env := env) (fuel := fuel) It hob hbt Rt
        (by rw [hsz]; exact hf) h4
      refine Out.bind_ok h4 ?_
      refine Out.bind_get ?_
      refine Out.bind_dassert (fun _ => hnec4) ?_
      rw [hneedt] at T
      rcases T with ⟨r, t', hrun, q1, q2, q3⟩ | ⟨t', hrun, p1, p2, p3⟩
      · obtain ⟨hr, I', R', -⟩ := add_created (was := t.isNecessary ob.node) It hob hc rfl h4 hrun
        have S := Quiet.P23.add_created_obs (was := t.isNecessary ob.node) It hob rfl h4 hrun
        have hlm : lmax (needsOf s0 (s.newObservers.take (j + 1))) =
            max (lmax (needsOf s0 (s.newObservers.take j))) (needH s0 ob.node) := by
          rw [htake, needsOf_append, lmax_append, hnd1, lmax_cons, lmax_nil]; omega
        refine Out.of_ok hrun ⟨_, hr, I', R'.frame.size.trans hsz, q2,
          P4.roomH_of_pframe Rt R'.frame (by rw [q3]; omega) (by rw [q3]; have := Rt.seen; omega),
          Quiet.P23.pending_step S (List.nodup_cons.1 hndj).1 hpt, ?_, ?_, ?_, ?_⟩
        · intro o' ho'
          have e : o' ≠ o := fun e => (List.nodup_cons.1 hndj).1 (e ▸ ho')
          rw [S.other o' e]; exact hrec o' (List.mem_cons_of_mem _ ho')
        · exact hfr.trans R'.frame
        · rw [hlm]; omega
        · rw [q3, hseen, hlm]; omega
      · exact Out.of_err hrun ⟨Nat.lt_of_lt_of_le p1 (le_lmax hmem), p2, p3.trans hstat⟩
    · rw [hu]
      dsimp only
      have hnd1 : needsOf s0 [o] = [] := needsOf_single_other hob0 (by rw [hu]; exact fun e => by cases e)
      have hlm : lmax (needsOf s0 (s.newObservers.take (j + 1))) =
          lmax (needsOf s0 (s.newObservers.take j)) := by
        rw [htake, needsOf_append, hnd1, List.append_nil]
      exact Out.pure ⟨_, rfl, ⟨It.struct, obsInv_skip_step It.obs hob (by rw [hu]; exact fun e => by cases e),
        It.pinv, It.handlers⟩, hsz, hbt, Rt, fun o' ob' ho' h' => hpt o' ob' (List.mem_cons_of_mem _ ho') h',
        fun o' ho' => hrec o' (List.mem_cons_of_mem _ ho'), hfr, by rw [hlm]; exact hmaxN,
        by rw [hlm]; exact hseen⟩
  · intro _ s1 _ ⟨_, _, hb1, _, _, _, _, hmN, hseen1⟩
    rw [List.take_length] at hmN hseen1
    exact Out.pure ⟨hmN, hb1, by rw [hseen1, hseen0]⟩

/-- the exact heights through a step under which necessity shrinks and necessary nodes keep their height -/
theorem hex_of_necH {s s' : State} {op op' : Nat → Op} (hb : HEx s op) (h : Quiet.P22.NecH s s')
    (hk : ∀ m, (s'.nodeD m).kind = (s.nodeD m).kind) (hs : s'.maxHeightSeen = s.maxHeightSeen)
    (hop : ∀ m, op' m = .closed → s.isNecessary m = true → op m = .closed) : HEx s' op' := by
  refine hb.transfer hk (by rw [hs]; exact Int.le_refl _) (fun m hm ho => ?_)
  obtain ⟨hm0, hh⟩ := h m hm
  exact ⟨hm0, hop m ho hm0, hh⟩

/-- **the unlinking cascade returns**, keeps the exact heights, and sets no (non-negative) height -/
theorem checkIfUnnecessary_totalH {env : Env} {fuel c : Nat} {s : State} {op : Nat → Op}
    (I : GInv env s op) (hb : HEx s op) (h0 : 0 ≤ s.maxHeightSeen) (hlow : ∀ m, op m ≠ .closed → c ≤ m)
    (hcase : (s.isNecessary c = true ∧ op c = .closed) ∨ (s.isNecessary c = false ∧ op c = .unlinking 0))
    (hf : 3 * c + 3 ≤ fuel) :
    Tot (checkIfUnnecessary fuel c) s (fun _ s' => HEx s' (upd op c .closed) ∧
      s'.maxHeightSeen = s.maxHeightSeen) := by
  obtain ⟨u, s', hrun, Nh⟩ := (Quiet.P22.unlink_tot fuel).2.1 env c s op I hlow hcase hf
  have hs := checkIfUnnecessary_seen hrun h0
  have F : CFrame s s' := (PresF.checkIfUnnecessary fuel c).h s _ s' hrun
  refine ⟨u, s', hrun, hex_of_necH hb Nh F.kind hs (fun m ho hm => ?_), hs⟩
  by_cases e : m = c
  · rw [e] at hm ⊢
    rcases hcase with ⟨_, h⟩ | ⟨h, _⟩
    · exact h
    · rw [h] at hm; cases hm
  · rw [upd_other _ _ _ e] at ho; exact ho

/-- `unlink_disallowed_observers` returns, keeps the exact heights, and sets no height -/
theorem unlinkDisallowedObservers_totalH {env : Env} {fuel : Nat} {s : State}
    (I : SInv env s [] s.disallowedObservers) (_hn : s.newObservers = []) (hb : HEx s allClosed)
    (h0 : 0 ≤ s.maxHeightSeen) (hf : 3 * s.nodes.size + 3 ≤ fuel) :
    Tot (unlinkDisallowedObservers fuel) s (fun _ s' => HEx s' allClosed ∧
      s'.maxHeightSeen = s.maxHeightSeen) := by
  unfold unlinkDisallowedObservers
  refine Tot.bind_get ?_
  refine Tot.bind_modify ?_
  have I0 : SInv env { s with disallowedObservers := [] } [] s.disallowedObservers :=
    sInv_congr I rfl rfl rfl rfl rfl rfl rfl
  have hb0 : HEx { s with disallowedObservers := [] } allClosed :=
    hb.transfer (fun _ => rfl) (Int.le_refl _) (fun m hm ho => ⟨hm, ho, rfl⟩)
  refine Tot.bind (Quiet.P23.forIn_tot' _ _
    (fun j (_ : PUnit) t => SInv env t [] (s.disallowedObservers.drop j) ∧ t.nodes.size = s.nodes.size ∧
      HEx t allClosed ∧ t.maxHeightSeen = s.maxHeightSeen) ?_ _ _
      ⟨by rw [List.drop_zero]; exact I0, rfl, hb0, rfl⟩) ?_
  · intro j o b t hj ⟨It, hsz, hbt, hseen⟩
    rw [drop_of_getElem? hj] at It
    obtain ⟨ob, hob⟩ := It.obs.disIn o (List.mem_cons_self ..)
    have hstd : ob.state = .disallowed := (It.obs.dis o ob hob).2 (List.mem_cons_self ..)
    have hh : ob.handlers = [] := (It.obs.inRange o ob hob).2
    have hn : ob.node < t.nodes.size := (It.obs.inRange o ob hob).1
    refine Quiet.P23.Tot.bind_getObs hob ?_
    refine Tot.bind_dassert (fun _ => by rw [hstd]; rfl) ?_
    refine Quiet.P23.Tot.bind_modObs ?_
    refine Tot.bind_modNode ?_
    refine Tot.bind_modify ?_
    change Tot _ (obsRemoved o ob.node ((ob.handlers.length : Nat) : Int) t) _
    rw [hh, List.length_nil]
    have hmem : o ∈ (t.nodeD ob.node).observers := (It.obs.mem ob.node o).2 ⟨ob, hob, rfl, Or.inr hstd⟩
    have hnec : t.isNecessary ob.node = true :=
      (isNecessary_iff t ob.node).2 (Or.inr (Or.inl (List.ne_nil_of_mem hmem)))
    have U3 : NodeUpd ob.node (fObservers ((t.nodeD ob.node).observers.filter (· != o))) t
        (obsRemoved o ob.node ((0 : Nat) : Int) t) := obsRemoved_upd hn
    have hs3 : (obsRemoved o ob.node ((0 : Nat) : Int) t).maxHeightSeen = t.maxHeightSeen := rfl
    have h03 : 0 ≤ (obsRemoved o ob.node ((0 : Nat) : Int) t).maxHeightSeen := by rw [hs3, hseen]; exact h0
    obtain ⟨H1, H2⟩ := GInv.remObs It.struct U3 rfl hnec
    have hfuel : 3 * ob.node + 3 ≤ fuel := by omega
    have T : Tot (checkIfUnnecessary fuel ob.node) (obsRemoved o ob.node ((0 : Nat) : Int) t)
        (fun _ s' => HEx s' allClosed ∧
          s'.maxHeightSeen = (obsRemoved o ob.node ((0 : Nat) : Int) t).maxHeightSeen) := by
      cases hnc : (obsRemoved o ob.node ((0 : Nat) : Int) t).isNecessary ob.node with
      | true =>
        have T := checkIfUnnecessary_totalH (H1 hnc)
          (P4.hex_upd hbt U3 hs3 (fun _ _ h => h) (fun _ _ => ⟨hnec, rfl⟩)) h03 (allClosed_low _)
          (Or.inl ⟨hnc, rfl⟩) hfuel
        rw [upd_eq_self allClosed _ .closed rfl] at T; exact T
      | false =>
        have T := checkIfUnnecessary_totalH (H2 hnc)
          (P4.hex_upd hbt U3 hs3 (fun _ _ _ => rfl) (fun h _ => by rw [hnc] at h; cases h)) h03
          (by
            intro m hm
            by_cases e : m = ob.node
            · omega
            · rw [upd_other _ _ _ e] at hm; exact absurd rfl hm)
          (Or.inr ⟨hnc, upd_self _ _ _⟩) hfuel
        rw [upd_upd, upd_eq_self allClosed _ .closed rfl] at T; exact T
    obtain ⟨u, t', hrun, hb', hs'⟩ := T
    obtain ⟨I', R'⟩ := unlink_iter It hob hrun
    exact Tot.bind_ok hrun (Tot.pure ⟨_, rfl, I', by rw [R'.frame.size]; exact hsz, hb',
      by rw [hs', hs3]; exact hseen⟩)
  · intro _ s1 _ ⟨_, _, hb1, hs1⟩
    exact Tot.pure ⟨hb1, hs1⟩

end IncrVerif.Proofs.HeightH
