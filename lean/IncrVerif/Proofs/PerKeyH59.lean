import IncrVerif.Proofs.PerKeyH35
/-!
# A run of a per-key change detector, part 2c: template elaboration on the ACTUAL state and on its twin
(`elabTemplateBase_shape`: MC4 without `Mid`, plus the twin run), `inst_below`
-/
namespace IncrVerif.Proofs.PerKeyH
open IncrVerif.Engine IncrVerif.Driver IncrVerif.Proofs IncrVerif.Proofs.Step IncrVerif.Proofs.Sched
open IncrVerif.Proofs.ExpertH IncrVerif.Proofs.EffH IncrVerif.Proofs.DriverH IncrVerif.Proofs.ExpertH.QR

/-! ## forward runs -/

theorem run_resolve {loc : List Nat} {o : Opnd} {c : Nat} (t : State) (h : resP t.top loc o = some c) :
    (resolveOpnd loc o).run.run t = (.ok c, t) := by
  cases o with
  | outer k =>
    unfold resolveOpnd
    simp only
    rw [run_bind_get]
    have h : t.top[k]? = some c := h
    rw [h]; rfl
  | loc i =>
    unfold resolveOpnd
    simp only
    have h : loc[i]? = some c := h
    rw [h]; rfl
  | abs _ => cases h
  | slot _ => cases h

theorem run_mapM_resolve {loc : List Nat} (t : State) :
    ∀ (l : List Opnd) (r : List Nat), l.mapM (resP t.top loc) = some r →
      (l.mapM (fun o => resolveOpnd loc o)).run.run t = (.ok r, t) ∧ r.length = l.length := by
  intro l
  induction l with
  | nil =>
    intro r h
    rw [List.mapM_nil] at h
    cases h
    exact ⟨by rw [List.mapM_nil]; rfl, rfl⟩
  | cons a l ih =>
    intro r h
    rw [List.mapM_cons] at h
    cases hk : resP t.top loc a with
    | none => rw [hk] at h; cases h
    | some x =>
      cases hxs : l.mapM (resP t.top loc) with
      | none => rw [hk, hxs] at h; cases h
      | some xs =>
        rw [hk, hxs] at h
        cases h
        obtain ⟨h1, h2⟩ := ih xs hxs
        refine ⟨?_, by simp [h2]⟩
        rw [List.mapM_cons, run_bind_ok (run_resolve t hk), run_bind_ok h1]
        rfl

theorem run_some_createNode_top (k : Kind) (t : State) :
    (some <$> createNode k .top).run.run t = (.ok (some t.nodes.size), mkNode k t) := by
  rw [map_eq_pure_bind, run_bind_ok (run_createNode_top k t)]; rfl

/-- the forward run of one instruction of the fragment -/
theorem elabInstr_fwd {E' : Env} {t : State} {loc : List Nat} {lhsVal : Val} {i : Instr} {k : Kind}
    (hsc : t.currentScope = .top) (hi : TInstrOK E' i) (hk : instrKind t.top loc lhsVal i = some k) :
    (elabInstr loc lhsVal i).run.run t = (.ok (some t.nodes.size), mkNode k t) := by
  cases i with
  | const w =>
    cases hk
    unfold elabInstr
    rw [run_bind_get]
    simp only [hsc]
    exact run_some_createNode_top _ t
  | lhsConst =>
    cases hk
    unfold elabInstr
    rw [run_bind_get]
    simp only [hsc]
    exact run_some_createNode_top _ t
  | map f args =>
    simp only [instrKind] at hk
    cases has : args.mapM (resP t.top loc) with
    | none => rw [has] at hk; cases hk
    | some as =>
      rw [has] at hk
      cases hk
      unfold elabInstr
      rw [run_bind_get]
      simp only [hsc]
      rw [run_bind_ok (run_mapM_resolve t args as has).1]
      exact run_some_createNode_top _ t
  | fold f init cs =>
    have hcs : cs ≠ [] := hi.2
    have hne' : cs.isEmpty = false := by
      cases cs with
      | nil => exact absurd rfl hcs
      | cons _ _ => rfl
    simp only [instrKind, hne', Bool.false_eq_true, if_false] at hk
    cases has : cs.mapM (resP t.top loc) with
    | none => rw [has] at hk; cases hk
    | some as =>
      rw [has] at hk
      cases hk
      obtain ⟨h1, hlen⟩ := run_mapM_resolve t cs as has
      have hne : as.isEmpty = false := by
        cases as with
        | nil => cases cs with
          | nil => exact absurd rfl hcs
          | cons _ _ => simp at hlen
        | cons _ _ => rfl
      unfold elabInstr
      rw [run_bind_get]
      simp only [hsc]
      rw [run_bind_ok h1]
      simp only [hne, Bool.false_eq_true, if_false]
      exact run_some_createNode_top _ t
  | _ => exact hi.elim

/-! ## one instruction, inverted (MC4 `elabInstr_inv` without `Mid`) -/

theorem elabInstr_shape {E' : Env} {t1 t2 : State} {loc : List Nat} {lhsVal : Val} {i : Instr} {ro : Option Nat}
    (hsc : t1.currentScope = .top) (hi : TInstrOK E' i) (hop : ∀ o, o ∈ instrOpnds i → OpndP o)
    (h : (elabInstr loc lhsVal i).run.run t1 = (.ok ro, t2)) :
    ∃ k, instrKind t1.top loc lhsVal i = some k ∧ ro = some t1.nodes.size ∧ t2 = mkNode k t1 ∧ twKind k = k := by
  cases i with
  | const w =>
    unfold elabInstr at h
    rw [run_bind_get] at h
    simp only [hsc] at h
    rw [run_some_createNode_top] at h
    cases h
    exact ⟨.const w, rfl, rfl, rfl, rfl⟩
  | lhsConst =>
    unfold elabInstr at h
    rw [run_bind_get] at h
    simp only [hsc] at h
    rw [run_some_createNode_top] at h
    cases h
    exact ⟨.const lhsVal, rfl, rfl, rfl, rfl⟩
  | map f args =>
    unfold elabInstr at h
    rw [run_bind_get] at h
    simp only [hsc] at h
    obtain ⟨as, t3, h1, h2⟩ := bind_ok_inv h
    obtain ⟨et, has, -, -⟩ := mapM_resolve_inv args as t3 hop h1
    rw [et, run_some_createNode_top] at h2
    cases h2
    have hf : f < fnZip := hi.1
    refine ⟨.map f as, ?_, rfl, rfl, twKind_small (Nat.lt_trans hf fnZip_lt_fnPerKey)⟩
    simp only [instrKind, has, Option.map_some]
  | fold f init cs =>
    unfold elabInstr at h
    rw [run_bind_get] at h
    simp only [hsc] at h
    obtain ⟨as, t3, h1, h2⟩ := bind_ok_inv h
    obtain ⟨et, has, hlen, -⟩ := mapM_resolve_inv cs as t3 hop h1
    rw [et] at h2
    have hcs : cs ≠ [] := hi.2
    have hne : as.isEmpty = false := by
      cases as with
      | nil => cases cs with
        | nil => exact absurd rfl hcs
        | cons _ _ => simp at hlen
      | cons _ _ => rfl
    have hne' : cs.isEmpty = false := by
      cases cs with
      | nil => exact absurd rfl hcs
      | cons _ _ => rfl
    rw [hne] at h2
    simp only [Bool.false_eq_true, if_false] at h2
    rw [run_some_createNode_top] at h2
    cases h2
    refine ⟨.fold f init as, ?_, rfl, rfl, rfl⟩
    simp only [instrKind, hne', Bool.false_eq_true, if_false, has, Option.map_some]
  | _ => exact hi.elim

theorem twL_mkNode (l : List Event) {k : Kind} (t : State) (hk : twKind k = k) :
    twL l (mkNode k t) = mkNode k (twL l t) := by
  rw [mkNode_eq_crState, twL_crState, hk]; rfl

/-- the same instruction runs on the twin, with the same result -/
theorem elabInstr_tw {E' : Env} {t1 t2 : State} {loc : List Nat} {lhsVal : Val} {i : Instr} {ro : Option Nat}
    (hsc : t1.currentScope = .top) (hi : TInstrOK E' i) (hop : ∀ o, o ∈ instrOpnds i → OpndP o)
    (h : (elabInstr loc lhsVal i).run.run t1 = (.ok ro, t2)) :
    t2.currentScope = .top ∧ ∀ l, (elabInstr loc lhsVal i).run.run (twL l t1) = (.ok ro, twL l t2) := by
  obtain ⟨k, hk, e1, e2, htw⟩ := elabInstr_shape hsc hi hop h
  subst e1; subst e2
  refine ⟨hsc, fun l => ?_⟩
  rw [twL_mkNode l t1 htw, ← twL_size l t1]
  exact elabInstr_fwd (E' := E') (t := twL l t1) hsc hi hk

/-! ## a loop on the twin -/

theorem forIn_tw {α β : Type} (f : α → β → M (ForInStep β)) (P : State → Prop) :
    ∀ (xs : List α),
    (∀ a b t r t', a ∈ xs → P t → (f a b).run.run t = (.ok r, t') →
      P t' ∧ ∀ l, (f a b).run.run (twL l t) = (.ok r, twL l t')) →
    ∀ (b : β) (t : State) (r : β) (t' : State), P t → (forIn xs b f).run.run t = (.ok r, t') →
      P t' ∧ ∀ l, (forIn xs b f).run.run (twL l t) = (.ok r, twL l t') := by
  intro xs
  induction xs with
  | nil =>
    intro _ b t r t' hP h
    rw [List.forIn_nil] at h ⊢
    obtain ⟨e1, e2⟩ := pure_ok_inv h
    subst e1; subst e2
    exact ⟨hP, fun l => rfl⟩
  | cons a xs ih =>
    intro hstep b t r t' hP h
    rw [List.forIn_cons] at h
    obtain ⟨r1, t1, h1, h2⟩ := bind_ok_inv h
    obtain ⟨hP1, htw1⟩ := hstep a b t r1 t1 (List.mem_cons_self ..) hP h1
    cases r1 with
    | done b' =>
      obtain ⟨e1, e2⟩ := pure_ok_inv h2
      subst e1; subst e2
      refine ⟨hP1, fun l => ?_⟩
      rw [List.forIn_cons, run_bind_ok (htw1 l)]; rfl
    | yield b' =>
      obtain ⟨hP2, htw2⟩ := ih (fun a' b t r t' ha' => hstep a' b t r t' (List.mem_cons_of_mem _ ha')) b' t1 r t' hP1 h2
      refine ⟨hP2, fun l => ?_⟩
      rw [List.forIn_cons, run_bind_ok (htw1 l)]
      exact htw2 l

/-! ## the loop (MC4 `TI` without `Mid`) -/

/-- the state `t1` after `j` instructions of the template `tm`, elaborated from `t` with first local `p` -/
structure TJ (t : State) (p : Nat) (lhsVal : Val) (tm : Template) (j : Nat) (loc : List Nat) (t1 : State) : Prop where
  size : t1.nodes.size = t.nodes.size + j
  loc : loc = p :: List.range' t.nodes.size j
  /-- only `nodes` and `counters` change -/
  rest : ({ t1 with nodes := t.nodes, counters := t.counters } : State) = t
  old : ∀ m, m < t.nodes.size → t1.nodeD m = t.nodeD m
  new : ∀ j' i, j' < j → tm.instrs[j']? = some i →
    ∃ k, instrKind t.top (p :: List.range' t.nodes.size j') lhsVal i = some k ∧
      t1.nodeD (t.nodes.size + j') = { kind := k, createdIn := .top }

namespace TJ
variable {t t1 : State} {p : Nat} {lhsVal : Val} {tm : Template} {j : Nat} {loc : List Nat}

theorem top (L : TJ t p lhsVal tm j loc t1) : t1.top = t.top := by
  have h := congrArg State.top L.rest; exact h
theorem scope (L : TJ t p lhsVal tm j loc t1) : t1.currentScope = t.currentScope := by
  have h := congrArg State.currentScope L.rest; exact h

theorem refl : TJ t p lhsVal tm 0 [p] t :=
  ⟨rfl, rfl, rfl, fun _ _ => rfl, fun _ _ h => absurd h (Nat.not_lt_zero _)⟩

theorem step (L : TJ t p lhsVal tm j loc t1) {E' : Env} (hT : TemplOK E' tm) (hsc : t.currentScope = .top)
    {i : Instr} (hj : tm.instrs[j]? = some i) {ro : Option Nat} {t2 : State}
    (h : (elabInstr loc lhsVal i).run.run t1 = (.ok ro, t2)) :
    ro = some t1.nodes.size ∧ TJ t p lhsVal tm (j + 1) (loc ++ [t1.nodes.size]) t2 := by
  have him : i ∈ tm.instrs := List.mem_of_getElem? hj
  obtain ⟨k, hk, e, et, -⟩ := elabInstr_shape (L.scope.trans hsc) (hT.instr i him)
    (fun o ho => (hT.opnd j i hj o ho).p) h
  refine ⟨e, ?_⟩
  subst et
  refine ⟨by rw [mkNode_size, L.size]; omega, ?_, L.rest, fun m hm => ?_, fun j' i' hj' hi' => ?_⟩
  · rw [L.loc, L.size, List.range'_1_concat]; rfl
  · rw [mkNode_nodeD_lt k t1 (by rw [L.size]; omega)]; exact L.old m hm
  · by_cases hjj : j' < j
    · obtain ⟨k', h1, h2⟩ := L.new j' i' hjj hi'
      refine ⟨k', h1, ?_⟩
      rw [mkNode_nodeD_lt k t1 (by rw [L.size]; omega)]; exact h2
    · have ej : j' = j := by omega
      subst ej
      rw [hj] at hi'
      cases hi'
      refine ⟨k, ?_, ?_⟩
      · rw [← L.top, ← L.loc]; exact hk
      · rw [← L.size]; exact mkNode_nodeD_new k t1

end TJ

/-- **template elaboration on an arbitrary state (scope top) and on its twin** -/
theorem elabTemplateBase_shape {env : Env} {tm : Template} {key : Int} {p m : Nat} {σ σ' : State}
    (hT : TemplOK env tm) (hsc : σ.currentScope = .top)
    (h : (elabTemplateBase tm (.int key) [p]).run.run σ = (.ok m, σ')) :
    σ'.nodes.size = σ.nodes.size + tm.instrs.length ∧
    ({ σ' with nodes := σ.nodes, counters := σ.counters } : State) = σ ∧
    (∀ k, k < σ.nodes.size → σ'.nodeD k = σ.nodeD k) ∧
    (∀ j i, tm.instrs[j]? = some i → ∃ k,
      instrKind σ.top (p :: (List.range' σ.nodes.size tm.instrs.length).take j) (.int key) i = some k ∧
      σ'.nodeD (σ.nodes.size + j) = { kind := k, createdIn := .top }) ∧
    resP σ.top (p :: List.range' σ.nodes.size tm.instrs.length) tm.ret = some m ∧
    ∀ l, ∃ l', (elabTemplateBase tm (.int key) [p]).run.run (twL l σ) = (.ok m, twL l' σ') := by
  unfold elabTemplateBase at h
  obtain ⟨loc, t1, h1, h2⟩ := bind_ok_inv h
  have hloop := QR.forIn_ok_inv _ tm.instrs (fun j loc t1 => TJ σ p (.int key) tm j loc t1) ?_ tm.instrs 0 [p] σ
    loc t1 rfl (Nat.zero_le _) TJ.refl h1
  · have hloop : TJ σ p (.int key) tm tm.instrs.length loc t1 := hloop
    obtain ⟨et, hk⟩ := resolve_inv hT.ret.p h2
    subst et
    have hk1 := hk
    rw [hloop.top, hloop.loc] at hk
    refine ⟨hloop.size, hloop.rest, hloop.old, fun j i hj => ?_, hk, fun l => ⟨l, ?_⟩⟩
    · have hlt : j < tm.instrs.length := by
        rcases Nat.lt_or_ge j tm.instrs.length with h | h
        · exact h
        · rw [List.getElem?_eq_none h] at hj; cases hj
      obtain ⟨k, h1, h2⟩ := hloop.new j i hlt hj
      have ht : (List.range' σ.nodes.size tm.instrs.length).take j = List.range' σ.nodes.size j :=
        List.take_range'_of_length_ge (Nat.le_of_lt hlt)
      rw [ht]
      exact ⟨k, h1, h2⟩
    · -- the twin run
      have htwAll := forIn_tw _ (fun t => t.currentScope = .top) tm.instrs ?_ [p] σ loc σ' hsc h1
      · refine (run_bind_ok (htwAll.2 l)).trans ?_
        exact run_resolve (twL l σ') hk1
      · intro a b t r t' ha hP hrun
        obtain ⟨ro, t2, h3, h4⟩ := bind_ok_inv hrun
        have hop : ∀ o, o ∈ instrOpnds a → OpndP o := by
          obtain ⟨j, hj⟩ := List.getElem?_of_mem ha
          exact fun o ho => (hT.opnd j a hj o ho).p
        obtain ⟨hP2, htw2⟩ := elabInstr_tw hP (hT.instr a ha) hop h3
        cases ro with
        | none =>
          simp only at h4
          obtain ⟨e1, e2⟩ := pure_ok_inv h4
          subst e1; subst e2
          refine ⟨hP2, fun l => ?_⟩
          refine (run_bind_ok (htw2 l)).trans ?_
          rfl
        | some n =>
          simp only at h4
          obtain ⟨e1, e2⟩ := pure_ok_inv h4
          subst e1; subst e2
          refine ⟨hP2, fun l => ?_⟩
          refine (run_bind_ok (htw2 l)).trans ?_
          rfl
  · intro j a loc0 t0 r t0' hj hL hrun
    have hL : TJ σ p (.int key) tm j loc0 t0 := hL
    obtain ⟨ro, t2, h3, h4⟩ := bind_ok_inv hrun
    obtain ⟨e, hL'⟩ := hL.step hT hsc hj h3
    subst e
    simp only at h4
    obtain ⟨e1, e2⟩ := pure_ok_inv h4
    subst e2
    exact ⟨_, e1, hL'⟩

/-- the new nodes are an instance of the template in the new state -/
theorem elabTemplateBase_shape_inst {env : Env} {tm : Template} {key : Int} {p m : Nat} {σ σ' : State}
    (hT : TemplOK env tm) (hsc : σ.currentScope = .top)
    (h : (elabTemplateBase tm (.int key) [p]).run.run σ = (.ok m, σ')) :
    Inst σ' tm key p (List.range' σ.nodes.size tm.instrs.length) m := by
  obtain ⟨hsz, hrest, -, hk, hret, -⟩ := elabTemplateBase_shape hT hsc h
  have htop : σ'.top = σ.top := by have h := congrArg State.top hrest; exact h
  refine ⟨List.length_range', fun c hc => ?_, fun j i c hj hc => ?_, by rw [htop]; exact hret⟩
  · have := List.mem_range'_1.1 hc; omega
  · have hlt : j < tm.instrs.length := by
      rcases Nat.lt_or_ge j tm.instrs.length with h | h
      · exact h
      · rw [List.getElem?_eq_none h] at hj; cases hj
    rw [List.getElem?_range' hlt] at hc
    cases hc
    rw [htop, Nat.one_mul]
    obtain ⟨k, h1, h2⟩ := hk j i hj
    rw [h2]; exact h1

end IncrVerif.Proofs.PerKeyH
