import IncrVerif.Proofs.FullH46
import IncrVerif.Proofs.TidyH1
import IncrVerif.Proofs.BindH13
/-!
# C02, combined fragment, part 2: AT MOST ONCE in the drain

`Sched.drain_once` / `BindH.drain_onceB` redone over the drain invariant `FullH.DInvF` of the combined fragment (binds incl. nested + map_ref + map_with_old +
depend_on + cutoffs eq/never).  The ghost of `DInvF` changes from step to step, so the conclusion is bundled (`RunF`): the invariant at the end (for some ghost),
the progress frame of the virtual states, NO DUPLICATES in the list of nodes handed to `recomputeOne` (`TidyH.drainSteps`, whose first components are
`Sched.drainTrace`), each of them `BindH.RanOnceB` (not yet stamped before, stamped and STILL VALID at the end: no node of a generation that dies in this drain
ran in it), and every step happens in a state that satisfies the invariant with that node as the current node (so the node is necessary, valid, not queued and
`recomputedAt < stabNum` at that moment: `BindH.DInv.cur_facts`).
-/
namespace IncrVerif.Proofs.OnceF
open IncrVerif.Engine IncrVerif.Driver IncrVerif.Proofs IncrVerif.Proofs.Step IncrVerif.Proofs.Sched IncrVerif.Proofs.Quiet
open IncrVerif.Proofs.FullH IncrVerif.Proofs.TidyH
open IncrVerif.Proofs.BindH (DInv FrameB RanOnceB)

/-- the conclusions about a run `s → s'` of the drain (or of a direct-recompute chain) with steps `l` -/
structure RunF (env : Env) (sp : Nat → Val → Val) (t : State) (l : List (Nat × State)) (s : State) (g : Nat → Option Val)
    (s' : State) (g' : Nat → Option Val) : Prop where
  inv : DInvF env sp t s' g' none
  fr : FrameB (virt g s) (virt g' s')
  nodup : (l.map (·.1)).Nodup
  once : ∀ m, m ∈ l.map (·.1) → RanOnceB (virt g s) (virt g' s') m
  /-- every step happens in a state with the invariant (for some ghost), reached from `s` -/
  steps : ∀ p, p ∈ l → ∃ gp, DInvF env sp t p.2 gp (some p.1) ∧ FrameB (virt g s) (virt gp p.2)

section
variable {env : Env} {sp : Nat → Val → Val}

theorem chain_onceF (X : Kit env sp) : ∀ (fuel n : Nat) (t s s' : State) (g : Nat → Option Val),
    DInvF env sp t s g (some n) → (recompute env fuel n).run.run s = (.ok (), s') →
    ∃ g', RunF env sp t (chainSteps env fuel n s) s g s' g' := by
  intro fuel
  induction fuel with
  | zero => intro n t s s' g _ h; unfold recompute at h; cases h
  | succ fuel ih =>
    intro n t s s' g D h
    unfold recompute at h
    obtain ⟨r, s1, h1, h2⟩ := bind_ok_inv h
    obtain ⟨g1, D1, f1, hn1, hv1⟩ := recomputeOne_full X D h1
    have hn0 : ((virt g s).nodeD n).recomputedAt < (virt g s).stabNum := D.inv.cur_facts.2.2.2.2
    have hn1' : ((virt g1 s1).nodeD n).recomputedAt = (virt g s).stabNum := hn1
    unfold chainSteps
    rw [h1]
    cases r with
    | none =>
      obtain ⟨-, rfl⟩ := pure_ok_inv h2
      refine ⟨g1, D1, f1, by simp, ?_, ?_⟩
      · intro m hm
        simp only [List.map_cons, List.map_nil, List.mem_singleton] at hm
        subst hm
        exact ⟨hn0, hn1', hv1⟩
      · intro p hp
        simp only [List.mem_singleton] at hp
        subst hp
        exact ⟨g, D, FrameB.refl _⟩
    | some p =>
      obtain ⟨g2, R⟩ := ih p t s1 s' g1 D1 h2
      have hnot : n ∉ (chainSteps env fuel p s1).map (·.1) := by
        intro hmem
        have := (R.once n hmem).1
        rw [f1.stabNum] at this
        omega
      refine ⟨g2, R.inv, f1.trans R.fr, ?_, ?_, ?_⟩
      · simp only [List.map_cons]
        exact List.nodup_cons.2 ⟨hnot, R.nodup⟩
      · intro m hm
        simp only [List.map_cons] at hm
        rcases List.mem_cons.1 hm with rfl | hm
        · exact RanOnceB.extend_right R.fr f1.stabNum ⟨hn0, hn1', hv1⟩
        · exact (R.once m hm).extend_left f1 D.inv.stamps
      · intro q hq
        rcases List.mem_cons.1 hq with rfl | hq
        · exact ⟨g, D, FrameB.refl _⟩
        · obtain ⟨gq, a, b⟩ := R.steps q hq
          exact ⟨gq, a, f1.trans b⟩

/-- **at most once, the drain of the combined fragment** -/
theorem drain_onceF (X : Kit env sp) : ∀ (fuel : Nat) (t s s' : State) (g : Nat → Option Val),
    DInvF env sp t s g none → (drainHeap env fuel).run.run s = (.ok (), s') →
    ∃ g', RunF env sp t (drainSteps env fuel s) s g s' g' ∧ s'.rch.length = 0 := by
  intro fuel
  induction fuel with
  | zero => intro t s s' g _ h; unfold drainHeap at h; cases h
  | succ fuel ih =>
    intro t s s' g D h
    unfold drainHeap at h
    obtain ⟨r, s1, h1, h2⟩ := bind_ok_inv h
    unfold drainSteps
    rw [h1]
    cases r with
    | none =>
      obtain ⟨-, rfl⟩ := pure_ok_inv h2
      have := rchRemoveMin_inv (heapInv_of_virt D.inv.heap) h1
      simp only at this
      obtain ⟨e, he⟩ := this
      subst e
      dsimp only
      refine ⟨g, ⟨D, FrameB.refl _, List.nodup_nil, ?_, ?_⟩, he⟩
      · intro m hm; cases hm
      · intro p hp; cases hp
    | some n =>
      obtain ⟨u, s2, h3, h4⟩ := bind_ok_inv h2
      dsimp only
      rw [h3]
      dsimp only
      obtain ⟨D1, f1⟩ := pop_full D h1
      obtain ⟨g2, R1⟩ := chain_onceF X fuel n t s1 s2 g D1 h3
      obtain ⟨g3, R2, he⟩ := ih t s2 s' g2 R1.inv h4
      refine ⟨g3, ⟨R2.inv, f1.trans (R1.fr.trans R2.fr), ?_, ?_, ?_⟩, he⟩
      · rw [List.map_append]
        refine List.nodup_append.2 ⟨R1.nodup, R2.nodup, ?_⟩
        intro a ha b hb e
        subst e
        have h5 := (R1.once a ha).2.1
        have h6 := (R2.once a hb).1
        rw [R1.fr.stabNum] at h6
        omega
      · intro m hm
        rw [List.map_append] at hm
        rcases List.mem_append.1 hm with hm | hm
        · exact ((R1.once m hm).extend_right R2.fr R1.fr.stabNum).extend_left f1 D.inv.stamps
        · exact (R2.once m hm).extend_left (f1.trans R1.fr) D.inv.stamps
      · intro q hq
        rcases List.mem_append.1 hq with hq | hq
        · obtain ⟨gq, a, b⟩ := R1.steps q hq
          exact ⟨gq, a, f1.trans b⟩
        · obtain ⟨gq, a, b⟩ := R2.steps q hq
          exact ⟨gq, a, (f1.trans R1.fr).trans b⟩

end
end IncrVerif.Proofs.OnceF
