import IncrVerif.Proofs.LeakF2
/-!
# LeakF3 — `Sim` (a run that returns leaves `State.handles` unchanged) through the engine, port of `Proofs/NecRel3.lean`
-/
namespace IncrVerif.Proofs.LeakF
open IncrVerif.Engine IncrVerif.Proofs

theorem sim_assertRunningIsChild (n : Nat) (name : String) : Sim (assertRunningIsChild n name) := by
  unfold assertRunningIsChild
  apply Sim.get_bind_pt
  intro s s' b h
  have hs : s' = s := by
    revert h
    try dsimp only
    repeat' split
    all_goals (intro h; first | (cases h; rfl) | cases h)
  subst hs
  rfl
macro_rules | `(tactic| sim_lemma) => `(tactic| exact sim_assertRunningIsChild _ _)

theorem sim_expertOf (n : Nat) : Sim (expertOf n) := by unfold expertOf; sim
macro_rules | `(tactic| sim_lemma) => `(tactic| exact sim_expertOf _)
theorem sim_expertMakeStale (n : Nat) : Sim (expertMakeStale n) := by unfold expertMakeStale; sim
macro_rules | `(tactic| sim_lemma) => `(tactic| exact sim_expertMakeStale _)
theorem sim_expertAddDependency (env : Env) (fuel n child : Nat) (cb : Bool) :
    Sim (expertAddDependency env fuel n child cb) := by unfold expertAddDependency; sim
macro_rules | `(tactic| sim_lemma) => `(tactic| exact sim_expertAddDependency _ _ _ _ _)
theorem sim_swapEdgeIndices (n c1 i1 c2 i2 : Nat) : Sim (swapEdgeIndices n c1 i1 c2 i2) := by
  unfold swapEdgeIndices; sim
macro_rules | `(tactic| sim_lemma) => `(tactic| exact sim_swapEdgeIndices _ _ _ _ _)
theorem sim_expertRemoveDependency (fuel n dep : Nat) : Sim (expertRemoveDependency fuel n dep) := by
  unfold expertRemoveDependency; sim
macro_rules | `(tactic| sim_lemma) => `(tactic| exact sim_expertRemoveDependency _ _ _)
theorem sim_expertInvalidate (fuel n : Nat) : Sim (expertInvalidate fuel n) := by unfold expertInvalidate; sim
macro_rules | `(tactic| sim_lemma) => `(tactic| exact sim_expertInvalidate _ _)

/-! node creation -/

theorem sim_bumpCounter (f : Counters → Counters) : Sim (bumpCounter f) := by unfold bumpCounter; sim
macro_rules | `(tactic| sim_lemma) => `(tactic| exact sim_bumpCounter _)
theorem sim_createNode (k : Kind) (sc : Scope) (c : CutoffK) : Sim (createNode k sc c) := by
  unfold createNode; sim
macro_rules | `(tactic| sim_lemma) => `(tactic| exact sim_createNode _ _ _)
theorem sim_createVar (v : Val) (sc : Scope) : Sim (createVar v sc) := by unfold createVar; sim
macro_rules | `(tactic| sim_lemma) => `(tactic| exact sim_createVar _ _)
theorem sim_createBind (body lhs : Nat) : Sim (createBind body lhs) := by unfold createBind; sim
macro_rules | `(tactic| sim_lemma) => `(tactic| exact sim_createBind _ _)
theorem sim_isConstant (n : Nat) : Sim (isConstant n) := by unfold isConstant; sim
macro_rules | `(tactic| sim_lemma) => `(tactic| exact sim_isConstant _)
theorem sim_resolveOpnd (loc : List Nat) (o : Opnd) : Sim (resolveOpnd loc o) := by unfold resolveOpnd; sim
macro_rules | `(tactic| sim_lemma) => `(tactic| exact sim_resolveOpnd _ _)
theorem sim_elabInstr (loc : List Nat) (v : Val) (i : Instr) : Sim (elabInstr loc v i) := by
  unfold elabInstr; sim
macro_rules | `(tactic| sim_lemma) => `(tactic| exact sim_elabInstr _ _ _)
theorem sim_elabTemplateBase (tp : Template) (v : Val) (init : List Nat) : Sim (elabTemplateBase tp v init) := by
  unfold elabTemplateBase; sim
macro_rules | `(tactic| sim_lemma) => `(tactic| exact sim_elabTemplateBase _ _ _)
theorem sim_memoCall (env : Env) (m : Nat) (key : Int) : Sim (memoCall env m key) := by unfold memoCall; sim
macro_rules | `(tactic| sim_lemma) => `(tactic| exact sim_memoCall _ _ _)
theorem sim_elabInstrM (env : Env) (loc : List Nat) (v : Val) (i : Instr) : Sim (elabInstrM env loc v i) := by
  unfold elabInstrM; sim
macro_rules | `(tactic| sim_lemma) => `(tactic| exact sim_elabInstrM _ _ _ _)
theorem sim_elabTemplate (env : Env) (tp : Template) (v : Val) : Sim (elabTemplate env tp v) := by
  unfold elabTemplate; sim
macro_rules | `(tactic| sim_lemma) => `(tactic| exact sim_elabTemplate _ _ _)

/-! var writes, observers -/

theorem sim_getVar (n : Nat) : Sim (getVar n) := by unfold getVar; sim
macro_rules | `(tactic| sim_lemma) => `(tactic| exact sim_getVar _)
theorem sim_modVar (n : Nat) (f : VarCell → VarCell) : Sim (modVar n f) := by unfold modVar; sim
macro_rules | `(tactic| sim_lemma) => `(tactic| exact sim_modVar _ _)
theorem sim_getObs (n : Nat) : Sim (getObs n) := by unfold getObs; sim
macro_rules | `(tactic| sim_lemma) => `(tactic| exact sim_getObs _)
theorem sim_modObs (n : Nat) (f : ObsRec → ObsRec) : Sim (modObs n f) := by unfold modObs; sim
macro_rules | `(tactic| sim_lemma) => `(tactic| exact sim_modObs _ _)
theorem sim_didSetVarWhileNotStabilising (v : Nat) : Sim (didSetVarWhileNotStabilising v) := by
  unfold didSetVarWhileNotStabilising; sim
macro_rules | `(tactic| sim_lemma) => `(tactic| exact sim_didSetVarWhileNotStabilising _)
theorem sim_writeVar (v : Nat) (f : Val → Val) (isSet : Bool) : Sim (writeVar v f isSet) := by
  unfold writeVar; sim
macro_rules | `(tactic| sim_lemma) => `(tactic| exact sim_writeVar _ _ _)
theorem sim_disallowFutureUse (o : Nat) : Sim (disallowFutureUse o) := by unfold disallowFutureUse; sim
macro_rules | `(tactic| sim_lemma) => `(tactic| exact sim_disallowFutureUse _)
theorem sim_subscribe (o hid : Nat) : Sim (subscribe o hid) := by unfold subscribe; sim
macro_rules | `(tactic| sim_lemma) => `(tactic| exact sim_subscribe _ _)
theorem sim_unsubscribe (o token owner : Nat) : Sim (unsubscribe o token owner) := by unfold unsubscribe; sim
macro_rules | `(tactic| sim_lemma) => `(tactic| exact sim_unsubscribe _ _ _)
theorem sim_dropVarHandle (v : Nat) : Sim (dropVarHandle v) := by unfold dropVarHandle; sim
macro_rules | `(tactic| sim_lemma) => `(tactic| exact sim_dropVarHandle _)
theorem sim_withVarHandle (v : Nat) (act : M Unit) (h : Sim act) : Sim (withVarHandle v act) := by
  unfold withVarHandle; sim
macro_rules | `(tactic| sim_lemma) => `(tactic| refine sim_withVarHandle _ _ ?_)
theorem sim_runEffectBasic (env : Env) (e : Effect) : Sim (runEffectBasic env e) := by
  unfold runEffectBasic; sim
macro_rules | `(tactic| sim_lemma) => `(tactic| exact sim_runEffectBasic _ _)

end IncrVerif.Proofs.LeakF
