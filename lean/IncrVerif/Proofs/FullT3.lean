import IncrVerif.Proofs.FullT2
/-!
# C04 combined fragment, part 3: the carried invariant `PInv` and the measure `UN`

`PInv s`: the input of a `map_ref` node is an earlier node, and every RECORDED parent entry `(p, i)` of a node `c` names a node of the state which, if it is a
`map_ref` node, has `c` as its input.  This is what the two recursions that exist only in the actual engine need: `markMapRefUnknown` (up the recorded parents while they are
valid `map_ref` nodes) and `child_changed` (through chains of `map_ref` parents): along them the index strictly increases, so `size ≤ fuel + n` suffices.
`UN s`: the number of unnecessary nodes — the linking cascade calls `becameNecessary` only on nodes that were unnecessary, so its depth is bounded by `UN`.
-/
namespace IncrVerif.Proofs.FullT
open IncrVerif.Engine IncrVerif.Proofs IncrVerif.Proofs.Step IncrVerif.Proofs.Sched IncrVerif.Proofs.Quiet IncrVerif.Proofs.FullH

structure PInv (s : State) : Prop where
  back : ∀ n pr i, (s.nodeD n).kind = .mapRef pr i → i < n
  pu : ∀ c p i, (p, i) ∈ (s.nodeD c).parents → p < s.nodes.size ∧ ∀ pr j, (s.nodeD p).kind = .mapRef pr j → j = c

theorem PInv.mapRefsBack {s : State} (h : PInv s) : MapRefsBack s := by
  intro n nd p i hn hk
  have := h.back n p i
  rw [nodeD_of_some hn] at this
  exact this hk

theorem PInv.of_nodeD {s s' : State} (h : PInv s) (hsz : s'.nodes.size = s.nodes.size)
    (hk : ∀ m, (s'.nodeD m).kind = (s.nodeD m).kind) (hp : ∀ m x, x ∈ (s'.nodeD m).parents → x ∈ (s.nodeD m).parents) : PInv s' := by
  refine ⟨fun n pr i e => h.back n pr i (by rw [← hk]; exact e), fun c p i hm => ?_⟩
  obtain ⟨h1, h2⟩ := h.pu c p i (hp c _ hm)
  exact ⟨by rw [hsz]; exact h1, fun pr j e => h2 pr j (by rw [← hk]; exact e)⟩

instance : KeepsG PInv where
  of_nodes := fun h e _ => h.of_nodeD (by rw [e]) (fun m => by simp [State.nodeD, e]) (fun m x hx => by simpa [State.nodeD, e] using hx)
  of_nodes' := fun h e => h.of_nodeD (by rw [e]) (fun m => by simp [State.nodeD, e]) (fun m x hx => by simpa [State.nodeD, e] using hx)
  modify := fun {s} n f h hk => h.of_nodeD (by simp)
    (fun m => by rw [nodeD_modify]; split; exact (hk _).1; rfl)
    (fun m x hx => by
      rw [nodeD_modify] at hx; split at hx
      · rw [(hk _).2.2.2.1] at hx; exact hx
      · exact hx)
  rmParent := fun {s} c k h => h.of_nodeD (by simp)
    (fun m => by rw [nodeD_modify]; split <;> rfl)
    (fun m x hx => by
      rw [nodeD_modify] at hx; split at hx
      · exact MapRefH.mem_of_mem_swapRemove hx
      · exact hx)
  push := fun {s} nd h hpar hk => by
    refine ⟨fun n pr i e => ?_, fun c p i hm => ?_⟩
    · rw [FullH.NV.nodeD_push] at e
      split at e
      · rename_i en; rw [en]; exact hk pr i e
      · exact h.back n pr i e
    · rw [FullH.NV.nodeD_push] at hm
      split at hm
      · rw [hpar] at hm; cases hm
      · obtain ⟨h1, h2⟩ := h.pu c p i hm
        refine ⟨by simp; omega, fun pr j e => ?_⟩
        rw [FullH.NV.nodeD_push, if_neg (by omega)] at e
        exact h2 pr j e

/-- the number of unnecessary nodes -/
def UN (s : State) : Nat := (List.range s.nodes.size).countP fun m => !s.isNecessary m

theorem UN_le_size (s : State) : UN s ≤ s.nodes.size := by
  have h := List.countP_le_length (p := fun m => !s.isNecessary m) (l := List.range s.nodes.size)
  rw [List.length_range] at h; exact h

end IncrVerif.Proofs.FullT
