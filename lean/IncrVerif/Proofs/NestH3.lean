import IncrVerif.Proofs.NestH2
/-!
# Nested binds, pure part c: the direct-recompute chain and `drainHeap` keep the drain invariant; values; at most once

Port of `BindH12`/`BindH13` from `LcStepsOK` (runs of change detectors described by `StepL`) to `LcStepsOK2` (described by `StepL2`).
Everything that does not mention `StepL` (`pop_invB`, `FrameB`, `StepRelB.frame`, `DInv.kids_values`, `evalB`, `drained_valuesB`,
`RanOnceB`, `scope_not_yet_run`, `scope_node_settled`, …) is reused from `BindH`.
-/
namespace IncrVerif.Proofs.NestH
open IncrVerif.Engine IncrVerif.Proofs IncrVerif.Proofs.Step IncrVerif.Proofs.Sched
open IncrVerif.Proofs.BindH

/-! ## the hypothesis about change detectors -/

/-- the hypothesis of the scheduling theorem, nested version: `Aux` is an auxiliary invariant (of the fragment at hand) such
that, from a state with the drain invariant and `Aux`, every successful run of a change detector is described by `StepL2`
and keeps `Aux`, and so do the runs of the other nodes and `remove_min` -/
structure LcStepsOK2 (env : Env) (Aux : State → Prop) : Prop where
  lc : ∀ (fuel n b : Nat) (s s' : State) (r : Option Nat), DInv env s (some n) → Aux s →
    (s.nodeD n).kind = .bindLhsChange b → (recomputeOne env fuel n).run.run s = (.ok r, s') →
    (∃ br br', StepL2 env n b br br' r s s') ∧ Aux s'
  other : ∀ (fuel n : Nat) (s s' : State) (r : Option Nat), DInv env s (some n) → Aux s →
    (StaticKind env (s.nodeD n).kind ∨ ∃ b lc, (s.nodeD n).kind = .bindMain b lc) →
    (recomputeOne env fuel n).run.run s = (.ok r, s') → Aux s'
  pop : ∀ (s s1 : State) (n : Nat), DInv env s none → Aux s →
    rchRemoveMin.run.run s = (.ok (some n), s1) → Aux s1

/-- the flat hypothesis implies the nested one (so the theorems below generalise `recomputeOne_invB` … `drain_onceB`) -/
theorem LcStepsOK.toL2 {env : Env} {Aux : State → Prop} (H : LcStepsOK env Aux) : LcStepsOK2 env Aux where
  lc fuel n b s s' r I hA hk h := by
    obtain ⟨⟨br, br', R⟩, hA'⟩ := H.lc fuel n b s s' r I hA hk h
    exact ⟨⟨br, br', StepL.toL2 R⟩, hA'⟩
  other := H.other
  pop := H.pop

/-! ## one `recomputeOne` -/

theorem StepL2.frame {env : Env} {n b : Nat} {br br' : BindRec} {r : Option Nat} {s s' : State}
    (R : StepL2 env n b br br' r s s') (I : DInv env s (some n)) : FrameB s s' where
  stabNum := R.stabNum
  vars := R.vars
  grow := R.grow
  ran m hm := by
    obtain ⟨-, hnlt, hnv, -, hnr⟩ := I.cur_facts
    by_cases e : m = n
    · subst e; omega
    by_cases hlt : m < s.nodes.size
    · rcases R.old m hlt e with ⟨-, -, h3⟩ | ⟨h1, -, -, -, h5, -, -⟩
      · -- a node that dies has not run in this round
        exfalso
        have := I.fresh m n h3 (Or.inr rfl)
        omega
      · exact ⟨by rw [h5]; exact hm, h1⟩
    · rw [nodeD_default_of_ge s m (by omega)] at hm
      have h0 := I.stamps.now
      have : (-1 : Int) = s.stabNum := hm
      omega

/-- **One `recomputeOne` keeps the drain invariant** (given the nested description of the runs of change detectors). -/
theorem recomputeOne_invB2 {env : Env} {Aux : State → Prop} (H : LcStepsOK2 env Aux) {fuel n : Nat} {s s' : State}
    {r : Option Nat} (I : DInv env s (some n)) (hA : Aux s)
    (h : (recomputeOne env fuel n).run.run s = (.ok r, s')) :
    DInv env s' r ∧ Aux s' ∧ FrameB s s' ∧ (s'.nodeD n).recomputedAt = s.stabNum ∧
      (s'.nodeD n).valid = true := by
  have g := I.graph
  obtain ⟨hn, hnlt, hnv, -, -⟩ := I.cur_facts
  have hB := (g.node n hnlt hnv).1
  have hstatic : (StaticKind env (s.nodeD n).kind ∨ ∃ b lc, (s.nodeD n).kind = .bindMain b lc) ∨
      ∃ b, (s.nodeD n).kind = .bindLhsChange b := by
    cases hk : (s.nodeD n).kind <;> rw [hk] at hB <;>
      first
      | exact Or.inl (Or.inl hB)
      | exact Or.inl (Or.inr ⟨_, _, rfl⟩)
      | exact Or.inr ⟨_, rfl⟩
  rcases hstatic with hk | ⟨b, hk⟩
  · obtain ⟨v, ch, ht, R⟩ := recomputeOne_stepB g I.heap hn hk I.kids_values h
    exact ⟨stepB_inv I ht R, H.other fuel n s s' r I hA hk h, R.frame, R.recomputedAt,
      by rw [R.shape.valid]; exact hnv⟩
  · obtain ⟨⟨br, br', R⟩, hA'⟩ := H.lc fuel n b s s' r I hA hk h
    exact ⟨stepL2_inv I hk R, hA', R.frame I, R.self.1, R.self.2.2.2.1⟩

/-! ## the chain and the drain -/

theorem recompute_invB2 {env : Env} {Aux : State → Prop} (H : LcStepsOK2 env Aux) :
    ∀ (fuel n : Nat) (s s' : State), DInv env s (some n) → Aux s →
    (recompute env fuel n).run.run s = (.ok (), s') → DInv env s' none ∧ Aux s' ∧ FrameB s s' := by
  intro fuel
  induction fuel with
  | zero => intro n s s' _ _ h; unfold recompute at h; cases h
  | succ fuel ih =>
    intro n s s' I hA h
    unfold recompute at h
    obtain ⟨r, s1, h1, h2⟩ := bind_ok_inv h
    obtain ⟨I1, hA1, f1, -, -⟩ := recomputeOne_invB2 H I hA h1
    cases r with
    | none =>
      obtain ⟨-, rfl⟩ := pure_ok_inv h2
      exact ⟨I1, hA1, f1⟩
    | some p =>
      obtain ⟨I2, hA2, f2⟩ := ih p s1 s' I1 hA1 h2
      exact ⟨I2, hA2, f1.trans f2⟩

theorem drainHeap_invB2 {env : Env} {Aux : State → Prop} (H : LcStepsOK2 env Aux) :
    ∀ (fuel : Nat) (s s' : State), DInv env s none → Aux s →
    (drainHeap env fuel).run.run s = (.ok (), s') →
    DInv env s' none ∧ Aux s' ∧ s'.rch.length = 0 ∧ FrameB s s' := by
  intro fuel
  induction fuel with
  | zero => intro s s' _ _ h; unfold drainHeap at h; cases h
  | succ fuel ih =>
    intro s s' I hA h
    unfold drainHeap at h
    obtain ⟨r, s1, h1, h2⟩ := bind_ok_inv h
    cases r with
    | none =>
      obtain ⟨-, rfl⟩ := pure_ok_inv h2
      have := rchRemoveMin_inv I.heap h1
      simp only at this
      obtain ⟨e, he⟩ := this
      subst e
      exact ⟨I, hA, he, FrameB.refl _⟩
    | some n =>
      obtain ⟨u, s2, h3, h4⟩ := bind_ok_inv h2
      obtain ⟨I1, f1⟩ := pop_invB I h1
      have hA1 := H.pop s s1 n I hA h1
      obtain ⟨I2, hA2, f2⟩ := recompute_invB2 H fuel n s1 s2 I1 hA1 h3
      obtain ⟨I3, hA3, he, f3⟩ := ih s2 s' I2 hA2 h4
      exact ⟨I3, hA3, he, (f1.trans f2).trans f3⟩

/-- **The values after `drainHeap`** (nested contract). -/
theorem drainHeap_valuesB2 {env : Env} {Aux : State → Prop} (H : LcStepsOK2 env Aux) {fuel : Nat} {s s' : State}
    (I : DInv env s none) (hA : Aux s) (h : (drainHeap env fuel).run.run s = (.ok (), s')) :
    DInv env s' none ∧ Aux s' ∧ s'.rch.length = 0 ∧ s'.vars = s.vars ∧ s'.stabNum = s.stabNum ∧
    ∀ n, s'.isNecessary n = true → ∀ k, (s'.nodeD n).height.toNat < k →
      (s'.nodeD n).valid = true ∧ s'.isStale n = false ∧
        (s'.nodeD n).value = evalB env s' k n ∧ s'.value env n = evalB env s' k n ∧
        (evalB env s' k n).isSome = true := by
  obtain ⟨I', hA', he, f⟩ := drainHeap_invB2 H fuel s s' I hA h
  exact ⟨I', hA', he, f.vars, f.stabNum, fun n hn k hk => drained_valuesB I' he n hn k hk⟩

/-! ## at most once; dead generations -/

theorem chain_onceB2 {env : Env} {Aux : State → Prop} (H : LcStepsOK2 env Aux) :
    ∀ (fuel n : Nat) (s s' : State), DInv env s (some n) → Aux s →
    (recompute env fuel n).run.run s = (.ok (), s') →
    (chainTrace env fuel n s).Nodup ∧ ∀ m, m ∈ chainTrace env fuel n s → RanOnceB s s' m := by
  intro fuel
  induction fuel with
  | zero => intro n s s' _ _ h; unfold recompute at h; cases h
  | succ fuel ih =>
    intro n s s' I hA h
    unfold recompute at h
    obtain ⟨r, s1, h1, h2⟩ := bind_ok_inv h
    obtain ⟨I1, hA1, f1, hn1, hv1⟩ := recomputeOne_invB2 H I hA h1
    have hn0 := I.cur_facts.2.2.2.2
    unfold chainTrace
    rw [h1]
    cases r with
    | none =>
      obtain ⟨-, rfl⟩ := pure_ok_inv h2
      refine ⟨by simp, ?_⟩
      intro m hm
      rw [List.mem_singleton] at hm
      subst hm
      exact ⟨hn0, hn1, hv1⟩
    | some p =>
      obtain ⟨hnd, hall⟩ := ih p s1 s' I1 hA1 h2
      obtain ⟨-, -, f2⟩ := recompute_invB2 H fuel p s1 s' I1 hA1 h2
      have hnot : n ∉ chainTrace env fuel p s1 := by
        intro hmem
        have := (hall n hmem).1
        rw [f1.stabNum] at this
        omega
      refine ⟨List.nodup_cons.2 ⟨hnot, hnd⟩, ?_⟩
      intro m hm
      rcases List.mem_cons.1 hm with rfl | hm
      · exact RanOnceB.extend_right f2 f1.stabNum ⟨hn0, hn1, hv1⟩
      · exact (hall m hm).extend_left f1 I.stamps

/-- **At most once, and never a dying generation** (nested contract). The nodes run by a successful `drainHeap` from a
state with the drain invariant are pairwise distinct; each had `recomputedAt < stabNum` before the drain, has
`recomputedAt = stabNum` after it, and is still valid at the end of the drain — so no node of a generation (of the bind
or of any inner bind) that is invalidated during this drain was recomputed in it. -/
theorem drain_onceB2 {env : Env} {Aux : State → Prop} (H : LcStepsOK2 env Aux) :
    ∀ (fuel : Nat) (s s' : State), DInv env s none → Aux s →
    (drainHeap env fuel).run.run s = (.ok (), s') →
    (drainTrace env fuel s).Nodup ∧ ∀ m, m ∈ drainTrace env fuel s → RanOnceB s s' m := by
  intro fuel
  induction fuel with
  | zero => intro s s' _ _ h; unfold drainHeap at h; cases h
  | succ fuel ih =>
    intro s s' I hA h
    unfold drainHeap at h
    obtain ⟨r, s1, h1, h2⟩ := bind_ok_inv h
    unfold drainTrace
    rw [h1]
    cases r with
    | none => exact ⟨List.nodup_nil, fun m hm => by cases hm⟩
    | some n =>
      obtain ⟨u, s2, h3, h4⟩ := bind_ok_inv h2
      dsimp only
      rw [h3]
      dsimp only
      obtain ⟨I1, f1⟩ := pop_invB I h1
      have hA1 := H.pop s s1 n I hA h1
      obtain ⟨I2, hA2, f2⟩ := recompute_invB2 H fuel n s1 s2 I1 hA1 h3
      obtain ⟨-, -, -, f3⟩ := drainHeap_invB2 H fuel s2 s' I2 hA2 h4
      obtain ⟨hnd1, hall1⟩ := chain_onceB2 H fuel n s1 s2 I1 hA1 h3
      obtain ⟨hnd2, hall2⟩ := ih s2 s' I2 hA2 h4
      refine ⟨List.nodup_append.2 ⟨hnd1, hnd2, ?_⟩, ?_⟩
      · intro a ha b hb e
        subst e
        have h5 := (hall1 a ha).2.1
        have h6 := (hall2 a hb).1
        rw [f2.stabNum] at h6
        omega
      · intro m hm
        rcases List.mem_append.1 hm with hm | hm
        · exact ((hall1 m hm).extend_right f3 f2.stabNum).extend_left f1 I.stamps
        · exact (hall2 m hm).extend_left (f1.trans f2) I.stamps

end IncrVerif.Proofs.NestH
