import IncrVerif.Proofs.Sched7
/-!
# `writeVar` outside `stabilise` preserves the quiescent invariant
-/
namespace IncrVerif.Proofs.Sched
open IncrVerif.Engine IncrVerif.Proofs IncrVerif.Proofs.Step

/-! ## `Graph` through a change of `vars` that keeps every cell -/

theorem Graph.transfer_vars {env : Env} {s s' : State} (g : Graph env s)
    (hsz : s'.nodes.size = s.nodes.size) (hsh : ∀ m, SameShape (s.nodeD m) (s'.nodeD m))
    (hv : ∀ (c : Nat) (vc : VarCell), s.vars[c]? = some vc → ∃ vc', s'.vars[c]? = some vc')
    (hpc : s'.panicCountdown = none) : Graph env s' where
  pc := hpc
  nec n hn := by
    rw [isNecessary_of_shape hsh] at hn
    have := g.nec n hn
    rw [hsz, (hsh n).valid, (hsh n).kind, (hsh n).cutoff, (hsh n).height]
    exact this
  var n c hn hk := by
    rw [isNecessary_of_shape hsh] at hn
    rw [(hsh n).kind] at hk
    obtain ⟨vc, h⟩ := g.var n c hn hk
    exact hv c vc h
  child n hn i c hc := by
    rw [isNecessary_of_shape hsh] at hn
    rw [(hsh n).kind] at hc
    have := g.child n hn i c hc
    rw [isNecessary_of_shape hsh, (hsh c).parents, (hsh c).height, (hsh n).height]
    exact this
  parent c p i hp := by
    rw [(hsh c).parents] at hp
    have := g.parent c p i hp
    rw [isNecessary_of_shape hsh, (hsh p).kind]
    exact this

/-! ## the abstract description of an immediate write -/

/-- `s'` is `s` after cell `v` (old contents `vc`) received value `x` and the stamp of the current
round; nodes change at most in their heap marker; the watch node is queued if it is necessary -/
structure WriteRel (v : Nat) (vc : VarCell) (x : Val) (s s' : State) : Prop where
  size : s'.nodes.size = s.nodes.size
  node : ∀ m, ∃ h, s'.nodeD m = { s.nodeD m with heightInRch := h }
  var : s'.vars[v]? = some { vc with value := x, setAt := s.stabNum }
  other : ∀ w, w ≠ v → s'.vars[w]? = s.vars[w]?
  stabNum : s'.stabNum = s.stabNum
  status : s'.status = s.status
  pc : s'.panicCountdown = s.panicCountdown
  heap : HeapInv s'
  queued : ∀ m, (s'.nodeD m).inRch = true ↔
    ((s.nodeD m).inRch = true ∨ (m = vc.node ∧ s.isNecessary m = true))
  newObservers : s'.newObservers = s.newObservers
  disallowedObservers : s'.disallowedObservers = s.disallowedObservers
  setDuringStab : s'.setDuringStab = s.setDuringStab
  deadVars : s'.deadVars = s.deadVars
  handleAfterStab : s'.handleAfterStab = s.handleAfterStab

section rel
variable {env : Env} {s s' : State} {v : Nat} {vc : VarCell} {x : Val}

theorem WriteRel.shape (R : WriteRel v vc x s s') (m : Nat) : SameShape (s.nodeD m) (s'.nodeD m) := by
  obtain ⟨h, e⟩ := R.node m
  rw [e]; exact ⟨rfl, rfl, rfl, rfl, rfl, rfl, rfl, rfl⟩

theorem WriteRel.kind (R : WriteRel v vc x s s') (m : Nat) : (s'.nodeD m).kind = (s.nodeD m).kind :=
  (R.shape m).kind

theorem WriteRel.recomputedAt (R : WriteRel v vc x s s') (m : Nat) :
    (s'.nodeD m).recomputedAt = (s.nodeD m).recomputedAt := by
  obtain ⟨h, e⟩ := R.node m; rw [e]

theorem WriteRel.changedAt (R : WriteRel v vc x s s') (m : Nat) :
    (s'.nodeD m).changedAt = (s.nodeD m).changedAt := by
  obtain ⟨h, e⟩ := R.node m; rw [e]

theorem WriteRel.value (R : WriteRel v vc x s s') (m : Nat) :
    (s'.nodeD m).value = (s.nodeD m).value := by
  obtain ⟨h, e⟩ := R.node m; rw [e]

theorem WriteRel.handlers (R : WriteRel v vc x s s') (m : Nat) :
    (s'.nodeD m).numOnUpdateHandlers = (s.nodeD m).numOnUpdateHandlers := by
  obtain ⟨h, e⟩ := R.node m; rw [e]

theorem WriteRel.nec (R : WriteRel v vc x s s') (m : Nat) : s'.isNecessary m = s.isNecessary m :=
  isNecessary_of_shape R.shape m

theorem WriteRel.idle (R : WriteRel v vc x s s') (I : Idle s) : Idle s' where
  newObservers := R.newObservers.trans I.newObservers
  disallowedObservers := R.disallowedObservers.trans I.disallowedObservers
  setDuringStab := R.setDuringStab.trans I.setDuringStab
  deadVars := R.deadVars.trans I.deadVars
  handleAfterStab := R.handleAfterStab.trans I.handleAfterStab
  handlers m := by rw [R.handlers]; exact I.handlers m

/-- staleness of a node that is not a `var v` node does not change -/
theorem WriteRel.staleOf_eq (R : WriteRel v vc x s s') {m : Nat} (hm : (s.nodeD m).kind ≠ .var v) :
    staleOf s' m = staleOf s m := by
  unfold staleOf
  simp only [R.kind, R.recomputedAt, R.changedAt]
  cases hk : (s.nodeD m).kind <;> try rfl
  rename_i c
  have hc : c ≠ v := by
    intro e; subst e; exact hm hk
  simp only [R.other c hc]

/-- the target of a node that is not a `var v` node does not change -/
theorem WriteRel.target (R : WriteRel v vc x s s') {m : Nat} {w : Val}
    (hm : (s.nodeD m).kind ≠ .var v) (h : Target env s m w) : Target env s' m w := by
  unfold Target at h ⊢
  simp only [R.kind, plainVals, R.value] at h ⊢
  cases hk : (s.nodeD m).kind <;> rw [hk] at h <;> try exact h
  rename_i c
  have hc : c ≠ v := by
    intro e; subst e; exact hm hk
  simp only [R.other c hc]
  exact h

/-- the watch node, when it is a `var v` node, is stale afterwards -/
theorem WriteRel.staleOf_watch (R : WriteRel v vc x s s') {m : Nat} (hk : (s.nodeD m).kind = .var v)
    (hr : (s.nodeD m).recomputedAt < s.stabNum) : staleOf s' m = true := by
  unfold staleOf
  simp only [R.kind, R.recomputedAt, hk, R.var]
  simpa using hr

theorem WriteRel.quiet (Q : QuietInv env s) (hv : s.vars[v]? = some vc) (R : WriteRel v vc x s s') :
    QuietInv env s' := by
  have g := Q.graph
  have g' : Graph env s' := by
    refine g.transfer_vars R.size R.shape ?_ (R.pc.trans g.pc)
    intro c vc0 h0
    by_cases hc : c = v
    · subst hc; exact ⟨_, R.var⟩
    · exact ⟨vc0, by rw [R.other c hc]; exact h0⟩
  -- a necessary `var v` node is the watch node; a necessary watch node is a `var v` node
  have hwatch : ∀ m, s.isNecessary m = true → (s.nodeD m).kind = .var v → m = vc.node := by
    intro m hm hk
    obtain ⟨vc0, h0, h1⟩ := Q.watch m v hm hk
    rw [hv] at h0; cases h0; exact h1.symm
  have hcell : ∀ m, s.isNecessary m = true → m = vc.node → (s.nodeD m).kind = .var v := by
    intro m hm e; subst e; exact Q.cell v vc hv hm
  refine ⟨g', R.heap, by rw [R.stabNum]; exact Q.now, ?_, ?_, ?_, ?_, ?_, ?_, R.status.trans Q.status⟩
  · intro m
    rw [R.recomputedAt, R.changedAt, R.stabNum]; exact Q.stamps m
  · intro c vc0 h0
    rw [R.stabNum]
    by_cases hc : c = v
    · subst hc; rw [R.var] at h0; cases h0; exact Int.le_refl _
    · rw [R.other c hc] at h0; exact Q.varStamp c vc0 h0
  · -- queued
    intro m
    rw [R.queued m, R.nec m]
    cases hm : s.isNecessary m with
    | false =>
      have : (s.nodeD m).inRch = false := by
        cases hq : (s.nodeD m).inRch with
        | false => rfl
        | true => have := ((Q.queued m).1 hq).1; rw [hm] at this; cases this
      simp [this]
    | true =>
      have hm' : s'.isNecessary m = true := by rw [R.nec]; exact hm
      rw [g'.isStale hm']
      by_cases hk : (s.nodeD m).kind = .var v
      · have e := hwatch m hm hk
        rw [R.staleOf_watch hk (Q.stamps m).1]
        simp [e]
      · have hne : m ≠ vc.node := fun e => hk (hcell m hm e)
        rw [R.staleOf_eq hk, ← g.isStale hm, Q.queued m, hm]
        simp [hne]
  · -- cons
    intro m hm' hst
    have hm : s.isNecessary m = true := by rw [← R.nec]; exact hm'
    rw [g'.isStale hm'] at hst
    by_cases hk : (s.nodeD m).kind = .var v
    · rw [R.staleOf_watch hk (Q.stamps m).1] at hst; cases hst
    · rw [R.staleOf_eq hk, ← g.isStale hm] at hst
      obtain ⟨w, hw, hval⟩ := Q.cons m hm hst
      exact ⟨w, R.target hk hw, by rw [R.value]; exact hval⟩
  · -- watch
    intro n c hn hk
    rw [R.nec] at hn
    rw [R.kind] at hk
    obtain ⟨vc0, h0, h1⟩ := Q.watch n c hn hk
    by_cases hc : c = v
    · subst hc
      rw [hv] at h0; cases h0
      exact ⟨_, R.var, h1⟩
    · exact ⟨vc0, by rw [R.other c hc]; exact h0, h1⟩
  · -- cell
    intro c vc0 h0 hn
    rw [R.nec] at hn
    rw [R.kind]
    by_cases hc : c = v
    · subst hc
      rw [R.var] at h0; cases h0
      exact Q.cell c vc hv hn
    · rw [R.other c hc] at h0; exact Q.cell c vc0 h0 hn

end rel

/-! ## the concrete write -/

theorem writeVar_ok_cell {s s' : State} {v : Nat} {f : Val → Val} {isSet : Bool} {r : Val}
    (h : (writeVar v f isSet).run.run s = (.ok r, s')) : ∃ vc, s.vars[v]? = some vc := by
  cases hv : s.vars[v]? with
  | some vc => exact ⟨vc, rfl⟩
  | none =>
    exfalso
    simp only [writeVar, run_bind, run_getVar, hv] at h
    cases h

theorem wroteOutside_rel {env : Env} {s : State} {v : Nat} {vc : VarCell} (x : Val)
    (Q : QuietInv env s) (hv : s.vars[v]? = some vc)
    (hh : vc.setAt < s.stabNum →
      ((s.nodeD vc.node).valid && s.isNecessary vc.node && !(s.nodeD vc.node).inRch) = true →
      0 ≤ (s.nodeD vc.node).height ∧ (s.nodeD vc.node).height ≤ s.rch.maxAllowed) :
    WriteRel v vc x s (wroteOutside v vc x s) := by
  have hle := Q.varStamp v vc hv
  have hvars := wroteOutside_vars v vc x s hv
  have hset : (if vc.setAt < s.stabNum then s.stabNum else vc.setAt) = s.stabNum := by
    split <;> omega
  rw [hset] at hvars
  have g := Q.graph
  -- the watch node, when necessary, is a `var v` node stamped in an earlier round
  have hwk : s.isNecessary vc.node = true → (s.nodeD vc.node).kind = .var v := Q.cell v vc hv
  have hstale : s.isNecessary vc.node = true → s.stabNum ≤ vc.setAt →
      (s.nodeD vc.node).inRch = true := by
    intro hn h2
    rw [Q.queued]
    refine ⟨hn, ?_⟩
    rw [g.isStale hn]
    unfold staleOf
    simp only [hwk hn, hv]
    have := (Q.stamps vc.node).1
    simp only [gt_iff_lt, decide_eq_true_eq]; omega
  -- the cases in which the nodes and the heap are untouched
  have same : ∀ s' : State, s'.nodes = s.nodes → s'.rch = s.rch →
      s'.vars[v]? = some { vc with value := x, setAt := s.stabNum } →
      (∀ w, w ≠ v → s'.vars[w]? = s.vars[w]?) →
      s'.stabNum = s.stabNum → s'.status = s.status → s'.panicCountdown = s.panicCountdown →
      s'.newObservers = s.newObservers → s'.disallowedObservers = s.disallowedObservers →
      s'.setDuringStab = s.setDuringStab → s'.deadVars = s.deadVars →
      s'.handleAfterStab = s.handleAfterStab →
      (s.isNecessary vc.node = true → (s.nodeD vc.node).inRch = true) →
      WriteRel v vc x s s' := by
    intro s' hn hr h1 h2 h3 h4 h5 h6 h7 h8 h9 h10 hq
    have hD : ∀ m, s'.nodeD m = s.nodeD m := fun m => by simp only [State.nodeD, hn]
    refine ⟨by rw [hn], fun m => ⟨(s.nodeD m).heightInRch, hD m⟩, h1, h2, h3, h4, h5, ?_, ?_,
      h6, h7, h8, h9, h10⟩
    · exact Q.heap.congr hr (by rw [hn]) fun m =>
        ⟨by rw [hD], by rw [hD], by simp only [State.isNecessary, hD]⟩
    · intro m
      rw [hD]
      constructor
      · exact Or.inl
      · rintro (h | ⟨e, hm⟩)
        · exact h
        · subst e; exact hq hm
  by_cases h2 : s.stabNum ≤ vc.setAt
  · have e := wroteOutside_same_round v vc x s h2
    rw [e] at hvars ⊢
    exact same _ rfl rfl hvars.1 hvars.2 rfl rfl rfl rfl rfl rfl rfl rfl (fun hn => hstale hn h2)
  · have hlt : vc.setAt < s.stabNum := by omega
    by_cases h4 : ((s.nodeD vc.node).valid && s.isNecessary vc.node && !(s.nodeD vc.node).inRch) = true
    · have e : wroteOutside v vc x s =
          inserted vc.node (s.nodeD vc.node).height (stampedWrite v vc x s) := by
        unfold wroteOutside; rw [if_neg h2, if_pos h4]
      rw [e] at hvars ⊢
      obtain ⟨h0, hmax⟩ := hh hlt h4
      rw [Bool.and_eq_true, Bool.and_eq_true] at h4
      obtain ⟨⟨hval, hnec⟩, hnq⟩ := h4
      have hnq' : (s.nodeD vc.node).inRch = false := by simpa using hnq
      have hsz : vc.node < s.nodes.size := (g.nec _ hnec).1
      have hW : HeapInv (stampedWrite v vc x s) :=
        Q.heap.congr rfl rfl fun m => ⟨rfl, rfl, rfl⟩
      have hp : (stampedWrite v vc x s).nodes[vc.node]? = some (s.nodeD vc.node) := some_of_lt hsz
      have hI := HeapInv.inserted hW hp hnq' h0 hmax hnec
      have hD : ∀ m, (inserted vc.node (s.nodeD vc.node).height (stampedWrite v vc x s)).nodeD m =
          if vc.node = m ∧ m < s.nodes.size then
            { s.nodeD m with heightInRch := (s.nodeD vc.node).height } else s.nodeD m :=
        fun m => inserted_nodeD _ _ _ m
      refine ⟨by simp [inserted, stampedWrite, bumped, withCell], ?_, hvars.1, hvars.2, rfl, rfl, rfl,
        hI, ?_, rfl, rfl, rfl, rfl, rfl⟩
      · intro m
        rw [hD]
        split
        · exact ⟨_, rfl⟩
        · exact ⟨(s.nodeD m).heightInRch, rfl⟩
      · intro m
        have := inserted_inRch vc.node (s.nodeD vc.node).height (stampedWrite v vc x s) hsz h0 m
        rw [this]
        constructor
        · rintro (e | h)
          · subst e; exact Or.inr ⟨rfl, hnec⟩
          · exact Or.inl h
        · rintro (h | ⟨e, _⟩)
          · exact Or.inr h
          · exact Or.inl e
    · have e : wroteOutside v vc x s = stampedWrite v vc x s := by
        unfold wroteOutside; rw [if_neg h2, if_neg h4]
      rw [e] at hvars ⊢
      refine same _ rfl rfl hvars.1 hvars.2 rfl rfl rfl rfl rfl rfl rfl rfl ?_
      intro hn
      cases hq : (s.nodeD vc.node).inRch with
      | true => rfl
      | false =>
        exfalso; apply h4
        rw [(g.nec _ hn).2.1, hn, hq]; rfl

/-- a successful write to a variable outside `stabilise` keeps `QuietInv` and `Idle`; the cell gets the
new value and the stamp of the current round, nothing else about variables or the graph changes -/
theorem writeVar_quiet {env : Env} {s s' : State} {v : Nat} {f : Val → Val} {isSet : Bool} {r : Val}
    (Q : QuietInv env s) (I : Idle s) (h : (writeVar v f isSet).run.run s = (.ok r, s')) :
    ∃ vc, s.vars[v]? = some vc ∧ r = vc.value ∧ QuietInv env s' ∧ Idle s' ∧
      s'.stabNum = s.stabNum ∧ s'.nodes.size = s.nodes.size ∧
      (∀ m, SameShape (s.nodeD m) (s'.nodeD m)) ∧
      s'.vars[v]? = some { vc with value := f vc.value, setAt := s.stabNum } ∧
      (∀ w, w ≠ v → s'.vars[w]? = s.vars[w]?) := by
  obtain ⟨vc, hv⟩ := writeVar_ok_cell h
  have hst : s.status ≠ .stabilising := by rw [Q.status]; intro e; cases e
  obtain ⟨hr, hs', -, -, hh⟩ := writeVar_outside_ok v f isSet s s' vc r hv hst h
  have R := wroteOutside_rel (f vc.value) Q hv hh
  rw [← hs'] at R
  exact ⟨vc, hv, hr, R.quiet Q hv, R.idle I, R.stabNum, R.size, R.shape, R.var, R.other⟩

end IncrVerif.Proofs.Sched
