import IncrVerif.Proofs.Heights
/-!
# LeakF1 — the engine does not write the program's node handles: the frame calculus

`Sim x`: a run of `x` that returns leaves `State.handles` (the ownership component's list of node handles held by
the program) unchanged.  The calculus (bind, get, modify, loops, …) and the tactic `sim` push this through the
monadic structure of the engine functions (port of the calculus of `Proofs/NecRel1.lean`; `LeakF2…4` are the
ladder).  Also here: `erase H s = { s with handles := H }` and the pure readers that do not read `handles`
(`value_erase`, …), used by `LeakF5`.
NOTE: the two-state version ("the run from `erase H s` returns the same in `erase H s'`") is FALSE for arbitrary
programs: `memoCall`, `perKeyDriver` and the weak-map sweep of `stabiliseEnd` read `State.isAlive`/`aliveSet`.
-/
namespace IncrVerif.Proofs.LeakF
open IncrVerif.Engine IncrVerif.Proofs

/-- replace the program's node handles by the list `H` -/
def erase (H : List Nat) (s : State) : State := { s with handles := H }

theorem erase_debug (H : List Nat) (s : State) : (erase H s).cfg.debug = s.cfg.debug := rfl

/-- `x` does not write the program's node handles -/
def Sim {α} (x : M α) : Prop :=
  ∀ (s s' : State) (a : α), x.run.run s = (.ok a, s') → s'.handles = s.handles

theorem Sim.pure {α} (a : α) : Sim (Pure.pure a : M α) := by
  intro s s' b h
  rw [run_pure] at h
  cases h; rfl

theorem Sim.throw {α} (e : Panic) : Sim (throw e : M α) := by
  intro s s' b h
  cases h

theorem Sim.panic {α} (site : String) : Sim (Engine.panic site : M α) := by
  intro s s' b h
  cases h

theorem Sim.bind {α β} {x : M α} {f : α → M β} (hx : Sim x) (hf : ∀ a, Sim (f a)) : Sim (x >>= f) := by
  intro s s' b h
  rw [run_bind] at h
  rcases hx1 : x.run.run s with ⟨r, s1⟩
  rw [hx1] at h
  cases r with
  | error e => cases h
  | ok a => exact (hf a s1 s' b h).trans (hx s s1 a hx1)

/-- pointwise rule for a block that starts by reading the state -/
theorem Sim.get_bind_pt {β} {k : State → M β}
    (h : ∀ s s' b, (k s).run.run s = (.ok b, s') → s'.handles = s.handles) :
    Sim (get >>= k) := by
  intro s s' b hr
  rw [run_bind, run_get] at hr
  exact h s s' b hr

theorem Sim.get_bind {β} {k : State → M β} (_hk : True) (h : ∀ s, Sim (k s)) :
    Sim (get >>= k) := by
  apply Sim.get_bind_pt
  intro s s' b hr
  exact h s s s' b hr

theorem Sim.modify (f : State → State) (hf : ∀ s, (f s).handles = s.handles) : Sim (modify f : M Unit) := by
  intro s s' b h
  rw [run_modify] at h
  cases h
  exact hf s

theorem Sim.ite {α} (c : Prop) [Decidable c] {x y : M α} (hx : Sim x) (hy : Sim y) :
    Sim (if c then x else y) := by
  split <;> assumption

theorem Sim.forIn {α β} (l : List α) (init : β) (f : α → β → M (ForInStep β))
    (hf : ∀ a b, Sim (f a b)) : Sim (forIn l init f) := by
  induction l generalizing init with
  | nil => simp only [List.forIn_nil]; exact Sim.pure _
  | cons a l ih =>
    rw [List.forIn_cons]
    apply Sim.bind (hf a init)
    intro r
    cases r with
    | done b => exact Sim.pure _
    | yield b => exact ih b

theorem Sim.mapM {α β} (f : α → M β) (hf : ∀ a, Sim (f a)) (l : List α) : Sim (l.mapM f) := by
  induction l with
  | nil => rw [List.mapM_nil]; exact Sim.pure _
  | cons a l ih =>
    rw [List.mapM_cons]
    apply Sim.bind (hf a)
    intro b
    apply Sim.bind ih
    intro bs
    exact Sim.pure _

theorem Sim.map {α β} (g : α → β) {x : M α} (hx : Sim x) : Sim (g <$> x) := by
  rw [map_eq_pure_bind]
  apply Sim.bind hx
  intro a
  exact Sim.pure _

theorem Sim.discard {α} {x : M α} (hx : Sim x) : Sim (discard x) := by
  unfold Functor.discard
  rw [LawfulFunctor.map_const]
  exact Sim.map _ hx

/-- the assertion combinators -/
theorem sim_assertM (c : Bool) (site : String) : Sim (assertM c site) := by
  intro s s' b h
  rw [run_assertM] at h
  cases c with
  | false => cases h
  | true => cases h; rfl

theorem sim_dassert (c : Bool) (site : String) : Sim (dassert c site) := by
  intro s s' b h
  rw [run_dassert] at h
  split at h
  · cases h
  · cases h; rfl

/-! ## pure state functions that recurse with a state-dependent fuel: they do not read the erased fields -/

theorem valueWith_erase (proj : Nat → Val → Val) (H : List Nat) (s : State) (fuel n : Nat) :
    (erase H s).valueWith proj fuel n = s.valueWith proj fuel n := by
  induction fuel generalizing n with
  | zero => rfl
  | succ fuel ih =>
    simp only [State.valueWith]
    have : (erase H s).nodeD n = s.nodeD n := rfl
    rw [this]
    split
    · rw [ih]
    · rfl

theorem value_erase (env : Env) (H : List Nat) (s : State) (n : Nat) : (erase H s).value env n = s.value env n :=
  valueWith_erase env.proj H s _ n

theorem tryGetValue_erase (env : Env) (H : List Nat) (s : State) (o : Nat) :
    (erase H s).tryGetValue env o = s.tryGetValue env o := by
  unfold State.tryGetValue
  simp only [value_erase]
  rfl

theorem nodeUpdate_erase (env : Env) (H : List Nat) (s : State) (n : Nat) :
    (erase H s).nodeUpdate env n = s.nodeUpdate env n := by
  unfold State.nodeUpdate
  simp only [value_erase]
  rfl


/-- extensible: the `Sim` lemmas proved so far -/
syntax "sim_lemma" : tactic
macro_rules | `(tactic| sim_lemma) => `(tactic| exact sim_dassert _ _)
macro_rules | `(tactic| sim_lemma) => `(tactic| exact sim_assertM _ _)

macro "sim_side" : tactic => `(tactic| first | exact fun _ => rfl | trivial)

set_option hygiene false in
/-- induction hypotheses, by their conventional names -/
macro "sim_ih" : tactic => `(tactic| with_reducible first
  | exact ih | exact ih _ | exact ih _ _ | exact ih _ _ _ | exact ih _ _ _ _ | exact ih _ _ _ _ _
  | exact ih1 _ | exact ih1 _ _ | exact ih1 _ _ _
  | exact ih2 _ | exact ih2 _ _ | exact ih2 _ _ _ | exact ih2 _ _ _ _
  | exact ih3 _ | exact ih3 _ _)

macro "sim_step" : tactic => `(tactic| first
  | assumption
  | sim_ih
  | with_reducible sim_lemma
  | with_reducible exact Sim.pure _
  | with_reducible exact Sim.throw _
  | with_reducible exact Sim.panic _
  | ((with_reducible refine Sim.modify _ ?_); sim_side)
  | ((with_reducible refine Sim.get_bind ?hk ?h); (case hk => sim_side); intro _)
  | with_reducible apply Sim.forIn
  | with_reducible apply Sim.mapM
  | with_reducible apply Sim.map
  | with_reducible apply Sim.discard
  | with_reducible apply Sim.bind
  | with_reducible intro _
  | split
  | dsimp only)

macro "sim" : tactic => `(tactic| repeat' sim_step)

end IncrVerif.Proofs.LeakF
