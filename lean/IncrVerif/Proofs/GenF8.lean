import IncrVerif.Proofs.GenF5
import IncrVerif.Props.C03
/-!
# C03, combined fragment, part 8: the run of a change detector un-registers and kills its WHOLE previous generation

`lc_step_kills_generation`: in a state with the drain invariant whose current node `n` is the change detector of bind `b`, whose record has a right-hand side (the closure has run
before): if `recomputeOne env fuel n` returns, the drain invariant holds again and EVERY node of the record's previous list `allNodesCreatedOnRhs` is dead, invalid, and registered
in NO bind's list.  (`C03.lhs_change_invalidates_old_generation`, all programs: the old list is invalid afterwards; `All2.gen` afterwards: registered nodes are valid.)
-/
namespace IncrVerif.Proofs.GenF
open IncrVerif.Engine IncrVerif.Driver IncrVerif.Proofs IncrVerif.Proofs.Step IncrVerif.Proofs.Sched IncrVerif.Proofs.Quiet
open IncrVerif.Proofs.FullH IncrVerif.Proofs.TidyH IncrVerif.Proofs.OnceF

section
variable {env : Env} {sp : Nat → Val → Val}

theorem lc_step_kills_generation (E : EnvS env sp) (hF : FirstFn env) {t s s' : State} {g : Nat → Option Val} {fuel n b r0 : Nat} {br : BindRec}
    {r : Option Nat} (D : DInvF env sp t s g (some n)) (hk : (s.nodeD n).kind = .bindLhsChange b) (hb : s.binds[b]? = some br)
    (hr : br.rhs = some r0) (h : (recomputeOne env fuel n).run.run s = (.ok r, s')) :
    ∃ g', DInvF env sp t s' g' r ∧
      ∀ m, m ∈ br.allNodesCreatedOnRhs → Dead s' m ∧ (s'.nodeD m).valid = false ∧ ∀ b', ¬ Reg s' b' m := by
  have hn : n < s.nodes.size := by
    by_cases hn : n < s.nodes.size
    · exact hn
    · rw [nodeD_default_of_ge s n (by omega)] at hk; cases hk
  obtain ⟨-, -, c3, -, -⟩ := D.inv.cur_facts
  rw [virt_nodeD, virtNode_valid] at c3
  obtain ⟨g', D', -, -, -⟩ := recomputeOne_full' E hF D h
  have old := IncrVerif.Props.C03.lhs_change_invalidates_old_generation env fuel n s s' (s.nodeD n) b br r0 r (some_of_lt hn) c3 hk hb hr h
  obtain ⟨rk', A'⟩ := all2_of_d D'
  refine ⟨g', D', fun m hm => ?_⟩
  obtain ⟨-, hv, -⟩ := old m hm
  have hnot : ∀ b', ¬ Reg s' b' m := fun b' hreg => by
    have := (reg_facts_all2 A' hreg).2.1
    rw [hv] at this; cases this
  exact ⟨step_unreg_dead D h ⟨br, hb, hm⟩ (hnot b), hv, hnot⟩

end
end IncrVerif.Proofs.GenF
