import IncrVerif.Proofs.FullH29
import IncrVerif.Proofs.FullH15
import IncrVerif.Proofs.FullH26
/-!
# C01 full fragment, the recompute step of a `map_ref` node, part 4: the step keeps the drain invariant `DInvF`
(port of `step_mapRef_node` of MapRef14)
-/
namespace IncrVerif.Proofs.FullH
open IncrVerif.Engine IncrVerif.Proofs IncrVerif.Proofs.Step IncrVerif.Proofs.Sched IncrVerif.Proofs.Quiet
open IncrVerif.Proofs.MapRefH (upd1 upd1_self upd1_other cleared cleared_nodeD cleared_started_nodeD After IsMapRef FM value_congr_mr)
open IncrVerif.Proofs.BindH (DInv BGraph StepRelB TargetB DKey NKey FrameB)
namespace MR

section
variable {env : Env} {sp : Nat → Val → Val} {g : Nat → Option Val} {s : State}

/-- a valid map_ref node whose flag is down has a ghost value, after the step -/
theorem AfterF.gsome {n : Nat} {v : Val} {Y : State} (h : AfterF n s Y) (G : GSome g s) : GSome (upd1 g n (some v)) Y := by
  intro m p i hv hk hd
  by_cases hmn : m = n
  · subst hmn; rw [upd1_self]; rfl
  · rw [upd1_other _ _ _ hmn]
    exact G m p i (by rw [← h.a.valid]; exact hv) (by rw [← h.a.kind]; exact hk) (h.a.flag m hmn hd)

/-- the drain invariant from the step relation of the virtual states and the description of the actual end state -/
theorem dinvF_after {t : State} {n p i : Nat} {vi : Val} {ch : Bool} {r : Option Nat} {s' : State}
    (D : DInvF env sp t s g (some n)) (S : MRS env sp g s n p i vi)
    (R : StepRelB n (env.proj p vi) ch r (virt g s) (virt (upd1 g n (some (env.proj p vi))) s'))
    (Fv : VFr (virt g s) (virt (upd1 g n (some (env.proj p vi))) s')) (A : AfterF n s s') :
    DInvF env sp t s' (upd1 g n (some (env.proj p vi))) r := by
  have V : VStep n (env.proj p vi) ch r (virt g s) (virt (upd1 g n (some (env.proj p vi))) s') :=
    ⟨R, Fv.key, Fv.hah, Fv.num, Fv.dk⟩
  have hk' : ∀ b, ((virt g s).nodeD n).kind ≠ .bindLhsChange b := by
    intro b; rw [S.vkind]; intro e; cases e
  obtain ⟨a1, a2⟩ := V.aux D.inv D.aux D.gen hk'
  obtain ⟨d1, d2⟩ := dep_stepB D.dep D.cr D.inv R A.a.kind A.a.cutoff
    (fun a b hka _ => by rw [S.kind] at hka; cases hka)
  exact ⟨A.frag D.frag S.lt _, BindH.stepB_inv D.inv S.target R, a1, a2, A.kinv D.k S.valid S.kind S.value,
    A.minv D.m S.kind, A.gsome D.gs, d1, d2⟩

end

end MR

open MR in
/-- **one step of the drain, a `map_ref` node**, with the step relation of the virtual states: the step keeps the drain invariant of the full fragment
(for the ghost updated at `n`) -/
theorem step_mapRef_rel {env : Env} {sp : Nat → Val → Val} {t s : State} {g : Nat → Option Val} {fuel n p i : Nat} {r : Option Nat}
    {s' : State} (D : DInvF env sp t s g (some n)) (hk : (s.nodeD n).kind = .mapRef p i)
    (h : (recomputeOne env fuel n).run.run s = (.ok r, s')) :
    ∃ g' v ch, DInvF env sp t s' g' r ∧ TargetB (VE env sp) (virt g s) n v ∧ StepRelB n v ch r (virt g s) (virt g' s') ∧
      (∀ m, m ≠ n → g' m = g m) ∧ g' n = some v ∧ s.value env n = some v ∧ ch = (s.nodeD n).didChange ∧
      (∀ m, (s'.nodeD m).kind = (s.nodeD m).kind) ∧ (∀ m, (s'.nodeD m).cutoff = (s.nodeD m).cutoff) := by
  have I := D.inv
  obtain ⟨hnv, hltv, hvv, -, -⟩ := I.cur_facts
  have hn : s.isNecessary n = true := by rw [← virt_isNecessary g s]; exact hnv
  have hlt : n < s.nodes.size := D.frag.lt_of_mapRef hk
  have hv : (s.nodeD n).valid = true := by rw [virt_nodeD, virtNode_valid] at hvv; exact hvv
  have hnn := some_of_lt hlt
  obtain ⟨htv, hsome⟩ := kids_settled D i (by rw [children_mapRef hv hk]; exact List.mem_singleton.2 rfl)
  obtain ⟨vi, hvi⟩ := Option.isSome_iff_exists.1 hsome
  have S : MRS env sp g s n p i vi := ⟨D.frag, I, hlt, hk, hn, hv, hvi, by rw [htv]; exact hvi⟩
  rw [MapRefH.recomputeOne_mapRef_run hnn hv hk] at h
  have A0 := AfterF.cleared n s hlt
  have fin : ∀ {ch : Bool}, ch = (s.nodeD n).didChange →
      StepRelB n (env.proj p vi) ch r (virt g s) (virt (upd1 g n (some (env.proj p vi))) s') →
      VFr (virt g s) (virt (upd1 g n (some (env.proj p vi))) s') → AfterF n s s' →
      ∃ g' v ch, DInvF env sp t s' g' r ∧ TargetB (VE env sp) (virt g s) n v ∧ StepRelB n v ch r (virt g s) (virt g' s') ∧
        (∀ m, m ≠ n → g' m = g m) ∧ g' n = some v ∧ s.value env n = some v ∧ ch = (s.nodeD n).didChange ∧
        (∀ m, (s'.nodeD m).kind = (s.nodeD m).kind) ∧ (∀ m, (s'.nodeD m).cutoff = (s.nodeD m).cutoff) := by
    intro ch hch R Fv A
    exact ⟨_, _, ch, dinvF_after D S R Fv A, S.target, R, fun m hm => upd1_other _ _ _ hm, upd1_self _ _ _, S.value, hch,
      A.a.kind, A.a.cutoff⟩
  rcases Bool.eq_false_or_eq_true (s.nodeD n).didChange with hd | hd
  · rw [hd] at h
    obtain ⟨R, Fv⟩ := S.stepRel_fire h
    have q : Step.Quiet (touched n (cleared n (started n s))) s' := mcvm_true_quiet _ _ _ _ _ _ _ _ h
    have fm : FM (cleared n (started n s)) s' := (MapRefH.PresFM.maybeChangeValueManual ..).h _ _ _ h
    exact fin (ch := true) hd.symm R Fv (A0.quiet q fm)
  · rw [hd, run_mcvm_false] at h
    cases h
    exact fin (ch := false) hd.symm (S.stepRel_quiet D.k hd) S.vfr A0

/-- **one step of the drain, a `map_ref` node**: the step keeps the drain invariant of the full fragment (for the ghost updated at `n`) -/
theorem step_mapRef {env : Env} {sp : Nat → Val → Val} {t s : State} {g : Nat → Option Val} {fuel n p i : Nat} {r : Option Nat}
    {s' : State} (D : DInvF env sp t s g (some n)) (hk : (s.nodeD n).kind = .mapRef p i)
    (h : (recomputeOne env fuel n).run.run s = (.ok r, s')) :
    ∃ g', DInvF env sp t s' g' r ∧ BindH.FrameB (virt g s) (virt g' s') ∧
      ((virt g' s').nodeD n).recomputedAt = s.stabNum ∧ ((virt g' s').nodeD n).valid = true := by
  obtain ⟨g', v, ch, D', -, R, -⟩ := step_mapRef_rel D hk h
  obtain ⟨-, -, hvv, -, -⟩ := D.inv.cur_facts
  exact ⟨g', D', R.frame, R.recomputedAt, R.shape.valid.trans hvv⟩

end IncrVerif.Proofs.FullH
