import IncrVerif.Proofs.NestH28
/-!
# Nested binds (F2), `lhsRelink`, part 4: the state after the first two updates; the pure prefix of `changeChildBindRhs` (through virtual
intermediate states); the linking part; the unforcing tail

Port of `BindH69` (`CR4`); the states `BR.pre`, `BR.pre4` and the lemmas `CR.stamped_*`, `CR.pre4_*` about them are reused.
New in F2: the validity of the bind's main node is a hypothesis (or follows from its necessity); `link_part` derives the scope height rule
for the main node itself (`stateAddParent_spec2`'s `hsh`) from the invariant before the run.
-/
namespace IncrVerif.Proofs.NestH
open IncrVerif.Engine IncrVerif.Proofs IncrVerif.Proofs.Step IncrVerif.Proofs.Sched IncrVerif.Proofs.Quiet
open IncrVerif.Proofs.BindH

namespace NR

section
variable {env : Env} {rk : Nat → Nat} {s : State} {ex : Nat → Prop} {dy : List Nat} {b n rhs : Nat} {br : BindRec}

/-- the basic facts about the two nodes of the bind -/
theorem bind_facts (I : GInv2 env rk s allClosed ex dy) (hb : s.binds[b]? = some br) (hl : br.lhsChange = n)
    (hvm : (s.nodeD br.main).valid = true) :
    n < br.main ∧ br.main < s.nodes.size ∧ (s.nodeD n).kind = .bindLhsChange b ∧
      (s.nodeD br.main).kind = .bindMain b n ∧ (s.nodeD n).valid = true ∧
      rk n < rk br.main ∧ (s.nodeD br.main).createdIn = (s.nodeD n).createdIn := by
  obtain ⟨r1, r2, r3, r4, r5⟩ := I.frag.recs b br hb
  have r6 := I.frag.recValid b br hb
  have r7 := I.frag.lc_rk_main hb hvm
  rw [hl] at r1 r3 r4 r5 r6 r7
  exact ⟨by omega, r2, r3, r4, by rw [← r6]; exact hvm, r7, r5⟩

/-- case `oldRhs = none` -/
theorem pre_inv_none (I : GInv2 env rk s allClosed ex dy) (hex : ex br.main)
    (hb : s.binds[b]? = some br) (hr : br.rhs = none) (hl : br.lhsChange = n)
    (hnecm : s.isNecessary br.main = true) (hrs : rhs < s.nodes.size) (hrhs : RhsOK2 rk s b n rhs)
    (hrm : (s.nodeD br.main).recomputedAt < s.stabNum) :
    GInv2 env rk (BR.pre b n rhs s.stabNum s) (upd allClosed br.main (.linking 1)) ex dy := by
  have hvm := I.valid_of_nec hnecm
  obtain ⟨hnm, hms, hkn, hkm, -, -, -⟩ := bind_facts I hb hl hvm
  have hn : n < s.nodes.size := by omega
  have IA := stamp I hkn hb rfl hkm hvm hn hex hrm
  have hmA := BR.stamped_main (s := s) hnm s.stabNum
  have hvA : ((BR.stamped n s.stabNum s).nodeD br.main).valid = true := by rw [hmA]; exact hvm
  have hkA : ((BR.stamped n s.stabNum s).nodeD br.main).kind = .bindMain b n := by rw [hmA]; exact hkm
  have hchA : (BR.stamped n s.stabNum s).children br.main = [n] := by
    rw [BR.children_main (br := br) hvA hkA hb, hr]; rfl
  have hnA : (BR.stamped n s.stabNum s).isNecessary br.main = true := by rw [CR.stamped_nec]; exact hnecm
  have IB := open_full IA rfl hnA
  rw [hchA] at IB
  refine setRhs (s := BR.stamped n s.stabNum s) (s' := BR.pre b n rhs s.stabNum s) (b := b) (n := n) (rhs := rhs)
    (br := br) IB hb hl (upd_self _ _ _) (by rw [CR.stamped_size]; exact hrs)
    (hrhs.congr (CR.stamped_createdIn _ _) (CR.stamped_kind _ _) (CR.stamped_valid _ _))
    (fun _ => rfl) rfl rfl rfl rfl rfl rfl (BR.pre_binds_self hb) (fun b' e => BR.pre_binds_other e) ?_
  rw [hmA, BR.stamped_self hn]; exact hrm

/-- case `oldRhs = some rhs`: the record does not change -/
theorem pre_inv_same (I : GInv2 env rk s allClosed ex dy) (hex : ex br.main)
    (hb : s.binds[b]? = some br) (hr : br.rhs = some rhs) (hl : br.lhsChange = n)
    (hvm : (s.nodeD br.main).valid = true)
    (hrm : (s.nodeD br.main).recomputedAt < s.stabNum) :
    GInv2 env rk (BR.pre b n rhs s.stabNum s) allClosed ex dy := by
  obtain ⟨hnm, hms, hkn, hkm, -, -, -⟩ := bind_facts I hb hl hvm
  have hn : n < s.nodes.size := by omega
  have IA := stamp I hkn hb rfl hkm hvm hn hex hrm
  exact IA.congr ⟨SameG.of_nodes rfl rfl rfl rfl rfl, BR.pre_binds_same hb hr⟩

/-- case `oldRhs = some o`, `o ≠ rhs` -/
theorem pre_inv_some {o pi : Nat} (I : GInv2 env rk s allClosed ex dy) (hex : ex br.main)
    (hb : s.binds[b]? = some br) (hr : br.rhs = some o) (hl : br.lhsChange = n)
    (hnecm : s.isNecessary br.main = true) (hrs : rhs < s.nodes.size) (hrhs : RhsOK2 rk s b n rhs) (hon : o ≠ n)
    (hrm : (s.nodeD br.main).recomputedAt < s.stabNum)
    (hidx : (s.nodeD o).parents.idxOf? (br.main, 1) = some pi) :
    GInv2 env rk (BR.pre4 b n rhs o pi s.stabNum s) (upd allClosed br.main (.linking 1)) ex dy := by
  have hvm := I.valid_of_nec hnecm
  obtain ⟨hnm, hms, hkn, hkm, -, -, -⟩ := bind_facts I hb hl hvm
  have hn : n < s.nodes.size := by omega
  have hch0 : s.children br.main = [n, o] := by
    rw [BR.children_main (br := br) hvm hkm hb, hr]; rfl
  have hk1 : (s.children br.main)[1]? = some o := by rw [hch0]; rfl
  have ho : o < s.nodes.size := I.kid_in hk1
  have hom : o ≠ br.main := I.kid_ne hk1
  have hvo : (s.nodeD o).valid = true := (I.frag.node br.main hms).kidsValid o (List.mem_of_getElem? hk1)
  have IA := stamp I hkn hb rfl hkm hvm hn hex hrm
  -- the virtual states: stamped, then forced, then the edge dropped
  have hszA : (BR.stamped n s.stabNum s).nodes.size = s.nodes.size := Array.size_modify
  have hoA : (BR.stamped n s.stabNum s).nodeD o = s.nodeD o := BR.stamped_other hon _
  have hmA := BR.stamped_main (s := s) hnm s.stabNum
  have hvA : ((BR.stamped n s.stabNum s).nodeD br.main).valid = true := by rw [hmA]; exact hvm
  have hkA : ((BR.stamped n s.stabNum s).nodeD br.main).kind = .bindMain b n := by rw [hmA]; exact hkm
  have hchA : (BR.stamped n s.stabNum s).children br.main = [n, o] := by
    rw [BR.children_main (br := br) hvA hkA hb, hr]; rfl
  have hnA : (BR.stamped n s.stabNum s).isNecessary br.main = true := by rw [CR.stamped_nec]; exact hnecm
  have memA : (br.main, 1) ∈ ((BR.stamped n s.stabNum s).nodeD o).parents :=
    IA.conv br.main 1 o (by rw [hchA]; rfl) ((wants_closed rfl).2 hnA)
  have hoB : (BR.forced o true (BR.stamped n s.stabNum s)).nodeD o =
      { (BR.stamped n s.stabNum s).nodeD o with forceNecessary := true } := by
    rw [BR.forced_nodeD, if_pos ⟨rfl, by rw [hszA]; exact ho⟩]
  have hmB : (BR.forced o true (BR.stamped n s.stabNum s)).nodeD br.main =
      (BR.stamped n s.stabNum s).nodeD br.main := by
    rw [BR.forced_nodeD, if_neg (fun e => hom e.1)]
  have hnBo : (BR.forced o true (BR.stamped n s.stabNum s)).isNecessary o = true := by
    rw [isNecessary_iff, hoB]; exact Or.inr (Or.inr rfl)
  have IB := (setForce (o := o) (f := true) IA (by rw [hoA]; exact hvo)).1
    (hnBo.trans (nec_of_mem_parents memA).symm)
  have hszB : (BR.forced o true (BR.stamped n s.stabNum s)).nodes.size = s.nodes.size := by
    rw [← hszA]; exact Array.size_modify
  have U : NodeUpd o (fParents (swapRemove ((BR.forced o true (BR.stamped n s.stabNum s)).nodeD o).parents pi))
      (BR.forced o true (BR.stamped n s.stabNum s))
      { BR.forced o true (BR.stamped n s.stabNum s) with
        nodes := (BR.forced o true (BR.stamped n s.stabNum s)).nodes.modify o (BR.fDrop pi) } :=
    NodeUpd.modify' (by rw [hszB]; exact ho) rfl
  have hidxB : ((BR.forced o true (BR.stamped n s.stabNum s)).nodeD o).parents.idxOf? (br.main, 1) = some pi := by
    rw [hoB]; show ((BR.stamped n s.stabNum s).nodeD o).parents.idxOf? (br.main, 1) = some pi
    rw [hoA]; exact hidx
  have hvB : ((BR.forced o true (BR.stamped n s.stabNum s)).nodeD br.main).valid = true := by rw [hmB]; exact hvA
  have hkB : ((BR.forced o true (BR.stamped n s.stabNum s)).nodeD br.main).kind = .bindMain b n := by
    rw [hmB]; exact hkA
  have hchB : (BR.forced o true (BR.stamped n s.stabNum s)).children br.main = [n, o] := by
    rw [BR.children_main (br := br) hvB hkB hb, hr]; rfl
  have hnB : (BR.forced o true (BR.stamped n s.stabNum s)).isNecessary br.main = true := by
    simp only [State.isNecessary, hmB]; exact hnA
  -- the nodes of the last virtual state and of the real one
  have hC : ∀ m, ({ BR.forced o true (BR.stamped n s.stabNum s) with
        nodes := (BR.forced o true (BR.stamped n s.stabNum s)).nodes.modify o (BR.fDrop pi) } : State).nodeD m =
      if o = m ∧ m < s.nodes.size then BR.fDrop pi (BR.fForce true ((BR.stamped n s.stabNum s).nodeD m))
      else (BR.stamped n s.stabNum s).nodeD m := by
    intro m
    have := BR.nodeD_modify2 (BR.stamped n s.stabNum s) o m (BR.fForce true) (BR.fDrop pi)
    rw [hszA] at this
    exact this
  have hnCo : ({ BR.forced o true (BR.stamped n s.stabNum s) with
        nodes := (BR.forced o true (BR.stamped n s.stabNum s)).nodes.modify o (BR.fDrop pi) } : State).isNecessary o =
      true := by
    rw [isNecessary_iff, hC, if_pos ⟨rfl, ho⟩]; exact Or.inr (Or.inr rfl)
  have IC := (IB.dropLastEdge hidxB U rfl rfl hnB (by rw [hchB]; rfl) (by rw [hchB]; rfl) rfl).1 hnCo
  have hmC : ({ BR.forced o true (BR.stamped n s.stabNum s) with
        nodes := (BR.forced o true (BR.stamped n s.stabNum s)).nodes.modify o (BR.fDrop pi) } : State).nodeD br.main =
      s.nodeD br.main := by
    rw [hC, if_neg (fun e => hom e.1)]; exact hmA
  have hCkey : ∀ m, (({ BR.forced o true (BR.stamped n s.stabNum s) with
        nodes := (BR.forced o true (BR.stamped n s.stabNum s)).nodes.modify o (BR.fDrop pi) } : State).nodeD m).createdIn
        = (s.nodeD m).createdIn ∧
      (({ BR.forced o true (BR.stamped n s.stabNum s) with
        nodes := (BR.forced o true (BR.stamped n s.stabNum s)).nodes.modify o (BR.fDrop pi) } : State).nodeD m).kind
        = (s.nodeD m).kind ∧
      (({ BR.forced o true (BR.stamped n s.stabNum s) with
        nodes := (BR.forced o true (BR.stamped n s.stabNum s)).nodes.modify o (BR.fDrop pi) } : State).nodeD m).valid
        = (s.nodeD m).valid := by
    intro m
    rw [hC]; split
    · exact ⟨CR.stamped_createdIn _ m, CR.stamped_kind _ m, CR.stamped_valid _ m⟩
    · exact ⟨CR.stamped_createdIn _ m, CR.stamped_kind _ m, CR.stamped_valid _ m⟩
  have hszC : ({ BR.forced o true (BR.stamped n s.stabNum s) with
        nodes := (BR.forced o true (BR.stamped n s.stabNum s)).nodes.modify o (BR.fDrop pi) } : State).nodes.size =
      s.nodes.size := by
    rw [← hszB]; exact Array.size_modify
  refine setRhs (s' := BR.pre4 b n rhs o pi s.stabNum s) (b := b) (n := n) (rhs := rhs) (br := br) IC hb hl
    (upd_self _ _ _) (by rw [hszC]; exact hrs)
    (hrhs.congr (hCkey rhs).1 (hCkey rhs).2.1 (hCkey rhs).2.2) ?_ ?_ rfl rfl rfl rfl rfl
    (BR.pre_binds_self (n := n) (v := s.stabNum) hb)
    (fun b' e => BR.pre_binds_other (n := n) (v := s.stabNum) e) ?_
  · intro m
    rw [BR.pre4_nodeD, hC]
    split <;> rfl
  · show ((((BR.pre b n rhs s.stabNum s).nodes.modify o (BR.fDrop pi)).modify o (BR.fForce true)).size) =
      ((BR.forced o true (BR.stamped n s.stabNum s)).nodes.modify o (BR.fDrop pi)).size
    rw [Array.size_modify, Array.size_modify, Array.size_modify, hszB]
    exact Array.size_modify
  · rw [hmC, hC, if_neg (fun e => hon e.1), BR.stamped_self hn]; exact hrm

/-! ## the linking part, from either prefix -/

theorem link_part {fuel : Nat} {t t' : State}
    (h : (stateAddParent env fuel rhs 1 br.main).run.run t = (.ok (), t'))
    (I : GInv2 env rk s allClosed ex dy) (It : GInv2 env rk t (upd allClosed br.main (.linking 1)) ex dy)
    (hex : ex br.main) (hat : AhhEmpty t) (hb : s.binds[b]? = some br) (hl : br.lhsChange = n)
    (hnecm : s.isNecessary br.main = true)
    (hpi : t.propagateInvalidity = []) (hrm : (s.nodeD br.main).recomputedAt < s.stabNum)
    (htm : t.nodeD br.main = s.nodeD br.main) (htn : t.nodeD n = { s.nodeD n with changedAt := s.stabNum })
    (htb : t.binds = (BR.pre b n rhs s.stabNum s).binds)
    (hF : ∀ m b' br', (t.nodeD m).forceNecessary = true → (t.nodeD m).createdIn = .bind b' →
      t.binds[b']? = some br' →
      t.isNecessary br'.lhsChange = true ∧ upd allClosed br.main (.linking 1) br'.lhsChange = .closed)
    (hdy : ∀ m, m ∈ dy → (t.nodeD m).createdIn = .bind b)
    (hnf : ∀ m, (s.nodeD m).forceNecessary = false)
    (hth : ∀ m, (t.nodeD m).height = (s.nodeD m).height)
    (htnec : ∀ m, s.isNecessary m = true → t.isNecessary m = true) :
    GInv2 env rk t' allClosed ex dy ∧ AhhEmpty t' ∧ BR.KRel t t' ∧ t'.isNecessary br.main = true := by
  have hvm := I.valid_of_nec hnecm
  obtain ⟨hnm, hms, hkn, hkm, -, -, -⟩ := bind_facts I hb hl hvm
  have hbt : t.binds[b]? = some { br with rhs := some rhs } := by rw [htb]; exact BR.pre_binds_self hb
  have hk0 : (s.children br.main)[0]? = some n := by rw [BR.children_main hvm hkm hb]; rfl
  have hmem := I.conv br.main 0 n hk0 ((wants_closed rfl).2 hnecm)
  refine stateAddParent_spec2 (b := b) (n := n) (br := { br with rhs := some rhs }) h It hex hat hbt rfl hl rfl
    ?_ ?_ ?_ hpi hF hdy ?_ ?_
  · rw [htn, htm]; exact I.hlt n br.main 0 hmem rfl
  · rw [htm]; exact I.hpos br.main hnecm rfl
  · rw [htm]; exact fun hq => I.hgt br.main hq rfl
  · rw [htm, htn]; exact hrm
  · -- the scope height rule for the main node itself (it may be the main node of an INNER bind)
    intro b' br' hc' hb'
    rw [htm] at hc'
    have hbb : b' ≠ b := by
      intro e
      rw [e] at hc'
      have := (I.frag.scope_rk hms hc' hb).2
      exact Nat.lt_irrefl _ this
    rw [htb, BR.pre_binds_other hbb] at hb'
    have hh := I.scopeH br.main b' br' hvm hc' hb' hnecm rfl
    have hn' : s.isNecessary br'.lhsChange = true :=
      NL.GInv2.scope_lc_nec I (fun m k e => by cases e)
        (fun m b0 br0 hf => by rw [hnf m] at hf; cases hf) hc' hb' hnecm
    exact ⟨by rw [hth, hth]; exact hh, htnec _ hn'⟩

/-! ## the unforcing tail -/

theorem unforce_part {fuel o : Nat} {t t' : State}
    (h : (checkIfUnnecessary fuel o).run.run (BR.forced o false t) = (.ok (), t'))
    (I : GInv2 env rk t allClosed ex dy) (hnec : t.isNecessary o = true) (E : AhhEmpty t) :
    GInv2 env rk t' allClosed ex dy ∧ AhhEmpty t' ∧ BR.KRel (BR.forced o false t) t' ∧
      AboveR2 rk (BR.forced o false t) o t' := by
  have hvo := I.valid_of_nec hnec
  have E8 : AhhEmpty (BR.forced o false t) := by
    refine BR.ahhEmpty_frame E rfl fun m => ?_
    rw [BR.forced_nodeD]; split <;> rfl
  have fin : ∀ op, GInv2 env rk (BR.forced o false t) op ex dy → upd op o .closed = allClosed →
      (∀ m, op m ≠ .closed → m = o) →
      (((BR.forced o false t).isNecessary o = true ∧ op o = .closed) ∨
        ((BR.forced o false t).isNecessary o = false ∧ op o = .unlinking 0)) →
      GInv2 env rk t' allClosed ex dy ∧ AhhEmpty t' ∧ BR.KRel (BR.forced o false t) t' ∧
        AboveR2 rk (BR.forced o false t) o t' := by
    intro op I8 hop hlow hcase
    obtain ⟨I9, hab, hu⟩ := checkIfUnnecessary_spec2 h I8
      (fun m hm => by rw [hlow m hm]; exact Nat.le_refl _) hcase
    rw [hop] at I9
    exact ⟨I9, BR.ahhEmpty_frame E8 (BR.CFrame.ahh hu.fr) (((BR.PresM.unlink fuel).2.1 o).h _ _ _ h),
      BR.KRel.of_cframe hu.fr hu.pinv, hab⟩
  cases hno : (BR.forced o false t).isNecessary o with
  | true =>
    exact fin allClosed ((setForce (o := o) (f := false) I hvo).1 (by rw [hno, hnec])) (BR.upd_allClosed_closed o)
      (fun m hm => absurd rfl hm) (Or.inl ⟨hno, rfl⟩)
  | false =>
    refine fin _ ((setForce (o := o) (f := false) I hvo).2 hnec rfl hno) ?_ ?_ (Or.inr ⟨hno, upd_self _ _ _⟩)
    · rw [upd_upd]; exact BR.upd_allClosed_closed o
    · intro m hm
      by_cases e : m = o
      · exact e
      · rw [upd_other _ _ _ e] at hm; exact absurd rfl hm

end

end NR

end IncrVerif.Proofs.NestH
