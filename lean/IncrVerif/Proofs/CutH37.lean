import IncrVerif.Proofs.CutH32
-- Port of Proofs/Quiet25.lean to ARBITRARY cutoffs (scratch name T25); overview in Props/C06History.lean
/-!
# Part 25: `stabiliseEnd` returns
-/
namespace IncrVerif.Proofs.CutH
open IncrVerif.Engine IncrVerif.Driver IncrVerif.Proofs IncrVerif.Proofs.Step IncrVerif.Proofs.Sched

/-- the nodes queued for the update handlers exist (kept by every engine function: `handleAfterStabilisation n`
pushes `n` only after a successful `getNode n`, and nodes are never removed) -/
def HasRange (s : State) : Prop := ∀ n, n ∈ s.handleAfterStab → n < s.nodes.size

namespace P25

/-- the node array does not shrink and `HasRange` is kept -/
def HasR (s s' : State) : Prop := s.nodes.size ≤ s'.nodes.size ∧ (HasRange s → HasRange s')

theorem HasR.refl (s : State) : HasR s s := ⟨Nat.le_refl _, id⟩
theorem HasR.trans {a b c : State} (h1 : HasR a b) (h2 : HasR b c) : HasR a c :=
  ⟨Nat.le_trans h1.1 h2.1, fun h => h2.2 (h1.2 h)⟩
instance : PreOrd HasR := ⟨HasR.refl, HasR.trans⟩

theorem HasR.of_same {s s' : State} (h1 : s'.nodes.size = s.nodes.size)
    (h2 : s'.handleAfterStab = s.handleAfterStab) : HasR s s' := by
  refine ⟨by rw [h1]; exact Nat.le_refl _, fun h n hn => ?_⟩
  rw [h2] at hn; rw [h1]; exact h n hn

theorem PresH.modNode (n : Nat) (f : Node → Node) : Step.Pres HasR (modNode n f) := by
  unfold Engine.modNode
  exact Step.Pres.modify fun s => HasR.of_same (Array.size_modify ..) rfl

macro_rules
  | `(tactic| qleaf) =>
    `(tactic| ((with_reducible apply Step.Pres.modify); intro _; exact HasR.of_same rfl rfl))
macro_rules
  | `(tactic| qleaf) => `(tactic| (with_reducible apply PresH.modNode))

macro "hr_leaf " n:ident : command =>
  `(macro_rules | `(tactic| qleaf) => `(tactic| with_reducible apply $n))

theorem PresH.handleAfterStabilisation (n) : Step.Pres HasR (handleAfterStabilisation n) := by
  constructor
  intro s r s' h
  unfold Engine.handleAfterStabilisation at h
  rw [run_bind, run_getNode] at h
  cases hn : s.nodes[n]? with
  | none => rw [hn] at h; cases h; exact HasR.refl s
  | some nd =>
    rw [hn] at h
    simp only at h
    split at h
    · rw [run_bind_modNode, run_modify] at h
      cases h
      refine ⟨by simp, fun hs m hm => ?_⟩
      simp only [List.mem_append, List.mem_singleton] at hm
      simp only [Array.size_modify]
      rcases hm with hm | hm
      · exact hs m hm
      · rw [hm]; exact lt_of_some hn
    · rw [run_pure] at h; cases h; exact HasR.refl s
hr_leaf PresH.handleAfterStabilisation

theorem PresH.tick : Step.Pres HasR tick := by unfold Engine.tick; qpres
hr_leaf PresH.tick
theorem PresH.logEv (e) : Step.Pres HasR (logEv e) := by unfold Engine.logEv; qpres
hr_leaf PresH.logEv
theorem PresH.modExpert (e f) : Step.Pres HasR (modExpert e f) := by unfold Engine.modExpert; qpres
hr_leaf PresH.modExpert
theorem PresH.modBind (e f) : Step.Pres HasR (modBind e f) := by unfold Engine.modBind; qpres
hr_leaf PresH.modBind
theorem PresH.bumpCounter (f) : Step.Pres HasR (bumpCounter f) := by unfold Engine.bumpCounter; qpres
hr_leaf PresH.bumpCounter
theorem PresH.edgeOnChange (env e edge) : Step.Pres HasR (edgeOnChange env e edge) := by
  unfold Engine.edgeOnChange; qpres
hr_leaf PresH.edgeOnChange
theorem PresH.runEdgeCallback (env e i) : Step.Pres HasR (runEdgeCallback env e i) := by
  unfold Engine.runEdgeCallback; qpres
hr_leaf PresH.runEdgeCallback
theorem PresH.observabilityChange (e b) : Step.Pres HasR (observabilityChange e b) := by
  unfold Engine.observabilityChange; qpres
hr_leaf PresH.observabilityChange
theorem PresH.setHeight (n h) : Step.Pres HasR (setHeight n h) := by unfold Engine.setHeight; qpres
hr_leaf PresH.setHeight
theorem PresH.rchLink (n) : Step.Pres HasR (rchLink n) := by unfold Engine.rchLink; qpres
hr_leaf PresH.rchLink
theorem PresH.rchInsert (n) : Step.Pres HasR (rchInsert n) := by unfold Engine.rchInsert; qpres
hr_leaf PresH.rchInsert
theorem PresH.rchUnlink (n) : Step.Pres HasR (rchUnlink n) := by unfold Engine.rchUnlink; qpres
hr_leaf PresH.rchUnlink
theorem PresH.rchRemove (n) : Step.Pres HasR (rchRemove n) := by unfold Engine.rchRemove; qpres
hr_leaf PresH.rchRemove
theorem PresH.addParent (c i p) : Step.Pres HasR (addParent c i p) := by unfold Engine.addParent; qpres
hr_leaf PresH.addParent
theorem PresH.removeParent (c i p) : Step.Pres HasR (removeParent c i p) := by
  unfold Engine.removeParent; qpres
hr_leaf PresH.removeParent
theorem PresH.maybeHandleAfterStabilisation (n) : Step.Pres HasR (maybeHandleAfterStabilisation n) := by
  unfold Engine.maybeHandleAfterStabilisation; qpres
hr_leaf PresH.maybeHandleAfterStabilisation
theorem PresH.scopeIsNecessary (sc) : Step.Pres HasR (scopeIsNecessary sc) := by
  unfold Engine.scopeIsNecessary; qpres
hr_leaf PresH.scopeIsNecessary

theorem PresH.markMapRefUnknown (fuel n) : Step.Pres HasR (markMapRefUnknown fuel n) := by
  induction fuel generalizing n with
  | zero => unfold Engine.markMapRefUnknown; qpres
  | succ fuel ih =>
    unfold Engine.markMapRefUnknown
    qpres
    all_goals (apply Step.Pres.forIn; intro a b; qpres; exact ih _)
hr_leaf PresH.markMapRefUnknown

theorem PresH.link (env : Env) (fuel : Nat) :
    (∀ n, Step.Pres HasR (becameNecessary env fuel n)) ∧
    (∀ c i p, Step.Pres HasR (addParentWithoutAdjustingHeights env fuel c i p)) := by
  induction fuel with
  | zero =>
    constructor
    · intro n; unfold becameNecessary; qpres
    · intro c i p; unfold addParentWithoutAdjustingHeights; qpres
  | succ fuel ih =>
    constructor
    · intro n
      unfold becameNecessary
      qpres
      all_goals (apply Step.Pres.forIn; intro a b; qpres; exact ih.2 _ _ _)
    · intro c i p
      unfold addParentWithoutAdjustingHeights
      qpres
      all_goals exact ih.1 _

theorem PresH.becameNecessary (env fuel n) : Step.Pres HasR (becameNecessary env fuel n) :=
  (PresH.link env fuel).1 n
hr_leaf PresH.becameNecessary

theorem PresH.unlink (fuel : Nat) :
    (∀ n, Step.Pres HasR (becameUnnecessary fuel n)) ∧
    (∀ n, Step.Pres HasR (checkIfUnnecessary fuel n)) ∧
    (∀ n, Step.Pres HasR (removeChildren fuel n)) := by
  induction fuel with
  | zero =>
    refine ⟨?_, ?_, ?_⟩
    · intro n; unfold becameUnnecessary; qpres
    · intro n; unfold checkIfUnnecessary; qpres
    · intro n; unfold removeChildren; qpres
  | succ fuel ih =>
    refine ⟨?_, ?_, ?_⟩
    · intro n
      unfold becameUnnecessary
      qpres
      all_goals exact ih.2.2 _
    · intro n
      unfold checkIfUnnecessary
      qpres
      all_goals exact ih.1 _
    · intro n
      unfold removeChildren
      qpres
      all_goals (apply Step.Pres.forIn; intro a b; qpres; exact ih.2.1 _)

theorem PresH.checkIfUnnecessary (fuel n) : Step.Pres HasR (checkIfUnnecessary fuel n) :=
  (PresH.unlink fuel).2.1 n
hr_leaf PresH.checkIfUnnecessary
theorem PresH.removeChildren (fuel n) : Step.Pres HasR (removeChildren fuel n) :=
  (PresH.unlink fuel).2.2 n
hr_leaf PresH.removeChildren

theorem PresH.invalidateNode (fuel n) : Step.Pres HasR (invalidateNode fuel n) := by
  induction fuel generalizing n with
  | zero => unfold Engine.invalidateNode; qpres
  | succ fuel ih =>
    unfold Engine.invalidateNode
    qpres
    all_goals (apply Step.Pres.forIn; intro a b; qpres; try exact ih _)
hr_leaf PresH.invalidateNode

theorem PresH.propagateInvalidity (fuel) : Step.Pres HasR (propagateInvalidity fuel) := by
  induction fuel with
  | zero => unfold Engine.propagateInvalidity; qpres
  | succ fuel ih =>
    unfold Engine.propagateInvalidity
    qpres
    all_goals exact ih
hr_leaf PresH.propagateInvalidity

theorem PresH.becameNecessaryPropagate (env fuel n) :
    Step.Pres HasR (becameNecessaryPropagate env fuel n) := by
  unfold Engine.becameNecessaryPropagate; qpres
hr_leaf PresH.becameNecessaryPropagate

theorem PresH.getObs (o) : Step.Pres HasR (getObs o) := by unfold Engine.getObs; qpres
hr_leaf PresH.getObs
theorem PresH.modObs (o f) : Step.Pres HasR (modObs o f) := by unfold Engine.modObs; qpres
hr_leaf PresH.modObs

theorem PresH.addNewObservers (env fuel) : Step.Pres HasR (addNewObservers env fuel) := by
  unfold Engine.addNewObservers
  qpres
  all_goals (apply Step.Pres.forIn; intro a b; qpres)

theorem PresH.unlinkDisallowedObservers (fuel) : Step.Pres HasR (unlinkDisallowedObservers fuel) := by
  unfold Engine.unlinkDisallowedObservers
  qpres
  all_goals (apply Step.Pres.forIn; intro a b; qpres)


/-- a loop whose iterations all return, yield, and leave the state `K` alone -/
theorem forIn_same {α β} (K : State) (f : α → β → M (ForInStep β)) (l : List α)
    (hf : ∀ a, a ∈ l → ∀ b, Tot (f a b) K (fun r t => t = K ∧ ∃ b', r = .yield b')) :
    ∀ b, Tot (forIn l b f) K (fun _ t => t = K) := by
  induction l with
  | nil => intro b; exact ⟨b, K, by rw [List.forIn_nil, run_pure], rfl⟩
  | cons a l ih =>
    intro b
    obtain ⟨r, t, h1, e1, b1, er⟩ := hf a (List.mem_cons_self ..) b
    rw [e1, er] at h1
    obtain ⟨b2, t2, h2, e2⟩ := ih (fun a' ha' => hf a' (List.mem_cons_of_mem _ ha')) b1
    exact ⟨b2, t2, by rw [List.forIn_cons, run_bind_ok h1]; exact h2, e2⟩

/-- the third loop of `stabiliseEnd` (stated for any body that behaves like it) -/
theorem loop3 {s : State}
    (f : Nat → List (Nat × NodeUpdate) → M (ForInStep (List (Nat × NodeUpdate))))
    (hf : ∀ n q t, ∃ nu, (f n q).run.run t = (.ok (.yield (q ++ [(n, nu)])),
      { t with nodes := t.nodes.modify n fun x => { x with inHandleAfterStab := false } }))
    (hs : List Nat) (hhs : ∀ n, n ∈ hs → n < s.nodes.size) :
    ∀ q t, Mid s t → (∀ p, p ∈ q → p.1 < s.nodes.size) →
      ∃ q' t', (forIn hs q f).run.run t = (.ok q', t') ∧ Mid s t' ∧ (∀ p, p ∈ q' → p.1 < s.nodes.size) := by
  induction hs with
  | nil => intro q t M hq; exact ⟨q, t, by rw [List.forIn_nil, run_pure], M, hq⟩
  | cons a l ih =>
    intro q t M hq
    obtain ⟨nu, h1⟩ := hf a q t
    have hq' : ∀ p, p ∈ q ++ [(a, nu)] → p.1 < s.nodes.size := by
      intro p hp
      simp only [List.mem_append, List.mem_singleton] at hp
      rcases hp with hp | hp
      · exact hq p hp
      · rw [hp]; exact hhs a (List.mem_cons_self ..)
    obtain ⟨q2, t2, h2, M2, hq2⟩ := ih (fun n hn => hhs n (List.mem_cons_of_mem _ hn)) _ _ (M.modNode a false) hq'
    exact ⟨q2, t2, by rw [List.forIn_cons, run_bind_ok h1]; exact h2, M2, hq2⟩

theorem runAll_ret {env : Env} {fuel o n : Nat} {nu : NodeUpdate} {now : Int} {s : State} {ob : ObsRec}
    (ho : s.observers[o]? = some ob) (hh : ob.handlers = []) :
    (runAll env fuel o n nu now).run.run s = (.ok (), s) := by
  have hg : (getObs o).run.run s = (.ok ob, s) := by rw [CutH.run_getObs, ho]
  unfold runAll
  rw [run_bind_ok hg, hh]
  dsimp only
  rw [List.forIn_nil]
  rfl

end P25

theorem addNewObservers_hasRange {env : Env} {fuel : Nat} {s s' : State} {r : Except Panic Unit}
    (h : (addNewObservers env fuel).run.run s = (r, s')) (hs : HasRange s) : HasRange s' :=
  ((P25.PresH.addNewObservers env fuel).h _ _ _ h).2 hs

theorem unlinkDisallowedObservers_hasRange {fuel : Nat} {s s' : State} {r : Except Panic Unit}
    (h : (unlinkDisallowedObservers fuel).run.run s = (r, s')) (hs : HasRange s) : HasRange s' :=
  ((P25.PresH.unlinkDisallowedObservers fuel).h _ _ _ h).2 hs

theorem stabiliseEnd_total {env : Env} {fuel : Nat} {s : State} (h1 : s.setDuringStab = [])
    (h2 : s.deadVars = [])
    (hobs : ∀ (o : Nat) (ob : ObsRec), s.observers[o]? = some ob → ob.handlers = [])
    (hhs : ∀ n, n ∈ s.handleAfterStab → n < s.nodes.size)
    (hno : ∀ n o, o ∈ (s.nodeD n).observers → o < s.observers.size) :
    Tot (stabiliseEnd env fuel) s (fun _ _ => True) := by
  unfold stabiliseEnd
  refine Tot.bind_modify ?_
  refine Tot.bind_get ?_
  dsimp only
  refine Tot.bind_modify ?_
  rw [h1, List.forIn_nil]
  refine Tot.bind_ok (run_pure _ _) ?_
  refine Tot.bind_get ?_
  dsimp only
  refine Tot.bind_modify ?_
  rw [h2, List.forIn_nil]
  refine Tot.bind_ok (run_pure _ _) ?_
  refine Tot.bind_get ?_
  dsimp only
  refine Tot.bind_modify ?_
  refine Tot.bind (Q := fun q t => Mid s t ∧ ∀ p, p ∈ q → p.1 < s.nodes.size) ?_ ?_
  · refine P25.loop3 (s := s) _ ?_ s.handleAfterStab hhs [] _ ?_ ?_
    · intro n q t
      exact ⟨_, by rw [run_bind_modNode, run_bind_get, run_pure]⟩
    · exact ⟨rfl, fun m => ⟨_, rfl⟩, rfl, rfl, rfl, rfl, rfl, rfl, rfl, rfl, rfl, rfl, rfl, rfl, rfl, rfl, rfl,
        rfl, rfl, rfl⟩
    · intro p hp; cases hp
  intro q t _ ⟨M, hq⟩
  refine Tot.bind_modify ?_
  refine Tot.bind_get ?_
  refine Tot.bind (P25.forIn_same _ _ q ?_ _) ?_
  · intro x hx b
    have hlt : x.1 < t.nodes.size := by rw [M.size]; exact hq x hx
    refine Tot.bind_getNode hlt ?_
    refine Tot.bind (P25.forIn_same _ _ _ ?_ _) ?_
    · intro o ho b2
      have ho' : o ∈ (s.nodeD x.1).observers := by
        obtain ⟨bb, hbb⟩ := M.node x.1
        have : (t.nodeD x.1).observers = (s.nodeD x.1).observers := by rw [hbb]
        rw [← this]; exact ho
      have hlo := hno _ _ ho'
      have hsome : s.observers[o]? = some s.observers[o] := Array.getElem?_eq_getElem hlo
      have hh := hobs o _ hsome
      refine Tot.bind_ok (P25.runAll_ret (ob := s.observers[o]) ?_ hh) (Tot.pure ⟨rfl, _, rfl⟩)
      show t.observers[o]? = _
      rw [M.observers]; exact hsome
    · intro _ t1 _ e
      rw [e]
      exact Tot.pure ⟨rfl, _, rfl⟩
  intro _ t1 _ e
  rw [e]
  refine Tot.bind_modify ?_
  exact ⟨(), _, run_modify _ _, trivial⟩

end IncrVerif.Proofs.CutH
