import IncrVerif.Proofs.BindH29
import IncrVerif.Proofs.BindH22
import IncrVerif.Proofs.BindH26
import IncrVerif.Proofs.BindH13
/-!
# Binds, part 2f: fragment F0 during a drain — the extra invariant `F0Inv`, and `GInvB` from `DInv`

F0: closures create no nodes and return a top-level node that is older than the bind (and is not a change detector).
-/
namespace IncrVerif.Proofs.BindH
open IncrVerif.Engine IncrVerif.Proofs IncrVerif.Proofs.Step IncrVerif.Proofs.Sched IncrVerif.Proofs.Quiet

/-- what a drain of an F0 program carries in addition to `DInv` -/
structure F0Inv (env : Env) (s : State) : Prop where
  frag : AllB env s
  nodup : ∀ c, (s.nodeD c).parents.Nodup
  ahh : AhhEmpty s
  /-- closures create no nodes -/
  noRhsNodes : ∀ (b : Nat) (br : BindRec), s.binds[b]? = some br → br.allNodesCreatedOnRhs = []
  /-- closures return an older top-level node that is not a change detector -/
  closures : ∀ (b : Nat) (br : BindRec) (v : Val), s.binds[b]? = some br →
    (env.body br.body v).instrs = [] ∧
    ∃ k r, (env.body br.body v).ret = .outer k ∧ s.top[k]? = some r ∧ r < br.lhsChange ∧
      ∀ b', (s.nodeD r).kind ≠ .bindLhsChange b'
  /-- the installed right-hand sides are older than the bind too -/
  rhsOld : ∀ (b : Nat) (br : BindRec) (o : Nat), s.binds[b]? = some br → br.rhs = some o →
    o < br.lhsChange ∧ ∀ b', (s.nodeD o).kind ≠ .bindLhsChange b'
  /-- the two nodes of a bind record -/
  recs : ∀ (b : Nat) (br : BindRec), s.binds[b]? = some br →
    br.lhsChange < br.main ∧ br.main < s.nodes.size ∧ (s.nodeD br.lhsChange).kind = .bindLhsChange b ∧
      (s.nodeD br.main).kind = .bindMain b br.lhsChange
  pinv : s.propagateInvalidity = []
  noForce : ∀ m, (s.nodeD m).forceNecessary = false
  /-- change detectors are never observed -/
  lcObs : ∀ m b, (s.nodeD m).kind = .bindLhsChange b → (s.nodeD m).observers = []
  /-- change detectors always propagate -/
  lcCut : ∀ m b, (s.nodeD m).kind = .bindLhsChange b → (s.nodeD m).cutoff = .never

/-- during a drain the structural invariant with open nodes holds with every node closed and the current node
excused -/
theorem ginvB_of_dinv {env : Env} {s : State} {x : Option Nat} (I : DInv env s x) (A : F0Inv env s) :
    GInvB env s allClosed (fun m => x = some m) where
  frag := A.frag
  par c p i h := by
    obtain ⟨h1, h2⟩ := I.graph.parent c p i h
    exact ⟨h2, (wants_closed rfl).2 h1⟩
  conv p i c hk hw := (I.graph.child p ((wants_closed rfl).1 hw) i c hk).2.1
  nodup := A.nodup
  hlt c p i h _ := by
    obtain ⟨h1, h2⟩ := I.graph.parent c p i h
    exact (I.graph.child p h1 i c h2).2.2
  hpos n hn _ := (I.graph.nec n hn).2
  lnec p k h := by cases h
  unec p k h := by cases h
  heap := ⟨I.heap.wf, fun m hm => by rw [I.heap.hgt m hm]; exact I.heap.lb m hm, I.heap.lb0⟩
  hgt m hm _ := I.heap.hgt m hm
  qnec m hm := Or.inl (I.heap.nec m hm)
  queued m _ hn hs hex := by
    rcases I.pending m hn hs with h | h
    · exact h
    · exact absurd h hex
  qstale := I.qstale
  opLt m h := absurd rfl h

/-- `BGraph` from the structural invariant at rest (whatever is excused) -/
theorem bgraph_of_ginvB {env : Env} {s : State} {ex : Nat → Prop} (I : GInvB env s allClosed ex)
    (hvar : ∀ n c, n < s.nodes.size → (s.nodeD n).kind = .var c → ∃ vc, s.vars[c]? = some vc) :
    BGraph env s where
  pc := I.frag.pc
  node n hn _ := by
    have sn := I.node hn
    refine ⟨sn.kind, sn.cutoff, fun c hc => ?_⟩
    have hlt : c < s.nodes.size := by have := sn.kidsLt c hc; omega
    exact ⟨hlt, (I.node hlt).valid⟩
  nec n hn := ⟨(I.node (nec_lt_size hn)).valid, I.hpos n hn rfl⟩
  var n c hn _ hk := hvar n c hn hk
  child n hn i c hk := by
    have hm := I.conv n i c hk ((wants_closed rfl).2 hn)
    exact ⟨nec_of_mem_parents hm, hm, I.hlt c n i hm rfl⟩
  parent c p i h := by
    obtain ⟨h1, h2⟩ := I.par c p i h
    exact ⟨(wants_closed rfl).1 h2, h1⟩
  scope n b hn _ hsc := by
    have := (I.node hn).top
    rw [hsc] at this; cases this
  lcRec n b hn _ hk := (I.node hn).lcRec b hk
  mainRec n b lc hn _ hk := by
    obtain ⟨br, h1, h2, h3⟩ := (I.node hn).mainRec b lc hk
    refine ⟨br, h1, h2, h3, ?_⟩
    rw [(I.node hn).top]
    by_cases hl : lc < s.nodes.size
    · exact (I.node hl).top
    · rw [nodeD_default s lc (by omega)]; rfl
  lcChild m c b hm _ hc hk := (I.node hm).lcChild c b hc hk
  acyc := by
    refine ⟨id, ?_⟩
    intro a c h
    cases h with
    | child hc =>
      by_cases ha : a < s.nodes.size
      · exact (I.node ha).kidsLt c hc
      · rw [children_default s a (by omega)] at hc; cases hc
    | scope hv hsc hb =>
      by_cases ha : a < s.nodes.size
      · have := (I.node ha).top
        rw [hsc] at this; cases this
      · rw [nodeD_default s a (by omega)] at hsc; cases hsc

theorem heapInv_of_ginvB {env : Env} {s : State} {ex : Nat → Prop} (I : GInvB env s allClosed ex) :
    HeapInv s where
  wf := I.heap.wf
  hgt m hm := I.hgt m hm rfl
  lb m hm := by rw [← I.hgt m hm rfl]; exact I.heap.lb m hm
  lb0 := I.heap.lb0
  nec m hm := by
    rcases I.qnec m hm with h | ⟨k, h⟩
    · exact h
    · cases h

/-! ## the contract between the two halves of the run of a change detector -/

/-- the part of the run of a change detector `n` of bind `b` that installs the new right-hand side -/
def relink (env : Env) (fuel b n main : Nat) (oldRhs : Option Nat) (rhs : Nat) (now : Int) : M Unit := do
  modBind b fun x => { x with rhs := some rhs }
  modNode n fun x => { x with changedAt := now }
  changeChildBindRhs env fuel main oldRhs rhs 1

/-- what `relink` keeps: everything except edges, necessity, heights, the heaps' contents, counters and the log;
the record of bind `b` gets the new right-hand side; `n` gets the stamp of the round -/
structure RRelB (b n rhs : Nat) (br : BindRec) (s s' : State) : Prop where
  size : s'.nodes.size = s.nodes.size
  node : ∀ m, m ≠ n → Quiet.nodeKey (s'.nodeD m) = Quiet.nodeKey (s.nodeD m)
  self : Quiet.nodeKey (s'.nodeD n) = Quiet.nodeKey ({ s.nodeD n with changedAt := s.stabNum })
  bind : s'.binds[b]? = some { br with rhs := some rhs }
  bindsSize : s'.binds.size = s.binds.size
  bindsOther : ∀ b', b' ≠ b → s'.binds[b']? = s.binds[b']?
  vars : s'.vars = s.vars
  stabNum : s'.stabNum = s.stabNum
  status : s'.status = s.status
  cfg : s'.cfg = s.cfg
  scope : s'.currentScope = s.currentScope
  pc : s'.panicCountdown = s.panicCountdown
  qsize : s'.rch.queues.size = s.rch.queues.size
  top : s'.top = s.top

/-- the specification of `relink` in fragment F0 -/
def RelinkSpec (env : Env) : Prop :=
  ∀ (fuel b n main rhs : Nat) (oldRhs : Option Nat) (s s' : State) (br : BindRec) (ex : Nat → Prop),
    (relink env fuel b n main oldRhs rhs s.stabNum).run.run s = (.ok (), s') →
    GInvB env s allClosed ex → ex main → AhhEmpty s →
    s.binds[b]? = some br → br.rhs = oldRhs → br.main = main → br.lhsChange = n →
    (s.nodeD n).kind = .bindLhsChange b → (s.nodeD main).kind = .bindMain b n → n < main →
    main < s.nodes.size → s.isNecessary main = true →
    rhs < n → (∀ b', (s.nodeD rhs).kind ≠ .bindLhsChange b') →
    (∀ o, oldRhs = some o → o < n ∧ ∀ b', (s.nodeD o).kind ≠ .bindLhsChange b') →
    (∀ (b' : Nat) (br' : BindRec), s.binds[b']? = some br' → br'.allNodesCreatedOnRhs = []) →
    (∀ m, (s.nodeD m).forceNecessary = false) → s.propagateInvalidity = [] →
    (s.nodeD main).recomputedAt < s.stabNum → (s.nodeD n).recomputedAt = s.stabNum →
    (∀ m, (s.nodeD m).changedAt ≤ s.stabNum) →
    GInvB env s' allClosed ex ∧ AhhEmpty s' ∧ RRelB b n rhs br s s' ∧ s'.propagateInvalidity = [] ∧
      (∀ m, (s'.nodeD m).forceNecessary = false)

end IncrVerif.Proofs.BindH
