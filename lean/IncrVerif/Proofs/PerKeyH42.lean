import IncrVerif.Proofs.PerKeyH1
/-!
# Per-key operators, pure logic: a REWIRING-WITH-CREATION step `StepP` keeps the drain invariant

Port of `DriverH.stepW_inv` (Proofs/DriverH2.lean) to `StepP` (rewiring plus node creation).

CONTRACT NOTE.  `StepP.new` only says that a new node has `recomputedAt = -1`.  For every kind of the fragment EXCEPT
`var` this makes a valid new node stale (`isStale_new_of_notVar`); for a `var` node staleness is `vc.setAt > -1`, which
`Stamps` does not give (`Stamps.var` is only an upper bound).  A valid non-stale new node would have to be consistent
(`DInv.cons`), of which `StepP` says nothing, so the clause
  `newStale : ∀ m, s.nodes.size ≤ m → m < s'.nodes.size → (s'.nodeD m).valid = true → s'.isStale m = true`
(the third conjunct of `BindH.StepL.new`) is MISSING from `StepP`.  Here it is the explicit hypothesis `NewStale s s'`;
`newStale_of_noNewVar` derives it from `StepP` when no valid new node is a `var`.
-/
namespace IncrVerif.Proofs.PerKeyH
open IncrVerif.Engine IncrVerif.Proofs IncrVerif.Proofs.Step IncrVerif.Proofs.Sched IncrVerif.Proofs.BindH

/-- the clause missing from `StepP`: valid new nodes are stale -/
def NewStale (s s' : State) : Prop :=
  ∀ m, s.nodes.size ≤ m → m < s'.nodes.size → (s'.nodeD m).valid = true → s'.isStale m = true

/-- a valid node of a kind of the bind fragment that has never been computed and is not a variable is stale -/
theorem isStale_new_of_notVar {env : Env} {s : State} {m : Nat} (hv : (s.nodeD m).valid = true)
    (hk : BKind env (s.nodeD m).kind) (hnv : ∀ c, (s.nodeD m).kind ≠ .var c)
    (hr : (s.nodeD m).recomputedAt = -1) : s.isStale m = true := by
  unfold State.isStale
  simp only [Node.kind?, hv, if_true, hr]
  cases hkd : (s.nodeD m).kind <;> rw [hkd] at hk <;> first
    | exact hk.elim
    | exact absurd hkd (hnv _)
    | rfl
    | simp

section
variable {env : Env} {X : Nat → Prop} {n : Nat} {s s' : State}

/-- `NewStale` from the contract, when no valid new node is a variable -/
theorem newStale_of_noNewVar (R : StepP env X n s s')
    (h : ∀ m c, s.nodes.size ≤ m → m < s'.nodes.size → (s'.nodeD m).valid = true → (s'.nodeD m).kind ≠ .var c) :
    NewStale s s' := by
  intro m h1 h2 hv
  exact isStale_new_of_notVar hv (R.graph'.node m h2 hv).1 (fun c => h m c h1 h2 hv) (R.new m h1 h2)

/-- staleness of an old node that is not rewired is unchanged -/
theorem StepP.stale_kept (R : StepP env X n s s') (g : BGraph env s) {m : Nat} (hm : m < s.nodes.size)
    (hX : ¬ X m) : s'.isStale m = s.isStale m := by
  obtain ⟨k0, -, -, -, k⟩ := R.old m hm
  obtain ⟨k1, k4, k6⟩ := k hX
  cases hv : (s.nodeD m).valid with
  | false => rw [isStale_invalid hv, isStale_invalid (by rw [k0]; exact hv)]
  | true =>
    have hB := (g.node m hm hv).1
    apply isStale_congr hB k1 k0 k4 (fun c => by rw [R.vars]) k6
    intro c hc
    have hclt := ((g.node m hm hv).2.2 c hc).1
    exact (R.old c hclt).2.2.2.1

/-- an edge of the new graph that leaves an old node that is not rewired is an edge of the old graph -/
theorem StepP.edge_old (R : StepP env X n s s') {a c : Nat}
    (ha : a < s.nodes.size) (hX : ¬ X a) (he : Edge s' a c) : Edge s a c := by
  obtain ⟨k0, k2, -, -, k⟩ := R.old a ha
  cases he with
  | child hc => rw [(k hX).2.2] at hc; exact Edge.child hc
  | scope hv2 hsc hb =>
    rw [R.binds] at hb
    rw [k2] at hsc
    exact Edge.scope (by rw [← k0]; exact hv2) hsc hb

/-- a path of the new graph that starts at an OLD node is, in the OLD graph, a path to its first rewired node, or (no
rewired node on it) a path to the same end, which is an old node: the path never reaches a new node -/
theorem StepP.path_old (R : StepP env X n s s') (g : BGraph env s) {a d : Nat} (h : Below s' a d)
    (ha : a < s.nodes.size) :
    (∃ x, X x ∧ Below s a x) ∨ (Below s a d ∧ ¬ X d ∧ d < s.nodes.size) := by
  induction h with
  | refl a =>
    by_cases haX : X a
    · exact Or.inl ⟨a, haX, Below.refl a⟩
    · exact Or.inr ⟨Below.refl a, haX, ha⟩
  | step he hcd ih =>
    rename_i a c d
    by_cases haX : X a
    · exact Or.inl ⟨a, haX, Below.refl a⟩
    have he0 : Edge s a c := R.edge_old ha haX he
    rcases ih (g.edge_target he0).1 with ⟨x, hx, hb⟩ | ⟨hb, hdX, hd⟩
    · exact Or.inl ⟨x, hx, Below.step he0 hb⟩
    · exact Or.inr ⟨Below.step he0 hb, hdX, hd⟩

/-- **A rewiring-with-creation step keeps the drain invariant**, with the same current node.  `N`: the clause missing
from `StepP` (valid new nodes are stale). -/
theorem stepP_inv' (I : DInv env s (some n)) (R : StepP env X n s s') (N : NewStale s s') :
    DInv env s' (some n) := by
  have g := I.graph
  obtain ⟨hn, hnlt, hnv, hnq, hnr⟩ := I.cur_facts
  refine ⟨R.graph', R.heap', R.stamps', R.qstale', ?_, ?_, ?_, ?_⟩
  · -- pending
    intro m h1 h2
    rcases R.pending' m h1 h2 with h | h
    · exact Or.inl h
    · exact Or.inr (by rw [h])
  · -- cons
    intro m hmlt' hmv hst
    by_cases hnew : s.nodes.size ≤ m
    · rw [N m hnew hmlt' hmv] at hst; cases hst
    have hm : m < s.nodes.size := by omega
    by_cases hmX : X m
    · rw [(R.rewired m hmX).2.1] at hst; cases hst
    obtain ⟨k0, -, k3, -, k⟩ := R.old m hm
    obtain ⟨k1, -, k6⟩ := k hmX
    have hv : (s.nodeD m).valid = true := by rw [← k0]; exact hmv
    have hB := (g.node m hm hv).1
    rw [R.stale_kept g hm hmX] at hst
    obtain ⟨w, hw, hval⟩ := I.cons m hm hv hst
    refine ⟨w, ?_, by rw [k3]; exact hval⟩
    apply TargetB.congr' hv hB k1 R.vars _ _ hw
    · intro b lc _; rw [R.binds]
    · intro c hc
      have hclt := ((g.node m hm hv).2.2 c hc).1
      exact (R.old c hclt).2.2.1
  · -- fresh
    intro a d hbel hd
    rw [R.stabNum]
    have hnow := I.stamps.now
    by_cases hnew : s.nodes.size ≤ a
    · by_cases hlt' : a < s'.nodes.size
      · rw [R.new a hnew hlt']; omega
      · rw [nodeD_default_of_ge s' a (by omega)]
        show (-1 : Int) < s.stabNum
        omega
    have ha : a < s.nodes.size := by omega
    have key : (s.nodeD a).recomputedAt < s.stabNum := by
      rcases R.path_old g hbel ha with ⟨x, hx, hb⟩ | ⟨hb, hdX, hdlt⟩
      · exact I.fresh a n (hb.snoc (Edge.child (R.rewired x hx).1)) (Or.inr rfl)
      · rcases hd with hd | hd
        · rw [R.stale_kept g hdlt hdX] at hd
          exact I.fresh a d hb (Or.inl hd)
        · exact I.fresh a d hb (Or.inr hd)
    by_cases haX : X a
    · exact (R.rewired a haX).2.2
    · rw [((R.old a ha).2.2.2.2 haX).2.1]
      exact key
  · -- cur
    intro p hp
    injection hp with hp
    subst hp
    refine ⟨R.selfNec, ?_⟩
    intro d hd
    rcases R.path_old g hd hnlt with ⟨x, hx, hb⟩ | ⟨hb, hdX, hdlt⟩
    · exact (g.no_cycle hb (Edge.child (R.rewired x hx).1)).elim
    · cases hq' : (s'.nodeD d).inRch with
      | false => rfl
      | true =>
        exfalso
        have hst' := R.qstale' d hq'
        have hdn : d ≠ n := by
          intro e
          rw [e, R.selfQ] at hq'
          cases hq'
        rw [R.stale_kept g hdlt hdX] at hst'
        have hnec := (g.below_nec hb hn).1
        rcases I.pending d hnec hst' with h3 | h3
        · rw [(I.cur n rfl).2 d hb] at h3; cases h3
        · injection h3 with h3; exact hdn h3.symm

/-- a rewiring-with-creation step followed by a static step of the change detector keeps the drain invariant
(as `DriverH.driver_step_keeps'`) -/
theorem stepP_stepB_inv' {v : Val} {ch : Bool} {r : Option Nat} {ŝ : State}
    (I : DInv env s (some n)) (W : StepP env X n s ŝ) (N : NewStale s ŝ)
    (ht : TargetB env ŝ n v) (R : StepRelB n v ch r ŝ s') : DInv env s' r :=
  stepB_inv (stepP_inv' I W N) ht R

/-! ## the contract with the missing clause added (proposed replacement of `StepP`) -/

/-- `StepP` plus `newStale` -/
structure StepP' (env : Env) (X : Nat → Prop) (n : Nat) (s s' : State) : Prop extends StepP env X n s s' where
  /-- new nodes that are valid are stale (as `BindH.StepL.new`) -/
  newStale : ∀ m, s.nodes.size ≤ m → m < s'.nodes.size → (s'.nodeD m).valid = true → s'.isStale m = true

theorem stepP_inv (I : DInv env s (some n)) (R : StepP' env X n s s') : DInv env s' (some n) :=
  stepP_inv' I R.toStepP R.newStale

theorem stepP_stepB_inv {v : Val} {ch : Bool} {r : Option Nat} {ŝ : State}
    (I : DInv env s (some n)) (W : StepP' env X n s ŝ)
    (ht : TargetB env ŝ n v) (R : StepRelB n v ch r ŝ s') : DInv env s' r :=
  stepB_inv (stepP_inv I W) ht R

end

end IncrVerif.Proofs.PerKeyH
