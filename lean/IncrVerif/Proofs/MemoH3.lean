import IncrVerif.Proofs.MemoH2
/-!
# C20 over whole histories, part 3: the table invariant (K1)

* association-list lemmas for the memo tables (`lookup`, `filter`, distinct keys);
* `Fut s s'` (`s'` is a future of `s`: nodes appended, `kind`/`createdIn` immutable, `top` extended);
* `Produced env s m key n`: node `n` was returned by an elaboration of `env.memo m` on `key` in scope `.top`
  in a past state; `TInv env s`: the table invariant;
* `MS env`: the step relation "future ∧ `TInv` kept ∧ `RegScoped` kept"; every API action is an `MS` step.
-/
namespace IncrVerif.Proofs.MemoH
open IncrVerif.Engine IncrVerif.Proofs.Obs IncrVerif.Proofs.Memo

/-! ## association lists -/

/-- pairwise distinct keys -/
def KeysNodup {α β} (l : List (α × β)) : Prop := (l.map (·.1)).Nodup

section
variable {α β : Type} [BEq α] [LawfulBEq α]

theorem lookup_mem {l : List (α × β)} {k : α} {v : β} (h : l.lookup k = some v) : (k, v) ∈ l := by
  induction l with
  | nil => cases h
  | cons e l ih =>
    obtain ⟨k', v'⟩ := e
    rw [List.lookup_cons] at h
    by_cases hk : k == k'
    · rw [hk] at h; cases h
      have : k = k' := eq_of_beq hk
      subst this; exact List.mem_cons_self
    · simp only [hk] at h
      exact List.mem_cons_of_mem _ (ih h)

theorem lookup_of_mem {l : List (α × β)} (hn : KeysNodup l) {k : α} {v : β} (h : (k, v) ∈ l) :
    l.lookup k = some v := by
  induction l with
  | nil => cases h
  | cons e l ih =>
    obtain ⟨k', v'⟩ := e
    rw [List.lookup_cons]
    have hn' : k' ∉ l.map (·.1) ∧ KeysNodup l := by
      simpa [KeysNodup, List.nodup_cons] using hn
    rcases List.mem_cons.1 h with h1 | h1
    · cases h1; simp
    · have : k ≠ k' := by
        intro hkk
        exact hn'.1 (List.mem_map.2 ⟨(k, v), h1, hkk⟩)
      have hb : (k == k') = false := by simpa using this
      simp only [hb]
      exact ih hn'.2 h1

theorem lookup_filter_key_self (l : List (α × β)) (k : α) :
    (l.filter (·.1 != k)).lookup k = none := by
  induction l with
  | nil => rfl
  | cons e l ih =>
    obtain ⟨k', v'⟩ := e
    rw [List.filter_cons]
    by_cases hk : k' = k
    · subst hk; simpa using ih
    · have h1 : (k' != k) = true := by simpa using hk
      simp only [h1, if_true, List.lookup_cons]
      have h2 : (k == k') = false := by simpa using fun h : k = k' => hk h.symm
      simp only [h2]; exact ih

theorem lookup_filter_key_ne (l : List (α × β)) {k k' : α} (h : k' ≠ k) :
    (l.filter (·.1 != k)).lookup k' = l.lookup k' := by
  induction l with
  | nil => rfl
  | cons e l ih =>
    obtain ⟨k0, v0⟩ := e
    rw [List.filter_cons]
    by_cases hk : k0 = k
    · subst hk
      have h2 : (k' == k0) = false := by simpa using h
      simp only [bne_self_eq_false, Bool.false_eq_true, if_false, List.lookup_cons, h2]
      exact ih
    · have h1 : (k0 != k) = true := by simpa using hk
      simp only [h1, if_true, List.lookup_cons]
      cases k' == k0
      · exact ih
      · rfl

theorem lookup_filter_val (l : List (α × β)) (hn : KeysNodup l) (p : β → Bool) (k : α) :
    (l.filter fun e => p e.2).lookup k = (l.lookup k).filter p := by
  induction l with
  | nil => rfl
  | cons e l ih =>
    obtain ⟨k0, v0⟩ := e
    have hn' : k0 ∉ l.map (·.1) ∧ KeysNodup l := by
      simpa [KeysNodup, List.nodup_cons] using hn
    rw [List.filter_cons, List.lookup_cons]
    by_cases hk : k == k0
    · have hkk : k = k0 := eq_of_beq hk
      subst hkk
      simp only [hk]
      cases hp : p v0
      · simp only [Bool.false_eq_true, if_false, Option.filter, hp]
        cases hl : List.lookup k (l.filter fun e => p e.2) with
        | none => rfl
        | some v =>
          have := lookup_mem hl
          have := (List.mem_filter.1 this).1
          exact absurd (List.mem_map.2 ⟨(k, v), this, rfl⟩) hn'.1
      · simp [Option.filter, hp]
    · simp only [hk]
      cases hp : p v0
      · simp only [Bool.false_eq_true, if_false]; exact ih hn'.2
      · simp only [if_true, List.lookup_cons, hk]; exact ih hn'.2

theorem KeysNodup.filter {l : List (α × β)} (hn : KeysNodup l) (p : α × β → Bool) :
    KeysNodup (l.filter p) :=
  List.Nodup.sublist (List.Sublist.map _ List.filter_sublist) hn

theorem KeysNodup.cons_filter {l : List (α × β)} (hn : KeysNodup l) (k : α) (v : β) :
    KeysNodup ((k, v) :: l.filter (·.1 != k)) := by
  have h1 := hn.filter (·.1 != k)
  simp only [KeysNodup, List.map_cons, List.nodup_cons]
  refine ⟨?_, h1⟩
  intro hm
  obtain ⟨e, he, hk⟩ := List.mem_map.1 hm
  have := (List.mem_filter.1 he).2
  simp [hk] at this
end

/-! ## futures -/

/-- `s'` is a future of `s`: nodes were appended, `kind`/`createdIn` are immutable, names in `top` are kept -/
structure Fut (s s' : State) : Prop where
  nodesLe : s.nodes.size ≤ s'.nodes.size
  core : ∀ i, i < s.nodes.size → nodeK (s'.nodeD i) = nodeK (s.nodeD i)
  top : ∀ (k n : Nat), s.top[k]? = some n → s'.top[k]? = some n

theorem Fut.refl (s : State) : Fut s s := ⟨Nat.le_refl _, fun _ _ => rfl, fun _ _ h => h⟩
theorem Fut.trans {a b c : State} (h1 : Fut a b) (h2 : Fut b c) : Fut a c :=
  ⟨Nat.le_trans h1.nodesLe h2.nodesLe,
   fun i hi => (h2.core i (Nat.lt_of_lt_of_le hi h1.nodesLe)).trans (h1.core i hi),
   fun k n h => h2.top k n (h1.top k n h)⟩
instance : PreOrd Fut := ⟨Fut.refl, Fut.trans⟩

theorem F0.fut {s s' : State} (h : F0 s s') : Fut s s' :=
  ⟨h.nodesLe, h.core, fun k n hk => by rw [h.top]; exact hk⟩

theorem Fut.of_eq {s s' : State} (h1 : s'.nodes = s.nodes) (h2 : s'.top = s.top) : Fut s s' :=
  ⟨by rw [h1]; exact Nat.le_refl _, fun i _ => by simp only [State.nodeD, h1], fun k n h => by rw [h2]; exact h⟩

/-! ## the table invariant -/

/-- the table of memo function `m` -/
def table (s : State) (m : Nat) : List (Int × Nat) := (s.memos.lookup m).getD []

theorem stored_eq (s : State) (m : Nat) (key : Int) : stored s m key = (table s m).lookup key := rfl

/-- node `n` was returned by an elaboration of the body of memo function `m` on `key`, run with current
scope `.top` in a state `s0` of which `s` is a future; `n` is one of the nodes that run created -/
def Produced (env : Env) (s : State) (m : Nat) (key : Int) (n : Nat) : Prop :=
  ∃ s0 s2 : State, s0.currentScope = .top ∧
    (elabTemplateBase (env.memo m) (.int key)).run.run s0 = (.ok n, s2) ∧
    s0.nodes.size ≤ n ∧ n < s2.nodes.size ∧ Fut s2 s

theorem Produced.mono {env : Env} {s s' : State} {m : Nat} {key : Int} {n : Nat}
    (h : Produced env s m key n) (hf : Fut s s') : Produced env s' m key n := by
  obtain ⟨s0, s2, h1, h2, h3, h4, h5⟩ := h
  exact ⟨s0, s2, h1, h2, h3, h4, h5.trans hf⟩

/-- a produced node exists and was created in the top-level scope -/
theorem Produced.facts {env : Env} {s : State} {m : Nat} {key : Int} {n : Nat}
    (h : Produced env s m key n) : n < s.nodes.size ∧ (s.nodeD n).createdIn = .top := by
  obtain ⟨s0, s2, h1, h2, h3, h4, h5⟩ := h
  refine ⟨Nat.lt_of_lt_of_le h4 h5.nodesLe, ?_⟩
  have hsc := elabTemplateBase_sc _ _ _ _ _ _ h2
  have := hsc.new n h3 h4
  rw [h1, or_self] at this
  have hc := h5.core n h4
  simp only [nodeK, Prod.mk.injEq] at hc
  rw [hc.2]; exact this

/-- THE TABLE INVARIANT: distinct memo functions, distinct keys per table, every entry produced by the
memoised function's body on its key, at top level -/
structure TInv (env : Env) (s : State) : Prop where
  tables : KeysNodup s.memos
  keys : ∀ m tbl, (m, tbl) ∈ s.memos → KeysNodup tbl
  entry : ∀ m tbl, (m, tbl) ∈ s.memos → ∀ key n, (key, n) ∈ tbl → Produced env s m key n

theorem TInv.mono {env : Env} {s s' : State} (h : TInv env s) (hf : Fut s s') (hm : s'.memos = s.memos) :
    TInv env s' :=
  ⟨by rw [hm]; exact h.tables, fun m tbl hmem => h.keys m tbl (hm ▸ hmem),
   fun m tbl hmem key n hk => (h.entry m tbl (hm ▸ hmem) key n hk).mono hf⟩

theorem table_mem {s : State} {m : Nat} {key : Int} {n : Nat} (h : (key, n) ∈ table s m) :
    ∃ tbl, (m, tbl) ∈ s.memos ∧ (key, n) ∈ tbl := by
  unfold table at h
  cases hl : s.memos.lookup m with
  | none => rw [hl] at h; cases h
  | some tbl => rw [hl] at h; exact ⟨tbl, lookup_mem hl, h⟩

theorem TInv.table_keys {env : Env} {s : State} (h : TInv env s) (m : Nat) : KeysNodup (table s m) := by
  unfold table
  cases hl : s.memos.lookup m with
  | none => exact List.nodup_nil
  | some tbl => exact h.keys m tbl (lookup_mem hl)

theorem TInv.stored {env : Env} {s : State} (h : TInv env s) {m : Nat} {key : Int} {n : Nat}
    (hs : stored s m key = some n) : Produced env s m key n := by
  obtain ⟨tbl, h1, h2⟩ := table_mem (lookup_mem hs)
  exact h.entry m tbl h1 key n h2

theorem tinv_init (env : Env) (k : Nat) (d : Bool) : TInv env (State.init k d) :=
  ⟨List.nodup_nil, (fun _ _ h => nomatch h), (fun _ _ h => nomatch h)⟩

/-- the sweep keeps the invariant -/
theorem TInv.gc {env : Env} {s : State} (h : TInv env s) (alive : List Nat) :
    TInv env { s with memos := gcMemos alive s.memos } := by
  have hkeys : (gcMemos alive s.memos).map (·.1) = s.memos.map (·.1) := by
    simp [gcMemos, List.map_map, Function.comp_def]
  have hmem : ∀ m tbl, (m, tbl) ∈ gcMemos alive s.memos →
      ∃ tbl0, (m, tbl0) ∈ s.memos ∧ tbl = tbl0.filter fun e => alive.contains e.2 := by
    intro m tbl hm
    obtain ⟨e, he, heq⟩ := List.mem_map.1 hm
    obtain ⟨m0, t0⟩ := e
    cases heq
    exact ⟨t0, he, rfl⟩
  refine ⟨?_, ?_, ?_⟩
  · show (List.map (·.1) (gcMemos alive s.memos)).Nodup
    rw [hkeys]; exact h.tables
  · intro m tbl hm
    obtain ⟨t0, h0, rfl⟩ := hmem m tbl hm
    exact (h.keys m t0 h0).filter _
  · intro m tbl hm key n hk
    obtain ⟨t0, h0, rfl⟩ := hmem m tbl hm
    exact (h.entry m t0 h0 key n (List.mem_filter.1 hk).1).mono (Fut.of_eq rfl rfl)

/-! ## the step relation -/

structure MS (env : Env) (s s' : State) : Prop where
  fut : Fut s s'
  tinv : TInv env s → TInv env s'
  reg : RegScoped s → RegScoped s'

instance (env : Env) : PreOrd (MS env) :=
  ⟨fun s => ⟨Fut.refl s, fun h => h, fun h => h⟩,
   fun h1 h2 => ⟨h1.fut.trans h2.fut, fun h => h2.tinv (h1.tinv h), fun h => h2.reg (h1.reg h)⟩⟩

theorem MS.of_f0 {env : Env} {s s' : State} (h : F0 s s') : MS env s s' :=
  ⟨h.fut, fun ht => ht.mono h.fut h.memos, h.reg⟩

instance (env : Env) : ILocal (MS env) := ⟨fun _ _ h => MS.of_f0 h⟩

theorem MS.of_quiet {env : Env} {s s' : State} (h : Quiet0 s s') : MS env s s' :=
  ⟨Fut.of_eq h.nodes h.top, fun ht => ht.mono (Fut.of_eq h.nodes h.top) h.memos,
   RegScoped.of_eq h.nodes h.binds⟩

/-! ## fresh results: memo bodies made of static instructions returning a local -/

/-- the instructions allowed in memo bodies: each creates exactly one node -/
def StaticI : Instr → Prop
  | .const _ | .lhsConst | .var _ | .map _ _ | .fold _ _ _ => True
  | _ => False

/-- memo bodies: static instructions, the result is one of the nodes the body created -/
def MemoBodyOK (env : Env) : Prop :=
  ∀ m, (∀ i ∈ (env.memo m).instrs, StaticI i) ∧ ∃ j, (env.memo m).ret = .loc j

/-- the result is a node created by this run -/
def Fresh (x : M Nat) : Prop :=
  ∀ s r s', x.run.run s = (.ok r, s') → s.nodes.size ≤ r ∧ r < s'.nodes.size

theorem Fresh.bind {α} {x : M α} {f : α → M Nat} (hx : Pres F0V x) (hf : ∀ a, Fresh (f a)) :
    Fresh (x >>= f) := by
  intro s r s' h
  rw [run_bind] at h
  rcases hx' : x.run.run s with ⟨r1, s1⟩
  rw [hx'] at h
  cases r1 with
  | error e => cases h
  | ok a =>
    have := hf a s1 r s' h
    have h1 := (hx.h s _ s1 hx').nodesLe
    exact ⟨Nat.le_trans h1 this.1, this.2⟩

theorem Fresh.createNode (k sc c) : Fresh (createNode k sc c) := by
  intro s r s' h
  unfold Engine.createNode at h
  cases sc with
  | top =>
    simp only [Engine.bumpCounter, run_bind, run_get, run_modify, run_pure] at h
    cases h
    exact ⟨Nat.le_refl _, by simp⟩
  | bind b =>
    simp only [Engine.bumpCounter, Engine.modBind, run_bind, run_get, run_modify, run_pure] at h
    cases h
    exact ⟨Nat.le_refl _, by simp⟩

theorem Fresh.createVar (v sc) : Fresh (createVar v sc) := by
  intro s r s' h
  unfold Engine.createVar at h
  rw [run_bind, run_get] at h
  dsimp only at h
  rw [run_bind] at h
  rcases hx : (Engine.createNode (.var s.vars.size) sc).run.run s with ⟨r1, s1⟩
  rw [hx] at h
  cases r1 with
  | error e => cases h
  | ok n =>
    have hf := Fresh.createNode _ _ _ s n s1 hx
    simp only [run_bind, run_modify, run_pure] at h
    cases h
    exact hf

/-- an instruction's result, when it has one, is a node it created -/
def FreshO (x : M (Option Nat)) : Prop :=
  ∀ s r s', x.run.run s = (.ok r, s') → ∃ n, r = some n ∧ s.nodes.size ≤ n ∧ n < s'.nodes.size

theorem FreshO.some {x : M Nat} (h : Fresh x) : FreshO (some <$> x) := by
  intro s r s' hr
  rw [map_eq_pure_bind, run_bind] at hr
  rcases hx : x.run.run s with ⟨r1, s1⟩
  rw [hx] at hr
  cases r1 with
  | error e => cases hr
  | ok n => have hf := h s n s1 hx; cases hr; exact ⟨n, rfl, hf⟩

theorem FreshO.bind {α} {x : M α} {f : α → M (Option Nat)} (hx : Pres F0V x) (hf : ∀ a, FreshO (f a)) :
    FreshO (x >>= f) := by
  intro s r s' h
  rw [run_bind] at h
  rcases hx' : x.run.run s with ⟨r1, s1⟩
  rw [hx'] at h
  cases r1 with
  | error e => cases h
  | ok a =>
    obtain ⟨n, h1, h2, h3⟩ := hf a s1 r s' h
    have h0 := (hx.h s _ s1 hx').nodesLe
    exact ⟨n, h1, Nat.le_trans h0 h2, h3⟩

theorem FreshO.elabInstr (loc v) {i : Instr} (hi : StaticI i) : FreshO (elabInstr loc v i) := by
  unfold Engine.elabInstr
  refine FreshO.bind Pres.get fun s0 => ?_
  cases i <;> simp only [StaticI] at hi
  case const c => exact FreshO.some (Fresh.createNode _ _ _)
  case lhsConst => exact FreshO.some (Fresh.createNode _ _ _)
  case var c => exact FreshO.some (Fresh.createVar _ _)
  case map f args =>
    exact FreshO.bind (Pres.mapM (fun _ => Pres.resolveOpnd _ _) _) fun _ =>
      FreshO.some (Fresh.createNode _ _ _)
  case fold f init cs =>
    refine FreshO.bind (Pres.mapM (fun _ => Pres.resolveOpnd _ _) _) fun _ => ?_
    split
    · exact FreshO.some (Fresh.createNode _ _ _)
    · exact FreshO.some (Fresh.createNode _ _ _)

/-- the loop of `elabTemplateBase`: all locals are nodes created since `s0` -/
theorem elabLoop_fresh (v : Val) (base : Nat) (instrs : List Instr) (hi : ∀ i ∈ instrs, StaticI i) :
    ∀ (loc : List Nat) (s : State) r s', base ≤ s.nodes.size → (∀ n ∈ loc, base ≤ n ∧ n < s.nodes.size) →
      (forIn instrs loc fun i r => do
        let a ← elabInstr r v i
        match a with
        | some n => pure (ForInStep.yield (r ++ [n]))
        | none => pure (ForInStep.yield r) : M (List Nat)).run.run s = (.ok r, s') →
      s.nodes.size ≤ s'.nodes.size ∧ ∀ n ∈ r, base ≤ n ∧ n < s'.nodes.size := by
  induction instrs with
  | nil =>
    intro loc s r s' _ hloc h
    rw [List.forIn_nil, run_pure] at h
    cases h; exact ⟨Nat.le_refl _, hloc⟩
  | cons i rest ih =>
    intro loc s r s' hb hloc h
    rw [List.forIn_cons, run_bind, run_bind] at h
    rcases hx : (elabInstr loc v i).run.run s with ⟨r1, s1⟩
    rw [hx] at h
    cases r1 with
    | error e => cases h
    | ok a =>
      obtain ⟨n, rfl, h2, h3⟩ := FreshO.elabInstr loc v (hi i List.mem_cons_self) s a s1 hx
      dsimp only at h
      rw [run_pure] at h
      dsimp only at h
      have hle : s.nodes.size ≤ s1.nodes.size := by omega
      have := ih (fun i hi' => hi i (List.mem_cons_of_mem _ hi')) (loc ++ [n]) s1 r s' (by omega)
        (by
          intro x hx'
          rcases List.mem_append.1 hx' with hx' | hx'
          · have := hloc x hx'; exact ⟨this.1, by omega⟩
          · simp only [List.mem_singleton] at hx'; subst hx'; exact ⟨by omega, h3⟩) h
      exact ⟨by omega, this.2⟩

theorem bind_ok_inv' {α β} {x : M α} {f : α → M β} {s s' : State} {r : β}
    (h : (x >>= f).run.run s = (.ok r, s')) :
    ∃ a s1, x.run.run s = (.ok a, s1) ∧ (f a).run.run s1 = (.ok r, s') := by
  rw [run_bind] at h
  rcases hx : x.run.run s with ⟨_ | a, s1⟩
  · rw [hx] at h; cases h
  · rw [hx] at h; exact ⟨a, s1, rfl, h⟩

theorem elabTemplateBase_fresh {t : Template} (hi : ∀ i ∈ t.instrs, StaticI i) (hret : ∃ j, t.ret = .loc j)
    (v : Val) (s : State) (n : Nat) (s' : State)
    (h : (elabTemplateBase t v []).run.run s = (.ok n, s')) : s.nodes.size ≤ n ∧ n < s'.nodes.size := by
  unfold Engine.elabTemplateBase at h
  dsimp only at h
  obtain ⟨loc, s1, hx, h⟩ := bind_ok_inv' h
  have := elabLoop_fresh v s.nodes.size t.instrs hi [] s loc s1 (Nat.le_refl _) (fun _ h => nomatch h) hx
  obtain ⟨j, hj⟩ := hret
  rw [hj] at h
  simp only [Engine.resolveOpnd] at h
  cases hl : loc[j]? with
  | none => rw [hl] at h; cases h
  | some x =>
    rw [hl] at h
    cases h
    exact this.2 n (List.mem_of_getElem? hl)

end IncrVerif.Proofs.MemoH
