import IncrVerif.Proofs.BindH30
/-!
# Binds, `relink`, part 1: a transfer lemma for `GInvB`, and the pure steps of `changeChildBindRhs`

`BR.transfer`: the invariant moves from `(s, op)` to `(s', op')` when parents, heights, heap and heap markers agree,
wanted child edges correspond, and staleness of the nodes that matter is kept.  Instances:
`stamp` (the change detector gets a new `changedAt`), `setForce` (the force flag of a node is set / cleared),
`setRhs` (the record of a bind whose main node is `.linking 1` gets a new right-hand side), `open_full` (a closed
necessary node is relabelled `.linking (children).length`), `close_full` (a fully linked node is closed, queued or not).
-/
namespace IncrVerif.Proofs.BindH
open IncrVerif.Engine IncrVerif.Proofs IncrVerif.Proofs.Step IncrVerif.Proofs.Sched IncrVerif.Proofs.Quiet

namespace BR

theorem transfer {env : Env} {s s' : State} {op op' : Nat → Op} {ex : Nat → Prop}
    (I : GInvB env s op ex) (hA : AllB env s')
    (hsz : s'.nodes.size = s.nodes.size) (hrch : s'.rch = s.rch)
    (hpa : ∀ m, (s'.nodeD m).parents = (s.nodeD m).parents)
    (hht : ∀ m, (s'.nodeD m).height = (s.nodeD m).height)
    (hhr : ∀ m, (s'.nodeD m).heightInRch = (s.nodeD m).heightInRch)
    (hpar : ∀ p i c, (s.children p)[i]? = some c → Wants s op p i →
      (s'.children p)[i]? = some c ∧ Wants s' op' p i)
    (hconv : ∀ p i c, (s'.children p)[i]? = some c → Wants s' op' p i →
      (s.children p)[i]? = some c ∧ Wants s op p i)
    (hnecI : ∀ m, op' m = .closed → op m = .closed → s'.isNecessary m = true → s.isNecessary m = true)
    (hln : ∀ p k, op' p = .linking k → s'.isNecessary p = true)
    (hun : ∀ p k, op' p = .unlinking k → s'.isNecessary p = false)
    (hqn : ∀ m, (s.nodeD m).inRch = true → s'.isNecessary m = true ∨ ∃ k, op' m = .unlinking k)
    (hst1 : ∀ m, op' m = .closed → op m = .closed → ¬ ex m → s'.isStale m = true → s.isStale m = true)
    (hst2 : ∀ m, (s.nodeD m).inRch = true → s'.isStale m = true)
    (hop : ∀ m, op' m ≠ .closed → m < s.nodes.size)
    (hltN : ∀ c p i, (p, i) ∈ (s.nodeD c).parents → op' p = .closed → op p ≠ .closed →
      (s.nodeD c).height < (s.nodeD p).height)
    (hposN : ∀ n, op' n = .closed → op n ≠ .closed → 0 ≤ (s.nodeD n).height)
    (hgtN : ∀ m, (s.nodeD m).inRch = true → op' m = .closed → op m ≠ .closed →
      (s.nodeD m).heightInRch = (s.nodeD m).height)
    (hquN : ∀ m, op' m = .closed → op m ≠ .closed → s'.isNecessary m = true → s'.isStale m = true → ¬ ex m →
      (s.nodeD m).inRch = true) :
    GInvB env s' op' ex := by
  have inR : ∀ m, (s'.nodeD m).inRch = (s.nodeD m).inRch := fun m => U4.inRch_of_hir (hhr m)
  refine { frag := hA, par := ?_, conv := ?_, nodup := ?_, hlt := ?_, hpos := ?_, lnec := hln, unec := hun,
           heap := I.heap.congr hrch hsz hhr, hgt := ?_, qnec := ?_, queued := ?_, qstale := ?_, opLt := ?_ }
  · intro c p i hm
    rw [hpa] at hm
    obtain ⟨h1, h2⟩ := I.par c p i hm
    exact hpar p i c h1 h2
  · intro p i c hk hw
    rw [hpa]
    obtain ⟨h1, h2⟩ := hconv p i c hk hw
    exact I.conv p i c h1 h2
  · intro c; rw [hpa]; exact I.nodup c
  · intro c p i hm ho
    rw [hpa] at hm
    rw [hht, hht]
    by_cases e : op p = .closed
    · exact I.hlt c p i hm e
    · exact hltN c p i hm ho e
  · intro n hn ho
    rw [hht]
    by_cases e : op n = .closed
    · exact I.hpos n (hnecI n ho e hn) e
    · exact hposN n ho e
  · intro m hq ho
    rw [inR] at hq
    rw [hhr, hht]
    by_cases e : op m = .closed
    · exact I.hgt m hq e
    · exact hgtN m hq ho e
  · intro m hq
    rw [inR] at hq
    exact hqn m hq
  · intro m ho hn hs hx
    rw [inR]
    by_cases e : op m = .closed
    · exact I.queued m e (hnecI m ho e hn) (hst1 m ho e hx hs) hx
    · exact hquN m ho e hn hs hx
  · intro m hq
    rw [inR] at hq
    exact hst2 m hq
  · intro m ho
    rw [hsz]; exact hop m ho

theorem wants_congr {s s' : State} {op : Nat → Op} (hnec : ∀ m, s'.isNecessary m = s.isNecessary m) (p i : Nat) :
    Wants s' op p i ↔ Wants s op p i := by
  unfold Wants; rw [hnec]

/-- the simple case of `transfer`: same labels, same necessity, same child lists -/
theorem transfer_same {env : Env} {s s' : State} {op : Nat → Op} {ex : Nat → Prop}
    (I : GInvB env s op ex) (hA : AllB env s')
    (hsz : s'.nodes.size = s.nodes.size) (hrch : s'.rch = s.rch)
    (hpa : ∀ m, (s'.nodeD m).parents = (s.nodeD m).parents)
    (hht : ∀ m, (s'.nodeD m).height = (s.nodeD m).height)
    (hhr : ∀ m, (s'.nodeD m).heightInRch = (s.nodeD m).heightInRch)
    (hnec : ∀ m, s'.isNecessary m = s.isNecessary m)
    (hch : ∀ m, s'.children m = s.children m)
    (hst1 : ∀ m, op m = .closed → ¬ ex m → s'.isStale m = true → s.isStale m = true)
    (hst2 : ∀ m, (s.nodeD m).inRch = true → s'.isStale m = true) :
    GInvB env s' op ex := by
  refine transfer I hA hsz hrch hpa hht hhr ?_ ?_ ?_ ?_ ?_ ?_ (fun m _ => hst1 m) hst2 I.opLt
    (fun _ _ _ _ h1 h2 => absurd h1 h2) (fun _ h1 h2 => absurd h1 h2) (fun _ _ h1 h2 => absurd h1 h2)
    (fun _ h1 h2 => absurd h1 h2)
  · intro p i c hk hw
    exact ⟨by rw [hch]; exact hk, (wants_congr hnec p i).2 hw⟩
  · intro p i c hk hw
    exact ⟨by rw [← hch]; exact hk, (wants_congr hnec p i).1 hw⟩
  · intro m _ _ h; rw [← hnec]; exact h
  · intro p k ho; rw [hnec]; exact I.lnec p k ho
  · intro p k ho; rw [hnec]; exact I.unec p k ho
  · intro m hq; rw [hnec]; exact I.qnec m hq

/-! ## concrete pure updates -/

/-- node `n` gets the stamp `v` -/
def stamped (n : Nat) (v : Int) (s : State) : State :=
  { s with nodes := s.nodes.modify n fun x => { x with changedAt := v } }

/-- the force flag of node `o` is set to `f` -/
def forced (o : Nat) (f : Bool) (s : State) : State :=
  { s with nodes := s.nodes.modify o fun x => { x with forceNecessary := f } }

theorem stamped_nodeD (n : Nat) (v : Int) (s : State) (m : Nat) :
    (stamped n v s).nodeD m = if n = m ∧ m < s.nodes.size then { s.nodeD m with changedAt := v } else s.nodeD m :=
  nodeD_modify s n m _

theorem forced_nodeD (o : Nat) (f : Bool) (s : State) (m : Nat) :
    (forced o f s).nodeD m =
      if o = m ∧ m < s.nodes.size then { s.nodeD m with forceNecessary := f } else s.nodeD m :=
  nodeD_modify s o m _

/-- the children of a bind's main node: the change detector first -/
theorem children_main {s : State} {main b lc : Nat} {br : BindRec} (hv : (s.nodeD main).valid = true)
    (hk : (s.nodeD main).kind = .bindMain b lc) (hb : s.binds[b]? = some br) :
    s.children main = lc :: br.rhs.toList := by
  unfold State.children Node.kind?
  rw [hv, hk]
  simp only [if_true, hb]
  cases br.rhs <;> rfl

/-- a bind's main node is stale when its change detector changed after it was last recomputed -/
theorem isStale_main {s : State} {main b lc : Nat} {br : BindRec} (hv : (s.nodeD main).valid = true)
    (hk : (s.nodeD main).kind = .bindMain b lc) (hb : s.binds[b]? = some br)
    (hc : (s.nodeD main).recomputedAt < (s.nodeD lc).changedAt) : s.isStale main = true := by
  unfold State.isStale
  rw [children_main hv hk hb]
  simp only [Node.kind?, hv, hk, if_true, List.any_cons, Bool.or_eq_true, decide_eq_true_eq]
  exact Or.inr (Or.inl hc)

/-- only a bind's main node has the bind's change detector as a child -/
theorem parent_of_lc {env : Env} {s : State} (A : AllB env s) {n b main m : Nat} {br : BindRec}
    (hk : (s.nodeD n).kind = .bindLhsChange b) (hb : s.binds[b]? = some br) (hm : br.main = main)
    (hmem : n ∈ s.children m) : m = main := by
  have hlt : m < s.nodes.size := by
    by_cases h : m < s.nodes.size
    · exact h
    · rw [children_default s m (by omega)] at hmem; cases hmem
  have h1 := (A.node m hlt).lcChild n b hmem hk
  obtain ⟨br', h2, h3, -⟩ := (A.node m hlt).mainRec b n h1
  rw [hb] at h2
  cases h2
  rw [← hm, h3]

/-- **stamp**: the change detector `n` of bind `b` gets a later `changedAt`; the bind's main node is excused -/
theorem stamp {env : Env} {s : State} {op : Nat → Op} {ex : Nat → Prop} {n b main : Nat} {br : BindRec} {v : Int}
    (I : GInvB env s op ex) (hk : (s.nodeD n).kind = .bindLhsChange b) (hb : s.binds[b]? = some br)
    (hm : br.main = main) (hkm : (s.nodeD main).kind = .bindMain b n)
    (hms : main < s.nodes.size)
    (hn : n < s.nodes.size) (hex : ex main) (hv : (s.nodeD main).recomputedAt < v) :
    GInvB env (stamped n v s) op ex := by
  have hnd := stamped_nodeD n v s
  have hK : ∀ m, (stamped n v s).nodeD m = s.nodeD m ∨
      (stamped n v s).nodeD m = { s.nodeD m with changedAt := v } := by
    intro m; rw [hnd]; split
    · exact Or.inr rfl
    · exact Or.inl rfl
  have hsz : (stamped n v s).nodes.size = s.nodes.size := by simp [stamped]
  have hkind : ∀ m, ((stamped n v s).nodeD m).kind = (s.nodeD m).kind := fun m => by
    rcases hK m with e | e <;> rw [e]
  have hvalid : ∀ m, ((stamped n v s).nodeD m).valid = (s.nodeD m).valid := fun m => by
    rcases hK m with e | e <;> rw [e]
  have hrec : ∀ m, ((stamped n v s).nodeD m).recomputedAt = (s.nodeD m).recomputedAt := fun m => by
    rcases hK m with e | e <;> rw [e]
  have hch : ∀ m, (stamped n v s).children m = s.children m :=
    BU.children_of I.frag hsz hkind hvalid rfl
  have hchg : ∀ m, m ≠ n → ((stamped n v s).nodeD m).changedAt = (s.nodeD m).changedAt := fun m e => by
    rw [hnd, if_neg (fun h => e h.1.symm)]
  have hvm : (s.nodeD main).valid = true := (I.node hms).valid
  have hstm : (stamped n v s).isStale main = true := by
    refine isStale_main (b := b) (lc := n) (br := br) (by rw [hvalid]; exact hvm) (by rw [hkind]; exact hkm) hb ?_
    rw [hrec, hnd, if_pos ⟨rfl, hn⟩]
    exact hv
  have hst : ∀ m, m ≠ main → (stamped n v s).isStale m = s.isStale m := by
    intro m e
    by_cases hlt : m < s.nodes.size
    · refine isStale_congr_B (I.node hlt).kind (hkind m) (hvalid m) (hrec m) rfl rfl ?_
      intro c hc
      refine hchg c ?_
      intro ec
      rw [ec] at hc
      exact e (parent_of_lc I.frag hk hb hm hc)
    · rw [BL.isStale_default s m (by omega), BL.isStale_default _ m (by rw [hsz]; omega)]
  refine transfer_same I ?_ hsz rfl ?_ ?_ ?_ ?_ hch ?_ ?_
  · refine BU.allB_of I.frag rfl rfl hsz hkind hvalid ?_ ?_ rfl
    · intro m; rcases hK m with e | e <;> rw [e]
    · intro m; rcases hK m with e | e <;> rw [e]
  · intro m; rcases hK m with e | e <;> rw [e]
  · intro m; rcases hK m with e | e <;> rw [e]
  · intro m; rcases hK m with e | e <;> rw [e]
  · intro m
    apply U4.nec_congr <;> rcases hK m with e | e <;> rw [e]
  · intro m _ hx hs
    have e : m ≠ main := fun e => hx (e ▸ hex)
    rw [← hst m e]; exact hs
  · intro m hq
    by_cases e : m = main
    · rw [e]; exact hstm
    · rw [hst m e]; exact I.qstale m hq

/-- **force flag**: the flag of `o` is set to `f`.  If the necessity of `o` does not change nothing happens; if `o`
(closed) was necessary only because of the flag it is now unnecessary with all its child edges recorded -/
theorem setForce {env : Env} {s : State} {op : Nat → Op} {ex : Nat → Prop} {o : Nat} {f : Bool}
    (I : GInvB env s op ex) :
    ((forced o f s).isNecessary o = s.isNecessary o → GInvB env (forced o f s) op ex) ∧
    (s.isNecessary o = true → op o = .closed → (forced o f s).isNecessary o = false →
      GInvB env (forced o f s) (upd op o (.unlinking 0)) ex) := by
  have hnd := forced_nodeD o f s
  have hK : ∀ m, (forced o f s).nodeD m = s.nodeD m ∨
      (forced o f s).nodeD m = { s.nodeD m with forceNecessary := f } := by
    intro m; rw [hnd]; split
    · exact Or.inr rfl
    · exact Or.inl rfl
  have hsz : (forced o f s).nodes.size = s.nodes.size := by simp [forced]
  have hkind : ∀ m, ((forced o f s).nodeD m).kind = (s.nodeD m).kind := fun m => by
    rcases hK m with e | e <;> rw [e]
  have hvalid : ∀ m, ((forced o f s).nodeD m).valid = (s.nodeD m).valid := fun m => by
    rcases hK m with e | e <;> rw [e]
  have hrec : ∀ m, ((forced o f s).nodeD m).recomputedAt = (s.nodeD m).recomputedAt := fun m => by
    rcases hK m with e | e <;> rw [e]
  have hchg : ∀ m, ((forced o f s).nodeD m).changedAt = (s.nodeD m).changedAt := fun m => by
    rcases hK m with e | e <;> rw [e]
  have hch : ∀ m, (forced o f s).children m = s.children m :=
    BU.children_of I.frag hsz hkind hvalid rfl
  have hst : ∀ m, (forced o f s).isStale m = s.isStale m :=
    BU.isStale_of I.frag hsz hkind hvalid hrec hchg rfl rfl
  have hA : AllB env (forced o f s) := by
    refine BU.allB_of I.frag rfl rfl hsz hkind hvalid ?_ ?_ rfl
    · intro m; rcases hK m with e | e <;> rw [e]
    · intro m; rcases hK m with e | e <;> rw [e]
  have hpa : ∀ m, ((forced o f s).nodeD m).parents = (s.nodeD m).parents := fun m => by
    rcases hK m with e | e <;> rw [e]
  have hht : ∀ m, ((forced o f s).nodeD m).height = (s.nodeD m).height := fun m => by
    rcases hK m with e | e <;> rw [e]
  have hhr : ∀ m, ((forced o f s).nodeD m).heightInRch = (s.nodeD m).heightInRch := fun m => by
    rcases hK m with e | e <;> rw [e]
  have hnecO : ∀ m, m ≠ o → (forced o f s).isNecessary m = s.isNecessary m := fun m e => by
    have : (forced o f s).nodeD m = s.nodeD m := by rw [hnd, if_neg (fun h => e h.1.symm)]
    simp only [State.isNecessary, this]
  constructor
  · intro hno
    have hnec : ∀ m, (forced o f s).isNecessary m = s.isNecessary m := fun m => by
      by_cases e : m = o
      · rw [e]; exact hno
      · exact hnecO m e
    exact transfer_same I hA hsz rfl hpa hht hhr hnec hch (fun m _ _ h => by rw [← hst]; exact h)
      (fun m hq => by rw [hst]; exact I.qstale m hq)
  · intro hn hcl hno
    have hopo : ∀ m, m ≠ o → upd op o (.unlinking 0) m = op m := fun m e => upd_other _ _ _ e
    have hopc : ∀ m, upd op o (.unlinking 0) m = .closed → m ≠ o ∧ op m = .closed :=
      fun m h => upd_closed_inv (Op.unlinking_ne_closed _) h
    refine transfer I hA hsz rfl hpa hht hhr ?_ ?_ ?_ ?_ ?_ ?_ (fun m _ _ _ h => by rw [← hst]; exact h)
      (fun m hq => by rw [hst]; exact I.qstale m hq) ?_ ?_ ?_ ?_ ?_
    · intro p i c hk hw
      refine ⟨by rw [hch]; exact hk, ?_⟩
      by_cases e : p = o
      · rw [e]; exact (wants_unlinking (upd_self _ _ _)).2 (Nat.zero_le _)
      · unfold Wants at hw ⊢
        rw [hopo p e, hnecO p e]; exact hw
    · intro p i c hk hw
      refine ⟨by rw [← hch]; exact hk, ?_⟩
      by_cases e : p = o
      · rw [e]; exact (wants_closed hcl).2 hn
      · unfold Wants at hw ⊢
        rw [hopo p e, hnecO p e] at hw; exact hw
    · intro m h1 _ h
      rw [← hnecO m (hopc m h1).1]; exact h
    · intro p k ho
      have e : p ≠ o := fun e => by rw [e, upd_self] at ho; cases ho
      rw [hopo p e] at ho
      rw [hnecO p e]; exact I.lnec p k ho
    · intro p k ho
      by_cases e : p = o
      · rw [e]; exact hno
      · rw [hopo p e] at ho
        rw [hnecO p e]; exact I.unec p k ho
    · intro m hq
      by_cases e : m = o
      · exact Or.inr ⟨0, by rw [e, upd_self]⟩
      · rw [hnecO m e, hopo m e]; exact I.qnec m hq
    · intro m ho
      by_cases e : m = o
      · rw [e]; exact nec_lt_size hn
      · rw [hopo m e] at ho; exact I.opLt m ho
    · intro c p i _ h1 h2; exact absurd (hopc p h1).2 h2
    · intro m h1 h2; exact absurd (hopc m h1).2 h2
    · intro m _ h1 h2; exact absurd (hopc m h1).2 h2
    · intro m h1 h2; exact absurd (hopc m h1).2 h2

/-- a closed necessary node can be seen as fully linked -/
theorem open_full {env : Env} {s : State} {op : Nat → Op} {ex : Nat → Prop} {p : Nat}
    (I : GInvB env s op ex) (hcl : op p = .closed) (hn : s.isNecessary p = true) :
    GInvB env s (upd op p (.linking (s.children p).length)) ex := by
  have hopo : ∀ m, m ≠ p → upd op p (.linking (s.children p).length) m = op m := fun m e => upd_other _ _ _ e
  have hopc : ∀ m, upd op p (.linking (s.children p).length) m = .closed → m ≠ p ∧ op m = .closed :=
    fun m h => upd_closed_inv (Op.linking_ne_closed _) h
  refine transfer I I.frag rfl rfl (fun _ => rfl) (fun _ => rfl) (fun _ => rfl) ?_ ?_ (fun _ _ _ h => h) ?_ ?_ ?_
    (fun _ _ _ _ h => h) I.qstale ?_ ?_ ?_ ?_ ?_
  · intro q i c hk hw
    refine ⟨hk, ?_⟩
    by_cases e : q = p
    · rw [e] at hk ⊢
      exact (wants_linking (upd_self _ _ _)).2 (List.getElem?_eq_some_iff.1 hk).1
    · exact (U4.wants_same (hopo q e)).2 hw
  · intro q i c hk hw
    refine ⟨hk, ?_⟩
    by_cases e : q = p
    · rw [e]; exact (wants_closed hcl).2 hn
    · exact (U4.wants_same (hopo q e)).1 hw
  · intro q k ho
    by_cases e : q = p
    · rw [e]; exact hn
    · rw [hopo q e] at ho; exact I.lnec q k ho
  · intro q k ho
    have e : q ≠ p := fun e => by rw [e, upd_self] at ho; cases ho
    rw [hopo q e] at ho; exact I.unec q k ho
  · intro m hq
    rcases I.qnec m hq with h | ⟨k, h⟩
    · exact Or.inl h
    · have e : m ≠ p := fun e => by rw [e, hcl] at h; cases h
      exact Or.inr ⟨k, by rw [hopo m e]; exact h⟩
  · intro m ho
    by_cases e : m = p
    · rw [e]; exact nec_lt_size hn
    · rw [hopo m e] at ho; exact I.opLt m ho
  · intro c q i _ h1 h2; exact absurd (hopc q h1).2 h2
  · intro m h1 h2; exact absurd (hopc m h1).2 h2
  · intro m _ h1 h2; exact absurd (hopc m h1).2 h2
  · intro m h1 h2; exact absurd (hopc m h1).2 h2

/-- a fully linked node whose children are all lower is closed; it may be queued (then its heap position is its
height) and, if stale and not queued, it must be excused -/
theorem close_full {env : Env} {s : State} {op : Nat → Op} {ex : Nat → Prop} {p k : Nat}
    (I : GInvB env s op ex) (hop : op p = .linking k) (hk : (s.children p).length ≤ k)
    (hh : ∀ (i c : Nat), (s.children p)[i]? = some c → (s.nodeD c).height < (s.nodeD p).height)
    (h0 : 0 ≤ (s.nodeD p).height)
    (hgq : (s.nodeD p).inRch = true → (s.nodeD p).heightInRch = (s.nodeD p).height)
    (hex : s.isStale p = true → ex p ∨ (s.nodeD p).inRch = true) :
    GInvB env s (upd op p .closed) ex := by
  have hopo : ∀ m, m ≠ p → upd op p .closed m = op m := fun m e => upd_other _ _ _ e
  have hnew : ∀ m, upd op p .closed m = .closed → op m ≠ .closed → m = p := by
    intro m h1 h2
    apply Decidable.byContradiction
    intro e
    rw [hopo m e] at h1; exact h2 h1
  have hnp := I.lnec p k hop
  refine transfer I I.frag rfl rfl (fun _ => rfl) (fun _ => rfl) (fun _ => rfl) ?_ ?_ (fun _ _ _ h => h) ?_ ?_ ?_
    (fun _ _ _ _ h => h) I.qstale ?_ ?_ ?_ ?_ ?_
  · intro q i c hkq hw
    refine ⟨hkq, ?_⟩
    by_cases e : q = p
    · rw [e]; exact (wants_closed (upd_self _ _ _)).2 hnp
    · exact (U4.wants_same (hopo q e)).2 hw
  · intro q i c hkq hw
    refine ⟨hkq, ?_⟩
    by_cases e : q = p
    · rw [e] at hkq ⊢
      have := (List.getElem?_eq_some_iff.1 hkq).1
      exact (wants_linking hop).2 (by omega)
    · exact (U4.wants_same (hopo q e)).1 hw
  · intro q k' ho
    have e : q ≠ p := fun e => by rw [e, upd_self] at ho; cases ho
    rw [hopo q e] at ho; exact I.lnec q k' ho
  · intro q k' ho
    have e : q ≠ p := fun e => by rw [e, upd_self] at ho; cases ho
    rw [hopo q e] at ho; exact I.unec q k' ho
  · intro m hq
    rcases I.qnec m hq with h | ⟨k', h⟩
    · exact Or.inl h
    · have e : m ≠ p := fun e => by rw [e, hop] at h; cases h
      exact Or.inr ⟨k', by rw [hopo m e]; exact h⟩
  · intro m ho
    have e : m ≠ p := fun e => by rw [e, upd_self] at ho; exact ho rfl
    rw [hopo m e] at ho; exact I.opLt m ho
  · intro c q i hm h1 h2
    have e := hnew q h1 h2
    rw [e] at hm ⊢
    exact hh i c (I.par c p i hm).1
  · intro m h1 h2; rw [hnew m h1 h2]; exact h0
  · intro m hq h1 h2
    have e := hnew m h1 h2
    rw [e] at hq ⊢; exact hgq hq
  · intro m h1 h2 _ hs hx
    have e := hnew m h1 h2
    rw [e] at hs hx ⊢
    rcases hex hs with h | h
    · exact absurd h hx
    · exact h

end BR

end IncrVerif.Proofs.BindH
