import IncrVerif.Proofs.CutH19
import IncrVerif.Proofs.CutH20
import IncrVerif.Proofs.CutH21
-- Port of Proofs/Quiet16.lean to ARBITRARY cutoffs (scratch name Q16); overview in Props/C06History.lean
/-!
# Part 15: `stabilise` with pending observers (G2)
-/
namespace IncrVerif.Proofs.CutH
open IncrVerif.Engine IncrVerif.Driver IncrVerif.Proofs IncrVerif.Proofs.Step IncrVerif.Proofs.Sched
variable {e : Bool}

/-! ## reading `PFrame` -/

namespace PFrame
variable {s s' : State}

theorem nk (h : PFrame s s') (m : Nat) :
    (s'.nodeD m).kind = (s.nodeD m).kind ∧ (s'.nodeD m).createdIn = (s.nodeD m).createdIn ∧
    (s'.nodeD m).cutoff = (s.nodeD m).cutoff ∧ (s'.nodeD m).value = (s.nodeD m).value ∧
    (s'.nodeD m).valid = (s.nodeD m).valid ∧ (s'.nodeD m).recomputedAt = (s.nodeD m).recomputedAt ∧
    (s'.nodeD m).changedAt = (s.nodeD m).changedAt ∧
    (s'.nodeD m).forceNecessary = (s.nodeD m).forceNecessary ∧
    (s'.nodeD m).numOnUpdateHandlers = (s.nodeD m).numOnUpdateHandlers := by
  have := h.node m
  simpa only [nodeKeyP, Prod.mk.injEq] using this

theorem kind (h : PFrame s s') (m : Nat) : (s'.nodeD m).kind = (s.nodeD m).kind := (h.nk m).1
theorem value (h : PFrame s s') (m : Nat) : (s'.nodeD m).value = (s.nodeD m).value := (h.nk m).2.2.2.1
theorem recomputedAt (h : PFrame s s') (m : Nat) :
    (s'.nodeD m).recomputedAt = (s.nodeD m).recomputedAt := (h.nk m).2.2.2.2.2.1
theorem changedAt (h : PFrame s s') (m : Nat) :
    (s'.nodeD m).changedAt = (s.nodeD m).changedAt := (h.nk m).2.2.2.2.2.2.1
theorem num (h : PFrame s s') (m : Nat) :
    (s'.nodeD m).numOnUpdateHandlers = (s.nodeD m).numOnUpdateHandlers := (h.nk m).2.2.2.2.2.2.2.2

theorem sk (h : PFrame s s') :
    s'.vars = s.vars ∧ s'.stabNum = s.stabNum ∧ s'.status = s.status ∧ s'.cfg = s.cfg ∧
    s'.currentScope = s.currentScope ∧ s'.setDuringStab = s.setDuringStab ∧ s'.deadVars = s.deadVars ∧
    s'.top = s.top ∧ s'.handles = s.handles ∧ s'.alive = s.alive ∧
    s'.rch.queues.size = s.rch.queues.size ∧ s'.ahh = s.ahh ∧ s'.binds = s.binds ∧ s'.memos = s.memos ∧
    s'.slots = s.slots := by
  have := h.key
  simpa only [stateKeyP, Prod.mk.injEq] using this

theorem vars (h : PFrame s s') : s'.vars = s.vars := h.sk.1
theorem stabNum (h : PFrame s s') : s'.stabNum = s.stabNum := h.sk.2.1
theorem status (h : PFrame s s') : s'.status = s.status := h.sk.2.2.1
theorem setDuringStab (h : PFrame s s') : s'.setDuringStab = s.setDuringStab := h.sk.2.2.2.2.2.1
theorem deadVars (h : PFrame s s') : s'.deadVars = s.deadVars := h.sk.2.2.2.2.2.2.1
theorem top (h : PFrame s s') : s'.top = s.top := h.sk.2.2.2.2.2.2.2.1
theorem alive (h : PFrame s s') : s'.alive = s.alive := h.sk.2.2.2.2.2.2.2.2.2.1

theorem staleOf (h : PFrame s s') (m : Nat) : staleOf s' m = staleOf s m :=
  staleOf_congr (h.kind m) (h.recomputedAt m) h.vars (fun c _ => h.changedAt c)

theorem consistent {env : Env} (h : PFrame s s') {m : Nat} (hc : Consistent env s m) :
    Consistent env s' m := by
  obtain ⟨w, hw, hv⟩ := hc
  exact ⟨w, Target.congr (h.kind m) h.vars (fun c _ => h.value c) hw, by rw [h.value]; exact hv⟩

theorem cutoff (h : PFrame s s') (m : Nat) : (s'.nodeD m).cutoff = (s.nodeD m).cutoff := (h.nk m).2.2.1

theorem consE {env : Env} (h : PFrame s s') {m : Nat} (hc : ConsE env e s m) :
    ConsE env e s' m := by
  obtain ⟨w, hv, hw⟩ := hc
  exact ⟨w, by rw [h.value]; exact hv, fun he => Target.congr (h.kind m) h.vars (fun c _ => h.value c) (hw he)⟩

theorem varsOK (h : PFrame s s') (V : VarsOK s) : VarsOK s' where
  node n c hn hk := by
    rw [h.size] at hn
    rw [h.kind] at hk
    rw [h.vars]; exact V.node n c hn hk
  cell c vc hc := by
    rw [h.vars] at hc
    rw [h.size, h.kind]; exact V.cell c vc hc

end PFrame

/-! ## the two ends of the drain -/

/-- the state in which `drainHeap` starts satisfies the drain invariant -/
theorem drainInv_of {env : Env} {t : State} (S : Struct env t) (V : VarsOK t) (now : 0 ≤ t.stabNum)
    (st : ∀ m, (t.nodeD m).recomputedAt < t.stabNum ∧ (t.nodeD m).changedAt < t.stabNum)
    (vs : ∀ (c : Nat) (vc : VarCell), t.vars[c]? = some vc → vc.setAt ≤ t.stabNum)
    (cons : ∀ m, m < t.nodes.size → staleOf t m = false → ConsE env e t m)
    (exact : e = true → ∀ m, ExactCut (t.nodeD m).cutoff) : DrainInv env e t where
  graph := S.graph V
  heap := S.heapInv
  stamps := ⟨now, fun m => ⟨Int.le_of_lt (st m).1, Int.le_of_lt (st m).2⟩, vs⟩
  pending m hm hs := Or.inl ((S.queued_iff m).2 ⟨hm, hs⟩)
  cons m hm hs := cons m (nec_lt_size hm) (by rw [← GInv.isStale S (nec_lt_size hm)]; exact hs)
  exact := exact
  fresh _ _ a _ := (st a).1
  cur _ h := by cases h
  qstale m hm := by
    rcases hm with hm | hm
    · rw [GInv.isStale S (lt_size_of_inRch hm)]; exact S.qstale m hm
    · cases hm

/-- after the drain the structural invariant still holds -/
theorem Struct.ofDrained {env : Env} {t t3 : State} (S : Struct env t) (f : Frame t t3)
    (D : DrainInv env e t3) (he : t3.rch.length = 0) (hscope : t3.currentScope = t.currentScope) :
    Struct env t3 where
  static := by
    refine ⟨D.graph.pc, by rw [hscope]; exact S.static.scope, fun n hn => ?_⟩
    have sn := S.static.node n (by rw [← f.size]; exact hn)
    have g := f.shape n
    exact ⟨by rw [g.valid]; exact sn.valid, by rw [g.kind]; exact sn.kind,
      by rw [g.createdIn]; exact sn.top, by rw [g.forceNecessary]; exact sn.force,
      by rw [g.kind]; exact sn.kidsLt⟩
  par c p i hm := by
    rw [(f.shape c).parents] at hm
    obtain ⟨h1, h2⟩ := S.par c p i hm
    rw [(f.shape p).kind]
    exact ⟨h1, (wants_closed rfl).2 (by rw [f.nec]; exact (wants_closed rfl).1 h2)⟩
  conv p i c hk hw := by
    rw [(f.shape p).kind] at hk
    rw [(f.shape c).parents]
    exact S.conv p i c hk ((wants_closed rfl).2 (by rw [← f.nec]; exact (wants_closed rfl).1 hw))
  nodup c := by rw [(f.shape c).parents]; exact S.nodup c
  hlt c p i hm ho := by
    rw [(f.shape c).parents] at hm
    rw [(f.shape c).height, (f.shape p).height]; exact S.hlt c p i hm ho
  hpos n hn ho := by
    rw [f.nec] at hn
    rw [(f.shape n).height]; exact S.hpos n hn ho
  lnec p k ho := by cases ho
  unec p k ho := by cases ho
  heap := ⟨D.heap.wf, fun m hm => by rw [D.heap.hgt m hm]; exact D.heap.lb m hm, D.heap.lb0⟩
  hgt m hm _ := D.heap.hgt m hm
  qnec m hm := Or.inl (D.heap.nec m hm)
  queued m _ hn hs := by
    rw [← D.graph.isStale hn] at hs
    rcases D.pending m hn hs with h | h
    · exact h
    · cases h
  qstale m hm := by rw [D.heap.empty he m] at hm; cases hm
  opLt m ho := absurd rfl ho

theorem eval_congr {env : Env} {s s' : State} (hk : ∀ m, (s'.nodeD m).kind = (s.nodeD m).kind)
    (hv : s'.vars = s.vars) (k n : Nat) : eval env s' k n = eval env s k n := by
  induction k generalizing n with
  | zero => rfl
  | succ k ih =>
    unfold Sched.eval
    rw [hk n, hv]
    have : (fun a => Sched.eval env s' k a) = (fun a => Sched.eval env s k a) := funext ih
    rw [this]

/-! ## `stabilise` -/

/-- what `stabilise` does to the state of an observer -/
def stabilisedState : ObsState → ObsState
  | .created => .inUse
  | .disallowed => .unlinked
  | x => x

theorem stabilisedState_eq (x : ObsState) : stabilisedState x = unlinkedState (addedState x) := by
  cases x <;> rfl

/-- kind, cutoff, value and both stamps of every node agree -/
def SameData (a b : State) : Prop :=
  ∀ m, (b.nodeD m).kind = (a.nodeD m).kind ∧ (b.nodeD m).cutoff = (a.nodeD m).cutoff ∧
    (b.nodeD m).value = (a.nodeD m).value ∧ (b.nodeD m).recomputedAt = (a.nodeD m).recomputedAt ∧
    (b.nodeD m).changedAt = (a.nodeD m).changedAt

/-- the conclusions of `stabilise_q` about the final state -/
structure Stabilised (env : Env) (e : Bool) (fuel : Nat) (s s' : State) : Prop where
  inv : QInv env e s'
  newObservers : s'.newObservers = []
  disallowedObservers : s'.disallowedObservers = []
  vars : s'.vars = s.vars
  stabNum : s'.stabNum = s.stabNum + 1
  size : s'.nodes.size = s.nodes.size
  kind : ∀ m, (s'.nodeD m).kind = (s.nodeD m).kind
  obs : ObsMap stabilisedState s s'
  /-- necessity only grew by `addNewObservers`… and this is what is necessary at the end -/
  settled : ∀ n, s'.isNecessary n = true →
    (s'.nodeD n).valid = true ∧ s'.isStale n = false ∧
      ∃ v, (s'.nodeD n).value = some v ∧ s'.value env n = some v
  /-- with exact cutoffs throughout: the from-scratch values -/
  values : e = true → ∀ n, s'.isNecessary n = true → ∀ k, (s'.nodeD n).height.toNat < k →
    (s'.nodeD n).valid = true ∧ s'.isStale n = false ∧ (s'.nodeD n).value = eval env s' k n ∧
      s'.value env n = eval env s' k n ∧ (eval env s' k n).isSome = true
  /-- the drain: it starts in a state `t` with the drain invariant and the final graph; no node runs
  twice, only necessary nodes run -/
  drain : ∃ t t3, DrainInv env e t ∧ (drainHeap env fuel).run.run t = (.ok (), t3) ∧
    (∀ m, s'.isNecessary m = t.isNecessary m) ∧ t.vars = s.vars ∧ t.stabNum = s.stabNum ∧
    (∀ m, (t.nodeD m).kind = (s.nodeD m).kind) ∧
    (drainTrace env fuel t).Nodup ∧
    ∀ m, m ∈ drainTrace env fuel t → s'.isNecessary m = true ∧
      (t.nodeD m).recomputedAt < t.stabNum ∧ (s'.nodeD m).recomputedAt = s.stabNum
  /-- the same drain, for the gating theorem: the state `t` in which it starts has the kinds, cutoffs, values and
  stamps of `s` (and the necessity of `s'`); `s'` has the kinds, cutoffs, values and stamps of the state `t3` in
  which it ends -/
  gate : ∃ t t3, DrainInv env e t ∧ (drainHeap env fuel).run.run t = (.ok (), t3) ∧
    SameData s t ∧ SameData t3 s' ∧ t.vars = s.vars ∧ t.stabNum = s.stabNum ∧
    (∀ m, s'.isNecessary m = t.isNecessary m)

set_option maxHeartbeats 800000 in
/-- **G2: `stabilise` with pending observers.** -/
theorem stabilise_q {env : Env} {fuel : Nat} {s s' : State} (Q : QInv env e s)
    (h : (stabilise env fuel).run.run s = (.ok (), s')) : Stabilised env e fuel s s' := by
  unfold stabilise at h
  rw [run_bind_get] at h
  obtain ⟨_, sa, ha, h⟩ := bind_ok_inv h
  have hsa : sa = s := by
    rw [run_assertM] at ha
    split at ha <;> cases ha
    rfl
  rw [hsa] at h
  obtain ⟨s0, hs0, h⟩ := bind_modify_inv h
  obtain ⟨_, t1, h1, h⟩ := bind_ok_inv h
  obtain ⟨_, t2, h2, h⟩ := bind_ok_inv h
  obtain ⟨_, t3, h3, h4⟩ := bind_ok_inv h
  -- the state with the status set
  have hnd0 : ∀ m, s0.nodeD m = s.nodeD m := fun m => by rw [hs0]; rfl
  have S0 : SInv env s0 s0.newObservers s0.disallowedObservers := by
    rw [hs0]
    exact ⟨Q.struct.congr (SameG.of_nodes rfl rfl rfl rfl rfl),
      ⟨Q.obs.inRange, Q.obs.mem, Q.obs.created, Q.obs.newIn, Q.obs.dis, Q.obs.disIn, Q.obs.disNodup⟩,
      Q.pinv, Q.handlers⟩
  -- the prefix
  obtain ⟨S1, hn1, hd1, F1, O1, N1⟩ := addNewObservers_s S0 h1
  obtain ⟨S2, hn2, hd2, F2, O2⟩ := unlinkDisallowedObservers_s S1 hn1 h2
  have F : PFrame s0 t2 := F1.trans F2
  have hvars0 : s0.vars = s.vars := by rw [hs0]
  have hstab0 : s0.stabNum = s.stabNum := by rw [hs0]
  have hsz0 : s0.nodes.size = s.nodes.size := by rw [hs0]
  have V2 : VarsOK t2 := F.varsOK (by
    refine ⟨?_, ?_⟩
    · intro n c hn hk; rw [hnd0] at hk; rw [hvars0]; exact Q.vars.node n c (by rw [← hsz0]; exact hn) hk
    · intro c vc hc; rw [hvars0] at hc; rw [hsz0, hnd0]; exact Q.vars.cell c vc hc)
  have st2 : ∀ m, (t2.nodeD m).recomputedAt < t2.stabNum ∧ (t2.nodeD m).changedAt < t2.stabNum := by
    intro m
    rw [F.recomputedAt, F.changedAt, F.stabNum, hstab0, hnd0]; exact Q.stamps m
  have cons2 : ∀ m, m < t2.nodes.size → staleOf t2 m = false → ConsE env e t2 m := by
    intro m hm hs
    rw [F.staleOf] at hs
    have hs' : staleOf s m = false := by
      rw [← hs]; exact (staleOf_congr (by rw [hnd0]) (by rw [hnd0]) hvars0 (fun c _ => by rw [hnd0])).symm
    have hc := Q.cons m (by rw [← hsz0, ← F.size]; exact hm) hs'
    have hc0 : ConsE env e s0 m := by
      obtain ⟨w, hv, hw⟩ := hc
      exact ⟨w, by rw [hnd0]; exact hv, fun he => Target.congr (by rw [hnd0]) hvars0 (fun c _ => by rw [hnd0]) (hw he)⟩
    exact F.consE hc0
  have ex2 : e = true → ∀ m, ExactCut (t2.nodeD m).cutoff := by
    intro he m
    rw [F.cutoff, hnd0]; exact Q.exact he m
  have D2 : DrainInv env e t2 :=
    drainInv_of S2.struct V2 (by rw [F.stabNum, hstab0]; exact Q.now) st2
      (fun c vc hc => by rw [F.vars, hvars0] at hc; rw [F.stabNum, hstab0]; exact Q.varStamp c vc hc) cons2 ex2
  have U2 : UnnecOK env e t2 := fun m hm _ => ⟨(st2 m).1, cons2 m hm⟩
  -- the drain
  obtain ⟨D3, he3, f3⟩ := drainHeap_inv fuel t2 t3 D2 h3
  have c3 := drainHeap_calm fuel t2 t3 D2 h3
  have k3 := drainHeap_keyD D2 h3
  have U3 := drainHeap_unnec D2 U2 h3
  obtain ⟨hnodup, honce⟩ := drain_once fuel t2 t3 D2 h3
  simp only [stateKeyD, Prod.mk.injEq] at k3
  obtain ⟨k_obs, k_all, k_scope, k_top, k_handles, k_alive, k_pinv, -⟩ := k3
  have S3 : Struct env t3 := Struct.ofDrained S2.struct f3 D3 he3 k_scope
  -- the end
  have E := stabiliseEnd_fin (env := env) (fuel := fuel) (s := t3) (s' := s')
    (by rw [c3.setDuringStab, F.setDuringStab, hs0]; exact Q.setDuringStab)
    (by rw [c3.deadVars, F.deadVars, hs0]; exact Q.deadVars)
    (by intro o ob ho; rw [k_obs] at ho; exact (S2.obs.inRange o ob ho).2) h4
  -- nodes of the final state
  have hE : ∀ m, NodeG (t3.nodeD m) (s'.nodeD m) ∧ (s'.nodeD m).value = (t3.nodeD m).value ∧
      (s'.nodeD m).numOnUpdateHandlers = (t3.nodeD m).numOnUpdateHandlers := by
    intro m
    obtain ⟨b, hb⟩ := E.node m
    rw [hb]
    exact ⟨⟨rfl, rfl, rfl, rfl, rfl, rfl, rfl, rfl, rfl, rfl, rfl⟩, rfl, rfl⟩
  have G3 : SameG t3 s' := ⟨E.pc, E.scope, E.size, E.rch, E.vars, fun m => (hE m).1⟩
  have S' : Struct env s' := S3.congr G3
  have hnec' : ∀ m, s'.isNecessary m = t2.isNecessary m := fun m => by rw [G3.nec, f3.nec]
  have hkind' : ∀ m, (s'.nodeD m).kind = (t2.nodeD m).kind := fun m => by
    rw [(hE m).1.kind, (f3.shape m).kind]
  have hvars' : s'.vars = t2.vars := by rw [E.vars, f3.vars]
  have hsize' : s'.nodes.size = t2.nodes.size := by rw [E.size, f3.size]
  have V' : VarsOK s' := by
    refine ⟨?_, ?_⟩
    · intro n c hn hk; rw [hkind'] at hk; rw [hvars']; exact V2.node n c (by rw [← hsize']; exact hn) hk
    · intro c vc hc; rw [hvars'] at hc; rw [hsize', hkind']; exact V2.cell c vc hc
  have hobs' : s'.observers = t2.observers := by rw [E.observers, k_obs]
  have hnobs' : ∀ m, (s'.nodeD m).observers = (t2.nodeD m).observers := fun m => by
    rw [(hE m).1.observers, (f3.shape m).observers]
  have hno' : s'.newObservers = [] := by rw [E.newObservers, c3.newObservers]; exact hn2
  have hdo' : s'.disallowedObservers = [] := by rw [E.disallowedObservers, c3.disallowedObservers]; exact hd2
  have O' : ObsOK s' := by
    unfold ObsOK
    rw [hno', hdo']
    have o2 := S2.obs
    refine ⟨?_, ?_, ?_, ?_, ?_, ?_, List.nodup_nil⟩
    · intro o ob ho; rw [hobs'] at ho; rw [hsize']; exact o2.inRange o ob ho
    · intro n o; rw [hnobs', hobs']; exact o2.mem n o
    · intro o ob ho hc; rw [hobs'] at ho; exact o2.created o ob ho hc
    · intro o ho; cases ho
    · intro o ob ho; rw [hobs'] at ho; exact o2.dis o ob ho
    · intro o ho; cases ho
  have hstale' : ∀ m, staleOf s' m = staleOf t3 m := G3.staleOf
  have hcons3 : ∀ m, m < t3.nodes.size → staleOf t3 m = false → ConsE env e t3 m := by
    intro m hm hs
    cases hn : t3.isNecessary m with
    | true => exact (D3.all_consistent he3 m hn).2
    | false => exact (U3 m hm hn).2 hs
  have Q' : QInv env e s' := by
    refine ⟨S', V', O', ?_, ?_, ?_, ?_, ?_, E.status, ?_, E.setDuringStab, E.deadVars, E.handleAfterStab, ?_, ?_, ?_⟩
    · rw [E.stabNum]; have := D3.stamps.now; omega
    · intro m
      rw [(hE m).1.recomputedAt, (hE m).1.changedAt, E.stabNum]
      have := D3.stamps.node m; omega
    · intro c vc hc
      rw [E.vars] at hc; rw [E.stabNum]; have := D3.stamps.var c vc hc; omega
    · intro m hm hs
      rw [hstale'] at hs
      obtain ⟨w, hv, hw⟩ := hcons3 m (by rw [← E.size]; exact hm) hs
      exact ⟨w, by rw [(hE m).2.1]; exact hv, fun he => Target.congr (hE m).1.kind E.vars (fun c _ => (hE c).2.1) (hw he)⟩
    · intro he m
      rw [(hE m).1.cutoff]; exact D3.exact he m
    · rw [E.alive, k_alive, F.alive, hs0]; exact Q.alive
    · intro m
      rw [(hE m).2.2, c3.num, F.num, hnd0]; exact Q.handlers m
    · rw [E.pinv, k_pinv]; exact S2.pinv
    · intro k n hk
      rw [E.top, k_top, F.top, hs0] at hk
      rw [hsize', F.size, hsz0]; exact Q.top k n hk
  refine ⟨Q', hno', hdo', by rw [hvars', F.vars, hvars0], by rw [E.stabNum, f3.stabNum, F.stabNum, hstab0],
    by rw [hsize', F.size, hsz0], fun m => by rw [hkind', F.kind, hnd0], ?_, ?_, ?_, ?_, ?_⟩
  · -- observers
    refine ⟨by rw [hobs', O2.1, O1.1, hs0], fun o ob ho => ?_⟩
    have ho0 : s0.observers[o]? = some ob := by rw [hs0]; exact ho
    obtain ⟨ob1, h1o, h1n, h1s⟩ := O1.2 o ob ho0
    obtain ⟨ob2, h2o, h2n, h2s⟩ := O2.2 o ob1 h1o
    exact ⟨ob2, by rw [hobs']; exact h2o, by rw [h2n, h1n], by rw [h2s, h1s, stabilisedState_eq]⟩
  · -- settled
    intro n hn
    have hn3 : t3.isNecessary n = true := by rw [← G3.nec]; exact hn
    obtain ⟨v1, v2, v, v3, -⟩ := drained_settled D3 he3 n hn3
    have hv' : (s'.nodeD n).value = some v := by rw [(hE n).2.1]; exact v3
    refine ⟨by rw [(hE n).1.valid]; exact v1, ?_, v, hv', ?_⟩
    · rw [GInv.isStale S' (nec_lt_size hn), hstale', ← D3.graph.isStale hn3]; exact v2
    · rw [(S'.graph V').value_plain hn]; exact hv'
  · -- values
    intro he n hn k hk
    subst he
    have hn3 : t3.isNecessary n = true := by rw [← G3.nec]; exact hn
    have hk3 : (t3.nodeD n).height.toNat < k := by rw [← (hE n).1.height]; exact hk
    obtain ⟨v1, v2, v3, -, v5⟩ := drained_values D3 he3 n hn3 k hk3
    have hev : eval env s' k n = eval env t3 k n := eval_congr (fun m => (hE m).1.kind) E.vars k n
    have hv' : (s'.nodeD n).value = eval env s' k n := by rw [(hE n).2.1, hev]; exact v3
    refine ⟨by rw [(hE n).1.valid]; exact v1, ?_, hv', ?_, by rw [hev]; exact v5⟩
    · rw [GInv.isStale S' (nec_lt_size hn), hstale', ← D3.graph.isStale hn3]; exact v2
    · rw [(S'.graph V').value_plain hn]; exact hv'
  · -- the drain
    refine ⟨t2, t3, D2, h3, hnec', by rw [F.vars, hvars0], by rw [F.stabNum, hstab0],
      fun m => by rw [F.kind, hnd0], hnodup, fun m hm => ?_⟩
    obtain ⟨a1, a2, a3⟩ := honce m hm
    exact ⟨by rw [hnec']; exact a1, a2, by rw [(hE m).1.recomputedAt, a3, F.stabNum, hstab0]⟩
  · -- the gate
    refine ⟨t2, t3, D2, h3, fun m => ?_, fun m => ?_, by rw [F.vars, hvars0], by rw [F.stabNum, hstab0], hnec'⟩
    · rw [F.kind, F.cutoff, F.value, F.recomputedAt, F.changedAt, hnd0]
      exact ⟨rfl, rfl, rfl, rfl, rfl⟩
    · exact ⟨(hE m).1.kind, (hE m).1.cutoff, (hE m).2.1, (hE m).1.recomputedAt, (hE m).1.changedAt⟩

end IncrVerif.Proofs.CutH
