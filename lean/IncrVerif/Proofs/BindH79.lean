import IncrVerif.Proofs.BindH77
import IncrVerif.Proofs.BindH65
import IncrVerif.Proofs.BindH70
import IncrVerif.Proofs.BindH72
import IncrVerif.Proofs.BindH78
/-!
# Binds, fragment F1 end to end — the hypothesis `LcStepsOK` of the scheduling theorem is discharged for closures that CREATE nodes

F1: top-level nodes `const`/`var`/pure `map`/`fold`/`bindLhsChange`/`bindMain`; a run of a bind's closure creates `const`/`map`/`fold` nodes in the bind's scope over
older top-level nodes and earlier locals and returns one of these; the previous generation is invalidated.  `F1Inv env s` (C1f) is the auxiliary invariant.
-/
namespace IncrVerif.Proofs.BindH
open IncrVerif.Engine IncrVerif.Proofs IncrVerif.Proofs.Step IncrVerif.Proofs.Sched IncrVerif.Proofs.Quiet

/-- **In fragment F1 every step of a drain is described by the step relations** and keeps `F1Inv`. -/
theorem lcStepsOK_F1 (env : Env) : LcStepsOK env (F1Inv env) where
  lc _ _ _ _ _ _ I A hk h :=
    recomputeOne_lcF1 (closure_spec1 env) (relink_spec1 env) (inval_spec1 env) I A hk h
  other _ _ _ _ _ I A hk h :=
    recomputeOne_stepB_F1 I.graph I.heap I.cur_facts.1 hk I.kids_values h A
  pop _ _ _ I A h := pop_F1 I.heap h A

/-- **The drain in fragment F1** (no hypothesis about the steps): from the drain invariant and `F1Inv`, a successful `drainHeap` ends with both again, an empty
heap, the cells and the round number unchanged, and every necessary node valid, non-stale and equal (stored value and observer read) to its from-scratch value `evalB`
in the FINAL graph. -/
theorem drainHeap_F1 {env : Env} {fuel : Nat} {s s' : State} (I : DInv env s none) (A : F1Inv env s)
    (h : (drainHeap env fuel).run.run s = (.ok (), s')) :
    DInv env s' none ∧ F1Inv env s' ∧ s'.rch.length = 0 ∧ s'.vars = s.vars ∧ s'.stabNum = s.stabNum ∧
    ∀ n, s'.isNecessary n = true → ∀ k, (s'.nodeD n).height.toNat < k →
      (s'.nodeD n).valid = true ∧ s'.isStale n = false ∧
        (s'.nodeD n).value = evalB env s' k n ∧ s'.value env n = evalB env s' k n ∧
        (evalB env s' k n).isSome = true :=
  drainHeap_valuesB (lcStepsOK_F1 env) I A h

/-- **No node runs twice, and no node of a generation that dies in the drain runs in it** (fragment F1): the nodes run by the drain are pairwise distinct, each had not
run in this round before, and each is still VALID at the end of the drain. -/
theorem drain_once_F1 {env : Env} (fuel : Nat) (s s' : State) (I : DInv env s none) (A : F1Inv env s)
    (h : (drainHeap env fuel).run.run s = (.ok (), s')) :
    (drainTrace env fuel s).Nodup ∧ ∀ m, m ∈ drainTrace env fuel s → RanOnceB s s' m :=
  drain_onceB (lcStepsOK_F1 env) fuel s s' I A h

end IncrVerif.Proofs.BindH
