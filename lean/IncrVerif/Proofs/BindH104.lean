import IncrVerif.Proofs.BindH103
/-!
# Binds, part 5g2: "generations are current" (`GenOK`) through a drain, part 2 — a run of a change detector; the drain

A run of the change detector `n` of bind `b`: the closure run (phase 1) registers the image of the template for the CURRENT lhs value (`closure_elab`); phases 2–4
keep the naming table, the kinds of all nodes and the lhs value, and install the right-hand side.  For the other binds: record, kinds of registered nodes, lhs value and
the staleness of the change detector are unchanged (`StepL`).
-/
namespace IncrVerif.Proofs.BindH
open IncrVerif.Engine IncrVerif.Proofs IncrVerif.Proofs.Step IncrVerif.Proofs.Sched IncrVerif.Proofs.Quiet

namespace C3g

theorem lc_gen {env : Env} {fuel n b : Nat} {s s' : State} {r : Option Nat} (I : DInv env s (some n))
    (A : F1Inv env s) (G : GenOK env s) (hk : (s.nodeD n).kind = .bindLhsChange b)
    (h : (recomputeOne env fuel n).run.run s = (.ok r, s')) : GenOK env s' := by
  have g := I.graph
  obtain ⟨⟨br0, br0', L⟩, A'⟩ :=
    recomputeOne_lcF1 (closure_spec1 env) (relink_spec1 env) (inval_spec1 env) I A hk h
  obtain ⟨br, X⟩ := CC.lc_pre I A hk
  have ebr : br0 = br := by
    have := L.bind
    rw [X.hb] at this
    exact (Option.some.inj this).symm
  rw [ebr] at L
  obtain ⟨rhs, s1, s2, s3, h1, h2, h3, h4⟩ := CC.lc_run_inv X.hlt X.hvn hk X.hb h
  obtain ⟨l, P⟩ := CC.phase1 (closure_spec1 env) X A h1
  have Q := CC.phase2 (relink_spec1 env) X A P h2
  have R := CC.phase3 (inval_spec1 env) X A P Q h3
  have M := CC.midRel_of X A P Q R
  -- the image of the template after phase 1
  obtain ⟨v, l', hv, hbl, E⟩ := closure_elab h1 X.g0 X.ahh0 X.hb X.hlc
    (fun v => by
      have := A.closures b br v X.hb
      rw [X.hlc] at this
      exact (CC.templOK_congr (s := s) (s' := started n s) rfl n _).2 this)
    (fun k r hk => by
      obtain ⟨h1, h2, h3⟩ := A.topOK k r hk
      obtain ⟨y, e⟩ := CC.started_upto n s r
      refine ⟨by rw [CC.started_size]; exact h1, by rw [e]; exact h2, fun b' => by rw [e]; exact h3 b'⟩)
  have el : l' = l := by
    rw [P.bind] at hbl
    exact (congrArg BindRec.allNodesCreatedOnRhs (Option.some.inj hbl)).symm
  rw [el] at E
  -- the last step: naming table, bind table, kinds
  have K4 : KeyD s3 s' := (PresK.maybeChangeValue env fuel n .unit).h s3 _ s' h4
  simp only [KeyD, stateKeyD, Prod.mk.injEq] at K4
  obtain ⟨-, -, -, htop4, -, -, -, hb4, -⟩ := K4
  have D4 := ((C2k.PresD.maybeChangeValue (b := b) env fuel n .unit).h s3 _ s' h4).1
  have htop1 : s1.top = s.top := P.rel.top
  have htop : s'.top = s.top := by rw [htop4, M.top]
  have hsz3 : s3.nodes.size = s1.nodes.size := R.rel.size.trans Q.rel.size
  -- the lhs of `b`
  obtain ⟨f1, f2, f3, f4, f5, f6, f7, f8, -⟩ := rec_facts A.frag X.hb
  rw [X.hlc] at f6
  have hlhslt : br.lhs < s.nodes.size := by have := X.hlt; omega
  have hlhsne : br.lhs ≠ n := by omega
  have old_top : ∀ m, m < s.nodes.size → m ≠ n → (s.nodeD m).createdIn = .top →
      (s'.nodeD m).value = (s.nodeD m).value ∧ (s'.nodeD m).kind = (s.nodeD m).kind ∧
      (s'.nodeD m).valid = (s.nodeD m).valid := by
    intro m hm hne hc
    rcases L.old m hm hne with ⟨-, -, k3⟩ | ⟨k1, k2, -, k4, -⟩
    · rw [hc] at k3; cases k3
    · exact ⟨k4, k2, k1⟩
  intro b' br' hb' hst'
  by_cases eb : b' = b
  · -- the bind whose change detector ran
    subst eb
    rw [hb4, M.bind] at hb'
    have ebr' := (Option.some.inj hb').symm
    subst ebr'
    refine ⟨v, rhs, ?_, rfl, ?_⟩
    · show (s'.nodeD br.lhs).value = some v
      rw [(old_top _ hlhslt hlhsne f7).1, ← CC.started_other s hlhsne]
      exact hv
    · show ElabOf s' (env.body br.body v) v l rhs
      refine elabOf_mono (top_mono_of_eq (by rw [htop, htop1])) ?_ E
      intro m hm
      obtain ⟨m1, m2⟩ := (P.lmem m).1 hm
      have hnd : m ∉ br.allNodesCreatedOnRhs := fun hd => by
        have := (X.dyOld A hd).1; omega
      rw [(D4.old m (by rw [hsz3]; exact m2)).1, R.rel.other m hnd, Q.kind m]
  · -- another bind
    have hb0 : s.binds[b']? = some br' := by rw [← L.bindsOther.2 b' eb]; exact hb'
    obtain ⟨c1, c2, c3, c4, c5, c6, c7, c8, c9⟩ := rec_facts A.frag hb0
    have hlcne : br'.lhsChange ≠ n := by
      intro e
      rw [e, hk] at c3
      injection c3 with c3
      exact eb c3.symm
    have hlcmain : br'.lhsChange ≠ br.main := by
      intro e
      rw [e, X.hkm] at c3; cases c3
    have hlcv' : (s'.nodeD br'.lhsChange).valid = true := by
      rw [(old_top _ c1 hlcne c4).2.2]; exact c2
    have hst0 : s.isStale br'.lhsChange = false := by
      rw [← L.stale_kept g hk c1 hlcne hlcmain hlcv']; exact hst'
    have hl1 : br'.lhs < s.nodes.size := by omega
    have hl2 : br'.lhs ≠ n := by
      intro e
      exact c8 b (by rw [e]; exact hk)
    refine gen_rec G hb0 hst0 (top_mono_of_eq htop) (old_top _ hl1 hl2 c7).1 ?_
    intro m hm
    obtain ⟨d1, d2, d3⟩ := (A.frag.gen b' br' hb0 m).1 (Or.inl hm)
    have hmn : m ≠ n := by
      intro e
      rw [e, X.topN] at d3; cases d3
    rcases L.old m d1 hmn with ⟨-, -, k3⟩ | ⟨-, k2, -⟩
    · rw [d3] at k3
      injection k3 with k3
      exact absurd k3 eb
    · exact k2

end C3g

/-- **every step of a drain keeps `GenOK`** (together with the auxiliary invariant `AuxS` of a drain inside `stabilise`) -/
theorem lcStepsOK_gen (env : Env) (t : State) : LcStepsOK env (fun s => AuxS env t s ∧ GenOK env s) where
  lc fuel n b s s' r I A hk h := by
    obtain ⟨h1, h2⟩ := (lcStepsOK_auxS_F1 env t).lc fuel n b s s' r I A.1 hk h
    exact ⟨h1, h2, C3g.lc_gen I A.1.1 A.2 hk h⟩
  other fuel n s s' r I A hk h :=
    ⟨(lcStepsOK_auxS_F1 env t).other fuel n s s' r I A.1 hk h, C3g.static_gen I A.1.1 A.2 hk h⟩
  pop s s1 n I A h := ⟨(lcStepsOK_auxS_F1 env t).pop s s1 n I A.1 h, C3g.pop_gen I A.1.1 A.2 h⟩

/-- the same with `F1Inv` alone as the auxiliary invariant -/
theorem lcStepsOK_gen' (env : Env) : LcStepsOK env (fun s => F1Inv env s ∧ GenOK env s) where
  lc fuel n b s s' r I A hk h := by
    obtain ⟨h1, h2⟩ := (lcStepsOK_F1 env).lc fuel n b s s' r I A.1 hk h
    exact ⟨h1, h2, C3g.lc_gen I A.1 A.2 hk h⟩
  other fuel n s s' r I A hk h :=
    ⟨(lcStepsOK_F1 env).other fuel n s s' r I A.1 hk h, C3g.static_gen I A.1 A.2 hk h⟩
  pop s s1 n I A h := ⟨(lcStepsOK_F1 env).pop s s1 n I A.1 h, C3g.pop_gen I A.1 A.2 h⟩

/-- **a successful drain keeps `GenOK`**: from the drain invariant, the auxiliary invariant and current generations, `drainHeap` ends with all three (and an empty heap) -/
theorem drainHeap_gen {env : Env} {fuel : Nat} {t s s' : State} (I : DInv env s none) (X : AuxS env t s)
    (G : GenOK env s) (h : (drainHeap env fuel).run.run s = (.ok (), s')) :
    DInv env s' none ∧ AuxS env t s' ∧ GenOK env s' ∧ s'.rch.length = 0 ∧ FrameB s s' := by
  obtain ⟨I', ⟨X', G'⟩, he, f⟩ := drainHeap_invB (lcStepsOK_gen env t) fuel s s' I ⟨X, G⟩ h
  exact ⟨I', X', G', he, f⟩

/-- the drain in fragment F1 keeps `GenOK` -/
theorem drainHeap_gen_F1 {env : Env} {fuel : Nat} {s s' : State} (I : DInv env s none) (A : F1Inv env s)
    (G : GenOK env s) (h : (drainHeap env fuel).run.run s = (.ok (), s')) :
    DInv env s' none ∧ F1Inv env s' ∧ GenOK env s' := by
  obtain ⟨I', ⟨A', G'⟩, -, -⟩ := drainHeap_invB (lcStepsOK_gen' env) fuel s s' I ⟨A, G⟩ h
  exact ⟨I', A', G'⟩

end IncrVerif.Proofs.BindH
