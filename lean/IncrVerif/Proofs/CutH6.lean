import IncrVerif.Proofs.CutH5
-- Port of Proofs/Sched9.lean to ARBITRARY cutoffs (scratch name S9); overview in Props/C06History.lean
/-!
# C06 for whole histories, part 6: the drain does not touch the bookkeeping of `stabiliseEnd` (`Sched.Calm`)

Port of the drain part of `Proofs/Sched9.lean`.
-/
namespace IncrVerif.Proofs.CutH
open IncrVerif.Engine IncrVerif.Proofs IncrVerif.Proofs.Step IncrVerif.Proofs.Sched

/-- a `recomputeOne` of the static fragment does not touch the bookkeeping of `stabiliseEnd` -/
theorem recomputeOne_calm {env : Env} {fuel n : Nat} {s s' : State} {r : Option Nat}
    (g : Graph env s) (hn : s.isNecessary n = true)
    (hvals : ∃ vals, plainVals s (kids (s.nodeD n).kind) = some vals)
    (h : (recomputeOne env fuel n).run.run s = (.ok r, s')) : Calm s s' := by
  obtain ⟨hlt, hv, hk, _⟩ := g.nec n hn
  have hnn := some_of_lt hlt
  obtain ⟨vals, hvals⟩ := hvals
  have hvo := g.valuesOf hn
  rw [hvals] at hvo
  have mcv := fun v S0 (h0 : (maybeChangeValue env fuel n v).run.run S0 = (.ok r, s')) =>
    (PresC.maybeChangeValue env fuel n v).h S0 _ s' h0
  cases hkd : (s.nodeD n).kind with
  | const w =>
    rw [recomputeOne_const_run env fuel n s _ w hnn hv hkd] at h
    exact (Calm.started n s).trans (mcv _ _ h)
  | var c =>
    obtain ⟨vc, hvc⟩ := g.var n c hn hkd
    rw [recomputeOne_var_run env fuel n s _ c vc hnn hv hkd hvc] at h
    exact (Calm.started n s).trans (mcv _ _ h)
  | map f args =>
    rw [hkd] at hk hvo
    by_cases hf : f < fnZip
    · rw [recomputeOne_map_run env fuel n s _ f args vals hnn hv hkd hf hvo (hk.2 hf vals) g.pc] at h
      exact ((Calm.started n s).trans (Calm.logged _ _)).trans (mcv _ _ h)
    · rw [recomputeOne_mapBuiltin_run env fuel n s _ f args vals hnn hv hkd hf hk.1 hvo] at h
      exact (Calm.started n s).trans (mcv _ _ h)
  | fold f init cs =>
    rw [hkd] at hvo
    rw [recomputeOne_fold_run env fuel n s _ f init cs vals hnn hv hkd hvo g.pc] at h
    exact ((Calm.started n s).trans (Calm.logged _ _)).trans (mcv _ _ h)
  | mapRef _ _ => rw [hkd] at hk; exact hk.elim
  | mapWithOld _ _ => rw [hkd] at hk; exact hk.elim
  | bindLhsChange _ => rw [hkd] at hk; exact hk.elim
  | bindMain _ _ => rw [hkd] at hk; exact hk.elim
  | expert _ => rw [hkd] at hk; exact hk.elim

theorem recompute_calm {env : Env} {e : Bool} : ∀ (fuel n : Nat) (s s' : State), Inv env e s (some n) →
    (recompute env fuel n).run.run s = (.ok (), s') → Calm s s' := by
  intro fuel
  induction fuel with
  | zero => intro n s s' _ h; unfold recompute at h; cases h
  | succ fuel ih =>
    intro n s s' I h
    unfold recompute at h
    obtain ⟨r, s1, h1, h2⟩ := bind_ok_inv h
    have c1 := recomputeOne_calm I.graph (I.cur n rfl).1 I.kids_values h1
    obtain ⟨I1, -, -⟩ := recomputeOne_inv I h1
    cases r with
    | none => obtain ⟨-, rfl⟩ := pure_ok_inv h2; exact c1
    | some p => exact c1.trans (ih p s1 s' I1 h2)
theorem drainHeap_calm {env : Env} {e : Bool} : ∀ (fuel : Nat) (s s' : State), DrainInv env e s →
    (drainHeap env fuel).run.run s = (.ok (), s') → Calm s s' := by
  intro fuel
  induction fuel with
  | zero => intro s s' _ h; unfold drainHeap at h; cases h
  | succ fuel ih =>
    intro s s' I h
    unfold drainHeap at h
    obtain ⟨r, s1, h1, h2⟩ := bind_ok_inv h
    cases r with
    | none =>
      obtain ⟨-, rfl⟩ := pure_ok_inv h2
      obtain ⟨rfl, -⟩ := rchRemoveMin_inv I.heap h1
      exact Calm.refl _
    | some n =>
      obtain ⟨u, s2, h3, h4⟩ := bind_ok_inv h2
      obtain ⟨I1, -⟩ := pop_inv I h1
      obtain ⟨I2, -⟩ := recompute_inv fuel n s1 s2 I1 h3
      exact ((pop_calm I.heap h1).trans (recompute_calm fuel n s1 s2 I1 h3)).trans (ih s2 s' I2 h4)


end IncrVerif.Proofs.CutH
