import IncrVerif.Proofs.Sched13
import IncrVerif.Engine.Run
/-!
# The conditional frame `HasF`: as long as no node has update handlers, nothing is queued for the handlers phase

The premise is about the INITIAL state of each sub-run; transitivity threads the second component of the conclusion
(no node has update handlers in the final state) to the next step.  `handleAfterStabilisation` is NOT `Pres HasF`; it
is only reached through `maybeHandleAfterStabilisation`, whose test is false under the premise.
-/
namespace IncrVerif.Proofs.ExpertH
open IncrVerif.Engine IncrVerif.Proofs IncrVerif.Proofs.Step

/-- as long as no node has update handlers, nothing is queued for the handlers phase -/
def HasF (s s' : State) : Prop :=
  (∀ m, (s.nodeD m).numOnUpdateHandlers ≤ 0) →
    (s'.handleAfterStab = s.handleAfterStab ∧ ∀ m, (s'.nodeD m).numOnUpdateHandlers ≤ 0)

theorem HasF.refl (s : State) : HasF s s := fun h => ⟨rfl, h⟩
theorem HasF.trans {a b c : State} (h1 : HasF a b) (h2 : HasF b c) : HasF a c := fun h =>
  ⟨((h2 (h1 h).2).1).trans (h1 h).1, (h2 (h1 h).2).2⟩
instance : Step.PreOrd HasF := ⟨HasF.refl, HasF.trans⟩

theorem HasF.of_nodes {s s' : State} (h1 : s'.nodes = s.nodes) (h2 : s'.handleAfterStab = s.handleAfterStab) :
    HasF s s' := by
  intro h
  refine ⟨h2, fun m => ?_⟩
  have : s'.nodeD m = s.nodeD m := by simp [State.nodeD, h1]
  rw [this]; exact h m

theorem HasF.modNode (s : State) (n : Nat) (f : Node → Node)
    (hf : ∀ x, (f x).numOnUpdateHandlers = x.numOnUpdateHandlers) :
    HasF s { s with nodes := s.nodes.modify n f } := by
  intro h
  refine ⟨rfl, fun m => ?_⟩
  rw [nodeD_modify]; split
  · rw [hf]; exact h m
  · exact h m

theorem PresH.modNode (n : Nat) (f : Node → Node) (hf : ∀ x, (f x).numOnUpdateHandlers = x.numOnUpdateHandlers) :
    Step.Pres HasF (Engine.modNode n f) := by
  unfold Engine.modNode; exact Step.Pres.modify fun s => HasF.modNode s n f hf

macro_rules
  | `(tactic| qleaf) =>
    `(tactic| ((with_reducible apply Step.Pres.modify); intro _; exact HasF.of_nodes rfl rfl))
macro_rules
  | `(tactic| qleaf) => `(tactic| ((with_reducible apply PresH.modNode); intro _; rfl))

macro "has_leaf " n:ident : command =>
  `(macro_rules | `(tactic| qleaf) => `(tactic| with_reducible apply $n))

theorem PresH.modExpert (e f) : Step.Pres HasF (Engine.modExpert e f) := by unfold Engine.modExpert; qpres
has_leaf PresH.modExpert

theorem PresH.discard {α} {x : M α} (h : Step.Pres HasF x) : Step.Pres HasF (discard x) := by
  unfold Functor.discard; exact Step.Pres.map _ h
has_leaf PresH.discard

theorem PresH.logEv (e) : Step.Pres HasF (Engine.logEv e) := by unfold Engine.logEv; qpres
has_leaf PresH.logEv
theorem PresH.tick : Step.Pres HasF Engine.tick := by unfold Engine.tick; qpres
has_leaf PresH.tick
theorem PresH.bumpCounter (f) : Step.Pres HasF (Engine.bumpCounter f) := by unfold Engine.bumpCounter; qpres
has_leaf PresH.bumpCounter
theorem PresH.modBind (b f) : Step.Pres HasF (Engine.modBind b f) := by unfold Engine.modBind; qpres
has_leaf PresH.modBind
theorem PresH.modObs (o f) : Step.Pres HasF (Engine.modObs o f) := by unfold Engine.modObs; qpres
has_leaf PresH.modObs
theorem PresH.modVar (v f) : Step.Pres HasF (Engine.modVar v f) := by unfold Engine.modVar; qpres
has_leaf PresH.modVar
theorem PresH.getObs (o) : Step.Pres HasF (Engine.getObs o) := by unfold Engine.getObs; qpres
has_leaf PresH.getObs
theorem PresH.getVar (v) : Step.Pres HasF (Engine.getVar v) := Step.Pres.getVar v
theorem PresH.addParent (c i p) : Step.Pres HasF (Engine.addParent c i p) := by unfold Engine.addParent; qpres
has_leaf PresH.addParent
theorem PresH.removeParent (c i p) : Step.Pres HasF (Engine.removeParent c i p) := by
  unfold Engine.removeParent; qpres
has_leaf PresH.removeParent
theorem PresH.setHeight (n h) : Step.Pres HasF (Engine.setHeight n h) := by unfold Engine.setHeight; qpres
has_leaf PresH.setHeight
theorem PresH.rchLink (n) : Step.Pres HasF (Engine.rchLink n) := by unfold Engine.rchLink; qpres
has_leaf PresH.rchLink
theorem PresH.rchUnlink (n) : Step.Pres HasF (Engine.rchUnlink n) := by unfold Engine.rchUnlink; qpres
has_leaf PresH.rchUnlink
theorem PresH.rchInsert (n) : Step.Pres HasF (Engine.rchInsert n) := by unfold Engine.rchInsert; qpres
has_leaf PresH.rchInsert
theorem PresH.rchRemove (n) : Step.Pres HasF (Engine.rchRemove n) := by unfold Engine.rchRemove; qpres
has_leaf PresH.rchRemove
theorem PresH.rchRemoveMin : Step.Pres HasF Engine.rchRemoveMin := by unfold Engine.rchRemoveMin; qpres
has_leaf PresH.rchRemoveMin
theorem PresH.rchMinHeight : Step.Pres HasF Engine.rchMinHeight := by unfold Engine.rchMinHeight; qpres
has_leaf PresH.rchMinHeight
theorem PresH.rchIncreaseHeight (n) : Step.Pres HasF (Engine.rchIncreaseHeight n) := by
  unfold Engine.rchIncreaseHeight; qpres
has_leaf PresH.rchIncreaseHeight
theorem PresH.ahhAddUnlessMem (n) : Step.Pres HasF (Engine.ahhAddUnlessMem n) := by
  unfold Engine.ahhAddUnlessMem; qpres
has_leaf PresH.ahhAddUnlessMem
theorem PresH.ahhRemoveMin : Step.Pres HasF Engine.ahhRemoveMin := by unfold Engine.ahhRemoveMin; qpres
has_leaf PresH.ahhRemoveMin
theorem PresH.ensureHeightRequirement (oc op c p) : Step.Pres HasF (Engine.ensureHeightRequirement oc op c p) := by
  unfold Engine.ensureHeightRequirement; qpres
has_leaf PresH.ensureHeightRequirement

theorem PresH.adjustHeightsLoop (oc op fuel) : Step.Pres HasF (Engine.adjustHeightsLoop oc op fuel) := by
  induction fuel with
  | zero => unfold Engine.adjustHeightsLoop; qpres
  | succ fuel ih =>
    unfold Engine.adjustHeightsLoop
    qpres
    all_goals first
      | exact ih
      | (apply Step.Pres.forIn; intro a b; qpres)
has_leaf PresH.adjustHeightsLoop

theorem PresH.adjustHeights (oc op fuel) : Step.Pres HasF (Engine.adjustHeights oc op fuel) := by
  unfold Engine.adjustHeights; qpres
has_leaf PresH.adjustHeights

theorem PresH.scopeHeight (sc) : Step.Pres HasF (Engine.scopeHeight sc) := Step.Pres.scopeHeight sc
theorem PresH.scopeIsNecessary (sc) : Step.Pres HasF (Engine.scopeIsNecessary sc) := by
  unfold Engine.scopeIsNecessary; qpres
has_leaf PresH.scopeIsNecessary
/-- THE KEY LEAF: under the premise the test `numOnUpdateHandlers > 0` is false, so the state is unchanged
(`handleAfterStabilisation` itself is NOT `Pres HasF`) -/
theorem PresH.maybeHandleAfterStabilisation (n) : Step.Pres HasF (Engine.maybeHandleAfterStabilisation n) := by
  constructor
  intro s r s' h hp
  unfold Engine.maybeHandleAfterStabilisation at h
  rw [run_bind, run_getNode] at h
  cases hn : s.nodes[n]? with
  | none => rw [hn] at h; cases h; exact ⟨rfl, hp⟩
  | some nd =>
    rw [hn] at h
    have hz : ¬ nd.numOnUpdateHandlers > 0 := by
      have := hp n
      rw [nodeD_of_some hn] at this
      omega
    simp only [hz] at h
    cases h
    exact ⟨rfl, hp⟩
has_leaf PresH.maybeHandleAfterStabilisation
theorem PresH.edgeOnChange (env e edge) : Step.Pres HasF (Engine.edgeOnChange env e edge) := by
  unfold Engine.edgeOnChange; qpres
has_leaf PresH.edgeOnChange
theorem PresH.runEdgeCallback (env e i) : Step.Pres HasF (Engine.runEdgeCallback env e i) := by
  unfold Engine.runEdgeCallback; qpres
has_leaf PresH.runEdgeCallback
theorem PresH.observabilityChange (e b) : Step.Pres HasF (Engine.observabilityChange e b) := by
  unfold Engine.observabilityChange; qpres
has_leaf PresH.observabilityChange

theorem PresH.markMapRefUnknown (fuel n) : Step.Pres HasF (Engine.markMapRefUnknown fuel n) := by
  induction fuel generalizing n with
  | zero => unfold Engine.markMapRefUnknown; qpres
  | succ fuel ih =>
    unfold Engine.markMapRefUnknown
    qpres
    all_goals (apply Step.Pres.forIn; intro a b; qpres; all_goals exact ih _)
has_leaf PresH.markMapRefUnknown

theorem PresH.link (env : Env) (fuel : Nat) :
    (∀ n, Step.Pres HasF (Engine.becameNecessary env fuel n)) ∧
    (∀ c i p, Step.Pres HasF (Engine.addParentWithoutAdjustingHeights env fuel c i p)) := by
  induction fuel with
  | zero =>
    constructor
    · intro n; unfold Engine.becameNecessary; qpres
    · intro c i p; unfold Engine.addParentWithoutAdjustingHeights; qpres
  | succ fuel ih =>
    constructor
    · intro n
      unfold Engine.becameNecessary
      qpres
      all_goals (apply Step.Pres.forIn; intro a b; qpres; all_goals exact ih.2 _ _ _)
    · intro c i p
      unfold Engine.addParentWithoutAdjustingHeights
      qpres
      all_goals exact ih.1 _

theorem PresH.becameNecessary (env fuel n) : Step.Pres HasF (Engine.becameNecessary env fuel n) :=
  (PresH.link env fuel).1 n
has_leaf PresH.becameNecessary
theorem PresH.addParentWithoutAdjustingHeights (env fuel c i p) :
    Step.Pres HasF (Engine.addParentWithoutAdjustingHeights env fuel c i p) :=
  (PresH.link env fuel).2 c i p
has_leaf PresH.addParentWithoutAdjustingHeights

theorem PresH.unlink (fuel : Nat) :
    (∀ n, Step.Pres HasF (Engine.becameUnnecessary fuel n)) ∧
    (∀ n, Step.Pres HasF (Engine.checkIfUnnecessary fuel n)) ∧
    (∀ n, Step.Pres HasF (Engine.removeChildren fuel n)) := by
  induction fuel with
  | zero =>
    refine ⟨?_, ?_, ?_⟩
    · intro n; unfold Engine.becameUnnecessary; qpres
    · intro n; unfold Engine.checkIfUnnecessary; qpres
    · intro n; unfold Engine.removeChildren; qpres
  | succ fuel ih =>
    refine ⟨?_, ?_, ?_⟩
    · intro n
      unfold Engine.becameUnnecessary
      qpres
      all_goals exact ih.2.2 _
    · intro n
      unfold Engine.checkIfUnnecessary
      qpres
      all_goals exact ih.1 _
    · intro n
      unfold Engine.removeChildren
      qpres
      all_goals (apply Step.Pres.forIn; intro a b; qpres; all_goals exact ih.2.1 _)

theorem PresH.becameUnnecessary (fuel n) : Step.Pres HasF (Engine.becameUnnecessary fuel n) :=
  (PresH.unlink fuel).1 n
has_leaf PresH.becameUnnecessary
theorem PresH.checkIfUnnecessary (fuel n) : Step.Pres HasF (Engine.checkIfUnnecessary fuel n) :=
  (PresH.unlink fuel).2.1 n
has_leaf PresH.checkIfUnnecessary
theorem PresH.removeChildren (fuel n) : Step.Pres HasF (Engine.removeChildren fuel n) :=
  (PresH.unlink fuel).2.2 n
has_leaf PresH.removeChildren

end IncrVerif.Proofs.ExpertH
