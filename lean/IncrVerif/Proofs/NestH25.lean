import IncrVerif.Proofs.NestH24
/-!
# Nested binds (F2), the closure run, part 6: `closure_spec2`

The closure run of a bind (`Inval.lhsRunClosure`) keeps the structural invariant `GInv2` under an EXTENDED rank: the previously registered nodes become
the dying generation, the nodes the closure creates (static nodes and the two nodes of every inner bind, all in scope `.bind b`) are appended, pristine,
and are exactly the newly registered ones; the records of the inner binds are appended.
-/
namespace IncrVerif.Proofs.NestH
open IncrVerif.Engine IncrVerif.Proofs IncrVerif.Proofs.Step IncrVerif.Proofs.Sched IncrVerif.Proofs.Quiet
open IncrVerif.Proofs.BindH

namespace NN

/-- the state in which `elabTemplate` starts, seen at top level, as a growth of `s` -/
theorem entered_grow2 (b : Nat) (e : Event) (s : State) : Grow2 s (CN.T (CN.entered b e s)) where
  size := Nat.le_refl _
  old _ _ := rfl
  new m h1 h2 := by
    have : (CN.T (CN.entered b e s)).nodes.size = s.nodes.size := rfl
    omega
  binds := BFwd.of_bsame (CN.BSame.of_modify b (fun _ => []) rfl)
  vars := rfl
  rch := rfl
  ahh := rfl

/-- the loop invariant when `elabTemplate` starts -/
theorem entered_li2 {env : Env} {rk : Nat → Nat} {s : State} {ex : Nat → Prop} {b : Nat} {br : BindRec} (e : Event)
    (I : GInv2 env rk s allClosed ex []) (hA : AhhEmpty s) (hb : s.binds[b]? = some br)
    (hcut : ∀ m b', (s.nodeD m).kind = .bindLhsChange b' → (s.nodeD m).cutoff = .never) :
    LI2 env b br s rk ex 0 [] rk (CN.entered b e s) := by
  have hsc := I.frag.scope
  have hbb : (CN.T (CN.entered b e s)).binds[b]? = some { br with allNodesCreatedOnRhs := [] } := by
    show (s.binds.modify b _)[b]? = _
    rw [Array.getElem?_modify, if_pos rfl, hb]; rfl
  have hbsz : (CN.entered b e s).binds.size = s.binds.size := by
    show (s.binds.modify b _).size = _
    rw [Array.size_modify]
  refine ⟨RkExt.refl rk _, ?_, ⟨hA.length, hA.buckets, hA.marks⟩, ?_, rfl, rfl, (fun c hc => by cases hc), hcut, ?_⟩
  · exact (entered_grow2 b e s).ginv2 I
      (all2_reset2 I.frag hb (entered_grow2 b e s) rfl rfl I.frag.pc rfl)
  · refine
      { grow := Nat.le_refl _
        old := fun _ _ => rfl
        new := fun m h1 h2 => by
          have : (CN.T (CN.entered b e s)).nodes.size = s.nodes.size := rfl
          omega
        bind := ⟨[], hbb, fun m => ?_⟩
        bindsGrow := by
          show _ ≤ (s.binds.modify b _).size
          rw [Array.size_modify]; exact Nat.le_refl _
        bindsOther := fun b' hne _ => by
          show (s.binds.modify b _)[b']? = _
          rw [Array.getElem?_modify, if_neg (fun e => hne e.symm)]
        bindsNew := fun b' br' hge hb' => by
          have hlt : b' < (CN.entered b e s).binds.size := lt_of_getElem? hb'
          omega
        vars := rfl, stabNum := rfl, status := rfl, cfg := rfl, scope := hsc.symm, pc := rfl, rch := rfl
        ahh := rfl, top := rfl, pinv := rfl }
    have : (CN.T (CN.entered b e s)).nodes.size = s.nodes.size := rfl
    constructor
    · intro h; cases h
    · intro h; omega
  · intro b' br' hge hb'
    have hlt := lt_of_getElem? hb'
    omega

end NN

/-- **Phase 1 of the run of a change detector in fragment F2**: the closure run keeps the structural invariant, under an extended rank. -/
theorem closure_spec2 (env : Env) : ClosureSpec2 env := by
  intro n b rhs br rk s s' ex h I hA hb hlc hvalid hbody htop hcut
  have A0 := I.frag
  obtain ⟨f, hbody⟩ := hbody
  cases f with
  | zero => exact hbody.elim
  | succ f =>
    obtain ⟨v, e, t, hrun, es'⟩ := CN.lhsRunClosure_inv A0.pc h
    have hdy : ∀ m, m ∈ br.allNodesCreatedOnRhs → m < s.nodes.size :=
      fun m hm => ((A0.gen b br hb m).1 (Or.inl hm)).1
    have hT : TemplOK2 env rk s (fun b' => BodyOK2 env rk s br.lhsChange f b') br.lhsChange (env.body br.body v) := by
      rw [hlc]; exact hbody v
    have hvlc : (s.nodeD br.lhsChange).valid = true := by rw [hlc]; exact hvalid
    obtain ⟨loc, rk', L, hlt, hnlc, hd⟩ :=
      NN.elabTemplate_inv2 (NN.entered_li2 e I hA hb hcut) A0 hb hvlc hdy htop hT hrun
    have es : s' = CN.T t := by rw [es', A0.scope]; rfl
    rw [es]
    refine ⟨rk', L.ext, L.inv, ⟨L.ahh.length, L.ahh.buckets, L.ahh.marks⟩, L.rel, hlt, hnlc, ?_, L.lcCut, ?_⟩
    · rw [← hlc]
      exact hd
    · intro b' br' hge hb'
      obtain ⟨h1, -, h3⟩ := L.newRecs b' br' hge hb'
      exact ⟨h1, h3⟩

end IncrVerif.Proofs.NestH
