import IncrVerif.Proofs.TidyH27
/-!
# T3b part 4: `stabilise_end` returns (deferred function writes applied, handlers with immediate writes run)
-/
namespace IncrVerif.Proofs.TidyH.EffT
open IncrVerif.Engine IncrVerif.Driver IncrVerif.Proofs IncrVerif.Proofs.Step IncrVerif.Proofs.Sched
open IncrVerif.Proofs.Quiet IncrVerif.Proofs.EffH

theorem nodeUpdate_cases {env : Env} {t : State} {n : Nat} (h1 : (t.nodeD n).valid = true)
    (h2 : (t.nodeD n).isNecessary = true) :
    t.nodeUpdate env n = .changed ∨ t.nodeUpdate env n = .necessary := by
  unfold State.nodeUpdate
  simp only [h1, h2, Bool.not_true, Bool.false_eq_true, if_false]
  split
  · exact Or.inl rfl
  · exact Or.inr rfl

/-- what is known about a pair of the queue built by the third loop -/
def PQ (c : State) (p : Nat × NodeUpdate) : Prop :=
  p.1 < c.nodes.size ∧
    ((c.nodeD p.1).valid = true → c.isNecessary p.1 = true → p.2 = .changed ∨ p.2 = .necessary)

/-- the third loop of `stabiliseEnd` after the var phase (stated for any body that behaves like it) -/
theorem loop3R {env : Env} {c : State}
    (f : Nat → List (Nat × NodeUpdate) → M (ForInStep (List (Nat × NodeUpdate))))
    (hf : ∀ n q t, (f n q).run.run t = (.ok (.yield (q ++ [(n, State.nodeUpdate env
        { t with nodes := t.nodes.modify n fun x => { x with inHandleAfterStab := false } } n)])),
      { t with nodes := t.nodes.modify n fun x => { x with inHandleAfterStab := false } }))
    (hs : List Nat) (hhs : ∀ n, n ∈ hs → n < c.nodes.size) :
    ∀ q t, e6_Mid c t → (∀ p, p ∈ q → PQ c p) →
      ∃ q' t', (forIn hs q f).run.run t = (.ok q', t') ∧ e6_Mid c t' ∧ (∀ p, p ∈ q' → PQ c p) := by
  induction hs with
  | nil => intro q t M hq; exact ⟨q, t, by rw [List.forIn_nil, run_pure], M, hq⟩
  | cons a l ih =>
    intro q t M hq
    have h1 := hf a q t
    have M1 := M.modNode a false
    have hq' : ∀ p, p ∈ q ++ [(a, State.nodeUpdate env
        { t with nodes := t.nodes.modify a fun x => { x with inHandleAfterStab := false } } a)] → PQ c p := by
      intro p hp
      simp only [List.mem_append, List.mem_singleton] at hp
      rcases hp with hp | hp
      · exact hq p hp
      · rw [hp]
        refine ⟨hhs a (List.mem_cons_self ..), fun hv hn => ?_⟩
        obtain ⟨b, hb⟩ := M1.node a
        refine nodeUpdate_cases (by rw [hb]; exact hv) ?_
        rw [hb]; exact hn
    obtain ⟨q2, t2, h2, M2, hq2⟩ := ih (fun n hn => hhs n (List.mem_cons_of_mem _ hn)) _ _ M1 hq'
    exact ⟨q2, t2, by rw [List.forIn_cons, run_bind_ok h1]; exact h2, M2, hq2⟩

/-- what `stabiliseEndRest` leaves of the state after the var phase -/
structure Fin (c s' : State) : Prop where
  wr : Wr c s'
  top : s'.top = c.top
  newObs : s'.newObservers = c.newObservers

set_option maxHeartbeats 1000000 in
/-- **the second half of `stabilise_end` returns**: nothing dead, the queued nodes exist, every necessary node is
valid and has a value, no fault injection armed, handlers with write effects on existing variables -/
theorem stabiliseEndRest_total {env : Env} {N B fuel : Nat} {c : State} (hH : WHandlers env)
    (hHb : HBound env B) (E : EP (noEff env) N B c) (hpc : c.panicCountdown = none)
    (O : SubsH.ObsInv c [] []) (hhs : HasRange c)
    (hval : ∀ n, c.isNecessary n = true → (c.nodeD n).valid = true ∧ (c.value env n).isSome = true) :
    Tot (stabiliseEndRest env fuel) c (fun _ s' => EP (noEff env) N B s' ∧ Fin c s') := by
  have hd : c.deadVars = [] := E.q.deadVars
  unfold stabiliseEndRest
  refine Tot.bind_get ?_
  dsimp only
  refine Tot.bind_modify ?_
  rw [hd, List.forIn_nil]
  refine Tot.bind_ok (run_pure _ _) ?_
  refine Tot.bind_get ?_
  dsimp only
  refine Tot.bind_modify ?_
  refine Tot.bind (Q := fun q t => e6_Mid c t ∧ ∀ p, p ∈ q → PQ c p) ?_ ?_
  · refine loop3R (env := env) (c := c) _ ?_ c.handleAfterStab hhs [] _ ?_ ?_
    · intro n q t
      rw [run_bind_modNode, run_bind_get, run_pure]
    · exact ⟨rfl, rfl, fun m => ⟨_, rfl⟩⟩
    · intro p hp; cases hp
  intro q t7 _ ⟨M7, hq⟩
  refine Tot.bind_modify ?_
  refine Tot.bind_get ?_
  -- the state in which the handlers start to run
  obtain ⟨t8, ht8⟩ : ∃ t8 : State, t8 = { t7 with status := .runningOnUpdateHandlers } := ⟨_, rfl⟩
  rw [← ht8]
  have e7 : t7 = { ({ c with deadVars := [] } : State) with nodes := t7.nodes, handleAfterStab := [] } := M7.eq
  rw [e6_dead c hd] at e7
  have hnodes8 : t8.nodes = t7.nodes := by rw [ht8]
  have hnd8 : ∀ m, t8.nodeD m = t7.nodeD m := fun m => by simp only [State.nodeD, hnodes8]
  have hobs8 : t8.observers = c.observers := by rw [ht8]; show t7.observers = _; rw [e7]
  have hvars8 : t8.vars = c.vars := by rw [ht8]; show t7.vars = _; rw [e7]
  have hrch8 : t8.rch = c.rch := by rw [ht8]; show t7.rch = _; rw [e7]
  have hahh8 : t8.ahh = c.ahh := by rw [ht8]; show t7.ahh = _; rw [e7]
  have hpc8 : t8.panicCountdown = none := by rw [ht8]; show t7.panicCountdown = _; rw [e7]; exact hpc
  have htop8 : t8.top = c.top := by rw [ht8]; show t7.top = _; rw [e7]
  have hno8 : t8.newObservers = c.newObservers := by rw [ht8]; show t7.newObservers = _; rw [e7]
  have hst8 : t8.status ≠ .stabilising := by rw [ht8]; intro e; cases e
  have W8 : Wr c t8 := by
    refine ⟨by rw [hnodes8]; exact M7.size, fun m => ?_, hahh8, by rw [hrch8], by rw [hvars8], fun w x hx => ?_⟩
    · obtain ⟨b, hb⟩ := M7.node m
      exact ⟨_, b, by rw [hnd8, hb]⟩
    · exact ⟨x, by rw [hvars8]; exact hx, rfl, rfl⟩
  have hcore : coreQ (quiet t8) = coreQ (quiet c) := by
    rw [ht8]
    conv => lhs; rw [e7]
    rfl
  have Q8 : SubsH.QInv (noEff env) (quiet t8) :=
    qinvU_congr E.q hcore (by show t8.nodes.size = c.nodes.size; rw [hnodes8]; exact M7.size)
      (fun m => by
        obtain ⟨b, hb⟩ := M7.node m
        exact ⟨b, by show t8.nodeD m = _; rw [hnd8, hb]; rfl⟩)
      (by show t8.observers.size = c.observers.size; rw [hobs8])
      (fun o ob h => ⟨ob, by show t8.observers[o]? = _; rw [hobs8]; exact h, rfl, rfl⟩)
  have E8 : EP (noEff env) N B t8 := E.step W8 Q8
  have hv8 : ∀ n, t8.value env n = c.value env n := W8.value env
  refine Tot.bind (Q := fun _ tc => EP (noEff env) N B tc ∧ RB t8 tc) ?_ ?_
  · refine P23.forIn_tot' _ q (fun _ (_ : PUnit) tc => EP (noEff env) N B tc ∧ RB t8 tc) ?_ _ _
      ⟨E8, RB.refl t8⟩
    intro j x b tc hj ⟨Ec, Rc⟩
    obtain ⟨hxlt, hxnu⟩ := hq x (List.mem_of_getElem? hj)
    have hlt : x.1 < tc.nodes.size := by rw [Rc.wr.size, W8.size]; exact hxlt
    refine Tot.bind_getNode hlt ?_
    have hobsl : (tc.nodeD x.1).observers = (c.nodeD x.1).observers := by
      obtain ⟨h1, b1, e1⟩ := Rc.wr.node x.1
      obtain ⟨h2, b2, e2⟩ := W8.node x.1
      rw [e1, e2]
    rw [hobsl]
    refine Tot.bind (Q := fun _ td => EP (noEff env) N B td ∧ RB t8 td) ?_
      (fun _ td _ hd => Tot.pure ⟨_, rfl, hd⟩)
    refine P23.forIn_tot' _ (c.nodeD x.1).observers
      (fun _ (_ : PUnit) td => EP (noEff env) N B td ∧ RB t8 td) ?_ _ _ ⟨Ec, Rc⟩
    intro k o b2 td hk ⟨Ed, Rd⟩
    have ho : o ∈ (c.nodeD x.1).observers := List.mem_of_getElem? hk
    obtain ⟨ob, hob, -, hst⟩ := (O.mem x.1 o).1 ho
    have hnec : c.isNecessary x.1 = true :=
      (isNecessary_iff c x.1).2 (Or.inr (Or.inl (List.ne_nil_of_mem ho)))
    obtain ⟨hvalid, hsome⟩ := hval x.1 hnec
    obtain ⟨obd, hobd, -, hstd⟩ := Rd.obs o ob (by rw [hobs8]; exact hob)
    have T := runAll_total_w (env := env) (fuel := fuel) (o := o) (n := x.1) (nu := x.2) (now := t8.stabNum)
      (s := td) hH hHb Ed (by rw [Rd.status]; exact hst8) (Rd.pc.trans hpc8) hobd (by rw [hstd]; exact hst)
      (hxnu hvalid hnec) (by rw [Rd.wr.value, hv8]; exact hsome)
    refine Tot.bind T (fun _ te _ he => Tot.pure ⟨_, rfl, he.1, Rd.trans he.2⟩)
  intro _ t9 _ ⟨E9, R9⟩
  refine Tot.bind_modify ?_
  refine Tot.of_ok (run_modify _ _) ?_
  -- the final state: memo tables collected, status reset
  have W9 : Wr c t9 := W8.trans R9.wr
  refine ⟨?_, ⟨?_, ?_, ?_⟩⟩
  · refine ⟨?_, E9.hb, ⟨E9.room.ahh, E9.room.rch, E9.room.size⟩, E9.linked, E9.handles, E9.bound⟩
    exact qinvU_congr E9.q rfl rfl (fun m => ⟨_, rfl⟩) rfl (fun o ob h => ⟨ob, h, rfl, rfl⟩)
  · exact ⟨W9.size, W9.node, W9.ahh, W9.qsize, W9.vsize, W9.cell⟩
  · exact R9.top.trans htop8
  · exact R9.newObs.trans hno8

end IncrVerif.Proofs.TidyH.EffT
