import IncrVerif.Proofs.MemoH6
/-!
# C20 over whole histories, part 6: the entry of one key through API actions and histories (K2)

* `Same m key` (ILocal): the entry is untouched; memoised calls with another `(m', key')` are `Same` steps;
* `SplitOk`: a `stabilise` that RETURNS is an `R`-step followed by the sweep; one that panics is an `R`-step;
* `entry_step`: what an API action does to the entry of `(m, key)` when bind closures do not call `(m, key)`;
* `CallRet`: the API action `create (memoCall m key)` returned node `n`; hits and misses of that action;
* histories `RunI env I A` (every action satisfies `A`, every state reached satisfies `I`) and the K2 theorems.
-/
namespace IncrVerif.Proofs.MemoH
open IncrVerif.Engine IncrVerif.Proofs.Obs IncrVerif.Proofs.Memo IncrVerif.Proofs.Own

/-! ## `Same` -/

/-- the entry of `key` in table `m` is untouched -/
def Same (m : Nat) (key : Int) (s s' : State) : Prop := stored s' m key = stored s m key

instance (m : Nat) (key : Int) : PreOrd (Same m key) :=
  ⟨fun _ => rfl, fun h1 h2 => Eq.trans h2 h1⟩
instance (m : Nat) (key : Int) : ILocal (Same m key) :=
  ⟨fun s s' hf => by simp only [Same, stored, hf.memos]⟩

/-- a call with another memo function or another key -/
def NotThis (m : Nat) (key : Int) : Nat → Int → Prop := fun m' key' => ¬ (m' = m ∧ key' = key)

theorem same_memoCall (env : Env) (m : Nat) (key : Int) (m' : Nat) (key' : Int)
    (hne : NotThis m key m' key') : Pres (Same m key) (memoCall env m' key') := by
  refine ⟨fun s r s' hrun => ?_⟩
  rw [memoCall_run] at hrun
  split at hrun
  · cases hrun; exact PreOrd.refl _
  · rcases ht : tick.run.run s with ⟨_ | u, s1⟩
    · rw [ht] at hrun; cases hrun
      exact ILocal.of_frame0 _ _ ((PresF.tick (R := F0V)).h _ _ _ ht).toF0
    · rw [ht] at hrun
      dsimp only at hrun
      have hf1 : F0V s (memoStart m' key' s1) :=
        PreOrd.trans ((PresF.tick (R := F0V)).h _ _ _ ht) (F0V.memoStart m' key' s1)
      rcases he : (elabTemplateBase (env.memo m') (.int key')).run.run (memoStart m' key' s1) with ⟨_ | x, s2⟩
      · rw [he] at hrun; cases hrun
        exact ILocal.of_frame0 _ _
          (PreOrd.trans hf1 ((PresF.elabTemplateBase (R := F0V) _ _ _).h _ _ _ he)).toF0
      · rw [he] at hrun; cases hrun
        have hf2 : F0V s s2 := PreOrd.trans hf1 ((PresF.elabTemplateBase (R := F0V) _ _ _).h _ _ _ he)
        show stored (memoFinish _ _ _ _ s2) m key = stored s m key
        rw [stored_memoFinish_ne _ _ _ _ _ _ _ hne]
        simp only [stored, hf2.memos]

/-! ## products of relations -/

/-- both relations -/
def Both (R1 R2 : State → State → Prop) (s s' : State) : Prop := R1 s s' ∧ R2 s s'

instance (R1 R2 : State → State → Prop) [PreOrd R1] [PreOrd R2] : PreOrd (Both R1 R2) :=
  ⟨fun s => ⟨PreOrd.refl s, PreOrd.refl s⟩,
   fun h1 h2 => ⟨PreOrd.trans h1.1 h2.1, PreOrd.trans h1.2 h2.2⟩⟩
instance (R1 R2 : State → State → Prop) [ILocal R1] [ILocal R2] : ILocal (Both R1 R2) :=
  ⟨fun s s' h => ⟨ILocal.of_frame0 s s' h, ILocal.of_frame0 s s' h⟩⟩

theorem Pres.both {R1 R2 : State → State → Prop} {α} {x : M α} (h1 : Pres R1 x) (h2 : Pres R2 x) :
    Pres (Both R1 R2) x := ⟨fun s r s' h => ⟨h1.h s r s' h, h2.h s r s' h⟩⟩

/-! ## `stabilise`, by outcome -/

/-- a run that panics is an `R`-step; a run that returns is an `R`-step followed by the sweep -/
def SplitOk (R : State → State → Prop) {α} (x : M α) : Prop :=
  (∀ s e s', x.run.run s = (.error e, s') → R s s') ∧
  (∀ s a s', x.run.run s = (.ok a, s') → ∃ s1, R s s1 ∧ s' = sweep s1)

section
variable {R : State → State → Prop}

theorem SplitOk.bind [PreOrd R] {α β} {x : M α} {f : α → M β} (hx : Pres R x)
    (hf : ∀ a, SplitOk R (f a)) : SplitOk R (x >>= f) := by
  constructor
  · intro s e s' h
    rw [run_bind] at h
    rcases hx' : x.run.run s with ⟨r1, s1⟩
    rw [hx'] at h
    have h1 := hx.h s r1 s1 hx'
    cases r1 with
    | error e' => cases h; exact h1
    | ok a => exact PreOrd.trans h1 ((hf a).1 s1 e s' h)
  · intro s b s' h
    rw [run_bind] at h
    rcases hx' : x.run.run s with ⟨r1, s1⟩
    rw [hx'] at h
    have h1 := hx.h s r1 s1 hx'
    cases r1 with
    | error e' => cases h
    | ok a =>
      obtain ⟨s2, h2, h3⟩ := (hf a).2 s1 b s' h
      exact ⟨s2, PreOrd.trans h1 h2, h3⟩

theorem SplitOk.tail [PreOrd R] :
    SplitOk R ((modify gcStep : M Unit) >>= fun _ =>
      (modify fun s => { s with status := .notStabilising } : M Unit)) := by
  constructor
  · intro s e s' h; rw [run_bind, run_modify] at h; cases h
  · intro s a s' h
    rw [run_bind, run_modify] at h
    exact ⟨s, PreOrd.refl s, by cases h; rfl⟩

variable [ILocal R] {env : Env} {P : Nat → Int → Prop}

theorem SplitOk.stabiliseEnd (env fuel) : SplitOk R (stabiliseEnd env fuel) := by
  unfold Engine.stabiliseEnd
  repeat (first
    | exact SplitOk.tail
    | (refine SplitOk.bind ?_ fun _ => ?_; rotate_left)
    | dsimp only)
  all_goals mpres

theorem SplitOk.stabilise (hm : ∀ m key, P m key → Pres R (memoCall env m key))
    (hb : BodiesP P env) (fuel) : SplitOk R (Engine.stabilise env fuel) := by
  unfold Engine.stabilise
  repeat (first
    | exact SplitOk.stabiliseEnd _ _
    | (refine SplitOk.bind ?_ fun _ => ?_; rotate_left)
    | dsimp only)
  all_goals (first | exact PresB.drainHeap hm hb _ | mpres)

theorem SplitOk.stepAction_stabilise (hm : ∀ m key, P m key → Pres R (memoCall env m key))
    (hb : BodiesP P env) (tokens : Array Nat) : SplitOk R (stepAction env .stabilise tokens) := by
  simp only [Engine.stepAction]
  have h0 := SplitOk.stabilise (R := R) hm hb fuelDefault
  constructor
  · intro s e s' h
    rw [run_bind] at h
    rcases hx : (Engine.stabilise env fuelDefault).run.run s with ⟨r1, s1⟩
    rw [hx] at h
    cases r1 with
    | error e' => cases h; exact h0.1 _ _ _ hx
    | ok a => cases h
  · intro s b s' h
    rw [run_bind] at h
    rcases hx : (Engine.stabilise env fuelDefault).run.run s with ⟨r1, s1⟩
    rw [hx] at h
    cases r1 with
    | error e' => cases h
    | ok a => cases h; exact h0.2 _ _ _ hx
end

/-! ## what one API action does to the entry of `(m, key)` -/

/-- the step relation used below: table invariant and the entry of `(m, key)` -/
abbrev MSS (env : Env) (m : Nat) (key : Int) := Both (MS env) (Same m key)

theorem mss_memoCall {env : Env} (hok : MemoBodyOK env) (m : Nat) (key : Int) (m' : Nat) (key' : Int)
    (hne : NotThis m key m' key') : Pres (MSS env m key) (memoCall env m' key') :=
  Pres.both (ms_memoCall hok m' key') (same_memoCall env m key m' key' hne)

theorem MSS.of_quiet {env : Env} {m : Nat} {key : Int} {s s' : State} (h : Quiet0 s s') :
    MSS env m key s s' := ⟨MS.of_quiet h, by simp only [Same, stored, h.memos]⟩

/-- an API action other than `stabilise` and other than the call `create (memoCall m key)` itself leaves the
entry of `(m, key)` alone (and keeps the table invariant) -/
theorem mss_stepAction {env : Env} (hok : MemoBodyOK env) (m : Nat) (key : Int) (a : Action)
    (tokens : Array Nat) (hs : a ≠ .stabilise) (hc : a ≠ .create (.memoCall m key)) :
    Pres (MSS env m key) (stepAction env a tokens) := by
  have hm : ∀ m' key', NotThis m key m' key' → Pres (MSS env m key) (memoCall env m' key') :=
    fun m' key' h => mss_memoCall hok m key m' key' h
  by_cases hp : Action.isPlain a = true
  · exact PresI.stepAction_plain env a tokens hp
  · cases a <;> simp only [Action.isPlain, not_true_eq_false] at hp
    case create i =>
      refine PresB.stepAction_create hm ?_ tokens fun s x => ⟨MS.push s x, rfl⟩
      intro m' key' hi ⟨h1, h2⟩
      exact hc (by rw [hi, h1, h2])
    case observe o =>
      exact PresI.stepAction_observe env o tokens fun s ob l => MSS.of_quiet ⟨rfl, rfl, rfl, rfl⟩
    case cloneObs o =>
      exact PresI.stepAction_cloneObs env o tokens fun s f _ => MSS.of_quiet ⟨rfl, rfl, rfl, rfl⟩
    case dropObs o =>
      exact (Quiet0.stepAction_dropObs env o tokens).mono fun _ _ h => MSS.of_quiet h
    case dropHandle o =>
      exact (Quiet0.stepAction_dropHandle env o tokens).mono fun _ _ h => MSS.of_quiet h
    case stabilise => exact absurd rfl hs

/-- `stabilise`, bind closures not calling `(m, key)`: a run that returns leaves exactly the entries whose node
is still allocated; a run that panics leaves the entry alone -/
theorem stabilise_entry {env : Env} (hok : MemoBodyOK env) (m : Nat) (key : Int)
    (hb : BodiesP (NotThis m key) env) (tokens : Array Nat) (s s' : State) (r)
    (h : (stepAction env .stabilise tokens).run.run s = (r, s')) (ht : TInv env s) :
    TInv env s' ∧
    (match r with
     | .ok _ => stored s' m key = (stored s m key).filter fun n => s'.aliveSet.contains n
     | .error _ => stored s' m key = stored s m key) := by
  have hm : ∀ m' key', NotThis m key m' key' → Pres (MSS env m key) (memoCall env m' key') :=
    fun m' key' h => mss_memoCall hok m key m' key' h
  have h0 := SplitOk.stepAction_stabilise hm hb tokens
  cases r with
  | error e =>
    have := h0.1 s e s' h
    exact ⟨this.1.tinv ht, this.2⟩
  | ok a =>
    obtain ⟨s1, h1, rfl⟩ := h0.2 s a s' h
    have ht1 := h1.1.tinv ht
    refine ⟨(MS.sweep (env := env) s1).tinv ht1, ?_⟩
    show stored (sweep s1) m key = _
    rw [stored_sweep_eq s1 ht1, aliveSet_sweep, h1.2]

/-- K2, one action: when bind closures do not call `(m, key)`, an API action other than the call itself either
leaves the entry alone or (a `stabilise` that returns) drops it iff its node is no longer allocated -/
theorem entry_step {env : Env} (hok : MemoBodyOK env) (m : Nat) (key : Int)
    (hb : BodiesP (NotThis m key) env) (a : Action) (tokens : Array Nat)
    (hc : a ≠ .create (.memoCall m key)) (s s' : State) (r)
    (h : (stepAction env a tokens).run.run s = (r, s')) (ht : TInv env s) :
    TInv env s' ∧ (stored s' m key = stored s m key ∨
      stored s' m key = (stored s m key).filter fun n => s'.aliveSet.contains n) := by
  by_cases hs : a = .stabilise
  · subst hs
    have := stabilise_entry hok m key hb tokens s s' r h ht
    refine ⟨this.1, ?_⟩
    cases r with
    | ok _ => exact .inr this.2
    | error _ => exact .inl this.2
  · have := (mss_stepAction hok m key a tokens hs hc).h s r s' h
    exact ⟨this.1.tinv ht, .inl this.2⟩

/-! ## the call itself -/

/-- the API action `create (memoCall m key)` run in `s` returned node `n` and left state `s'` -/
def CallRet (env : Env) (m : Nat) (key : Int) (s : State) (n : Nat) (s' : State) : Prop :=
  ∃ s1, (memoCall env m key).run.run s = (.ok n, s1) ∧
    s' = { s1 with top := s1.top.push n, handles := n :: s1.handles }

theorem stepAction_memo_run (env : Env) (m : Nat) (key : Int) (tokens : Array Nat) (s : State) :
    (stepAction env (.create (.memoCall m key)) tokens).run.run s =
      match (memoCall env m key).run.run s with
      | (.ok n, s1) => (.ok (s!"ok #{n}", tokens), { s1 with top := s1.top.push n, handles := n :: s1.handles })
      | (.error e, s1) => (.error e, s1) := by
  simp only [Engine.stepAction, Engine.elabInstrM]
  rw [run_bind, map_eq_pure_bind, run_bind]
  rcases (memoCall env m key).run.run s with ⟨_ | n, s1⟩
  · rfl
  · rfl

/-- the action returns normally iff the memoised call does; the `api` text names the node -/
theorem stepAction_memo_ok (env : Env) (m : Nat) (key : Int) (tokens : Array Nat) (s s' : State) (r) :
    (stepAction env (.create (.memoCall m key)) tokens).run.run s = (.ok r, s') ↔
      ∃ n, CallRet env m key s n s' ∧ r = (s!"ok #{n}", tokens) := by
  rw [stepAction_memo_run]
  constructor
  · intro h
    rcases hm : (memoCall env m key).run.run s with ⟨_ | n, s1⟩
    · rw [hm] at h; cases h
    · rw [hm] at h; cases h; exact ⟨n, ⟨s1, hm, rfl⟩, rfl⟩
  · rintro ⟨n, ⟨s1, h1, rfl⟩, rfl⟩
    rw [h1]

theorem memoHit_some {s : State} {m : Nat} {key : Int} {n : Nat} (h : memoHit s m key = some n) :
    stored s m key = some n ∧ s.isAlive n = true := by
  unfold memoHit at h
  cases hs : stored s m key with
  | none => rw [hs] at h; cases h
  | some x =>
    rw [hs] at h
    dsimp only at h
    by_cases ha : s.isAlive x = true
    · rw [if_pos ha] at h; cases h; exact ⟨rfl, ha⟩
    · rw [if_neg ha] at h; cases h

/-- after the call returned `n`: `n` is in the table under `key`, and the program holds a handle on it -/
theorem CallRet.facts {env : Env} {m : Nat} {key : Int} {s s' : State} {n : Nat}
    (h : CallRet env m key s n s') : stored s' m key = some n ∧ n ∈ s'.handles ∧ Anchored s' n := by
  obtain ⟨s1, h1, rfl⟩ := h
  have hs : stored s1 m key = some n := by
    rcases memoCall_ok_cases env m key s s1 n h1 with ⟨hh, rfl⟩ | ⟨_, t1, t2, u, _, _, rfl⟩
    · exact (memoHit_some hh).1
    · exact stored_memoFinish _ _ _ _ _
  exact ⟨hs, List.mem_cons_self, n, .inl List.mem_cons_self, .refl n⟩

/-- A HIT at the API level: the entry's node is still allocated ⟹ the action returns that node (`ok #n`),
creates no node, logs nothing, and only records the new handle -/
theorem call_hit (env : Env) (m : Nat) (key : Int) (tokens : Array Nat) (s : State) (n : Nat)
    (hs : stored s m key = some n) (ha : n ∈ s.aliveSet) :
    (stepAction env (.create (.memoCall m key)) tokens).run.run s =
      (.ok (s!"ok #{n}", tokens), { s with top := s.top.push n, handles := n :: s.handles }) := by
  have hal : s.isAlive n = true := by unfold State.isAlive; simpa using ha
  have hh : memoHit s m key = some n := by simp only [memoHit, hs, hal, if_true]
  rw [stepAction_memo_run, memoCall_run, hh]

/-- A MISS at the API level (no entry, or the entry's node has been freed): if the action returns, the node
`n'` it returns was created by this call (`s.nodes.size ≤ n'`), the underlying function was invoked (its `note`
event is logged, the body ran from `memoStart`), and `n'` is the new entry -/
theorem call_miss {env : Env} (hok : MemoBodyOK env) (m : Nat) (key : Int) (s s' : State) (n' : Nat)
    (hmiss : memoHit s m key = none) (h : CallRet env m key s n' s') :
    s.nodes.size ≤ n' ∧ n' < s'.nodes.size ∧ s'.log = memoNote m key :: s.log ∧
      stored s' m key = some n' ∧ Produced env s' m key n' := by
  obtain ⟨s1, h1, rfl⟩ := h
  rcases memoCall_ok_cases env m key s s1 n' h1 with ⟨hh, _⟩ | ⟨_, t1, t2, u, ht, he, rfl⟩
  · rw [hmiss] at hh; cases hh
  · have hf1 : F0V s t1 := (PresF.tick (R := F0V)).h _ _ _ ht
    have hfresh := elabTemplateBase_fresh (hok m).1 (hok m).2 _ _ _ _ he
    have hk := (keep_elabTemplateBase _ _ _).h _ _ _ he
    have hlog : t1.log = s.log := by
      rw [tick_run] at ht
      split at ht
      · cases ht; rfl
      · split at ht <;> cases ht; rfl
    refine ⟨Nat.le_trans hf1.nodesLe hfresh.1, hfresh.2, ?_, ?_, ?_⟩
    · show t2.log = _
      rw [hk.1]; show memoNote m key :: t1.log = _; rw [hlog]
    · exact stored_memoFinish t1.currentScope m key n' t2
    · have hf : Fut t2 (memoFinish t1.currentScope m key n' t2) := Fut.of_eq rfl rfl
      exact ⟨memoStart m key t1, t2, rfl, he, hfresh.1, hfresh.2,
        hf.trans (MS.push (env := env) _ n').fut⟩

end IncrVerif.Proofs.MemoH
