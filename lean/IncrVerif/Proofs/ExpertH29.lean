import IncrVerif.Proofs.ExpertH28
/-!
# Expert fragment: one `recomputeOne` of a node that is not an expert node

The actual step is simulated by the virtual step (`recomputeOne_sim`).
-/
namespace IncrVerif.Proofs.ExpertH
open IncrVerif.Engine IncrVerif.Driver IncrVerif.Proofs IncrVerif.Proofs.Step IncrVerif.Proofs.Sched

/-! ## `virt` commutes with the bookkeeping at the start of a step -/

theorem map_modify_at (xs : Array ExpertRec) (a : Array Node) (n : Nat) (f f' : Node → Node)
    (hf : ∀ nd, a[n]? = some nd → virtNode xs (f nd) = f' (virtNode xs nd)) :
    (a.modify n f).map (virtNode xs) = (a.map (virtNode xs)).modify n f' := by
  apply Array.ext
  · simp
  · intro i h1 h2
    simp only [Array.getElem_map, Array.getElem_modify]
    split
    · rename_i e; subst e
      have hlt : n < a.size := by simpa using h1
      exact hf _ (Array.getElem?_eq_getElem hlt)
    · rfl

theorem virt_started (n : Nat) (s : State) (hne : ∀ e, (s.nodeD n).kind ≠ .expert e) :
    virt (started n s) = started n (virt s) := by
  simp only [virt, started]
  have key := map_modify_at s.experts s.nodes n (fun x => { x with recomputedAt := s.stabNum })
    (fun x => { x with recomputedAt := s.stabNum }) (by
      intro nd hnd
      rw [nodeD_of_some hnd] at hne
      rw [virtNode_of_not_expert _ nd hne, virtNode_of_not_expert _ _ (by exact hne)])
  rw [key]
  rfl

theorem virt_logged (es : List Event) (s : State) (h : ∀ e, e ∈ es → keepEv e = true) :
    virt (logged es s) = logged es (virt s) := by
  simp only [virt, logged, List.filter_append]
  rw [List.filter_eq_self.2 h]

theorem Fr.started {s : State} (h : Fr s) (n : Nat) : Fr (started n s) :=
  Fr.of_nodes (fr_modify h n (fun x => { x with recomputedAt := s.stabNum }) (by xkind)) rfl rfl rfl rfl

theorem Fr.logged {s : State} (h : Fr s) (es : List Event) : Fr (logged es s) := Fr.of_nodes h rfl rfl rfl rfl

/-! ## the arguments -/

theorem valuesOf_virt (env : Env) (s : State) (hfr : Fr s) (args : List Nat) :
    valuesOf (virtEnv env) (virt s) args = valuesOf env s args := by
  induction args with
  | nil => rfl
  | cons a as ih =>
    simp only [valuesOf]
    rw [virt_value s env a hfr.not_mapRef, ih]

/-! ## a successful step has read its arguments -/

theorem recomputeOne_ok_vals {env : Env} {fuel n : Nat} {s s' : State} {nd : Node} {r : Option Nat}
    {args : List Nat}
    (hn : s.nodes[n]? = some nd) (hv : nd.valid = true)
    (hk : (∃ f, nd.kind = .map f args) ∨ (∃ f init, nd.kind = .fold f init args))
    (h : (recomputeOne env fuel n).run.run s = (.ok r, s')) : ∃ vals, valuesOf env s args = some vals := by
  cases hvals : valuesOf env s args with
  | some vals => exact ⟨vals, rfl⟩
  | none =>
    exfalso
    have hvals' : valuesOf env (started n s) args = none := by
      rw [valuesOf_congr env s (started n s) args (fun a _ => started_value env n s a)]; exact hvals
    have hn' := started_getElem? n s nd hn
    unfold recomputeOne at h
    simp only [run_bind_get] at h
    rcases hk with ⟨f, hk⟩ | ⟨f, init, hk⟩
    · have hk? : ({ nd with recomputedAt := s.stabNum } : Node).kind? = some (.map f args) := by
        simp [Node.kind?, hv, hk]
      cases hd : s.cfg.debug
      all_goals
        simp only [started, hd, Bool.false_eq_true, if_false, if_true, run_bind_modify,
          run_bind_bumpCounter, run_bind_get, run_bind_modNode] at hn' hvals' h
        rw [run_bind_ok (run_getNode_some hn'), hk?] at h
        dsimp only at h
        rw [run_bind_of (run_mapM_valueUnwrap env _ _ args), hvals'] at h
        cases h
    · have hk? : ({ nd with recomputedAt := s.stabNum } : Node).kind? = some (.fold f init args) := by
        simp [Node.kind?, hv, hk]
      cases hd : s.cfg.debug
      all_goals
        simp only [started, hd, Bool.false_eq_true, if_false, if_true, run_bind_modify,
          run_bind_bumpCounter, run_bind_get, run_bind_modNode] at hn' hvals' h
        rw [run_bind_ok (run_getNode_some hn'), hk?] at h
        dsimp only at h
        rw [run_bind_of (run_mapM_valueUnwrap env _ _ args), hvals'] at h
        cases h

theorem recomputeOne_ok_var {env : Env} {fuel n : Nat} {s s' : State} {nd : Node} {r : Option Nat} {c : Nat}
    (hn : s.nodes[n]? = some nd) (hv : nd.valid = true) (hk : nd.kind = .var c)
    (h : (recomputeOne env fuel n).run.run s = (.ok r, s')) : ∃ vc, s.vars[c]? = some vc := by
  cases hc : s.vars[c]? with
  | some vc => exact ⟨vc, rfl⟩
  | none =>
    exfalso
    have hk? : ({ nd with recomputedAt := s.stabNum } : Node).kind? = some (.var c) := by
      simp [Node.kind?, hv, hk]
    have hn' := started_getElem? n s nd hn
    unfold recomputeOne at h
    simp only [run_bind_get] at h
    cases hd : s.cfg.debug
    all_goals
      simp only [started, hd, Bool.false_eq_true, if_false, if_true, run_bind_modify,
        run_bind_bumpCounter, run_bind_get, run_bind_modNode] at hn' h
      rw [run_bind_ok (run_getNode_some hn'), hk?] at h
      dsimp only at h
      simp only [getVar, bind_assoc, run_bind_get, hc] at h
      cases h

/-! ## the simulation -/

/-- both steps reduce to `maybe_change_value` from corresponding states -/
theorem recomputeOne_sim_finish {env : Env} {s s' : State} {fuel n : Nat} {r : Option Nat} {es : List Event} {v : Val}
    (hfr : Fr s) (hne : ∀ e, (s.nodeD n).kind ≠ .expert e) (hes : ∀ e, e ∈ es → keepEv e = true)
    (ha : (recomputeOne env fuel n).run.run s
      = (maybeChangeValue env fuel n v).run.run (logged es (started n s)))
    (hv : (recomputeOne (virtEnv env) fuel n).run.run (virt s)
      = (maybeChangeValue (virtEnv env) fuel n v).run.run (logged es (started n (virt s))))
    (h : (recomputeOne env fuel n).run.run s = (.ok r, s')) :
    (recomputeOne (virtEnv env) fuel n).run.run (virt s) = (.ok r, virt s') ∧ Fr s' := by
  rw [ha] at h
  rw [hv, ← virt_started n s hne, ← virt_logged es _ hes]
  exact Sim.maybeChangeValue env fuel n v _ ((hfr.started n).logged es) r s' h

/-- one `recomputeOne` of a node of the fragment that is not an expert node -/
theorem recomputeOne_sim {env : Env} {s s' : State} {fuel n : Nat} {r : Option Nat}
    (hfr : Fr s) (hn : n < s.nodes.size) (hxk : XKind env (s.nodeD n).kind)
    (hne : ∀ e, (s.nodeD n).kind ≠ .expert e)
    (h : (recomputeOne env fuel n).run.run s = (.ok r, s')) :
    (recomputeOne (virtEnv env) fuel n).run.run (virt s) = (.ok r, virt s') ∧ Fr s' := by
  have hnd := some_of_lt hn
  have hval := hfr.valid n
  have hvn : (virt s).nodes[n]? = some (s.nodeD n) := by
    rw [virt_getElem?, hnd]; simp only [Option.map_some]; rw [virtNode_of_not_expert _ _ hne]
  cases hkd : (s.nodeD n).kind with
  | const v =>
    refine recomputeOne_sim_finish (es := []) (v := v) hfr hne (by simp) ?_ ?_ h
    · exact recomputeOne_const_run env fuel n s _ v hnd hval hkd
    · exact recomputeOne_const_run (virtEnv env) fuel n (virt s) _ v hvn hval hkd
  | var c =>
    obtain ⟨vc, hvc⟩ := recomputeOne_ok_var hnd hval hkd h
    refine recomputeOne_sim_finish (es := []) (v := vc.value) hfr hne (by simp) ?_ ?_ h
    · exact recomputeOne_var_run env fuel n s _ c vc hnd hval hkd hvc
    · exact recomputeOne_var_run (virtEnv env) fuel n (virt s) _ c vc hvn hval hkd hvc
  | map f args =>
    rw [hkd] at hxk
    obtain ⟨vals, hvals⟩ := recomputeOne_ok_vals hnd hval (Or.inl ⟨f, hkd⟩) h
    have hvvals : valuesOf (virtEnv env) (virt s) args = some vals := by
      rw [valuesOf_virt env s hfr args]; exact hvals
    by_cases hf : f < fnZip
    · refine recomputeOne_sim_finish (es := [.inv s!"f{f}" n vals (env.fn f vals).render]) (v := env.fn f vals)
        hfr hne ?_ ?_ ?_ h
      · intro e he; simp only [List.mem_singleton] at he; subst he; exact isF_f f
      · exact recomputeOne_map_run env fuel n s _ f args vals hnd hval hkd hf hvals (hxk.2 hf vals) hfr.pc
      · exact recomputeOne_map_run (virtEnv env) fuel n (virt s) _ f args vals hvn hval hkd hf hvvals
          (hxk.2 hf vals) hfr.pc
    · refine recomputeOne_sim_finish (es := []) (v := env.fn f vals) hfr hne (by simp) ?_ ?_ h
      · exact recomputeOne_mapBuiltin_run env fuel n s _ f args vals hnd hval hkd hf hxk.1 hvals
      · exact recomputeOne_mapBuiltin_run (virtEnv env) fuel n (virt s) _ f args vals hvn hval hkd hf hxk.1 hvvals
  | fold f init cs =>
    rw [hkd] at hxk
    obtain ⟨vals, hvals⟩ := recomputeOne_ok_vals hnd hval (Or.inr ⟨f, init, hkd⟩) h
    have hvvals : valuesOf (virtEnv env) (virt s) cs = some vals := by
      rw [valuesOf_virt env s hfr cs]; exact hvals
    refine recomputeOne_sim_finish (es := [.inv s!"fold{f}" n vals (vals.foldl (env.foldStep f) init).render])
      (v := vals.foldl (env.foldStep f) init) hfr hne ?_ ?_ ?_ h
    · intro e he; simp only [List.mem_singleton] at he; subst he; exact isF_fold f
    · exact recomputeOne_fold_run env fuel n s _ f init cs vals hnd hval hkd hvals hfr.pc
    · have := recomputeOne_fold_run (virtEnv env) fuel n (virt s) _ f init cs vals hvn hval hkd hvvals hfr.pc
      rw [virtEnv_foldStep_real env hxk] at this
      exact this
  | expert e => exact absurd hkd (hne e)
  | _ => rw [hkd] at hxk; exact hxk.elim

end IncrVerif.Proofs.ExpertH
