import IncrVerif.Proofs.LeakH9
/-!
# C12 over histories, part 10: a list of drops runs iff each drop names something that exists

Whether a drop action returns depends only on the naming table, the shared cells and the numbers of variable
cells and observer records, which no drop changes.  Hence every permutation of a list of drops that runs, runs.
-/
namespace IncrVerif.Proofs.LeakH
open IncrVerif.Engine IncrVerif.Driver IncrVerif.Proofs IncrVerif.Proofs.Obs IncrVerif.Proofs.Life
open IncrVerif.Proofs.Own

structure Frame4 (s0 s : State) : Prop where
  frame : SameFrame s0 s
  vars : s.vars.size = s0.vars.size
  obs : s.observers.size = s0.observers.size

theorem Frame4.refl (s : State) : Frame4 s s := ⟨⟨rfl, rfl⟩, rfl, rfl⟩

/-- the drop names something that exists -/
def OkCond (s0 : State) : Action → Prop
  | .dropVar v => v < s0.vars.size
  | .dropHandle o => ∃ n, resolve s0 [] o = .ok n
  | .dropObs o => o < s0.observers.size
  | .disallow o => o < s0.observers.size
  | _ => False

theorem dropT_sizes (h : Hold3) (k : DropK) :
    (dropT h k).vars.size = h.vars.size ∧ (dropT h k).obs.size = h.obs.size := by
  cases k <;> simp [dropT, Array.size_modify]

theorem frame4_step {env : Env} {s0 s s' : State} {a : Action} {tk : Array Nat} {r : String × Array Nat}
    (F : Frame4 s0 s) (ha : DropAction a) (h : (stepAction env a tk).run.run s = (.ok r, s')) :
    Frame4 s0 s' := by
  obtain ⟨-, F1, e⟩ := drop_hold F.frame ha h
  have hz := dropT_sizes (hold3 s) (kindOf s0 a)
  rw [← e] at hz
  simp only [hold3, Array.size_map] at hz
  exact ⟨F1, hz.1.trans F.vars, hz.2.trans F.obs⟩

theorem drop_ok_of_cond {env : Env} {s0 s : State} {a : Action} {tk : Array Nat}
    (F : Frame4 s0 s) (hc : OkCond s0 a) : ∃ r s', (stepAction env a tk).run.run s = (.ok r, s') := by
  cases a <;> try exact hc.elim
  case dropVar v =>
    have hlt : v < s.vars.size := by rw [F.vars]; exact hc
    rw [dropVar_action_run env tk s v _ (Array.getElem?_eq_getElem hlt)]
    exact ⟨_, _, rfl⟩
  case dropHandle o =>
    obtain ⟨n, hn⟩ := hc
    rw [dropHandle_run, resolve_frame F.frame, hn]
    dsimp only
    split <;> exact ⟨_, _, rfl⟩
  case dropObs o =>
    have hlt : o < s.observers.size := by rw [F.obs]; exact hc
    rw [stepAction_dropObs_run, Array.getElem?_eq_getElem hlt]
    dsimp only
    split <;> exact ⟨_, _, rfl⟩
  case disallow o =>
    have hlt : o < s.observers.size := by rw [F.obs]; exact hc
    rw [stepAction_disallow_run, Array.getElem?_eq_getElem hlt]
    exact ⟨_, _, rfl⟩

theorem drop_cond_of_ok {env : Env} {s0 s s' : State} {a : Action} {tk : Array Nat} {r : String × Array Nat}
    (F : Frame4 s0 s) (ha : DropAction a) (h : (stepAction env a tk).run.run s = (.ok r, s')) :
    OkCond s0 a := by
  cases a <;> try exact ha.elim
  case dropVar v =>
    show v < s0.vars.size
    rw [← F.vars]
    by_cases hlt : v < s.vars.size
    · exact hlt
    · have hv : s.vars[v]? = none := Array.getElem?_eq_none (by omega)
      simp only [stepAction, Obs.run_bind, dropVarHandle_run_none s v hv] at h
      cases h
  case dropHandle o =>
    rw [dropHandle_run] at h
    show ∃ n, resolve s0 [] o = .ok n
    rw [← resolve_frame F.frame]
    cases hr : resolve s [] o with
    | error p => rw [hr] at h; cases h
    | ok n => exact ⟨n, rfl⟩
  case dropObs o =>
    show o < s0.observers.size
    rw [← F.obs]
    by_cases hlt : o < s.observers.size
    · exact hlt
    · rw [stepAction_dropObs_run, Array.getElem?_eq_none (by omega)] at h
      cases h
  case disallow o =>
    show o < s0.observers.size
    rw [← F.obs]
    by_cases hlt : o < s.observers.size
    · exact hlt
    · rw [stepAction_disallow_run, Array.getElem?_eq_none (by omega)] at h
      cases h

theorem drops_conds_of_run {env : Env} {s0 : State} {drops : List Action} {s s' : State} {tk tk' : Array Nat}
    (F : Frame4 s0 s) (hd : ∀ a, a ∈ drops → DropAction a)
    (h : Quiet.runActions env drops s tk = .ok (s', tk')) : ∀ a, a ∈ drops → OkCond s0 a := by
  induction drops generalizing s tk with
  | nil => intro a ha; cases ha
  | cons a as ih =>
    simp only [Quiet.runActions] at h
    rcases hx : (stepAction env a tk).run.run s with ⟨_ | r, s1⟩
    · rw [hx] at h; cases h
    · rw [hx] at h
      have ha1 := hd a (List.mem_cons_self ..)
      intro b hb
      rcases List.mem_cons.1 hb with rfl | hb
      · exact drop_cond_of_ok F ha1 hx
      · exact ih (frame4_step F ha1 hx) (fun c hc => hd c (List.mem_cons_of_mem _ hc)) h b hb

theorem drops_run_of_conds {env : Env} {s0 : State} {drops : List Action} {s : State} {tk : Array Nat}
    (F : Frame4 s0 s) (hd : ∀ a, a ∈ drops → DropAction a) (hc : ∀ a, a ∈ drops → OkCond s0 a) :
    ∃ s' tk', Quiet.runActions env drops s tk = .ok (s', tk') := by
  induction drops generalizing s tk with
  | nil => exact ⟨s, tk, rfl⟩
  | cons a as ih =>
    obtain ⟨r, s1, hx⟩ := drop_ok_of_cond (env := env) (tk := tk) F (hc a (List.mem_cons_self ..))
    obtain ⟨s', tk', h'⟩ := ih (s := s1) (tk := r.2) (frame4_step F (hd a (List.mem_cons_self ..)) hx)
      (fun c hc' => hd c (List.mem_cons_of_mem _ hc')) (fun c hc' => hc c (List.mem_cons_of_mem _ hc'))
    refine ⟨s', tk', ?_⟩
    simp only [Quiet.runActions, hx]
    exact h'

/-- **drop-order independence.** If a list of drops runs from `s` and ends with the program holding nothing, so
does every permutation of it. -/
theorem perm_runs_holdsNothing {env : Env} {drops drops' : List Action} {s s1 : State} {tk tk1 : Array Nat}
    (hd : ∀ a, a ∈ drops → DropAction a) (hp : drops'.Perm drops)
    (h1 : Quiet.runActions env drops s tk = .ok (s1, tk1)) (H : HoldsNothing s1) :
    ∃ s2 tk2, Quiet.runActions env drops' s tk = .ok (s2, tk2) ∧ HoldsNothing s2 := by
  have hd' : ∀ a, a ∈ drops' → DropAction a := fun a hm => hd a (hp.mem_iff.1 hm)
  have hc := drops_conds_of_run (Frame4.refl s) hd h1
  obtain ⟨s2, tk2, h2⟩ := drops_run_of_conds (env := env) (tk := tk) (Frame4.refl s) hd'
    (fun a hm => hc a (hp.mem_iff.1 hm))
  obtain ⟨e1, e2⟩ := perm_hold hd hp h1 h2
  exact ⟨s2, tk2, h2, holdsNothing_of_hold3 e1 e2 H⟩

end IncrVerif.Proofs.LeakH
