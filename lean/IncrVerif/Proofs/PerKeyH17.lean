import IncrVerif.Proofs.PerKeyH1
/-!
# The twin simulation calculus `TSim`, part 1: field lemmas of `twL`, the calculus, the tactics
(port of `Proofs/ExpertH23.lean` from `virt` to the structural twin `twL`)

`TSimL s l x x'` is `TSimAt s x x'` at a FIXED twin log `l` (the calculus works at a fixed log; the log of the twin
after the run is existentially quantified).  `TSim x x' ↔ ∀ s l, TSimL s l x x'`.
-/
namespace IncrVerif.Proofs.PerKeyH
open IncrVerif.Engine IncrVerif.Driver IncrVerif.Proofs IncrVerif.Proofs.Step IncrVerif.Proofs.Sched
open IncrVerif.Proofs.ExpertH IncrVerif.Proofs.EffH

/-! ## field projections -/

section fields
variable (l : List Event) (s : State)
theorem twL_cfg : (twL l s).cfg = s.cfg := rfl
theorem twL_vars : (twL l s).vars = s.vars := rfl
theorem twL_binds : (twL l s).binds = s.binds := rfl
theorem twL_observers : (twL l s).observers = s.observers := rfl
theorem twL_rch : (twL l s).rch = s.rch := rfl
theorem twL_ahh : (twL l s).ahh = s.ahh := rfl
theorem twL_maxHeightSeen : (twL l s).maxHeightSeen = s.maxHeightSeen := rfl
theorem twL_status : (twL l s).status = s.status := rfl
theorem twL_stabNum : (twL l s).stabNum = s.stabNum := rfl
theorem twL_currentScope : (twL l s).currentScope = s.currentScope := rfl
theorem twL_propagateInvalidity : (twL l s).propagateInvalidity = s.propagateInvalidity := rfl
theorem twL_handleAfterStab : (twL l s).handleAfterStab = s.handleAfterStab := rfl
theorem twL_newObservers : (twL l s).newObservers = s.newObservers := rfl
theorem twL_disallowedObservers : (twL l s).disallowedObservers = s.disallowedObservers := rfl
theorem twL_allObservers : (twL l s).allObservers = s.allObservers := rfl
theorem twL_setDuringStab : (twL l s).setDuringStab = s.setDuringStab := rfl
theorem twL_deadVars : (twL l s).deadVars = s.deadVars := rfl
theorem twL_counters : (twL l s).counters = s.counters := rfl
theorem twL_nextToken : (twL l s).nextToken = s.nextToken := rfl
theorem twL_nextDep : (twL l s).nextDep = s.nextDep := rfl
theorem twL_panicCountdown : (twL l s).panicCountdown = s.panicCountdown := rfl
theorem twL_currentlyRunning : (twL l s).currentlyRunning = s.currentlyRunning := rfl
theorem twL_alive : (twL l s).alive = s.alive := rfl
theorem twL_top : (twL l s).top = s.top := rfl
theorem twL_handles : (twL l s).handles = s.handles := rfl
theorem twL_slots : (twL l s).slots = s.slots := rfl
theorem twL_memos : (twL l s).memos = s.memos := rfl
theorem twL_perkeys : (twL l s).perkeys = s.perkeys := rfl
theorem twL_log : (twL l s).log = l := rfl
theorem twL_nodes : (twL l s).nodes = s.nodes.map twNode := rfl
theorem twL_experts : (twL l s).experts = s.experts.map twRec := rfl
theorem twL_size : (twL l s).nodes.size = s.nodes.size := by simp [twL]
theorem twL_experts_size : (twL l s).experts.size = s.experts.size := by simp [twL]
end fields

theorem twKind_idem (k : Kind) : twKind (twKind k) = twKind k := by
  cases k <;> try rfl
  rename_i f args
  simp only [twKind]
  split
  · simp [fnIdent, fnPerKey]
  · rename_i h; simp [h]

theorem twNode_idem (nd : Node) : twNode (twNode nd) = twNode nd := by
  simp only [twNode, twKind_idem]

theorem twRec_idem (er : ExpertRec) : twRec (twRec er) = twRec er := rfl

theorem twL_relog (l l' : List Event) (s : State) : twL l' (twL l s) = twL l' s := by
  have h1 : twNode ∘ twNode = twNode := funext twNode_idem
  have h2 : twRec ∘ twRec = twRec := funext twRec_idem
  simp only [twL, Array.map_map, h1, h2]

section nodes
variable (nd : Node)
theorem twNode_kind : (twNode nd).kind = twKind nd.kind := rfl
theorem twNode_valid : (twNode nd).valid = nd.valid := rfl
theorem twNode_cutoff : (twNode nd).cutoff = nd.cutoff := rfl
theorem twNode_createdIn : (twNode nd).createdIn = nd.createdIn := rfl
theorem twNode_parents : (twNode nd).parents = nd.parents := rfl
theorem twNode_observers : (twNode nd).observers = nd.observers := rfl
theorem twNode_forceNecessary : (twNode nd).forceNecessary = nd.forceNecessary := rfl
theorem twNode_height : (twNode nd).height = nd.height := rfl
theorem twNode_heightInRch : (twNode nd).heightInRch = nd.heightInRch := rfl
theorem twNode_heightInAhh : (twNode nd).heightInAhh = nd.heightInAhh := rfl
theorem twNode_changedAt : (twNode nd).changedAt = nd.changedAt := rfl
theorem twNode_recomputedAt : (twNode nd).recomputedAt = nd.recomputedAt := rfl
theorem twNode_value : (twNode nd).value = nd.value := rfl
theorem twNode_num : (twNode nd).numOnUpdateHandlers = nd.numOnUpdateHandlers := rfl
theorem twNode_inHas : (twNode nd).inHandleAfterStab = nd.inHandleAfterStab := rfl
theorem twNode_oldState : (twNode nd).oldState = nd.oldState := rfl
theorem twNode_didChange : (twNode nd).didChange = nd.didChange := rfl
theorem twNode_isNecessary : (twNode nd).isNecessary = nd.isNecessary := rfl
theorem twNode_inRch : (twNode nd).inRch = nd.inRch := rfl
theorem twNode_default : twNode default = default := rfl
theorem twNode_kind? : (twNode nd).kind? = (nd.kind?).map twKind := by
  simp only [Node.kind?, twNode_valid, twNode_kind]
  by_cases h : nd.valid = true <;> simp [h]
end nodes

section recs
variable (er : ExpertRec)
theorem twRec_f : (twRec er).f = er.f := rfl
theorem twRec_node : (twRec er).node = er.node := rfl
theorem twRec_children : (twRec er).children = er.children := rfl
theorem twRec_slots : (twRec er).slots = er.slots := rfl
theorem twRec_script : (twRec er).script = er.script := rfl
theorem twRec_sel : (twRec er).sel = er.sel := rfl
theorem twRec_pk : (twRec er).pk = none := rfl
theorem twRec_forceStale : (twRec er).forceStale = er.forceStale := rfl
theorem twRec_numInvalidChildren : (twRec er).numInvalidChildren = er.numInvalidChildren := rfl
theorem twRec_willFireAllCallbacks : (twRec er).willFireAllCallbacks = er.willFireAllCallbacks := rfl
end recs

theorem twKind_not_map {k : Kind} (h : ∀ f args, k ≠ .map f args) : twKind k = k := by
  cases k <;> first | rfl | exact absurd rfl (h _ _)

theorem twKind_small {f : Nat} {args : List Nat} (h : f < fnPerKey) : twKind (.map f args) = .map f args := by
  simp [twKind, Nat.not_le.2 h]

theorem XK_twKind (k : Kind) : XK (twKind k) ↔ XK k := by
  cases k <;> simp [twKind, XK]

/-! ## state-level readers -/

section readers
variable (l : List Event) (s : State)

theorem twL_getElem? (m : Nat) : (twL l s).nodes[m]? = (s.nodes[m]?).map twNode := by
  simp [twL, Array.getElem?_map]

theorem twL_experts_getElem? (e : Nat) : (twL l s).experts[e]? = (s.experts[e]?).map twRec := by
  simp [twL, Array.getElem?_map]

theorem twL_nodeD (m : Nat) : (twL l s).nodeD m = twNode (s.nodeD m) := by
  unfold State.nodeD
  rw [twL_getElem?]
  cases h : s.nodes[m]? with
  | none => simp [twNode_default]
  | some nd => simp

theorem twL_isNecessary (m : Nat) : (twL l s).isNecessary m = s.isNecessary m := by
  simp [State.isNecessary, twL_nodeD, twNode_isNecessary]

theorem twL_kind? (m : Nat) : ((twL l s).nodeD m).kind? = ((s.nodeD m).kind?).map twKind := by
  rw [twL_nodeD, twNode_kind?]

theorem twL_children (m : Nat) : (twL l s).children m = s.children m := by
  unfold State.children
  rw [twL_kind?]
  cases h : (s.nodeD m).kind? with
  | none => rfl
  | some k =>
    cases k <;> try rfl
    rename_i e
    simp only [Option.map_some, twKind, twL_experts_getElem?]
    cases s.experts[e]? <;> rfl

theorem twL_isStale (m : Nat) : (twL l s).isStale m = s.isStale m := by
  unfold State.isStale
  simp only [twL_children, twL_nodeD, twNode_kind?, twNode_changedAt, twL_vars, twNode_recomputedAt]
  cases h : (s.nodeD m).kind? with
  | none => rfl
  | some k =>
    cases k <;> try rfl
    rename_i e
    simp only [Option.map_some, twKind, twL_experts_getElem?]
    cases s.experts[e]? <;> rfl

theorem twL_needsToBeComputed (m : Nat) : (twL l s).needsToBeComputed m = s.needsToBeComputed m := by
  simp [State.needsToBeComputed, twL_isNecessary, twL_isStale]

theorem twL_valueWith (proj : Nat → Val → Val) (fuel n : Nat) :
    (twL l s).valueWith proj fuel n = s.valueWith proj fuel n := by
  induction fuel generalizing n with
  | zero => rfl
  | succ fuel ih =>
    simp only [State.valueWith, twL_nodeD, twNode_kind?, twNode_value]
    cases h : (s.nodeD n).kind? with
    | none => rfl
    | some k =>
      cases k <;> try rfl
      simp only [Option.map_some, twKind, ih]

theorem twL_value' (env : Env) (n : Nat) : (twL l s).value env n = s.value env n := by
  simp only [State.value, twL_size, twL_valueWith]

theorem twEnv_fn (env : Env) : (twEnv env).fn = env.fn := rfl
theorem twEnv_fnEff (env : Env) (f : Nat) (vals : List Val) : (twEnv env).fnEff f vals = [] := rfl
theorem twEnv_cutoff (env : Env) : (twEnv env).cutoff = env.cutoff := rfl
theorem twEnv_proj (env : Env) : (twEnv env).proj = env.proj := rfl
theorem twEnv_foldStep (env : Env) : (twEnv env).foldStep = env.foldStep := rfl

theorem twL_value (env : Env) (n : Nat) : (twL l s).value (twEnv env) n = s.value env n := by
  simp only [State.value, twL_size, twL_valueWith, twEnv_proj]

end readers

/-- normalise everything a model function reads of `twL l s` / `twNode nd` / `twRec er` (but `kind`, `pk`, `log`) -/
macro "tnorm" : tactic => `(tactic| simp only [twL_cfg, twL_binds, twL_observers, twL_ahh,
  twL_maxHeightSeen, twL_status, twL_currentScope, twL_propagateInvalidity, twL_handleAfterStab,
  twL_newObservers, twL_disallowedObservers, twL_allObservers, twL_setDuringStab, twL_deadVars, twL_counters,
  twL_nextToken, twL_nextDep, twL_currentlyRunning, twL_memos, twL_perkeys,
  twL_panicCountdown, twL_alive, twL_top, twL_handles, twL_slots, twL_vars, twL_rch, twL_stabNum,
  twL_isNecessary, twL_isStale, twL_needsToBeComputed, twL_children, twL_size, twL_nodeD, twL_value, twL_value',
  twNode_valid, twNode_cutoff, twNode_createdIn, twNode_parents, twNode_observers,
  twNode_forceNecessary, twNode_height, twNode_heightInRch, twNode_heightInAhh, twNode_recomputedAt,
  twNode_changedAt, twNode_value, twNode_num, twNode_inHas, twNode_oldState, twNode_didChange,
  twNode_isNecessary, twNode_inRch,
  twRec_f, twRec_node, twRec_children, twRec_slots, twRec_script, twRec_sel, twRec_forceStale,
  twRec_numInvalidChildren, twRec_willFireAllCallbacks, twEnv_cutoff, twEnv_proj, twEnv_fn, twEnv_foldStep])

/-! ## the calculus -/

/-- `TSimAt` at a fixed twin log -/
def TSimL (s : State) (l : List Event) {α} (x x' : M α) : Prop :=
  Fr s → ∀ r s', x.run.run s = (.ok r, s') → (∃ l', x'.run.run (twL l s) = (.ok r, twL l' s')) ∧ Fr s'

theorem TSim.atL {α} {x x' : M α} (h : TSim x x') (s : State) (l : List Event) : TSimL s l x x' :=
  fun hfr r s' hr => h s hfr l r s' hr

theorem TSim.ofL {α} {x x' : M α} (h : ∀ s l, TSimL s l x x') : TSim x x' :=
  fun s hfr l r s' hr => h s l hfr r s' hr

theorem TSimAt.ofL {α} {x x' : M α} {s : State} (h : ∀ l, TSimL s l x x') : TSimAt s x x' :=
  fun hfr l r s' hr => h l hfr r s' hr

theorem TSimAt.atL {α} {x x' : M α} {s : State} (h : TSimAt s x x') (l : List Event) : TSimL s l x x' :=
  fun hfr r s' hr => h hfr l r s' hr

section
variable {s : State} {l : List Event} {α β : Type}

theorem TSimL.ret (a : α) : TSimL s l (pure a : M α) (pure a) := by
  intro hn r s' h; rw [run_pure] at h; cases h; exact ⟨⟨l, rfl⟩, hn⟩

theorem TSimL.thr (e : Panic) (x' : M α) : TSimL s l (throw e : M α) x' := by
  intro _ r s' h; rw [run_throw] at h; cases h

theorem TSimL.pan (e : String) (x' : M α) : TSimL s l (Engine.panic e : M α) x' := TSimL.thr _ _

theorem TSimL.seq {x x' : M α} {f f' : α → M β} (hx : TSimL s l x x')
    (hf : ∀ a s1 l1, x.run.run s = (.ok a, s1) → TSimL s1 l1 (f a) (f' a)) :
    TSimL s l (x >>= f) (x' >>= f') := by
  intro hn r s' h
  obtain ⟨a, s1, h1, h2⟩ := bind_ok_inv h
  obtain ⟨⟨l1, e1⟩, n1⟩ := hx hn a s1 h1
  rw [run_bind_ok e1]
  exact hf a s1 l1 h1 n1 r s' h2

theorem TSimL.get_seq {k k' : State → M β} (h : TSimL s l (k s) (k' (twL l s))) :
    TSimL s l (get >>= k) (get >>= k') := by
  intro hn r s' hr
  rw [run_bind_get] at hr ⊢
  exact h hn r s' hr

/-- a read of the state on the actual side only -/
theorem TSimL.getL_seq {k : State → M β} {x' : M β} (h : TSimL s l (k s) x') :
    TSimL s l (get >>= k) x' := by
  intro hn r s' hr
  rw [run_bind_get] at hr
  exact h hn r s' hr

/-- a read of the state on the twin side only -/
theorem TSimL.getR_seq {x : M β} {k' : State → M β} (h : TSimL s l x (k' (twL l s))) :
    TSimL s l x (get >>= k') := by
  intro hn r s' hr
  rw [run_bind_get]
  exact h hn r s' hr

theorem TSimL.getNode_seq {n : Nat} {k k' : Node → M β}
    (h : ∀ nd, s.nodes[n]? = some nd → XK nd.kind → nd.valid = true →
      TSimL s l (k nd) (k' (twNode nd))) :
    TSimL s l (getNode n >>= k) (getNode n >>= k') := by
  intro hn r s' hr
  obtain ⟨nd, hnd, hr⟩ := bind_getNode_inv hr
  have hv : (twL l s).nodes[n]? = some (twNode nd) := by rw [twL_getElem?, hnd]; rfl
  rw [run_bind_ok (run_getNode_some hv)]
  exact h nd hnd (hn.some hnd).1 (hn.some hnd).2 hn r s' hr

theorem run_getExpert_some {s : State} {e : Nat} {er : ExpertRec} (h : s.experts[e]? = some er) :
    (getExpert e).run.run s = (.ok er, s) := by
  unfold Engine.getExpert
  rw [run_bind_get, h]; rfl

theorem TSimL.getExpert_seq {e : Nat} {k k' : ExpertRec → M β}
    (h : ∀ er, s.experts[e]? = some er → TSimL s l (k er) (k' (twRec er))) :
    TSimL s l (getExpert e >>= k) (getExpert e >>= k') := by
  intro hn r s' hr
  obtain ⟨er, he, hr⟩ := bind_getExpert_inv hr
  have hv : (twL l s).experts[e]? = some (twRec er) := by rw [twL_experts_getElem?, he]; rfl
  rw [run_bind_ok (run_getExpert_some hv)]
  exact h er he hn r s' hr

theorem TSimL.mod {f f' : State → State} (h : twL l (f s) = f' (twL l s)) (hn : (f s).nodes = s.nodes)
    (hp : (f s).propagateInvalidity = s.propagateInvalidity) (hc : (f s).panicCountdown = s.panicCountdown)
    (he : (f s).experts = s.experts) :
    TSimL s l (modify f : M Unit) (modify f') := by
  intro hne r s' hr; rw [run_modify] at hr ⊢; cases hr; rw [← h]
  exact ⟨⟨l, rfl⟩, hne.of_nodes hn hp hc he⟩

theorem TSimL.mod_seq {f f' : State → State} {k k' : Unit → M β} (h : twL l (f s) = f' (twL l s))
    (hn : (f s).nodes = s.nodes) (hp : (f s).propagateInvalidity = s.propagateInvalidity)
    (hc : (f s).panicCountdown = s.panicCountdown) (he : (f s).experts = s.experts)
    (hk : TSimL (f s) l (k ()) (k' ())) :
    TSimL s l ((modify f : M Unit) >>= k) ((modify f' : M Unit) >>= k') := by
  intro hne r s' hr
  rw [run_bind_modify] at hr ⊢
  rw [← h]; exact hk (hne.of_nodes hn hp hc he) r s' hr

theorem TSimL.cond {c c' : Prop} {_ : Decidable c} {_ : Decidable c'} {a b a' b' : M α} (hc : c ↔ c')
    (ha : c → TSimL s l a a') (hb : ¬ c → TSimL s l b b') :
    TSimL s l (if c then a else b) (if c' then a' else b') := by
  by_cases h : c
  · rw [if_pos h, if_pos (hc.1 h)]; exact ha h
  · rw [if_neg h, if_neg (fun h' => h (hc.2 h'))]; exact hb h

theorem TSimL.ite_left {c : Prop} {_ : Decidable c} {a b x' : M α}
    (ha : c → TSimL s l a x') (hb : ¬ c → TSimL s l b x') : TSimL s l (if c then a else b) x' := by
  by_cases h : c
  · rw [if_pos h]; exact ha h
  · rw [if_neg h]; exact hb h

theorem TSimL.ite_right {c : Prop} {_ : Decidable c} {x a' b' : M α}
    (ha : c → TSimL s l x a') (hb : ¬ c → TSimL s l x b') : TSimL s l x (if c then a' else b') := by
  by_cases h : c
  · rw [if_pos h]; exact ha h
  · rw [if_neg h]; exact hb h

/-! ### one-sided `tick` and `logEv` (the log of the twin is free; no fault is armed) -/

theorem TSimL.tickL_seq {k : Unit → M β} {x' : M β} (h : TSimL s l (k ()) x') :
    TSimL s l (Engine.tick >>= k) x' := by
  intro hn r s' hr
  rw [run_bind_tick_none _ _ hn.pc] at hr
  exact h hn r s' hr

theorem TSimL.tickR_seq {x : M β} {k' : Unit → M β} (h : TSimL s l x (k' ())) :
    TSimL s l x (Engine.tick >>= k') := by
  intro hn r s' hr
  rw [run_bind_tick_none _ _ (by exact hn.pc)]
  exact h hn r s' hr

theorem TSimL.logL_seq {e : Event} {k : Unit → M β} {x' : M β}
    (h : TSimL { s with log := e :: s.log } l (k ()) x') :
    TSimL s l (Engine.logEv e >>= k) x' := by
  intro hn r s' hr
  rw [run_bind_logEv] at hr
  exact h (hn.of_nodes rfl rfl rfl rfl) r s' hr

theorem TSimL.logR_seq {e : Event} {x : M β} {k' : Unit → M β} (h : TSimL s (e :: l) x (k' ())) :
    TSimL s l x (Engine.logEv e >>= k') := by
  intro hn r s' hr
  rw [run_bind_logEv]
  exact h hn r s' hr

theorem TSimL.logL {e : Event} : TSimL s l (Engine.logEv e) (pure ()) := by
  intro hn r s' hr
  rw [run_logEv] at hr; cases hr
  exact ⟨⟨l, rfl⟩, hn.of_nodes rfl rfl rfl rfl⟩

theorem TSimL.logR {e : Event} : TSimL s l (pure ()) (Engine.logEv e) := by
  intro hn r s' hr
  rw [run_pure] at hr; cases hr
  exact ⟨⟨e :: l, rfl⟩, hn⟩

theorem TSimL.map {x x' : M α} (f : α → β) (hx : TSimL s l x x') : TSimL s l (f <$> x) (f <$> x') := by
  rw [map_eq_pure_bind, map_eq_pure_bind]
  exact TSimL.seq hx fun _ _ _ _ => TSimL.ret _

theorem TSimL.discard {x x' : M α} (hx : TSimL s l x x') : TSimL s l (discard x) (discard x') := by
  unfold Functor.discard
  exact TSimL.map (Function.const α PUnit.unit) hx

end

theorem TSim.forIn {β γ : Type} (xs : List γ) {f f' : γ → β → M (ForInStep β)} (h : ∀ a b, TSim (f a b) (f' a b))
    (b : β) : TSim (ForIn.forIn xs b f) (ForIn.forIn xs b f') := by
  apply TSim.ofL
  induction xs generalizing b with
  | nil => intro s l; rw [List.forIn_nil, List.forIn_nil]; exact TSimL.ret _
  | cons a xs ih =>
    intro s l
    rw [List.forIn_cons, List.forIn_cons]
    refine TSimL.seq ((h a b).atL s l) fun r s1 l1 _ => ?_
    cases r with
    | done b' => exact TSimL.ret _
    | yield b' => exact ih b' s1 l1

theorem TSimL.forIn_at {β γ : Type} (xs : List γ) {f f' : γ → β → M (ForInStep β)}
    (h : ∀ a b, TSim (f a b) (f' a b)) (b : β) {s : State} {l : List Event} :
    TSimL s l (ForIn.forIn xs b f) (ForIn.forIn xs b f') := (TSim.forIn xs h b).atL s l

theorem TSim.mapM {β γ : Type} {f f' : γ → M β} (h : ∀ a, TSim (f a) (f' a)) (xs : List γ) :
    TSim (xs.mapM f) (xs.mapM f') := by
  apply TSim.ofL
  induction xs with
  | nil => intro s l; simp only [List.mapM_nil]; exact TSimL.ret _
  | cons a xs ih =>
    intro s l
    simp only [List.mapM_cons]
    exact TSimL.seq ((h a).atL s l) fun _ s1 l1 _ => TSimL.seq (ih s1 l1) fun _ _ _ _ => TSimL.ret _

/-! ## node and record updates -/

theorem tw_map_modify (a : Array Node) (n : Nat) (f f' : Node → Node)
    (hf : ∀ nd, twNode (f nd) = f' (twNode nd)) :
    (a.modify n f).map twNode = (a.map twNode).modify n f' := by
  apply Array.ext
  · simp
  · intro i h1 h2
    simp only [Array.getElem_map, Array.getElem_modify]
    split
    · exact hf _
    · rfl

theorem twL_modNode (l : List Event) (s : State) (n : Nat) (f f' : Node → Node)
    (hf : ∀ nd, twNode (f nd) = f' (twNode nd)) :
    twL l { s with nodes := s.nodes.modify n f } = { twL l s with nodes := (twL l s).nodes.modify n f' } := by
  simp only [twL]
  rw [tw_map_modify s.nodes n f f' hf]

/-- a commuting node update -/
theorem TSim.modNode (n : Nat) {f f' : Node → Node} (hf : ∀ nd, twNode (f nd) = f' (twNode nd))
    (hk : ∀ nd, (f nd).kind = nd.kind ∧ (f nd).valid = nd.valid) :
    TSim (Engine.modNode n f) (Engine.modNode n f') := by
  intro s hne l r s' hr
  rw [run_modNode] at hr ⊢
  cases hr
  exact ⟨⟨l, by rw [twL_modNode l s n f f' hf]⟩, fr_modify hne n f hk⟩

theorem tw_map_modifyRec (a : Array ExpertRec) (e : Nat) (f f' : ExpertRec → ExpertRec)
    (hf : ∀ er, twRec (f er) = f' (twRec er)) :
    (a.modify e f).map twRec = (a.map twRec).modify e f' := by
  apply Array.ext
  · simp
  · intro i h1 h2
    simp only [Array.getElem_map, Array.getElem_modify]
    split
    · exact hf _
    · rfl

theorem twL_modExpert (l : List Event) (s : State) (e : Nat) (f f' : ExpertRec → ExpertRec)
    (hf : ∀ er, twRec (f er) = f' (twRec er)) :
    twL l { s with experts := s.experts.modify e f }
      = { twL l s with experts := (twL l s).experts.modify e f' } := by
  simp only [twL]
  rw [tw_map_modifyRec s.experts e f f' hf]

theorem fr_modExpert {s : State} (hn : Fr s) (e : Nat) (f : ExpertRec → ExpertRec)
    (hni : ∀ er, er.numInvalidChildren = 0 → (f er).numInvalidChildren = 0) :
    Fr { s with experts := s.experts.modify e f } := by
  refine ⟨hn.pc, hn.valid, hn.pinv, hn.kind, fun e' er he => ?_⟩
  simp only [Array.getElem?_modify] at he
  split at he
  · cases h0 : s.experts[e']? with
    | none => rw [h0] at he; cases he
    | some er0 =>
      rw [h0] at he; simp only [Option.map_some, Option.some.injEq] at he
      subst he
      exact hni er0 (hn.ni e' er0 h0)
  · exact hn.ni e' er he

/-- a commuting record update that does not raise the invalid-children counter from `0` -/
theorem TSim.modExpert (e : Nat) {f f' : ExpertRec → ExpertRec} (hf : ∀ er, twRec (f er) = f' (twRec er))
    (hni : ∀ er, er.numInvalidChildren = 0 → (f er).numInvalidChildren = 0) :
    TSim (Engine.modExpert e f) (Engine.modExpert e f') := by
  intro s hne l r s' hr
  unfold Engine.modExpert at hr ⊢
  rw [run_modify] at hr ⊢
  cases hr
  exact ⟨⟨l, by rw [twL_modExpert l s e f f' hf]⟩, fr_modExpert hne e f hni⟩

/-- the record read on the twin is `twRec` of the record read (for continuations use `TSimL.getExpert_seq`) -/
theorem TSim.getExpert (e : Nat) : TSim (twRec <$> Engine.getExpert e) (Engine.getExpert e) := by
  intro s hne l r s' hr
  rw [map_eq_pure_bind] at hr
  obtain ⟨er, he, hr2⟩ := bind_getExpert_inv hr
  rw [run_pure] at hr2
  have e1 : twRec er = r := by cases hr2; rfl
  have e2 : s = s' := by cases hr2; rfl
  subst e1; subst e2
  have hv : (twL l s).experts[e]? = some (twRec er) := by rw [twL_experts_getElem?, he]; rfl
  exact ⟨⟨l, run_getExpert_some hv⟩, hne⟩

/-- closes `∀ nd, twNode (f nd) = f (twNode nd)` for an `f` that does not touch `kind` -/
macro "tcomm" : tactic => `(tactic| (intro nd; rfl))
/-- closes `∀ nd, (f nd).kind = nd.kind ∧ (f nd).valid = nd.valid` -/
macro "tkind" : tactic => `(tactic| (intro nd; exact ⟨rfl, rfl⟩))

/-! ## leaves -/

theorem TSim.dassert (c : Bool) (site : String) : TSim (Engine.dassert c site) (Engine.dassert c site) := by
  intro s hn l r s' h
  rw [run_dassert] at h ⊢
  by_cases hc : s.cfg.debug = true ∧ c = false
  · rw [if_pos hc] at h; cases h
  · rw [if_neg hc] at h; cases h; exact ⟨⟨l, if_neg hc⟩, hn⟩

theorem TSim.assertM (c : Bool) (site : String) : TSim (Engine.assertM c site) (Engine.assertM c site) := by
  intro s hn l r s' h
  rw [run_assertM] at h ⊢
  split at h
  · rename_i hc; cases h; rw [if_pos hc]; exact ⟨⟨l, rfl⟩, hn⟩
  · cases h

theorem TSim.tick : TSim Engine.tick Engine.tick := by
  intro s hn l r s' h
  rw [run_tick_none s hn.pc] at h
  cases h
  exact ⟨⟨l, run_tick_none (twL l s) hn.pc⟩, hn⟩

/-- any two log entries match: the log of the twin is free -/
theorem TSim.logEv (e e' : Event) : TSim (Engine.logEv e) (Engine.logEv e') := by
  intro s hn l r s' h
  rw [run_logEv] at h
  cases h
  exact ⟨⟨e' :: l, by rw [run_logEv]; rfl⟩, hn.of_nodes rfl rfl rfl rfl⟩

end IncrVerif.Proofs.PerKeyH
