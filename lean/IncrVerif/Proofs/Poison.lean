import IncrVerif.Engine.Recompute
import IncrVerif.Proofs.Heights
import Std.Do
import Std.Tactic.Do
/-!
# Helper lemmas for C13 (a panic escaping `stabilise` poisons the state)

`Fr t s` says "the status of `s` is `t.status` and its configuration is `t.cfg`".  Part 1 pushes this
frame through every function of the model except `stabilise` and `stabiliseEnd` as a Hoare triple
`FPres t x := ⦃Fr t⦄ x ⦃post⟨Fr t, Fr t⟩⦄` (normal return *and* panic), in the style of
`Proofs/HeapWF.lean` (that file is deliberately not imported here: its `@[spec]` lemmas talk about
the same programs).  Part 2 splits `stabilise` into its phases.  Part 3 is the recompute-heap drain.
-/
namespace IncrVerif.Proofs.Poison
open IncrVerif.Engine IncrVerif.Proofs Std.Do

set_option mvcgen.warning false

/-! ## the frame -/

/-- the two fields nothing but `stabilise`/`stabiliseEnd` may write (a record of its own, so that
`mvcgen` can never confuse it with a value of the program) -/
structure Tag where
  status : Status
  cfg : Cfg

def Fr (t : Tag) (s : State) : Prop := s.status = t.status ∧ s.cfg = t.cfg

def tagOf (s : State) : Tag := ⟨s.status, s.cfg⟩

theorem Fr_tagOf (s : State) : Fr (tagOf s) s := ⟨rfl, rfl⟩

abbrev FPres {α} (t : Tag) (x : M α) : Prop :=
  ⦃fun s => ⌜Fr t s⌝⦄ x ⦃post⟨fun _ s => ⌜Fr t s⌝, fun _ s => ⌜Fr t s⌝⟩⦄

/-- what a triple over `M` says about `run` (same as `Proofs.wp_M`) -/
theorem wp_M {α} (x : M α) (Q : PostCond α (.except Panic (.arg State .pure))) (s : State) :
    (wp⟦x⟧ Q s) = match x.run.run s with
      | (.ok a, s') => Q.1 a s'
      | (.error e, s') => Q.2.1 e s' := by
  simp only [wp, PredTrans.pushExcept, PredTrans.pushArg, PredTrans.apply]
  simp [StateT.run, ExceptT.run, Id.run, pure, PredTrans.pure]
  split <;> simp_all

theorem triple_iff {α} (x : M α) (P : State → Prop) (Q : α → State → Prop) (E : Panic → State → Prop) :
    (⦃fun s => ⌜P s⌝⦄ x ⦃post⟨fun r s => ⌜Q r s⌝, fun e s => ⌜E e s⌝⟩⦄) ↔
      ∀ s, P s → match x.run.run s with
        | (.ok a, s') => Q a s'
        | (.error e, s') => E e s' := by
  simp only [Triple, SPred.entails_1, SPred.down_pure, wp_M]
  constructor
  · intro h s hp
    have := h s hp
    split at this <;> simp_all
  · intro h s hp
    have := h s hp
    split <;> simp_all

/-- the frame in plain form: status and configuration after running `x`, value or panic -/
theorem FPres.run {α} {x : M α} (h : ∀ t, FPres t x) (s : State) :
    (x.run.run s).2.status = s.status ∧ (x.run.run s).2.cfg = s.cfg := by
  have := (triple_iff x _ _ _).1 (h (tagOf s)) s (Fr_tagOf s)
  split at this <;> simp_all [Fr, tagOf]

macro "fr_triv" : tactic =>
  `(tactic| first
    | assumption
    | (intros; trivial)
    | exact (‹Fr _ _ ∧ _›).1
    | (intros; rfl)
    | (intro h _; exact h))

/-- the loop invariant of every `for` loop: the frame -/
abbrev frInv (t : Tag) {α : Type} {β : Type} {xs : List α} :
    Invariant xs β (.except Panic (.arg State .pure)) :=
  post⟨fun _ s => ⌜Fr t s⌝, fun _ s => ⌜Fr t s⌝⟩

macro "fr_fin" t:term : tactic =>
  `(tactic| (try any_goals exact frInv $t
             try any_goals exact ($t : Tag)
             all_goals first
               | fr_triv
               | skip))

/-- loop rule without invariants -/
theorem forIn_pres {α β} (t : Tag) (l : List α) (init : β) (f : α → β → M (ForInStep β))
    (hf : ∀ a b, FPres t (f a b)) : FPres t (forIn l init f) := by
  induction l generalizing init with
  | nil => simp only [List.forIn_nil]; mvcgen
  | cons a l ih =>
    rw [List.forIn_cons]
    have := hf a init
    mvcgen [this, ih]

attribute [local spec] IncrVerif.Engine.panic

/-! ## Part 1: every function but `stabilise`/`stabiliseEnd` keeps status and configuration -/

section frame
variable (t : Tag)

@[spec] theorem assertM_fr (c : Bool) (site : String) : FPres t (assertM c site) := by
  mvcgen [assertM]
@[spec] theorem dassert_fr (c : Bool) (site : String) : FPres t (dassert c site) := by
  mvcgen [dassert]
@[spec] theorem logEv_fr (e : Event) : FPres t (logEv e) := by
  mvcgen [logEv]
@[spec] theorem tick_fr : FPres t tick := by
  mvcgen [tick]
@[spec] theorem getNode_fr (n : Nat) : FPres t (getNode n) := by
  mvcgen [getNode]
@[spec] theorem modNode_fr (n : Nat) (f : Node → Node) : FPres t (modNode n f) := by
  mvcgen [modNode]
@[spec] theorem getBind_fr (n : Nat) : FPres t (getBind n) := by
  mvcgen [getBind]
@[spec] theorem modBind_fr (n : Nat) (f : BindRec → BindRec) : FPres t (modBind n f) := by
  mvcgen [modBind]
@[spec] theorem getExpert_fr (n : Nat) : FPres t (getExpert n) := by
  mvcgen [getExpert]
@[spec] theorem modExpert_fr (n : Nat) (f : ExpertRec → ExpertRec) : FPres t (modExpert n f) := by
  mvcgen [modExpert]
@[spec] theorem getVar_fr (n : Nat) : FPres t (getVar n) := by
  mvcgen [getVar]
@[spec] theorem modVar_fr (n : Nat) (f : VarCell → VarCell) : FPres t (modVar n f) := by
  mvcgen [modVar]
@[spec] theorem getObs_fr (n : Nat) : FPres t (getObs n) := by
  mvcgen [getObs]
@[spec] theorem modObs_fr (n : Nat) (f : ObsRec → ObsRec) : FPres t (modObs n f) := by
  mvcgen [modObs]
@[spec] theorem bumpCounter_fr (f : Counters → Counters) : FPres t (bumpCounter f) := by
  mvcgen [bumpCounter]
@[spec] theorem scopeHeight_fr (sc : Scope) : FPres t (scopeHeight sc) := by
  mvcgen [scopeHeight]
@[spec] theorem scopeIsNecessary_fr (sc : Scope) : FPres t (scopeIsNecessary sc) := by
  mvcgen [scopeIsNecessary]
@[spec] theorem scopeIsValid_fr (sc : Scope) : FPres t (scopeIsValid sc) := by
  mvcgen [scopeIsValid]

/-! recompute heap, adjust-heights heap -/

@[spec] theorem rchLink_fr (n : Nat) : FPres t (rchLink n) := by
  mvcgen [rchLink]
@[spec] theorem rchUnlink_fr (n : Nat) : FPres t (rchUnlink n) := by
  mvcgen [rchUnlink]
@[spec] theorem rchInsert_fr (n : Nat) : FPres t (rchInsert n) := by
  mvcgen [rchInsert]
@[spec] theorem rchRemove_fr (n : Nat) : FPres t (rchRemove n) := by
  mvcgen [rchRemove]
@[spec] theorem rchMinHeight_fr : FPres t rchMinHeight := by
  mvcgen [rchMinHeight]
@[spec] theorem rchIncreaseHeight_fr (n : Nat) : FPres t (rchIncreaseHeight n) := by
  mvcgen [rchIncreaseHeight]
@[spec] theorem rchRemoveMin_fr : FPres t rchRemoveMin := by
  mvcgen [rchRemoveMin]
@[spec] theorem setHeight_fr (n : Nat) (h : Int) : FPres t (setHeight n h) := by
  mvcgen [setHeight]
@[spec] theorem ahhAddUnlessMem_fr (n : Nat) : FPres t (ahhAddUnlessMem n) := by
  mvcgen [ahhAddUnlessMem]
@[spec] theorem ahhRemoveMin_fr : FPres t ahhRemoveMin := by
  mvcgen [ahhRemoveMin]
@[spec] theorem ensureHeightRequirement_fr (oc op c p : Nat) :
    FPres t (ensureHeightRequirement oc op c p) := by
  mvcgen [ensureHeightRequirement]

@[spec] theorem adjustHeightsLoop_fr (oc op fuel : Nat) : FPres t (adjustHeightsLoop oc op fuel) := by
  induction fuel with
  | zero => mvcgen [adjustHeightsLoop]
  | succ fuel ih =>
    mvcgen [adjustHeightsLoop, ih]
    fr_fin t

@[spec] theorem adjustHeights_fr (oc op fuel : Nat) : FPres t (adjustHeights oc op fuel) := by
  mvcgen [adjustHeights]

/-! parents, handlers bookkeeping, cutoffs, expert callbacks -/

@[spec] theorem addParent_fr (c i p : Nat) : FPres t (addParent c i p) := by
  mvcgen [addParent]
@[spec] theorem removeParent_fr (c i p : Nat) : FPres t (removeParent c i p) := by
  mvcgen [removeParent]
@[spec] theorem handleAfterStabilisation_fr (n : Nat) : FPres t (handleAfterStabilisation n) := by
  mvcgen [handleAfterStabilisation]
@[spec] theorem maybeHandleAfterStabilisation_fr (n : Nat) :
    FPres t (maybeHandleAfterStabilisation n) := by
  mvcgen [maybeHandleAfterStabilisation]
@[spec] theorem shouldCutoff_fr (env : Env) (n : Nat) (o v : Val) : FPres t (shouldCutoff env n o v) := by
  mvcgen [shouldCutoff]
@[spec] theorem edgeOnChange_fr (env : Env) (e : Nat) (edge : ExpertEdge) :
    FPres t (edgeOnChange env e edge) := by
  mvcgen [edgeOnChange]
@[spec] theorem runEdgeCallback_fr (env : Env) (e i : Nat) : FPres t (runEdgeCallback env e i) := by
  mvcgen [runEdgeCallback]
@[spec] theorem observabilityChange_fr (e : Nat) (b : Bool) : FPres t (observabilityChange e b) := by
  mvcgen [observabilityChange]

/-! the cascades -/

@[spec] theorem markMapRefUnknown_fr (fuel n : Nat) : FPres t (markMapRefUnknown fuel n) := by
  induction fuel generalizing n with
  | zero => mvcgen [markMapRefUnknown]
  | succ fuel ih =>
    mvcgen [markMapRefUnknown, ih, -Spec.forIn_list, forIn_pres]
    fr_fin t

theorem necessary_fr (env : Env) (fuel : Nat) :
    (∀ n, FPres t (becameNecessary env fuel n)) ∧
      (∀ c i p, FPres t (addParentWithoutAdjustingHeights env fuel c i p)) := by
  induction fuel with
  | zero =>
    refine ⟨?_, ?_⟩ <;> intros
    · mvcgen [becameNecessary]
    · mvcgen [addParentWithoutAdjustingHeights]
  | succ fuel ih =>
    obtain ⟨ih1, ih2⟩ := ih
    refine ⟨?_, ?_⟩ <;> intros
    · mvcgen [becameNecessary, ih2]
      fr_fin t
    · mvcgen [addParentWithoutAdjustingHeights, ih1]
      fr_fin t

@[spec] theorem becameNecessary_fr (env : Env) (fuel n : Nat) : FPres t (becameNecessary env fuel n) :=
  (necessary_fr t env fuel).1 n

@[spec] theorem addParentWithoutAdjustingHeights_fr (env : Env) (fuel c i p : Nat) :
    FPres t (addParentWithoutAdjustingHeights env fuel c i p) :=
  (necessary_fr t env fuel).2 c i p

theorem unnecessary_fr (fuel : Nat) :
    (∀ n, FPres t (becameUnnecessary fuel n)) ∧ (∀ n, FPres t (checkIfUnnecessary fuel n)) ∧
      (∀ n, FPres t (removeChildren fuel n)) := by
  induction fuel with
  | zero =>
    refine ⟨?_, ?_, ?_⟩ <;> intro n
    · mvcgen [becameUnnecessary]
    · mvcgen [checkIfUnnecessary]
    · mvcgen [removeChildren]
  | succ fuel ih =>
    obtain ⟨ih1, ih2, ih3⟩ := ih
    refine ⟨?_, ?_, ?_⟩ <;> intro n
    · mvcgen [becameUnnecessary, ih3]
    · mvcgen [checkIfUnnecessary, ih1]
    · mvcgen [removeChildren, ih2] invariants
        · post⟨fun _ s => ⌜Fr t s⌝, fun _ s => ⌜Fr t s⌝⟩

@[spec] theorem becameUnnecessary_fr (fuel n : Nat) : FPres t (becameUnnecessary fuel n) :=
  (unnecessary_fr t fuel).1 n
@[spec] theorem checkIfUnnecessary_fr (fuel n : Nat) : FPres t (checkIfUnnecessary fuel n) :=
  (unnecessary_fr t fuel).2.1 n
@[spec] theorem removeChildren_fr (fuel n : Nat) : FPres t (removeChildren fuel n) :=
  (unnecessary_fr t fuel).2.2 n

@[spec] theorem invalidateNode_fr (fuel n : Nat) : FPres t (invalidateNode fuel n) := by
  induction fuel generalizing n with
  | zero => mvcgen [invalidateNode]
  | succ fuel ih =>
    mvcgen [invalidateNode, ih]
    fr_fin t

@[spec] theorem propagateInvalidity_fr (fuel : Nat) : FPres t (propagateInvalidity fuel) := by
  induction fuel with
  | zero => mvcgen [propagateInvalidity]
  | succ fuel ih =>
    mvcgen [propagateInvalidity, ih]
    fr_fin t

@[spec] theorem becameNecessaryPropagate_fr (env : Env) (fuel n : Nat) :
    FPres t (becameNecessaryPropagate env fuel n) := by
  mvcgen [becameNecessaryPropagate]

@[spec] theorem stateAddParent_fr (env : Env) (fuel c i p : Nat) :
    FPres t (stateAddParent env fuel c i p) := by
  mvcgen [stateAddParent]

@[spec] theorem changeChildBindRhs_fr (env : Env) (fuel main : Nat) (old : Option Nat) (new index : Nat) :
    FPres t (changeChildBindRhs env fuel main old new index) := by
  mvcgen [changeChildBindRhs]

/-! the expert API -/

@[spec] theorem assertRunningIsChild_fr (n : Nat) (name : String) :
    FPres t (assertRunningIsChild n name) := by
  mvcgen [assertRunningIsChild]
@[spec] theorem expertOf_fr (n : Nat) : FPres t (expertOf n) := by
  mvcgen [expertOf]
@[spec] theorem expertIdxRaw_fr (n : Nat) : FPres t (expertIdxRaw n) := by
  mvcgen [expertIdxRaw]
@[spec] theorem expertMakeStale_fr (n : Nat) : FPres t (expertMakeStale n) := by
  mvcgen [expertMakeStale]
@[spec] theorem expertAddDependency_fr (env : Env) (fuel n child : Nat) (cb : Bool) :
    FPres t (expertAddDependency env fuel n child cb) := by
  mvcgen [expertAddDependency]
@[spec] theorem swapEdgeIndices_fr (n c1 i1 c2 i2 : Nat) : FPres t (swapEdgeIndices n c1 i1 c2 i2) := by
  mvcgen [swapEdgeIndices]
@[spec] theorem expertRemoveDependency_fr (fuel n dep : Nat) :
    FPres t (expertRemoveDependency fuel n dep) := by
  mvcgen [expertRemoveDependency]
@[spec] theorem expertInvalidate_fr (fuel n : Nat) : FPres t (expertInvalidate fuel n) := by
  mvcgen [expertInvalidate]

/-! node creation, var writes, observers -/

@[spec] theorem mapM_fr {α β} (f : α → M β) (hf : ∀ a, FPres t (f a)) (l : List α) :
    FPres t (l.mapM f) := by
  induction l with
  | nil => mvcgen [List.mapM_nil]
  | cons a l ih =>
    have := hf a
    rw [List.mapM_cons]
    mvcgen [this, ih]

@[spec] theorem mapConst_fr {α β} (b : β) (x : M α) (hx : FPres t x) :
    FPres t (Functor.mapConst b x) := by
  rw [LawfulFunctor.map_const]
  simp only [Function.comp_apply]
  mvcgen [hx]

@[spec] theorem createNode_fr (k : Kind) (sc : Scope) (c : CutoffK) : FPres t (createNode k sc c) := by
  mvcgen [createNode]
@[spec] theorem createVar_fr (v : Val) (sc : Scope) : FPres t (createVar v sc) := by
  mvcgen [createVar]
@[spec] theorem createBind_fr (body lhs : Nat) : FPres t (createBind body lhs) := by
  mvcgen [createBind]
@[spec] theorem isConstant_fr (n : Nat) : FPres t (isConstant n) := by
  mvcgen [isConstant]
@[spec] theorem resolveOpnd_fr (loc : List Nat) (o : Opnd) : FPres t (resolveOpnd loc o) := by
  mvcgen [resolveOpnd]
@[spec] theorem elabInstr_fr (loc : List Nat) (v : Val) (i : Instr) : FPres t (elabInstr loc v i) := by
  mvcgen [elabInstr]
  fr_fin t
@[spec] theorem elabTemplate_fr (tp : Template) (v : Val) : FPres t (elabTemplate tp v) := by
  mvcgen [elabTemplate]
  fr_fin t
@[spec] theorem didSetVarWhileNotStabilising_fr (v : Nat) :
    FPres t (didSetVarWhileNotStabilising v) := by
  mvcgen [didSetVarWhileNotStabilising]
@[spec] theorem writeVar_fr (v : Nat) (f : Val → Val) (isSet : Bool) : FPres t (writeVar v f isSet) := by
  mvcgen [writeVar]
@[spec] theorem disallowFutureUse_fr (o : Nat) : FPres t (disallowFutureUse o) := by
  mvcgen [disallowFutureUse]
@[spec] theorem subscribe_fr (o hid : Nat) : FPres t (subscribe o hid) := by
  mvcgen [subscribe]
@[spec] theorem unsubscribe_fr (o token owner : Nat) : FPres t (unsubscribe o token owner) := by
  mvcgen [unsubscribe]
@[spec] theorem runEffectBasic_fr (env : Env) (e : Effect) : FPres t (runEffectBasic env e) := by
  mvcgen [runEffectBasic, Functor.discard]
  all_goals exact writeVar_fr _ _ _ _

/-! recompute -/

@[spec] theorem valueUnwrap_fr (env : Env) (n : Nat) (site : String) :
    FPres t (valueUnwrap env n site) := by
  mvcgen [valueUnwrap]

@[spec] theorem childChanged_fr (env : Env) (fuel p c ci : Nat) (o : Option Val) :
    FPres t (childChanged env fuel p c ci o) := by
  induction fuel generalizing p c ci o with
  | zero => mvcgen [childChanged]
  | succ fuel ih =>
    mvcgen [childChanged, ih]
    fr_fin t

@[spec] theorem parentIterCanRecomputeNow_fr (p child : Nat) :
    FPres t (parentIterCanRecomputeNow p child) := by
  mvcgen [parentIterCanRecomputeNow]

@[spec] theorem maybeChangeValueManual_fr (env : Env) (fuel n : Nat) (o : Option Val) (b1 b2 : Bool) :
    FPres t (maybeChangeValueManual env fuel n o b1 b2) := by
  mvcgen [maybeChangeValueManual]
  fr_fin t

@[spec] theorem maybeChangeValue_fr (env : Env) (fuel n : Nat) (v : Val) :
    FPres t (maybeChangeValue env fuel n v) := by
  mvcgen [maybeChangeValue]

@[spec] theorem runEffects_fr (env : Env) (fuel : Nat) (effs : List Effect) (arg : Int) :
    FPres t (runEffects env fuel effs arg) := by
  mvcgen [runEffects, -Spec.forIn_list, forIn_pres]

@[spec] theorem recomputeOne_fr (env : Env) (fuel n : Nat) : FPres t (recomputeOne env fuel n) := by
  mvcgen [recomputeOne]
  fr_fin t

@[spec] theorem recompute_fr (env : Env) (fuel n : Nat) : FPres t (recompute env fuel n) := by
  induction fuel generalizing n with
  | zero => mvcgen [recompute]
  | succ fuel ih => mvcgen [recompute, ih]

/-! the pieces of `stabilise` -/

@[spec] theorem addNewObservers_fr (env : Env) (fuel : Nat) : FPres t (addNewObservers env fuel) := by
  mvcgen [addNewObservers]
  fr_fin t

@[spec] theorem unlinkDisallowedObservers_fr (fuel : Nat) : FPres t (unlinkDisallowedObservers fuel) := by
  mvcgen [unlinkDisallowedObservers]
  fr_fin t

@[spec] theorem runAll_fr (env : Env) (fuel o n : Nat) (nu : NodeUpdate) (now : Int) :
    FPres t (runAll env fuel o n nu now) := by
  mvcgen [runAll, -Spec.forIn_list, forIn_pres]

@[spec] theorem drainHeap_fr (env : Env) (fuel : Nat) : FPres t (drainHeap env fuel) := by
  induction fuel with
  | zero => mvcgen [drainHeap]
  | succ fuel ih => mvcgen [drainHeap, ih]

@[spec] theorem setMaxHeightAllowed_fr (newMax : Nat) : FPres t (setMaxHeightAllowed newMax) := by
  mvcgen [setMaxHeightAllowed]

end frame

/-! ## Part 2: the phases of `stabilise` -/

/-- the propagation phase: everything between the status write and `stabilise_end` -/
def propagate (env : Env) (fuel : Nat) : M Unit := do
  addNewObservers env fuel
  unlinkDisallowedObservers fuel
  drainHeap env fuel

/-- `stabilise_end` up to (excluding) the line `status := RunningOnUpdateHandlers`, verbatim; the result
is the queue of (node, node update) pairs the handlers will be run for -/
def stabiliseEndPrepare (env : Env) : M (List (Nat × NodeUpdate)) := do
  modify fun s => { s with stabNum := s.stabNum + 1, currentlyRunning := none }
  let stack := (← get).setDuringStab
  modify fun s => { s with setDuringStab := [] }
  for v in stack do
    match (← getVar v).pending with
    | none => pure ()
    | some x =>
      modVar v fun c => { c with pending := none, value := x }
      didSetVarWhileNotStabilising v
  let dead := (← get).deadVars
  modify fun s => { s with deadVars := [] }
  for v in dead do modVar v fun c => { c with linked := false }
  let hs := (← get).handleAfterStab
  modify fun s => { s with handleAfterStab := [] }
  let mut queue : List (Nat × NodeUpdate) := []
  for n in hs do
    modNode n fun x => { x with inHandleAfterStab := false }
    queue := queue ++ [(n, (← get).nodeUpdate env n)]
  pure queue

/-- the handler loop of `stabilise_end` (between the two status writes), verbatim -/
def runHandlers (env : Env) (fuel : Nat) (queue : List (Nat × NodeUpdate)) : M Unit := do
  let now := (← get).stabNum
  for (n, nu) in queue do
    for o in (← getNode n).observers do
      runAll env fuel o n nu now

theorem stabiliseEnd_phases (env : Env) (fuel : Nat) :
    stabiliseEnd env fuel = (do
      let queue ← stabiliseEndPrepare env
      modify fun s => { s with status := .runningOnUpdateHandlers }
      runHandlers env fuel queue
      modify fun s => { s with status := .notStabilising }) := by
  simp only [stabiliseEnd, stabiliseEndPrepare, runHandlers, bind_assoc, pure_bind]
  rfl

theorem stabilise_phases (env : Env) (fuel : Nat) :
    stabilise env fuel = (do
      assertM ((← get).status == .notStabilising) "state:stabilise:status"
      modify fun s => { s with status := .stabilising }
      propagate env fuel
      stabiliseEnd env fuel) := by
  simp only [stabilise, propagate, bind_assoc]

theorem propagate_fr (t : Tag) (env : Env) (fuel : Nat) : FPres t (propagate env fuel) := by
  mvcgen [propagate]

theorem stabiliseEndPrepare_fr (t : Tag) (env : Env) : FPres t (stabiliseEndPrepare env) := by
  mvcgen [stabiliseEndPrepare]
  fr_fin t

theorem runHandlers_fr (t : Tag) (env : Env) (fuel : Nat) (q : List (Nat × NodeUpdate)) :
    FPres t (runHandlers env fuel q) := by
  mvcgen [runHandlers, -Spec.forIn_list, forIn_pres]

/-- `stabilise` from a state that is not stabilising, phase by phase: the status is written exactly
three times, and a panic in a phase is the outcome of the whole call, with the state of that moment -/
theorem stabilise_run (env : Env) (fuel : Nat) (s : State) (h : s.status = .notStabilising) :
    (stabilise env fuel).run.run s =
      match (propagate env fuel).run.run { s with status := .stabilising } with
      | (.error p, s1) => (.error p, s1)
      | (.ok _, s1) =>
        match (stabiliseEndPrepare env).run.run s1 with
        | (.error p, s2) => (.error p, s2)
        | (.ok q, s2) =>
          match (runHandlers env fuel q).run.run { s2 with status := .runningOnUpdateHandlers } with
          | (.error p, s3) => (.error p, s3)
          | (.ok _, s3) => (.ok (), { s3 with status := .notStabilising }) := by
  rw [stabilise_phases, stabiliseEnd_phases]
  simp only [run_bind, run_get, run_assertM, run_modify, h, beq_self_eq_true, if_true]
  rcases (propagate env fuel).run.run { s with status := .stabilising } with ⟨r1, s1⟩
  cases r1 with
  | error p => rfl
  | ok u =>
    simp only []
    rcases (stabiliseEndPrepare env).run.run s1 with ⟨r2, s2⟩
    cases r2 with
    | error p => rfl
    | ok q =>
      simp only []
      rcases (runHandlers env fuel q).run.run { s2 with status := .runningOnUpdateHandlers } with ⟨r3, s3⟩
      cases r3 <;> rfl

/-- a poisoned state: `stabilise` panics at its first line and changes nothing -/
theorem stabilise_refuses (env : Env) (fuel : Nat) (s : State) (h : s.status ≠ .notStabilising) :
    (stabilise env fuel).run.run s = (.error (.site "state:stabilise:status"), s) := by
  have hb : (s.status == Status.notStabilising) = false := by
    cases hs : s.status <;> simp_all
  simp only [stabilise, run_bind, run_get, run_assertM, hb]
  rfl

/-! ## Part 3: a drain that returns has emptied the heap (debug builds) -/

theorem firstNonEmpty_ne_nil (q : Array (List Nat)) :
    ∀ fuel lb, q.size < lb + fuel → q[firstNonEmpty q fuel lb]? ≠ some [] := by
  intro fuel
  induction fuel with
  | zero =>
    intro lb h
    simp only [firstNonEmpty]
    rw [Array.getElem?_eq_none (by omega)]
    simp
  | succ fuel ih =>
    intro lb h
    simp only [firstNonEmpty]
    split
    · exact ih (lb + 1) (by omega)
    · rename_i hne
      intro e
      exact hne e

theorem rchRemoveMin_none (t : Tag) (hd : t.cfg.debug = true) :
    ⦃fun s => ⌜Fr t s⌝⦄ rchRemoveMin
    ⦃post⟨fun r s => ⌜Fr t s ∧ (r = none → s.rch.length = 0)⌝, fun _ s => ⌜Fr t s⌝⟩⦄ := by
  mvcgen [-rchRemoveMin_fr, -dassert_fr, -modNode_fr, rchRemoveMin, dassert, modNode]
  case vc1 => exact ⟨‹_›, by simpa using ‹(_ == 0) = true›⟩
  case vc4 =>
    rename_i s hfr _ _ _ _ hdb _
    have : s.cfg.debug = true := by rw [hfr.2]; exact hd
    simp [this] at hdb
  case vc5 =>
    rename_i s _ _ _ _ hq
    exact absurd hq (firstNonEmpty_ne_nil _ _ _ (by omega))
  case vc6 =>
    refine ⟨?_, fun h => by cases h⟩
    simp +zetaDelta only [Fr] at *
    assumption

/-- debug builds: `drainHeap` returns normally only with an empty recompute heap -/
theorem drainHeap_empty (t : Tag) (hd : t.cfg.debug = true) (env : Env) (fuel : Nat) :
    ⦃fun s => ⌜Fr t s⌝⦄ drainHeap env fuel
    ⦃post⟨fun _ s => ⌜Fr t s ∧ s.rch.length = 0⌝, fun _ s => ⌜Fr t s⌝⟩⦄ := by
  have hrm := rchRemoveMin_none t hd
  induction fuel with
  | zero => mvcgen [-drainHeap_fr, drainHeap]
  | succ fuel ih =>
    mvcgen [-drainHeap_fr, -rchRemoveMin_fr, drainHeap, hrm, ih]
    all_goals first
      | exact (‹Fr _ _ ∧ _›).1
      | exact ⟨(‹Fr _ _ ∧ _›).1, (‹Fr _ _ ∧ _›).2 rfl⟩
      | skip

end IncrVerif.Proofs.Poison
