import IncrVerif.Proofs.HeapWF
import IncrVerif.Proofs.Heights
import Std.Do
import Std.Tactic.Do
/-!
# Helper lemmas for C13 (a panic escaping `stabilise` poisons the state)

`Fr t s` says "the status of `s` is `t.status`, its configuration is `t.cfg`, its liveness flag is
`t.alive`".  Part 1 pushes this
frame through every function of the model except `stabilise` and `stabiliseEnd` as a Hoare triple
`FPres t x := ⦃Fr t⦄ x ⦃post⟨Fr t, Fr t⟩⦄` (normal return *and* panic), in the style of
`Proofs/HeapWF.lean`.  That file is imported (two modules that run `mvcgen` over the same model
functions cannot be imported side by side: the auxiliary matcher lemmas would be declared twice), so
its `@[spec]` lemmas about the same programs are in scope: `fr_mvcgen` is `mvcgen` with all of them
erased, and the lemmas here are registered with high priority.  Part 2 splits `stabilise` into its phases.  Part 3 is the recompute-heap drain.
-/
namespace IncrVerif.Proofs.Poison
open IncrVerif.Engine IncrVerif.Proofs Std.Do

set_option mvcgen.warning false

/-! ## the frame -/

/-- the fields nothing but `stabilise`/`stabiliseEnd` may write (a record of its own, so that
`mvcgen` can never confuse it with a value of the program) -/
structure Tag where
  status : Status
  cfg : Cfg
  alive : Bool

def Fr (t : Tag) (s : State) : Prop := s.status = t.status ∧ s.cfg = t.cfg ∧ s.alive = t.alive

def tagOf (s : State) : Tag := ⟨s.status, s.cfg, s.alive⟩

theorem Fr_tagOf (s : State) : Fr (tagOf s) s := ⟨rfl, rfl, rfl⟩

abbrev FPres {α} (t : Tag) (x : M α) : Prop :=
  ⦃fun s => ⌜Fr t s⌝⦄ x ⦃post⟨fun _ s => ⌜Fr t s⌝, fun _ s => ⌜Fr t s⌝⟩⦄

open Lean.Parser.Tactic in
/-- `mvcgen` blind to the `HeapWF` specifications of `Proofs/HeapWF.lean` -/
macro "fr_mvcgen" " [" args:(simpStar <|> simpErase <|> simpLemma),* "]" : tactic =>
  let args : Lean.Syntax.TSepArray [``simpStar, ``simpErase, ``simpLemma] "," := ⟨args.elemsAndSeps⟩
  `(tactic| mvcgen [$args,*,
      -IncrVerif.Proofs.rchInsert_spec, -IncrVerif.Proofs.rchRemove_spec, -IncrVerif.Proofs.rchMinHeight_spec,
      -IncrVerif.Proofs.rchIncreaseHeight_spec, -IncrVerif.Proofs.rchRemoveMin_spec, -IncrVerif.Proofs.modNode_spec,
      -IncrVerif.Proofs.logEv_spec, -IncrVerif.Proofs.tick_spec, -IncrVerif.Proofs.modBind_spec,
      -IncrVerif.Proofs.modExpert_spec, -IncrVerif.Proofs.modObs_spec, -IncrVerif.Proofs.modVar_spec,
      -IncrVerif.Proofs.bumpCounter_spec, -IncrVerif.Proofs.setHeight_spec, -IncrVerif.Proofs.addParent_spec,
      -IncrVerif.Proofs.removeParent_spec, -IncrVerif.Proofs.handleAfterStabilisation_spec, -IncrVerif.Proofs.maybeHandleAfterStabilisation_spec,
      -IncrVerif.Proofs.assertM_spec, -IncrVerif.Proofs.dassert_spec, -IncrVerif.Proofs.getNode_spec,
      -IncrVerif.Proofs.getBind_spec, -IncrVerif.Proofs.getExpert_spec, -IncrVerif.Proofs.getVar_spec,
      -IncrVerif.Proofs.getObs_spec, -IncrVerif.Proofs.scopeHeight_spec, -IncrVerif.Proofs.scopeIsNecessary_spec,
      -IncrVerif.Proofs.scopeIsValid_spec, -IncrVerif.Proofs.isConstant_spec, -IncrVerif.Proofs.resolveOpnd_spec,
      -IncrVerif.Proofs.expertOf_spec, -IncrVerif.Proofs.expertIdxRaw_spec, -IncrVerif.Proofs.valueUnwrap_spec,
      -IncrVerif.Proofs.assertRunningIsChild_spec, -IncrVerif.Proofs.createNode_spec, -IncrVerif.Proofs.createVar_spec,
      -IncrVerif.Proofs.createBind_spec, -IncrVerif.Proofs.ahhAddUnlessMem_spec, -IncrVerif.Proofs.ahhRemoveMin_spec,
      -IncrVerif.Proofs.ensureHeightRequirement_spec, -IncrVerif.Proofs.shouldCutoff_spec, -IncrVerif.Proofs.edgeOnChange_spec,
      -IncrVerif.Proofs.runEdgeCallback_spec, -IncrVerif.Proofs.observabilityChange_spec, -IncrVerif.Proofs.becameUnnecessary_spec,
      -IncrVerif.Proofs.checkIfUnnecessary_spec, -IncrVerif.Proofs.removeChildren_spec, -IncrVerif.Proofs.invalidateNode_spec,
      -IncrVerif.Proofs.propagateInvalidity_spec, -IncrVerif.Proofs.adjustHeightsLoop_spec, -IncrVerif.Proofs.adjustHeights_spec,
      -IncrVerif.Proofs.markMapRefUnknown_spec, -IncrVerif.Proofs.becameNecessary_spec, -IncrVerif.Proofs.addParentWithoutAdjustingHeights_spec,
      -IncrVerif.Proofs.becameNecessaryPropagate_spec, -IncrVerif.Proofs.stateAddParent_spec, -IncrVerif.Proofs.changeChildBindRhs_spec,
      -IncrVerif.Proofs.mapM_spec, -IncrVerif.Proofs.mapConst_spec, -IncrVerif.Proofs.expertMakeStale_spec,
      -IncrVerif.Proofs.expertAddDependency_spec, -IncrVerif.Proofs.swapEdgeIndices_spec, -IncrVerif.Proofs.expertRemoveDependency_spec,
      -IncrVerif.Proofs.expertInvalidate_spec, -IncrVerif.Proofs.elabInstr_spec, -IncrVerif.Proofs.elabTemplate_spec,
      -IncrVerif.Proofs.didSetVarWhileNotStabilising_spec, -IncrVerif.Proofs.writeVar_spec, -IncrVerif.Proofs.disallowFutureUse_spec,
      -IncrVerif.Proofs.subscribe_spec, -IncrVerif.Proofs.unsubscribe_spec, -IncrVerif.Proofs.runEffectBasic_spec,
      -IncrVerif.Proofs.childChanged_spec, -IncrVerif.Proofs.parentIterCanRecomputeNow_spec, -IncrVerif.Proofs.maybeChangeValueManual_spec,
      -IncrVerif.Proofs.maybeChangeValue_spec, -IncrVerif.Proofs.runEffects_spec, -IncrVerif.Proofs.recomputeOne_spec,
      -IncrVerif.Proofs.recompute_spec, -IncrVerif.Proofs.addNewObservers_spec, -IncrVerif.Proofs.unlinkDisallowedObservers_spec,
      -IncrVerif.Proofs.runAll_spec, -IncrVerif.Proofs.stabiliseEnd_spec, -IncrVerif.Proofs.drainHeap_spec,
      -IncrVerif.Proofs.stabilise_spec, -IncrVerif.Proofs.setMaxHeightAllowed_spec])

/-- the frame in plain form: status, configuration and liveness after running `x`, value or panic -/
theorem FPres.run {α} {x : M α} (h : ∀ t, FPres t x) (s : State) :
    (x.run.run s).2.status = s.status ∧ (x.run.run s).2.cfg = s.cfg ∧
      (x.run.run s).2.alive = s.alive := by
  have := (triple_iff x _ _ _).1 (h (tagOf s)) s (Fr_tagOf s)
  split at this <;> simp_all [Fr, tagOf]

macro "fr_triv" : tactic =>
  `(tactic| first
    | assumption
    | (intros; trivial)
    | exact (‹Fr _ _ ∧ _›).1
    | (intros; rfl)
    | (intro h _; exact h))

/-- the loop invariant of every `for` loop: the frame -/
abbrev frInv (t : Tag) {α : Type} {β : Type} {xs : List α} :
    Invariant xs β (.except Panic (.arg State .pure)) :=
  post⟨fun _ s => ⌜Fr t s⌝, fun _ s => ⌜Fr t s⌝⟩

macro "fr_fin" t:term : tactic =>
  `(tactic| (try any_goals exact frInv $t
             try any_goals exact ($t : Tag)
             all_goals first
               | fr_triv
               | skip))

/-- loop rule without invariants -/
theorem forIn_fr {α β} (t : Tag) (l : List α) (init : β) (f : α → β → M (ForInStep β))
    (hf : ∀ a b, FPres t (f a b)) : FPres t (forIn l init f) := by
  induction l generalizing init with
  | nil => simp only [List.forIn_nil]; mvcgen
  | cons a l ih =>
    rw [List.forIn_cons]
    have := hf a init
    fr_mvcgen [this, ih]

/-! ## Part 1: every function but `stabilise`/`stabiliseEnd` keeps status and configuration -/

section frame
variable (t : Tag)

@[spec high] theorem assertM_fr (c : Bool) (site : String) : FPres t (assertM c site) := by
  fr_mvcgen [assertM]
@[spec high] theorem dassert_fr (c : Bool) (site : String) : FPres t (dassert c site) := by
  fr_mvcgen [dassert]
@[spec high] theorem logEv_fr (e : Event) : FPres t (logEv e) := by
  fr_mvcgen [logEv]
@[spec high] theorem tick_fr : FPres t tick := by
  fr_mvcgen [tick]
@[spec high] theorem getNode_fr (n : Nat) : FPres t (getNode n) := by
  fr_mvcgen [getNode]
@[spec high] theorem modNode_fr (n : Nat) (f : Node → Node) : FPres t (modNode n f) := by
  fr_mvcgen [modNode]
@[spec high] theorem getBind_fr (n : Nat) : FPres t (getBind n) := by
  fr_mvcgen [getBind]
@[spec high] theorem modBind_fr (n : Nat) (f : BindRec → BindRec) : FPres t (modBind n f) := by
  fr_mvcgen [modBind]
@[spec high] theorem getExpert_fr (n : Nat) : FPres t (getExpert n) := by
  fr_mvcgen [getExpert]
@[spec high] theorem modExpert_fr (n : Nat) (f : ExpertRec → ExpertRec) : FPres t (modExpert n f) := by
  fr_mvcgen [modExpert]
@[spec high] theorem getVar_fr (n : Nat) : FPres t (getVar n) := by
  fr_mvcgen [getVar]
@[spec high] theorem modVar_fr (n : Nat) (f : VarCell → VarCell) : FPres t (modVar n f) := by
  fr_mvcgen [modVar]
@[spec high] theorem getObs_fr (n : Nat) : FPres t (getObs n) := by
  fr_mvcgen [getObs]
@[spec high] theorem modObs_fr (n : Nat) (f : ObsRec → ObsRec) : FPres t (modObs n f) := by
  fr_mvcgen [modObs]
@[spec high] theorem bumpCounter_fr (f : Counters → Counters) : FPres t (bumpCounter f) := by
  fr_mvcgen [bumpCounter]
@[spec high] theorem scopeHeight_fr (sc : Scope) : FPres t (scopeHeight sc) := by
  fr_mvcgen [scopeHeight]
@[spec high] theorem scopeIsNecessary_fr (sc : Scope) : FPres t (scopeIsNecessary sc) := by
  fr_mvcgen [scopeIsNecessary]
@[spec high] theorem scopeIsValid_fr (sc : Scope) : FPres t (scopeIsValid sc) := by
  fr_mvcgen [scopeIsValid]

/-! recompute heap, adjust-heights heap -/

@[spec high] theorem rchLink_fr (n : Nat) : FPres t (rchLink n) := by
  fr_mvcgen [rchLink]
@[spec high] theorem rchUnlink_fr (n : Nat) : FPres t (rchUnlink n) := by
  fr_mvcgen [rchUnlink]
@[spec high] theorem rchInsert_fr (n : Nat) : FPres t (rchInsert n) := by
  fr_mvcgen [rchInsert]
@[spec high] theorem rchRemove_fr (n : Nat) : FPres t (rchRemove n) := by
  fr_mvcgen [rchRemove]
@[spec high] theorem rchMinHeight_fr : FPres t rchMinHeight := by
  fr_mvcgen [rchMinHeight]
@[spec high] theorem rchIncreaseHeight_fr (n : Nat) : FPres t (rchIncreaseHeight n) := by
  fr_mvcgen [rchIncreaseHeight]
@[spec high] theorem rchRemoveMin_fr : FPres t rchRemoveMin := by
  fr_mvcgen [rchRemoveMin]
@[spec high] theorem setHeight_fr (n : Nat) (h : Int) : FPres t (setHeight n h) := by
  fr_mvcgen [setHeight]
@[spec high] theorem ahhAddUnlessMem_fr (n : Nat) : FPres t (ahhAddUnlessMem n) := by
  fr_mvcgen [ahhAddUnlessMem]
@[spec high] theorem ahhRemoveMin_fr : FPres t ahhRemoveMin := by
  fr_mvcgen [ahhRemoveMin]
@[spec high] theorem ensureHeightRequirement_fr (oc op c p : Nat) :
    FPres t (ensureHeightRequirement oc op c p) := by
  fr_mvcgen [ensureHeightRequirement]

@[spec high] theorem adjustHeightsLoop_fr (oc op fuel : Nat) : FPres t (adjustHeightsLoop oc op fuel) := by
  induction fuel with
  | zero => fr_mvcgen [adjustHeightsLoop]
  | succ fuel ih =>
    fr_mvcgen [adjustHeightsLoop, ih]
    fr_fin t

@[spec high] theorem adjustHeights_fr (oc op fuel : Nat) : FPres t (adjustHeights oc op fuel) := by
  fr_mvcgen [adjustHeights]

/-! parents, handlers bookkeeping, cutoffs, expert callbacks -/

@[spec high] theorem addParent_fr (c i p : Nat) : FPres t (addParent c i p) := by
  fr_mvcgen [addParent]
@[spec high] theorem removeParent_fr (c i p : Nat) : FPres t (removeParent c i p) := by
  fr_mvcgen [removeParent]
@[spec high] theorem handleAfterStabilisation_fr (n : Nat) : FPres t (handleAfterStabilisation n) := by
  fr_mvcgen [handleAfterStabilisation]
@[spec high] theorem maybeHandleAfterStabilisation_fr (n : Nat) :
    FPres t (maybeHandleAfterStabilisation n) := by
  fr_mvcgen [maybeHandleAfterStabilisation]
@[spec high] theorem shouldCutoff_fr (env : Env) (n : Nat) (o v : Val) : FPres t (shouldCutoff env n o v) := by
  fr_mvcgen [shouldCutoff]
@[spec high] theorem edgeOnChange_fr (env : Env) (e : Nat) (edge : ExpertEdge) :
    FPres t (edgeOnChange env e edge) := by
  fr_mvcgen [edgeOnChange]
@[spec high] theorem runEdgeCallback_fr (env : Env) (e i : Nat) : FPres t (runEdgeCallback env e i) := by
  fr_mvcgen [runEdgeCallback]
@[spec high] theorem observabilityChange_fr (e : Nat) (b : Bool) : FPres t (observabilityChange e b) := by
  fr_mvcgen [observabilityChange]

/-! the cascades -/

@[spec high] theorem markMapRefUnknown_fr (fuel n : Nat) : FPres t (markMapRefUnknown fuel n) := by
  induction fuel generalizing n with
  | zero => fr_mvcgen [markMapRefUnknown]
  | succ fuel ih =>
    fr_mvcgen [markMapRefUnknown, ih, -Spec.forIn_list, forIn_fr]
    fr_fin t

theorem necessary_fr (env : Env) (fuel : Nat) :
    (∀ n, FPres t (becameNecessary env fuel n)) ∧
      (∀ c i p, FPres t (addParentWithoutAdjustingHeights env fuel c i p)) := by
  induction fuel with
  | zero =>
    refine ⟨?_, ?_⟩ <;> intros
    · fr_mvcgen [becameNecessary]
    · fr_mvcgen [addParentWithoutAdjustingHeights]
  | succ fuel ih =>
    obtain ⟨ih1, ih2⟩ := ih
    refine ⟨?_, ?_⟩ <;> intros
    · fr_mvcgen [becameNecessary, ih2]
      fr_fin t
    · fr_mvcgen [addParentWithoutAdjustingHeights, ih1]
      fr_fin t

@[spec high] theorem becameNecessary_fr (env : Env) (fuel n : Nat) : FPres t (becameNecessary env fuel n) :=
  (necessary_fr t env fuel).1 n

@[spec high] theorem addParentWithoutAdjustingHeights_fr (env : Env) (fuel c i p : Nat) :
    FPres t (addParentWithoutAdjustingHeights env fuel c i p) :=
  (necessary_fr t env fuel).2 c i p

theorem unnecessary_fr (fuel : Nat) :
    (∀ n, FPres t (becameUnnecessary fuel n)) ∧ (∀ n, FPres t (checkIfUnnecessary fuel n)) ∧
      (∀ n, FPres t (removeChildren fuel n)) := by
  induction fuel with
  | zero =>
    refine ⟨?_, ?_, ?_⟩ <;> intro n
    · fr_mvcgen [becameUnnecessary]
    · fr_mvcgen [checkIfUnnecessary]
    · fr_mvcgen [removeChildren]
  | succ fuel ih =>
    obtain ⟨ih1, ih2, ih3⟩ := ih
    refine ⟨?_, ?_, ?_⟩ <;> intro n
    · fr_mvcgen [becameUnnecessary, ih3]
    · fr_mvcgen [checkIfUnnecessary, ih1]
    · fr_mvcgen [removeChildren, ih2]
      fr_fin t

@[spec high] theorem becameUnnecessary_fr (fuel n : Nat) : FPres t (becameUnnecessary fuel n) :=
  (unnecessary_fr t fuel).1 n
@[spec high] theorem checkIfUnnecessary_fr (fuel n : Nat) : FPres t (checkIfUnnecessary fuel n) :=
  (unnecessary_fr t fuel).2.1 n
@[spec high] theorem removeChildren_fr (fuel n : Nat) : FPres t (removeChildren fuel n) :=
  (unnecessary_fr t fuel).2.2 n

@[spec high] theorem invalidateNode_fr (fuel n : Nat) : FPres t (invalidateNode fuel n) := by
  induction fuel generalizing n with
  | zero => fr_mvcgen [invalidateNode]
  | succ fuel ih =>
    fr_mvcgen [invalidateNode, ih]
    fr_fin t

@[spec high] theorem propagateInvalidity_fr (fuel : Nat) : FPres t (propagateInvalidity fuel) := by
  induction fuel with
  | zero => fr_mvcgen [propagateInvalidity]
  | succ fuel ih =>
    fr_mvcgen [propagateInvalidity, ih]
    fr_fin t

@[spec high] theorem becameNecessaryPropagate_fr (env : Env) (fuel n : Nat) :
    FPres t (becameNecessaryPropagate env fuel n) := by
  fr_mvcgen [becameNecessaryPropagate]

@[spec high] theorem stateAddParent_fr (env : Env) (fuel c i p : Nat) :
    FPres t (stateAddParent env fuel c i p) := by
  fr_mvcgen [stateAddParent]

@[spec high] theorem changeChildBindRhs_fr (env : Env) (fuel main : Nat) (old : Option Nat) (new index : Nat) :
    FPres t (changeChildBindRhs env fuel main old new index) := by
  fr_mvcgen [changeChildBindRhs]

/-! the expert API -/

@[spec high] theorem assertRunningIsChild_fr (n : Nat) (name : String) :
    FPres t (assertRunningIsChild n name) := by
  fr_mvcgen [assertRunningIsChild]
@[spec high] theorem expertOf_fr (n : Nat) : FPres t (expertOf n) := by
  fr_mvcgen [expertOf]
@[spec high] theorem expertIdxRaw_fr (n : Nat) : FPres t (expertIdxRaw n) := by
  fr_mvcgen [expertIdxRaw]
@[spec high] theorem expertMakeStale_fr (n : Nat) : FPres t (expertMakeStale n) := by
  fr_mvcgen [expertMakeStale]
@[spec high] theorem expertAddDependency_fr (env : Env) (fuel n child : Nat) (cb : Bool) :
    FPres t (expertAddDependency env fuel n child cb) := by
  fr_mvcgen [expertAddDependency]
@[spec high] theorem swapEdgeIndices_fr (n c1 i1 c2 i2 : Nat) : FPres t (swapEdgeIndices n c1 i1 c2 i2) := by
  fr_mvcgen [swapEdgeIndices]
@[spec high] theorem expertRemoveDependency_fr (fuel n dep : Nat) :
    FPres t (expertRemoveDependency fuel n dep) := by
  fr_mvcgen [expertRemoveDependency]
@[spec high] theorem expertInvalidate_fr (fuel n : Nat) : FPres t (expertInvalidate fuel n) := by
  fr_mvcgen [expertInvalidate]

/-! node creation, var writes, observers -/

@[spec high] theorem mapM_fr {α β} (f : α → M β) (hf : ∀ a, FPres t (f a)) (l : List α) :
    FPres t (l.mapM f) := by
  induction l with
  | nil => fr_mvcgen [List.mapM_nil]
  | cons a l ih =>
    have := hf a
    rw [List.mapM_cons]
    fr_mvcgen [this, ih]

@[spec high] theorem mapConst_fr {α β} (b : β) (x : M α) (hx : FPres t x) :
    FPres t (Functor.mapConst b x) := by
  rw [LawfulFunctor.map_const]
  simp only [Function.comp_apply]
  fr_mvcgen [hx]

@[spec high] theorem createNode_fr (k : Kind) (sc : Scope) (c : CutoffK) : FPres t (createNode k sc c) := by
  fr_mvcgen [createNode]
@[spec high] theorem createVar_fr (v : Val) (sc : Scope) : FPres t (createVar v sc) := by
  fr_mvcgen [createVar]
@[spec high] theorem createBind_fr (body lhs : Nat) : FPres t (createBind body lhs) := by
  fr_mvcgen [createBind]
@[spec high] theorem isConstant_fr (n : Nat) : FPres t (isConstant n) := by
  fr_mvcgen [isConstant]
@[spec high] theorem resolveOpnd_fr (loc : List Nat) (o : Opnd) : FPres t (resolveOpnd loc o) := by
  fr_mvcgen [resolveOpnd]
@[spec high] theorem elabInstr_fr (loc : List Nat) (v : Val) (i : Instr) : FPres t (elabInstr loc v i) := by
  fr_mvcgen [elabInstr]
  fr_fin t
@[spec high] theorem elabTemplate_fr (tp : Template) (v : Val) : FPres t (elabTemplate tp v) := by
  fr_mvcgen [elabTemplate]
  fr_fin t
@[spec high] theorem didSetVarWhileNotStabilising_fr (v : Nat) :
    FPres t (didSetVarWhileNotStabilising v) := by
  fr_mvcgen [didSetVarWhileNotStabilising]
@[spec high] theorem writeVar_fr (v : Nat) (f : Val → Val) (isSet : Bool) : FPres t (writeVar v f isSet) := by
  fr_mvcgen [writeVar]
@[spec high] theorem disallowFutureUse_fr (o : Nat) : FPres t (disallowFutureUse o) := by
  fr_mvcgen [disallowFutureUse]
@[spec high] theorem subscribe_fr (o hid : Nat) : FPres t (subscribe o hid) := by
  fr_mvcgen [subscribe]
@[spec high] theorem unsubscribe_fr (o token owner : Nat) : FPres t (unsubscribe o token owner) := by
  fr_mvcgen [unsubscribe]
@[spec high] theorem runEffectBasic_fr (env : Env) (e : Effect) : FPres t (runEffectBasic env e) := by
  fr_mvcgen [runEffectBasic, Functor.discard]
  all_goals exact writeVar_fr _ _ _ _

/-! recompute -/

@[spec high] theorem valueUnwrap_fr (env : Env) (n : Nat) (site : String) :
    FPres t (valueUnwrap env n site) := by
  fr_mvcgen [valueUnwrap]

@[spec high] theorem childChanged_fr (env : Env) (fuel p c ci : Nat) (o : Option Val) :
    FPres t (childChanged env fuel p c ci o) := by
  induction fuel generalizing p c ci o with
  | zero => fr_mvcgen [childChanged]
  | succ fuel ih =>
    fr_mvcgen [childChanged, ih]
    fr_fin t

@[spec high] theorem parentIterCanRecomputeNow_fr (p child : Nat) :
    FPres t (parentIterCanRecomputeNow p child) := by
  fr_mvcgen [parentIterCanRecomputeNow]

@[spec high] theorem maybeChangeValueManual_fr (env : Env) (fuel n : Nat) (o : Option Val) (b1 b2 : Bool) :
    FPres t (maybeChangeValueManual env fuel n o b1 b2) := by
  fr_mvcgen [maybeChangeValueManual]
  fr_fin t

@[spec high] theorem maybeChangeValue_fr (env : Env) (fuel n : Nat) (v : Val) :
    FPres t (maybeChangeValue env fuel n v) := by
  fr_mvcgen [maybeChangeValue]

@[spec high] theorem runEffects_fr (env : Env) (fuel : Nat) (effs : List Effect) (arg : Int) :
    FPres t (runEffects env fuel effs arg) := by
  fr_mvcgen [runEffects, -Spec.forIn_list, forIn_fr]

@[spec high] theorem recomputeOne_fr (env : Env) (fuel n : Nat) : FPres t (recomputeOne env fuel n) := by
  fr_mvcgen [recomputeOne]
  fr_fin t

@[spec high] theorem recompute_fr (env : Env) (fuel n : Nat) : FPres t (recompute env fuel n) := by
  induction fuel generalizing n with
  | zero => fr_mvcgen [recompute]
  | succ fuel ih => fr_mvcgen [recompute, ih]

/-! the pieces of `stabilise` -/

@[spec high] theorem addNewObservers_fr (env : Env) (fuel : Nat) : FPres t (addNewObservers env fuel) := by
  fr_mvcgen [addNewObservers]
  fr_fin t

@[spec high] theorem unlinkDisallowedObservers_fr (fuel : Nat) : FPres t (unlinkDisallowedObservers fuel) := by
  fr_mvcgen [unlinkDisallowedObservers]
  fr_fin t

@[spec high] theorem runAll_fr (env : Env) (fuel o n : Nat) (nu : NodeUpdate) (now : Int) :
    FPres t (runAll env fuel o n nu now) := by
  fr_mvcgen [runAll, -Spec.forIn_list, forIn_fr]

@[spec high] theorem drainHeap_fr (env : Env) (fuel : Nat) : FPres t (drainHeap env fuel) := by
  induction fuel with
  | zero => fr_mvcgen [drainHeap]
  | succ fuel ih => fr_mvcgen [drainHeap, ih]

@[spec high] theorem setMaxHeightAllowed_fr (newMax : Nat) : FPres t (setMaxHeightAllowed newMax) := by
  fr_mvcgen [setMaxHeightAllowed]

end frame

/-! ## Part 2: the phases of `stabilise` -/

/-- the propagation phase: everything between the status write and `stabilise_end` -/
def propagate (env : Env) (fuel : Nat) : M Unit := do
  addNewObservers env fuel
  unlinkDisallowedObservers fuel
  drainHeap env fuel

/-- `stabilise_end` up to (excluding) the line `status := RunningOnUpdateHandlers`, verbatim; the result
is the queue of (node, node update) pairs the handlers will be run for -/
def stabiliseEndPrepare (env : Env) : M (List (Nat × NodeUpdate)) := do
  modify fun s => { s with stabNum := s.stabNum + 1, currentlyRunning := none }
  let stack := (← get).setDuringStab
  modify fun s => { s with setDuringStab := [] }
  for v in stack do
    match (← getVar v).pending with
    | none => pure ()
    | some x =>
      modVar v fun c => { c with pending := none, value := x }
      didSetVarWhileNotStabilising v
  let dead := (← get).deadVars
  modify fun s => { s with deadVars := [] }
  for v in dead do modVar v fun c => { c with linked := false }
  let hs := (← get).handleAfterStab
  modify fun s => { s with handleAfterStab := [] }
  let mut queue : List (Nat × NodeUpdate) := []
  for n in hs do
    modNode n fun x => { x with inHandleAfterStab := false }
    queue := queue ++ [(n, (← get).nodeUpdate env n)]
  pure queue

/-- the handler loop of `stabilise_end` (between the two status writes), verbatim -/
def runHandlers (env : Env) (fuel : Nat) (queue : List (Nat × NodeUpdate)) : M Unit := do
  let now := (← get).stabNum
  for (n, nu) in queue do
    for o in (← getNode n).observers do
      runAll env fuel o n nu now

theorem stabiliseEnd_phases (env : Env) (fuel : Nat) :
    stabiliseEnd env fuel = (do
      let queue ← stabiliseEndPrepare env
      modify fun s => { s with status := .runningOnUpdateHandlers }
      runHandlers env fuel queue
      modify fun s => { s with status := .notStabilising }) := by
  simp only [stabiliseEnd, stabiliseEndPrepare, runHandlers, bind_assoc, pure_bind]
  rfl

theorem stabilise_phases (env : Env) (fuel : Nat) :
    stabilise env fuel = (do
      assertM ((← get).status == .notStabilising) "state:stabilise:status"
      modify fun s => { s with status := .stabilising }
      propagate env fuel
      stabiliseEnd env fuel) := by
  simp only [stabilise, propagate, bind_assoc]

theorem propagate_fr (t : Tag) (env : Env) (fuel : Nat) : FPres t (propagate env fuel) := by
  fr_mvcgen [propagate]

theorem stabiliseEndPrepare_fr (t : Tag) (env : Env) : FPres t (stabiliseEndPrepare env) := by
  fr_mvcgen [stabiliseEndPrepare]
  fr_fin t

theorem runHandlers_fr (t : Tag) (env : Env) (fuel : Nat) (q : List (Nat × NodeUpdate)) :
    FPres t (runHandlers env fuel q) := by
  fr_mvcgen [runHandlers, -Spec.forIn_list, forIn_fr]

/-- `stabilise` from a state that is not stabilising, phase by phase: the status is written exactly
three times, and a panic in a phase is the outcome of the whole call, with the state of that moment -/
theorem stabilise_run (env : Env) (fuel : Nat) (s : State) (h : s.status = .notStabilising) :
    (stabilise env fuel).run.run s =
      match (propagate env fuel).run.run { s with status := .stabilising } with
      | (.error p, s1) => (.error p, s1)
      | (.ok _, s1) =>
        match (stabiliseEndPrepare env).run.run s1 with
        | (.error p, s2) => (.error p, s2)
        | (.ok q, s2) =>
          match (runHandlers env fuel q).run.run { s2 with status := .runningOnUpdateHandlers } with
          | (.error p, s3) => (.error p, s3)
          | (.ok _, s3) => (.ok (), { s3 with status := .notStabilising }) := by
  rw [stabilise_phases, stabiliseEnd_phases]
  simp only [run_bind, run_get, run_assertM, run_modify, h, beq_self_eq_true, if_true]
  rcases (propagate env fuel).run.run { s with status := .stabilising } with ⟨r1, s1⟩
  cases r1 with
  | error p => rfl
  | ok u =>
    simp only []
    rcases (stabiliseEndPrepare env).run.run s1 with ⟨r2, s2⟩
    cases r2 with
    | error p => rfl
    | ok q =>
      simp only []
      rcases (runHandlers env fuel q).run.run { s2 with status := .runningOnUpdateHandlers } with ⟨r3, s3⟩
      cases r3 <;> rfl

/-- a poisoned state: `stabilise` panics at its first line and changes nothing -/
theorem stabilise_refuses (env : Env) (fuel : Nat) (s : State) (h : s.status ≠ .notStabilising) :
    (stabilise env fuel).run.run s = (.error (.site "state:stabilise:status"), s) := by
  have hb : (s.status == Status.notStabilising) = false := by
    cases hs : s.status <;> simp_all
  simp only [stabilise, run_bind, run_get, run_assertM, hb]
  rfl

/-! ## Part 3: a drain that returns has emptied the heap (debug builds) -/

theorem firstNonEmpty_ne_nil (q : Array (List Nat)) :
    ∀ fuel lb, q.size < lb + fuel → q[firstNonEmpty q fuel lb]? ≠ some [] := by
  intro fuel
  induction fuel with
  | zero =>
    intro lb h
    simp only [firstNonEmpty]
    rw [Array.getElem?_eq_none (by omega)]
    simp
  | succ fuel ih =>
    intro lb h
    simp only [firstNonEmpty]
    split
    · exact ih (lb + 1) (by omega)
    · rename_i hne
      intro e
      exact hne e

theorem rchRemoveMin_none (t : Tag) (hd : t.cfg.debug = true) :
    ⦃fun s => ⌜Fr t s⌝⦄ rchRemoveMin
    ⦃post⟨fun r s => ⌜Fr t s ∧ (r = none → s.rch.length = 0)⌝, fun _ s => ⌜Fr t s⌝⟩⦄ := by
  fr_mvcgen [-rchRemoveMin_fr, -dassert_fr, -modNode_fr, rchRemoveMin, dassert, modNode]
  case vc1 => exact ⟨‹_›, by simpa using ‹(_ == 0) = true›⟩
  case vc4 =>
    rename_i s hfr _ _ _ _ hdb _
    have : s.cfg.debug = true := by rw [hfr.2.1]; exact hd
    simp [this] at hdb
  case vc5 =>
    rename_i s _ _ _ _ hq
    exact absurd hq (firstNonEmpty_ne_nil _ _ _ (by omega))
  case vc6 =>
    refine ⟨?_, fun h => by cases h⟩
    simp +zetaDelta only [Fr] at *
    assumption

/-- debug builds: `drainHeap` returns normally only with an empty recompute heap -/
theorem drainHeap_empty (t : Tag) (hd : t.cfg.debug = true) (env : Env) (fuel : Nat) :
    ⦃fun s => ⌜Fr t s⌝⦄ drainHeap env fuel
    ⦃post⟨fun _ s => ⌜Fr t s ∧ s.rch.length = 0⌝, fun _ s => ⌜Fr t s⌝⟩⦄ := by
  have hrm := rchRemoveMin_none t hd
  induction fuel with
  | zero => fr_mvcgen [-drainHeap_fr, drainHeap]
  | succ fuel ih =>
    fr_mvcgen [-drainHeap_fr, -rchRemoveMin_fr, drainHeap, hrm, ih]
    all_goals first
      | assumption
      | exact (‹Fr _ _ ∧ _›).1
      | exact ⟨(‹Fr _ _ ∧ _›).1, (‹Fr _ _ ∧ _›).2 rfl⟩
      | skip

/-- debug builds: the propagation phase returns normally only with an empty recompute heap -/
theorem propagate_empty (t : Tag) (hd : t.cfg.debug = true) (env : Env) (fuel : Nat) :
    ⦃fun s => ⌜Fr t s⌝⦄ propagate env fuel
    ⦃post⟨fun _ s => ⌜Fr t s ∧ s.rch.length = 0⌝, fun _ s => ⌜Fr t s⌝⟩⦄ := by
  have hdr := drainHeap_empty t hd env fuel
  fr_mvcgen [propagate, -drainHeap_fr, hdr]

/-- plain form of `drainHeap_empty` -/
theorem drainHeap_empty_run (env : Env) (fuel : Nat) (s s' : State) (hd : s.cfg.debug = true)
    (hr : (drainHeap env fuel).run.run s = (.ok (), s')) : s'.rch.length = 0 := by
  have := (triple_iff _ _ _ _).1 (drainHeap_empty (tagOf s) hd env fuel) s (Fr_tagOf s)
  rw [hr] at this
  exact this.2

theorem propagate_empty_run (env : Env) (fuel : Nat) (s s' : State) (hd : s.cfg.debug = true)
    (hr : (propagate env fuel).run.run s = (.ok (), s')) : s'.rch.length = 0 := by
  have := (triple_iff _ _ _ _).1 (propagate_empty (tagOf s) hd env fuel) s (Fr_tagOf s)
  rw [hr] at this
  exact this.2

/-! ## Part 4: sequences of calls of the public API other than `stabilise` -/

/-- one call of the public API other than `stabilise` (result discarded) -/
inductive ApiCall where
  | writeVar (v : Nat) (f : Val → Val) (isSet : Bool)
  | subscribe (o hid : Nat)
  | unsubscribe (o token owner : Nat)
  | disallowFutureUse (o : Nat)
  | elabInstr (lhsVal : Val) (i : Instr)
  | setMaxHeightAllowed (newMax : Nat)

def ApiCall.run : ApiCall → M Unit
  | .writeVar v f isSet => do let _ ← Engine.writeVar v f isSet
  | .subscribe o hid => do let _ ← Engine.subscribe o hid
  | .unsubscribe o token owner => do let _ ← Engine.unsubscribe o token owner
  | .disallowFutureUse o => Engine.disallowFutureUse o
  | .elabInstr lhsVal i => do let _ ← Engine.elabInstr [] lhsVal i
  | .setMaxHeightAllowed newMax => Engine.setMaxHeightAllowed newMax

/-- the state after the call, whether it returned or panicked (a caught panic leaves the state as it
was at the panic point) -/
def ApiCall.step (c : ApiCall) (s : State) : State := (c.run.run.run s).2

/-- the state after a sequence of calls, each possibly ending in a (caught) panic -/
def runCalls (cs : List ApiCall) (s : State) : State := cs.foldl (fun s c => c.step s) s

theorem ApiCall.run_fr (t : Tag) (c : ApiCall) : FPres t c.run := by
  cases c <;> fr_mvcgen [ApiCall.run]

theorem ApiCall.step_frame (c : ApiCall) (s : State) :
    (c.step s).status = s.status ∧ (c.step s).cfg = s.cfg ∧ (c.step s).alive = s.alive :=
  FPres.run (fun t => ApiCall.run_fr t c) s

theorem runCalls_frame (cs : List ApiCall) (s : State) :
    (runCalls cs s).status = s.status ∧ (runCalls cs s).cfg = s.cfg ∧
      (runCalls cs s).alive = s.alive := by
  induction cs generalizing s with
  | nil => exact ⟨rfl, rfl, rfl⟩
  | cons c cs ih =>
    have h1 := ih (c.step s)
    have h2 := c.step_frame s
    simp only [runCalls, List.foldl_cons] at h1 ⊢
    exact ⟨h1.1.trans h2.1, h1.2.1.trans h2.2.1, h1.2.2.trans h2.2.2⟩

end IncrVerif.Proofs.Poison
