import IncrVerif.Proofs.HeapWF
import IncrVerif.Proofs.Heights
import Std.Do
import Std.Tactic.Do
/-!
# Helper lemmas for C13 (a panic escaping `stabilise` poisons the state)

`Fr t s` says "the status of `s` is `t.status`, its configuration is `t.cfg`, its liveness flag is
`t.alive`".

* Part 1 pushes this frame through every function of the model except `stabilise` and `stabiliseEnd`
  as a Hoare triple `FPres t x := ⦃Fr t⦄ x ⦃post⟨Fr t, Fr t⟩⦄` (normal return *and* panic), in the
  style of `Proofs/HeapWF.lean`.
* Part 2 splits `stabilise` into its phases (`propagate`, `stabiliseEndPrepare`, `runHandlers`).
* Part 3: a heap drain that returns has emptied the heap (debug builds).
* Part 4: sequences of API calls (`ApiCall`, `runCalls`); parked var values (`VS`).
* Part 5: where a panic of `stabilise` comes from (`PanicOrigin`); example states.

`Proofs/HeapWF.lean` is imported on purpose: two modules that run `mvcgen` over the same model
functions cannot be imported side by side (the auxiliary matcher lemmas `….match_1.congr_eq_1…` would be
declared twice).  Its `@[spec]` lemmas about the same programs are therefore in scope; `fr_mvcgen` is
`mvcgen` with all of them erased, and the lemmas here are registered with high priority.
-/
namespace IncrVerif.Proofs.Poison
open IncrVerif.Engine IncrVerif.Proofs Std.Do

set_option mvcgen.warning false

/-! ## the frame -/

/-- the fields nothing but `stabilise`/`stabiliseEnd` may write (a record of its own, so that
`mvcgen` can never confuse it with a value of the program) -/
structure Tag where
  status : Status
  cfg : Cfg
  alive : Bool

def Fr (t : Tag) (s : State) : Prop := s.status = t.status ∧ s.cfg = t.cfg ∧ s.alive = t.alive

def tagOf (s : State) : Tag := ⟨s.status, s.cfg, s.alive⟩

theorem Fr_tagOf (s : State) : Fr (tagOf s) s := ⟨rfl, rfl, rfl⟩

abbrev FPres {α} (t : Tag) (x : M α) : Prop :=
  ⦃fun s => ⌜Fr t s⌝⦄ x ⦃post⟨fun _ s => ⌜Fr t s⌝, fun _ s => ⌜Fr t s⌝⟩⦄

open Lean.Parser.Tactic in
/-- `mvcgen` blind to the `HeapWF` specifications of `Proofs/HeapWF.lean` -/
macro "fr_mvcgen" " [" args:(simpStar <|> simpErase <|> simpLemma),* "]" : tactic =>
  let args : Lean.Syntax.TSepArray [``simpStar, ``simpErase, ``simpLemma] "," := ⟨args.elemsAndSeps⟩
  `(tactic| mvcgen [$args,*,
      -IncrVerif.Proofs.rchInsert_spec, -IncrVerif.Proofs.rchRemove_spec, -IncrVerif.Proofs.rchMinHeight_spec,
      -IncrVerif.Proofs.rchIncreaseHeight_spec, -IncrVerif.Proofs.rchRemoveMin_spec, -IncrVerif.Proofs.modNode_spec,
      -IncrVerif.Proofs.logEv_spec, -IncrVerif.Proofs.tick_spec, -IncrVerif.Proofs.modBind_spec,
      -IncrVerif.Proofs.modExpert_spec, -IncrVerif.Proofs.modObs_spec, -IncrVerif.Proofs.modVar_spec,
      -IncrVerif.Proofs.bumpCounter_spec, -IncrVerif.Proofs.setHeight_spec, -IncrVerif.Proofs.addParent_spec,
      -IncrVerif.Proofs.removeParent_spec, -IncrVerif.Proofs.handleAfterStabilisation_spec, -IncrVerif.Proofs.maybeHandleAfterStabilisation_spec,
      -IncrVerif.Proofs.assertM_spec, -IncrVerif.Proofs.dassert_spec, -IncrVerif.Proofs.getNode_spec,
      -IncrVerif.Proofs.getBind_spec, -IncrVerif.Proofs.getExpert_spec, -IncrVerif.Proofs.getVar_spec,
      -IncrVerif.Proofs.getObs_spec, -IncrVerif.Proofs.scopeHeight_spec, -IncrVerif.Proofs.scopeIsNecessary_spec,
      -IncrVerif.Proofs.scopeIsValid_spec, -IncrVerif.Proofs.isConstant_spec, -IncrVerif.Proofs.resolveOpnd_spec,
      -IncrVerif.Proofs.expertOf_spec, -IncrVerif.Proofs.expertIdxRaw_spec, -IncrVerif.Proofs.valueUnwrap_spec,
      -IncrVerif.Proofs.assertRunningIsChild_spec, -IncrVerif.Proofs.createNode_spec, -IncrVerif.Proofs.createVar_spec,
      -IncrVerif.Proofs.createBind_spec, -IncrVerif.Proofs.ahhAddUnlessMem_spec, -IncrVerif.Proofs.ahhRemoveMin_spec,
      -IncrVerif.Proofs.ensureHeightRequirement_spec, -IncrVerif.Proofs.shouldCutoff_spec, -IncrVerif.Proofs.edgeOnChange_spec,
      -IncrVerif.Proofs.runEdgeCallback_spec, -IncrVerif.Proofs.observabilityChange_spec, -IncrVerif.Proofs.becameUnnecessary_spec,
      -IncrVerif.Proofs.checkIfUnnecessary_spec, -IncrVerif.Proofs.removeChildren_spec, -IncrVerif.Proofs.invalidateNode_spec,
      -IncrVerif.Proofs.propagateInvalidity_spec, -IncrVerif.Proofs.adjustHeightsLoop_spec, -IncrVerif.Proofs.adjustHeights_spec,
      -IncrVerif.Proofs.markMapRefUnknown_spec, -IncrVerif.Proofs.becameNecessary_spec, -IncrVerif.Proofs.addParentWithoutAdjustingHeights_spec,
      -IncrVerif.Proofs.becameNecessaryPropagate_spec, -IncrVerif.Proofs.stateAddParent_spec, -IncrVerif.Proofs.changeChildBindRhs_spec,
      -IncrVerif.Proofs.mapM_spec, -IncrVerif.Proofs.mapConst_spec, -IncrVerif.Proofs.expertMakeStale_spec,
      -IncrVerif.Proofs.expertAddDependency_spec, -IncrVerif.Proofs.swapEdgeIndices_spec, -IncrVerif.Proofs.expertRemoveDependency_spec,
      -IncrVerif.Proofs.expertInvalidate_spec, -IncrVerif.Proofs.elabInstr_spec, -IncrVerif.Proofs.elabTemplate_spec,
      -IncrVerif.Proofs.didSetVarWhileNotStabilising_spec, -IncrVerif.Proofs.writeVar_spec, -IncrVerif.Proofs.disallowFutureUse_spec,
      -IncrVerif.Proofs.subscribe_spec, -IncrVerif.Proofs.unsubscribe_spec, -IncrVerif.Proofs.runEffectBasic_spec,
      -IncrVerif.Proofs.dropVarHandle_spec,
      -IncrVerif.Proofs.childChanged_spec, -IncrVerif.Proofs.parentIterCanRecomputeNow_spec, -IncrVerif.Proofs.maybeChangeValueManual_spec,
      -IncrVerif.Proofs.maybeChangeValue_spec, -IncrVerif.Proofs.runEffects_spec, -IncrVerif.Proofs.recomputeOne_spec,
      -IncrVerif.Proofs.recompute_spec, -IncrVerif.Proofs.addNewObservers_spec, -IncrVerif.Proofs.unlinkDisallowedObservers_spec,
      -IncrVerif.Proofs.runAll_spec, -IncrVerif.Proofs.stabiliseEnd_spec, -IncrVerif.Proofs.drainHeap_spec,
      -IncrVerif.Proofs.stabilise_spec, -IncrVerif.Proofs.setMaxHeightAllowed_spec,
      -IncrVerif.Proofs.elabTemplateBase_spec, -IncrVerif.Proofs.memoCall_spec, -IncrVerif.Proofs.elabInstrM_spec,
      -IncrVerif.Proofs.expertValue_spec, -IncrVerif.Proofs.withOldEvents_spec, -IncrVerif.Proofs.perKeyDriver_spec])

/-- the frame in plain form: status, configuration and liveness after running `x`, value or panic -/
theorem FPres.run {α} {x : M α} (h : ∀ t, FPres t x) (s : State) :
    (x.run.run s).2.status = s.status ∧ (x.run.run s).2.cfg = s.cfg ∧
      (x.run.run s).2.alive = s.alive := by
  have := (triple_iff x _ _ _).1 (h (tagOf s)) s (Fr_tagOf s)
  split at this <;> simp_all [Fr, tagOf]

macro "fr_triv" : tactic =>
  `(tactic| first
    | assumption
    | (intros; trivial)
    | exact (‹Fr _ _ ∧ _›).1
    | (intros; rfl)
    | (intro h _; exact h))

/-- the loop invariant of every `for` loop: the frame -/
abbrev frInv (t : Tag) {α : Type} {β : Type} {xs : List α} :
    Invariant xs β (.except Panic (.arg State .pure)) :=
  post⟨fun _ s => ⌜Fr t s⌝, fun _ s => ⌜Fr t s⌝⟩

macro "fr_fin" t:term : tactic =>
  `(tactic| (try any_goals exact frInv $t
             try any_goals exact ($t : Tag)
             all_goals first
               | fr_triv
               | skip))

/-- loop rule without invariants -/
theorem forIn_fr {α β} (t : Tag) (l : List α) (init : β) (f : α → β → M (ForInStep β))
    (hf : ∀ a b, FPres t (f a b)) : FPres t (forIn l init f) := by
  induction l generalizing init with
  | nil => simp only [List.forIn_nil]; mvcgen
  | cons a l ih =>
    rw [List.forIn_cons]
    have := hf a init
    fr_mvcgen [this, ih]

/-! ## Part 1: every function but `stabilise`/`stabiliseEnd` keeps status and configuration -/

section frame
variable (t : Tag)

@[spec high] theorem assertM_fr (c : Bool) (site : String) : FPres t (assertM c site) := by
  fr_mvcgen [assertM]
@[spec high] theorem dassert_fr (c : Bool) (site : String) : FPres t (dassert c site) := by
  fr_mvcgen [dassert]
@[spec high] theorem logEv_fr (e : Event) : FPres t (logEv e) := by
  fr_mvcgen [logEv]
@[spec high] theorem tick_fr : FPres t tick := by
  fr_mvcgen [tick]
@[spec high] theorem getNode_fr (n : Nat) : FPres t (getNode n) := by
  fr_mvcgen [getNode]
@[spec high] theorem modNode_fr (n : Nat) (f : Node → Node) : FPres t (modNode n f) := by
  fr_mvcgen [modNode]
@[spec high] theorem getBind_fr (n : Nat) : FPres t (getBind n) := by
  fr_mvcgen [getBind]
@[spec high] theorem modBind_fr (n : Nat) (f : BindRec → BindRec) : FPres t (modBind n f) := by
  fr_mvcgen [modBind]
@[spec high] theorem getExpert_fr (n : Nat) : FPres t (getExpert n) := by
  fr_mvcgen [getExpert]
@[spec high] theorem modExpert_fr (n : Nat) (f : ExpertRec → ExpertRec) : FPres t (modExpert n f) := by
  fr_mvcgen [modExpert]
@[spec high] theorem getVar_fr (n : Nat) : FPres t (getVar n) := by
  fr_mvcgen [getVar]
@[spec high] theorem modVar_fr (n : Nat) (f : VarCell → VarCell) : FPres t (modVar n f) := by
  fr_mvcgen [modVar]
@[spec high] theorem getObs_fr (n : Nat) : FPres t (getObs n) := by
  fr_mvcgen [getObs]
@[spec high] theorem modObs_fr (n : Nat) (f : ObsRec → ObsRec) : FPres t (modObs n f) := by
  fr_mvcgen [modObs]
@[spec high] theorem bumpCounter_fr (f : Counters → Counters) : FPres t (bumpCounter f) := by
  fr_mvcgen [bumpCounter]
@[spec high] theorem scopeHeight_fr (sc : Scope) : FPres t (scopeHeight sc) := by
  fr_mvcgen [scopeHeight]
@[spec high] theorem scopeIsNecessary_fr (sc : Scope) : FPres t (scopeIsNecessary sc) := by
  fr_mvcgen [scopeIsNecessary]
@[spec high] theorem scopeIsValid_fr (sc : Scope) : FPres t (scopeIsValid sc) := by
  fr_mvcgen [scopeIsValid]

/-! recompute heap, adjust-heights heap -/

@[spec high] theorem rchLink_fr (n : Nat) : FPres t (rchLink n) := by
  fr_mvcgen [rchLink]
@[spec high] theorem rchUnlink_fr (n : Nat) : FPres t (rchUnlink n) := by
  fr_mvcgen [rchUnlink]
@[spec high] theorem rchInsert_fr (n : Nat) : FPres t (rchInsert n) := by
  fr_mvcgen [rchInsert]
@[spec high] theorem rchRemove_fr (n : Nat) : FPres t (rchRemove n) := by
  fr_mvcgen [rchRemove]
@[spec high] theorem rchMinHeight_fr : FPres t rchMinHeight := by
  fr_mvcgen [rchMinHeight]
@[spec high] theorem rchIncreaseHeight_fr (n : Nat) : FPres t (rchIncreaseHeight n) := by
  fr_mvcgen [rchIncreaseHeight]
@[spec high] theorem rchRemoveMin_fr : FPres t rchRemoveMin := by
  fr_mvcgen [rchRemoveMin]
@[spec high] theorem setHeight_fr (n : Nat) (h : Int) : FPres t (setHeight n h) := by
  fr_mvcgen [setHeight]
@[spec high] theorem ahhAddUnlessMem_fr (n : Nat) : FPres t (ahhAddUnlessMem n) := by
  fr_mvcgen [ahhAddUnlessMem]
@[spec high] theorem ahhRemoveMin_fr : FPres t ahhRemoveMin := by
  fr_mvcgen [ahhRemoveMin]
@[spec high] theorem ensureHeightRequirement_fr (oc op c p : Nat) :
    FPres t (ensureHeightRequirement oc op c p) := by
  fr_mvcgen [ensureHeightRequirement]

@[spec high] theorem adjustHeightsLoop_fr (oc op fuel : Nat) : FPres t (adjustHeightsLoop oc op fuel) := by
  induction fuel with
  | zero => fr_mvcgen [adjustHeightsLoop]
  | succ fuel ih =>
    fr_mvcgen [adjustHeightsLoop, ih]
    fr_fin t

@[spec high] theorem adjustHeights_fr (oc op fuel : Nat) : FPres t (adjustHeights oc op fuel) := by
  fr_mvcgen [adjustHeights]

/-! parents, handlers bookkeeping, cutoffs, expert callbacks -/

@[spec high] theorem addParent_fr (c i p : Nat) : FPres t (addParent c i p) := by
  fr_mvcgen [addParent]
@[spec high] theorem removeParent_fr (c i p : Nat) : FPres t (removeParent c i p) := by
  fr_mvcgen [removeParent]
@[spec high] theorem handleAfterStabilisation_fr (n : Nat) : FPres t (handleAfterStabilisation n) := by
  fr_mvcgen [handleAfterStabilisation]
@[spec high] theorem maybeHandleAfterStabilisation_fr (n : Nat) :
    FPres t (maybeHandleAfterStabilisation n) := by
  fr_mvcgen [maybeHandleAfterStabilisation]
@[spec high] theorem shouldCutoff_fr (env : Env) (n : Nat) (o v : Val) : FPres t (shouldCutoff env n o v) := by
  fr_mvcgen [shouldCutoff]
@[spec high] theorem edgeOnChange_fr (env : Env) (e : Nat) (edge : ExpertEdge) :
    FPres t (edgeOnChange env e edge) := by
  fr_mvcgen [edgeOnChange]
@[spec high] theorem runEdgeCallback_fr (env : Env) (e i : Nat) : FPres t (runEdgeCallback env e i) := by
  fr_mvcgen [runEdgeCallback]
@[spec high] theorem observabilityChange_fr (e : Nat) (b : Bool) : FPres t (observabilityChange e b) := by
  fr_mvcgen [observabilityChange]

/-! the cascades -/

@[spec high] theorem markMapRefUnknown_fr (fuel n : Nat) : FPres t (markMapRefUnknown fuel n) := by
  induction fuel generalizing n with
  | zero => fr_mvcgen [markMapRefUnknown]
  | succ fuel ih =>
    fr_mvcgen [markMapRefUnknown, ih, -Spec.forIn_list, forIn_fr]
    fr_fin t

theorem necessary_fr (env : Env) (fuel : Nat) :
    (∀ n, FPres t (becameNecessary env fuel n)) ∧
      (∀ c i p, FPres t (addParentWithoutAdjustingHeights env fuel c i p)) := by
  induction fuel with
  | zero =>
    refine ⟨?_, ?_⟩ <;> intros
    · fr_mvcgen [becameNecessary]
    · fr_mvcgen [addParentWithoutAdjustingHeights]
  | succ fuel ih =>
    obtain ⟨ih1, ih2⟩ := ih
    refine ⟨?_, ?_⟩ <;> intros
    · fr_mvcgen [becameNecessary, ih2]
      fr_fin t
    · fr_mvcgen [addParentWithoutAdjustingHeights, ih1]
      fr_fin t

@[spec high] theorem becameNecessary_fr (env : Env) (fuel n : Nat) : FPres t (becameNecessary env fuel n) :=
  (necessary_fr t env fuel).1 n

@[spec high] theorem addParentWithoutAdjustingHeights_fr (env : Env) (fuel c i p : Nat) :
    FPres t (addParentWithoutAdjustingHeights env fuel c i p) :=
  (necessary_fr t env fuel).2 c i p

theorem unnecessary_fr (fuel : Nat) :
    (∀ n, FPres t (becameUnnecessary fuel n)) ∧ (∀ n, FPres t (checkIfUnnecessary fuel n)) ∧
      (∀ n, FPres t (removeChildren fuel n)) := by
  induction fuel with
  | zero =>
    refine ⟨?_, ?_, ?_⟩ <;> intro n
    · fr_mvcgen [becameUnnecessary]
    · fr_mvcgen [checkIfUnnecessary]
    · fr_mvcgen [removeChildren]
  | succ fuel ih =>
    obtain ⟨ih1, ih2, ih3⟩ := ih
    refine ⟨?_, ?_, ?_⟩ <;> intro n
    · fr_mvcgen [becameUnnecessary, ih3]
    · fr_mvcgen [checkIfUnnecessary, ih1]
    · fr_mvcgen [removeChildren, ih2]
      fr_fin t

@[spec high] theorem becameUnnecessary_fr (fuel n : Nat) : FPres t (becameUnnecessary fuel n) :=
  (unnecessary_fr t fuel).1 n
@[spec high] theorem checkIfUnnecessary_fr (fuel n : Nat) : FPres t (checkIfUnnecessary fuel n) :=
  (unnecessary_fr t fuel).2.1 n
@[spec high] theorem removeChildren_fr (fuel n : Nat) : FPres t (removeChildren fuel n) :=
  (unnecessary_fr t fuel).2.2 n

@[spec high] theorem invalidateNode_fr (fuel n : Nat) : FPres t (invalidateNode fuel n) := by
  induction fuel generalizing n with
  | zero => fr_mvcgen [invalidateNode]
  | succ fuel ih =>
    fr_mvcgen [invalidateNode, ih]
    fr_fin t

@[spec high] theorem propagateInvalidity_fr (fuel : Nat) : FPres t (propagateInvalidity fuel) := by
  induction fuel with
  | zero => fr_mvcgen [propagateInvalidity]
  | succ fuel ih =>
    fr_mvcgen [propagateInvalidity, ih]
    fr_fin t

@[spec high] theorem becameNecessaryPropagate_fr (env : Env) (fuel n : Nat) :
    FPres t (becameNecessaryPropagate env fuel n) := by
  fr_mvcgen [becameNecessaryPropagate]

@[spec high] theorem stateAddParent_fr (env : Env) (fuel c i p : Nat) :
    FPres t (stateAddParent env fuel c i p) := by
  fr_mvcgen [stateAddParent]

@[spec high] theorem changeChildBindRhs_fr (env : Env) (fuel main : Nat) (old : Option Nat) (new index : Nat) :
    FPres t (changeChildBindRhs env fuel main old new index) := by
  fr_mvcgen [changeChildBindRhs]

/-! the expert API -/

@[spec high] theorem assertRunningIsChild_fr (n : Nat) (name : String) :
    FPres t (assertRunningIsChild n name) := by
  fr_mvcgen [assertRunningIsChild]
@[spec high] theorem expertOf_fr (n : Nat) : FPres t (expertOf n) := by
  fr_mvcgen [expertOf]
@[spec high] theorem expertIdxRaw_fr (n : Nat) : FPres t (expertIdxRaw n) := by
  fr_mvcgen [expertIdxRaw]
@[spec high] theorem expertMakeStale_fr (n : Nat) : FPres t (expertMakeStale n) := by
  fr_mvcgen [expertMakeStale]
@[spec high] theorem expertAddDependency_fr (env : Env) (fuel n child : Nat) (cb : Bool) :
    FPres t (expertAddDependency env fuel n child cb) := by
  fr_mvcgen [expertAddDependency]
@[spec high] theorem swapEdgeIndices_fr (n c1 i1 c2 i2 : Nat) : FPres t (swapEdgeIndices n c1 i1 c2 i2) := by
  fr_mvcgen [swapEdgeIndices]
@[spec high] theorem expertRemoveDependency_fr (fuel n dep : Nat) :
    FPres t (expertRemoveDependency fuel n dep) := by
  fr_mvcgen [expertRemoveDependency]
@[spec high] theorem expertInvalidate_fr (fuel n : Nat) : FPres t (expertInvalidate fuel n) := by
  fr_mvcgen [expertInvalidate]

/-! node creation, var writes, observers -/

@[spec high] theorem mapM_fr {α β} (f : α → M β) (hf : ∀ a, FPres t (f a)) (l : List α) :
    FPres t (l.mapM f) := by
  induction l with
  | nil => fr_mvcgen [List.mapM_nil]
  | cons a l ih =>
    have := hf a
    rw [List.mapM_cons]
    fr_mvcgen [this, ih]

@[spec high] theorem mapConst_fr {α β} (b : β) (x : M α) (hx : FPres t x) :
    FPres t (Functor.mapConst b x) := by
  rw [LawfulFunctor.map_const]
  simp only [Function.comp_apply]
  fr_mvcgen [hx]

@[spec high] theorem createNode_fr (k : Kind) (sc : Scope) (c : CutoffK) : FPres t (createNode k sc c) := by
  fr_mvcgen [createNode]
@[spec high] theorem createVar_fr (v : Val) (sc : Scope) : FPres t (createVar v sc) := by
  fr_mvcgen [createVar]
@[spec high] theorem createBind_fr (body lhs : Nat) : FPres t (createBind body lhs) := by
  fr_mvcgen [createBind]
@[spec high] theorem isConstant_fr (n : Nat) : FPres t (isConstant n) := by
  fr_mvcgen [isConstant]
@[spec high] theorem resolveOpnd_fr (loc : List Nat) (o : Opnd) : FPres t (resolveOpnd loc o) := by
  fr_mvcgen [resolveOpnd]
@[spec high] theorem elabInstr_fr (loc : List Nat) (v : Val) (i : Instr) : FPres t (elabInstr loc v i) := by
  fr_mvcgen [elabInstr]
  fr_fin t
@[spec high] theorem elabTemplateBase_fr (tp : Template) (v : Val) (init : List Nat) :
    FPres t (elabTemplateBase tp v init) := by
  fr_mvcgen [elabTemplateBase]
  fr_fin t
@[spec high] theorem memoCall_fr (env : Env) (m : Nat) (key : Int) : FPres t (memoCall env m key) := by
  fr_mvcgen [memoCall]
  fr_fin t
@[spec high] theorem elabInstrM_fr (env : Env) (loc : List Nat) (v : Val) (i : Instr) :
    FPres t (elabInstrM env loc v i) := by
  fr_mvcgen [elabInstrM]
  fr_fin t
@[spec high] theorem elabTemplate_fr (env : Env) (tp : Template) (v : Val) : FPres t (elabTemplate env tp v) := by
  fr_mvcgen [elabTemplate]
  fr_fin t
@[spec high] theorem didSetVarWhileNotStabilising_fr (v : Nat) :
    FPres t (didSetVarWhileNotStabilising v) := by
  fr_mvcgen [didSetVarWhileNotStabilising]
@[spec high] theorem writeVar_fr (v : Nat) (f : Val → Val) (isSet : Bool) : FPres t (writeVar v f isSet) := by
  fr_mvcgen [writeVar]
@[spec high] theorem disallowFutureUse_fr (o : Nat) : FPres t (disallowFutureUse o) := by
  fr_mvcgen [disallowFutureUse]
@[spec high] theorem subscribe_fr (o hid : Nat) : FPres t (subscribe o hid) := by
  fr_mvcgen [subscribe]
@[spec high] theorem unsubscribe_fr (o token owner : Nat) : FPres t (unsubscribe o token owner) := by
  fr_mvcgen [unsubscribe]
/-- dropping a `Var` handle touches `vars` and `deadVars` only -/
@[spec high] theorem dropVarHandle_fr (v : Nat) : FPres t (dropVarHandle v) := by
  fr_mvcgen [dropVarHandle]
/-- `withVarHandle v act` is `act` or a no-op -/
theorem withVarHandle_fr (v : Nat) (act : M Unit) (h : FPres t act) : FPres t (withVarHandle v act) := by
  fr_mvcgen [withVarHandle, h]
theorem discard_fr {α} (x : M α) (h : FPres t x) : FPres t (discard x) := by
  fr_mvcgen [Functor.discard, h]
@[spec high] theorem runEffectBasic_fr (env : Env) (e : Effect) : FPres t (runEffectBasic env e) := by
  cases e with
  | setVar v x =>
    simp only [runEffectBasic]
    exact withVarHandle_fr t v _ (discard_fr t _ (writeVar_fr _ _ _ _))
  | modifyVar v x =>
    simp only [runEffectBasic]
    exact withVarHandle_fr t v _ (discard_fr t _ (writeVar_fr _ _ _ _))
  | updateVar v x =>
    simp only [runEffectBasic]
    exact withVarHandle_fr t v _ (discard_fr t _ (writeVar_fr _ _ _ _))
  | replaceVar v x =>
    simp only [runEffectBasic]
    apply withVarHandle_fr
    fr_mvcgen [Functor.discard]
  | replaceWithVar v x =>
    simp only [runEffectBasic]
    apply withVarHandle_fr
    fr_mvcgen [Functor.discard]
  | dropVar v =>
    simp only [runEffectBasic]
    exact discard_fr t _ (dropVarHandle_fr t v)
  | readObs o => fr_mvcgen [runEffectBasic]
  | panic => fr_mvcgen [runEffectBasic]
  | disallow o => fr_mvcgen [runEffectBasic]
  | _ => fr_mvcgen [runEffectBasic]

/-! recompute -/

@[spec high] theorem valueUnwrap_fr (env : Env) (n : Nat) (site : String) :
    FPres t (valueUnwrap env n site) := by
  fr_mvcgen [valueUnwrap]

@[spec high] theorem childChanged_fr (env : Env) (fuel p c ci : Nat) (o : Option Val) :
    FPres t (childChanged env fuel p c ci o) := by
  induction fuel generalizing p c ci o with
  | zero => fr_mvcgen [childChanged]
  | succ fuel ih =>
    fr_mvcgen [childChanged, ih]
    fr_fin t

@[spec high] theorem parentIterCanRecomputeNow_fr (p child : Nat) :
    FPres t (parentIterCanRecomputeNow p child) := by
  fr_mvcgen [parentIterCanRecomputeNow]

@[spec high] theorem maybeChangeValueManual_fr (env : Env) (fuel n : Nat) (o : Option Val) (b1 b2 : Bool) :
    FPres t (maybeChangeValueManual env fuel n o b1 b2) := by
  fr_mvcgen [maybeChangeValueManual]
  fr_fin t

@[spec high] theorem maybeChangeValue_fr (env : Env) (fuel n : Nat) (v : Val) :
    FPres t (maybeChangeValue env fuel n v) := by
  fr_mvcgen [maybeChangeValue]

@[spec high] theorem runEffects_fr (env : Env) (fuel : Nat) (effs : List Effect) (arg : Int) :
    FPres t (runEffects env fuel effs arg) := by
  fr_mvcgen [runEffects, -Spec.forIn_list, forIn_fr]

@[spec high] theorem expertValue_fr (env : Env) (e : Nat) (dv sv : List (Option Val)) :
    FPres t (expertValue env e dv sv) := by
  fr_mvcgen [expertValue]
  fr_fin t

@[spec high] theorem withOldEvents_fr (env : Env) (g n : Nat) (σ : Val) (old : Option Val) (x new : Val)
    (did : Bool) : FPres t (withOldEvents env g n σ old x new did) := by
  fr_mvcgen [withOldEvents, -Spec.forIn_list, forIn_fr]
  fr_fin t

@[spec high] theorem perKeyDriver_fr (env : Env) (fuel op : Nat) (newMap : List (Int × Int)) :
    FPres t (perKeyDriver env fuel op newMap) := by
  fr_mvcgen [perKeyDriver, Functor.discard, -Spec.forIn_list, forIn_fr]
  fr_fin t
  all_goals exact expertAddDependency_fr _ _ _ _ _ _

@[spec high] theorem recomputeOne_fr (env : Env) (fuel n : Nat) : FPres t (recomputeOne env fuel n) := by
  fr_mvcgen [recomputeOne]
  fr_fin t

@[spec high] theorem recompute_fr (env : Env) (fuel n : Nat) : FPres t (recompute env fuel n) := by
  induction fuel generalizing n with
  | zero => fr_mvcgen [recompute]
  | succ fuel ih => fr_mvcgen [recompute, ih]

/-! the pieces of `stabilise` -/

@[spec high] theorem addNewObservers_fr (env : Env) (fuel : Nat) : FPres t (addNewObservers env fuel) := by
  fr_mvcgen [addNewObservers]
  fr_fin t

@[spec high] theorem unlinkDisallowedObservers_fr (fuel : Nat) : FPres t (unlinkDisallowedObservers fuel) := by
  fr_mvcgen [unlinkDisallowedObservers]
  fr_fin t

@[spec high] theorem runAll_fr (env : Env) (fuel o n : Nat) (nu : NodeUpdate) (now : Int) :
    FPres t (runAll env fuel o n nu now) := by
  fr_mvcgen [runAll, -Spec.forIn_list, forIn_fr]

@[spec high] theorem drainHeap_fr (env : Env) (fuel : Nat) : FPres t (drainHeap env fuel) := by
  induction fuel with
  | zero => fr_mvcgen [drainHeap]
  | succ fuel ih => fr_mvcgen [drainHeap, ih]

@[spec high] theorem setMaxHeightAllowed_fr (newMax : Nat) : FPres t (setMaxHeightAllowed newMax) := by
  fr_mvcgen [setMaxHeightAllowed]

end frame

/-! ## Part 2: the phases of `stabilise` -/

/-- the propagation phase: everything between the status write and `stabilise_end` -/
def propagate (env : Env) (fuel : Nat) : M Unit := do
  addNewObservers env fuel
  unlinkDisallowedObservers fuel
  drainHeap env fuel

/-- `stabilise_end` up to (excluding) the line `status := RunningOnUpdateHandlers`, verbatim; the result
is the queue of (node, node update) pairs the handlers will be run for -/
def stabiliseEndPrepare (env : Env) : M (List (Nat × NodeUpdate)) := do
  modify fun s => { s with stabNum := s.stabNum + 1, currentlyRunning := none }
  let stack := (← get).setDuringStab
  modify fun s => { s with setDuringStab := [] }
  for v in stack do
    match (← getVar v).pending with
    | none => pure ()
    | some x =>
      modVar v fun c => { c with pending := none, value := x }
      didSetVarWhileNotStabilising v
  let dead := (← get).deadVars
  modify fun s => { s with deadVars := [] }
  for v in dead do modVar v fun c => { c with linked := false }
  let hs := (← get).handleAfterStab
  modify fun s => { s with handleAfterStab := [] }
  let mut queue : List (Nat × NodeUpdate) := []
  for n in hs do
    modNode n fun x => { x with inHandleAfterStab := false }
    queue := queue ++ [(n, (← get).nodeUpdate env n)]
  pure queue

/-- what `stabilise_end` does between the two status writes, verbatim: the handler loop, then the
garbage collection of the weak memo tables (a pure state update, it cannot panic) -/
def runHandlers (env : Env) (fuel : Nat) (queue : List (Nat × NodeUpdate)) : M Unit := do
  let now := (← get).stabNum
  for (n, nu) in queue do
    for o in (← getNode n).observers do
      runAll env fuel o n nu now
  modify fun s =>
    let alive := s.aliveSet
    { s with memos := s.memos.map fun (m, tbl) => (m, tbl.filter fun (_, n) => alive.contains n) }

theorem stabiliseEnd_phases (env : Env) (fuel : Nat) :
    stabiliseEnd env fuel = (do
      let queue ← stabiliseEndPrepare env
      modify fun s => { s with status := .runningOnUpdateHandlers }
      runHandlers env fuel queue
      modify fun s => { s with status := .notStabilising }) := by
  simp only [stabiliseEnd, stabiliseEndPrepare, runHandlers, bind_assoc, pure_bind]
  rfl

theorem stabilise_phases (env : Env) (fuel : Nat) :
    stabilise env fuel = (do
      assertM ((← get).status == .notStabilising) "state:stabilise:status"
      modify fun s => { s with status := .stabilising }
      propagate env fuel
      stabiliseEnd env fuel) := by
  simp only [stabilise, propagate, bind_assoc]

theorem propagate_fr (t : Tag) (env : Env) (fuel : Nat) : FPres t (propagate env fuel) := by
  fr_mvcgen [propagate]

theorem stabiliseEndPrepare_fr (t : Tag) (env : Env) : FPres t (stabiliseEndPrepare env) := by
  fr_mvcgen [stabiliseEndPrepare]
  fr_fin t

theorem runHandlers_fr (t : Tag) (env : Env) (fuel : Nat) (q : List (Nat × NodeUpdate)) :
    FPres t (runHandlers env fuel q) := by
  fr_mvcgen [runHandlers, -Spec.forIn_list, forIn_fr]

/-- `stabilise` from a state that is not stabilising, phase by phase: the status is written exactly
three times, and a panic in a phase is the outcome of the whole call, with the state of that moment -/
theorem stabilise_run (env : Env) (fuel : Nat) (s : State) (h : s.status = .notStabilising) :
    (stabilise env fuel).run.run s =
      match (propagate env fuel).run.run { s with status := .stabilising } with
      | (.error p, s1) => (.error p, s1)
      | (.ok _, s1) =>
        match (stabiliseEndPrepare env).run.run s1 with
        | (.error p, s2) => (.error p, s2)
        | (.ok q, s2) =>
          match (runHandlers env fuel q).run.run { s2 with status := .runningOnUpdateHandlers } with
          | (.error p, s3) => (.error p, s3)
          | (.ok _, s3) => (.ok (), { s3 with status := .notStabilising }) := by
  rw [stabilise_phases, stabiliseEnd_phases]
  simp only [run_bind, run_get, run_assertM, run_modify, h, beq_self_eq_true, if_true]
  rcases (propagate env fuel).run.run { s with status := .stabilising } with ⟨r1, s1⟩
  cases r1 with
  | error p => rfl
  | ok u =>
    simp only []
    rcases (stabiliseEndPrepare env).run.run s1 with ⟨r2, s2⟩
    cases r2 with
    | error p => rfl
    | ok q =>
      simp only []
      rcases (runHandlers env fuel q).run.run { s2 with status := .runningOnUpdateHandlers } with ⟨r3, s3⟩
      cases r3 <;> rfl

/-- a poisoned state: `stabilise` panics at its first line and changes nothing -/
theorem stabilise_refuses (env : Env) (fuel : Nat) (s : State) (h : s.status ≠ .notStabilising) :
    (stabilise env fuel).run.run s = (.error (.site "state:stabilise:status"), s) := by
  have hb : (s.status == Status.notStabilising) = false := by
    cases hs : s.status <;> simp_all
  simp only [stabilise, run_bind, run_get, run_assertM, hb]
  rfl

/-! ## Part 3: a drain that returns has emptied the heap (debug builds) -/

theorem firstNonEmpty_ne_nil (q : Array (List Nat)) :
    ∀ fuel lb, q.size < lb + fuel → q[firstNonEmpty q fuel lb]? ≠ some [] := by
  intro fuel
  induction fuel with
  | zero =>
    intro lb h
    simp only [firstNonEmpty]
    rw [Array.getElem?_eq_none (by omega)]
    simp
  | succ fuel ih =>
    intro lb h
    simp only [firstNonEmpty]
    split
    · exact ih (lb + 1) (by omega)
    · rename_i hne
      intro e
      exact hne e

theorem rchRemoveMin_none (t : Tag) (hd : t.cfg.debug = true) :
    ⦃fun s => ⌜Fr t s⌝⦄ rchRemoveMin
    ⦃post⟨fun r s => ⌜Fr t s ∧ (r = none → s.rch.length = 0)⌝, fun _ s => ⌜Fr t s⌝⟩⦄ := by
  fr_mvcgen [-rchRemoveMin_fr, -dassert_fr, -modNode_fr, rchRemoveMin, dassert, modNode]
  case vc1 => exact ⟨‹_›, by simpa using ‹(_ == 0) = true›⟩
  case vc4 =>
    rename_i s hfr _ _ _ _ hdb _
    have : s.cfg.debug = true := by rw [hfr.2.1]; exact hd
    simp [this] at hdb
  case vc5 =>
    rename_i s _ _ _ _ hq
    exact absurd hq (firstNonEmpty_ne_nil _ _ _ (by omega))
  case vc6 =>
    refine ⟨?_, fun h => by cases h⟩
    simp +zetaDelta only [Fr] at *
    assumption

/-- debug builds: `drainHeap` returns normally only with an empty recompute heap -/
theorem drainHeap_empty (t : Tag) (hd : t.cfg.debug = true) (env : Env) (fuel : Nat) :
    ⦃fun s => ⌜Fr t s⌝⦄ drainHeap env fuel
    ⦃post⟨fun _ s => ⌜Fr t s ∧ s.rch.length = 0⌝, fun _ s => ⌜Fr t s⌝⟩⦄ := by
  have hrm := rchRemoveMin_none t hd
  induction fuel with
  | zero => fr_mvcgen [-drainHeap_fr, drainHeap]
  | succ fuel ih =>
    fr_mvcgen [-drainHeap_fr, -rchRemoveMin_fr, drainHeap, hrm, ih]
    all_goals first
      | assumption
      | exact (‹Fr _ _ ∧ _›).1
      | exact ⟨(‹Fr _ _ ∧ _›).1, (‹Fr _ _ ∧ _›).2 rfl⟩
      | skip

/-- debug builds: the propagation phase returns normally only with an empty recompute heap -/
theorem propagate_empty (t : Tag) (hd : t.cfg.debug = true) (env : Env) (fuel : Nat) :
    ⦃fun s => ⌜Fr t s⌝⦄ propagate env fuel
    ⦃post⟨fun _ s => ⌜Fr t s ∧ s.rch.length = 0⌝, fun _ s => ⌜Fr t s⌝⟩⦄ := by
  have hdr := drainHeap_empty t hd env fuel
  fr_mvcgen [propagate, -drainHeap_fr, hdr]

/-- plain form of `drainHeap_empty` -/
theorem drainHeap_empty_run (env : Env) (fuel : Nat) (s s' : State) (hd : s.cfg.debug = true)
    (hr : (drainHeap env fuel).run.run s = (.ok (), s')) : s'.rch.length = 0 := by
  have := (triple_iff _ _ _ _).1 (drainHeap_empty (tagOf s) hd env fuel) s (Fr_tagOf s)
  rw [hr] at this
  exact this.2

theorem propagate_empty_run (env : Env) (fuel : Nat) (s s' : State) (hd : s.cfg.debug = true)
    (hr : (propagate env fuel).run.run s = (.ok (), s')) : s'.rch.length = 0 := by
  have := (triple_iff _ _ _ _).1 (propagate_empty (tagOf s) hd env fuel) s (Fr_tagOf s)
  rw [hr] at this
  exact this.2

/-! with a well-formed heap (`Proofs/HeapWF.lean`): an empty heap, bucket by bucket -/

theorem all_nil_of_sum_length_zero (l : List (List Nat)) (h : (l.map List.length).sum = 0) :
    ∀ x ∈ l, x = [] := by
  induction l with
  | nil => intro x hx; cases hx
  | cons a l ih =>
    simp only [List.map_cons, List.sum_cons] at h
    intro x hx
    rcases List.mem_cons.1 hx with rfl | hx
    · exact List.eq_nil_of_length_eq_zero (by omega)
    · exact ih (by omega) x hx

/-- well-formed heap of length 0: every bucket is empty and no node is marked as queued -/
theorem nothing_queued {s : State} (h : HeapWF s) (hl : s.rch.length = 0) :
    (∀ (k : Nat) (hk : k < s.rch.queues.size), s.rch.queues[k] = []) ∧
      ∀ n, n < s.nodes.size → (s.nodeD n).heightInRch = -1 := by
  have hsum : bucketSum s.rch.queues = 0 := by rw [← h.length]; exact hl
  have hall := all_nil_of_sum_length_zero _ hsum
  have hb : ∀ (k : Nat) (hk : k < s.rch.queues.size), s.rch.queues[k] = [] := by
    intro k hk
    exact hall _ (by simp)
  refine ⟨hb, ?_⟩
  intro n hn
  rcases h.range n hn with h1 | ⟨h1, h2⟩
  · exact h1
  · exfalso
    have hk : (s.nodeD n).heightInRch.toNat < s.rch.queues.size := by omega
    have := (h.mem _ hk n).2 ⟨hn, by omega⟩
    rw [hb _ hk] at this
    cases this

/-- debug builds, well-formed heap: after a drain that returned, the heap is well-formed and empty,
bucket by bucket and marker by marker -/
theorem drainHeap_nothing_queued (env : Env) (fuel : Nat) (s s' : State) (hwf : HeapWF s)
    (hd : s.cfg.debug = true) (hr : (drainHeap env fuel).run.run s = (.ok (), s')) :
    HeapWF s' ∧ s'.rch.length = 0 ∧
      (∀ (k : Nat) (hk : k < s'.rch.queues.size), s'.rch.queues[k] = []) ∧
      ∀ n, n < s'.nodes.size → (s'.nodeD n).heightInRch = -1 := by
  have h1 : HWF .debug s' := by
    have := (drainHeap_spec env fuel).run s ((HWF_debug_iff s).2 ⟨hwf, hd⟩)
    rw [hr] at this
    exact this
  have h2 := drainHeap_empty_run env fuel s s' hd hr
  exact ⟨h1.heapWF, h2, nothing_queued h1.heapWF h2⟩


/-! ## Part 4: sequences of calls of the public API other than `stabilise` -/

/-- one call of the public API other than `stabilise` (result discarded) -/
inductive ApiCall where
  | writeVar (v : Nat) (f : Val → Val) (isSet : Bool)
  | subscribe (o hid : Nat)
  | unsubscribe (o token owner : Nat)
  | disallowFutureUse (o : Nat)
  | elabInstr (lhsVal : Val) (i : Instr)
  /-- node creation including calls of memoised functions (what a top-level `create` runs) -/
  | elabInstrM (env : Env) (lhsVal : Val) (i : Instr)
  | setMaxHeightAllowed (newMax : Nat)

def ApiCall.run : ApiCall → M Unit
  | .writeVar v f isSet => do let _ ← Engine.writeVar v f isSet
  | .subscribe o hid => do let _ ← Engine.subscribe o hid
  | .unsubscribe o token owner => do let _ ← Engine.unsubscribe o token owner
  | .disallowFutureUse o => Engine.disallowFutureUse o
  | .elabInstr lhsVal i => do let _ ← Engine.elabInstr [] lhsVal i
  | .elabInstrM env lhsVal i => do let _ ← Engine.elabInstrM env [] lhsVal i
  | .setMaxHeightAllowed newMax => Engine.setMaxHeightAllowed newMax

/-- the state after the call, whether it returned or panicked (a caught panic leaves the state as it
was at the panic point) -/
def ApiCall.step (c : ApiCall) (s : State) : State := (c.run.run.run s).2

/-- the state after a sequence of calls, each possibly ending in a (caught) panic -/
def runCalls (cs : List ApiCall) (s : State) : State := cs.foldl (fun s c => c.step s) s

theorem ApiCall.run_fr (t : Tag) (c : ApiCall) : FPres t c.run := by
  cases c <;> fr_mvcgen [ApiCall.run]

theorem ApiCall.step_frame (c : ApiCall) (s : State) :
    (c.step s).status = s.status ∧ (c.step s).cfg = s.cfg ∧ (c.step s).alive = s.alive :=
  FPres.run (fun t => ApiCall.run_fr t c) s

theorem runCalls_frame (cs : List ApiCall) (s : State) :
    (runCalls cs s).status = s.status ∧ (runCalls cs s).cfg = s.cfg ∧
      (runCalls cs s).alive = s.alive := by
  induction cs generalizing s with
  | nil => exact ⟨rfl, rfl, rfl⟩
  | cons c cs ih =>
    have h1 := ih (c.step s)
    have h2 := c.step_frame s
    simp only [runCalls, List.foldl_cons] at h1 ⊢
    exact ⟨h1.1.trans h2.1, h1.2.1.trans h2.2.1, h1.2.2.trans h2.2.2⟩

/-! the same calls, from a state poisoned with status `Stabilising`: no var cell's `value` moves -/

/-- the engine is (stuck) stabilising and var cell `v` exists with value `x` -/
def VS (v : Nat) (x : Val) (s : State) : Prop :=
  s.status = .stabilising ∧ ∃ vc, s.vars[v]? = some vc ∧ vc.value = x

abbrev VPres {α} (v : Nat) (x : Val) (m : M α) : Prop :=
  ⦃fun s => ⌜VS v x s⌝⦄ m ⦃post⟨fun _ s => ⌜VS v x s⌝, fun _ s => ⌜VS v x s⌝⟩⦄

theorem VS.modify {v : Nat} {x : Val} {s : State} (h : VS v x s) (w : Nat) (f : VarCell → VarCell)
    (hf : ∀ c, (f c).value = c.value) : VS v x { s with vars := s.vars.modify w f } := by
  obtain ⟨hs, vc, hv, hx⟩ := h
  refine ⟨hs, ?_⟩
  simp only [Array.getElem?_modify]
  split
  · subst_vars; exact ⟨f vc, by simp [hv], by rw [hf]⟩
  · exact ⟨vc, hv, hx⟩

theorem VS.push {v : Nat} {x : Val} {s : State} (h : VS v x s) (c : VarCell) :
    VS v x { s with vars := s.vars.push c } := by
  obtain ⟨hs, vc, hv, hx⟩ := h
  refine ⟨hs, vc, ?_, hx⟩
  have hlt : v < s.vars.size := (Array.getElem?_eq_some_iff.1 hv).1
  simp only [Array.getElem?_push]
  rw [if_neg (by omega)]
  exact hv

macro "vs_triv" : tactic =>
  `(tactic| first
    | assumption
    | (intros; trivial)
    | (intros; rfl)
    | exact VS.modify ‹_› _ _ (fun _ => rfl)
    | exact VS.push ‹_› _
    | (exfalso; subst_vars; apply ‹_ = Status.stabilising → False›; exact (‹VS _ _ _›).1)
    | (intro h _; exact h))

abbrev vsInv (v : Nat) (x : Val) {α : Type} {β : Type} {xs : List α} :
    Invariant xs β (.except Panic (.arg State .pure)) :=
  post⟨fun _ s => ⌜VS v x s⌝, fun _ s => ⌜VS v x s⌝⟩

macro "vs_fin" v:term:max x:term:max : tactic =>
  `(tactic| (try any_goals exact vsInv $v $x
             try any_goals exact tagOf default
             all_goals first
               | vs_triv
               | skip))

section parked
variable (v : Nat) (x : Val)

@[spec 20000] theorem assertM_vs (c : Bool) (site : String) : VPres v x (assertM c site) := by
  fr_mvcgen [-assertM_fr, assertM]
@[spec 20000] theorem dassert_vs (c : Bool) (site : String) : VPres v x (dassert c site) := by
  fr_mvcgen [-dassert_fr, dassert]
@[spec 20000] theorem getNode_vs (n : Nat) : VPres v x (getNode n) := by
  fr_mvcgen [-getNode_fr, getNode]
@[spec 20000] theorem modNode_vs (n : Nat) (f : Node → Node) : VPres v x (modNode n f) := by
  fr_mvcgen [-modNode_fr, modNode]
@[spec 20000] theorem getBind_vs (n : Nat) : VPres v x (getBind n) := by
  fr_mvcgen [-getBind_fr, getBind]
@[spec 20000] theorem modBind_vs (n : Nat) (f : BindRec → BindRec) : VPres v x (modBind n f) := by
  fr_mvcgen [-modBind_fr, modBind]
@[spec 20000] theorem getExpert_vs (n : Nat) : VPres v x (getExpert n) := by
  fr_mvcgen [-getExpert_fr, getExpert]
@[spec 20000] theorem modExpert_vs (n : Nat) (f : ExpertRec → ExpertRec) : VPres v x (modExpert n f) := by
  fr_mvcgen [-modExpert_fr, modExpert]
@[spec 20000] theorem getObs_vs (n : Nat) : VPres v x (getObs n) := by
  fr_mvcgen [-getObs_fr, getObs]
@[spec 20000] theorem modObs_vs (n : Nat) (f : ObsRec → ObsRec) : VPres v x (modObs n f) := by
  fr_mvcgen [-modObs_fr, modObs]
@[spec 20000] theorem getVar_vs (n : Nat) : VPres v x (getVar n) := by
  fr_mvcgen [-getVar_fr, getVar]
@[spec 20000] theorem modVar_vs (n : Nat) (f : VarCell → VarCell) (hf : ∀ c, (f c).value = c.value) :
    VPres v x (modVar n f) := by
  fr_mvcgen [-modVar_fr, modVar]
  exact VS.modify ‹_› _ _ hf
@[spec 20000] theorem bumpCounter_vs (f : Counters → Counters) : VPres v x (bumpCounter f) := by
  fr_mvcgen [-bumpCounter_fr, bumpCounter]
@[spec 20000] theorem handleAfterStabilisation_vs (n : Nat) :
    VPres v x (handleAfterStabilisation n) := by
  fr_mvcgen [-handleAfterStabilisation_fr, handleAfterStabilisation]
@[spec 20000] theorem resolveOpnd_vs (loc : List Nat) (o : Opnd) : VPres v x (resolveOpnd loc o) := by
  fr_mvcgen [-resolveOpnd_fr, resolveOpnd]
@[spec 20000] theorem isConstant_vs (n : Nat) : VPres v x (isConstant n) := by
  fr_mvcgen [-isConstant_fr, isConstant]
@[spec 20000] theorem createNode_vs (k : Kind) (sc : Scope) (c : CutoffK) :
    VPres v x (createNode k sc c) := by
  fr_mvcgen [-createNode_fr, createNode]
@[spec 20000] theorem createVar_vs (w : Val) (sc : Scope) : VPres v x (createVar w sc) := by
  fr_mvcgen [-createVar_fr, createVar]
  vs_fin v x
@[spec 20000] theorem createBind_vs (body lhs : Nat) : VPres v x (createBind body lhs) := by
  fr_mvcgen [-createBind_fr, createBind]

@[spec 20000] theorem mapM_vs {α β} (f : α → M β) (hf : ∀ a, VPres v x (f a)) (l : List α) :
    VPres v x (l.mapM f) := by
  induction l with
  | nil => fr_mvcgen [-mapM_fr, List.mapM_nil]
  | cons a l ih =>
    have := hf a
    rw [List.mapM_cons]
    fr_mvcgen [-mapM_fr, this, ih]

theorem writeVar_vs (w : Nat) (f : Val → Val) (isSet : Bool) : VPres v x (writeVar w f isSet) := by
  fr_mvcgen [-writeVar_fr, writeVar]
  vs_fin v x
theorem subscribe_vs (o hid : Nat) : VPres v x (subscribe o hid) := by
  fr_mvcgen [-subscribe_fr, subscribe]
  vs_fin v x
theorem unsubscribe_vs (o token owner : Nat) : VPres v x (unsubscribe o token owner) := by
  fr_mvcgen [-unsubscribe_fr, unsubscribe]
  vs_fin v x
theorem disallowFutureUse_vs (o : Nat) : VPres v x (disallowFutureUse o) := by
  fr_mvcgen [-disallowFutureUse_fr, disallowFutureUse]
  vs_fin v x
theorem elabInstr_vs (loc : List Nat) (lv : Val) (i : Instr) : VPres v x (elabInstr loc lv i) := by
  fr_mvcgen [-elabInstr_fr, elabInstr]
  vs_fin v x
theorem tick_vs : VPres v x tick := by
  fr_mvcgen [-tick_fr, tick]
theorem logEv_vs (e : Event) : VPres v x (logEv e) := by
  fr_mvcgen [-logEv_fr, logEv]
theorem elabTemplateBase_vs (tp : Template) (lv : Val) (init : List Nat) :
    VPres v x (elabTemplateBase tp lv init) := by
  have h := elabInstr_vs v x
  fr_mvcgen [-elabTemplateBase_fr, -elabInstr_fr, elabTemplateBase, h]
  vs_fin v x
theorem memoCall_vs (env : Env) (m : Nat) (key : Int) : VPres v x (memoCall env m key) := by
  have h1 := elabTemplateBase_vs v x
  have h2 := tick_vs v x
  have h3 := logEv_vs v x
  fr_mvcgen [-memoCall_fr, -elabTemplateBase_fr, -tick_fr, -logEv_fr, memoCall, h1, h2, h3]
  vs_fin v x
theorem elabInstrM_vs (env : Env) (loc : List Nat) (lv : Val) (i : Instr) :
    VPres v x (elabInstrM env loc lv i) := by
  have h1 := elabInstr_vs v x
  have h2 := memoCall_vs v x
  fr_mvcgen [-elabInstrM_fr, -elabInstr_fr, -memoCall_fr, elabInstrM, h1, h2]
  vs_fin v x
theorem setMaxHeightAllowed_vs (newMax : Nat) : VPres v x (setMaxHeightAllowed newMax) := by
  fr_mvcgen [-setMaxHeightAllowed_fr, setMaxHeightAllowed]
  vs_fin v x

theorem ApiCall.run_vs (c : ApiCall) : VPres v x c.run := by
  have h1 := writeVar_vs v x
  have h2 := subscribe_vs v x
  have h3 := unsubscribe_vs v x
  have h4 := disallowFutureUse_vs v x
  have h5 := elabInstr_vs v x
  have h6 := setMaxHeightAllowed_vs v x
  have h7 := elabInstrM_vs v x
  cases c <;>
    fr_mvcgen [ApiCall.run, -writeVar_fr, -subscribe_fr, -unsubscribe_fr, -disallowFutureUse_fr,
      -elabInstr_fr, -elabInstrM_fr, -setMaxHeightAllowed_fr, h1, h2, h3, h4, h5, h6, h7]

end parked

theorem ApiCall.step_vs (v : Nat) (x : Val) (c : ApiCall) (s : State) (h : VS v x s) :
    VS v x (c.step s) := by
  have := (triple_iff c.run _ _ _).1 (ApiCall.run_vs v x c) s h
  unfold ApiCall.step
  split at this <;> simp_all

/-- from a state stuck in status `Stabilising`, no sequence of API calls changes the `value` of an
existing var cell (writes are parked in `pending`, and nothing ever applies them) -/
theorem runCalls_value (cs : List ApiCall) (s : State) (v : Nat) (vc : VarCell)
    (hs : s.status = .stabilising) (hv : s.vars[v]? = some vc) :
    ∃ vc', (runCalls cs s).vars[v]? = some vc' ∧ vc'.value = vc.value := by
  have h0 : VS v vc.value s := ⟨hs, vc, hv, rfl⟩
  suffices h : VS v vc.value (runCalls cs s) from h.2
  clear hv hs
  induction cs generalizing s with
  | nil => exact h0
  | cons c cs ih =>
    simp only [runCalls, List.foldl_cons]
    exact ih (c.step s) (ApiCall.step_vs v vc.value c s h0)

/-! ## Part 5: where a panic of `stabilise` comes from, and the status it leaves -/

/-- status, configuration and liveness after `x`, whether it returned or panicked -/
def Keeps {α} (x : M α) : Prop :=
  ∀ s : State, (x.run.run s).2.status = s.status ∧ (x.run.run s).2.cfg = s.cfg ∧
    (x.run.run s).2.alive = s.alive

theorem FPres.keeps {α} {x : M α} (h : ∀ t, FPres t x) : Keeps x := fun s => FPres.run h s

theorem Keeps.of_run {α} {x : M α} (h : Keeps x) {s s' : State} {r : Except Panic α}
    (hr : x.run.run s = (r, s')) : s'.status = s.status ∧ s'.cfg = s.cfg ∧ s'.alive = s.alive := by
  have := h s
  rw [hr] at this
  exact this

theorem propagate_keeps (env : Env) (fuel : Nat) : Keeps (propagate env fuel) :=
  FPres.keeps fun t => propagate_fr t env fuel
theorem stabiliseEndPrepare_keeps (env : Env) : Keeps (stabiliseEndPrepare env) :=
  FPres.keeps fun t => stabiliseEndPrepare_fr t env
theorem runHandlers_keeps (env : Env) (fuel : Nat) (q : List (Nat × NodeUpdate)) :
    Keeps (runHandlers env fuel q) :=
  FPres.keeps fun t => runHandlers_fr t env fuel q

/-- the three places a panic of `stabilise` (entered with status `NotStabilising`) can come from -/
inductive PanicOrigin (env : Env) (fuel : Nat) (s : State) (p : Panic) (s' : State) : Prop where
  /-- raised by `add_new_observers`, `unlink_disallowed_observers` or the heap drain -/
  | propagation
      (h1 : (propagate env fuel).run.run { s with status := .stabilising } = (.error p, s'))
  /-- raised in `stabilise_end` before the line `status := RunningOnUpdateHandlers` -/
  | endPrepare (s1 : State)
      (h1 : (propagate env fuel).run.run { s with status := .stabilising } = (.ok (), s1))
      (h2 : (stabiliseEndPrepare env).run.run s1 = (.error p, s'))
  /-- raised in `stabilise_end` after that line, i.e. by an update handler (`run_all`) -/
  | handlers (s1 : State) (q : List (Nat × NodeUpdate)) (s2 : State)
      (h1 : (propagate env fuel).run.run { s with status := .stabilising } = (.ok (), s1))
      (h2 : (stabiliseEndPrepare env).run.run s1 = (.ok q, s2))
      (h3 : (runHandlers env fuel q).run.run { s2 with status := .runningOnUpdateHandlers }
              = (.error p, s'))

theorem PanicOrigin.status {env : Env} {fuel : Nat} {s : State} {p : Panic} {s' : State}
    (h : PanicOrigin env fuel s p s') :
    (s'.status = .stabilising ∧ ¬ ∃ s1 q s2,
        (propagate env fuel).run.run { s with status := .stabilising } = (.ok (), s1) ∧
        (stabiliseEndPrepare env).run.run s1 = (.ok q, s2)) ∨
    (s'.status = .runningOnUpdateHandlers ∧ ∃ s1 q s2,
        (propagate env fuel).run.run { s with status := .stabilising } = (.ok (), s1) ∧
        (stabiliseEndPrepare env).run.run s1 = (.ok q, s2) ∧
        (runHandlers env fuel q).run.run { s2 with status := .runningOnUpdateHandlers }
          = (.error p, s')) := by
  cases h with
  | propagation h1 =>
    left
    refine ⟨((propagate_keeps env fuel).of_run h1).1, ?_⟩
    rintro ⟨s1, q, s2, h1', -⟩
    rw [h1] at h1'; cases h1'
  | endPrepare s1 h1 h2 =>
    left
    have e1 := ((propagate_keeps env fuel).of_run h1).1
    have e2 := ((stabiliseEndPrepare_keeps env).of_run h2).1
    refine ⟨e2.trans e1, ?_⟩
    rintro ⟨s1', q, s2, h1', h2'⟩
    rw [h1] at h1'; cases h1'
    rw [h2] at h2'; cases h2'
  | handlers s1 q s2 h1 h2 h3 =>
    right
    exact ⟨((runHandlers_keeps env fuel q).of_run h3).1, s1, q, s2, h1, h2, h3⟩

/-- every panic of a `stabilise` entered with status `NotStabilising` has one of the three origins -/
theorem stabilise_panic_origin (env : Env) (fuel : Nat) (s : State) (p : Panic) (s' : State)
    (h : s.status = .notStabilising) (hr : (stabilise env fuel).run.run s = (.error p, s')) :
    PanicOrigin env fuel s p s' := by
  rw [stabilise_run env fuel s h] at hr
  rcases h1 : (propagate env fuel).run.run { s with status := .stabilising } with ⟨r1, s1⟩
  rw [h1] at hr
  cases r1 with
  | error p1 =>
    obtain ⟨e1, e2⟩ := Prod.mk.inj hr
    cases e1; cases e2
    exact .propagation h1
  | ok u =>
    dsimp only at hr
    rcases h2 : (stabiliseEndPrepare env).run.run s1 with ⟨r2, s2⟩
    rw [h2] at hr
    cases r2 with
    | error p2 =>
      obtain ⟨e1, e2⟩ := Prod.mk.inj hr
      cases e1; cases e2
      exact .endPrepare s1 h1 h2
    | ok q =>
      dsimp only at hr
      rcases h3 : (runHandlers env fuel q).run.run { s2 with status := .runningOnUpdateHandlers }
        with ⟨r3, s3⟩
      rw [h3] at hr
      cases r3 with
      | error p3 =>
        obtain ⟨e1, e2⟩ := Prod.mk.inj hr
        cases e1; cases e2
        exact .handlers s1 q s2 h1 h2 h3
      | ok u' =>
        obtain ⟨e1, -⟩ := Prod.mk.inj hr
        cases e1

/-- `stabilise` never touches the configuration or the liveness flag -/
theorem stabilise_cfg_alive (env : Env) (fuel : Nat) (s : State) :
    ((stabilise env fuel).run.run s).2.cfg = s.cfg ∧
      ((stabilise env fuel).run.run s).2.alive = s.alive := by
  by_cases h : s.status = .notStabilising
  · rw [stabilise_run env fuel s h]
    rcases h1 : (propagate env fuel).run.run { s with status := .stabilising } with ⟨r1, s1⟩
    have k1 := (propagate_keeps env fuel).of_run h1
    cases r1 with
    | error p1 => exact ⟨k1.2.1, k1.2.2⟩
    | ok u =>
      simp only []
      rcases h2 : (stabiliseEndPrepare env).run.run s1 with ⟨r2, s2⟩
      have k2 := (stabiliseEndPrepare_keeps env).of_run h2
      cases r2 with
      | error p2 => exact ⟨k2.2.1.trans k1.2.1, k2.2.2.trans k1.2.2⟩
      | ok q =>
        simp only []
        rcases h3 : (runHandlers env fuel q).run.run { s2 with status := .runningOnUpdateHandlers }
          with ⟨r3, s3⟩
        have k3 := (runHandlers_keeps env fuel q).of_run h3
        cases r3 with
        | error p3 => exact ⟨k3.2.1.trans (k2.2.1.trans k1.2.1), k3.2.2.trans (k2.2.2.trans k1.2.2)⟩
        | ok u' => exact ⟨k3.2.1.trans (k2.2.1.trans k1.2.1), k3.2.2.trans (k2.2.2.trans k1.2.2)⟩
  · rw [stabilise_refuses env fuel s h]
    exact ⟨rfl, rfl⟩

/-! ## example states (non-vacuity) -/

/-- map function 1 and handler 1 panic, everything else is harmless -/
def exEnv : Env :=
  { fn := fun _ vs => vs.headD .unit, fnEff := fun f _ => if f = 1 then [.panic] else [],
    foldStep := fun _ a _ => a, proj := fun _ v => v, withOld := fun _ σ _ v => (σ, v, true),
    cutoff := fun _ _ _ => false, body := fun _ _ => { instrs := [], ret := .abs 0 },
    handler := fun h _ => if h = 1 then [.panic] else [], expertFn := fun _ _ _ => .unit, withOldCalls := fun _ _ _ _ => [],
    memo := fun _ => { instrs := [], ret := .abs 0 }, perKey := fun _ => { instrs := [], ret := .abs 0 } }

/-- a fresh graph before its first stabilisation: var 0 (node 0, value 1), node 1 = map `f` of node 0,
a new observer 0 on node 1 with one subscription running handler `hid` -/
def exGraph (f hid : Nat) : State :=
  { State.init 4 true with
    nodes := #[{ kind := .var 0, createdIn := .top }, { kind := .map f [0], createdIn := .top }],
    vars := #[{ value := .int 1, setAt := 0, node := 0 }],
    observers := #[{ node := 1, handlers := [{ token := 0, hid := hid, createdAt := 0 }] }],
    newObservers := [0], nextToken := 1, top := #[0, 1],
    counters := { created := 2, activeObservers := 1 } }

/-- `Except` has no `DecidableEq`; compare panics through this -/
def panicOf {α} : Except Panic α → Option Panic
  | .error p => some p
  | .ok _ => none

theorem run_eq_error {α} {x : Except Panic α × State} {p : Panic} (h : panicOf x.1 = some p) :
    x = (.error p, x.2) := by
  rcases x with ⟨r, s⟩
  cases r with
  | error e => simp only [panicOf, Option.some.injEq] at h; rw [h]
  | ok a => simp [panicOf] at h

theorem run_eq_ok {x : Except Panic Unit × State} (h : panicOf x.1 = none) :
    x = (.ok (), x.2) := by
  rcases x with ⟨r, s⟩
  cases r with
  | error e => simp [panicOf] at h
  | ok a => rfl

/-- the closure of node 1 panics: poisoned in the propagation phase -/
def exPropPanic : State := ((stabilise exEnv 10).run.run (exGraph 1 0)).2
/-- the update handler panics: poisoned in the handler phase -/
def exHandlerPanic : State := ((stabilise exEnv 10).run.run (exGraph 0 1)).2

/-- release build, well-formed heap whose `lower_bound` (1) is above the only queued node (height 0) -/
def exReleaseHeap : State :=
  { State.init 2 false with
    nodes := #[{ kind := .const .unit, createdIn := .top, height := 0, heightInRch := 0,
                 observers := [0] }],
    rch := { queues := #[[0], [], []], length := 1, lowerBound := 1 } }

theorem exReleaseHeap_heapWF : HeapWF exReleaseHeap := by
  refine ⟨?_, ?_, ?_, ?_⟩
  · intro h hh n
    have hh' : h < 3 := hh
    match h, hh' with
    | 0, _ => rcases n with _ | n <;> simp [exReleaseHeap, State.nodeD, State.init] <;> omega
    | 1, _ => rcases n with _ | n <;> simp [exReleaseHeap, State.nodeD, State.init] <;> omega
    | 2, _ => rcases n with _ | n <;> simp [exReleaseHeap, State.nodeD, State.init] <;> omega
  · intro h hh
    have hh' : h < 3 := hh
    match h, hh' with
    | 0, _ => simp [exReleaseHeap]
    | 1, _ => simp [exReleaseHeap]
    | 2, _ => simp [exReleaseHeap]
  · rfl
  · intro n hn
    have hn' : n < 1 := hn
    match n, hn' with
    | 0, _ => simp [exReleaseHeap, State.nodeD, State.init]

/-- without debug assertions `HeapWF` alone does not make a returning drain complete: `remove_min`
scans from `lower_bound`, runs off the end (only a `debug_assert!` there) and reports "empty" -/
theorem release_drain_counterexample :
    HeapWF exReleaseHeap ∧ exReleaseHeap.cfg.debug = false ∧
      panicOf ((drainHeap exEnv 10).run.run exReleaseHeap).1 = none ∧
      ((drainHeap exEnv 10).run.run exReleaseHeap).2.rch.length = 1 :=
  ⟨exReleaseHeap_heapWF, rfl, by decide +kernel, by decide +kernel⟩

end IncrVerif.Proofs.Poison
