import IncrVerif.Proofs.Sched1
import IncrVerif.Proofs.Sched2
/-!
# One `recomputeOne` in the static fragment, as a relation between pre- and post-state
-/
namespace IncrVerif.Proofs.Sched
open IncrVerif.Engine IncrVerif.Proofs IncrVerif.Proofs.Step

/-! ## small tools -/

/-- loop rule for successful runs, with membership: a state predicate kept by every successful
iteration is kept by a successful loop -/
theorem forIn_ok_keep {α} (K : State → Prop) (f : α → PUnit → M (ForInStep PUnit)) (l : List α)
    (hkeep : ∀ b, b ∈ l → ∀ s r s', K s → (f b ⟨⟩).run.run s = (.ok r, s') → K s') :
    ∀ s r s', K s → (forIn l PUnit.unit f).run.run s = (.ok r, s') → K s' := by
  induction l with
  | nil => intro s r s' hk h; rw [List.forIn_nil, run_pure] at h; cases h; exact hk
  | cons a l ih =>
    intro s r s' hk h
    rw [List.forIn_cons] at h
    obtain ⟨x, s1, hx, hrest⟩ := bind_ok_inv h
    have hk1 := hkeep a (List.mem_cons_self ..) s x s1 hk hx
    cases x with
    | done b => simp only [run_pure] at hrest; cases hrest; exact hk1
    | yield b =>
      exact ih (fun b hb => hkeep b (List.mem_cons_of_mem _ hb)) s1 r s' hk1 hrest

/-- `child_changed` on a valid parent of a static kind does nothing -/
theorem childChanged_static {env : Env} {fuel p c ci : Nat} {o : Option Val} {t t' : State} {u : Unit}
    {pn : Node} (hp : t.nodes[p]? = some pn) (hv : pn.valid = true) (hk : StaticKind env pn.kind)
    (h : (childChanged env fuel p c ci o).run.run t = (.ok u, t')) : t' = t := by
  cases fuel with
  | zero => unfold childChanged at h; cases h
  | succ fuel =>
    unfold childChanged at h
    rw [run_bind_ok (run_getNode_some hp)] at h
    have hk? : pn.kind? = some pn.kind := by simp [Node.kind?, hv]
    rw [hk?] at h
    cases hkd : pn.kind <;> rw [hkd] at h hk
    case const => exact (pure_ok_inv h).2
    case var => exact (pure_ok_inv h).2
    case map => exact (pure_ok_inv h).2
    case fold => exact (pure_ok_inv h).2
    all_goals exact hk.elim

/-- the state after `handle_after_stabilisation n` has queued `n` -/
def hasMarked (n : Nat) (s : State) : State :=
  { s with nodes := s.nodes.modify n fun x => { x with inHandleAfterStab := true },
           handleAfterStab := s.handleAfterStab ++ [n] }

theorem mhas_cases {n : Nat} {s s' : State} {r : Except Panic Unit}
    (h : (maybeHandleAfterStabilisation n).run.run s = (r, s')) : s' = s ∨ s' = hasMarked n s := by
  unfold maybeHandleAfterStabilisation handleAfterStabilisation at h
  simp only [run_bind, run_getNode] at h
  cases hn : s.nodes[n]? with
  | none => rw [hn] at h; cases h; exact Or.inl rfl
  | some nd =>
    rw [hn] at h
    simp only [run_ite, run_pure, run_bind, run_getNode, hn, run_modNode, run_modify] at h
    split at h
    · split at h
      · cases h; exact Or.inr rfl
      · cases h; exact Or.inl rfl
    · cases h; exact Or.inl rfl

theorem hasMarked_heightInRch (n : Nat) (s : State) (m : Nat) :
    ((hasMarked n s).nodeD m).heightInRch = (s.nodeD m).heightInRch := by
  show (({ s with nodes := s.nodes.modify n _ } : State).nodeD m).heightInRch = _
  rw [nodeD_modify]; split <;> rfl

/-- `parent_iter_can_recompute_now` on a valid, not queued parent of a static kind: either "yes"
(a map with at most one argument, or not above the heap's minimum), or the parent is queued -/
theorem picrn_static {env : Env} {p child : Nat} {t t' : State} {b : Bool} {pn : Node}
    (hp : t.nodes[p]? = some pn) (hv : pn.valid = true) (hk : StaticKind env pn.kind)
    (h : (parentIterCanRecomputeNow p child).run.run t = (.ok b, t')) :
    (b = true ∧ t' = withMinHeight t ∧
      ((∃ f args, pn.kind = .map f args ∧ args.length ≤ 1) ∨ pn.height ≤ minHeightOf t)) ∨
    (b = false ∧ 0 ≤ pn.height ∧ pn.height ≤ (withMinHeight t).rch.maxAllowed ∧
      t' = inserted p pn.height (withMinHeight t)) := by
  rw [picrn_run, hp] at h
  have hk? : pn.kind? = some pn.kind := by simp [Node.kind?, hv]
  simp only [hk?] at h
  cases hc : t.nodes[child]? with
  | none => rw [hc] at h; cases h
  | some cn =>
    rw [hc] at h
    dsimp only at h
    cases hcan : canRecomputeNow t pn pn.kind cn.height (minHeightOf t) with
    | error e => rw [hcan] at h; cases h
    | ok can =>
      rw [hcan] at h
      dsimp only at h
      split at h
      · rename_i hyes
        cases h
        refine Or.inl ⟨rfl, rfl, ?_⟩
        rw [Bool.or_eq_true] at hyes
        rcases hyes with hyes | hyes
        · left
          subst hyes
          cases hkd : pn.kind <;> rw [hkd] at hcan hk <;> simp only [canRecomputeNow] at hcan
          case const => cases hcan
          case var => cases hcan
          case fold => cases hcan
          case map f args =>
            refine ⟨f, args, rfl, ?_⟩
            split at hcan
            · cases hcan
            · omega
          all_goals exact hk.elim
        · right; simpa using hyes
      split at h
      · cases h
      split at h
      · cases h
      rcases hi : (rchInsert p).run.run (withMinHeight t) with ⟨_ | u, s2⟩
      · rw [hi] at h; cases h
      · rw [hi] at h
        cases h
        obtain ⟨nd, hnd, h0, hmax, rfl⟩ := rchInsert_ok_inv hi
        have : nd = pn := by
          have e : (withMinHeight t).nodes[p]? = t.nodes[p]? := rfl
          rw [e, hp] at hnd; cases hnd; rfl
        subst this
        exact Or.inr ⟨rfl, h0, hmax, rfl⟩

/-! ## the notification walk keeps the heap invariant -/

theorem HeapInv.quiet_same {t t' : State} (h : HeapInv t) (q : Quiet t t') (hr : t'.rch = t.rch)
    (hh : ∀ m, (t'.nodeD m).heightInRch = (t.nodeD m).heightInRch) : HeapInv t' :=
  h.congr hr q.size fun m => ⟨hh m, (q.node m).height, (q.node m).isNecessary⟩

/-- the state predicate carried through the notification part of `maybe_change_value_manual`:
only notification work since `T`, heap invariant, only nodes of `P` newly queued -/
structure KInv (T : State) (P : List Nat) (t : State) : Prop where
  q : Quiet T t
  heap : HeapInv t
  only : ∀ m, (t.nodeD m).inRch = true → (T.nodeD m).inRch = true ∨ m ∈ P
  qsize : t.rch.queues.size = T.rch.queues.size

/-- what is needed of a parent that gets notified -/
structure ParentOK (env : Env) (T : State) (p : Nat) : Prop where
  lt : p < T.nodes.size
  valid : (T.nodeD p).valid = true
  kind : StaticKind env (T.nodeD p).kind
  nec : T.isNecessary p = true

theorem ParentOK.quiet {env : Env} {T t : State} {p : Nat} (h : ParentOK env T p) (q : Quiet T t) :
    ParentOK env t p :=
  ⟨by rw [q.size]; exact h.lt, by rw [(q.node p).valid]; exact h.valid,
   by rw [(q.node p).kind]; exact h.kind,
   by have := (q.node p).isNecessary; unfold State.isNecessary; rw [this]; exact h.nec⟩

theorem KInv.refl {T : State} (P : List Nat) (h : HeapInv T) : KInv T P T :=
  ⟨Quiet.refl T, h, fun _ hm => Or.inl hm, rfl⟩

theorem KInv.mhas {T t t' : State} {P : List Nat} {n : Nat} {r : Except Panic Unit} (k : KInv T P t)
    (h : (maybeHandleAfterStabilisation n).run.run t = (r, t')) : KInv T P t' := by
  have q : Quiet t t' := (Step.Pres.maybeHandleAfterStabilisation n).h _ _ _ h
  rcases mhas_cases h with rfl | rfl
  · exact k
  · refine ⟨k.q.trans q, k.heap.quiet_same q rfl (hasMarked_heightInRch n t), fun m hm => ?_, k.qsize⟩
    apply k.only m
    unfold Node.inRch at hm ⊢
    rw [hasMarked_heightInRch] at hm
    exact hm

theorem KInv.inserted {env : Env} {T t : State} {P : List Nat} {p : Nat} {na : Node} (k : KInv T P t)
    (hp : ParentOK env T p) (hmem : p ∈ P) (hna : t.nodes[p]? = some na) (hnot : na.inRch = false)
    (h0 : 0 ≤ na.height) (hmax : na.height ≤ t.rch.maxAllowed) :
    KInv T P (inserted p na.height t) := by
  refine ⟨k.q.trans (Quiet.inserted p na.height t h0),
    k.heap.inserted hna hnot h0 hmax (hp.quiet k.q).nec, fun m hm => ?_, ?_⟩
  rotate_left
  · show (t.rch.queues.modify na.height.toNat (· ++ [p])).size = T.rch.queues.size
    rw [Array.size_modify]; exact k.qsize
  rcases (inserted_inRch p na.height t (lt_of_some hna) h0 m).1 hm with rfl | hm
  · exact Or.inr hmem
  · exact k.only m hm

theorem KInv.withMinHeight {T t : State} {P : List Nat} (k : KInv T P t) :
    KInv T P (withMinHeight t) :=
  ⟨k.q.trans (Quiet.of_eq rfl rfl rfl rfl rfl rfl rfl rfl rfl), k.heap.withMinHeight,
   fun m hm => k.only m hm, k.qsize⟩

/-- the notification part of a propagating `maybe_change_value_manual`, in terms of the state `T` in
which it starts (value stored, `changedAt` stamped): heap invariant kept, only parents queued, and
the handed-over parent is not queued and a one-argument map or not above the heap's minimum -/
theorem mcvm_heap {env : Env} {fuel n : Nat} {o : Option Val} {T0 s' : State} {r : Option Nat}
    (hi : HeapInv (touched n T0))
    (hpar : ∀ p, p ∈ ((touched n T0).nodeD n).parents.map (·.1) → ParentOK env (touched n T0) p)
    (h : (maybeChangeValueManual env fuel n o true true).run.run T0 = (.ok r, s')) :
    KInv (touched n T0) (((touched n T0).nodeD n).parents.map (·.1)) s' ∧
    ∀ p, r = some p → p ∈ ((touched n T0).nodeD n).parents.map (·.1) ∧
      (s'.nodeD p).inRch = false ∧
      ((∃ f args, ((touched n T0).nodeD p).kind = .map f args ∧ args.length ≤ 1) ∨
        ∀ m, (s'.nodeD m).inRch = true →
          ((touched n T0).nodeD p).height ≤ ((touched n T0).nodeD m).height) := by
  generalize hT : touched n T0 = T at hi hpar ⊢
  generalize hP : (T.nodeD n).parents.map (·.1) = P at hpar ⊢
  unfold maybeChangeValueManual at h
  simp only [Bool.not_true, Bool.false_eq_true, if_false, if_true, run_bind_get, run_bind_modNode,
    run_bind_bumpCounter] at h
  obtain ⟨u, s1, h1, h2⟩ := bind_ok_inv h
  have h1' : (maybeHandleAfterStabilisation n).run.run T = (.ok u, s1) := by rw [← hT]; exact h1
  have k1 : KInv T P s1 := (KInv.refl P hi).mhas h1'
  obtain ⟨nd1, s1', hg, h3⟩ := bind_ok_inv h2
  obtain ⟨rfl, hnd1⟩ := getNode_ok_inv hg
  have hpar1 : nd1.parents = (T.nodeD n).parents := by
    have := (k1.q.node n).parents
    rw [nodeD_of_some hnd1] at this
    exact this
  rw [hpar1] at h3
  rcases hps : (T.nodeD n).parents with _ | ⟨⟨p0, ci0⟩, rest⟩
  · rw [hps] at h3
    obtain ⟨rfl, rfl⟩ := pure_ok_inv h3
    exact ⟨k1, fun p hp => by cases hp⟩
  rw [hps] at h3 hP
  dsimp only at h3
  obtain ⟨u2, s2, hloop, hlast⟩ := bind_ok_inv h3
  have hmem0 : p0 ∈ P := by rw [← hP]; simp
  have hmemr : ∀ a, a ∈ rest → a.1 ∈ P := by
    intro a ha; rw [← hP]; exact List.mem_cons_of_mem _ (List.mem_map_of_mem ha)
  -- the loop over the other parents
  have k2 : KInv T P s2 := by
    refine forIn_ok_keep (KInv T P) _ rest ?_ s1' _ s2 k1 hloop
    intro a ha t r t' k hb
    obtain ⟨p, ci⟩ := a
    have hpT := hpar p (hmemr _ ha)
    have hpt := hpT.quiet k.q
    obtain ⟨_, t1, hcc, hb1⟩ := bind_ok_inv hb
    have hpn := some_of_lt hpt.lt
    obtain rfl := childChanged_static hpn hpt.valid hpt.kind hcc
    rw [run_bind_get] at hb1
    obtain ⟨na, hna, hb4⟩ := bind_getNode_inv (bind_dassert_inv hb1)
    split at hb4
    · rename_i hin
      obtain ⟨_, t5, hins, hb5⟩ := bind_ok_inv hb4
      obtain ⟨rfl, rfl⟩ := pure_ok_inv hb5
      obtain ⟨nd, hnd, h0, hmax, rfl⟩ := rchInsert_ok_inv hins
      rw [hna] at hnd; cases hnd
      exact k.inserted hpT (hmemr _ ha) hna (by simpa using hin) h0 hmax
    · obtain ⟨rfl, rfl⟩ := pure_ok_inv hb4
      exact k
  -- the first parent
  have hp0T := hpar p0 hmem0
  have hp0 := hp0T.quiet k2.q
  obtain ⟨_, s3, hcc, hl1⟩ := bind_ok_inv hlast
  have hpn0 := some_of_lt hp0.lt
  obtain rfl := childChanged_static hpn0 hp0.valid hp0.kind hcc
  rw [run_bind_get] at hl1
  obtain ⟨nd0, hnd0, hl4⟩ := bind_getNode_inv (bind_dassert_inv hl1)
  have e0 : s3.nodeD p0 = nd0 := nodeD_of_some hnd0
  split at hl4
  · rename_i hin
    have hnot : nd0.inRch = false := by simpa using hin
    obtain ⟨b, s4, hpi, hl5⟩ := bind_ok_inv hl4
    have hv0 : nd0.valid = true := by rw [← e0]; exact hp0.valid
    have hk0 : StaticKind env nd0.kind := by rw [← e0]; exact hp0.kind
    rcases picrn_static hnd0 hv0 hk0 hpi with ⟨rfl, rfl, hyes⟩ | ⟨rfl, h0, hmax, rfl⟩
    · simp only [if_true] at hl5
      obtain ⟨rfl, rfl⟩ := pure_ok_inv hl5
      refine ⟨k2.withMinHeight, fun p hp => ?_⟩
      cases hp
      refine ⟨hmem0, ?_, ?_⟩
      · show (s3.nodeD p0).inRch = false
        rw [e0]; exact hnot
      · rcases hyes with ⟨f, args, hk, hl⟩ | hle
        · left
          refine ⟨f, args, ?_, hl⟩
          rw [← (k2.q.node p0).kind, e0]; exact hk
        · right
          intro m hm
          have hm' : (s3.nodeD m).inRch = true := hm
          have := minHeightOf_le k2.heap hm'
          rw [← (k2.q.node p0).height, ← (k2.q.node m).height, e0]
          omega
    · simp only [Bool.false_eq_true, if_false] at hl5
      obtain ⟨rfl, rfl⟩ := pure_ok_inv hl5
      refine ⟨k2.withMinHeight.inserted hp0T hmem0 (by exact hnd0) hnot h0 hmax,
        fun p hp => by cases hp⟩
  · obtain ⟨rfl, rfl⟩ := pure_ok_inv hl4
    exact ⟨k2, fun p hp => by cases hp⟩

/-! ## states that differ from `s` only in non-structural, non-heap fields of node `n` -/

/-- `S` is `s` up to the log, counters, `currentlyRunning`, and `value`/stamps of node `n` -/
structure Upd (n : Nat) (s S : State) : Prop where
  size : S.nodes.size = s.nodes.size
  vars : S.vars = s.vars
  stabNum : S.stabNum = s.stabNum
  pc : S.panicCountdown = none
  rch : S.rch = s.rch
  other : ∀ m, m ≠ n → S.nodeD m = s.nodeD m
  shape : SameShape (s.nodeD n) (S.nodeD n)
  hrch : (S.nodeD n).heightInRch = (s.nodeD n).heightInRch

theorem Upd.shapeAll {n : Nat} {s S : State} (h : Upd n s S) (m : Nat) :
    SameShape (s.nodeD m) (S.nodeD m) := by
  by_cases hm : m = n
  · subst hm; exact h.shape
  · rw [h.other m hm]; exact SameShape.refl _

theorem Upd.hrchAll {n : Nat} {s S : State} (h : Upd n s S) (m : Nat) :
    (S.nodeD m).heightInRch = (s.nodeD m).heightInRch := by
  by_cases hm : m = n
  · subst hm; exact h.hrch
  · rw [h.other m hm]

theorem Upd.inRch {n : Nat} {s S : State} (h : Upd n s S) (m : Nat) :
    (S.nodeD m).inRch = (s.nodeD m).inRch := by
  unfold Node.inRch; rw [h.hrchAll m]

theorem Upd.nec {n : Nat} {s S : State} (h : Upd n s S) (m : Nat) :
    S.isNecessary m = s.isNecessary m := (h.shapeAll m).isNecessary

theorem Upd.heap {n : Nat} {s S : State} (h : Upd n s S) (hi : HeapInv s) : HeapInv S :=
  hi.congr h.rch h.size fun m => ⟨h.hrchAll m, (h.shapeAll m).height, h.nec m⟩

theorem Upd.started (n : Nat) (s : State) (hpc : s.panicCountdown = none) : Upd n s (started n s) := by
  refine ⟨by simp [Step.started], rfl, rfl, hpc, rfl, fun m hm => ?_, ?_, ?_⟩
  · rw [started_nodeD, if_neg (fun h => hm h.1.symm)]
  · rw [started_nodeD]; split
    · exact ⟨rfl, rfl, rfl, rfl, rfl, rfl, rfl, rfl⟩
    · exact SameShape.refl _
  · rw [started_nodeD]; split <;> rfl

theorem Upd.logged {n : Nat} {s S : State} (h : Upd n s S) (es : List Event) :
    Upd n s (logged es S) :=
  ⟨h.size, h.vars, h.stabNum, h.pc, h.rch, h.other, h.shape, h.hrch⟩

theorem Upd.setValue {n : Nat} {s S : State} (h : Upd n s S) (v : Option Val) :
    Upd n s (setValue n v S) := by
  refine ⟨by rw [← h.size]; simp [Step.setValue], h.vars, h.stabNum, h.pc, h.rch, fun m hm => ?_, ?_, ?_⟩
  · rw [setValue_nodeD, if_neg (fun h => hm h.1.symm)]; exact h.other m hm
  · rw [setValue_nodeD]; split
    · exact h.shape.trans ⟨rfl, rfl, rfl, rfl, rfl, rfl, rfl, rfl⟩
    · exact h.shape
  · rw [setValue_nodeD]; split <;> exact h.hrch

theorem Upd.touched {n : Nat} {s S : State} (h : Upd n s S) : Upd n s (touched n S) := by
  refine ⟨by rw [← h.size]; simp [Step.touched], h.vars, h.stabNum, h.pc, h.rch, fun m hm => ?_, ?_, ?_⟩
  · rw [touched_nodeD, if_neg (fun h => hm h.1.symm)]; exact h.other m hm
  · rw [touched_nodeD]; split
    · exact h.shape.trans ⟨rfl, rfl, rfl, rfl, rfl, rfl, rfl, rfl⟩
    · exact h.shape
  · rw [touched_nodeD]; split <;> exact h.hrch

/-- the cutoffs of the static fragment: no log, and "no change" only for an equal old value -/
theorem mcvChanges_static (env : Env) (S : State) (n : Nat) (v : Val)
    (hc : (S.nodeD n).cutoff = .eq ∨ (S.nodeD n).cutoff = .never) :
    mcvChanges env S n v = some true ∨
      (mcvChanges env S n v = some false ∧ (S.nodeD n).value = some v) := by
  unfold mcvChanges cutoffVerdict
  cases hv : (S.nodeD n).value with
  | none => exact Or.inl rfl
  | some old =>
    rcases hc with hc | hc <;> rw [hc]
    · by_cases e : old = v
      · subst e; right; simp
      · left; simp [e]
    · left; rfl

/-- assembling `StepRel` from a state `X` of the `Upd` family and notification work after it -/
theorem stepRel_of_quiet {n : Nat} {v : Val} {ch : Bool} {r : Option Nat} {s X s' : State}
    (hU : Upd n s X) (q : Quiet X s')
    (hv : (X.nodeD n).value = some v) (hr : (X.nodeD n).recomputedAt = s.stabNum)
    (hc : (X.nodeD n).changedAt = if ch = true then s.stabNum else (s.nodeD n).changedAt)
    (unch : ch = false → (s.nodeD n).value = some v ∧ r = none)
    (heap : HeapInv s') (hqs : s'.rch.queues.size = X.rch.queues.size)
    (newIn : ∀ m, (s'.nodeD m).inRch = true →
      (X.nodeD m).inRch = true ∨ (ch = true ∧ m ∈ (s.nodeD n).parents.map (·.1)))
    (parentsIn : ch = true → ∀ p, p ∈ (s.nodeD n).parents.map (·.1) →
      (s'.nodeD p).inRch = true ∨ r = some p)
    (ret : ∀ p, r = some p → ch = true ∧ p ∈ (s.nodeD n).parents.map (·.1) ∧
      (s'.nodeD p).inRch = false ∧
      ((∃ f args, (X.nodeD p).kind = .map f args ∧ args.length ≤ 1) ∨
        ∀ m, (s'.nodeD m).inRch = true → (X.nodeD p).height ≤ (X.nodeD m).height)) :
    StepRel n v ch r s s' where
  size := q.size.trans hU.size
  vars := q.vars.trans hU.vars
  stabNum := q.stabNum.trans hU.stabNum
  pc := q.pc hU.pc
  qsize := by rw [hqs, hU.rch]
  other m hm := by have := q.node m; rw [hU.other m hm] at this; exact this
  shape := hU.shape.trans (SameShape.of_nodeSame (q.node n))
  value := (q.node n).value.trans hv
  recomputedAt := (q.node n).recomputedAt.trans hr
  changedAt := (q.node n).changedAt.trans hc
  unch := unch
  heap := heap
  newIn m hm := by
    rcases newIn m hm with h | h
    · left; rw [← hU.inRch m]; exact h
    · exact Or.inr h
  parentsIn := parentsIn
  ret p hp := by
    obtain ⟨h1, h2, h3, h4⟩ := ret p hp
    refine ⟨h1, h2, h3, ?_⟩
    rcases h4 with ⟨f, args, hk, hl⟩ | h4
    · left; exact ⟨f, args, by rw [← (hU.shapeAll p).kind]; exact hk, hl⟩
    · right
      intro m hm
      have := h4 m hm
      rw [(hU.shapeAll p).height, (hU.shapeAll m).height] at this
      exact this

/-! ## `maybe_change_value` in the static fragment -/

/-- the common part: `maybe_change_value n v` run in a state `S0` that is `s` with `n`'s
`recomputedAt` stamped (and log/counters moved) -/
theorem mcv_static {env : Env} {fuel n : Nat} {v : Val} {s S0 s' : State} {r : Option Nat}
    (g : Graph env s) (hi : HeapInv s) (hn : s.isNecessary n = true)
    (hU : Upd n s S0) (hval : (S0.nodeD n).value = (s.nodeD n).value)
    (hrec : (S0.nodeD n).recomputedAt = s.stabNum)
    (hch : (S0.nodeD n).changedAt = (s.nodeD n).changedAt)
    (h : (maybeChangeValue env fuel n v).run.run S0 = (.ok r, s')) :
    ∃ ch, StepRel n v ch r s s' := by
  obtain ⟨hlt, _, _, hcut, _⟩ := g.nec n hn
  have hlt0 : n < S0.nodes.size := by rw [hU.size]; exact hlt
  have hn0 := some_of_lt hlt0
  have hcut0 : (S0.nodeD n).cutoff = .eq ∨ (S0.nodeD n).cutoff = .never := by
    rw [hU.shape.cutoff]; exact hcut
  -- the state with the new value stored
  generalize hW : setValue n (some v) (logged (mcvLog env S0 n v) S0) = W
  have hUW : Upd n s W := by rw [← hW]; exact (hU.logged _).setValue _
  have eW : W.nodeD n = { S0.nodeD n with value := some v } := by
    rw [← hW, setValue_nodeD, if_pos ⟨rfl, hlt0⟩]; rfl
  rcases mcvChanges_static env S0 n v hcut0 with hd | ⟨hd, hold⟩
  · -- propagate
    rw [mcv_run' env fuel n v S0 _ hn0 hU.pc, hd] at h
    dsimp only at h
    rw [hW] at h
    have hltW : n < W.nodes.size := by rw [hUW.size]; exact hlt
    have q : Quiet (touched n W) s' := mcvm_true_quiet _ _ _ _ _ _ _ _ h
    have hUT : Upd n s (touched n W) := hUW.touched
    have eT : (touched n W).nodeD n = { W.nodeD n with changedAt := W.stabNum } := by
      rw [touched_nodeD, if_pos ⟨rfl, hltW⟩]
    have hparT : ((touched n W).nodeD n).parents = (s.nodeD n).parents := hUT.shape.parents
    have hpar : ∀ p, p ∈ ((touched n W).nodeD n).parents.map (·.1) →
        ParentOK env (touched n W) p := by
      intro p hp
      rw [hparT] at hp
      obtain ⟨⟨p', ci⟩, hmem, rfl⟩ := List.mem_map.1 hp
      have hpn := (g.parent n p' ci hmem).1
      obtain ⟨h1, h2, h3, _, _⟩ := g.nec p' hpn
      have sh := hUT.shapeAll p'
      exact ⟨by rw [hUT.size]; exact h1, by rw [sh.valid]; exact h2, by rw [sh.kind]; exact h3,
        by rw [hUT.nec]; exact hpn⟩
    obtain ⟨k, hret⟩ := mcvm_heap (hUT.heap hi) hpar h
    have hpin := mcvm_parents env fuel n _ W s' r _ (some_of_lt hltW) h
    have hparW : (W.nodeD n).parents = (s.nodeD n).parents := hUW.shape.parents
    refine ⟨true, stepRel_of_quiet hUT q ?_ ?_ ?_ (fun hc => by cases hc) k.heap k.qsize ?_ ?_ ?_⟩
    · rw [eT, eW]
    · rw [eT, eW]; exact hrec
    · rw [eT, if_pos rfl]; exact hUW.stabNum
    · intro m hm
      rcases k.only m hm with h1 | h1
      · exact Or.inl h1
      · rw [hparT] at h1; exact Or.inr ⟨rfl, h1⟩
    · intro _ p hp
      rw [← hparW] at hp
      rcases hpin p hp with h1 | h1
      · exact Or.inl h1.2
      · exact Or.inr h1.2.1
    · intro p hp
      obtain ⟨h1, h2, h3⟩ := hret p hp
      rw [hparT] at h1
      exact ⟨rfl, h1, h2, h3⟩
  · -- suppress
    rw [mcv_suppress env fuel n v S0 _ hn0 hU.pc hd, hW] at h
    cases h
    refine ⟨false, stepRel_of_quiet hUW (Quiet.refl _) ?_ ?_ ?_ (fun _ => ⟨?_, rfl⟩)
      (hUW.heap hi) rfl (fun m hm => Or.inl hm) (fun hc => by cases hc) (fun p hp => by cases hp)⟩
    · rw [eW]
    · rw [eW]; exact hrec
    · rw [eW, if_neg (by simp)]; exact hch
    · rw [← hval]; exact hold

/-! ## the theorem -/

/-- a successful `recomputeOne` on a necessary node of a static graph whose children all have values:
it stores the target value `v` of the node's defining expression and is described by `StepRel` -/
theorem recomputeOne_static {env : Env} {fuel n : Nat} {s s' : State} {r : Option Nat}
    (g : Graph env s) (hi : HeapInv s) (hn : s.isNecessary n = true)
    (hvals : ∃ vals, plainVals s (kids (s.nodeD n).kind) = some vals)
    (h : (recomputeOne env fuel n).run.run s = (.ok r, s')) :
    ∃ v ch, Target env s n v ∧ StepRel n v ch r s s' := by
  obtain ⟨hlt, hv, hk, _, _⟩ := g.nec n hn
  have hnn := some_of_lt hlt
  have hU := Upd.started n s g.pc
  have e1 : ((started n s).nodeD n).value = (s.nodeD n).value := by
    rw [started_nodeD]; split <;> rfl
  have e2 : ((started n s).nodeD n).recomputedAt = s.stabNum := by
    rw [started_nodeD, if_pos ⟨rfl, hlt⟩]
  have e3 : ((started n s).nodeD n).changedAt = (s.nodeD n).changedAt := by
    rw [started_nodeD]; split <;> rfl
  obtain ⟨vals, hvals⟩ := hvals
  have hvo := g.valuesOf hn
  rw [hvals] at hvo
  cases hkd : (s.nodeD n).kind with
  | const w =>
    rw [recomputeOne_const_run env fuel n s _ w hnn hv hkd] at h
    obtain ⟨ch, hs⟩ := mcv_static g hi hn hU e1 e2 e3 h
    exact ⟨w, ch, by simp only [Target, hkd], hs⟩
  | var c =>
    obtain ⟨vc, hvc⟩ := g.var n c hn hkd
    rw [recomputeOne_var_run env fuel n s _ c vc hnn hv hkd hvc] at h
    obtain ⟨ch, hs⟩ := mcv_static g hi hn hU e1 e2 e3 h
    exact ⟨vc.value, ch, by simp only [Target, hkd]; exact ⟨vc, hvc, rfl⟩, hs⟩
  | map f args =>
    rw [hkd] at hk hvals hvo
    have ht : Target env s n (env.fn f vals) := by
      simp only [Target, hkd]; exact ⟨vals, hvals, rfl⟩
    by_cases hf : f < fnZip
    · rw [recomputeOne_map_run env fuel n s _ f args vals hnn hv hkd hf hvo (hk.2 hf vals) g.pc] at h
      obtain ⟨ch, hs⟩ := mcv_static g hi hn (hU.logged _) e1 e2 e3 h
      exact ⟨_, ch, ht, hs⟩
    · rw [recomputeOne_mapBuiltin_run env fuel n s _ f args vals hnn hv hkd hf hk.1 hvo] at h
      obtain ⟨ch, hs⟩ := mcv_static g hi hn hU e1 e2 e3 h
      exact ⟨_, ch, ht, hs⟩
  | fold f init cs =>
    rw [hkd] at hvals hvo
    have ht : Target env s n (vals.foldl (env.foldStep f) init) := by
      simp only [Target, hkd]; exact ⟨vals, hvals, rfl⟩
    rw [recomputeOne_fold_run env fuel n s _ f init cs vals hnn hv hkd hvo g.pc] at h
    obtain ⟨ch, hs⟩ := mcv_static g hi hn (hU.logged _) e1 e2 e3 h
    exact ⟨_, ch, ht, hs⟩
  | mapRef _ _ => rw [hkd] at hk; exact hk.elim
  | mapWithOld _ _ => rw [hkd] at hk; exact hk.elim
  | bindLhsChange _ => rw [hkd] at hk; exact hk.elim
  | bindMain _ _ => rw [hkd] at hk; exact hk.elim
  | expert _ => rw [hkd] at hk; exact hk.elim

end IncrVerif.Proofs.Sched
