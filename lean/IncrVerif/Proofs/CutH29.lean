import IncrVerif.Proofs.CutH4
-- Port of Proofs/Sched10.lean to ARBITRARY cutoffs (scratch name T10); overview in Props/C06History.lean
/-!
# Safety of the drain for ARBITRARY cutoffs: `Safe`, and the primitives of the notification walk

Port of `Proofs/Sched10.lean`.  The total-correctness calculus `Runs`, `bind_err_inv`, `childChanged_runs`,
`rchInsert_safe_run`, `ParentSafe` are re-used from `Sched` (they do not mention a shadowed definition).
New: `Safe` has the extra clause `dep` (the input of a `dependOn` cutoff exists), without which
`should_cutoff` panics at a `model:` site.
-/
namespace IncrVerif.Proofs.CutH
open IncrVerif.Engine IncrVerif.Proofs IncrVerif.Proofs.Step IncrVerif.Proofs.Sched

structure Safe (s : State) : Prop where
  height : ∀ n, s.isNecessary n = true → (s.nodeD n).height ≤ s.rch.maxAllowed
  scope : ∀ n, s.isNecessary n = true → (s.nodeD n).createdIn = .top
  /-- the input of a `dependOn` cutoff exists -/
  dep : ∀ m i, (s.nodeD m).cutoff = .dependOn i → i < s.nodes.size

/-- `Safe` only depends on the graph, the number of nodes and the number of buckets -/
theorem Safe.transfer {s s' : State} (S : Safe s) (hsh : ∀ m, SameShape (s.nodeD m) (s'.nodeD m))
    (hq : s'.rch.queues.size = s.rch.queues.size) (hsz : s'.nodes.size = s.nodes.size) : Safe s' := by
  refine ⟨fun n hn => ?_, fun n hn => ?_, fun m i h => ?_⟩
  · rw [isNecessary_of_shape hsh] at hn
    rw [(hsh n).height, maxAllowed_congr hq]; exact S.height n hn
  · rw [isNecessary_of_shape hsh] at hn
    rw [(hsh n).createdIn]; exact S.scope n hn
  · rw [(hsh m).cutoff] at h
    rw [hsz]; exact S.dep m i h

theorem Safe.frame {s s' : State} (S : Safe s) (f : Frame s s') : Safe s' :=
  S.transfer f.shape f.qsize f.size

theorem KInv.maxAllowed {T t : State} {P : List Nat} (k : KInv T P t) :
    t.rch.maxAllowed = T.rch.maxAllowed := maxAllowed_congr k.qsize

/-- `insert p` for a not yet queued parent `p`, during the walk -/
theorem KInv.insert_run {env : Env} {T t : State} {P : List Nat} {n p : Nat} {nd : Node}
    (k : KInv T P t) (hp : ParentSafe env T n p) (hmem : p ∈ P) (hnd : t.nodes[p]? = some nd)
    (hnot : nd.inRch = false) :
    (rchInsert p).run.run t = (.ok (), IncrVerif.Proofs.inserted p nd.height t) ∧
      KInv T P (IncrVerif.Proofs.inserted p nd.height t) := by
  have e : t.nodeD p = nd := nodeD_of_some hnd
  have hh : nd.height = (T.nodeD p).height := by rw [← e]; exact (k.q.node p).height
  have h0 : 0 ≤ nd.height := by rw [hh]; exact hp.h0
  have hmax : nd.height ≤ t.rch.maxAllowed := by rw [hh, k.maxAllowed]; exact hp.hmax
  exact ⟨rchInsert_safe_run hnd hnot (hp.needs k.q) h0 hmax, k.inserted hp.ok hmem hnd hnot h0 hmax⟩

/-- `parent_iter_can_recompute_now p0 n` for a not queued parent `p0` of `n`, during the walk: no
assertion fails, no lookup fails -/
theorem KInv.picrn_run {env : Env} {T t : State} {P : List Nat} {n p0 : Nat} {pn : Node}
    (k : KInv T P t) (hp : ParentSafe env T n p0) (hmem : p0 ∈ P) (hn : n < T.nodes.size)
    (hpn : t.nodes[p0]? = some pn) (hnot : pn.inRch = false) :
    ∃ b t', (parentIterCanRecomputeNow p0 n).run.run t = (.ok b, t') ∧ KInv T P t' := by
  have e : t.nodeD p0 = pn := nodeD_of_some hpn
  have ok := hp.ok.quiet k.q
  have hv : pn.valid = true := by rw [← e]; exact ok.valid
  have hk? : pn.kind? = some pn.kind := by simp [Node.kind?, hv]
  have hkind : pn.kind = (T.nodeD p0).kind := by rw [← e]; exact (k.q.node p0).kind
  have hscope : pn.createdIn = .top := by rw [← e, (k.q.node p0).createdIn]; exact hp.scope
  have hnt : n < t.nodes.size := by rw [k.q.size]; exact hn
  have hchild : n ∈ kids pn.kind := by rw [hkind]; exact hp.child
  have hcan : ∃ can, canRecomputeNow t pn pn.kind (t.nodeD n).height (minHeightOf t) = .ok can := by
    have hst : StaticKind env pn.kind := by rw [hkind]; exact hp.ok.kind
    cases hkd : pn.kind <;> rw [hkd] at hchild hst
    case const => cases hchild
    case var => cases hchild
    case fold => exact ⟨_, rfl⟩
    case map f args =>
      simp only [canRecomputeNow]
      split
      · exact ⟨_, rfl⟩
      · rw [hscope]; exact ⟨_, rfl⟩
    all_goals exact hst.elim
  obtain ⟨can, hcan⟩ := hcan
  rw [Step.picrn_run, hpn]
  simp only [hk?, some_of_lt hnt, hcan]
  by_cases h1 : (can || decide (pn.height ≤ minHeightOf t)) = true
  · rw [if_pos h1]; exact ⟨_, _, rfl, k.withMinHeight⟩
  rw [if_neg h1]
  have k' := k.withMinHeight
  have hneeds : t.needsToBeComputed p0 = true := hp.needs k.q
  rw [if_neg (by rintro ⟨-, h⟩; rw [hneeds] at h; cases h),
    if_neg (by rintro ⟨-, h⟩; rw [hnot] at h; cases h)]
  obtain ⟨hrun, k''⟩ := k'.insert_run hp hmem (show (Step.withMinHeight t).nodes[p0]? = some pn from hpn) hnot
  rw [hrun]
  exact ⟨_, _, rfl, k''⟩

end IncrVerif.Proofs.CutH
