import IncrVerif.Proofs.ExpertH42
import IncrVerif.Proofs.ExpertH31
import IncrVerif.Proofs.ExpertH33
import IncrVerif.Proofs.ExpertH21
/-!
# Expert fragment: the API actions of the static part keep the invariant `QInvX`
-/
namespace IncrVerif.Proofs.ExpertH
open IncrVerif.Engine IncrVerif.Driver IncrVerif.Proofs IncrVerif.Proofs.Step IncrVerif.Proofs.Sched
open IncrVerif.Proofs.ExpertH.QR

/-- creation instructions of the static part of the fragment (the fold id must stay below `xBase`) -/
def XStaticInstr (env : Env) : Instr → Prop
  | .fold f init cs => f < xBase ∧ QR.StaticInstr env (.fold f init cs)
  | i => QR.StaticInstr env i

/-- the API actions of the static part of the fragment, all but `stabilise` -/
def XStaticAction (env : Env) : Action → Prop
  | .create i => XStaticInstr env i
  | .stabilise => False
  | a => QR.StaticAction env a

theorem XStaticInstr.static {env : Env} {i : Instr} (h : XStaticInstr env i) : QR.StaticInstr env i := by
  cases i <;> first | exact h.2 | exact h

theorem staticInstr_virt {env : Env} {i : Instr} (h : QR.StaticInstr env i) : QR.StaticInstr (virtEnv env) i := by
  cases i <;> exact h

theorem XStaticInstr.xinstr {env : Env} {i : Instr} (h : XStaticInstr env i) : XInstr i := by
  have h := h.static
  cases i <;> first | trivial | exact h.elim

theorem XStaticAction.static {env : Env} {a : Action} (h : XStaticAction env a) : QR.StaticAction env a := by
  cases a <;> first | exact XStaticInstr.static h | exact h | exact h.elim

theorem XStaticAction.virt {env : Env} {a : Action} (h : XStaticAction env a) :
    QR.StaticAction (virtEnv env) a := by
  have h' := h.static
  cases a <;> first | exact staticInstr_virt h' | exact h'

theorem XStaticAction.xaction {env : Env} {a : Action} (h : XStaticAction env a) : XAction a := by
  have h' := h.static
  cases a <;> first | exact XStaticInstr.xinstr h | trivial | exact h'.elim | exact h.elim

/-! ## node creation: what the actual run does -/

/-- `s1` is `s` plus one fresh non-expert node of the fragment; the expert records and the adjust-heights heap are
unchanged -/
structure Pushed (env : Env) (s s1 : State) : Prop where
  nodes : ∃ nd : Node, s1.nodes = s.nodes.push nd ∧ XKind env nd.kind ∧ (∀ e, nd.kind ≠ .expert e) ∧
    nd.valid = true ∧ nd.heightInAhh = -1
  experts : s1.experts = s.experts
  ahh : s1.ahh = s.ahh

theorem crState_ahh (k : Kind) (sc : Scope) (c : CutoffK) (s : State) :
    (crState k sc c s).ahh = s.ahh := by
  unfold crState; cases sc <;> rfl

theorem pushed_crState {env : Env} {k : Kind} (sc : Scope) (c : CutoffK) (s : State) (hk : XKind env k)
    (hne : ∀ e, k ≠ .expert e) : Pushed env s (crState k sc c s) :=
  ⟨⟨_, crState_nodes k sc c s, hk, hne, rfl, rfl⟩, crState_experts k sc c s, crState_ahh k sc c s⟩

theorem pushed_createNode {env : Env} {k : Kind} {sc : Scope} {c : CutoffK} {s s1 : State} {n : Nat}
    (hk : XKind env k) (hne : ∀ e, k ≠ .expert e)
    (h : (createNode k sc c).run.run s = (.ok n, s1)) : Pushed env s s1 := by
  rw [run_createNode] at h
  cases h
  exact pushed_crState sc c s hk hne

theorem pushed_some_createNode {env : Env} {k : Kind} {sc : Scope} {c : CutoffK} {s s1 : State} {ro : Option Nat}
    (hk : XKind env k) (hne : ∀ e, k ≠ .expert e)
    (h : (some <$> createNode k sc c).run.run s = (.ok ro, s1)) : Pushed env s s1 := by
  obtain ⟨n, h1, -⟩ := map_ok_inv h
  exact pushed_createNode hk hne h1

theorem pushed_createVar {env : Env} {v : Val} {sc : Scope} {s s1 : State} {n : Nat}
    (h : (createVar v sc).run.run s = (.ok n, s1)) : Pushed env s s1 := by
  unfold createVar at h
  rw [run_bind_get] at h
  obtain ⟨m, t, h1, h2⟩ := bind_ok_inv h
  have P := pushed_createNode (env := env) (k := .var s.vars.size) trivial (fun e h => by cases h) h1
  obtain ⟨t2, e2, h3⟩ := bind_modify_inv h2
  obtain ⟨-, e3⟩ := pure_ok_inv h3
  rw [e3, e2]
  exact ⟨P.nodes, P.experts, P.ahh⟩

theorem elab_pushed {env : Env} {s s1 : State} {i : Instr} {ro : Option Nat} (hi : XStaticInstr env i)
    (h : (elabInstrM env [] .unit i).run.run s = (.ok ro, s1)) : Pushed env s s1 := by
  rw [elabInstrM_eq _ _ _ hi.xinstr] at h
  unfold elabInstr at h
  rw [run_bind_get] at h
  cases i with
  | const v =>
    simp only at h
    refine pushed_some_createNode ?_ ?_ h <;> first | trivial | (intro e h; cases h)
  | var v =>
    simp only at h
    obtain ⟨n, h1, -⟩ := map_ok_inv h
    exact pushed_createVar h1
  | map f args =>
    simp only at h
    obtain ⟨as, t, h1, h2⟩ := bind_ok_inv h
    have et : t = s := (Step.Pres.mapM (fun a => RO.resolveOpnd [] a) args).h s _ t h1
    rw [et] at h2
    exact pushed_some_createNode (k := .map f as) ⟨hi.1, hi.2.1⟩ (fun e h => by cases h) h2
  | fold f init cs =>
    simp only at h
    obtain ⟨as, t, h1, h2⟩ := bind_ok_inv h
    have et : t = s := (Step.Pres.mapM (fun a => RO.resolveOpnd [] a) cs).h s _ t h1
    rw [et] at h2
    split at h2
    · refine pushed_some_createNode ?_ ?_ h2 <;> first | trivial | (intro e h; cases h)
    · exact pushed_some_createNode (k := .fold f init as) hi.1 (fun e h => by cases h) h2
  | zip a b =>
    simp only at h
    obtain ⟨na, t, h1, h2⟩ := bind_ok_inv h
    have et : t = s := (RO.resolveOpnd [] a).h s _ t h1
    rw [et] at h2
    obtain ⟨nb, t, h1, h2⟩ := bind_ok_inv h2
    have et : t = s := (RO.resolveOpnd [] b).h s _ t h1
    rw [et] at h2
    obtain ⟨ca, t, h1, h2⟩ := bind_ok_inv h2
    have et : t = s := (RO.isConstant na).h s _ t h1
    rw [et] at h2
    obtain ⟨cb, t, h1, h2⟩ := bind_ok_inv h2
    have et : t = s := (RO.isConstant nb).h s _ t h1
    rw [et] at h2
    split at h2
    · refine pushed_some_createNode ?_ ?_ h2 <;> first | trivial | (intro e h; cases h)
    · exact pushed_some_createNode (k := .map fnZip [na, nb])
        ⟨by decide, fun hlt => absurd hlt (by decide)⟩ (fun e h => by cases h) h2
  | _ => exact hi.static.elim

theorem create_pushed {env : Env} {s s' : State} {i : Instr} {tk : Array Nat} {r : String × Array Nat}
    (hi : XStaticInstr env i) (h : (stepAction env (.create i) tk).run.run s = (.ok r, s')) : Pushed env s s' := by
  unfold stepAction at h
  simp only at h
  obtain ⟨ro, s1, h1, h2⟩ := bind_ok_inv h
  have P := elab_pushed hi h1
  cases ro with
  | none =>
    simp only at h2
    obtain ⟨-, e⟩ := pure_ok_inv h2
    rw [e]; exact P
  | some n =>
    simp only at h2
    obtain ⟨s2, e2, h3⟩ := bind_modify_inv h2
    obtain ⟨-, e3⟩ := pure_ok_inv h3
    rw [e3, e2]
    exact ⟨P.nodes, P.experts, P.ahh⟩

theorem Pushed.frag {env : Env} {s s' : State} (P : Pushed env s s') (F : XFrag env s) (fr : Fr s') :
    XFrag env s' := by
  obtain ⟨nd, hn, hk, hne, -, -⟩ := P.nodes
  have hold : ∀ m, m ≠ s.nodes.size → s'.nodeD m = s.nodeD m := fun m h => by
    simp only [State.nodeD, hn, Array.getElem?_push, if_neg h]
  have hnew : s'.nodeD s.nodes.size = nd := by
    simp only [State.nodeD, hn, Array.getElem?_push, if_true, Option.getD_some]
  have hsz : s'.nodes.size = s.nodes.size + 1 := by rw [hn, Array.size_push]
  refine ⟨fr.pc, fun m hm => ?_, fun m _ => fr.valid m, fun m e hm hke => ?_, fun e er he => ?_⟩
  · by_cases e : m = s.nodes.size
    · rw [e, hnew]; exact hk
    · rw [hold m e]; exact F.kindD m
  · by_cases e' : m = s.nodes.size
    · rw [e', hnew] at hke; exact absurd hke (hne e)
    · rw [hold m e'] at hke
      rw [P.experts]
      exact F.xrec m e (by omega) hke
  · rw [P.experts] at he; exact F.xok e er he

theorem Pushed.ahhEmpty {env : Env} {s s' : State} (P : Pushed env s s') (A : QR.AhhEmpty s) : QR.AhhEmpty s' := by
  obtain ⟨nd, hn, -, -, -, hh⟩ := P.nodes
  refine ⟨by rw [P.ahh]; exact A.length, by rw [P.ahh]; exact A.buckets, fun m => ?_⟩
  by_cases e : m = s.nodes.size
  · have hnew : s'.nodeD s.nodes.size = nd := by
      simp only [State.nodeD, hn, Array.getElem?_push, if_true, Option.getD_some]
    rw [e, hnew]; exact hh
  · have : s'.nodeD m = s.nodeD m := by
      simp only [State.nodeD, hn, Array.getElem?_push, if_neg e]
    rw [this]; exact A.marks m

/-! ## the actions -/

theorem XStaticAction.xact {env : Env} {a : Action} (h : XStaticAction env a) (hc : ∀ i, a ≠ .create i) : XAct a := by
  have h' := h.static
  cases a <;> first | trivial | exact h'.elim | exact h.elim | exact absurd rfl (hc _)

theorem XStaticAction.ahAct {env : Env} {a : Action} (h : XStaticAction env a) (hc : ∀ i, a ≠ .create i) :
    AhAct a := by
  have h' := h.static
  cases a <;> first | trivial | exact h'.elim | exact h.elim | exact absurd rfl (hc _)

/-- **every API action of the static part of the fragment (all but `stabilise`) keeps `QInvX`** -/
theorem action_static {env : Env} {rk : Nat → Nat} {s s' : State} {a : Action} {tk : Array Nat}
    {r : String × Array Nat} (Q : QInvX env rk s) (ha : XStaticAction env a)
    (h : (stepAction env a tk).run.run s = (.ok r, s')) : QInvX env rk s' := by
  obtain ⟨hv, fr'⟩ := SimAt.stepAction env tk ha.xaction (Q.frag.fr Q.pinv) r s' h
  have Qv := QR.step_q Q.q ha.virt hv
  by_cases hc : ∃ i, a = .create i
  · obtain ⟨i, rfl⟩ := hc
    have P := create_pushed ha h
    exact ⟨P.frag Q.frag fr', Qv, P.ahhEmpty Q.ahh⟩
  · have hc' : ∀ i, a ≠ .create i := fun i e => hc ⟨i, e⟩
    exact ⟨Q.frag.of_xf ((PresX.stepAction env a tk (ha.xact hc')).h _ _ _ h) fr', Qv,
      ahhEmpty_of_ahf Q.ahh ((PresAh.stepAction env a tk (ha.ahAct hc')).h _ _ _ h)⟩

/-! ## the initial state -/

theorem virt_init (N : Nat) (d : Bool) : virt (State.init N d) = State.init N d := by
  simp [virt, State.init]

theorem qinvX_init (env : Env) (N : Nat) (d : Bool) : QInvX env (fun m => m) (State.init N d) := by
  have hsz : (State.init N d).nodes.size = 0 := rfl
  refine ⟨⟨rfl, fun n hn => by rw [hsz] at hn; omega, fun n hn => by rw [hsz] at hn; omega,
    fun n e hn => by rw [hsz] at hn; omega, fun e er he => ?_⟩, ?_, ⟨rfl, fun i hi => ?_, fun m => ?_⟩⟩
  · simp [State.init] at he
  · rw [virt_init]; exact QR.qinv_init (virtEnv env) N d
  · simp [State.init, mkHeap]
  · rw [QR.init_nodeD]; rfl

end IncrVerif.Proofs.ExpertH
