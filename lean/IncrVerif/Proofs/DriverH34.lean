import IncrVerif.Proofs.DriverH33
/-!
# Drivers, `stabilise`, part 3: `stabSpec`

The four phases of `stabilise env fuel`: the prefix (`stab_startD`), the drain (the contract `DrainSpec env`), and the
end (`stabiliseEnd_fin`, `stab_endD`); the values of the final state from `qinvX_values`.
-/
namespace IncrVerif.Proofs.DriverH
open IncrVerif.Engine IncrVerif.Driver IncrVerif.Proofs IncrVerif.Proofs.Step IncrVerif.Proofs.Sched
open IncrVerif.Proofs.ExpertH IncrVerif.Proofs.ExpertH.QR IncrVerif.Proofs.EffH

set_option maxHeartbeats 800000 in
/-- **`stabilise` with drivers.** -/
theorem stabSpec (env : Env) (hDrain : DrainSpec env) : StabSpec env := by
  intro rk fuel s s' Q hd h
  unfold stabilise at h
  rw [run_bind_get] at h
  obtain ⟨_, sa, ha, h⟩ := bind_ok_inv h
  have hsa : sa = s := by
    rw [run_assertM] at ha
    split at ha <;> cases ha
    rfl
  rw [hsa] at h
  obtain ⟨s0, hs0, h⟩ := bind_modify_inv h
  obtain ⟨_, t1, h1, h⟩ := bind_ok_inv h
  obtain ⟨_, t2, h2, h⟩ := bind_ok_inv h
  obtain ⟨_, t3, h3, h4⟩ := bind_ok_inv h
  have Qv := Q.q
  have hs0v : virt s0 = { virt s with status := .stabilising } := by rw [hs0]; rfl
  -- the prefix
  obtain ⟨D2, O2, hn2, hd2, P⟩ := stab_startD Q hd hs0 h1 h2
  -- the drain
  obtain ⟨D3, he3, f3, hnd⟩ := hDrain fuel t2 t3 D2 h3
  obtain ⟨k_vars, k_stab, k_obs, -, -, k_sds, k_dead, -, -, -⟩ := eKey_inv f3.key
  -- the end
  have hvars2 : t2.vars = s.vars := by
    have := P.vars; rw [hs0v] at this; exact this
  have hstab2 : t2.stabNum = s.stabNum := by
    have := P.stabNum; rw [hs0v] at this; exact this
  have hsize2 : t2.nodes.size = s.nodes.size := by
    have := P.size; rw [hs0v, virt_size] at this
    have e : ({ virt s with status := Status.stabilising } : State).nodes.size = s.nodes.size := virt_size s
    rw [e] at this; exact this
  have E := stabiliseEnd_fin (env := env) (fuel := fuel) (s := t3) (s' := s')
    (by
      rw [k_sds]
      have := P.setDuringStab; rw [hs0v] at this
      exact this.trans Qv.setDuringStab)
    (by
      rw [k_dead]
      have := P.deadVars; rw [hs0v] at this
      exact this.trans Qv.deadVars)
    (by
      intro o ob ho
      rw [k_obs] at ho
      exact (O2.inRange o ob ho).2) h4
  have hal : t2.alive = true := by
    have := P.alive; rw [hs0v] at this
    exact this.trans Qv.alive
  have htop : ∀ (k n : Nat), t2.top[k]? = some n → n < t2.nodes.size := by
    intro k n hk
    have e : t2.top = s.top := by
      have := P.top; rw [hs0v] at this; exact this
    rw [e] at hk
    have := Qv.top k n hk
    rw [virt_size] at this
    rw [hsize2]; exact this
  obtain ⟨⟨rk', Q'⟩, hno', hdo', hd'⟩ := stab_endD D3 f3 O2 hn2 hd2 hal htop E
  have he' : s'.rch.length = 0 := by rw [E.rch]; exact he3
  obtain ⟨R1, R2⟩ := qinvX_reads Q' he' hno' hdo'
  refine ⟨⟨rk', Q'⟩, ?_, ?_, R2, hd', by rw [E.vars, k_vars, hvars2], by rw [E.stabNum, k_stab, hstab2],
    by rw [E.size, f3.size, hsize2], ⟨t1, t2, t3, by rw [← hs0]; exact h1, h2, D2, h3, D3, he3, hnd, h4⟩⟩
  · intro n hn k hk
    obtain ⟨v1, v2, v3⟩ := qinvX_values Q' he' n hn k hk
    rw [evalX_noEff] at v2 v3
    exact ⟨v1, v2, v3⟩
  · intro o ob ho hst k hk
    obtain ⟨v, hv, hev⟩ := R1 o ob ho hst k hk
    rw [evalX_noEff] at hev
    exact ⟨v, hv, hev⟩

end IncrVerif.Proofs.DriverH
