import IncrVerif.Proofs.FullH64
/-!
# C01 full fragment: NON-VACUITY, part 4 — structural facts about the states of the example history, continued (kernel-checked)
-/
namespace IncrVerif.Proofs.FullH
open IncrVerif.Engine IncrVerif.Driver IncrVerif.Proofs IncrVerif.Proofs.Step IncrVerif.Proofs.Sched IncrVerif.Proofs.Quiet
open IncrVerif.Proofs.BindH

set_option maxRecDepth 100000 in
set_option synthInstance.maxSize 4000 in
set_option synthInstance.maxHeartbeats 400000 in
/-- the fourth `stabilise` (the lhs `n1` is odd): the generation with the map_ref chain, the machines and the inner bind (nodes 5 … 13) is invalidated;
the new generation is the constant 14 -/
theorem exHistF_lhs_switch :
    EX.factF (exHistF.take 12) (fun s => s.nodes.size) = some 15 ∧
    EX.factF (exHistF.take 12) (fun s => ([5, 6, 7, 8, 9, 10, 11, 12, 13].map fun n => (s.nodeD n).valid)) =
      some [false, false, false, false, false, false, false, false, false] ∧
    EX.factF (exHistF.take 12) (fun s => ((s.nodeD 14).kind, (s.nodeD 14).valid, (s.nodeD 14).createdIn)) = some (.const (.int 1), true, .bind 0) ∧
    EX.factF (exHistF.take 12) (fun s => s.binds.toList.map (·.allNodesCreatedOnRhs)) = some [[14], []] := by
  have aux : EX.factF (exHistF.take 12) (fun s => ((s.nodes.size), (([5, 6, 7, 8, 9, 10, 11, 12, 13].map fun n => (s.nodeD n).valid)), (((s.nodeD 14).kind, (s.nodeD 14).valid, (s.nodeD 14).createdIn)), (s.binds.toList.map (·.allNodesCreatedOnRhs)))) =
      some ((15), ([false, false, false, false, false, false, false, false, false]), ((.const (.int 1), true, .bind 0)), ([[14], []])) := by decide +kernel
  obtain ⟨h1, aux⟩ := EX.fact_split aux
  obtain ⟨h2, aux⟩ := EX.fact_split aux
  obtain ⟨h3, aux⟩ := EX.fact_split aux
  exact ⟨h1, h2, h3, aux⟩

set_option maxRecDepth 100000 in
set_option synthInstance.maxSize 4000 in
set_option synthInstance.maxHeartbeats 400000 in
/-- the sixth `stabilise` (re-observed; `n1 = 2`): a FRESH map_ref chain 15, 16 into a fresh machine 17 (stored value `a = 2`), a fresh inner bind (record 2)
whose generation (`n2 = 3` odd) is the constant 22 -/
theorem exHistF_fresh :
    EX.factF (exHistF.take 19) (fun s => (s.nodes.size, s.binds.size)) = some (23, 3) ∧
    EX.factF (exHistF.take 19) (fun s => ((s.nodeD 15).kind, (s.nodeD 16).kind, (s.nodeD 17).kind, (s.nodeD 17).value)) =
      some (.mapRef 1 0, .mapRef 1 15, .mapWithOld 7 16, some (.int 2)) ∧
    EX.factF (exHistF.take 19) (fun s => ((s.nodeD 19).kind, (s.nodeD 20).kind, (s.nodeD 22).kind, (s.nodeD 22).createdIn)) =
      some (.bindLhsChange 2, .bindMain 2 19, .const (.int 3), .bind 2) ∧
    EX.factF (exHistF.take 19) (fun s => ((s.nodeD 14).valid, (List.range 9).all fun n => (s.nodeD (15 + n)).valid)) = some (false, true) := by
  have aux : EX.factF (exHistF.take 19) (fun s => (((s.nodes.size, s.binds.size)), (((s.nodeD 15).kind, (s.nodeD 16).kind, (s.nodeD 17).kind, (s.nodeD 17).value)), (((s.nodeD 19).kind, (s.nodeD 20).kind, (s.nodeD 22).kind, (s.nodeD 22).createdIn)), (((s.nodeD 14).valid, (List.range 9).all fun n => (s.nodeD (15 + n)).valid)))) =
      some (((23, 3)), ((.mapRef 1 0, .mapRef 1 15, .mapWithOld 7 16, some (.int 2))), ((.bindLhsChange 2, .bindMain 2 19, .const (.int 3), .bind 2)), ((false, true))) := by decide +kernel
  obtain ⟨h1, aux⟩ := EX.fact_split aux
  obtain ⟨h2, aux⟩ := EX.fact_split aux
  obtain ⟨h3, aux⟩ := EX.fact_split aux
  exact ⟨h1, h2, h3, aux⟩

set_option maxRecDepth 100000 in
set_option synthInstance.maxSize 4000 in
set_option synthInstance.maxHeartbeats 400000 in
/-- the seventh `stabilise` (`n2 := 6`, the INNER lhs changed): the inner generation 22 is invalidated, the inner closure created `mapRef 2 n0` (23) and
`mapWithOld 7 23` (24, stored value `c = 70`) in scope `.bind 2`; the outer generation is untouched -/
theorem exHistF_inner_switch :
    EX.factF exHistF (fun s => s.nodes.size) = some 25 ∧
    EX.factF exHistF (fun s => ((s.nodeD 22).valid, (s.nodeD 23).kind, (s.nodeD 24).kind, (s.nodeD 24).value, (s.nodeD 24).createdIn)) =
      some (false, .mapRef 2 0, .mapWithOld 7 23, some (.int 70), .bind 2) ∧
    EX.factF exHistF (fun s => s.binds.toList.map (·.allNodesCreatedOnRhs)) = some [[15, 16, 17, 18, 19, 20, 21], [], [23, 24]] ∧
    EX.factF exHistF (fun s => (List.range 7).all fun n => (s.nodeD (15 + n)).valid) = some true := by
  have aux : EX.factF exHistF (fun s => ((s.nodes.size), (((s.nodeD 22).valid, (s.nodeD 23).kind, (s.nodeD 24).kind, (s.nodeD 24).value, (s.nodeD 24).createdIn)), (s.binds.toList.map (·.allNodesCreatedOnRhs)), ((List.range 7).all fun n => (s.nodeD (15 + n)).valid))) =
      some ((25), ((false, .mapRef 2 0, .mapWithOld 7 23, some (.int 70), .bind 2)), ([[15, 16, 17, 18, 19, 20, 21], [], [23, 24]]), (true)) := by decide +kernel
  obtain ⟨h1, aux⟩ := EX.fact_split aux
  obtain ⟨h2, aux⟩ := EX.fact_split aux
  obtain ⟨h3, aux⟩ := EX.fact_split aux
  exact ⟨h1, h2, h3, aux⟩

end IncrVerif.Proofs.FullH
