import IncrVerif.Proofs.NestH55
import IncrVerif.Proofs.NestH52
import IncrVerif.Proofs.NestH41
import IncrVerif.Proofs.BindH93
/-!
# Nested binds (F2), part 4, `stabilise`, part 2: the two ends of the drain

Port of `BindH93` (`C2s2`).  `C2s.PreF` (what the prefix of `stabilise` keeps), `C2s.PreF.of`, `C2s.PreF.keyEq`, `C2s.PreF.varsOK` are generic and reused.
* `N4s.drain_start2`: after the prefix of `stabilise` the drain invariant `DInv env t none` and `F2Inv env rk t` hold (SAME rank as before the prefix);
* `N4s.after_drain2`: cells, observer bookkeeping and `obsTop` at the end of the drain, from `DKey`/`NKey` (any rank);
* `N4s.qinv2_end`: `stabiliseEnd` re-establishes the invariant between actions (same rank as at the end of the drain).
-/
namespace IncrVerif.Proofs.NestH
open IncrVerif.Engine IncrVerif.Driver IncrVerif.Proofs IncrVerif.Proofs.Step IncrVerif.Proofs.Sched IncrVerif.Proofs.Quiet
open IncrVerif.Proofs.BindH

namespace N4s

/-- **The state in which `drainHeap` starts** satisfies the drain invariant and the auxiliary invariant (same rank). -/
theorem drain_start2 {env : Env} {rk : Nat → Nat} {s t : State} (Q : QInv2 env rk s) (F : C2s.PreF s t)
    (S : SInv2 env rk t [] []) : DInv env t none ∧ F2Inv env rk t := by
  have I : GInv2 env rk t allClosed noEx [] := S.struct
  have E := F.keyEq
  have A0 := Q.struct.frag
  have V := F.varsOK Q.vars
  have hst : ∀ m, (t.nodeD m).recomputedAt < t.stabNum ∧ (t.nodeD m).changedAt < t.stabNum := by
    intro m
    rw [F.recomputedAt, F.changedAt, F.stabNum]; exact Q.stamps m
  constructor
  · refine
      { graph := bgraph_of_ginv2 I S.noForce (fun n c hn hk => ?_)
        heap := heapInv_of_ginv2 I
        stamps := ⟨by rw [F.stabNum]; exact Q.now, fun m => ⟨Int.le_of_lt (hst m).1, Int.le_of_lt (hst m).2⟩,
          fun c vc hc => by rw [F.vars] at hc; rw [F.stabNum]; exact Q.varStamp c vc hc⟩
        qstale := I.qstale
        pending := fun m hn hs => Or.inl (I.queued m rfl hn hs (fun h => h))
        cons := fun m hm hv hs => ?_
        fresh := fun a _ _ _ => (hst a).1
        cur := fun _ h => by cases h }
    · obtain ⟨vc, h, -⟩ := V.node n c hn hk
      exact ⟨vc, h⟩
    · rw [F.size] at hm
      rw [F.valid] at hv
      rw [KeyEq2.isStale2 E A0] at hs
      obtain ⟨v, hT, hval⟩ := Q.cons m hm hv hs
      exact ⟨v, TargetB.congr hv (A0.node m hm).kind (F.kind m) F.vars F.binds (fun c _ => F.value c) hT,
        by rw [F.value]; exact hval⟩
  · have A := Q.f2
    refine
      { frag := I.frag
        nodup := I.nodup
        ahh := ⟨by rw [F.ahh]; exact A.ahh.length, ?_, fun m => (F.marks m).trans (A.ahh.marks m)⟩
        pinv := S.pinv
        noForce := S.noForce
        noHandlers := S.handlers
        inv := fun m hv => by
          obtain ⟨h1, h2, -, h4, -⟩ := I.inv m hv
          exact ⟨h1, h2, h4⟩
        scopeObs := I.scopeObs
        lcObs := I.lcObs
        lcCut := fun m b h => by rw [F.cutoff]; exact A.lcCut m b (by rw [← F.kind]; exact h)
        topOK := fun k r h => ?_
        closures := fun b br h => by
          obtain ⟨f, hf⟩ := A.closures b br (by rw [← F.binds]; exact h)
          exact ⟨f, NF.bodyOK2_congr F.top hf⟩
        lhsOK := fun b br h hv b' => by
          rw [F.kind]
          exact A.lhsOK b br (by rw [← F.binds]; exact h) (by rw [← F.valid]; exact hv) b'
        rhsNone := fun b br h => A.rhsNone b br (by rw [← F.binds]; exact h)
        deadNone := fun b br h hv => A.deadNone b br (by rw [← F.binds]; exact h) (by rw [← F.valid]; exact hv)
        rhsOK := fun b br o h ho hv => ?_ }
    · intro i hi
      have hi' : i < s.ahh.queues.size := by rw [← F.ahh]; exact hi
      have := A.ahh.buckets i hi'
      simp only [F.ahh]; exact this
    · obtain ⟨h1, h2, h3⟩ := A.topOK k r (by rw [← F.top]; exact h)
      exact ⟨by rw [F.size]; exact h1, by rw [F.createdIn]; exact h2, fun b' => by rw [F.kind]; exact h3 b'⟩
    · rw [F.createdIn, F.kind, F.valid]
      exact A.rhsOK b br o (by rw [← F.binds]; exact h) ho (by rw [← F.valid]; exact hv)

/-! ## the end of the drain -/

/-- cells, observer bookkeeping and the nodes watched, at the end of the drain -/
theorem after_drain2 {env : Env} {rk : Nat → Nat} {t t3 : State} (A3 : F2Inv env rk t3) (K : DKey t t3) (N : NKey t t3)
    (hvars : t3.vars = t.vars) (V : VarsOK t) (O : ObsInv t [] [])
    (hT : ∀ (o : Nat) (ob : ObsRec), t.observers[o]? = some ob →
      (t.nodeD ob.node).createdIn = .top ∧ ∀ b, (t.nodeD ob.node).kind ≠ .bindLhsChange b) :
    VarsOK t3 ∧ ObsInv t3 [] [] ∧
    ∀ (o : Nat) (ob : ObsRec), t3.observers[o]? = some ob →
      (t3.nodeD ob.node).createdIn = .top ∧ ∀ b, (t3.nodeD ob.node).kind ≠ .bindLhsChange b := by
  refine ⟨⟨?_, ?_⟩, ⟨?_, ?_, ?_, ?_, ?_, ?_, List.nodup_nil⟩, ?_⟩
  · intro n c hn hk
    rw [hvars]
    by_cases hlt : n < t.nodes.size
    · rw [(N.old n hlt).1] at hk
      exact V.node n c hlt hk
    · obtain ⟨b, hb⟩ := N.new n (by omega) hn
      exact absurd hk (((A3.frag.node n hn).inScope b hb).1 c)
  · intro c vc hc
    rw [hvars] at hc
    obtain ⟨h1, h2⟩ := V.cell c vc hc
    exact ⟨Nat.lt_of_lt_of_le h1 N.grow, by rw [(N.old _ h1).1]; exact h2⟩
  · intro o ob ho
    rw [K.observers] at ho
    obtain ⟨h1, h2⟩ := O.inRange o ob ho
    exact ⟨Nat.lt_of_lt_of_le h1 N.grow, h2⟩
  · intro n o
    rw [K.observers]
    by_cases hlt : n < t.nodes.size
    · rw [(N.old n hlt).2.2]; exact O.mem n o
    · have hr : ¬ ∃ ob, t.observers[o]? = some ob ∧ ob.node = n ∧ (ob.state = .inUse ∨ ob.state = .disallowed) := by
        rintro ⟨ob, h1, h2, -⟩
        have := (O.inRange o ob h1).1
        omega
      have hl : (t3.nodeD n).observers = [] := by
        by_cases hn : n < t3.nodes.size
        · obtain ⟨b, hb⟩ := N.new n (by omega) hn
          exact A3.scopeObs n b hb
        · rw [nodeD_default t3 n (by omega)]; rfl
      rw [hl]
      exact ⟨fun h => (by cases h), fun h => absurd h hr⟩
  · intro o ob ho hc; rw [K.observers] at ho; exact O.created o ob ho hc
  · intro o ho; cases ho
  · intro o ob ho; rw [K.observers] at ho; exact O.dis o ob ho
  · intro o ho; cases ho
  · intro o ob ho
    rw [K.observers] at ho
    have hlt := (O.inRange o ob ho).1
    rw [(N.old _ hlt).1, (N.old _ hlt).2.1]
    exact hT o ob ho

/-- **`stabiliseEnd` re-establishes the invariant between actions** (same rank as at the end of the drain). -/
theorem qinv2_end {env : Env} {rk : Nat → Nat} {t3 s' : State} (I3 : DInv env t3 none) (A3 : F2Inv env rk t3)
    (E : Finished' t3 s')
    (hb : s'.binds = t3.binds) (V : VarsOK t3) (O : ObsInv t3 [] []) (hno : t3.newObservers = [])
    (hdo : t3.disallowedObservers = [])
    (hT : ∀ (o : Nat) (ob : ObsRec), t3.observers[o]? = some ob →
      (t3.nodeD ob.node).createdIn = .top ∧ ∀ b, (t3.nodeD ob.node).kind ≠ .bindLhsChange b)
    (halive : t3.alive = true) :
    QInv2 env rk s' ∧ SameB t3 s' ∧ ∀ m, (s'.nodeD m).value = (t3.nodeD m).value := by
  have hE : ∀ m, NodeG (t3.nodeD m) (s'.nodeD m) ∧ (s'.nodeD m).value = (t3.nodeD m).value ∧
      (s'.nodeD m).numOnUpdateHandlers = (t3.nodeD m).numOnUpdateHandlers ∧
      (s'.nodeD m).heightInAhh = (t3.nodeD m).heightInAhh := by
    intro m
    obtain ⟨b, hb⟩ := E.node m
    rw [hb]
    exact ⟨⟨rfl, rfl, rfl, rfl, rfl, rfl, rfl, rfl, rfl, rfl, rfl⟩, rfl, rfl, rfl⟩
  have G : SameB t3 s' := ⟨⟨E.pc, E.scope, E.size, E.rch, E.vars, fun m => (hE m).1⟩, hb⟩
  have K := BL.KeyEq.of_same G
  have S3 : Struct2 env rk t3 := struct2_of_dinv I3 A3
  have S' : GInv2 env rk s' allClosed noEx [] := GInv2.congr S3 G
  have hsh : ∀ m, SameShape (t3.nodeD m) (s'.nodeD m) := fun m =>
    ⟨(hE m).1.kind, (hE m).1.createdIn, (hE m).1.valid, (hE m).1.cutoff, (hE m).1.height, (hE m).1.parents,
      (hE m).1.observers, (hE m).1.forceNecessary⟩
  have A' : F2Inv env rk s' := NF.F2Inv.transfer A3 E.size hsh (fun m => (hE m).2.2.1)
    (fun m h => Or.inl (by rw [← G.g.inRch m]; exact h)) (fun m => (hE m).2.2.2) hb E.top E.ahh E.pinv E.scope
    (by rw [E.pc]; exact A3.frag.pc)
  have hno' : s'.newObservers = [] := by rw [E.newObservers]; exact hno
  have hdo' : s'.disallowedObservers = [] := by rw [E.disallowedObservers]; exact hdo
  have O' : ObsOK s' := by
    unfold ObsOK
    rw [hno', hdo']
    refine ⟨?_, ?_, ?_, ?_, ?_, ?_, List.nodup_nil⟩
    · intro o ob ho; rw [E.observers] at ho; rw [E.size]; exact O.inRange o ob ho
    · intro n o; rw [(hE n).1.observers, E.observers]; exact O.mem n o
    · intro o ob ho hc; rw [E.observers] at ho; exact O.created o ob ho hc
    · intro o ho; cases ho
    · intro o ob ho; rw [E.observers] at ho; exact O.dis o ob ho
    · intro o ho; cases ho
  refine ⟨?_, G, fun m => (hE m).2.1⟩
  refine
    { struct := S'
      f2 := A'
      vars := ?_
      obs := O'
      obsTop := fun o ob ho => by
        rw [E.observers] at ho
        rw [(hE _).1.createdIn, (hE _).1.kind]; exact hT o ob ho
      now := by rw [E.stabNum]; have := I3.stamps.now; omega
      stamps := fun m => by
        rw [(hE m).1.recomputedAt, (hE m).1.changedAt, E.stabNum]
        have := I3.stamps.node m; omega
      varStamp := fun c vc hc => by
        rw [E.vars] at hc; rw [E.stabNum]; have := I3.stamps.var c vc hc; omega
      cons := fun m hm hv hs => ?_
      status := E.status
      alive := by rw [E.alive]; exact halive
      setDuringStab := E.setDuringStab
      deadVars := E.deadVars
      handleAfterStab := E.handleAfterStab }
  · refine ⟨fun n c hn hk => ?_, fun c vc hc => ?_⟩
    · rw [E.size] at hn; rw [(hE n).1.kind] at hk; rw [E.vars]; exact V.node n c hn hk
    · rw [E.vars] at hc; rw [E.size, (hE _).1.kind]; exact V.cell c vc hc
  · rw [E.size] at hm
    rw [(hE m).1.valid] at hv
    rw [KeyEq2.isStale2 K A3.frag] at hs
    obtain ⟨v, hT', hval⟩ := I3.cons m hm hv hs
    exact ⟨v, TargetB.congr hv (A3.frag.node m hm).kind (hE m).1.kind E.vars hb (fun c _ => (hE c).2.1) hT',
      by rw [(hE m).2.1]; exact hval⟩

end N4s

end IncrVerif.Proofs.NestH
