import IncrVerif.Proofs.BindH76
/-!
# Binds, the run of a change detector in fragment F1, part 5: `F1Inv` is kept; the headline theorem
-/
namespace IncrVerif.Proofs.BindH
open IncrVerif.Engine IncrVerif.Proofs IncrVerif.Proofs.Step IncrVerif.Proofs.Sched IncrVerif.Proofs.Quiet
namespace CC

namespace Mid
variable {env : Env} {n b rhs : Nat} {br : BindRec} {l : List Nat} {r : Option Nat} {s t s' : State}

/-- a record of the final bind table: the new record of bind `b`, or an untouched record of another bind -/
theorem bind_back (X : Mid env n b rhs br l r s t s') {b' : Nat} {br' : BindRec} (h : s'.binds[b']? = some br') :
    (b' = b ∧ br' = { { br with allNodesCreatedOnRhs := l } with rhs := some rhs }) ∨
      (b' ≠ b ∧ s.binds[b']? = some br') := by
  rw [X.step.binds] at h
  rcases X.rel.bind_cases X.pre.hb b' with ⟨e, h1, -⟩ | ⟨e, h1⟩
  · rw [h1] at h
    exact Or.inl ⟨e, (Option.some.inj h).symm⟩
  · rw [h1] at h
    exact Or.inr ⟨e, h⟩

theorem top (X : Mid env n b rhs br l r s t s') : s'.top = s.top := X.last.top.trans X.rel.top

/-- what the whole run keeps of a surviving node -/
theorem surv (X : Mid env n b rhs br l r s t s') {m : Nat} (hlt : m < s.nodes.size)
    (hd : m ∉ br.allNodesCreatedOnRhs) :
    (s'.nodeD m).kind = (s.nodeD m).kind ∧ (s'.nodeD m).valid = (s.nodeD m).valid ∧
      (s'.nodeD m).createdIn = (s.nodeD m).createdIn ∧ (s'.nodeD m).cutoff = (s.nodeD m).cutoff := by
  have k := X.rel.nk m hlt hd
  have sh := X.step.shapes m
  exact ⟨sh.kind.trans k.kind, sh.valid.trans k.valid, sh.createdIn.trans k.createdIn, sh.cutoff.trans k.cutoff⟩

/-- a node that is not of scope `b` (before the run) is not dying -/
theorem notDy_of_scope (X : Mid env n b rhs br l r s t s') (A : F1Inv env s) {m : Nat}
    (h : (s.nodeD m).createdIn ≠ .bind b) : m ∉ br.allNodesCreatedOnRhs :=
  fun hd => h (X.pre.dyOld A hd).2.2

end Mid

/-- **the run of a change detector in F1 keeps `F1Inv`** -/
theorem f1Inv_of_mid {env : Env} {n b rhs : Nat} {br : BindRec} {l : List Nat} {r : Option Nat} {s t s' : State}
    (A : F1Inv env s) (hk : (s.nodeD n).kind = .bindLhsChange b) (X : Mid env n b rhs br l r s t s') :
    F1Inv env s' where
  frag := X.keyEq.frag1 X.ginv.frag X.step.pc (X.last.scope.trans X.ginv.frag.scope)
  nodup c := by rw [(X.step.shapes c).parents]; exact X.ginv.nodup c
  ahh := by
    refine ⟨by rw [X.last.ahh]; exact X.ahh.length, ?_, fun m => (X.last.marks m).trans (X.ahh.marks m)⟩
    intro i hi
    have hi' : i < t.ahh.queues.size := by rw [← X.last.ahh]; exact hi
    have := X.ahh.buckets i hi'
    simp only [X.last.ahh]; exact this
  pinv := X.last.pinv.trans X.pinv
  noForce m := by rw [(X.step.shapes m).forceNecessary]; exact X.noForce m
  noHandlers m := by rw [X.num]; exact X.noHandlers m
  inv m hv := by
    rw [(X.step.shapes m).valid] at hv
    obtain ⟨h1, h2, -, h4, -⟩ := X.ginv.inv m hv
    refine ⟨by rw [(X.step.shapes m).parents]; exact h1, by rw [(X.step.shapes m).observers]; exact h2, ?_⟩
    cases hq : (s'.nodeD m).inRch with
    | false => rfl
    | true =>
      exfalso
      rcases X.step.newIn m hq with h | ⟨-, h⟩
      · rw [h4] at h; cases h
      · have e := X.par_n A hk h
        rw [e] at hv
        have hvm := ((X.ginv.frag.node br.main X.main_lt).top
          ((X.rel.nk br.main X.pre.hml (X.md A)).createdIn.trans X.pre.topM)).1
        rw [hv] at hvm; cases hvm
  scopeObs m b' h := by
    rw [(X.step.shapes m).createdIn] at h
    rw [(X.step.shapes m).observers]; exact X.ginv.scopeObs m b' h
  lcObs m b' h := by
    rw [(X.step.shapes m).kind] at h
    rw [(X.step.shapes m).observers]; exact X.ginv.lcObs m b' h
  lcCut m b' h := by
    rw [(X.step.shapes m).kind] at h
    rw [(X.step.shapes m).cutoff]
    have hscoped : ∀ b'', m < t.nodes.size → (t.nodeD m).createdIn = .bind b'' → False := by
      intro b'' hlt hsc
      have := ((X.ginv.frag.node m hlt).inScope b'' hsc).1
      rw [h] at this; exact this
    rcases X.classes m with ⟨h1, hd⟩ | hd | ⟨h1, h2⟩ | h1
    · have k := X.rel.nk m h1 hd
      rw [k.cutoff]
      exact A.lcCut m b' (by rw [← k.kind]; exact h)
    · obtain ⟨hlt, -, hsc⟩ := X.pre.dyOld A hd
      exact (hscoped b (by have := X.rel.grow; omega) ((X.rel.dead m hd).2.2.1.trans hsc)).elim
    · exact (hscoped b h2 (X.rel.new m h1 h2).1).elim
    · rw [nodeD_default t m h1] at h; cases h
  topOK k r0 h := by
    rw [X.top] at h
    obtain ⟨h1, h2, h3⟩ := A.topOK k r0 h
    have hd := X.notDy_of_scope A (m := r0) (by rw [h2]; intro e; cases e)
    obtain ⟨k1, -, k3, -⟩ := X.surv h1 hd
    refine ⟨?_, by rw [k3]; exact h2, fun b'' => by rw [k1]; exact h3 b''⟩
    rw [X.step.size]; have := X.rel.grow; omega
  closures b' br' v h := by
    rw [templOK_congr X.top]
    rcases X.bind_back h with ⟨e, e2⟩ | ⟨-, h0⟩
    · rw [e2]; exact A.closures b br v X.pre.hb
    · exact A.closures b' br' v h0
  rhsNone b' br' h hr := by
    rcases X.bind_back h with ⟨e, e2⟩ | ⟨-, h0⟩
    · rw [e2] at hr; cases hr
    · exact A.rhsNone b' br' h0 hr
  rhsOK b' br' o h ho := by
    rcases X.bind_back h with ⟨e, e2⟩ | ⟨e, h0⟩
    · rw [e2] at ho
      have eo : rhs = o := Option.some.inj ho
      rw [← eo, e, e2]
      rcases X.rhsOK with ⟨c1, c2, c3⟩ | ⟨c1, c2⟩
      · left
        have hlt : rhs < s.nodes.size := by have := X.pre.hlt; omega
        obtain ⟨k1, -, k3, -⟩ := X.surv hlt X.rhsNotDy
        refine ⟨by rw [k3]; exact c1, ?_, fun b'' => by rw [k1]; exact c3 b''⟩
        show rhs < br.lhsChange
        rw [X.pre.hlc]; exact c2
      · right
        obtain ⟨d1, d2, -⟩ := X.rel.new rhs c1 c2
        exact ⟨(X.step.shapes rhs).createdIn.trans d1, (X.step.shapes rhs).valid.trans d2⟩
    · have hne : (Scope.bind b') ≠ .bind b := by
        intro h'; injection h' with h'; exact e h'
      rcases A.rhsOK b' br' o h0 ho with ⟨c1, c2, c3⟩ | ⟨c1, c2⟩
      · left
        have hlt : o < s.nodes.size := by
          obtain ⟨r1, r2, -⟩ := A.frag.recs b' br' h0
          omega
        have hd := X.notDy_of_scope A (m := o) (by rw [c1]; intro e; cases e)
        obtain ⟨k1, -, k3, -⟩ := X.surv hlt hd
        exact ⟨by rw [k3]; exact c1, c2, fun b'' => by rw [k1]; exact c3 b''⟩
      · right
        have hlt : o < s.nodes.size := by
          false_or_by_contra
          rename_i hge
          rw [nodeD_default s o (by omega)] at c1; cases c1
        have hd := X.notDy_of_scope A (m := o) (by rw [c1]; exact hne)
        obtain ⟨-, k2, k3, -⟩ := X.surv hlt hd
        exact ⟨by rw [k3]; exact c1, by rw [k2]; exact c2⟩

end CC

/-- **A run of a change detector (`recomputeOne` on a `bindLhsChange` node) in fragment F1** (closures create nodes) is
described by `StepL` and keeps `F1Inv`; the three hypotheses are the contracts of the closure run, of `lhsRelink` and of
`lhsInvalidateOld`. -/
theorem recomputeOne_lcF1 {env : Env} (CS : ClosureSpec1 env) (RS : RelinkSpec1 env) (IS : InvalSpec1 env)
    {fuel n b : Nat} {s s' : State} {r : Option Nat}
    (I : DInv env s (some n)) (A : F1Inv env s) (hk : (s.nodeD n).kind = .bindLhsChange b)
    (h : (recomputeOne env fuel n).run.run s = (.ok r, s')) :
    (∃ br br', StepL env n b br br' r s s') ∧ F1Inv env s' := by
  obtain ⟨br, rhs, l, t, X⟩ := CC.lc_mid CS RS IS I A hk h
  exact ⟨⟨br, _, CC.stepL_of_mid I A hk X⟩, CC.f1Inv_of_mid A hk X⟩

end IncrVerif.Proofs.BindH
