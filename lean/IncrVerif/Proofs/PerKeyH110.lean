import IncrVerif.Proofs.PerKeyH108
import IncrVerif.Engine.History
import IncrVerif.Props.C14History
/-!
# Per-key operators: the check of CK1 on example histories (kernel-checked)

The environment of EX1 (`exDefsP`, copied as `ckDefs`: five families) and a history WITHOUT key removals (stage 1):
`ckHist fam`.  All five families P0–P4 pass the check (P1, P2: the template does not use the per-key input node), so does
the variant `ckHistCut` with the explicit default cutoff (`perKey (some .eq) …`); the history `ckHistRm` (a key is removed)
is rejected.
-/
namespace IncrVerif.Proofs.PerKeyH
open IncrVerif.Engine IncrVerif.Driver IncrVerif.Proofs IncrVerif.Proofs.ExpertH
open IncrVerif.Props.C14History

/-- `fn f0 lin 7 0 2 1; fn f2 lin 7 0 1 1; fn f1 lin 7 1 1; fn f3 lin 7 1 3` and the five families (= `exDefsP` of EX1) -/
def ckDefs : Defs :=
  { fns := [(0, { m := 7, coeffs := [0, 2, 1] }), (2, { m := 7, coeffs := [0, 1, 1] }),
            (1, { m := 7, coeffs := [1, 1] }), (3, { m := 7, coeffs := [1, 3] })],
    pks := [(0, { instrs := [.lhsConst, .map 0 [.loc 0, .loc 1]], ret := .loc 2 }),
            (3, { instrs := [.lhsConst, .map 2 [.loc 0, .outer 2]], ret := .loc 2 }),
            (4, { instrs := [.map 3 [.loc 0], .map 1 [.loc 1]], ret := .loc 2 }),
            (1, { instrs := [.map 1 [.outer 2]], ret := .loc 1 }),
            (2, { instrs := [], ret := .outer 2 })] }

def ckEnv : Env := ckDefs.toEnv

/-- `var {1:3,5:0}; var {}; var 2; perkey none P<fam> n0; observe n3; stabilise; set v0 {1:3,5:0,6:2}; stabilise;
set v0 {1:4,5:0,6:2}; stabilise; set v2 4; stabilise; disallow o0; set v0 {1:4,5:0,6:2,8:1}; set v0 {1:5,5:0,6:2,8:1};
observe n3; stabilise; set v0 {1:5,5:1,6:2,8:1,9:0}; set v2 5; stabilise` — keys are only inserted -/
def ckHist (fam : Nat) : List Action :=
  [.create (.var (.map [(1, 3), (5, 0)])), .create (.var (.map [])), .create (.var (.int 2)),
   .create (.perKey none fam (.outer 0)), .observe (.outer 3), .stabilise,
   .set 0 (.map [(1, 3), (5, 0), (6, 2)]), .stabilise,
   .set 0 (.map [(1, 4), (5, 0), (6, 2)]), .stabilise,
   .set 2 (.int 4), .stabilise,
   .disallow 0,
   .set 0 (.map [(1, 4), (5, 0), (6, 2), (8, 1)]), .set 0 (.map [(1, 5), (5, 0), (6, 2), (8, 1)]),
   .observe (.outer 3), .stabilise,
   .set 0 (.map [(1, 5), (5, 1), (6, 2), (8, 1), (9, 0)]), .set 2 (.int 5), .stabilise]

/-- the same history with the explicit default cutoff: `perKey (some .eq) P<fam> n0` -/
def ckHistCut (fam : Nat) : List Action :=
  (ckHist fam).take 3 ++ [.create (.perKey (some .eq) fam (.outer 0))] ++ (ckHist fam).drop 4

/-- the same prefix, then a key is removed -/
def ckHistRm (fam : Nat) : List Action :=
  (ckHist fam).take 10 ++ [.set 0 (.map [(1, 4), (6, 2)]), .stabilise]

/-! ## the templates -/

theorem ck_templ : templOKB (effOfDefs ckDefs) (ckEnv.perKey 0) = true ∧ templOKB (effOfDefs ckDefs) (ckEnv.perKey 3) = true ∧
    templOKB (effOfDefs ckDefs) (ckEnv.perKey 4) = true ∧ usesB (ckEnv.perKey 1) = false ∧ usesB (ckEnv.perKey 2) = false :=
  ⟨by decide +kernel, by decide +kernel, by decide +kernel, by decide +kernel, by decide +kernel⟩

/-- the families that ignore their input are templates of the fragment -/
theorem ck_templ12 : templOKB (effOfDefs ckDefs) (ckEnv.perKey 1) = true ∧ templOKB (effOfDefs ckDefs) (ckEnv.perKey 2) = true :=
  ⟨by decide +kernel, by decide +kernel⟩

theorem ck_templOK : TemplOK ckEnv (ckEnv.perKey 0) ∧ TemplOK ckEnv (ckEnv.perKey 3) ∧ TemplOK ckEnv (ckEnv.perKey 4) :=
  ⟨templOKB_sound (toEnv_heff ckDefs) ck_templ.1, templOKB_sound (toEnv_heff ckDefs) ck_templ.2.1,
    templOKB_sound (toEnv_heff ckDefs) ck_templ.2.2.1⟩

/-! ## the histories -/

set_option maxRecDepth 100000 in
theorem ckP3_check : runOKPB ckEnv (effOfDefs ckDefs) (ckHist 3) (State.init 128 true) #[] = true := by decide +kernel

set_option maxRecDepth 100000 in
theorem ckP0_check : runOKPB ckEnv (effOfDefs ckDefs) (ckHist 0) (State.init 128 true) #[] = true := by decide +kernel

set_option maxRecDepth 100000 in
theorem ckP4_check : runOKPB ckEnv (effOfDefs ckDefs) (ckHist 4) (State.init 128 true) #[] = true := by decide +kernel

set_option maxRecDepth 100000 in
theorem ckP1_check : runOKPB ckEnv (effOfDefs ckDefs) (ckHist 1) (State.init 128 true) #[] = true := by decide +kernel

set_option maxRecDepth 100000 in
theorem ckP2_check : runOKPB ckEnv (effOfDefs ckDefs) (ckHist 2) (State.init 128 true) #[] = true := by decide +kernel

set_option maxRecDepth 100000 in
theorem ckP3cut_check : runOKPB ckEnv (effOfDefs ckDefs) (ckHistCut 3) (State.init 128 true) #[] = true := by
  decide +kernel

/-- the histories of the families that ignore their input, and the variant with the explicit default cutoff, are histories
of the fragment -/
theorem ck_runOKP12 : RunOKP ckEnv (ckHist 1) (State.init 128 true) #[] ∧ RunOKP ckEnv (ckHist 2) (State.init 128 true) #[] ∧
    RunOKP ckEnv (ckHistCut 3) (State.init 128 true) #[] :=
  ⟨runOKP_of_check ckP1_check, runOKP_of_check ckP2_check, runOKP_of_check ckP3cut_check⟩

/-- the three histories are histories of the fragment -/
theorem ck_runOKP : RunOKP ckEnv (ckHist 0) (State.init 128 true) #[] ∧ RunOKP ckEnv (ckHist 3) (State.init 128 true) #[] ∧
    RunOKP ckEnv (ckHist 4) (State.init 128 true) #[] :=
  ⟨runOKP_of_check ckP0_check, runOKP_of_check ckP3_check, runOKP_of_check ckP4_check⟩

set_option maxRecDepth 100000 in
/-- rejected: a history that removes a key -/
theorem ck_reject : runOKPB ckEnv (effOfDefs ckDefs) (ckHistRm 3) (State.init 128 true) #[] = false := by
  decide +kernel

set_option maxRecDepth 100000 in
/-- the accepted histories run without error (so the check looked at every action), and the in-use observer reads
`{k ↦ (v + n2) mod 7}` at the end of the `P3` history -/
theorem ck_run : ranOk ckEnv (ckHist 0) = true ∧ ranOk ckEnv (ckHist 3) = true ∧ ranOk ckEnv (ckHist 4) = true ∧
    readAfter ckEnv (ckHist 3) 1 = some (.map [(1, 3), (5, 6), (6, 0), (8, 6), (9, 5)]) :=
  ⟨by decide +kernel, by decide +kernel, by decide +kernel, by decide +kernel⟩

set_option maxRecDepth 100000 in
/-- the histories of P1, P2 and the cutoff variant run without error; the in-use observer reads `{k ↦ (1 + n2) mod 7}`
(P1 `map f1 n2`: the same value for every key), `{k ↦ n2}` (P2 `ret n2`: ONE shared node for all keys) with `n2 = 5`, and
the cutoff variant reads what `ckHist 3` reads -/
theorem ck_run12 : ranOk ckEnv (ckHist 1) = true ∧ ranOk ckEnv (ckHist 2) = true ∧ ranOk ckEnv (ckHistCut 3) = true ∧
    readAfter ckEnv (ckHist 1) 1 = some (.map [(1, 6), (5, 6), (6, 6), (8, 6), (9, 6)]) ∧
    readAfter ckEnv (ckHist 2) 1 = some (.map [(1, 5), (5, 5), (6, 5), (8, 5), (9, 5)]) ∧
    readAfter ckEnv (ckHistCut 3) 1 = some (.map [(1, 3), (5, 6), (6, 0), (8, 6), (9, 5)]) :=
  ⟨by decide +kernel, by decide +kernel, by decide +kernel, by decide +kernel, by decide +kernel, by decide +kernel⟩

end IncrVerif.Proofs.PerKeyH
