import IncrVerif.Proofs.LeakH6
/-!
# C12 over histories, part 7: the static prefix, and the whole-history theorem

`VarLive`: in a history of the static fragment (which has no `dropVar`) every variable cell keeps its handle.
Then: static history ++ drops (any order) ++ one `stabilise` ⇒ `roots = []`.
-/
namespace IncrVerif.Proofs.LeakH
open IncrVerif.Engine IncrVerif.Driver IncrVerif.Proofs IncrVerif.Proofs.Step IncrVerif.Proofs.Sched
open IncrVerif.Proofs.Quiet

def VarLive (s : State) : Prop := ∀ (c : Nat) (vc : VarCell), s.vars[c]? = some vc → vc.handles ≠ 0

theorem varLive_write {env : Env} {s s' : State} {v : Nat} {f : Val → Val} {isSet : Bool} {r : Val}
    (Q : QInv env s) (L : VarLive s) (h : (writeVar v f isSet).run.run s = (.ok r, s')) : VarLive s' := by
  obtain ⟨-, vc, hv, -, hvar, hother⟩ := writeVar_q Q h
  intro c vc' hc
  by_cases hcv : c = v
  · subst hcv
    rw [hvar] at hc
    cases hc
    exact L c vc hv
  · rw [hother c hcv] at hc
    exact L c vc' hc

theorem varLive_step {env : Env} {s s' : State} {a : Action} {tokens : Array Nat} {r : String × Array Nat}
    (Q : QInv env s) (L : VarLive s) (ha : StaticAction env a)
    (h : (stepAction env a tokens).run.run s = (.ok r, s')) : VarLive s' := by
  cases a <;> try exact ha.elim
  case create i =>
    unfold stepAction at h
    simp only at h
    obtain ⟨ro, s1, h1, h2⟩ := bind_ok_inv h
    obtain ⟨k, ero, hk, hkids, C⟩ := elab_static Q ha h1
    rw [ero] at h2
    simp only at h2
    obtain ⟨s2, e2, h3⟩ := bind_modify_inv h2
    obtain ⟨-, e3⟩ := pure_ok_inv h3
    have hv : s'.vars = s1.vars := by rw [e3, e2]
    intro c vc hc
    rw [hv] at hc
    rcases C.vars with ⟨-, e⟩ | ⟨v, -, e⟩
    · rw [e] at hc; exact L c vc hc
    · rw [e, Array.getElem?_push] at hc
      split at hc
      · cases hc; exact Nat.one_ne_zero
      · exact L c vc hc
  case observe n =>
    rw [IncrVerif.Proofs.Life.stepAction_observe_run] at h
    cases hr : IncrVerif.Proofs.Life.resolvePure s [] n with
    | error e => rw [hr] at h; cases h
    | ok m =>
      rw [hr] at h
      obtain ⟨-, e⟩ := Prod.mk.inj h
      rw [← e]; exact L
  case cloneObs o =>
    rw [IncrVerif.Proofs.Life.stepAction_cloneObs_run] at h
    obtain ⟨-, e⟩ := Prod.mk.inj h
    rw [← e]; exact L
  case dropObs o =>
    rw [IncrVerif.Proofs.Life.stepAction_dropObs_run] at h
    obtain ⟨-, e⟩ := Prod.mk.inj h
    intro c vc hc
    rw [← e, (dropObsState_vars s o).1] at hc
    exact L c vc hc
  case disallow o =>
    rw [IncrVerif.Proofs.Life.stepAction_disallow_run] at h
    obtain ⟨-, e⟩ := Prod.mk.inj h
    intro c vc hc
    rw [← e, (disallowState_vars s o).1] at hc
    exact L c vc hc
  case set v x =>
    unfold stepAction at h
    dsimp only at h
    obtain ⟨_, s1, h1, h2⟩ := bind_ok_inv h
    obtain ⟨-, e2⟩ := pure_ok_inv h2
    obtain ⟨r1, h1⟩ := discard_ok_inv h1
    rw [e2]; exact varLive_write Q L h1
  case modify v d =>
    unfold stepAction at h
    dsimp only at h
    obtain ⟨_, s1, h1, h2⟩ := bind_ok_inv h
    obtain ⟨-, e2⟩ := pure_ok_inv h2
    obtain ⟨r1, h1⟩ := discard_ok_inv h1
    rw [e2]; exact varLive_write Q L h1
  case update v d =>
    unfold stepAction at h
    dsimp only at h
    obtain ⟨_, s1, h1, h2⟩ := bind_ok_inv h
    obtain ⟨-, e2⟩ := pure_ok_inv h2
    obtain ⟨r1, h1⟩ := discard_ok_inv h1
    rw [e2]; exact varLive_write Q L h1
  case replace v x =>
    unfold stepAction at h
    dsimp only at h
    obtain ⟨_, s1, h1, h2⟩ := bind_ok_inv h
    obtain ⟨-, e2⟩ := pure_ok_inv h2
    rw [e2]; exact varLive_write Q L h1
  case replaceWith v d =>
    unfold stepAction at h
    dsimp only at h
    obtain ⟨_, s1, h1, h2⟩ := bind_ok_inv h
    obtain ⟨-, e2⟩ := pure_ok_inv h2
    rw [e2]; exact varLive_write Q L h1
  case get v =>
    unfold stepAction at h
    dsimp only at h
    obtain ⟨_, s1, h1, h2⟩ := bind_ok_inv h
    obtain ⟨-, e2⟩ := pure_ok_inv h2
    rw [e2, getVar_ok_inv h1]; exact L
  case isStable =>
    unfold stepAction at h
    dsimp only at h
    rw [run_bind_get] at h
    obtain ⟨-, e2⟩ := pure_ok_inv h
    rw [e2]; exact L
  case stats =>
    unfold stepAction at h
    dsimp only at h
    obtain ⟨-, e2⟩ := pure_ok_inv h
    rw [e2]; exact L
  case stabilise =>
    have R := stabilise_q Q (step_stabilise h)
    intro c vc hc
    rw [R.vars] at hc
    exact L c vc hc

theorem varLive_run {env : Env} {acts : List Action} {s s' : State} {tk tk' : Array Nat}
    (Q : QInv env s) (L : VarLive s) (ha : ∀ a, a ∈ acts → StaticAction env a)
    (h : runActions env acts s tk = .ok (s', tk')) : QInv env s' ∧ VarLive s' := by
  induction acts generalizing s tk with
  | nil => simp only [runActions] at h; cases h; exact ⟨Q, L⟩
  | cons a as ih =>
    simp only [runActions] at h
    rcases hx : (stepAction env a tk).run.run s with ⟨_ | r, s1⟩
    · rw [hx] at h; cases h
    · rw [hx] at h
      have ha1 := ha a (List.mem_cons_self ..)
      exact ih (step_q Q ha1 hx) (varLive_step Q L ha1 hx)
        (fun b hb => ha b (List.mem_cons_of_mem _ hb)) h

theorem varLive_init (N : Nat) (d : Bool) : VarLive (State.init N d) := by
  intro c vc hc
  simp [State.init] at hc

/-- the invariant does not read the ownership counters: `QInv s → QInv (strip s)` -/
theorem qinv_strip {env : Env} {s : State} (Q : QInv env s) : QInv env (strip s) := by
  have hv : VEq s.vars (s.vars.map fun vc => { vc with handles := 1 }) := (veq_strip s.vars).symm
  have hnd : ∀ m, (strip s).nodeD m = s.nodeD m := fun _ => rfl
  have S1 : Struct env { s with vars := s.vars.map fun vc => { vc with handles := 1 } } :=
    ginv_vars Q.struct hv
  refine ⟨S1.congr (SameG.of_nodes rfl rfl rfl rfl rfl), varsOK_veq (a := s) (b := strip s) rfl hnd hv Q.vars,
    ⟨Q.obs.inRange, Q.obs.mem, Q.obs.created, Q.obs.newIn, Q.obs.dis, Q.obs.disIn, Q.obs.disNodup⟩,
    Q.now, Q.stamps, ?_, ?_, Q.status, Q.alive, Q.setDuringStab, rfl, Q.handleAfterStab, Q.handlers, Q.pinv,
    Q.top⟩
  · intro c vc' hc
    obtain ⟨vc, h0, -, -, e⟩ := hv.get_some hc
    show vc'.setAt ≤ s.stabNum
    rw [← e]; exact Q.varStamp c vc h0
  · intro m hm hs
    rw [staleOf_veq (a := s) (b := strip s) hnd hv] at hs
    exact consistent_veq (a := s) (b := strip s) hnd hv (Q.cons m hm hs)

/-- a state in which every variable is held satisfies `DInv` once `QInv` and `ObsDead` hold -/
theorem dinv_of_live {env : Env} {s : State} (Q : QInv env s) (L : VarLive s) (OD : ObsDead s) :
    DInv env s :=
  ⟨qinv_strip Q, OD, fun c vc hc hz _ => absurd hz (L c vc hc)⟩

/-- **state level.** -/
theorem freed_roots {env : Env} {fuel : Nat} {s s' : State} (I : DInv env s) (H : HoldsNothing s)
    (h : (stabilise env fuel).run.run s = (.ok (), s')) : s'.roots = [] :=
  roots_nil_of_freed (stabilise_freed I.q h) H I.od I.vd

/-- **history level.** -/
theorem history_dinv {env : Env} {N : Nat} {d : Bool} {acts drops : List Action} {s : State} {tk : Array Nat}
    (ha : ∀ a, a ∈ acts → StaticAction env a) (hd : ∀ a, a ∈ drops → DropAction a)
    (h : runActions env (acts ++ drops) (State.init N d) #[] = .ok (s, tk)) : DInv env s := by
  rw [runActions_append] at h
  rcases h1 : runActions env acts (State.init N d) #[] with e | ⟨s1, tk1⟩
  · rw [h1] at h; cases h
  · rw [h1] at h
    obtain ⟨Q1, L1⟩ := varLive_run (qinv_init env N d) (varLive_init N d) ha h1
    have OD1 : ObsDead s1 := obsDead_run (obsDead_init N d) h1
    exact drop_run (dinv_of_live Q1 L1 OD1) hd h

end IncrVerif.Proofs.LeakH
