import IncrVerif.Proofs.BindH61
/-!
# Binds, fragment F1, the closure run, part 1: congruences for bind tables that differ in the lists of registered nodes; `GInv1` through growth

`BSame s s'`: the bind tables agree up to `allNodesCreatedOnRhs`.  `Grow1 s s'`: `s'` has the nodes of `s` plus pristine ones.
`grow`: the dynamic part of `GInv1` (all nodes closed) through `Grow1`, given the static part `All1` of the new state.
-/
namespace IncrVerif.Proofs.BindH
open IncrVerif.Engine IncrVerif.Proofs IncrVerif.Proofs.Step IncrVerif.Proofs.Sched IncrVerif.Proofs.Quiet

namespace CN

/-- the bind tables agree up to the lists of registered nodes -/
def BSame (s s' : State) : Prop :=
  ∀ b : Nat, (s.binds[b]? = none ∧ s'.binds[b]? = none) ∨
    ∃ (br : BindRec) (l : List Nat), s.binds[b]? = some br ∧ s'.binds[b]? = some { br with allNodesCreatedOnRhs := l }

theorem BSame.refl (s : State) : BSame s s := by
  intro b
  cases h : s.binds[b]? with
  | none => exact Or.inl ⟨rfl, rfl⟩
  | some br => exact Or.inr ⟨br, br.allNodesCreatedOnRhs, rfl, rfl⟩

theorem BSame.fwd {s s' : State} (h : BSame s s') {b : Nat} {br : BindRec} (hb : s.binds[b]? = some br) :
    ∃ l, s'.binds[b]? = some { br with allNodesCreatedOnRhs := l } := by
  rcases h b with ⟨h1, -⟩ | ⟨br0, l, h1, h2⟩
  · rw [hb] at h1; cases h1
  · rw [hb] at h1; cases h1; exact ⟨l, h2⟩

theorem BSame.bwd {s s' : State} (h : BSame s s') {b : Nat} {br' : BindRec} (hb : s'.binds[b]? = some br') :
    ∃ br, s.binds[b]? = some br ∧ br' = { br with allNodesCreatedOnRhs := br'.allNodesCreatedOnRhs } := by
  rcases h b with ⟨-, h1⟩ | ⟨br0, l, h1, h2⟩
  · rw [hb] at h1; cases h1
  · rw [hb] at h2; cases h2; exact ⟨br0, h1, rfl⟩

/-- the record in the new table: all fields but the list are those of the old record -/
theorem BSame.bwd' {s s' : State} (h : BSame s s') {b : Nat} {br' : BindRec} (hb : s'.binds[b]? = some br') :
    ∃ br, s.binds[b]? = some br ∧ br'.lhs = br.lhs ∧ br'.body = br.body ∧ br'.lhsChange = br.lhsChange ∧
      br'.main = br.main ∧ br'.rhs = br.rhs := by
  obtain ⟨br, h1, e⟩ := h.bwd hb
  refine ⟨br, h1, ?_, ?_, ?_, ?_, ?_⟩ <;> rw [e]

theorem BSame.trans {a b c : State} (h1 : BSame a b) (h2 : BSame b c) : BSame a c := by
  intro k
  rcases h1 k with ⟨e1, e2⟩ | ⟨br, l, e1, e2⟩
  · rcases h2 k with ⟨-, e4⟩ | ⟨br', l', e3, -⟩
    · exact Or.inl ⟨e1, e4⟩
    · rw [e2] at e3; cases e3
  · obtain ⟨l', e3⟩ := h2.fwd e2
    exact Or.inr ⟨br, l', e1, e3⟩

/-- a modification of one record that only touches the list -/
theorem BSame.of_modify {s s' : State} (b : Nat) (g : BindRec → List Nat)
    (h : s'.binds = s.binds.modify b fun x => { x with allNodesCreatedOnRhs := g x }) : BSame s s' := by
  intro k
  rw [h, Array.getElem?_modify]
  by_cases e : b = k
  · rw [if_pos e]
    cases hk : s.binds[k]? with
    | none => exact Or.inl ⟨rfl, rfl⟩
    | some br => exact Or.inr ⟨br, g br, rfl, rfl⟩
  · rw [if_neg e]
    exact BSame.refl s k

/-- the child list of a node of the bind fragment does not read the lists of registered nodes -/
theorem children_congr_C {env : Env} {s s' : State} {n : Nat} (hn : s'.nodeD n = s.nodeD n) (hb : BSame s s')
    (hB : BKind env (s.nodeD n).kind) : s'.children n = s.children n := by
  unfold State.children Node.kind?
  rw [hn]
  cases hvv : (s.nodeD n).valid
  · rfl
  · cases h : (s.nodeD n).kind with
    | bindLhsChange b =>
      simp only [if_true]
      rcases hb b with ⟨h1, h2⟩ | ⟨br, l, h1, h2⟩ <;> simp only [h1, h2]
    | bindMain b lc =>
      simp only [if_true]
      rcases hb b with ⟨h1, h2⟩ | ⟨br, l, h1, h2⟩ <;> simp only [h1, h2]
    | _ => rw [h] at hB; first | rfl | exact False.elim hB

/-- staleness of a node of the bind fragment: what it reads -/
theorem isStale_congr_C {env : Env} {s s' : State} {m : Nat} (hB : BKind env (s.nodeD m).kind)
    (hn : s'.nodeD m = s.nodeD m) (hch : s'.children m = s.children m) (hvars : s'.vars = s.vars)
    (hc : ∀ c, c ∈ s.children m → (s'.nodeD c).changedAt = (s.nodeD c).changedAt) :
    s'.isStale m = s.isStale m := by
  unfold State.isStale
  simp only [hch, hn, hvars]
  have hany : ((s.children m).any fun c => decide ((s'.nodeD c).changedAt > (s.nodeD m).recomputedAt)) =
      ((s.children m).any fun c => decide ((s.nodeD c).changedAt > (s.nodeD m).recomputedAt)) := by
    apply any_congr'
    intro a ha
    rw [hc a ha]
  rw [hany]
  unfold Node.kind?
  cases hvv : (s.nodeD m).valid
  · rfl
  · cases h : (s.nodeD m).kind <;> rw [h] at hB <;> first | rfl | exact False.elim hB

/-- `s'` has the nodes of `s` plus pristine ones; the bind tables agree up to the lists of registered nodes -/
structure Grow1 (s s' : State) : Prop where
  size : s.nodes.size ≤ s'.nodes.size
  old : ∀ m, m < s.nodes.size → s'.nodeD m = s.nodeD m
  new : ∀ m, s.nodes.size ≤ m → m < s'.nodes.size →
    (s'.nodeD m).valid = true ∧ (s'.nodeD m).parents = [] ∧ (s'.nodeD m).observers = [] ∧
      (s'.nodeD m).forceNecessary = false ∧ (s'.nodeD m).heightInRch = -1 ∧ (s'.nodeD m).heightInAhh = -1
  binds : BSame s s'
  vars : s'.vars = s.vars
  rch : s'.rch = s.rch
  ahh : s'.ahh = s.ahh

namespace Grow1
variable {env : Env} {s s' : State} {ex : Nat → Prop} {dy dy' : List Nat}

/-- a node outside `s`: pristine in `s'` -/
theorem fresh (G : Grow1 s s') {m : Nat} (hm : s.nodes.size ≤ m) :
    (s'.nodeD m).valid = true ∧ (s'.nodeD m).parents = [] ∧ (s'.nodeD m).observers = [] ∧
      (s'.nodeD m).forceNecessary = false ∧ (s'.nodeD m).heightInRch = -1 ∧ (s'.nodeD m).heightInAhh = -1 := by
  by_cases h : m < s'.nodes.size
  · exact G.new m hm h
  · rw [nodeD_default s' m (by omega)]
    exact ⟨rfl, rfl, rfl, rfl, rfl, rfl⟩

theorem nec_new (G : Grow1 s s') {m : Nat} (hm : s.nodes.size ≤ m) : s'.isNecessary m = false := by
  obtain ⟨-, h1, h2, h3, -⟩ := G.fresh hm
  simp only [State.isNecessary, Node.isNecessary, h1, h2, h3]
  rfl

theorem nec_old (G : Grow1 s s') {m : Nat} (hm : m < s.nodes.size) : s'.isNecessary m = s.isNecessary m := by
  rw [State.isNecessary, State.isNecessary, G.old m hm]

theorem lt_of_nec (G : Grow1 s s') {m : Nat} (h : s'.isNecessary m = true) : m < s.nodes.size := by
  rcases Nat.lt_or_ge m s.nodes.size with h1 | h1
  · exact h1
  · rw [G.nec_new h1] at h; cases h

theorem lt_of_par (G : Grow1 s s') {m : Nat} {x : Nat × Nat} (h : x ∈ (s'.nodeD m).parents) : m < s.nodes.size := by
  rcases Nat.lt_or_ge m s.nodes.size with h1 | h1
  · exact h1
  · rw [(G.fresh h1).2.1] at h; cases h

theorem lt_of_inRch (G : Grow1 s s') {m : Nat} (h : (s'.nodeD m).inRch = true) : m < s.nodes.size := by
  rcases Nat.lt_or_ge m s.nodes.size with h1 | h1
  · exact h1
  · unfold Node.inRch at h
    rw [(G.fresh h1).2.2.2.2.1] at h
    simp at h

theorem children_old (G : Grow1 s s') (A : All1 env s dy) {m : Nat} (hm : m < s.nodes.size) :
    s'.children m = s.children m :=
  children_congr_C (G.old m hm) G.binds (A.node m hm).kind

theorem isStale_old (G : Grow1 s s') (A : All1 env s dy) {m : Nat} (hm : m < s.nodes.size) :
    s'.isStale m = s.isStale m :=
  isStale_congr_C (A.node m hm).kind (G.old m hm) (G.children_old A hm) G.vars
    (fun c hc => by rw [G.old c ((A.node m hm).kidsIn c hc)])

theorem heapWF (G : Grow1 s s') (h : HeapWF s) : HeapWF s' := by
  rw [← HWF_release_iff] at h ⊢
  unfold HWF at *
  have e : markerOf s'.nodes = markerOf s.nodes := by
    funext m
    show (s'.nodeD m).heightInRch = (s.nodeD m).heightInRch
    rcases Nat.lt_or_ge m s.nodes.size with h1 | h1
    · rw [G.old m h1]
    · rw [(G.fresh h1).2.2.2.2.1, nodeD_default s m h1]; rfl
  rw [G.rch, e]; exact ⟨h.1, by simp⟩

theorem ahhEmpty (G : Grow1 s s') (h : AhhEmpty s) : AhhEmpty s' := by
  refine ⟨by rw [G.ahh]; exact h.length, ?_, ?_⟩
  · rw [G.ahh]; exact h.buckets
  · intro m
    rcases Nat.lt_or_ge m s.nodes.size with h1 | h1
    · rw [G.old m h1]; exact h.marks m
    · exact (G.fresh h1).2.2.2.2.2

/-- **`GInv1` through growth**: the dynamic part, given the static part of the new state -/
theorem ginv1 (G : Grow1 s s') (I : GInv1 env s allClosed ex dy) (A' : All1 env s' dy') :
    GInv1 env s' allClosed ex dy' := by
  have A := I.frag
  have wants_old : ∀ {p i}, p < s.nodes.size → (Wants s' allClosed p i ↔ Wants s allClosed p i) := by
    intro p i hp
    rw [wants_closed rfl, wants_closed rfl, G.nec_old hp]
  refine
    { frag := A'
      par := ?_, conv := ?_, nodup := ?_, hlt := ?_, hpos := ?_
      lnec := fun p k ho => by cases ho
      unec := fun p k ho => by cases ho
      heap := ⟨G.heapWF I.heap.wf, ?_, by rw [G.rch]; exact I.heap.lb0⟩
      hgt := ?_, qnec := ?_, queued := ?_, qstale := ?_
      opLt := fun m ho => absurd rfl ho
      scopeH := ?_, inv := ?_, scopeObs := ?_, lcObs := ?_ }
  · intro c p i h
    have hc := G.lt_of_par h
    rw [G.old c hc] at h
    obtain ⟨h1, h2⟩ := I.par c p i h
    have hp := children_lt_size h1
    rw [G.children_old A hp, wants_old hp]
    exact ⟨h1, h2⟩
  · intro p i c hk hw
    have hp : p < s.nodes.size := G.lt_of_nec ((wants_closed rfl).1 hw)
    rw [G.children_old A hp] at hk
    rw [wants_old hp] at hw
    have hm := I.conv p i c hk hw
    rw [G.old c (mem_parents_lt_size hm)]; exact hm
  · intro c
    rcases Nat.lt_or_ge c s.nodes.size with h1 | h1
    · rw [G.old c h1]; exact I.nodup c
    · rw [(G.fresh h1).2.1]; exact List.nodup_nil
  · intro c p i h ho
    have hc := G.lt_of_par h
    rw [G.old c hc] at h
    have hp := children_lt_size (I.par c p i h).1
    rw [G.old c hc, G.old p hp]
    exact I.hlt c p i h ho
  · intro n hn ho
    have e := G.lt_of_nec hn
    rw [G.nec_old e] at hn
    rw [G.old n e]; exact I.hpos n hn ho
  · intro m hq
    have hlt := G.lt_of_inRch hq
    rw [G.old m hlt] at hq
    rw [G.rch, G.old m hlt]; exact I.heap.lb m hq
  · intro m hq ho
    have hlt := G.lt_of_inRch hq
    rw [G.old m hlt] at hq ⊢
    exact I.hgt m hq ho
  · intro m hq
    have hlt := G.lt_of_inRch hq
    rw [G.old m hlt] at hq
    rw [G.nec_old hlt]; exact I.qnec m hq
  · intro m ho hn hs hx
    have hlt := G.lt_of_nec hn
    rw [G.nec_old hlt] at hn
    rw [G.isStale_old A hlt] at hs
    rw [G.old m hlt]; exact I.queued m ho hn hs hx
  · intro m hq
    have hlt := G.lt_of_inRch hq
    rw [G.old m hlt] at hq
    rw [G.isStale_old A hlt]; exact I.qstale m hq
  · intro n b br' hv hsc hb hn ho
    have hlt := G.lt_of_nec hn
    obtain ⟨br, hb0, e⟩ := G.binds.bwd hb
    have hl : br'.lhsChange = br.lhsChange := by rw [e]
    obtain ⟨h1, h2, -⟩ := A.recs b br hb0
    rw [G.nec_old hlt] at hn
    rw [G.old n hlt] at hv hsc ⊢
    rw [hl, G.old br.lhsChange (by omega)]
    exact I.scopeH n b br hv hsc hb0 hn ho
  · intro m hv
    rcases Nat.lt_or_ge m s.nodes.size with h1 | h1
    · rw [G.old m h1] at hv ⊢
      exact I.inv m hv
    · rw [(G.fresh h1).1] at hv; cases hv
  · intro m b h
    rcases Nat.lt_or_ge m s.nodes.size with h1 | h1
    · rw [G.old m h1] at h ⊢
      exact I.scopeObs m b h
    · exact (G.fresh h1).2.2.1
  · intro m b h
    rcases Nat.lt_or_ge m s.nodes.size with h1 | h1
    · rw [G.old m h1] at h ⊢
      exact I.lcObs m b h
    · exact (G.fresh h1).2.2.1

end Grow1

end CN

end IncrVerif.Proofs.BindH
