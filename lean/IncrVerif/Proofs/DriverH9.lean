import IncrVerif.Proofs.DriverH1
import IncrVerif.Proofs.ExpertH48
/-!
# Drivers: the contract of `expert_make_stale` between two effects (`StaleSpec`)

`expertMakeStale x` on an expert node `x` (record `e`/`er`): nothing happens when `er.forceStale` is already up;
otherwise the record gets `forceStale := true` (`Xp.forced`) — in the virtual state a `Rekind` of `x` with the SAME
kind (`recomputedAt := -1`) — and `x` is inserted into the recompute heap when it is necessary and not queued.
* `rekind_forced`, `XFrag.forced`, `EF.forced`, `EF.inserted`: the bookkeeping.
* `allStatic_rekind_same`, `GInv.open_same`, `GInv.restale_nec`: the structural part for a necessary node (the node is
  opened `.linking (K + 1)`, `K` the number of its children, and closed again by `close_phase`).
* `staleSpec`.
-/
namespace IncrVerif.Proofs.DriverH
open IncrVerif.Engine IncrVerif.Driver IncrVerif.Proofs IncrVerif.Proofs.Step IncrVerif.Proofs.Sched
open IncrVerif.Proofs.ExpertH IncrVerif.Proofs.ExpertH.QR IncrVerif.Proofs.Xp

/-! ## the record update -/

section
variable {E : Env} {s : State} {x e : Nat} {er : ExpertRec}

theorem forced_get (hx : s.experts[e]? = some er) :
    (Xp.forced e er s).experts[e]? = some { er with forceStale := true } :=
  putExpert_get _ hx

theorem forced_get_ne {e' : Nat} (h : e' ≠ e) : (Xp.forced e er s).experts[e']? = s.experts[e']? :=
  putExpert_get_ne _ _ (Ne.symm h)

theorem forced_xRec_ne {e' : Nat} (h : e' ≠ e) : xRec (Xp.forced e er s).experts e' = xRec s.experts e' := by
  unfold xRec; rw [forced_get_ne h]

theorem forced_xRec (hx : s.experts[e]? = some er) :
    xRec (Xp.forced e er s).experts e = { er with forceStale := true } :=
  xRec_some (forced_get hx)

/-- **setting `forceStale` is a `Rekind` of the virtual node with the same kind** -/
theorem rekind_forced (F : XFrag E s) (hk : (s.nodeD x).kind = .expert e) (hx : s.experts[e]? = some er) :
    Rekind x ((virt s).nodeD x).kind (virt s) (virt (Xp.forced e er s)) := by
  have hlt := F.lt_of_expert hk
  refine ⟨by rw [virt_size]; exact hlt, by rw [virt_size, virt_size]; rfl, rfl, rfl, rfl, rfl, rfl, ?_, ?_⟩
  · intro m hm
    rw [virt_nodeD, virt_nodeD]
    show virtNode _ (s.nodeD m) = _
    apply virtNode_congrD
    intro e' he'
    have : e' ≠ e := by
      intro h; rw [h] at he'; exact hm (F.xinj he' hk)
    exact forced_xRec_ne this
  · rw [virt_nodeD, virt_nodeD]
    show virtNode _ (s.nodeD x) = _
    unfold virtNode
    simp only [hk, virtKind, ExpertH.forced, forced_xRec hx, xRec_some hx, if_true]

theorem XFrag.forced (F : XFrag E s) (hx : s.experts[e]? = some er) : XFrag E (Xp.forced e er s) where
  pc := F.pc
  kind := F.kind
  valid := F.valid
  xrec m e' hm hk' := by
    obtain ⟨er', h1, h2⟩ := F.xrec m e' hm hk'
    by_cases h : e' = e
    · subst h
      rw [hx] at h1; cases h1
      exact ⟨_, forced_get hx, h2⟩
    · exact ⟨er', by rw [forced_get_ne h]; exact h1, h2⟩
  xok e' er' h' := by
    by_cases h : e' = e
    · subst h
      rw [forced_get hx] at h'; cases h'
      exact F.xok e' er hx
    · rw [forced_get_ne h] at h'; exact F.xok e' er' h'

theorem EF.forced (D : Nat → Prop) (hD : D e) (hx : s.experts[e]? = some er) : EF D s (Xp.forced e er s) := by
  refine ⟨rfl, fun _ => rfl, rfl, by simp [Xp.forced, putExpert], ?_, ?_, ?_, Nat.le_refl _⟩
  · intro e' er' h'
    by_cases h : e' = e
    · subst h; rw [hx] at h'; cases h'
      exact ⟨_, forced_get hx, rfl, rfl, rfl⟩
    · exact ⟨er', by rw [forced_get_ne h]; exact h', rfl, rfl, rfl⟩
  · intro e' er1 er2 hnD h1 h2
    have h : e' ≠ e := fun h => hnD (h ▸ hD)
    rw [forced_get_ne h, h1] at h2; cases h2; rfl
  · intro e' er1 er2 h1 h2
    by_cases h : e' = e
    · subst h; rw [forced_get hx] at h2; cases h2; exact Or.inr rfl
    · rw [forced_get_ne h, h1] at h2; cases h2; exact Or.inl ⟨rfl, rfl⟩

theorem EF.inserted (D : Nat → Prop) (n : Nat) (h : Int) (s : State) : EF D s (inserted n h s) := by
  refine ⟨Array.size_modify .., fun m => ?_, ?_, rfl, fun _ er h => ⟨er, h, rfl, rfl, rfl⟩,
    fun e er er' _ h h' => ?_, fun e er er' h h' => ?_, Nat.le_refl _⟩
  · rw [inserted_nodeD]; split <;> rfl
  · simp [eKey, IncrVerif.Proofs.inserted]
  · have h'' : s.experts[e]? = some er' := h'
    rw [h] at h''; cases h''; rfl
  · have h'' : s.experts[e]? = some er' := h'
    rw [h] at h''; cases h''; exact Or.inl ⟨rfl, rfl⟩

end

/-! ## the structural part -/

section
variable {env : Env} {rk : Nat → Nat} {n : Nat} {S S2 S' : State}

/-- a `Rekind` with the same kind keeps the static facts, with the same rank -/
theorem allStatic_rekind_same (A : AllStatic env rk S) (R : Rekind n (S.nodeD n).kind S S2) :
    AllStatic env rk S2 := by
  have hkind : ∀ m, (S2.nodeD m).kind = (S.nodeD m).kind := by
    intro m
    by_cases h : m = n
    · rw [h]; exact R.kind_self
    · exact R.kind_other h
  have hrest : ∀ m, (S2.nodeD m).valid = (S.nodeD m).valid ∧ (S2.nodeD m).cutoff = (S.nodeD m).cutoff ∧
      (S2.nodeD m).createdIn = (S.nodeD m).createdIn ∧
      (S2.nodeD m).forceNecessary = (S.nodeD m).forceNecessary := by
    intro m
    by_cases h : m = n
    · rw [h, R.self]; exact ⟨rfl, rfl, rfl, rfl⟩
    · rw [R.other m h]; exact ⟨rfl, rfl, rfl, rfl⟩
  refine ⟨by rw [R.pc]; exact A.pc, by rw [R.scope]; exact A.scope, fun m hm => ?_, A.inj,
    by rw [R.size]; exact A.top⟩
  have sn := A.node m (by rw [← R.size]; exact hm)
  obtain ⟨h1, h2, h3, h4⟩ := hrest m
  exact ⟨by rw [h1]; exact sn.valid, by rw [hkind]; exact sn.kind, by rw [h2]; exact sn.cutoff,
    by rw [h3]; exact sn.top, by rw [h4]; exact sn.force, by rw [hkind]; exact sn.kidsLt,
    by rw [hkind, R.size]; exact sn.kidsIn⟩

/-- **a necessary closed node whose `recomputedAt` is reset is opened**: `.linking (K + 1)`, `K` the number of its
children (all its child edges are recorded) -/
theorem GInv.open_same (I : GInv env rk S allClosed) (R : Rekind n (S.nodeD n).kind S S2)
    (hn : S.isNecessary n = true) (hst : staleOf S2 n = true) :
    GInv env rk S2 (upd allClosed n (.linking ((kids (S.nodeD n).kind).length + 1))) := by
  have hopn : upd allClosed n (.linking ((kids (S.nodeD n).kind).length + 1)) n =
      .linking ((kids (S.nodeD n).kind).length + 1) := upd_self ..
  have hopo : ∀ m, m ≠ n → upd allClosed n (.linking ((kids (S.nodeD n).kind).length + 1)) m = .closed :=
    fun m h => upd_other _ _ _ h
  have hkind : ∀ m, (S2.nodeD m).kind = (S.nodeD m).kind := by
    intro m
    by_cases h : m = n
    · rw [h]; exact R.kind_self
    · exact R.kind_other h
  refine { static := allStatic_rekind_same I.static R, par := ?_, conv := ?_, nodup := ?_, hlt := ?_, hpos := ?_,
           lnec := ?_, unec := ?_, heap := R.heap I.heap, hgt := ?_, qnec := ?_, queued := ?_, qstale := ?_,
           opLt := ?_ }
  · intro c' p i hm
    rw [R.parents] at hm
    obtain ⟨h1, h2⟩ := I.par c' p i hm
    rw [hkind]
    refine ⟨h1, ?_⟩
    by_cases e : p = n
    · subst e
      have hi : i < (kids (S.nodeD p).kind).length := by
        rcases Nat.lt_or_ge i (kids (S.nodeD p).kind).length with h | h
        · exact h
        · rw [List.getElem?_eq_none h] at h1; cases h1
      rw [wants_linking hopn]; omega
    · rw [wants_closed (hopo p e), R.nec]
      exact (wants_closed rfl).1 h2
  · intro p i c' hkp hw
    rw [R.parents]
    rw [hkind] at hkp
    by_cases e : p = n
    · subst e
      exact I.conv p i c' hkp ((wants_closed rfl).2 hn)
    · rw [wants_closed (hopo p e), R.nec] at hw
      exact I.conv p i c' hkp ((wants_closed rfl).2 hw)
  · intro c'; rw [R.parents]; exact I.nodup c'
  · intro c' p i hm ho
    rw [R.parents] at hm
    rw [R.height, R.height]; exact I.hlt c' p i hm rfl
  · intro m hm ho
    rw [R.nec] at hm; rw [R.height]; exact I.hpos m hm rfl
  · intro p k ho
    by_cases e : p = n
    · rw [e, R.nec]; exact hn
    · rw [hopo p e] at ho; cases ho
  · intro p k ho
    by_cases e : p = n
    · rw [e, hopn] at ho; cases ho
    · rw [hopo p e] at ho; cases ho
  · intro m hq ho
    rw [R.inRch] at hq
    rw [R.heightInRch, R.height]; exact I.hgt m hq rfl
  · intro m hq
    rw [R.inRch] at hq
    rw [R.nec]
    rcases I.qnec m hq with h | ⟨k, h⟩
    · exact Or.inl h
    · cases h
  · intro m ho hm hs
    have hne : m ≠ n := by intro e; rw [e, hopn] at ho; cases ho
    rw [R.nec] at hm
    rw [R.staleOf_other hne] at hs
    rw [R.inRch]; exact I.queued m rfl hm hs
  · intro m hq
    by_cases e : m = n
    · rw [e]; exact hst
    · rw [R.inRch] at hq
      rw [R.staleOf_other e]; exact I.qstale m hq
  · intro m ho
    by_cases e : m = n
    · rw [e, R.size]; exact R.lt
    · rw [hopo m e] at ho; exact absurd rfl ho

/-- **a necessary node is made stale**: once it is queued (it was already, or `rchInsert` has just run) the
structure holds again, with the same rank -/
theorem GInv.restale_nec (I : GInv env rk S allClosed) (R : Rekind n (S.nodeD n).kind S S2)
    (hn : S.isNecessary n = true) (hst : staleOf S2 n = true)
    (hcase : ((S2.nodeD n).inRch = true ∧ S' = S2) ∨
      ((S2.nodeD n).inRch = false ∧ (rchInsert n).run.run S2 = (.ok (), S'))) :
    Struct env rk S' := by
  have I2 := GInv.open_same I R hn hst
  refine close_phase I2 ?_ ?_ ?_ ?_ hst hcase
  · rw [R.kind_self]; exact Nat.le_succ _
  · intro c' i hm
    rw [R.parents] at hm
    rw [R.height, R.height]; exact I.hlt c' n i hm rfl
  · rw [R.height]; exact I.hpos n hn rfl
  · intro hq
    rw [R.inRch] at hq
    rw [R.heightInRch, R.height]; exact I.hgt n hq rfl

end

/-! ## the contract -/

theorem staleSpec (E : Env) : StaleSpec E := by
  intro x e s s' er M hlt hk hx h
  have F := M.frag
  obtain ⟨rk, I⟩ := M.st
  have hxI : IsExpert s x (s.nodeD x) e er := ⟨some_of_lt hlt, F.valid x hlt, hk, hx⟩
  cases hr : runningOk s x
  · obtain ⟨p, hp⟩ := expertMakeStale_assert_fails hxI hr
    rw [hp] at h; cases h
  rw [expertMakeStale_run hxI hr] at h
  by_cases hf : er.forceStale = true
  · rw [if_pos hf] at h
    have e' : s' = s := by cases h; rfl
    subst e'
    exact ⟨M, EF.refl _ _, rfl, ⟨er, hx, rfl, rfl, rfl, hf⟩, fun _ => rfl⟩
  rw [if_neg hf] at h
  -- the record update
  have F1 : XFrag E (Xp.forced e er s) := XFrag.forced F hx
  have A1 : AhhEmpty (Xp.forced e er s) := ahhEmpty_of_ahf M.ahh (AhF.of_nodes rfl rfl)
  have R := rekind_forced F hk hx
  have E1 : EF (fun e' => e' = e) s (Xp.forced e er s) := EF.forced _ rfl hx
  have hkv : ((virt s).nodeD x).kind = .fold (xBase + er.f) (.int 0) (er.children.map (·.child)) := by
    rw [virt_nodeD, virtNode_kind, hk]; simp only [virtKind, xRec_some hx]
  have hst : staleOf (virt (Xp.forced e er s)) x = true := by
    unfold staleOf; rw [R.kind_self, R.rec_self, hkv]; simp
  have hp1 : (Xp.forced e er s).propagateInvalidity = [] := M.pinv
  by_cases hc : ((s.nodeD x).isNecessary && !(s.nodeD x).inRch) = true
  · -- necessary, not queued: inserted
    rw [if_pos hc] at h
    simp only [Bool.and_eq_true, Bool.not_eq_true'] at hc
    obtain ⟨hv, fr'⟩ := Sim.rchInsert x _ (F1.fr hp1) _ s' h
    have S' : Struct (virtEnv E) rk (virt s') :=
      GInv.restale_nec I R (by rw [virt_isNecessary]; exact hc.1) hst
        (Or.inr ⟨by rw [virt_nodeD]; exact hc.2, hv⟩)
    obtain ⟨nd', -, -, -, e'⟩ := rchInsert_ok_inv h
    have E2 : EF (fun e' => e' = e) (Xp.forced e er s) s' := by rw [e']; exact EF.inserted ..
    refine ⟨⟨F1.of_xf ((PresX.rchInsert x).h _ _ _ h) fr', ahhEmpty_of_ahf A1 ((PresAh.rchInsert x).h _ _ _ h),
      ⟨rk, S'⟩, fr'.pinv, ?_⟩, E1.trans E2, by rw [e']; rfl, ⟨{ er with forceStale := true }, ?_, rfl, rfl, rfl, rfl⟩, ?_⟩
    · intro m
      rw [e', inserted_nodeD]
      split
      · exact M.handlers m
      · exact M.handlers m
    · rw [e']; exact forced_get hx
    · intro m; rw [e']; exact inserted_isNecessary ..
  · rw [if_neg hc] at h
    have e' : s' = Xp.forced e er s := by cases h; rfl
    subst e'
    have S' : Struct (virtEnv E) rk (virt (Xp.forced e er s)) := by
      cases hnec : (s.nodeD x).isNecessary
      · exact GInv.rekind_unnec I R (allStatic_rekind_same I.static R) (by rw [virt_isNecessary]; exact hnec)
      · have hq : (s.nodeD x).inRch = true := by
          cases hq : (s.nodeD x).inRch
          · exact absurd (by rw [hnec, hq]; rfl) hc
          · rfl
        exact GInv.restale_nec I R (by rw [virt_isNecessary]; exact hnec) hst
          (Or.inl ⟨by rw [virt_nodeD]; exact hq, rfl⟩)
    exact ⟨⟨F1, A1, ⟨rk, S'⟩, hp1, M.handlers⟩, E1, rfl, ⟨{ er with forceStale := true }, forced_get hx,
      rfl, rfl, rfl, rfl⟩, fun _ => rfl⟩

end IncrVerif.Proofs.DriverH
