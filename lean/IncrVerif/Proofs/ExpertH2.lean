import IncrVerif.Proofs.ExpertH1
/-!
# Expert nodes over whole histories, part 2: the fragment, ranks, from-scratch evaluation

* `XEnvOK env f`: the recompute closure `f` of an expert node is "sum of the dependencies modulo m" (`xStep f`),
  whatever the callbacks stored.
* `XFrag env s`: every node is valid and of a kind of the fragment static + expert; expert nodes and expert records
  name each other; the records are user-defined (`pk = none`), count no invalid children, and their closures are
  `XEnvOK`.
* `Below s a b`: `b` is reachable from `a` through child edges.  `RankOK rk s`: `rk` is an injective rank that
  decreases along every child edge (of necessary and unnecessary nodes); `RankOK.addEdge`: a new edge `n → c` that
  closes no cycle (`¬ Below s c n`) admits a rank again.
* `evalX env s k n`: from-scratch evaluation; an expert node evaluates to the fold of `xStep f` over the from-scratch
  values of its CURRENT dependencies; `eval_virt`: it is `Sched.eval` of the virtual state.
-/
namespace IncrVerif.Proofs.ExpertH
open IncrVerif.Engine IncrVerif.Driver IncrVerif.Proofs IncrVerif.Proofs.Step IncrVerif.Proofs.Sched

/-- the closure `f` is the sum of the dependencies' values modulo `f / 10` -/
def XEnvOK (env : Env) (f : Nat) : Prop :=
  ∀ (vals : List Val) (slots : List (Option Val)),
    env.expertFn f (vals.map some) slots = vals.foldl (xStep f) (.int 0)

structure XFrag (env : Env) (s : State) : Prop where
  pc : s.panicCountdown = none
  kind : ∀ n, n < s.nodes.size → XKind env (s.nodeD n).kind
  valid : ∀ n, n < s.nodes.size → (s.nodeD n).valid = true
  /-- expert nodes and expert records name each other -/
  xrec : ∀ n e, n < s.nodes.size → (s.nodeD n).kind = .expert e → ∃ er, s.experts[e]? = some er ∧ er.node = n
  xok : ∀ (e : Nat) (er : ExpertRec), s.experts[e]? = some er →
    er.pk = none ∧ er.numInvalidChildren = 0 ∧ XEnvOK env er.f ∧ er.f < xBase

theorem XFrag.kindD {env : Env} {s : State} (F : XFrag env s) (n : Nat) : XKind env (s.nodeD n).kind := by
  by_cases hn : n < s.nodes.size
  · exact F.kind n hn
  · rw [nodeD_default_of_ge s n (by omega)]; trivial

theorem XFrag.validD {env : Env} {s : State} (F : XFrag env s) (n : Nat) : (s.nodeD n).valid = true := by
  by_cases hn : n < s.nodes.size
  · exact F.valid n hn
  · rw [nodeD_default_of_ge s n (by omega)]; rfl

theorem XFrag.noMapRef {env : Env} {s : State} (F : XFrag env s) (m p i : Nat) : (s.nodeD m).kind ≠ .mapRef p i := by
  intro h; have := F.kindD m; rw [h] at this; exact this

/-- two expert nodes never share a record -/
theorem XFrag.xinj {env : Env} {s : State} (F : XFrag env s) {n m e : Nat}
    (hn : (s.nodeD n).kind = .expert e) (hm : (s.nodeD m).kind = .expert e) : n = m := by
  have ln : n < s.nodes.size := by
    by_cases h : n < s.nodes.size
    · exact h
    · rw [nodeD_default_of_ge s n (by omega)] at hn; cases hn
  have lm : m < s.nodes.size := by
    by_cases h : m < s.nodes.size
    · exact h
    · rw [nodeD_default_of_ge s m (by omega)] at hm; cases hm
  obtain ⟨er, h1, h2⟩ := F.xrec n e ln hn
  obtain ⟨er', h1', h2'⟩ := F.xrec m e lm hm
  rw [h1] at h1'; cases h1'
  rw [← h2, ← h2']

/-! ## ranks -/

/-- `b` is reachable from `a` through child edges -/
inductive Below (s : State) : Nat → Nat → Prop
  | refl (a : Nat) : Below s a a
  | step {a b c : Nat} : b ∈ kidsX s.experts (s.nodeD a).kind → Below s b c → Below s a c

theorem Below.tail {s : State} {a b c : Nat} (h : Below s a b) (hc : c ∈ kidsX s.experts (s.nodeD b).kind) :
    Below s a c := by
  induction h with
  | refl a => exact .step hc (.refl c)
  | step h1 _ ih => exact .step h1 (ih hc)

theorem Below.trans {s : State} {a b c : Nat} (h : Below s a b) (h2 : Below s b c) : Below s a c := by
  induction h with
  | refl a => exact h2
  | step h1 _ ih => exact .step h1 (ih h2)

/-- an injective rank that decreases along every child edge; the nodes that do not exist yet rank above the
existing ones, in index order -/
structure RankOK (rk : Nat → Nat) (s : State) : Prop where
  kidsLt : ∀ n, n < s.nodes.size → ∀ c, c ∈ kidsX s.experts (s.nodeD n).kind → rk c < rk n
  kidsIn : ∀ n, n < s.nodes.size → ∀ c, c ∈ kidsX s.experts (s.nodeD n).kind → c < s.nodes.size
  inj : ∀ a b, rk a = rk b → a = b
  top : ∃ K, (∀ m, s.nodes.size ≤ m → rk m = K + m) ∧ (∀ k, k < s.nodes.size → rk k < K + s.nodes.size)

theorem kidsX_default (xs : Array ExpertRec) : kidsX xs (default : Node).kind = [] := rfl

theorem RankOK.below_lt {rk : Nat → Nat} {s : State} (R : RankOK rk s) {a b : Nat} (h : Below s a b)
    (ha : a < s.nodes.size) : b < s.nodes.size ∧ rk b ≤ rk a := by
  induction h with
  | refl a => exact ⟨ha, Nat.le_refl _⟩
  | step h1 _ ih =>
    have := ih (R.kidsIn _ ha _ h1)
    have := R.kidsLt _ ha _ h1
    omega

/-- a rank excludes cycles -/
theorem RankOK.acyclic {rk : Nat → Nat} {s : State} (R : RankOK rk s) {n c : Nat} (hn : n < s.nodes.size)
    (hc : c ∈ kidsX s.experts (s.nodeD n).kind) : ¬ Below s c n := by
  intro h
  have := (R.below_lt h (R.kidsIn n hn c hc)).2
  have := R.kidsLt n hn c hc
  omega

open Classical in
/-- the rank after adding the edge `n → c`: what is below `c` keeps its rank, everything else is shifted above -/
noncomputable def rerank (rk : Nat → Nat) (s : State) (c : Nat) (K0 : Nat) : Nat → Nat :=
  fun m => if Below s c m then rk m else rk m + K0

/-- **a new edge that closes no cycle admits a rank.**  `s'` is `s` with one more child edge `n → c`. -/
theorem RankOK.addEdge {rk : Nat → Nat} {s s' : State} (R : RankOK rk s) {n c : Nat}
    (hn : n < s.nodes.size) (hc : c < s.nodes.size) (hacyc : ¬ Below s c n)
    (hsz : s'.nodes.size = s.nodes.size)
    (hother : ∀ m, m ≠ n → kidsX s'.experts (s'.nodeD m).kind = kidsX s.experts (s.nodeD m).kind)
    (hself : kidsX s'.experts (s'.nodeD n).kind = kidsX s.experts (s.nodeD n).kind ++ [c]) :
    ∃ rk', RankOK rk' s' := by
  obtain ⟨K, hK1, hK2⟩ := R.top
  refine ⟨rerank rk s c (K + s.nodes.size), ?_⟩
  have hD : ∀ m, Below s c m → m < s.nodes.size ∧ rk m < K + s.nodes.size := by
    intro m hm
    have := R.below_lt hm hc
    exact ⟨this.1, hK2 m this.1⟩
  have hkids : ∀ a b, a < s.nodes.size → b ∈ kidsX s'.experts (s'.nodeD a).kind →
      (b ∈ kidsX s.experts (s.nodeD a).kind) ∨ (a = n ∧ b = c) := by
    intro a b _ hb
    by_cases han : a = n
    · subst han
      rw [hself] at hb
      rcases List.mem_append.1 hb with h | h
      · exact Or.inl h
      · exact Or.inr ⟨rfl, by simpa using h⟩
    · rw [hother a han] at hb; exact Or.inl hb
  refine ⟨?_, ?_, ?_, ?_⟩
  · intro a ha b hb
    rw [hsz] at ha
    unfold rerank
    rcases hkids a b ha hb with h | ⟨rfl, rfl⟩
    · have hlt := R.kidsLt a ha b h
      by_cases hda : Below s c a
      · rw [if_pos hda, if_pos (hda.tail h)]; exact hlt
      · rw [if_neg hda]
        by_cases hdb : Below s c b
        · rw [if_pos hdb]; omega
        · rw [if_neg hdb]; omega
    · rw [if_neg hacyc, if_pos (Below.refl _)]
      have := (hD b (Below.refl _)).2
      omega
  · intro a ha b hb
    rw [hsz] at ha ⊢
    rcases hkids a b ha hb with h | ⟨rfl, rfl⟩
    · exact R.kidsIn a ha b h
    · exact hc
  · intro a b hab
    unfold rerank at hab
    by_cases hda : Below s c a <;> by_cases hdb : Below s c b
    · rw [if_pos hda, if_pos hdb] at hab; exact R.inj a b hab
    · rw [if_pos hda, if_neg hdb] at hab
      have := (hD a hda).2; omega
    · rw [if_neg hda, if_pos hdb] at hab
      have := (hD b hdb).2; omega
    · rw [if_neg hda, if_neg hdb] at hab
      exact R.inj a b (by omega)
  · refine ⟨K + (K + s.nodes.size), ?_, ?_⟩
    · intro m hm
      rw [hsz] at hm
      unfold rerank
      have : ¬ Below s c m := fun h => by have := (hD m h).1; omega
      rw [if_neg this, hK1 m hm]; omega
    · intro k hk
      rw [hsz] at hk ⊢
      unfold rerank
      have := hK2 k hk
      split <;> omega

/-! ## from-scratch evaluation -/

/-- from-scratch evaluation of node `n` (fuel `k`) on the current values of the variables: as `Sched.eval`, and an
expert node evaluates to the fold of its closure over the evaluations of its CURRENT dependencies -/
def evalX (env : Env) (s : State) : Nat → Nat → Option Val
  | 0, _ => none
  | k+1, n =>
    match (s.nodeD n).kind with
    | .const v => some v
    | .var c => (s.vars[c]?).map (·.value)
    | .map f args => (evalArgs (fun a => evalX env s k a) args).map (env.fn f)
    | .fold f init cs => (evalArgs (fun a => evalX env s k a) cs).map (List.foldl (env.foldStep f) init)
    | .expert e =>
      (evalArgs (fun a => evalX env s k a) ((xRec s.experts e).children.map (·.child))).map
        (List.foldl (xStep (xRec s.experts e).f) (.int 0))
    | _ => none

/-- the evaluation of the virtual static graph is the evaluation of the actual graph -/
theorem eval_virt {env : Env} {s : State} (F : XFrag env s) (k n : Nat) :
    eval (virtEnv env) (virt s) k n = evalX env s k n := by
  induction k generalizing n with
  | zero => rfl
  | succ k ih =>
    unfold Sched.eval evalX
    have hfun : (fun a => Sched.eval (virtEnv env) (virt s) k a) = (fun a => evalX env s k a) := funext ih
    rw [hfun, virt_nodeD, virtNode_kind]
    cases hk : (s.nodeD n).kind with
    | fold f init cs =>
      simp only [virtKind]
      have hR := F.kindD n
      rw [hk] at hR
      rw [virtEnv_foldStep_real env hR]
    | expert e =>
      simp only [virtKind]
      rw [virtEnv_foldStep_x]
    | _ => rfl

/-- what the closure computes: the sum of the integer views modulo `m = f / 10` -/
theorem foldl_xStep (f : Nat) (vals : List Val) :
    vals.foldl (xStep f) (.int 0) =
      .int (emod ((vals.map Val.toInt).foldl (· + ·) 0) ((f / 10 : Nat) : Int)) := by
  have key : ∀ (vals : List Val) (a : Int),
      vals.foldl (xStep f) (.int (emod a ((f / 10 : Nat) : Int))) =
        .int (emod ((vals.map Val.toInt).foldl (· + ·) a) ((f / 10 : Nat) : Int)) := by
    intro vals
    induction vals with
    | nil => intro a; rfl
    | cons v vs ih =>
      intro a
      simp only [List.foldl_cons, List.map_cons]
      have : xStep f (.int (emod a ((f / 10 : Nat) : Int))) v = .int (emod (a + v.toInt) ((f / 10 : Nat) : Int)) := by
        unfold xStep emod
        simp only [Val.toInt]
        split
        · rfl
        · show Val.int (((a % _) + _) % _) = Val.int ((a + _) % _)
          rw [Int.emod_add_emod]
      rw [this, ih]
  have h0 : (Val.int 0) = .int (emod 0 ((f / 10 : Nat) : Int)) := by
    unfold emod; split
    · rfl
    · show Val.int 0 = Val.int (0 % _)
      rw [Int.zero_emod]
  rw [h0, key]

end IncrVerif.Proofs.ExpertH
