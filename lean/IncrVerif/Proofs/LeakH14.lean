import IncrVerif.Proofs.LeakH13
/-!
# C12 over histories, part 14: total correctness

A VALID history of static actions (`Quiet.ValidHist`), then drops that name existing things and after which the
program holds nothing, then `stabilise`: the whole history runs without panic and ends with no root.
-/
namespace IncrVerif.Proofs.LeakH
open IncrVerif.Engine IncrVerif.Driver IncrVerif.Proofs IncrVerif.Proofs.Step IncrVerif.Proofs.Sched
open IncrVerif.Proofs.Quiet IncrVerif.Proofs.Life IncrVerif.Proofs.Own

theorem tinv_strip {N : Nat} {s : State} (T : TInv N s) : TInv N (strip s) := by
  refine ⟨T.hb, ⟨T.room.ahh, T.room.rch, T.room.size⟩, ?_, T.topSize, T.newNodup, T.newState⟩
  intro c vc hc
  have hc' : (s.vars.map fun vc => { vc with handles := 1 })[c]? = some vc := hc
  rw [Array.getElem?_map] at hc'
  cases h0 : s.vars[c]? with
  | none => rw [h0] at hc'; cases hc'
  | some vc0 =>
    rw [h0] at hc'
    simp only [Option.map_some, Option.some.injEq] at hc'
    rw [← hc']
    exact T.linked c vc0 h0

/-- a drop either leaves the stripped state alone or is an observer action that commutes with `strip` -/
theorem drop_strip_cases {env : Env} {s s' : State} {a : Action} {tk : Array Nat} {r : String × Array Nat}
    (ha : DropAction a) (h : (stepAction env a tk).run.run s = (.ok r, s')) :
    strip s' = strip s ∨
      (StaticAction env a ∧
        (∃ o, (a = .dropObs o ∨ a = .disallow o) ∧ o < s.observers.size) ∧
        (stepAction env a tk).run.run (strip s) = (.ok r, strip s')) := by
  cases a <;> try exact ha.elim
  case dropVar v =>
    left
    cases hv : s.vars[v]? with
    | none =>
      simp only [stepAction, Obs.run_bind, dropVarHandle_run_none s v hv] at h
      cases h
    | some vc =>
      rw [dropVar_action_run env tk s v vc hv] at h
      obtain ⟨-, e⟩ := Prod.mk.inj h
      rw [← e]
      split
      · rfl
      · exact strip_varDropped s v vc
  case dropHandle o =>
    left
    rw [dropHandle_run] at h
    cases hr : resolve s [] o with
    | error p => rw [hr] at h; cases h
    | ok n =>
      rw [hr] at h
      dsimp only at h
      split at h
      · obtain ⟨-, e⟩ := Prod.mk.inj h
        rw [← e]; rfl
      · obtain ⟨-, e⟩ := Prod.mk.inj h
        rw [← e]
  case dropObs o =>
    right
    have hok : o < s.observers.size := drop_cond_of_ok (a := .dropObs o) (Frame4.refl s) trivial h
    rw [stepAction_dropObs_run] at h
    obtain ⟨h1, h2⟩ := Prod.mk.inj h
    refine ⟨trivial, ⟨o, Or.inl rfl, hok⟩, ?_⟩
    rw [stepAction_dropObs_run, dropObsState_strip, h2]
    exact Prod.ext h1 rfl
  case disallow o =>
    right
    have hok : o < s.observers.size := drop_cond_of_ok (a := .disallow o) (Frame4.refl s) trivial h
    rw [stepAction_disallow_run] at h
    obtain ⟨h1, h2⟩ := Prod.mk.inj h
    refine ⟨trivial, ⟨o, Or.inr rfl, hok⟩, ?_⟩
    rw [stepAction_disallow_run, disallowState_strip, h2]
    exact Prod.ext h1 rfl

theorem drop_step_tinv {env : Env} {N : Nat} {s s' : State} {a : Action} {tk : Array Nat}
    {r : String × Array Nat} (I : DInv env s) (T : TInv N (strip s)) (ha : DropAction a)
    (h : (stepAction env a tk).run.run s = (.ok r, s')) : TInv N (strip s') := by
  rcases drop_strip_cases ha h with e | ⟨hs, ⟨o, ho, hlt⟩, hrun⟩
  · rw [e]; exact T
  · have hok : ActionOK N (strip s) a := by
      rcases ho with rfl | rfl <;> exact hlt
    obtain ⟨r', s'', h', -, -, T', -⟩ := step_total (env := env) (tk := tk) I.q T hs hok
    rw [hrun] at h'
    obtain ⟨-, e⟩ := Prod.mk.inj h'
    rw [e]; exact T'

theorem drop_run_tinv {env : Env} {N : Nat} {acts : List Action} {s s' : State} {tk tk' : Array Nat}
    (I : DInv env s) (T : TInv N (strip s)) (ha : ∀ a, a ∈ acts → DropAction a)
    (h : runActions env acts s tk = .ok (s', tk')) : DInv env s' ∧ TInv N (strip s') := by
  induction acts generalizing s tk with
  | nil => simp only [runActions] at h; cases h; exact ⟨I, T⟩
  | cons a as ih =>
    simp only [runActions] at h
    rcases hx : (stepAction env a tk).run.run s with ⟨_ | r, s1⟩
    · rw [hx] at h; cases h
    · rw [hx] at h
      have ha1 := ha a (List.mem_cons_self ..)
      exact ih (drop_step I ha1 hx) (drop_step_tinv I T ha1 hx)
        (fun b hb => ha b (List.mem_cons_of_mem _ hb)) h

/-- **C12, total.** -/
theorem valid_history_freed {env : Env} {N : Nat} {d : Bool} {acts drops : List Action}
    (ha : ∀ a, a ∈ acts → StaticAction env a) (hv : ValidHist N 0 0 0 acts)
    (hd : ∀ a, a ∈ drops → DropAction a) (hfuel : 3 * N + 4 ≤ fuelDefault)
    (hnamed : ∀ s0 tk0, runActions env acts (State.init N d) #[] = .ok (s0, tk0) →
      ∀ a, a ∈ drops → OkCond s0 a)
    (H : ∀ s tk, runActions env (acts ++ drops) (State.init N d) #[] = .ok (s, tk) → HoldsNothing s) :
    ∃ s' tk', runActions env ((acts ++ drops) ++ [Action.stabilise]) (State.init N d) #[] = .ok (s', tk') ∧
      s'.roots = [] := by
  obtain ⟨s0, h0, Q0, T0⟩ := history_total (env := env) (d := d) ha hv
  obtain ⟨s1, tk1, h1⟩ := drops_run_of_conds (env := env) (tk := #[]) (Frame4.refl s0) hd (hnamed s0 #[] h0)
  have hrun : runActions env (acts ++ drops) (State.init N d) #[] = .ok (s1, tk1) := by
    rw [runActions_append, h0]; exact h1
  have I0 : DInv env s0 :=
    history_dinv (drops := []) ha (fun _ hm => nomatch hm) (by rw [List.append_nil]; exact h0)
  obtain ⟨I1, T1⟩ := drop_run_tinv I0 (tinv_strip T0) hd h1
  have hsz : s1.nodes.size ≤ N := T1.room.size
  obtain ⟨s', hs⟩ := stabilise_total_strip (fuel := fuelDefault) I1.q T1 (by omega)
  have hx : (stepAction env .stabilise tk1).run.run s1 = (.ok ("ok", tk1), s') := by
    unfold stepAction
    dsimp only
    rw [run_bind_ok hs]
    rfl
  refine ⟨s', tk1, ?_, freed_roots I1 (H s1 tk1 hrun) hs⟩
  rw [runActions_append, hrun]
  simp only [runActions, hx]

end IncrVerif.Proofs.LeakH
