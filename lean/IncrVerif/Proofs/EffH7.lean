import IncrVerif.Proofs.EffH5
import IncrVerif.Proofs.EffH6
/-!
# Effects, part 7: one `stabilise` of a program whose node functions have write effects (V1)
-/
namespace IncrVerif.Proofs.EffH
open IncrVerif.Engine IncrVerif.Driver IncrVerif.Proofs IncrVerif.Proofs.Step IncrVerif.Proofs.Sched
open IncrVerif.Proofs.Quiet

/-- a cell after `stabiliseEnd` has applied the deferred writes `fs` (program order): the value is their fold over
the old value, the stamp is the NEW round number; an unwritten cell is untouched -/
def cellAfter (now : Int) (fs : List (Val → Val)) (c : VarCell) : VarCell :=
  match fs with
  | [] => c
  | _ :: _ => { c with value := foldW fs c.value, setAt := now }

/-- the conclusions of `stabilise_eff`: `t2` is the state in which the drain starts, `t3` the state in which it ends,
`S` the state the `stabilise` would have ended in WITHOUT the deferred writes (same nodes, the variables of `s`) -/
structure EStab (env : Env) (fuel : Nat) (s t2 t3 S s' : State) : Prop where
  inv : EInv env s'
  /-- everything `Quiet.stabilise_q` says about the effect-free outcome -/
  clean : MapRefH.StabilisedC (noEff env) s S
  start : DI env t2 none
  startVars : t2.vars = s.vars
  startStab : t2.stabNum = s.stabNum
  startKind : ∀ m, (t2.nodeD m).kind = (s.nodeD m).kind
  nec : ∀ m, s'.isNecessary m = t2.isNecessary m
  run : (drainHeap env fuel).run.run t2 = (.ok (), t3)
  drain : RunOK env (drainSteps env fuel t2) t2 t3
  /-- (b) the deferred writes compose in program order, over the pre-stabilise value -/
  vars : ∀ (v : Nat) (c : VarCell), s.vars[v]? = some c →
    s'.vars[v]? = some (cellAfter (s.stabNum + 1) (writesTo v (stepsWrites env (drainSteps env fuel t2))) c)
  vsize : s'.vars.size = s.vars.size
  /-- the nodes are those of the effect-free outcome, up to the heap marker (and the handler-queue flag) -/
  node : ∀ m, ∃ h b, s'.nodeD m = { S.nodeD m with heightInRch := h, inHandleAfterStab := b }
  size : s'.nodes.size = S.nodes.size
  observers : s'.observers = S.observers
  newObservers : s'.newObservers = []
  disallowedObservers : s'.disallowedObservers = []
  stabNum : s'.stabNum = s.stabNum + 1

theorem cellW_clean_applyCell (now : Int) (fs : List (Val → Val)) (c : VarCell) (hp : c.pending = none)
    (hs : c.setAt < now) : applyCell now (cellW fs c) = cellAfter now fs c := by
  cases fs with
  | nil => simp [cellW, applyCell, hp, cellAfter]
  | cons f fs =>
    simp only [cellW, applyCell, cellAfter, hp, Option.getD_none, if_pos hs]

set_option maxHeartbeats 1000000 in
/-- **V1: one `stabilise` with write effects.** -/
theorem stabilise_eff {env : Env} (hw : WOnly env) {fuel : Nat} {s s' : State} (E : EInv env s)
    (h : (stabilise env fuel).run.run s = (.ok (), s')) : ∃ t2 t3 S, EStab env fuel s t2 t3 S s' := by
  have Q := E.q
  unfold stabilise at h
  rw [run_bind_get] at h
  obtain ⟨_, sa, ha, h⟩ := bind_ok_inv h
  have hsa : sa = s := by
    rw [run_assertM] at ha
    split at ha <;> cases ha
    rfl
  rw [hsa] at h
  obtain ⟨s0, hs0, h⟩ := Quiet.bind_modify_inv h
  obtain ⟨_, t1, h1, h⟩ := bind_ok_inv h
  obtain ⟨_, t2, h2, h⟩ := bind_ok_inv h
  obtain ⟨_, t3, h3, h4⟩ := bind_ok_inv h
  rw [← addNewObservers_noEff] at h1
  have hnd0 : ∀ m, s0.nodeD m = s.nodeD m := fun m => by rw [hs0]; rfl
  have S0 : SInv (noEff env) s0 s0.newObservers s0.disallowedObservers := by
    rw [hs0]
    exact ⟨Q.struct.congr (SameG.of_nodes rfl rfl rfl rfl rfl),
      ⟨Q.obs.inRange, Q.obs.mem, Q.obs.created, Q.obs.newIn, Q.obs.dis, Q.obs.disIn, Q.obs.disNodup⟩,
      Q.pinv, Q.handlers⟩
  obtain ⟨S1, hn1, hd1, F1, O1, N1⟩ := addNewObservers_s S0 h1
  obtain ⟨S2, hn2, hd2, F2, O2⟩ := unlinkDisallowedObservers_s S1 hn1 h2
  have F : PFrame s0 t2 := F1.trans F2
  have hvars0 : s0.vars = s.vars := by rw [hs0]
  have hstab0 : s0.stabNum = s.stabNum := by rw [hs0]
  have hv2 : t2.vars = s.vars := by rw [F.vars, hvars0]
  have hst2 : t2.stabNum = s.stabNum := by rw [F.stabNum, hstab0]
  obtain ⟨D2, U2⟩ := MapRefH.drain_start Q hs0 S2 F
  have DI2 : DI env t2 none :=
    ⟨D2, U2, by rw [F.status, hs0], fun v c hc => (E.cells v c (by rw [← hv2]; exact hc)).2⟩
  -- the drain
  obtain ⟨R, he3⟩ := drainHeap_eff hw fuel t2 t3 DI2 h3
  have P2 : Pend t2 [] t2 :=
    Pend.start (fun v c hc => (E.cells v c (by rw [← hv2]; exact hc)).1)
      (by rw [F.setDuringStab, hs0]; exact Q.setDuringStab)
  have P3 := R.pend t2 [] P2
  rw [List.nil_append] at P3
  generalize hW : stepsWrites env (drainSteps env fuel t2) = W at P3
  -- the drained state without the deferred writes
  let t3c : State := { t3 with vars := t2.vars, setDuringStab := t2.setDuringStab }
  have Pc : SameP t3c t3 := ⟨rfl, P3.size, fun v a ha => P3.sameP_vars.2 v a ha⟩
  have Pc' : SameP t3 t3c := Pc.symm
  have D3c : DrainInv (noEff env) t3c := Pc'.inv R.di.inv
  have U3c : UnnecOK (noEff env) t3c := Pc'.unnecOK R.di.unnec
  have f3 : Frame t2 t3c := (R.dr.frame.trans (FrameP.of_sameP Pc')).toFrame rfl
  have c3 : Calm t2 t3c := (R.dr.calm.trans (CalmP.of_sameP Pc')).toCalm rfl
  have k3 : stateKeyD t3c = stateKeyD t2 := R.dr.keyD
  have hdead : t3.deadVars = [] := by
    rw [R.dr.calm.deadVars, F.deadVars, hs0]; exact Q.deadVars
  have E' : Finished' t3c (quiet (bump t3c)) :=
    ⟨rfl, fun m => ⟨_, rfl⟩, rfl, rfl, rfl, rfl, rfl, rfl, rfl, rfl, rfl, rfl, rfl, rfl, rfl, rfl, rfl, rfl, rfl,
      hdead, rfl⟩
  have SC := MapRefH.stab_core Q hs0 S2 hn2 hd2 F O1 O2 D3c he3 f3 c3 k3 U3c E'
  have PQ : SameP (quiet (bump t3c)) (quiet (bump t3)) := ⟨rfl, Pc.size, Pc.cell⟩
  have QB : QInv (noEff env) (quiet (bump t3)) := PQ.qinv SC.inv rfl
  obtain ⟨Q', c, A, es', hsz', hnode', hvars'⟩ := stabiliseEnd_eff QB h4
  -- the variables of the final state
  have hsv : s'.vars = c.vars := by rw [es']; rfl
  have hst3 : t3.stabNum = s.stabNum := by rw [R.dr.frame.stabNum, hst2]
  have hcell : ∀ (v : Nat) (c0 : VarCell), s.vars[v]? = some c0 →
      s'.vars[v]? = some (cellAfter (s.stabNum + 1) (writesTo v W) c0) := by
    intro v c0 h0
    have h2c : t2.vars[v]? = some c0 := by rw [hv2]; exact h0
    have h3c := P3.cell v c0 h2c
    have hp := (E.cells v c0 h0).1
    have hsa := Q.varStamp v c0 h0
    rw [hsv, hvars' v, h3c, hst3]
    by_cases hm : v ∈ t3.setDuringStab
    · rw [if_pos hm, Option.map_some, cellW_clean_applyCell _ _ _ hp (by omega)]
    · rw [if_neg hm]
      have : writesTo v W = [] := by
        cases hw' : writesTo v W with
        | nil => rfl
        | cons f fs => exact absurd ((P3.mem v).2 (by rw [hw']; exact List.cons_ne_nil _ _)) hm
      rw [this]; rfl
  have hvsz : s'.vars.size = s.vars.size := by
    rw [hsv, A.vsize]; show t3.vars.size = _; rw [P3.size, hv2]
  have hcells : CellsOK s' := by
    intro v cv hcv
    have hlt : v < s.vars.size := by
      rw [← hvsz]
      rcases Nat.lt_or_ge v s'.vars.size with h | h
      · exact h
      · rw [Array.getElem?_eq_none h] at hcv; cases hcv
    have h0 : s.vars[v]? = some s.vars[v] := Array.getElem?_eq_getElem hlt
    have := hcell v _ h0
    rw [hcv] at this
    cases this
    obtain ⟨hp, hh⟩ := E.cells v _ h0
    cases hw' : writesTo v W with
    | nil => exact ⟨hp, hh⟩
    | cons f fs => exact ⟨hp, hh⟩
  -- nodes of the final state
  have hnodeS : ∀ m, ∃ hh b, s'.nodeD m = { (quiet (bump t3c)).nodeD m with heightInRch := hh, inHandleAfterStab := b } := by
    intro m
    obtain ⟨b, hb⟩ := hnode' m
    obtain ⟨hh, hc⟩ := A.node m
    refine ⟨hh, b, ?_⟩
    rw [hb, hc]
    rfl
  have hnec : ∀ m, s'.isNecessary m = t2.isNecessary m := by
    intro m
    obtain ⟨hh, b, e⟩ := hnodeS m
    have : s'.isNecessary m = t3.isNecessary m := by
      simp only [State.isNecessary, e, Node.isNecessary]
      rfl
    rw [this, R.dr.frame.nec]
  refine ⟨t2, t3, quiet (bump t3c), ⟨⟨Q', hcells⟩, SC, DI2, hv2, hst2, ?_, hnec, h3, R, ?_, hvsz, hnodeS, ?_, ?_, ?_, ?_, ?_⟩⟩
  · intro m; rw [F.kind, hnd0]
  · rw [hW]; exact hcell
  · rw [hsz', A.size]; rfl
  · have e1 : s'.observers = c.observers := by rw [es']; rfl
    have e2 : c.observers = t3.observers := by rw [A.eq]; rfl
    rw [e1, e2]; rfl
  · have e1 : s'.newObservers = c.newObservers := by rw [es']; rfl
    have e2 : c.newObservers = t3.newObservers := by rw [A.eq]; rfl
    rw [e1, e2, R.dr.calm.newObservers]; exact hn2
  · have e1 : s'.disallowedObservers = c.disallowedObservers := by rw [es']; rfl
    have e2 : c.disallowedObservers = t3.disallowedObservers := by rw [A.eq]; rfl
    rw [e1, e2, R.dr.calm.disallowedObservers]; exact hd2
  · have e1 : s'.stabNum = c.stabNum := by rw [es']; rfl
    have e2 : c.stabNum = t3.stabNum + 1 := by rw [A.eq]; rfl
    rw [e1, e2, hst3]

end IncrVerif.Proofs.EffH
