import IncrVerif.Proofs.MapRef10
/-!
# map_ref fragment, part 4: the flags after `maybe_change_value`

`mcvm_flags`: after a successful propagating `maybe_change_value_manual n` (with notifications), every map_ref node
above `n` whose read value is no longer the one of the pre-state has its `didChange` flag up.
-/
namespace IncrVerif.Proofs.MapRefH
open IncrVerif.Engine IncrVerif.Proofs IncrVerif.Proofs.Step IncrVerif.Proofs.Sched IncrVerif.Proofs.Quiet

/-- loop rule for successful runs: an invariant, and a per-element postcondition kept by later iterations -/
theorem forIn_inv_post {α} (K : State → Prop) (P : α → State → Prop) (f : α → PUnit → M (ForInStep PUnit))
    (l : List α)
    (hK : ∀ a, a ∈ l → ∀ s r s', K s → (f a ⟨⟩).run.run s = (.ok r, s') → K s' ∧ r = .yield ⟨⟩ ∧ P a s')
    (hkeep : ∀ a b, b ∈ l → ∀ s r s', K s → P a s → (f b ⟨⟩).run.run s = (.ok r, s') → P a s') :
    ∀ s r s', K s → (forIn l PUnit.unit f).run.run s = (.ok r, s') → K s' ∧ ∀ a, a ∈ l → P a s' := by
  induction l with
  | nil =>
    intro s r s' hk h
    rw [List.forIn_nil, run_pure] at h; cases h
    exact ⟨hk, fun a ha => by cases ha⟩
  | cons a l ih =>
    intro s r s' hk h
    rw [List.forIn_cons] at h
    obtain ⟨x, s1, hx, hrest⟩ := bind_ok_inv h
    obtain ⟨hk1, rfl, hp1⟩ := hK a (List.mem_cons_self ..) s x s1 hk hx
    simp only at hrest
    obtain ⟨hk', hall⟩ := ih (fun b hb => hK b (List.mem_cons_of_mem _ hb))
      (fun a' b hb => hkeep a' b (List.mem_cons_of_mem _ hb)) s1 r s' hk1 hrest
    refine ⟨hk', fun a' ha' => ?_⟩
    rcases List.mem_cons.1 ha' with rfl | hmem
    · -- keep `P a'` through the remaining iterations
      refine (forIn_ok_keep (fun t => K t ∧ P a' t) f l ?_ s1 r s' ⟨hk1, hp1⟩ hrest).2
      intro b hb t x t' ⟨hkt, hpt⟩ hrun
      exact ⟨(hK b (List.mem_cons_of_mem _ hb) t x t' hkt hrun).1,
        hkeep a' b (List.mem_cons_of_mem _ hb) t x t' hkt hpt hrun⟩
    · exact hall a' hmem

/-- **the flags after a propagating `maybe_change_value_manual`.** `W0`: new value stored; `s0`: the pre-state. -/
theorem mcvm_flags {env : Env} {s0 W0 s' : State} {fuel n : Nat} {old : Option Val} {r : Option Nat}
    (C : CCtx env s0 (touched n W0)) (hold : ∀ o, old = some o → s0.value env n = some o)
    (h : (maybeChangeValueManual env fuel n old true true).run.run W0 = (.ok r, s')) :
    ∀ m, UpM (touched n W0) m n → Changed env s0 (touched n W0) m → (s'.nodeD m).didChange = true := by
  generalize hW : touched n W0 = W at C ⊢
  intro m hup hch
  have CC := childChanged_flags C fuel
  unfold maybeChangeValueManual at h
  simp only [Bool.not_true, Bool.false_eq_true, if_false, if_true, run_bind_get, run_bind_modNode,
    run_bind_bumpCounter] at h
  obtain ⟨u, s1, h1, h2⟩ := bind_ok_inv h
  have h1' : (maybeHandleAfterStabilisation n).run.run W = (.ok u, s1) := by rw [← hW]; exact h1
  have q1 : Step.Quiet W s1 := (Step.Pres.maybeHandleAfterStabilisation n).h _ _ _ h1'
  obtain ⟨nd1, hnd1, h3⟩ := bind_getNode_inv h2
  have hpar1 : nd1.parents = (W.nodeD n).parents := by
    have := (q1.node n).parents
    rw [nodeD_of_some hnd1] at this
    exact this
  rw [hpar1] at h3
  obtain ⟨p, ci, hpm, hpk, hmm⟩ := hup.cases_head
  rcases hps : (W.nodeD n).parents with _ | ⟨⟨p0, ci0⟩, rest⟩
  · rw [hps] at hpm; cases hpm
  rw [hps] at h3 hpm
  dsimp only at h3
  obtain ⟨u2, s2, hloop, hlast⟩ := bind_ok_inv h3
  -- the loop over the other parents
  have hmemr : ∀ a, a ∈ rest → a ∈ (W.nodeD n).parents := by
    intro a ha; rw [hps]; exact List.mem_cons_of_mem _ ha
  have L := forIn_inv_post (fun t => Step.Quiet W t)
    (fun (a : Nat × Nat) t => IsMapRef (W.nodeD a.1).kind → ∀ m, (m = a.1 ∨ UpM W m a.1) → Changed env s0 W m →
      (t.nodeD m).didChange = true) _ rest
    (by
      intro a ha t r t' qt hb
      obtain ⟨pa, cia⟩ := a
      obtain ⟨_, t1, hcc, hb1⟩ := bind_ok_inv hb
      have qc : Step.Quiet t t1 := (Step.Pres.childChanged ..).h _ _ _ hcc
      have qb : Step.Quiet t1 t' := by refine Step.Pres.h ?_ _ _ _ hb1; qpres
      have fb : FM t1 t' := by refine Step.Pres.h ?_ _ _ _ hb1; qpres
      refine ⟨(qt.trans qc).trans qb, ?_, ?_⟩
      · rw [run_bind_get] at hb1
        obtain ⟨na, hna, hb4⟩ := bind_getNode_inv (bind_dassert_inv hb1)
        split at hb4
        · obtain ⟨_, t5, hins, hb5⟩ := bind_ok_inv hb4
          obtain ⟨rfl, -⟩ := pure_ok_inv hb5; rfl
        · obtain ⟨rfl, -⟩ := pure_ok_inv hb4; rfl
      · intro hmr m' hm' hch'
        exact fb m' (CC pa n cia old t t1 _ hcc qt (hmemr _ ha) hold hmr m' hm' hch'))
    (by
      intro a b hb t r t' qt hp hrun hmr m' hm' hch'
      have fb : FM t t' := by
        obtain ⟨pb, cib⟩ := b
        refine Step.Pres.h ?_ _ _ _ hrun; qpres
      exact fb m' (hp hmr m' hm' hch'))
    s1 _ s2 q1 hloop
  obtain ⟨q2, hrestP⟩ := L
  -- the first parent
  obtain ⟨_, s3, hcc, hl1⟩ := bind_ok_inv hlast
  have f3 : FM s3 s' := by refine Step.Pres.h ?_ _ _ _ hl1; qpres
  have fc : FM s2 s3 := (PresFM.childChanged ..).h _ _ _ hcc
  rcases List.mem_cons.1 hpm with he | hr
  · cases he
    exact f3 m (CC p n ci old s2 s3 _ hcc q2 (by rw [hps]; exact List.mem_cons_self ..) hold hpk m hmm hch)
  · exact f3 m (fc m (hrestP (p, ci) hr hpk m hmm hch))

end IncrVerif.Proofs.MapRefH
