import IncrVerif.Proofs.PerKeyH6
/-!
# The value-faithful simulation calculus `VSim`, part 1: field lemmas of `V`, the calculus, invisible work
(port of `Proofs/ExpertH23.lean` from `virt` to `V`)

`VSim x x'`: every successful run of `x` from `s` (in the frame fragment `ExpertH.Fr`) is matched by a successful run
of `x'` from `V s`, with the same result, ending in `V` of the final state.
-/
namespace IncrVerif.Proofs.PerKeyH
open IncrVerif.Engine IncrVerif.Driver IncrVerif.Proofs IncrVerif.Proofs.Step IncrVerif.Proofs.Sched
open IncrVerif.Proofs.ExpertH IncrVerif.Proofs.EffH

/-! ## field projections of `V` (those not in `K1`; prefix `Vf_`) -/
section
variable (s : State)
theorem Vf_cfg : (V s).cfg = s.cfg := rfl
theorem Vf_binds : (V s).binds = s.binds := rfl
theorem Vf_observers : (V s).observers = s.observers := rfl
theorem Vf_ahh : (V s).ahh = s.ahh := rfl
theorem Vf_vars : (V s).vars = s.vars := rfl
theorem Vf_rch : (V s).rch = s.rch := rfl
theorem Vf_stabNum : (V s).stabNum = s.stabNum := rfl
theorem Vf_maxHeightSeen : (V s).maxHeightSeen = s.maxHeightSeen := rfl
theorem Vf_status : (V s).status = s.status := rfl
theorem Vf_currentScope : (V s).currentScope = s.currentScope := rfl
theorem Vf_propagateInvalidity : (V s).propagateInvalidity = s.propagateInvalidity := rfl
theorem Vf_handleAfterStab : (V s).handleAfterStab = s.handleAfterStab := rfl
theorem Vf_newObservers : (V s).newObservers = s.newObservers := rfl
theorem Vf_disallowedObservers : (V s).disallowedObservers = s.disallowedObservers := rfl
theorem Vf_allObservers : (V s).allObservers = s.allObservers := rfl
theorem Vf_setDuringStab : (V s).setDuringStab = s.setDuringStab := rfl
theorem Vf_deadVars : (V s).deadVars = s.deadVars := rfl
theorem Vf_counters : (V s).counters = s.counters := rfl
theorem Vf_nextToken : (V s).nextToken = s.nextToken := rfl
theorem Vf_nextDep : (V s).nextDep = s.nextDep := rfl
theorem Vf_panicCountdown : (V s).panicCountdown = s.panicCountdown := rfl
theorem Vf_currentlyRunning : (V s).currentlyRunning = s.currentlyRunning := rfl
theorem Vf_alive : (V s).alive = s.alive := rfl
theorem Vf_top : (V s).top = s.top := rfl
theorem Vf_handles : (V s).handles = s.handles := rfl
theorem Vf_slots : (V s).slots = s.slots := rfl
theorem Vf_memos : (V s).memos = s.memos := rfl
theorem Vf_perkeys : (V s).perkeys = s.perkeys := rfl
theorem Vf_isStable : (V s).isStable = s.isStable := rfl
end

/-! ## the virtual kind of an expert node in closed form; `vNode` reads only `experts`, `perkeys` of the state -/

/-- fold id of the virtual kind of expert node `e` -/
def vF (s : State) (e : Nat) : Nat :=
  match (xRec s.experts e).pk with
  | some (_, some _) => xConst
  | some (_, none) => xAsm
  | none => xBase + (xRec s.experts e).f

/-- initial accumulator of the virtual kind of expert node `e` -/
def vInit (s : State) (e : Nat) : Val :=
  match (xRec s.experts e).pk with
  | some (op, some key) => .int (((pkRec s op).prevMap.lookup key).getD 0)
  | some (op, none) => asmInit (tagsOf (pkRec s op).prevNodes (xRec s.experts e).children)
  | none => .int 0

theorem vKind_expert_eq (s : State) (e : Nat) :
    vKind s (.expert e) = .fold (vF s e) (vInit s e) ((xRec s.experts e).children.map (·.child)) := by
  cases h : (xRec s.experts e).pk with
  | none => rw [vKind_expert_none s h]; simp only [vF, vInit, h]
  | some p =>
    obtain ⟨op, k⟩ := p
    cases k with
    | none => rw [vKind_expert_res s h]; simp only [vF, vInit, h]
    | some key => rw [vKind_expert_key s h]; simp only [vF, vInit, h]

theorem vNode_congr {s s' : State} (h1 : s'.experts = s.experts) (h2 : s'.perkeys = s.perkeys) :
    vNode s' = vNode s := by
  funext nd
  rcases nd with ⟨k⟩
  cases k <;> simp [vNode, vKind, forced, pkRec, h1, h2] <;> rfl

theorem vNode_of_not_expert_map (s : State) (nd : Node) (h : ∀ e, nd.kind ≠ .expert e)
    (h2 : ∀ f args, nd.kind = .map f args → f < fnPerKey) : vNode s nd = nd := by
  rcases nd with ⟨k⟩
  cases k <;> try rfl
  · rename_i f args
    have := h2 f args rfl
    simp only [vNode, vKind, forced, Nat.not_le.2 this, if_false]
    rfl
  · exact absurd rfl (h _)

theorem vKind_map_lt (s : State) {f : Nat} (args : List Nat) (h : f < fnPerKey) :
    vKind s (.map f args) = .map f args := by
  simp only [vKind, Nat.not_le.2 h, if_false]

theorem XK_vKind (s : State) (k : Kind) : XK (vKind s k) ↔ XK k := by
  cases k <;> try (simp [vKind, XK]; done)
  rw [vKind_expert_eq]; simp [XK]

/-! ## the environment `penv` (local names `vpenv_*`) -/
theorem vpenv_cutoff (env : Env) : (penv env).cutoff = env.cutoff := rfl
theorem vpenv_proj (env : Env) : (penv env).proj = env.proj := rfl
theorem vpenv_fnEff (env : Env) (f : Nat) (vals : List Val) : (penv env).fnEff f vals = [] := rfl
theorem vpenv_fn_ne (env : Env) {f : Nat} (h : f ≠ fLc) (vals : List Val) : (penv env).fn f vals = env.fn f vals := by
  simp [penv, h]
theorem vpenv_foldStep_lt (env : Env) {F : Nat} (h : F < xBase) : (penv env).foldStep F = env.foldStep F := by
  funext acc x
  have h1 : F ≠ xConst := by unfold xConst; omega
  have h2 : F ≠ xAsm := by unfold xAsm; omega
  simp [penv, h1, h2]

def VSimAt (s : State) {α} (x x' : M α) : Prop :=
  Fr s → ∀ r s', x.run.run s = (.ok r, s') → x'.run.run (V s) = (.ok r, V s') ∧ Fr s'

def VSim {α} (x x' : M α) : Prop := ∀ s, VSimAt s x x'

section
variable {s : State} {α β : Type}

theorem VSim.at {x x' : M α} (h : VSim x x') (s : State) : VSimAt s x x' := h s

theorem VSimAt.ret (a : α) : VSimAt s (pure a : M α) (pure a) := by
  intro hn r s' h; rw [run_pure] at h; cases h; exact ⟨rfl, hn⟩

theorem VSimAt.thr (e : Panic) (x' : M α) : VSimAt s (throw e : M α) x' := by
  intro _ r s' h; rw [run_throw] at h; cases h

theorem VSimAt.pan (e : String) (x' : M α) : VSimAt s (Engine.panic e : M α) x' := VSimAt.thr _ _

theorem VSimAt.seq {x x' : M α} {f f' : α → M β} (hx : VSimAt s x x')
    (hf : ∀ a s1, x.run.run s = (.ok a, s1) → VSimAt s1 (f a) (f' a)) :
    VSimAt s (x >>= f) (x' >>= f') := by
  intro hn r s' h
  obtain ⟨a, s1, h1, h2⟩ := bind_ok_inv h
  obtain ⟨e1, n1⟩ := hx hn a s1 h1
  rw [run_bind_ok e1]
  exact hf a s1 h1 n1 r s' h2

/-- the virtual side does nothing for the first half -/
theorem VSimAt.seq_left {x : M α} {f : α → M β} {y' : M β} (hx : VSimAt s (x >>= fun _ => pure ()) (pure ()))
    (hf : ∀ a s1, x.run.run s = (.ok a, s1) → VSimAt s1 (f a) y') :
    VSimAt s (x >>= f) y' := by
  intro hn r s' h
  obtain ⟨a, s1, h1, h2⟩ := bind_ok_inv h
  have h3 : (x >>= fun _ => (pure () : M Unit)).run.run s = (.ok (), s1) := by
    rw [run_bind_ok h1, run_pure]
  obtain ⟨e1, n1⟩ := hx hn () s1 h3
  rw [run_pure] at e1
  have e2 : V s = V s1 := congrArg Prod.snd e1
  rw [e2]
  exact hf a s1 h1 n1 r s' h2

theorem VSimAt.get_seq {k k' : State → M β} (h : VSimAt s (k s) (k' (V s))) :
    VSimAt s (get >>= k) (get >>= k') := by
  intro hn r s' hr
  rw [run_bind_get] at hr ⊢
  exact h hn r s' hr

/-- a read of the state on the actual side only -/
theorem VSimAt.getL_seq {k : State → M β} {x' : M β} (h : VSimAt s (k s) x') :
    VSimAt s (get >>= k) x' := by
  intro hn r s' hr
  rw [run_bind_get] at hr
  exact h hn r s' hr

theorem VSimAt.getNode_seq {n : Nat} {k k' : Node → M β}
    (h : ∀ nd, s.nodes[n]? = some nd → XK nd.kind → nd.valid = true →
      VSimAt s (k nd) (k' (vNode s nd))) :
    VSimAt s (getNode n >>= k) (getNode n >>= k') := by
  intro hn r s' hr
  obtain ⟨nd, hnd, hr⟩ := bind_getNode_inv hr
  have hv : (V s).nodes[n]? = some (vNode s nd) := by rw [V_getElem?, hnd]; rfl
  rw [run_bind_ok (run_getNode_some hv)]
  exact h nd hnd (hn.some hnd).1 (hn.some hnd).2 hn r s' hr

/-- a read of a node on the actual side only -/
theorem VSimAt.getNodeL_seq {n : Nat} {k : Node → M β} {x' : M β}
    (h : ∀ nd, s.nodes[n]? = some nd → XK nd.kind → nd.valid = true → VSimAt s (k nd) x') :
    VSimAt s (getNode n >>= k) x' := by
  intro hn r s' hr
  obtain ⟨nd, hnd, hr⟩ := bind_getNode_inv hr
  exact h nd hnd (hn.some hnd).1 (hn.some hnd).2 hn r s' hr

/-- the expert records exist on the actual side only -/
theorem VSimAt.getExpertL_seq {e : Nat} {k : ExpertRec → M β} {x' : M β}
    (h : ∀ er, s.experts[e]? = some er → VSimAt s (k er) x') :
    VSimAt s (getExpert e >>= k) x' := by
  intro hn r s' hr
  obtain ⟨er, he, hr⟩ := bind_getExpert_inv hr
  exact h er he hn r s' hr

theorem VSimAt.mod {f f' : State → State} (h : V (f s) = f' (V s)) (hn : (f s).nodes = s.nodes)
    (hp : (f s).propagateInvalidity = s.propagateInvalidity) (hc : (f s).panicCountdown = s.panicCountdown)
    (he : (f s).experts = s.experts) :
    VSimAt s (modify f : M Unit) (modify f') := by
  intro hne r s' hr; rw [run_modify] at hr ⊢; cases hr; rw [h]; exact ⟨rfl, hne.of_nodes hn hp hc he⟩

theorem VSimAt.mod_seq {f f' : State → State} {k k' : Unit → M β} (h : V (f s) = f' (V s))
    (hn : (f s).nodes = s.nodes) (hp : (f s).propagateInvalidity = s.propagateInvalidity)
    (hc : (f s).panicCountdown = s.panicCountdown) (he : (f s).experts = s.experts)
    (hk : VSimAt (f s) (k ()) (k' ())) :
    VSimAt s ((modify f : M Unit) >>= k) ((modify f' : M Unit) >>= k') := by
  intro hne r s' hr
  rw [run_bind_modify] at hr ⊢
  rw [← h]; exact hk (hne.of_nodes hn hp hc he) r s' hr

theorem VSimAt.cond {c c' : Prop} {_ : Decidable c} {_ : Decidable c'} {a b a' b' : M α} (hc : c ↔ c')
    (ha : c → VSimAt s a a') (hb : ¬ c → VSimAt s b b') :
    VSimAt s (if c then a else b) (if c' then a' else b') := by
  by_cases h : c
  · rw [if_pos h, if_pos (hc.1 h)]; exact ha h
  · rw [if_neg h, if_neg (fun h' => h (hc.2 h'))]; exact hb h

theorem VSimAt.ite_left {c : Prop} {_ : Decidable c} {a b x' : M α}
    (ha : c → VSimAt s a x') (hb : ¬ c → VSimAt s b x') : VSimAt s (if c then a else b) x' := by
  by_cases h : c
  · rw [if_pos h]; exact ha h
  · rw [if_neg h]; exact hb h

theorem vmap_modify (g : Node → Node) (a : Array Node) (n : Nat) (f f' : Node → Node)
    (hf : ∀ nd, g (f nd) = f' (g nd)) :
    (a.modify n f).map g = (a.map g).modify n f' := by
  apply Array.ext
  · simp
  · intro i h1 h2
    simp only [Array.getElem_map, Array.getElem_modify]
    split
    · exact hf _
    · rfl

theorem V_modNode (s : State) (n : Nat) (f f' : Node → Node)
    (hf : ∀ nd, vNode s (f nd) = f' (vNode s nd)) :
    V { s with nodes := s.nodes.modify n f } = { V s with nodes := (V s).nodes.modify n f' } := by
  have e : vNode { s with nodes := s.nodes.modify n f } = vNode s := vNode_congr rfl rfl
  simp only [V, e]
  rw [vmap_modify (vNode s) s.nodes n f f' hf]

/-- a commuting node update -/
theorem VSim.modNode (n : Nat) {f f' : Node → Node} (hf : ∀ s nd, vNode s (f nd) = f' (vNode s nd))
    (hk : ∀ nd, (f nd).kind = nd.kind ∧ (f nd).valid = nd.valid) :
    VSim (Engine.modNode n f) (Engine.modNode n f') := by
  intro s hne r s' hr
  rw [run_modNode] at hr ⊢
  cases hr
  exact ⟨by rw [V_modNode s n f f' (hf s)], fr_modify hne n f hk⟩

theorem VSim.forIn {γ : Type} (l : List γ) {f f' : γ → β → M (ForInStep β)} (h : ∀ a b, VSim (f a b) (f' a b))
    (b : β) : VSim (ForIn.forIn l b f) (ForIn.forIn l b f') := by
  induction l generalizing b with
  | nil => intro s; rw [List.forIn_nil, List.forIn_nil]; exact VSimAt.ret _
  | cons a l ih =>
    intro s
    rw [List.forIn_cons, List.forIn_cons]
    refine VSimAt.seq (h a b s) fun r s1 _ => ?_
    cases r with
    | done b' => exact VSimAt.ret _
    | yield b' => exact ih b' s1

theorem VSimAt.map {x x' : M α} (f : α → β) (hx : VSimAt s x x') : VSimAt s (f <$> x) (f <$> x') := by
  rw [map_eq_pure_bind, map_eq_pure_bind]
  exact VSimAt.seq hx fun _ _ _ => VSimAt.ret _

theorem VSimAt.discard {x x' : M α} (hx : VSimAt s x x') : VSimAt s (discard x) (discard x') := by
  unfold Functor.discard
  exact VSimAt.map (Function.const α PUnit.unit) hx

theorem VSim.mapM {γ : Type} {f f' : γ → M β} (h : ∀ a, VSim (f a) (f' a)) (l : List γ) :
    VSim (l.mapM f) (l.mapM f') := by
  induction l with
  | nil => intro s; simp only [List.mapM_nil]; exact VSimAt.ret _
  | cons a l ih =>
    intro s
    simp only [List.mapM_cons]
    exact VSimAt.seq (h a s) fun _ s1 _ => VSimAt.seq (ih s1) fun _ _ _ => VSimAt.ret _

end

/-- normalise everything a model function reads of `V s` / `vNode s nd` (but `kind`, `recomputedAt`) -/
macro "vnorm" : tactic => `(tactic| simp only [Vf_cfg, Vf_binds, Vf_observers, Vf_ahh,
  Vf_maxHeightSeen, Vf_status, Vf_currentScope, Vf_propagateInvalidity, Vf_handleAfterStab,
  Vf_newObservers, Vf_disallowedObservers, Vf_allObservers, Vf_setDuringStab, Vf_deadVars, Vf_counters,
  Vf_nextToken, Vf_nextDep, Vf_currentlyRunning, Vf_memos, Vf_perkeys,
  Vf_panicCountdown, Vf_alive, Vf_top, Vf_handles, Vf_slots, Vf_vars, Vf_rch, Vf_stabNum,
  V_isNecessary, V_isStale, V_needsToBeComputed, V_children, V_size, V_nodeD,
  vNode_valid, vNode_cutoff, vNode_createdIn, vNode_parents, vNode_observers,
  vNode_forceNecessary, vNode_height, vNode_heightInRch, vNode_heightInAhh,
  vNode_changedAt, vNode_value, vNode_num, vNode_inHas, vNode_oldState, vNode_didChange,
  vNode_isNecessary, vNode_inRch])

/-- closes `∀ s nd, vNode s (f nd) = f (vNode s nd)` for an `f` that does not touch `kind`, `recomputedAt` -/
macro "vcomm" : tactic => `(tactic| (intro s nd; rfl))
/-- closes `∀ nd, (f nd).kind = nd.kind ∧ (f nd).valid = nd.valid` -/
macro "vkind" : tactic => `(tactic| (intro nd; exact ⟨rfl, rfl⟩))

theorem VSim.dassert (c : Bool) (site : String) : VSim (Engine.dassert c site) (Engine.dassert c site) := by
  intro s hn r s' h
  rw [run_dassert] at h ⊢
  by_cases hc : s.cfg.debug = true ∧ c = false
  · rw [if_pos hc] at h; cases h
  · rw [if_neg hc] at h; cases h; exact ⟨if_neg hc, hn⟩

theorem VSim.assertM (c : Bool) (site : String) : VSim (Engine.assertM c site) (Engine.assertM c site) := by
  intro s hn r s' h
  rw [run_assertM] at h ⊢
  split at h
  · rename_i hc; cases h; rw [if_pos hc]; exact ⟨rfl, hn⟩
  · cases h

theorem VSim.tick : VSim Engine.tick Engine.tick := by
  intro s hn r s' h
  rw [run_tick_none s hn.pc] at h
  cases h
  exact ⟨run_tick_none (V s) hn.pc, hn⟩

theorem VSim.logEv (e : Event) : VSim (Engine.logEv e) (if keepEv e then Engine.logEv e else pure ()) := by
  intro s hn r s' h
  rw [run_logEv] at h
  cases h
  refine ⟨?_, hn.of_nodes rfl rfl rfl rfl⟩
  cases hk : keepEv e
  · rw [if_neg (by simp), run_pure]
    simp only [V, List.filter_cons, hk]; rfl
  · rw [if_pos rfl, run_logEv]
    simp only [V, List.filter_cons, hk]; rfl

theorem VSim.logEv_keep (e : Event) (h : keepEv e = true) : VSim (Engine.logEv e) (Engine.logEv e) := by
  have := VSim.logEv e; rwa [if_pos h] at this

/-! ## work that is invisible in the virtual state -/

/-- `s'` has the same virtual state as `s` (and the same kinds, validity; `Fr.ni` is kept) -/
structure VVEq (s s' : State) : Prop where
  veq : V s' = V s
  kind : ∀ m, (s'.nodeD m).kind = (s.nodeD m).kind
  valid : ∀ m, (s'.nodeD m).valid = (s.nodeD m).valid
  ni : (∀ (e : Nat) (er : ExpertRec), s.experts[e]? = some er → er.numInvalidChildren = 0) →
    ∀ (e : Nat) (er : ExpertRec), s'.experts[e]? = some er → er.numInvalidChildren = 0

theorem VVEq.refl (s : State) : VVEq s s := ⟨rfl, fun _ => rfl, fun _ => rfl, fun h => h⟩
theorem VVEq.trans {a b c : State} (h1 : VVEq a b) (h2 : VVEq b c) : VVEq a c :=
  ⟨h2.veq.trans h1.veq, fun m => (h2.kind m).trans (h1.kind m), fun m => (h2.valid m).trans (h1.valid m),
    fun h => h2.ni (h1.ni h)⟩

theorem VVEq.pc {s s' : State} (h : VVEq s s') : s'.panicCountdown = s.panicCountdown :=
  show (V s').panicCountdown = (V s).panicCountdown from congrArg State.panicCountdown h.veq

theorem VVEq.fr {s s' : State} (h : VVEq s s') (hn : Fr s) : Fr s' := by
  refine ⟨h.pc.trans hn.pc, fun n => ?_, ?_, fun n => ?_, h.ni hn.ni⟩
  · rw [h.valid]; exact hn.valid n
  · have h1 : (V s').propagateInvalidity = (V s).propagateInvalidity := by rw [h.veq]
    exact h1.trans hn.pinv
  · rw [h.kind]; exact hn.kind n

/-- the relation of the invisible programs: they may only be run while no fault is armed -/
def VVEqP (s s' : State) : Prop := s.panicCountdown = none → VVEq s s'

instance : Step.PreOrd VVEqP :=
  ⟨fun s _ => VVEq.refl s, fun {a b c} h1 h2 hp => (h1 hp).trans (h2 ((h1 hp).pc.trans hp))⟩

theorem VVEq.of_eq {s s' : State} (h : s' = s) : VVEq s s' := by subst h; exact VVEq.refl _

/-- the fields of an expert record the virtual state reads (`f`, `children`, `forceStale`, and `pk`) are unchanged,
and the invalid-children counter is not raised -/
def InvisV (f : ExpertRec → ExpertRec) : Prop :=
  ∀ x, (f x).f = x.f ∧ (f x).children = x.children ∧ (f x).forceStale = x.forceStale ∧ (f x).pk = x.pk ∧
    (x.numInvalidChildren = 0 → (f x).numInvalidChildren = 0)

theorem vxRec_modify (xs : Array ExpertRec) (e : Nat) (f : ExpertRec → ExpertRec) (hf : InvisV f) (e' : Nat) :
    (xRec (xs.modify e f) e').f = (xRec xs e').f ∧ (xRec (xs.modify e f) e').children = (xRec xs e').children ∧
      (xRec (xs.modify e f) e').forceStale = (xRec xs e').forceStale ∧
      (xRec (xs.modify e f) e').pk = (xRec xs e').pk := by
  unfold xRec
  rw [Array.getElem?_modify]
  split
  · cases h : xs[e']? with
    | none => simp
    | some er =>
      simp only [Option.map_some, Option.getD_some]
      exact ⟨(hf er).1, (hf er).2.1, (hf er).2.2.1, (hf er).2.2.2.1⟩
  · exact ⟨rfl, rfl, rfl, rfl⟩

theorem vNode_modExpert (s : State) (e : Nat) (f : ExpertRec → ExpertRec) (hf : InvisV f) (nd : Node) :
    vNode { s with experts := s.experts.modify e f } nd = vNode s nd := by
  rcases nd with ⟨k⟩
  cases k <;> try rfl
  rename_i e'
  obtain ⟨h1, h2, h3, h4⟩ := vxRec_modify s.experts e f hf e'
  simp only [vNode, vKind, forced, pkRec, h1, h2, h3, h4]
  rfl

theorem VVEq.modExpert (s : State) (e : Nat) (f : ExpertRec → ExpertRec) (hf : InvisV f) :
    VVEq s { s with experts := s.experts.modify e f } := by
  refine ⟨?_, fun _ => rfl, fun _ => rfl, fun h e' er he => ?_⟩
  · have e1 : vNode { s with experts := s.experts.modify e f } = vNode s :=
      funext (vNode_modExpert s e f hf)
    simp only [V, e1]
  · simp only [Array.getElem?_modify] at he
    split at he
    · cases h0 : s.experts[e']? with
      | none => rw [h0] at he; cases he
      | some er0 =>
        rw [h0] at he; simp only [Option.map_some, Option.some.injEq] at he
        subst he
        exact (hf er0).2.2.2.2 (h e' er0 h0)
    · exact h e' er he

theorem PresVV.modExpert (e : Nat) (f : ExpertRec → ExpertRec) (hf : InvisV f) :
    Step.Pres VVEqP (Engine.modExpert e f) := by
  unfold Engine.modExpert; exact Step.Pres.modify fun s _ => VVEq.modExpert s e f hf

theorem PresVV.tick : Step.Pres VVEqP Engine.tick := by
  constructor
  intro s r s' h hp
  rw [run_tick_none s hp] at h
  cases h; exact VVEq.refl _

theorem VVEq.logEv (s : State) (e : Event) (h : keepEv e = false) : VVEq s { s with log := e :: s.log } := by
  refine ⟨?_, fun _ => rfl, fun _ => rfl, fun h => h⟩
  simp only [V, List.filter_cons, h]; rfl

theorem PresVV.logEv (e : Event) (h : keepEv e = false) : Step.Pres VVEqP (Engine.logEv e) := by
  unfold Engine.logEv; exact Step.Pres.modify fun s _ => VVEq.logEv s e h

/-- leaves of `vpres` -/
syntax "vqleaf" : tactic
macro_rules | `(tactic| vqleaf) => `(tactic| fail "no leaf")
macro_rules | `(tactic| vqleaf) => `(tactic| with_reducible exact PresVV.tick)
macro_rules | `(tactic| vqleaf) => `(tactic| ((with_reducible apply PresVV.logEv); first | rfl | exact isF_cb))
macro_rules | `(tactic| vqleaf) => `(tactic|
  ((with_reducible apply PresVV.modExpert); intro x; exact ⟨rfl, rfl, rfl, rfl, fun h => by first | exact h | rfl⟩))

macro "vqstep" : tactic => `(tactic| first
  | with_reducible apply Step.Pres.pure | with_reducible apply Step.Pres.get | with_reducible apply Step.Pres.panic
  | with_reducible apply Step.Pres.throw
  | with_reducible apply Step.Pres.bind | with_reducible apply Step.Pres.map | with_reducible apply Step.Pres.mapM
  | with_reducible apply Step.Pres.getNode | with_reducible apply Step.Pres.dassert
  | with_reducible apply Step.Pres.getBind | with_reducible apply Step.Pres.getExpert
  | with_reducible apply Step.Pres.getVar | with_reducible apply Step.Pres.assertM
  | vqleaf
  | intro _ | split | dsimp only)

/-- decompose a `Pres VVEqP` goal along the structure of the program -/
macro "vpres" : tactic => `(tactic| repeat (any_goals vqstep))

section
variable {s : State} {β : Type}

/-- a program that only does invisible work is simulated by doing nothing -/
theorem VSimAt.of_veq {x : M Unit} (h : Step.Pres VVEqP x) : VSimAt s x (pure ()) := by
  intro hn r s' hr
  have hv := h.h s _ s' hr hn.pc
  rw [run_pure, hv.veq]; exact ⟨rfl, hv.fr hn⟩

/-- invisible work followed by `k` is simulated by `k'` if `k` is -/
theorem VSimAt.veq_seq {x : M Unit} {k : Unit → M β} {k' : M β} (h : Step.Pres VVEqP x)
    (hk : ∀ s1, VVEq s s1 → VSimAt s1 (k ()) k') : VSimAt s (x >>= k) k' := by
  intro hn r s' hr
  obtain ⟨a, s1, h1, h2⟩ := bind_ok_inv hr
  have hv := h.h s _ s1 h1 hn.pc
  have := hk s1 hv (hv.fr hn) r s' h2
  rwa [hv.veq] at this

end

theorem PresVV.observabilityChange (e : Nat) (b : Bool) : Step.Pres VVEqP (Engine.observabilityChange e b) := by
  unfold Engine.observabilityChange; vpres

theorem PresVV.edgeOnChange (env : Env) (e : Nat) (edge : ExpertEdge) :
    Step.Pres VVEqP (Engine.edgeOnChange env e edge) := by
  unfold Engine.edgeOnChange; vpres

theorem PresVV.runEdgeCallback (env : Env) (e i : Nat) : Step.Pres VVEqP (Engine.runEdgeCallback env e i) := by
  unfold Engine.runEdgeCallback; vpres; exact PresVV.edgeOnChange _ _ _

theorem VSim.observabilityChange (e : Nat) (b : Bool) : VSim (Engine.observabilityChange e b) (pure ()) :=
  fun _ => VSimAt.of_veq (PresVV.observabilityChange e b)

theorem VSim.edgeOnChange (env : Env) (e : Nat) (edge : ExpertEdge) : VSim (Engine.edgeOnChange env e edge) (pure ()) :=
  fun _ => VSimAt.of_veq (PresVV.edgeOnChange env e edge)

theorem VSim.runEdgeCallback (env : Env) (e i : Nat) : VSim (Engine.runEdgeCallback env e i) (pure ()) :=
  fun _ => VSimAt.of_veq (PresVV.runEdgeCallback env e i)

end IncrVerif.Proofs.PerKeyH
