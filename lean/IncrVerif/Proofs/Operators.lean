import IncrVerif.MapOps.Operators
import IncrVerif.Proofs.AssocMapLemmas
/-!
# Helper lemmas for C15 / C17: the diff-based operators of `MapOps/Operators.lean`

* `mealyRun`: the run of a step function over a list of inputs, with the state threaded as the Rust
  wrapper `with_old_input_output` does; `filterMapiRun`, `ufoldRun`, `mergeRun` are instances.
* what a symmetric diff says about one key (`diff_entry`, `diff_no_entry`);
* the fold functions of the operators are point updates (`AMap.alter`) of the old output, so folding
  them over a diff of `a` and `b` turns `spec a` into `spec b` (`alterFold_diff_eq`);
* the unordered fold for any add/remove/update satisfying `UFoldLaws`.
-/
namespace IncrVerif.Proofs.Ops
open IncrVerif IncrVerif.MapOps IncrVerif.AMap IncrVerif.Proofs

/-! ## Runs of a Mealy machine -/

/-- Run `step` over the inputs; after a step with input `i` and result `o` the next state is
`next i o`. -/
def mealyRun {σ ι ο : Type} (step : σ → ι → ο) (next : ι → ο → σ) : σ → List ι → List ο
  | _, [] => []
  | s, i :: is => step s i :: mealyRun step next (next i (step s i)) is

section mealy
variable {σ ι ο : Type} (step : σ → ι → ο) (next : ι → ο → σ)

@[simp] theorem mealyRun_length (s : σ) (is : List ι) : (mealyRun step next s is).length = is.length := by
  induction is generalizing s with
  | nil => rfl
  | cons i is ih => simp [mealyRun, ih]

/-- the first result is the step from the initial state -/
theorem mealyRun_head (s : σ) (i : ι) (is : List ι) :
    (mealyRun step next s (i :: is)) = step s i :: mealyRun step next (next i (step s i)) is := rfl

/-- every later result is the step from the state built from the previous input and result -/
theorem mealyRun_getElem_succ (s : σ) (is : List ι) (n : Nat) (h : n + 1 < is.length) :
    (mealyRun step next s is)[n + 1]'(by simpa using h) =
      step (next (is[n]'(by omega)) ((mealyRun step next s is)[n]'(by simp; omega))) (is[n + 1]'h) := by
  induction is generalizing s n with
  | nil => simp at h
  | cons i is ih =>
    cases n with
    | zero =>
      cases is with
      | nil => simp at h
      | cons i' is' => simp [mealyRun]
    | succ n =>
      simp only [mealyRun, List.getElem_cons_succ]
      exact ih _ n (by simpa using h)

/-- invariant reasoning: if every step from a state satisfying `Inv` on an input satisfying `P`
produces what `spec` says and re-establishes `Inv`, the projected results are `spec` of the inputs -/
theorem mealyRun_map {τ : Type} (out : ο → τ) (spec : ι → τ) (Inv : σ → Prop) (P : ι → Prop)
    (hstep : ∀ s i, Inv s → P i → out (step s i) = spec i ∧ Inv (next i (step s i)))
    (s : σ) (hs : Inv s) (is : List ι) (his : ∀ i ∈ is, P i) :
    (mealyRun step next s is).map out = is.map spec := by
  induction is generalizing s with
  | nil => rfl
  | cons i is ih =>
    obtain ⟨h1, h2⟩ := hstep s i hs (his i (by simp))
    simp only [mealyRun, List.map_cons, h1]
    rw [ih _ h2 (fun j hj => his j (by simp [hj]))]

/-- every result of a run satisfies `Q` if every step from an `Inv` state does -/
theorem mealyRun_forall (Q : ι → ο → Prop) (Inv : σ → Prop) (P : ι → Prop)
    (hstep : ∀ s i, Inv s → P i → Q i (step s i) ∧ Inv (next i (step s i)))
    (s : σ) (hs : Inv s) (is : List ι) (his : ∀ i ∈ is, P i) (n : Nat) (h : n < is.length) :
    Q (is[n]) ((mealyRun step next s is)[n]'(by simpa using h)) := by
  induction is generalizing s n with
  | nil => simp at h
  | cons i is ih =>
    obtain ⟨h1, h2⟩ := hstep s i hs (his i (by simp))
    cases n with
    | zero => exact h1
    | succ n =>
      simp only [mealyRun, List.getElem_cons_succ]
      exact ih _ h2 (fun j hj => his j (by simp [hj])) n (by simpa using h)

end mealy

/-! ## small list facts -/

/-- a fold that threads a call log next to the real accumulator splits into the two folds -/
theorem foldl_pair {σ δ κ : Type} (step : σ × List κ → δ → σ × List κ) (F : σ → δ → σ)
    (G : δ → List κ) (h : ∀ acc e, step acc e = (F acc.1 e, acc.2 ++ G e))
    (o : σ) (c : List κ) (d : List δ) :
    d.foldl step (o, c) = (d.foldl F o, c ++ d.flatMap G) := by
  induction d generalizing o c with
  | nil => simp
  | cons e d ih => simp [List.foldl_cons, h, ih, List.append_assoc]

theorem foldl_congr_mem {σ δ : Type} (F G : σ → δ → σ) (d : List δ)
    (h : ∀ acc, ∀ e ∈ d, F acc e = G acc e) (o : σ) : d.foldl F o = d.foldl G o := by
  induction d generalizing o with
  | nil => rfl
  | cons e d ih =>
    simp only [List.foldl_cons]
    rw [h o e (by simp), ih (fun acc e' he' => h acc e' (by simp [he']))]

theorem flatMap_ite_singleton {δ κ : Type} (p : δ → Bool) (g : δ → κ) (d : List δ) :
    d.flatMap (fun e => if p e then [g e] else []) = (d.filter p).map g := by
  induction d with
  | nil => rfl
  | cons e d ih =>
    simp only [List.flatMap_cons, ih, List.filter_cons]
    cases p e <;> simp

theorem pairwise_ne_of_lt {δ : Type} (key : δ → Int) (d : List δ)
    (h : List.Pairwise (· < ·) (d.map key)) : List.Pairwise (fun x y => key x ≠ key y) d := by
  rw [List.pairwise_map] at h
  exact h.imp (fun hxy => by omega)

/-! ## what a symmetric diff says about one key -/

/-- the value the old map held, `None` for an added key -/
def oldData {α : Type} : DiffElement α → Option α
  | .left l => some l
  | .right _ => none
  | .unequal l _ => some l

section diff
variable {α : Type} [DecidableEq α]

/-- an entry for `k` records the old and the new binding of `k`, and they differ -/
theorem diff_entry (a b : AMap α) (ha : a.Sorted) (hb : b.Sorted) (k : Int) (e : DiffElement α)
    (h : (k, e) ∈ symmetricDiff a b) :
    a.lookup k = oldData e ∧ b.lookup k = e.newData ∧ a.lookup k ≠ b.lookup k := by
  rcases (symmetricDiff_mem a b ha hb k e).mp h with ⟨x, h1, h2, rfl⟩ | ⟨y, h1, h2, rfl⟩ |
      ⟨x, y, h1, h2, h3, rfl⟩
  · simp [h1, h2, oldData, DiffElement.newData]
  · simp [h1, h2, oldData, DiffElement.newData]
  · simp [h1, h2, oldData, DiffElement.newData, h3]

/-- a key without an entry has the same binding in both maps -/
theorem diff_no_entry (a b : AMap α) (ha : a.Sorted) (hb : b.Sorted) (k : Int)
    (h : ∀ x ∈ symmetricDiff a b, x.1 ≠ k) : a.lookup k = b.lookup k := by
  rcases hA : a.lookup k with _ | x <;> rcases hB : b.lookup k with _ | y
  · rfl
  · exact absurd rfl (h (k, .right y) ((symmetricDiff_mem a b ha hb k _).mpr (.inr (.inl ⟨y, hA, hB, rfl⟩))))
  · exact absurd rfl (h (k, .left x) ((symmetricDiff_mem a b ha hb k _).mpr (.inl ⟨x, hA, hB, rfl⟩)))
  · by_cases hxy : x = y
    · rw [hxy]
    · exact absurd rfl (h (k, .unequal x y)
        ((symmetricDiff_mem a b ha hb k _).mpr (.inr (.inr ⟨x, y, hA, hB, hxy, rfl⟩))))

theorem diff_keys_ne (a b : AMap α) (ha : a.Sorted) (hb : b.Sorted) :
    List.Pairwise (fun x y => x.1 ≠ y.1) (symmetricDiff a b) :=
  pairwise_ne_of_lt (fun x : Int × DiffElement α => x.1) _ (symmetricDiff_ascending a b ha hb)

theorem symmetricDiff_self (a : AMap α) (ha : a.Sorted) : symmetricDiff a a = [] :=
  (symmetricDiff_nil_iff a a ha ha).mpr rfl

theorem symmetricDiff_nil_left (b : AMap α) (hb : b.Sorted) :
    symmetricDiff [] b = b.map fun kv => (kv.1, .right kv.2) := by
  rw [symmetricDiff_eq_ref [] b sorted_nil hb, refDiff_nil_left]

theorem symmetricDiff_length_le (a b : AMap α) (ha : a.Sorted) (hb : b.Sorted) :
    (symmetricDiff a b).length ≤ a.length + b.length := by
  rw [symmetricDiff_eq_ref a b ha hb]
  fun_induction refDiff a b with
  | case1 b => simp
  | case2 a h => simp
  | case3 ka va ra kb vb rb h ih =>
    have := ih ha.tail hb; simp at this ⊢; omega
  | case4 ka va ra kb vb rb h1 h2 ih =>
    have := ih ha hb.tail; simp at this ⊢; omega
  | case5 ka va ra kb vb rb h1 h2 h3 ih =>
    have := ih ha.tail hb.tail; simp at this ⊢; omega
  | case6 ka va ra kb vb rb h1 h2 h3 ih =>
    have := ih ha.tail hb.tail; simp at this ⊢; omega

end diff

/-! ## the core lemma: folding point updates over a diff turns `spec a` into `spec b`

The specification map is key-wise: its binding for `k` is `φ k (binding of k in the input)`.  Every diff
entry either sets its key to the new value of `φ`, or leaves it alone when `φ` did not change. -/

section core
variable {α : Type}

theorem lookup_alterFold_diff (φ : Int → Option Int → Option α) (a b : AMap Int)
    (ha : a.Sorted) (hb : b.Sorted) (op : Int × DiffElement Int → Option (Option α))
    (hop : ∀ x ∈ symmetricDiff a b, op x = some (φ x.1 (b.lookup x.1)) ∨
      (op x = none ∧ φ x.1 (a.lookup x.1) = φ x.1 (b.lookup x.1)))
    (acc : AMap α) (hs : acc.Sorted) (hacc : ∀ k, acc.lookup k = φ k (a.lookup k)) (k : Int) :
    (alterFold (·.1) op acc (symmetricDiff a b)).lookup k = φ k (b.lookup k) := by
  by_cases hk : ∃ x ∈ symmetricDiff a b, x.1 = k
  · obtain ⟨x, hx, rfl⟩ := hk
    rw [lookup_alterFold_of_mem (·.1) op acc hs _ (diff_keys_ne a b ha hb) x hx]
    rcases hop x hx with h | ⟨h1, h2⟩
    · rw [h]; rfl
    · rw [h1, hacc, h2]; rfl
  · rw [lookup_alterFold_of_not_mem (·.1) op acc _ k (fun x hx hxk => hk ⟨x, hx, hxk⟩), hacc,
      diff_no_entry a b ha hb k (fun x hx hxk => hk ⟨x, hx, hxk⟩)]

theorem alterFold_diff_eq (φ : Int → Option Int → Option α) (a b : AMap Int)
    (ha : a.Sorted) (hb : b.Sorted) (op : Int × DiffElement Int → Option (Option α))
    (hop : ∀ x ∈ symmetricDiff a b, op x = some (φ x.1 (b.lookup x.1)) ∨
      (op x = none ∧ φ x.1 (a.lookup x.1) = φ x.1 (b.lookup x.1)))
    (specA specB : AMap α) (hsA : specA.Sorted) (hsB : specB.Sorted)
    (hA : ∀ k, specA.lookup k = φ k (a.lookup k)) (hB : ∀ k, specB.lookup k = φ k (b.lookup k)) :
    alterFold (·.1) op specA (symmetricDiff a b) = specB := by
  apply ext_lookup _ _ (sorted_alterFold _ _ _ hsA _) hsB
  intro k
  rw [lookup_alterFold_diff φ a b ha hb op hop specA hsA hA k, hB]

end core

/-! ## `incr_filter_mapi` -/

/-- the point update a diff entry causes in the output of `incr_filter_mapi` -/
def fmOp (f : Int → Int → Option Int) : Int × DiffElement Int → Option (Option Int)
  | (_, .left _) => some none
  | (k, .right v) => some (f k v)
  | (k, .unequal _ v) => some (f k v)

/-- an entry for a key that is still (or newly) present, i.e. not a removal -/
def isNew : Int × DiffElement Int → Bool
  | (_, .left _) => false
  | (_, .right _) => true
  | (_, .unequal _ _) => true

theorem filterMapiFold_eq (f : Int → Int → Option Int) (acc : AMap Int × List Call)
    (e : Int × DiffElement Int) :
    filterMapiFold f acc e =
      (alter acc.1 e.1 (fmOp f e), acc.2 ++ (if isNew e then [(Role.fn, e.1)] else [])) := by
  rcases e with ⟨k, _ | _ | _⟩ <;> simp only [filterMapiFold, fmOp, isNew]
  · split <;> simp_all [alter]
  · simp [alter]
  · split <;> simp_all [alter]

theorem foldl_filterMapiFold (f : Int → Int → Option Int) (o : AMap Int) (c : List Call)
    (d : List (Int × DiffElement Int)) :
    d.foldl (filterMapiFold f) (o, c) =
      (alterFold (·.1) (fmOp f) o d, c ++ (d.filter isNew).map fun e => (Role.fn, e.1)) := by
  rw [foldl_pair _ (fun m e => alter m e.1 (fmOp f e)) (fun e => if isNew e then [(Role.fn, e.1)] else [])
    (filterMapiFold_eq f), flatMap_ite_singleton]
  rfl

theorem filterMapSpec_sorted (f : Int → Int → Option Int) (m : AMap Int) (hs : m.Sorted) :
    (filterMapSpec f m).Sorted := sorted_filterMap_val f m hs

theorem lookup_filterMapSpec (f : Int → Int → Option Int) (m : AMap Int) (hs : m.Sorted) (k : Int) :
    (filterMapSpec f m).lookup k = (m.lookup k).bind (f k) := lookup_filterMap_val f m hs k

/-- core lemma for `incr_filter_mapi` -/
theorem filterMapi_diff (f : Int → Int → Option Int) (a b : AMap Int) (ha : a.Sorted) (hb : b.Sorted) :
    alterFold (·.1) (fmOp f) (filterMapSpec f a) (symmetricDiff a b) = filterMapSpec f b := by
  apply alterFold_diff_eq (fun k o => o.bind (f k)) a b ha hb (fmOp f) _ _ _
    (filterMapSpec_sorted f a ha) (filterMapSpec_sorted f b hb)
    (lookup_filterMapSpec f a ha) (lookup_filterMapSpec f b hb)
  rintro ⟨k, e⟩ hx
  left
  obtain ⟨-, h2, -⟩ := diff_entry a b ha hb k e hx
  simp only [h2]
  cases e <;> rfl

/-- equations of the closure -/
theorem filterMapiStep_nil (f : Int → Int → Option Int) (old : Option (AMap Int × AMap Int)) :
    filterMapiStep f old [] = ([], true, []) := by cases old <;> rfl

theorem filterMapiStep_none (f : Int → Int → Option Int) (m : AMap Int) :
    filterMapiStep f none m = (filterMapCollect f m, true, m.map fun kv => (Role.fn, kv.1)) := by
  cases m <;> rfl

theorem filterMapiStep_some (f : Int → Int → Option Int) (a o m : AMap Int) (hm : m ≠ []) :
    filterMapiStep f (some (a, o)) m =
      (alterFold (·.1) (fmOp f) o (symmetricDiff a m), !(symmetricDiff a m).isEmpty,
       ((symmetricDiff a m).filter isNew).map fun e => (Role.fn, e.1)) := by
  cases m with
  | nil => exact absurd rfl hm
  | cons x m =>
    show ((List.foldl (filterMapiFold f) (o, []) (symmetricDiff a (x :: m))).1, _,
      (List.foldl (filterMapiFold f) (o, []) (symmetricDiff a (x :: m))).2) = _
    rw [foldl_filterMapiFold]; simp

/-- the state the wrapper holds is either "never ran" or a sorted input with its specified output -/
def FMInv (f : Int → Int → Option Int) : Option (AMap Int × AMap Int) → Prop
  | none => True
  | some (a, o) => a.Sorted ∧ o = filterMapSpec f a

theorem filterMapiStep_out (f : Int → Int → Option Int) (old : Option (AMap Int × AMap Int))
    (hold : FMInv f old) (m : AMap Int) (hm : m.Sorted) :
    (filterMapiStep f old m).1 = filterMapSpec f m := by
  by_cases hnil : m = []
  · subst hnil; rw [filterMapiStep_nil]; rfl
  · rcases old with _ | ⟨a, o⟩
    · rw [filterMapiStep_none]; rfl
    · obtain ⟨ha, rfl⟩ := hold
      rw [filterMapiStep_some f a _ m hnil]
      exact filterMapi_diff f a m ha hm

/-- the run of `incr_filter_mapi` over a sequence of inputs, from a fresh node -/
def filterMapiRun (f : Int → Int → Option Int) (inputs : List (AMap Int)) :
    List (AMap Int × Bool × List Call) :=
  mealyRun (filterMapiStep f) (fun m r => some (m, r.1)) none inputs

theorem filterMapiRun_out (f : Int → Int → Option Int) (inputs : List (AMap Int))
    (hs : ∀ m ∈ inputs, m.Sorted) :
    (filterMapiRun f inputs).map (·.1) = inputs.map (filterMapSpec f) := by
  apply mealyRun_map (filterMapiStep f) (fun m r => some (m, r.1)) (fun r => r.1) (filterMapSpec f)
    (FMInv f) AMap.Sorted _ none trivial inputs hs
  intro s m hs hm
  have := filterMapiStep_out f s hs m hm
  exact ⟨this, hm, this⟩

/-! ### `did_change` and the call list of `incr_filter_mapi` -/

/-- `did_change = false` happens only for a non-empty input equal to the previous one, and then the
output is the previous output -/
theorem filterMapiStep_flag_false (f : Int → Int → Option Int) (a o m : AMap Int)
    (ha : a.Sorted) (hm : m.Sorted) (h : (filterMapiStep f (some (a, o)) m).2.1 = false) :
    m ≠ [] ∧ a = m ∧ (filterMapiStep f (some (a, o)) m).1 = o := by
  by_cases hnil : m = []
  · subst hnil; rw [filterMapiStep_nil] at h; simp at h
  · rw [filterMapiStep_some f a o m hnil] at h ⊢
    simp only [Bool.not_eq_false', List.isEmpty_iff] at h
    refine ⟨hnil, (symmetricDiff_nil_iff a m ha hm).mp h, ?_⟩
    simp only [h]; rfl

/-- equal non-empty inputs: nothing is called, nothing changes -/
theorem filterMapiStep_same (f : Int → Int → Option Int) (a o : AMap Int) (ha : a.Sorted)
    (hne : a ≠ []) : filterMapiStep f (some (a, o)) a = (o, false, []) := by
  rw [filterMapiStep_some f a o a hne, symmetricDiff_self a ha]; rfl

theorem filterMapiRun_succ (f : Int → Int → Option Int) (inputs : List (AMap Int)) (n : Nat)
    (h : n + 1 < inputs.length) :
    (filterMapiRun f inputs)[n + 1]'(by simpa [filterMapiRun] using h) =
      filterMapiStep f (some (inputs[n], ((filterMapiRun f inputs)[n]'(by
        simp [filterMapiRun]; omega)).1)) inputs[n + 1] :=
  mealyRun_getElem_succ (filterMapiStep f) (fun m r => some (m, r.1)) none inputs n h

/-! ## `incr_unordered_fold_with` -/

section ufold
variable {ρ : Type}

/-- what the fold does to the accumulator for one diff entry -/
def ufOp (u : UFold ρ) (r : ρ) : Int × DiffElement Int → ρ
  | (k, .left v) => u.remove r k v
  | (k, .right v) => u.add r k v
  | (k, .unequal o n) => u.update r k o n

/-- the user-function call a diff entry causes in `incr_unordered_fold_with` -/
def diffCall : Int × DiffElement Int → Call
  | (k, .left _) => (.remove, k)
  | (k, .right _) => (.add, k)
  | (k, .unequal _ _) => (.update, k)

theorem ufoldFold_eq (u : UFold ρ) (acc : ρ × List Call) (e : Int × DiffElement Int) :
    ufoldFold u acc e = (ufOp u acc.1 e, acc.2 ++ [diffCall e]) := by
  rcases e with ⟨k, _ | _ | _⟩ <;> rfl

theorem foldl_ufoldFold (u : UFold ρ) (o : ρ) (c : List Call) (d : List (Int × DiffElement Int)) :
    d.foldl (ufoldFold u) (o, c) = (d.foldl (ufOp u) o, c ++ d.map diffCall) := by
  rw [foldl_pair _ (ufOp u) (fun e => [diffCall e]) (ufoldFold_eq u)]
  congr 2
  induction d with
  | nil => rfl
  | cons e d ih => simp [ih]

/-- the non-incremental fold: `add` every binding, in key order, starting from `init` -/
def ufoldSpec (u : UFold ρ) (init : ρ) (m : AMap Int) : ρ :=
  m.foldl (fun acc kv => u.add acc kv.1 kv.2) init

/-- The algebraic laws under which the incremental fold is right: `add`s of different keys commute,
`remove` undoes an `add` of the same binding, `update` replaces an added binding. -/
structure UFoldLaws (u : UFold ρ) : Prop where
  add_comm : ∀ acc k v k' v', k ≠ k' → u.add (u.add acc k v) k' v' = u.add (u.add acc k' v') k v
  remove_add : ∀ acc k v, u.remove (u.add acc k v) k v = acc
  update_add : ∀ acc k o n, u.update (u.add acc k o) k o n = u.add acc k n

theorem ufoldSpec_cons (u : UFold ρ) (init : ρ) (k v : Int) (m : AMap Int) :
    ufoldSpec u init ((k, v) :: m) = ufoldSpec u (u.add init k v) m := rfl

theorem ufoldSpec_add_comm (u : UFold ρ) (hl : UFoldLaws u) (init : ρ) (k v : Int) (m : AMap Int)
    (hk : k ∉ m.keys) : ufoldSpec u (u.add init k v) m = u.add (ufoldSpec u init m) k v := by
  induction m generalizing init with
  | nil => rfl
  | cons kv m ih =>
    rcases kv with ⟨k', v'⟩
    simp only [keys_cons', List.mem_cons, not_or] at hk
    rw [ufoldSpec_cons, ufoldSpec_cons, hl.add_comm _ _ _ _ _ hk.1, ih _ hk.2]

theorem not_mem_keys_of_sorted_cons {α : Type} (k : Int) (v : α) (m : AMap α)
    (h : Sorted ((k, v) :: m)) : k ∉ m.keys := by
  intro hk
  have := ((sorted_cons_iff k v m).mp h).1 k hk
  omega

theorem ufold_remove_all (u : UFold ρ) (hl : UFoldLaws u) (a : AMap Int) (ha : a.Sorted) (init : ρ) :
    (a.map fun kv => (kv.1, DiffElement.left kv.2)).foldl (ufOp u) (ufoldSpec u init a) = init := by
  induction a with
  | nil => rfl
  | cons kv a ih =>
    rcases kv with ⟨k, v⟩
    rw [ufoldSpec_cons, ufoldSpec_add_comm u hl init k v a (not_mem_keys_of_sorted_cons k v a ha)]
    simp only [List.map_cons, List.foldl_cons, ufOp, hl.remove_add]
    exact ih ha.tail

/-- core lemma for the unordered fold, on the textbook diff -/
theorem ufold_refDiff (u : UFold ρ) (hl : UFoldLaws u) (a b : AMap Int) (ha : a.Sorted)
    (hb : b.Sorted) : ∀ init : ρ,
    (refDiff a b).foldl (ufOp u) (ufoldSpec u init a) = ufoldSpec u init b := by
  fun_induction refDiff a b with
  | case1 b =>
    intro init
    rw [List.foldl_map]; rfl
  | case2 a h =>
    intro init
    exact ufold_remove_all u hl a ha init
  | case3 ka va ra kb vb rb h ih =>
    intro init
    rw [ufoldSpec_cons, ufoldSpec_add_comm u hl init ka va ra (not_mem_keys_of_sorted_cons ka va ra ha)]
    simp only [List.foldl_cons, ufOp, hl.remove_add]
    exact ih ha.tail hb init
  | case4 ka va ra kb vb rb h1 h2 ih =>
    intro init
    have hnot : kb ∉ AMap.keys ((ka, va) :: ra) := by
      intro hk
      rcases List.mem_cons.mp hk with rfl | hk'
      · omega
      · have := ((sorted_cons_iff ka va ra).mp ha).1 kb hk'; omega
    simp only [List.foldl_cons, ufOp]
    rw [← ufoldSpec_add_comm u hl init kb vb _ hnot]
    exact ih ha hb.tail (u.add init kb vb)
  | case5 ka va ra kb vb rb h1 h2 h3 ih =>
    intro init
    have hk : ka = kb := by omega
    subst hk
    rw [ufoldSpec_cons, ufoldSpec_add_comm u hl init ka va ra (not_mem_keys_of_sorted_cons ka va ra ha)]
    simp only [List.foldl_cons, ufOp, hl.update_add]
    rw [← ufoldSpec_add_comm u hl init ka vb ra (not_mem_keys_of_sorted_cons ka va ra ha)]
    exact ih ha.tail hb.tail (u.add init ka vb)
  | case6 ka va ra kb vb rb h1 h2 h3 ih =>
    intro init
    have hk : ka = kb := by omega
    have hv : va = vb := by simpa using h3
    subst hk hv
    exact ih ha.tail hb.tail (u.add init ka va)

/-- core lemma for the unordered fold -/
theorem ufold_diff (u : UFold ρ) (hl : UFoldLaws u) (a b : AMap Int) (ha : a.Sorted)
    (hb : b.Sorted) (init : ρ) :
    (symmetricDiff a b).foldl (ufOp u) (ufoldSpec u init a) = ufoldSpec u init b := by
  rw [symmetricDiff_eq_ref a b ha hb]; exact ufold_refDiff u hl a b ha hb init

/-- equations of the closure -/
theorem ufoldStep_none (u : UFold ρ) (init : ρ) (m : AMap Int) :
    ufoldStep u init none m = (ufoldSpec u init m, true, m.map fun kv => (Role.add, kv.1)) := rfl

theorem ufoldStep_revert (u : UFold ρ) (init : ρ) (a : AMap Int) (o : ρ)
    (hr : u.revertToInitWhenEmpty = true) :
    ufoldStep u init (some (a, o)) [] = (init, !a.isEmpty, []) := by
  simp [ufoldStep, hr]

theorem ufoldStep_diff (u : UFold ρ) (init : ρ) (a : AMap Int) (o : ρ) (m : AMap Int)
    (h : u.revertToInitWhenEmpty = false ∨ m ≠ []) :
    ufoldStep u init (some (a, o)) m =
      ((symmetricDiff a m).foldl (ufOp u) o, !(symmetricDiff a m).isEmpty,
       (symmetricDiff a m).map diffCall) := by
  have hc : (u.revertToInitWhenEmpty && m.isEmpty) = false := by
    rcases h with h | h
    · simp [h]
    · cases m with
      | nil => exact absurd rfl h
      | cons x m => simp
  simp only [ufoldStep, hc, foldl_ufoldFold]
  simp

/-- the state the wrapper holds: "never ran", or a sorted input with its specified output -/
def UFInv (u : UFold ρ) (init : ρ) : Option (AMap Int × ρ) → Prop
  | none => True
  | some (a, o) => a.Sorted ∧ o = ufoldSpec u init a

theorem ufoldStep_out (u : UFold ρ) (hl : UFoldLaws u) (init : ρ) (old : Option (AMap Int × ρ))
    (hold : UFInv u init old) (m : AMap Int) (hm : m.Sorted) :
    (ufoldStep u init old m).1 = ufoldSpec u init m := by
  rcases old with _ | ⟨a, o⟩
  · rfl
  · obtain ⟨ha, rfl⟩ := hold
    by_cases h : u.revertToInitWhenEmpty = false ∨ m ≠ []
    · rw [ufoldStep_diff u init a _ m h]
      exact ufold_diff u hl a m ha hm init
    · have h1 : u.revertToInitWhenEmpty = true := by
        cases hr : u.revertToInitWhenEmpty
        · exact absurd (.inl hr) h
        · rfl
      have h2 : m = [] := by
        by_cases hm' : m = []
        · exact hm'
        · exact absurd (.inr hm') h
      subst h2
      rw [ufoldStep_revert u init a _ h1]; rfl

/-- equal inputs: nothing is called, `did_change = false` -/
theorem ufoldStep_same (u : UFold ρ) (init : ρ) (a : AMap Int) (ha : a.Sorted) (o : ρ) :
    (ufoldStep u init (some (a, o)) a).2 = (false, []) := by
  by_cases h : u.revertToInitWhenEmpty = false ∨ a ≠ []
  · rw [ufoldStep_diff u init a o a h, symmetricDiff_self a ha]; rfl
  · have h1 : u.revertToInitWhenEmpty = true := by
      cases hr : u.revertToInitWhenEmpty
      · exact absurd (.inl hr) h
      · rfl
    have h2 : a = [] := by
      by_cases hm' : a = []
      · exact hm'
      · exact absurd (.inr hm') h
    subst h2
    rw [ufoldStep_revert u init [] o h1]; rfl

/-- the run of `incr_unordered_fold_with` over a sequence of inputs, from a fresh node -/
def ufoldRun (u : UFold ρ) (init : ρ) (inputs : List (AMap Int)) : List (ρ × Bool × List Call) :=
  mealyRun (ufoldStep u init) (fun m r => some (m, r.1)) none inputs

theorem ufoldRun_out (u : UFold ρ) (hl : UFoldLaws u) (init : ρ) (inputs : List (AMap Int))
    (hs : ∀ m ∈ inputs, m.Sorted) :
    (ufoldRun u init inputs).map (·.1) = inputs.map (ufoldSpec u init) := by
  apply mealyRun_map (ufoldStep u init) (fun m r => some (m, r.1)) (fun r => r.1) (ufoldSpec u init)
    (UFInv u init) AMap.Sorted _ none trivial inputs hs
  intro s m hs hm
  have := ufoldStep_out u hl init s hs m hm
  exact ⟨this, hm, this⟩

theorem ufoldRun_succ (u : UFold ρ) (init : ρ) (inputs : List (AMap Int)) (n : Nat)
    (h : n + 1 < inputs.length) :
    (ufoldRun u init inputs)[n + 1]'(by simpa [ufoldRun] using h) =
      ufoldStep u init (some (inputs[n], ((ufoldRun u init inputs)[n]'(by
        simp [ufoldRun]; omega)).1)) inputs[n + 1] :=
  mealyRun_getElem_succ (ufoldStep u init) (fun m r => some (m, r.1)) none inputs n h

end ufold

/-! ### the sum instances (`ρ = Int`) -/

theorem sumLaws (g : Int → Int → Int) (u : UFold Int)
    (hadd : ∀ acc k v, u.add acc k v = acc + g k v)
    (hrem : ∀ acc k v, u.remove acc k v = acc - g k v)
    (hupd : ∀ acc k o n, u.update acc k o n = acc - g k o + g k n) : UFoldLaws u where
  add_comm := by intro acc k v k' v' _; simp only [hadd]; omega
  remove_add := by intro acc k v; simp only [hadd, hrem]; omega
  update_add := by intro acc k o n; simp only [hadd, hupd]; omega

theorem sumLaws_plain (g : Int → Int → Int) (revert : Bool) :
    UFoldLaws (UFold.plain (fun acc k v => acc + g k v) (fun acc k v => acc - g k v) revert) :=
  sumLaws g _ (fun _ _ _ => rfl) (fun _ _ _ => rfl) (fun _ _ _ _ => rfl)

theorem ufoldSpec_sum (g : Int → Int → Int) (u : UFold Int)
    (hadd : ∀ acc k v, u.add acc k v = acc + g k v) (init : Int) (m : AMap Int) :
    ufoldSpec u init m = ufoldSpecSum g init m := by
  simp only [ufoldSpec, ufoldSpecSum, hadd]

/-! ## `incr_partition_mapi` -/

/-- the left / right projection of the classifying function -/
def pL (f : Int → Int → Either) (k v : Int) : Option Int :=
  match f k v with | .left a => some a | .right _ => none

def pR (f : Int → Int → Either) (k v : Int) : Option Int :=
  match f k v with | .left _ => none | .right b => some b

/-- the two halves of a partition are two `filter_mapi`s -/
theorem partitionSpec_eq (f : Int → Int → Either) (m : AMap Int) :
    partitionSpec f m = (filterMapSpec (pL f) m, filterMapSpec (pR f) m) := by
  unfold partitionSpec filterMapSpec filterMapCollect
  congr 2 <;> funext kv <;> simp only [pL, pR] <;> cases f kv.1 kv.2 <;> rfl

/-- point update of the left half caused by a diff entry -/
def pOp1 (f : Int → Int → Either) : Int × DiffElement Int → Option (Option Int)
  | (_, .left _) => some none
  | (k, .right v) => match f k v with | .left a => some (some a) | .right _ => none
  | (k, .unequal _ v) => match f k v with | .left a => some (some a) | .right _ => some none

/-- point update of the right half caused by a diff entry -/
def pOp2 (f : Int → Int → Either) : Int × DiffElement Int → Option (Option Int)
  | (_, .left _) => some none
  | (k, .right v) => match f k v with | .left _ => none | .right b => some (some b)
  | (k, .unequal _ v) => match f k v with | .left _ => some none | .right b => some (some b)

theorem partition_ufOp (f : Int → Int → Either) (lr : AMap Int × AMap Int)
    (e : Int × DiffElement Int) :
    ufOp (partitionUFold f) lr e = (alter lr.1 e.1 (pOp1 f e), alter lr.2 e.1 (pOp2 f e)) := by
  rcases e with ⟨k, ⟨o, v⟩ | v | v⟩ <;> simp only [ufOp, partitionUFold, pOp1, pOp2]
  · rcases hf : f k v with a | b <;> simp [alter]
  · rfl
  · rcases hf : f k v with a | b <;> simp [alter]

theorem foldl_prod {σ τ δ : Type} (F : σ × τ → δ → σ × τ) (F1 : σ → δ → σ) (F2 : τ → δ → τ)
    (h : ∀ acc e, F acc e = (F1 acc.1 e, F2 acc.2 e)) (l : σ) (r : τ) (d : List δ) :
    d.foldl F (l, r) = (d.foldl F1 l, d.foldl F2 r) := by
  induction d generalizing l r with
  | nil => rfl
  | cons e d ih => simp [List.foldl_cons, h, ih]

theorem foldl_partition (f : Int → Int → Either) (l r : AMap Int) (d : List (Int × DiffElement Int)) :
    d.foldl (ufOp (partitionUFold f)) (l, r) =
      (alterFold (·.1) (pOp1 f) l d, alterFold (·.1) (pOp2 f) r d) :=
  foldl_prod _ (fun m e => alter m e.1 (pOp1 f e)) (fun m e => alter m e.1 (pOp2 f e))
    (partition_ufOp f) l r d

/-- core lemma for `incr_partition_mapi` -/
theorem partition_diff (f : Int → Int → Either) (a b : AMap Int) (ha : a.Sorted) (hb : b.Sorted) :
    (symmetricDiff a b).foldl (ufOp (partitionUFold f)) (partitionSpec f a) = partitionSpec f b := by
  rw [partitionSpec_eq, partitionSpec_eq, foldl_partition]
  congr 1
  · apply alterFold_diff_eq (fun k o => o.bind (pL f k)) a b ha hb (pOp1 f) _ _ _
      (filterMapSpec_sorted _ a ha) (filterMapSpec_sorted _ b hb)
      (lookup_filterMapSpec _ a ha) (lookup_filterMapSpec _ b hb)
    rintro ⟨k, e⟩ hx
    obtain ⟨h1, h2, -⟩ := diff_entry a b ha hb k e hx
    simp only [h1, h2]
    rcases e with ⟨o, v⟩ | v | v <;> simp only [pOp1, oldData, DiffElement.newData, Option.bind, pL]
    · rcases hf : f k v with a | b <;> simp
    · simp
    · rcases hf : f k v with a | b <;> simp
  · apply alterFold_diff_eq (fun k o => o.bind (pR f k)) a b ha hb (pOp2 f) _ _ _
      (filterMapSpec_sorted _ a ha) (filterMapSpec_sorted _ b hb)
      (lookup_filterMapSpec _ a ha) (lookup_filterMapSpec _ b hb)
    rintro ⟨k, e⟩ hx
    obtain ⟨h1, h2, -⟩ := diff_entry a b ha hb k e hx
    simp only [h1, h2]
    rcases e with ⟨o, v⟩ | v | v <;> simp only [pOp2, oldData, DiffElement.newData, Option.bind, pR]
    · rcases hf : f k v with a | b <;> simp
    · simp
    · rcases hf : f k v with a | b <;> simp

/-- the initial fold (all `add`s into the empty pair) is the fold over the diff from the empty map -/
theorem ufoldSpec_eq_diff_nil {ρ : Type} (u : UFold ρ) (init : ρ) (m : AMap Int) (hm : m.Sorted) :
    ufoldSpec u init m = (symmetricDiff [] m).foldl (ufOp u) init := by
  rw [symmetricDiff_nil_left m hm, List.foldl_map]; rfl

theorem partition_initial (f : Int → Int → Either) (m : AMap Int) (hm : m.Sorted) :
    ufoldSpec (partitionUFold f) ([], []) m = partitionSpec f m := by
  rw [ufoldSpec_eq_diff_nil _ _ m hm]
  exact partition_diff f [] m sorted_nil hm

def PInv (f : Int → Int → Either) : Option (AMap Int × (AMap Int × AMap Int)) → Prop
  | none => True
  | some (a, o) => a.Sorted ∧ o = partitionSpec f a

theorem partitionStep_out (f : Int → Int → Either) (old : Option (AMap Int × (AMap Int × AMap Int)))
    (hold : PInv f old) (m : AMap Int) (hm : m.Sorted) :
    (ufoldStep (partitionUFold f) ([], []) old m).1 = partitionSpec f m := by
  rcases old with _ | ⟨a, o⟩
  · exact partition_initial f m hm
  · obtain ⟨ha, rfl⟩ := hold
    by_cases hnil : m = []
    · subst hnil; rw [ufoldStep_revert _ _ a _ rfl]; rfl
    · rw [ufoldStep_diff _ _ a _ m (.inr hnil)]
      exact partition_diff f a m ha hm

theorem partitionRun_out (f : Int → Int → Either) (inputs : List (AMap Int))
    (hs : ∀ m ∈ inputs, m.Sorted) :
    (ufoldRun (partitionUFold f) ([], []) inputs).map (·.1) = inputs.map (partitionSpec f) := by
  apply mealyRun_map (ufoldStep (partitionUFold f) ([], [])) (fun m r => some (m, r.1))
    (fun r => r.1) (partitionSpec f) (PInv f) AMap.Sorted _ none trivial inputs hs
  intro s m hs hm
  have := partitionStep_out f s hs m hm
  exact ⟨this, hm, this⟩

/-! ## `incr_merge` -/

/-- the value of the merged map at one key, from what the two inputs hold there -/
def mergeVal (f : Int → MergeArg → Option Int) (k : Int) : Option Int → Option Int → Option Int
  | none, none => none
  | some x, none => f k (.left x)
  | none, some y => f k (.right y)
  | some x, some y => f k (.both x y)

/-- the elements of the stream `merge_shared_impl` folds over -/
abbrev MStream := MergeElement (Int × DiffElement Int) (Int × DiffElement Int)

/-- the pair (new left value, new right value) the closure computes for a stream element -/
def mData (newL newR : AMap Int) : MStream → Option Int × Option Int
  | .both (_, ld) (_, rd) => (ld.newData, rd.newData)
  | .left (k, ld) => (ld.newData, newR.lookup k)
  | .right (k, rd) => (newL.lookup k, rd.newData)

/-- the body of `mergeFold` once the key and the data pair are known -/
def mergeFoldCore (f : Int → MergeArg → Option Int) (acc : AMap Int × List Call) (key : Int)
    (data : Option Int × Option Int) : AMap Int × List Call :=
  let outOpt : Option Int × List Call := match data with
    | (none, none) => (none, [])
    | (some x, none) => (f key (.left x), [(.merge, key)])
    | (none, some y) => (f key (.right y), [(.merge, key)])
    | (some a, some b) => (f key (.both a b), [(.merge, key)])
  match outOpt.1 with
  | none => (acc.1.erase key, acc.2 ++ outOpt.2)
  | some r => (acc.1.insert key r, acc.2 ++ outOpt.2)

theorem mergeFold_core (f : Int → MergeArg → Option Int) (newL newR : AMap Int)
    (acc : AMap Int × List Call) (e : MStream) :
    mergeFold f newL newR acc e = mergeFoldCore f acc e.key (mData newL newR e) := by
  rcases e with ⟨k, ld⟩ | ⟨k, rd⟩ | ⟨⟨k, ld⟩, ⟨k', rd⟩⟩ <;> rfl

theorem mergeFoldCore_eq (f : Int → MergeArg → Option Int) (acc : AMap Int × List Call) (k : Int)
    (a b : Option Int) :
    mergeFoldCore f acc k (a, b) =
      (alter acc.1 k (some (mergeVal f k a b)),
       acc.2 ++ (if a.isSome || b.isSome then [(Role.merge, k)] else [])) := by
  rcases a with _ | x <;> rcases b with _ | y <;> simp only [mergeFoldCore, mergeVal, alter]
  · simp
  · rcases f k (.right y) with _ | r <;> simp
  · rcases f k (.left x) with _ | r <;> simp
  · rcases f k (.both x y) with _ | r <;> simp

theorem mergeFold_eq (f : Int → MergeArg → Option Int) (newL newR : AMap Int)
    (acc : AMap Int × List Call) (e : MStream) :
    mergeFold f newL newR acc e =
      (alter acc.1 e.key (some (mergeVal f e.key (mData newL newR e).1 (mData newL newR e).2)),
       acc.2 ++ (if (mData newL newR e).1.isSome || (mData newL newR e).2.isSome
          then [(Role.merge, e.key)] else [])) := by
  rw [mergeFold_core, ← mergeFoldCore_eq]

/-- in the stream built from the two diffs, the data pair is what the new inputs hold for the key -/
theorem mData_of_mem (oldL oldR newL newR : AMap Int) (hoL : oldL.Sorted) (hoR : oldR.Sorted)
    (hnL : newL.Sorted) (hnR : newR.Sorted) (e : MStream)
    (he : e ∈ mergeDiffs (symmetricDiff oldL newL) (symmetricDiff oldR newR)) :
    mData newL newR e = (newL.lookup e.key, newR.lookup e.key) := by
  rcases (mergeDiffs_mem _ _ (symmetricDiff_ascending oldL newL hoL hnL)
      (symmetricDiff_ascending oldR newR hoR hnR) e).mp he with
    ⟨⟨k, ld⟩, rfl, hx, -⟩ | ⟨⟨k, rd⟩, rfl, hy, -⟩ | ⟨⟨k, ld⟩, ⟨k', rd⟩, rfl, hx, hy, hk⟩
  · obtain ⟨-, h, -⟩ := diff_entry oldL newL hoL hnL k ld hx
    simp [mData, MergeElement.key, h]
  · obtain ⟨-, h, -⟩ := diff_entry oldR newR hoR hnR k rd hy
    simp [mData, MergeElement.key, h]
  · obtain ⟨-, h1, -⟩ := diff_entry oldL newL hoL hnL k ld hx
    obtain ⟨-, h2, -⟩ := diff_entry oldR newR hoR hnR k' rd hy
    simp only at hk
    subst hk
    simp [mData, MergeElement.key, h1, h2]

/-- the point update a stream element causes in the output of `incr_merge` -/
def mergeOp (f : Int → MergeArg → Option Int) (newL newR : AMap Int) (e : MStream) :
    Option (Option Int) :=
  some (mergeVal f e.key (newL.lookup e.key) (newR.lookup e.key))

/-- the key of a stream element is bound in at least one of the new inputs -/
def hasData (newL newR : AMap Int) (e : MStream) : Bool :=
  (newL.lookup e.key).isSome || (newR.lookup e.key).isSome

theorem foldl_mergeFold (f : Int → MergeArg → Option Int) (oldL oldR newL newR : AMap Int)
    (hoL : oldL.Sorted) (hoR : oldR.Sorted) (hnL : newL.Sorted) (hnR : newR.Sorted)
    (o : AMap Int) (c : List Call) :
    (mergeDiffs (symmetricDiff oldL newL) (symmetricDiff oldR newR)).foldl (mergeFold f newL newR) (o, c) =
      (alterFold MergeElement.key (mergeOp f newL newR) o
          (mergeDiffs (symmetricDiff oldL newL) (symmetricDiff oldR newR)),
       c ++ ((mergeDiffs (symmetricDiff oldL newL) (symmetricDiff oldR newR)).filter
          (hasData newL newR)).map fun e => (Role.merge, e.key)) := by
  rw [foldl_congr_mem (mergeFold f newL newR)
    (fun acc e => (alter acc.1 e.key (mergeOp f newL newR e),
      acc.2 ++ (if hasData newL newR e then [(Role.merge, e.key)] else [])))]
  · rw [foldl_pair _ (fun m e => alter m e.key (mergeOp f newL newR e))
      (fun e => if hasData newL newR e then [(Role.merge, e.key)] else []) (fun _ _ => rfl),
      flatMap_ite_singleton]
    rfl
  · intro acc e he
    rw [mergeFold_eq, mData_of_mem oldL oldR newL newR hoL hoR hnL hnR e he]
    rfl

/-! ### the reference merge, key by key -/

/-- the function `mergeSpec'` filter-maps the merged stream with -/
def mergeSpecFn (f : Int → MergeArg → Option Int) :
    MergeElement (Int × Int) (Int × Int) → Option (Int × Int)
  | .left (k, x) => (f k (.left x)).map fun v => (k, v)
  | .right (k, y) => (f k (.right y)).map fun v => (k, v)
  | .both (k, x) (_, y) => (f k (.both x y)).map fun v => (k, v)

theorem mergeSpec'_eq (f : Int → MergeArg → Option Int) (l r : AMap Int) :
    mergeSpec' f l r = (mergeDiffs l r).filterMap (mergeSpecFn f) := by
  unfold mergeSpec'
  have h : ∀ m : AMap Int, (m.map fun kv => (kv.1, kv.2)) = m := fun m => by simp
  rw [h l, h r]
  congr 1

theorem mergeSpecFn_key (f : Int → MergeArg → Option Int) (e : MergeElement (Int × Int) (Int × Int))
    (kv : Int × Int) (h : mergeSpecFn f e = some kv) : kv.1 = e.key := by
  rcases e with ⟨k, x⟩ | ⟨k, y⟩ | ⟨⟨k, x⟩, ⟨k', y⟩⟩ <;> simp only [mergeSpecFn, MergeElement.key] at h ⊢
  · rcases hf : f k (.left x) with _ | v
    · simp [hf] at h
    · simp [hf] at h; rw [← h]
  · rcases hf : f k (.right y) with _ | v
    · simp [hf] at h
    · simp [hf] at h; rw [← h]
  · rcases hf : f k (.both x y) with _ | v
    · simp [hf] at h
    · simp [hf] at h; rw [← h]

theorem mergeSpec'_sorted (f : Int → MergeArg → Option Int) (l r : AMap Int) (hl : l.Sorted)
    (hr : r.Sorted) : (mergeSpec' f l r).Sorted := by
  rw [mergeSpec'_eq]
  exact sorted_filterMap_keyed MergeElement.key _ (mergeSpecFn_key f) _ (mergeDiffs_ascending l r hl hr)

theorem lookup_mergeSpec' (f : Int → MergeArg → Option Int) (l r : AMap Int) (hl : l.Sorted)
    (hr : r.Sorted) (k : Int) :
    (mergeSpec' f l r).lookup k = mergeVal f k (l.lookup k) (r.lookup k) := by
  rw [mergeSpec'_eq]
  have hasc := mergeDiffs_ascending l r hl hr
  have hmem := mergeDiffs_mem l r hl hr
  have hkeyL : ∀ y ∈ l, y.1 = k → l.lookup k = some y.2 := fun y hy hk => by
    rw [← hk]; exact lookup_of_mem l hl y hy
  have hkeyR : ∀ y ∈ r, y.1 = k → r.lookup k = some y.2 := fun y hy hk => by
    rw [← hk]; exact lookup_of_mem r hr y hy
  rcases hL : l.lookup k with _ | x <;> rcases hR : r.lookup k with _ | y
  · rw [lookup_filterMap_keyed_of_not_mem MergeElement.key _ (mergeSpecFn_key f)]
    · rfl
    · intro e he hk
      rcases (hmem e).mp he with ⟨x, rfl, hx, -⟩ | ⟨y, rfl, hy, -⟩ | ⟨x, y, rfl, hx, -, -⟩
      · have := hkeyL x hx hk; rw [hL] at this; simp at this
      · have := hkeyR y hy hk; rw [hR] at this; simp at this
      · have := hkeyL x hx hk; rw [hL] at this; simp at this
  · have hy := (lookup_eq_some_iff_mem r hr k y).mp hR
    have he : MergeElement.right (k, y) ∈ mergeDiffs l r := by
      refine (hmem _).mpr (.inr (.inl ⟨(k, y), rfl, hy, ?_⟩))
      intro x hx hk
      have := hkeyL x hx hk; rw [hL] at this; simp at this
    have := lookup_filterMap_keyed_of_mem MergeElement.key _ (mergeSpecFn_key f) _ hasc _ he
    simp only [MergeElement.key] at this
    rw [this]
    simp only [mergeSpecFn, mergeVal]
    rcases f k (.right y) with _ | v <;> rfl
  · have hx := (lookup_eq_some_iff_mem l hl k x).mp hL
    have he : MergeElement.left (k, x) ∈ mergeDiffs l r := by
      refine (hmem _).mpr (.inl ⟨(k, x), rfl, hx, ?_⟩)
      intro y hy hk
      have := hkeyR y hy hk; rw [hR] at this; simp at this
    have := lookup_filterMap_keyed_of_mem MergeElement.key _ (mergeSpecFn_key f) _ hasc _ he
    simp only [MergeElement.key] at this
    rw [this]
    simp only [mergeSpecFn, mergeVal]
    rcases f k (.left x) with _ | v <;> rfl
  · have hx := (lookup_eq_some_iff_mem l hl k x).mp hL
    have hy := (lookup_eq_some_iff_mem r hr k y).mp hR
    have he : MergeElement.both (k, x) (k, y) ∈ mergeDiffs l r :=
      (hmem _).mpr (.inr (.inr ⟨(k, x), (k, y), rfl, hx, hy, rfl⟩))
    have := lookup_filterMap_keyed_of_mem MergeElement.key _ (mergeSpecFn_key f) _ hasc _ he
    simp only [MergeElement.key] at this
    rw [this]
    simp only [mergeSpecFn, mergeVal]
    rcases f k (.both x y) with _ | v <;> rfl

/-- every entry of either diff shows up in the merged stream under its key -/
theorem stream_covers_left {β γ : Type} (ld : List (Int × β)) (rd : List (Int × γ))
    (hl : List.Pairwise (· < ·) (ld.map (·.1))) (hr : List.Pairwise (· < ·) (rd.map (·.1)))
    (x : Int × β) (hx : x ∈ ld) : ∃ e ∈ mergeDiffs ld rd, e.key = x.1 := by
  by_cases h : ∃ y ∈ rd, y.1 = x.1
  · obtain ⟨y, hy, hk⟩ := h
    exact ⟨.both x y, (mergeDiffs_mem ld rd hl hr _).mpr (.inr (.inr ⟨x, y, rfl, hx, hy, hk.symm⟩)), rfl⟩
  · exact ⟨.left x, (mergeDiffs_mem ld rd hl hr _).mpr
      (.inl ⟨x, rfl, hx, fun y hy hk => h ⟨y, hy, hk⟩⟩), rfl⟩

theorem stream_covers_right {β γ : Type} (ld : List (Int × β)) (rd : List (Int × γ))
    (hl : List.Pairwise (· < ·) (ld.map (·.1))) (hr : List.Pairwise (· < ·) (rd.map (·.1)))
    (y : Int × γ) (hy : y ∈ rd) : ∃ e ∈ mergeDiffs ld rd, e.key = y.1 := by
  by_cases h : ∃ x ∈ ld, x.1 = y.1
  · obtain ⟨x, hx, hk⟩ := h
    exact ⟨.both x y, (mergeDiffs_mem ld rd hl hr _).mpr (.inr (.inr ⟨x, y, rfl, hx, hy, hk⟩)), hk⟩
  · exact ⟨.right y, (mergeDiffs_mem ld rd hl hr _).mpr
      (.inr (.inl ⟨y, rfl, hy, fun x hx hk => h ⟨x, hx, hk⟩⟩)), rfl⟩

/-- a key in the merged stream is a key of one of the two diffs -/
theorem stream_key_mem {β γ : Type} (ld : List (Int × β)) (rd : List (Int × γ))
    (hl : List.Pairwise (· < ·) (ld.map (·.1))) (hr : List.Pairwise (· < ·) (rd.map (·.1)))
    (e : MergeElement (Int × β) (Int × γ)) (he : e ∈ mergeDiffs ld rd) :
    (∃ x ∈ ld, x.1 = e.key) ∨ (∃ y ∈ rd, y.1 = e.key) := by
  rcases (mergeDiffs_mem ld rd hl hr e).mp he with ⟨x, rfl, hx, -⟩ | ⟨y, rfl, hy, -⟩ |
      ⟨x, y, rfl, hx, -, -⟩
  · exact .inl ⟨x, hx, rfl⟩
  · exact .inr ⟨y, hy, rfl⟩
  · exact .inl ⟨x, hx, rfl⟩

/-- core lemma for `incr_merge` -/
theorem merge_diff (f : Int → MergeArg → Option Int) (oldL oldR newL newR : AMap Int)
    (hoL : oldL.Sorted) (hoR : oldR.Sorted) (hnL : newL.Sorted) (hnR : newR.Sorted) :
    alterFold MergeElement.key (mergeOp f newL newR) (mergeSpec' f oldL oldR)
      (mergeDiffs (symmetricDiff oldL newL) (symmetricDiff oldR newR)) = mergeSpec' f newL newR := by
  have hla := symmetricDiff_ascending oldL newL hoL hnL
  have hra := symmetricDiff_ascending oldR newR hoR hnR
  have hso := mergeSpec'_sorted f oldL oldR hoL hoR
  apply ext_lookup _ _ (sorted_alterFold _ _ _ hso _) (mergeSpec'_sorted f newL newR hnL hnR)
  intro k
  rw [lookup_mergeSpec' f newL newR hnL hnR]
  by_cases hk : ∃ e ∈ mergeDiffs (symmetricDiff oldL newL) (symmetricDiff oldR newR), e.key = k
  · obtain ⟨e, he, rfl⟩ := hk
    rw [lookup_alterFold_of_mem MergeElement.key _ _ hso _
      (pairwise_ne_of_lt MergeElement.key _ (mergeDiffs_ascending _ _ hla hra)) e he]
    rfl
  · rw [lookup_alterFold_of_not_mem MergeElement.key _ _ _ k (fun e he hek => hk ⟨e, he, hek⟩),
      lookup_mergeSpec' f oldL oldR hoL hoR]
    have h1 : oldL.lookup k = newL.lookup k := by
      apply diff_no_entry oldL newL hoL hnL k
      intro x hx hxk
      obtain ⟨e, he, hek⟩ := stream_covers_left _ _ hla hra x hx
      exact hk ⟨e, he, hek.trans hxk⟩
    have h2 : oldR.lookup k = newR.lookup k := by
      apply diff_no_entry oldR newR hoR hnR k
      intro y hy hyk
      obtain ⟨e, he, hek⟩ := stream_covers_right _ _ hla hra y hy
      exact hk ⟨e, he, hek.trans hyk⟩
    rw [h1, h2]

/-- the previous inputs and output the closure works from (`unwrap_or_default` on a fresh node) -/
def mergeOld (old : Option (AMap Int × AMap Int × AMap Int)) : AMap Int × AMap Int × AMap Int :=
  old.getD ([], [], [])

/-- equation of the closure -/
theorem mergeStep_eq (f : Int → MergeArg → Option Int) (old : Option (AMap Int × AMap Int × AMap Int))
    (newL newR : AMap Int) :
    mergeStep f old newL newR =
      (((mergeDiffs (symmetricDiff (mergeOld old).1 newL) (symmetricDiff (mergeOld old).2.1 newR)).foldl
          (mergeFold f newL newR) ((mergeOld old).2.2, [])).1,
       !(mergeDiffs (symmetricDiff (mergeOld old).1 newL) (symmetricDiff (mergeOld old).2.1 newR)).isEmpty,
       ((mergeDiffs (symmetricDiff (mergeOld old).1 newL) (symmetricDiff (mergeOld old).2.1 newR)).foldl
          (mergeFold f newL newR) ((mergeOld old).2.2, [])).2) := rfl

/-- the state the wrapper holds: sorted previous inputs with their specified output (a fresh node
counts as two empty inputs and an empty output) -/
def MInv (f : Int → MergeArg → Option Int) (old : Option (AMap Int × AMap Int × AMap Int)) : Prop :=
  (mergeOld old).1.Sorted ∧ (mergeOld old).2.1.Sorted ∧
    (mergeOld old).2.2 = mergeSpec' f (mergeOld old).1 (mergeOld old).2.1

theorem MInv_none (f : Int → MergeArg → Option Int) : MInv f none :=
  ⟨sorted_nil, sorted_nil, rfl⟩

theorem mergeStep_full (f : Int → MergeArg → Option Int) (old : Option (AMap Int × AMap Int × AMap Int))
    (hold : MInv f old) (newL newR : AMap Int) (hnL : newL.Sorted) (hnR : newR.Sorted) :
    mergeStep f old newL newR =
      (mergeSpec' f newL newR,
       !(mergeDiffs (symmetricDiff (mergeOld old).1 newL) (symmetricDiff (mergeOld old).2.1 newR)).isEmpty,
       ((mergeDiffs (symmetricDiff (mergeOld old).1 newL) (symmetricDiff (mergeOld old).2.1 newR)).filter
          (hasData newL newR)).map fun e => (Role.merge, e.key)) := by
  obtain ⟨hoL, hoR, hout⟩ := hold
  rw [mergeStep_eq, foldl_mergeFold f _ _ newL newR hoL hoR hnL hnR, hout,
    merge_diff f _ _ newL newR hoL hoR hnL hnR]
  simp

theorem mergeStep_out (f : Int → MergeArg → Option Int) (old : Option (AMap Int × AMap Int × AMap Int))
    (hold : MInv f old) (newL newR : AMap Int) (hnL : newL.Sorted) (hnR : newR.Sorted) :
    (mergeStep f old newL newR).1 = mergeSpec' f newL newR := by
  rw [mergeStep_full f old hold newL newR hnL hnR]

/-- the run of `incr_merge` over a sequence of pairs of inputs, from a fresh node -/
def mergeRun (f : Int → MergeArg → Option Int) (inputs : List (AMap Int × AMap Int)) :
    List (AMap Int × Bool × List Call) :=
  mealyRun (fun old (lr : AMap Int × AMap Int) => mergeStep f old lr.1 lr.2)
    (fun lr res => some (lr.1, lr.2, res.1)) none inputs

theorem mergeRun_out (f : Int → MergeArg → Option Int) (inputs : List (AMap Int × AMap Int))
    (hs : ∀ lr ∈ inputs, lr.1.Sorted ∧ lr.2.Sorted) :
    (mergeRun f inputs).map (·.1) = inputs.map fun lr => mergeSpec' f lr.1 lr.2 := by
  apply mealyRun_map (fun old (lr : AMap Int × AMap Int) => mergeStep f old lr.1 lr.2)
    (fun lr res => some (lr.1, lr.2, res.1)) (fun r => r.1) (fun lr => mergeSpec' f lr.1 lr.2)
    (MInv f) (fun lr => lr.1.Sorted ∧ lr.2.Sorted) _ none (MInv_none f) inputs hs
  intro s lr hs hlr
  have := mergeStep_out f s hs lr.1 lr.2 hlr.1 hlr.2
  exact ⟨this, hlr.1, hlr.2, this⟩

theorem mergeRun_succ (f : Int → MergeArg → Option Int) (inputs : List (AMap Int × AMap Int)) (n : Nat)
    (h : n + 1 < inputs.length) :
    (mergeRun f inputs)[n + 1]'(by simpa [mergeRun] using h) =
      mergeStep f (some (inputs[n].1, inputs[n].2, ((mergeRun f inputs)[n]'(by
        simp [mergeRun]; omega)).1)) inputs[n + 1].1 inputs[n + 1].2 :=
  mealyRun_getElem_succ (fun old (lr : AMap Int × AMap Int) => mergeStep f old lr.1 lr.2)
    (fun lr res => some (lr.1, lr.2, res.1)) none inputs n h

/-! ## work proportional to the change (C17) -/

/-- the keys `incr_filter_mapi` calls the user function for: exactly the keys bound in the new input
whose binding is not the one the old input had -/
theorem fmCalls_mem (a m : AMap Int) (ha : a.Sorted) (hm : m.Sorted) (c : Call) :
    c ∈ ((symmetricDiff a m).filter isNew).map (fun e => (Role.fn, e.1)) ↔
      c.1 = Role.fn ∧ ∃ v, m.lookup c.2 = some v ∧ a.lookup c.2 ≠ some v := by
  rcases c with ⟨role, k⟩
  simp only [List.mem_map, List.mem_filter, Prod.mk.injEq]
  constructor
  · rintro ⟨⟨k', e⟩, ⟨he, hnew⟩, rfl, rfl⟩
    refine ⟨rfl, ?_⟩
    rcases (symmetricDiff_mem a m ha hm k' e).mp he with ⟨x, h1, h2, rfl⟩ | ⟨y, h1, h2, rfl⟩ |
        ⟨x, y, h1, h2, h3, rfl⟩
    · simp [isNew] at hnew
    · exact ⟨y, h2, by simp [h1]⟩
    · exact ⟨y, h2, by simp [h1, h3]⟩
  · rintro ⟨rfl, v, h1, h2⟩
    rcases hA : a.lookup k with _ | x
    · exact ⟨(k, .right v), ⟨(symmetricDiff_mem a m ha hm k _).mpr (.inr (.inl ⟨v, hA, h1, rfl⟩)), rfl⟩,
        rfl, rfl⟩
    · have hxv : x ≠ v := fun h => h2 (by rw [hA, h])
      exact ⟨(k, .unequal x v),
        ⟨(symmetricDiff_mem a m ha hm k _).mpr (.inr (.inr ⟨x, v, hA, h1, hxv, rfl⟩)), rfl⟩, rfl, rfl⟩

/-- the keys of the calls are strictly ascending: at most one call per key -/
theorem fmCalls_ascending (a m : AMap Int) (ha : a.Sorted) (hm : m.Sorted) :
    List.Pairwise (· < ·)
      ((((symmetricDiff a m).filter isNew).map (fun e => (Role.fn, e.1))).map (·.2)) := by
  rw [List.map_map]
  exact List.Pairwise.sublist (List.filter_sublist.map _) (symmetricDiff_ascending a m ha hm)

theorem fmCalls_length_le (a m : AMap Int) :
    (((symmetricDiff a m).filter isNew).map (fun e => (Role.fn, e.1))).length ≤
      (symmetricDiff a m).length := by
  rw [List.length_map]; exact List.length_filter_le _ _

/-- the keys of the calls of the unordered fold are strictly ascending -/
theorem diffCall_snd (e : Int × DiffElement Int) : (diffCall e).2 = e.1 := by
  rcases e with ⟨k, _ | _ | _⟩ <;> rfl

theorem ufCalls_ascending (a m : AMap Int) (ha : a.Sorted) (hm : m.Sorted) :
    List.Pairwise (· < ·) (((symmetricDiff a m).map diffCall).map (·.2)) := by
  rw [List.map_map]
  have : ((fun x : Call => x.2) ∘ diffCall) = fun e => e.1 := funext diffCall_snd
  rw [this]
  exact symmetricDiff_ascending a m ha hm

/-! ### `incr_merge` -/

theorem mergeDiffs_length_le {β γ : Type} (l : List (Int × β)) (r : List (Int × γ)) :
    (mergeDiffs l r).length ≤ l.length + r.length := by
  rw [mergeDiffs_eq_ref]
  fun_induction refMerge l r with
  | case1 r => simp
  | case2 l h => simp
  | case3 x l y r h ih => simp at ih ⊢; omega
  | case4 x l y r h1 h2 ih => simp at ih ⊢; omega
  | case5 x l y r h1 h2 ih => simp at ih ⊢; omega

/-- the closure of `incr_merge` in terms of point updates; needs only sorted inputs -/
theorem mergeStep_alter (f : Int → MergeArg → Option Int)
    (old : Option (AMap Int × AMap Int × AMap Int))
    (hoL : (mergeOld old).1.Sorted) (hoR : (mergeOld old).2.1.Sorted)
    (newL newR : AMap Int) (hnL : newL.Sorted) (hnR : newR.Sorted) :
    mergeStep f old newL newR =
      (alterFold MergeElement.key (mergeOp f newL newR) (mergeOld old).2.2
        (mergeDiffs (symmetricDiff (mergeOld old).1 newL) (symmetricDiff (mergeOld old).2.1 newR)),
       !(mergeDiffs (symmetricDiff (mergeOld old).1 newL) (symmetricDiff (mergeOld old).2.1 newR)).isEmpty,
       ((mergeDiffs (symmetricDiff (mergeOld old).1 newL) (symmetricDiff (mergeOld old).2.1 newR)).filter
          (hasData newL newR)).map fun e => (Role.merge, e.key)) := by
  rw [mergeStep_eq, foldl_mergeFold f _ _ newL newR hoL hoR hnL hnR]
  simp

/-- every key in the merged stream differs between the old and new left input, or between the old
and new right input -/
theorem stream_key_differs (oldL oldR newL newR : AMap Int) (hoL : oldL.Sorted) (hoR : oldR.Sorted)
    (hnL : newL.Sorted) (hnR : newR.Sorted) (e : MStream)
    (he : e ∈ mergeDiffs (symmetricDiff oldL newL) (symmetricDiff oldR newR)) :
    oldL.lookup e.key ≠ newL.lookup e.key ∨ oldR.lookup e.key ≠ newR.lookup e.key := by
  rcases stream_key_mem _ _ (symmetricDiff_ascending oldL newL hoL hnL)
      (symmetricDiff_ascending oldR newR hoR hnR) e he with ⟨⟨k, d⟩, hx, hk⟩ | ⟨⟨k, d⟩, hy, hk⟩
  · simp only at hk; subst hk
    exact .inl (diff_entry oldL newL hoL hnL _ d hx).2.2
  · simp only at hk; subst hk
    exact .inr (diff_entry oldR newR hoR hnR _ d hy).2.2

theorem mergeCalls_ascending {β γ : Type} (ld : List (Int × β)) (rd : List (Int × γ))
    (hl : List.Pairwise (· < ·) (ld.map (·.1))) (hr : List.Pairwise (· < ·) (rd.map (·.1)))
    (p : MergeElement (Int × β) (Int × γ) → Bool) :
    List.Pairwise (· < ·)
      ((((mergeDiffs ld rd).filter p).map fun e => (Role.merge, e.key)).map (·.2)) := by
  rw [List.map_map]
  exact List.Pairwise.sublist (List.filter_sublist.map _) (mergeDiffs_ascending ld rd hl hr)

/-- equal inputs: the stream is empty, nothing is called, output and flag say "unchanged" -/
theorem mergeStep_same (f : Int → MergeArg → Option Int) (l r o : AMap Int) (hl : l.Sorted)
    (hr : r.Sorted) : mergeStep f (some (l, r, o)) l r = (o, false, []) := by
  rw [mergeStep_eq]
  simp only [mergeOld, Option.getD_some, symmetricDiff_self l hl, symmetricDiff_self r hr]
  rfl

/-- on a fresh node every key of either input is in the stream, once, and has data -/
theorem mergeInitial_stream_key (l r : AMap Int) (hl : l.Sorted) (hr : r.Sorted) (k : Int) :
    k ∈ (mergeDiffs (symmetricDiff [] l) (symmetricDiff [] r)).map MergeElement.key ↔
      k ∈ l.keys ∨ k ∈ r.keys := by
  have hla := symmetricDiff_ascending [] l sorted_nil hl
  have hra := symmetricDiff_ascending [] r sorted_nil hr
  constructor
  · intro hk
    obtain ⟨e, he, rfl⟩ := List.mem_map.mp hk
    rcases stream_key_mem _ _ hla hra e he with ⟨⟨k, d⟩, hx, hk⟩ | ⟨⟨k, d⟩, hy, hk⟩
    · simp only at hk; subst hk
      obtain ⟨h1, h2, h3⟩ := diff_entry [] l sorted_nil hl _ d hx
      left
      apply (lookup_isSome_iff_mem_keys l _).mp
      rcases h : l.lookup e.key with _ | v
      · rw [h] at h3; simp at h3
      · rfl
    · simp only at hk; subst hk
      obtain ⟨h1, h2, h3⟩ := diff_entry [] r sorted_nil hr _ d hy
      right
      apply (lookup_isSome_iff_mem_keys r _).mp
      rcases h : r.lookup e.key with _ | v
      · rw [h] at h3; simp at h3
      · rfl
  · rintro (hk | hk)
    · have h := (lookup_isSome_iff_mem_keys l k).mpr hk
      rcases hv : l.lookup k with _ | v
      · rw [hv] at h; simp at h
      · have hx : (k, DiffElement.right v) ∈ symmetricDiff [] l :=
          (symmetricDiff_mem [] l sorted_nil hl k _).mpr (.inr (.inl ⟨v, rfl, hv, rfl⟩))
        obtain ⟨e, he, hek⟩ := stream_covers_left _ _ hla hra _ hx
        exact List.mem_map.mpr ⟨e, he, hek⟩
    · have h := (lookup_isSome_iff_mem_keys r k).mpr hk
      rcases hv : r.lookup k with _ | v
      · rw [hv] at h; simp at h
      · have hy : (k, DiffElement.right v) ∈ symmetricDiff [] r :=
          (symmetricDiff_mem [] r sorted_nil hr k _).mpr (.inr (.inl ⟨v, rfl, hv, rfl⟩))
        obtain ⟨e, he, hek⟩ := stream_covers_right _ _ hla hra _ hy
        exact List.mem_map.mpr ⟨e, he, hek⟩

/-- on a fresh node the user function is called for every element of the stream -/
theorem mergeStep_initial_calls (f : Int → MergeArg → Option Int) (l r : AMap Int) (hl : l.Sorted)
    (hr : r.Sorted) :
    (mergeStep f none l r).2.2 =
      (mergeDiffs (symmetricDiff [] l) (symmetricDiff [] r)).map fun e => (Role.merge, e.key) := by
  rw [mergeStep_alter f none sorted_nil sorted_nil l r hl hr]
  show List.map _ (List.filter (hasData l r)
    (mergeDiffs (symmetricDiff [] l) (symmetricDiff [] r))) = _
  congr 1
  rw [List.filter_eq_self]
  intro e he
  have hk : e.key ∈ l.keys ∨ e.key ∈ r.keys :=
    (mergeInitial_stream_key l r hl hr e.key).mp (List.mem_map.mpr ⟨e, he, rfl⟩)
  simp only [hasData, Bool.or_eq_true]
  rcases hk with hk | hk
  · exact .inl ((lookup_isSome_iff_mem_keys l _).mpr hk)
  · exact .inr ((lookup_isSome_iff_mem_keys r _).mpr hk)

/-! ## `did_change = false` only for equal inputs -/

theorem getElem_of_map_eq {α β γ : Type} (f : α → γ) (g : β → γ) (l : List α) (l' : List β)
    (h : l.map f = l'.map g) (n : Nat) (h1 : n < l.length) (h2 : n < l'.length) :
    f l[n] = g l'[n] := by
  have := congrArg (fun x => x[n]?) h
  simpa [h1, h2] using this

theorem ufoldStep_flag_false {ρ : Type} (u : UFold ρ) (init : ρ) (a m : AMap Int) (o : ρ)
    (ha : a.Sorted) (hm : m.Sorted) (h : (ufoldStep u init (some (a, o)) m).2.1 = false) : a = m := by
  by_cases hc : u.revertToInitWhenEmpty = false ∨ m ≠ []
  · rw [ufoldStep_diff u init a o m hc] at h
    simp only [Bool.not_eq_false', List.isEmpty_iff] at h
    exact (symmetricDiff_nil_iff a m ha hm).mp h
  · have h1 : u.revertToInitWhenEmpty = true := by
      cases hr : u.revertToInitWhenEmpty
      · exact absurd (.inl hr) hc
      · rfl
    have h2 : m = [] := by
      by_cases hm' : m = []
      · exact hm'
      · exact absurd (.inr hm') hc
    subst h2
    rw [ufoldStep_revert u init a o h1] at h
    simpa using h

theorem mergeStep_flag_false (f : Int → MergeArg → Option Int) (oldL oldR o newL newR : AMap Int)
    (hoL : oldL.Sorted) (hoR : oldR.Sorted) (hnL : newL.Sorted) (hnR : newR.Sorted)
    (h : (mergeStep f (some (oldL, oldR, o)) newL newR).2.1 = false) : oldL = newL ∧ oldR = newR := by
  rw [mergeStep_eq] at h
  simp only [mergeOld, Option.getD_some, Bool.not_eq_false', List.isEmpty_iff] at h
  have hla := symmetricDiff_ascending oldL newL hoL hnL
  have hra := symmetricDiff_ascending oldR newR hoR hnR
  constructor
  · apply (symmetricDiff_nil_iff oldL newL hoL hnL).mp
    apply List.eq_nil_iff_forall_not_mem.mpr
    intro x hx
    obtain ⟨e, he, -⟩ := stream_covers_left _ _ hla hra x hx
    rw [h] at he; simp at he
  · apply (symmetricDiff_nil_iff oldR newR hoR hnR).mp
    apply List.eq_nil_iff_forall_not_mem.mpr
    intro y hy
    obtain ⟨e, he, -⟩ := stream_covers_right _ _ hla hra y hy
    rw [h] at he; simp at he

/-! ## the instances `incr_map`, `incr_mapi` -/

theorem filterMapSpec_mapi (g : Int → Int → Int) (m : AMap Int) :
    filterMapSpec (fun k v => some (g k v)) m = m.map fun kv => (kv.1, g kv.1 kv.2) := by
  unfold filterMapSpec filterMapCollect
  simp

end IncrVerif.Proofs.Ops
