import IncrVerif.Proofs.BindH30
/-!
# Binds, fragment F1, part a: the structural invariant for graphs whose bind closures CREATE nodes

FRAGMENT F1.  Top-level nodes: `const`, `var`, pure `map`, `fold`, `bindLhsChange b`, `bindMain b lc` (all valid for ever).  A run of the closure
of bind `b` creates nodes in scope `.bind b`: `const`/`map`/`fold` nodes whose children are top-level nodes OLDER than the bind (index below the bind's
change detector) or nodes created earlier by the same run.  The bind's right-hand side is such a node or an older top-level node.  No nested binds.
When the change detector runs again the previous generation (`dy`, the DYING nodes) is invalidated.

* `rkOf s m`: a rank that decreases along every child edge AND from a scope node to the change detector of its scope (creation order does not:
  a bind's main node is older than the nodes its closure creates).  With `K = s.nodes.size + 1`: top-level `m ↦ m * K`; a node `m` of scope `b` ↦
  `lc_b * K + m + 1`, strictly between the ranks of the change detector `lc_b` and of the main node `lc_b + 1`.
* `All1 env s dy`: the static facts (what `KeyEq`-style frames preserve: they read `valid`, `kind`, `cutoff`, `createdIn`, `binds`, the node count).
* `GInv1 env s op ex dy`: `GInvB` + the scope height rule `scopeH` + invalid nodes are isolated + scope nodes are never observed.
-/
namespace IncrVerif.Proofs.BindH
open IncrVerif.Engine IncrVerif.Proofs IncrVerif.Proofs.Step IncrVerif.Proofs.Sched IncrVerif.Proofs.Quiet

/-- the rank of a node -/
def rkOf (s : State) (m : Nat) : Nat :=
  match (s.nodeD m).createdIn with
  | .top => m * (s.nodes.size + 1)
  | .bind b => match s.binds[b]? with
    | some br => br.lhsChange * (s.nodes.size + 1) + m + 1
    | none => m * (s.nodes.size + 1)

/-- the static facts about node `n` -/
structure N1 (env : Env) (s : State) (dy : List Nat) (n : Nat) : Prop where
  kind : BKind env (s.nodeD n).kind
  cutoff : (s.nodeD n).cutoff = .eq ∨ (s.nodeD n).cutoff = .never
  kidsIn : ∀ c, c ∈ s.children n → c < s.nodes.size
  kidsValid : ∀ c, c ∈ s.children n → (s.nodeD c).valid = true
  lcRec : ∀ b, (s.nodeD n).kind = .bindLhsChange b → ∃ br, s.binds[b]? = some br ∧ br.lhsChange = n
  mainRec : ∀ b lc, (s.nodeD n).kind = .bindMain b lc →
    ∃ br, s.binds[b]? = some br ∧ br.main = n ∧ br.lhsChange = lc
  lcChild : ∀ c b, c ∈ s.children n → (s.nodeD c).kind = .bindLhsChange b → (s.nodeD n).kind = .bindMain b c
  /-- a top-level node is valid; its children are top-level, except the right-hand side of a bind's main node -/
  top : (s.nodeD n).createdIn = .top → (s.nodeD n).valid = true ∧
    ∀ c, c ∈ s.children n → ((s.nodeD c).createdIn = .top ∧ c < n) ∨
      ∃ b lc, (s.nodeD n).kind = .bindMain b lc ∧ (s.nodeD c).createdIn = .bind b
  /-- a node created by a closure: static, younger than the bind's main node, children = older top-level nodes or
  nodes of the same scope and generation -/
  inScope : ∀ b, (s.nodeD n).createdIn = .bind b →
    StaticKind env (s.nodeD n).kind ∧ (∀ c, (s.nodeD n).kind ≠ .var c) ∧
    ∃ br, s.binds[b]? = some br ∧ br.main < n ∧
      ∀ c, c ∈ s.children n →
        ((s.nodeD c).createdIn = .top ∧ c < br.lhsChange) ∨
        ((s.nodeD c).createdIn = .bind b ∧ c < n ∧ (c ∈ dy ↔ n ∈ dy))

structure All1 (env : Env) (s : State) (dy : List Nat) : Prop where
  pc : s.panicCountdown = none
  scope : s.currentScope = .top
  node : ∀ n, n < s.nodes.size → N1 env s dy n
  /-- the two nodes of a bind record -/
  recs : ∀ (b : Nat) (br : BindRec), s.binds[b]? = some br →
    br.main = br.lhsChange + 1 ∧ br.main < s.nodes.size ∧ (s.nodeD br.lhsChange).kind = .bindLhsChange b ∧
      (s.nodeD br.main).kind = .bindMain b br.lhsChange ∧ (s.nodeD br.lhsChange).createdIn = .top ∧
      (s.nodeD br.main).createdIn = .top
  /-- the registered nodes of a bind, plus the dying ones, are exactly the valid nodes of its scope -/
  gen : ∀ (b : Nat) (br : BindRec), s.binds[b]? = some br → ∀ m,
    (m ∈ br.allNodesCreatedOnRhs ∨ (m ∈ dy ∧ (s.nodeD m).createdIn = .bind b)) ↔
      (m < s.nodes.size ∧ (s.nodeD m).valid = true ∧ (s.nodeD m).createdIn = .bind b)
  /-- registered nodes are not dying -/
  genDy : ∀ (b : Nat) (br : BindRec), s.binds[b]? = some br → ∀ m, m ∈ br.allNodesCreatedOnRhs → m ∉ dy
  dyIn : ∀ m, m ∈ dy → m < s.nodes.size ∧ ∃ b, (s.nodeD m).createdIn = .bind b

/-- the structural invariant with open nodes, fragment F1 -/
structure GInv1 (env : Env) (s : State) (op : Nat → Op) (ex : Nat → Prop) (dy : List Nat) : Prop where
  frag : All1 env s dy
  par : ∀ c p i, (p, i) ∈ (s.nodeD c).parents → (s.children p)[i]? = some c ∧ Wants s op p i
  conv : ∀ p i c, (s.children p)[i]? = some c → Wants s op p i → (p, i) ∈ (s.nodeD c).parents
  nodup : ∀ c, (s.nodeD c).parents.Nodup
  hlt : ∀ c p i, (p, i) ∈ (s.nodeD c).parents → op p = .closed → (s.nodeD c).height < (s.nodeD p).height
  hpos : ∀ n, s.isNecessary n = true → op n = .closed → 0 ≤ (s.nodeD n).height
  lnec : ∀ p k, op p = .linking k → s.isNecessary p = true
  unec : ∀ p k, op p = .unlinking k → s.isNecessary p = false
  heap : HeapG s
  hgt : ∀ m, (s.nodeD m).inRch = true → op m = .closed → (s.nodeD m).heightInRch = (s.nodeD m).height
  qnec : ∀ m, (s.nodeD m).inRch = true → s.isNecessary m = true ∨ ∃ k, op m = .unlinking k
  queued : ∀ m, op m = .closed → s.isNecessary m = true → s.isStale m = true → ¬ ex m →
    (s.nodeD m).inRch = true
  qstale : ∀ m, (s.nodeD m).inRch = true → s.isStale m = true
  opLt : ∀ m, op m ≠ .closed → m < s.nodes.size
  /-- THE SCOPE HEIGHT RULE, for closed necessary valid nodes -/
  scopeH : ∀ n b br, (s.nodeD n).valid = true → (s.nodeD n).createdIn = .bind b → s.binds[b]? = some br →
    s.isNecessary n = true → op n = .closed → (s.nodeD br.lhsChange).height < (s.nodeD n).height
  /-- invalid nodes are isolated and closed -/
  inv : ∀ m, (s.nodeD m).valid = false →
    (s.nodeD m).parents = [] ∧ (s.nodeD m).observers = [] ∧ (s.nodeD m).forceNecessary = false ∧
      (s.nodeD m).inRch = false ∧ op m = .closed
  /-- nodes created by closures and change detectors are never observed -/
  scopeObs : ∀ m b, (s.nodeD m).createdIn = .bind b → (s.nodeD m).observers = []
  lcObs : ∀ m b, (s.nodeD m).kind = .bindLhsChange b → (s.nodeD m).observers = []

def Struct1 (env : Env) (s : State) : Prop := GInv1 env s allClosed noEx []

/-! ## the rank -/

theorem rkOf_top {s : State} {m : Nat} (h : (s.nodeD m).createdIn = .top) : rkOf s m = m * (s.nodes.size + 1) := by
  unfold rkOf; rw [h]

theorem rkOf_bind {s : State} {m b : Nat} {br : BindRec} (h : (s.nodeD m).createdIn = .bind b)
    (hb : s.binds[b]? = some br) : rkOf s m = br.lhsChange * (s.nodes.size + 1) + m + 1 := by
  unfold rkOf; rw [h]; simp only [hb]

/-- the rank only reads the node count, `createdIn` and the bind table -/
theorem rkOf_congr {s s' : State} (hsz : s'.nodes.size = s.nodes.size) (hb : s'.binds = s.binds)
    (hc : ∀ m, (s'.nodeD m).createdIn = (s.nodeD m).createdIn) (m : Nat) : rkOf s' m = rkOf s m := by
  unfold rkOf; rw [hsz, hb, hc]

/-- a product bound used for the ranks -/
theorem rk_mul_lt {a b c K : Nat} (hab : a < b) (hc : c < K) : a * K + c < b * K := by
  have h1 : (a + 1) * K ≤ b * K := Nat.mul_le_mul_right K hab
  have h2 : (a + 1) * K = a * K + K := by rw [Nat.add_mul, Nat.one_mul]
  omega

namespace All1
variable {env : Env} {s : State} {dy : List Nat}

/-- children have smaller rank -/
theorem kid_rk (A : All1 env s dy) {n c : Nat} (hn : n < s.nodes.size) (hc : c ∈ s.children n) :
    rkOf s c < rkOf s n := by
  have N := A.node n hn
  have hcl := N.kidsIn c hc
  have hK : 0 < s.nodes.size + 1 := by omega
  cases hsc : (s.nodeD n).createdIn with
  | top =>
    rw [rkOf_top hsc]
    rcases (N.top hsc).2 c hc with ⟨h, hlt⟩ | ⟨b, lc, hk, h⟩
    · rw [rkOf_top h]
      exact Nat.mul_lt_mul_of_pos_right hlt hK
    · obtain ⟨br, hb, hm, hl⟩ := N.mainRec b lc hk
      rw [rkOf_bind h hb]
      obtain ⟨h1, -⟩ := A.recs b br hb
      have : br.lhsChange * (s.nodes.size + 1) + (c + 1) < n * (s.nodes.size + 1) := by
        apply rk_mul_lt
        · omega
        · omega
      omega
  | bind b =>
    obtain ⟨-, -, br, hb, hm, hkids⟩ := N.inScope b hsc
    rw [rkOf_bind hsc hb]
    rcases hkids c hc with ⟨h1, h2⟩ | ⟨h1, h2, -⟩
    · rw [rkOf_top h1]
      have : c * (s.nodes.size + 1) + 0 < br.lhsChange * (s.nodes.size + 1) := rk_mul_lt h2 hK
      omega
    · rw [rkOf_bind h1 hb]; omega

end All1

end IncrVerif.Proofs.BindH
