import IncrVerif.Proofs.EffH11
/-!
# Effects, part 12 (V3): the subscription invariant does not read deferred writes; the var phase of `stabiliseEnd`
and the handlers' immediate writes keep it
-/
namespace IncrVerif.Proofs.EffH
open IncrVerif.Engine IncrVerif.Driver IncrVerif.Proofs IncrVerif.Proofs.Step IncrVerif.Proofs.Sched
open IncrVerif.Proofs.Quiet

/-- `SubsH.QInv` does not read `pending`, `log` (it does require an empty stack) -/
theorem SameP.e12_obsInv {s s' : State} (h : SameP s s') {pn pd : List Nat} (O : SubsH.ObsInv s pn pd) :
    SubsH.ObsInv s' pn pd where
  inRange o ob ho := by rw [h.observers] at ho; rw [h.nodes]; exact O.inRange o ob ho
  mem n o := by rw [h.nodeD, h.observers]; exact O.mem n o
  created o ob ho := by rw [h.observers] at ho; exact O.created o ob ho
  newIn o ho := by rw [h.observers]; exact O.newIn o ho
  dis o ob ho := by rw [h.observers] at ho; exact O.dis o ob ho
  disIn o ho := by rw [h.observers]; exact O.disIn o ho
  disNodup := O.disNodup

theorem SameP.qinvU {s s' : State} (h : SameP s s') {env : Env} (Q : SubsH.QInv env s)
    (hs : s'.setDuringStab = []) : SubsH.QInv env s' where
  struct := h.struct Q.struct
  vars := h.varsOK Q.vars
  obs := by
    have := h.e12_obsInv Q.obs
    unfold SubsH.ObsOK
    rw [h.newObservers, h.disallowedObservers]; exact this
  now := by rw [h.stabNum]; exact Q.now
  stamps m := by rw [h.nodeD, h.stabNum]; exact Q.stamps m
  varStamp c vc hc := by
    obtain ⟨a, ha, hab⟩ := h.cell' c vc hc
    rw [hab.setAt, h.stabNum]; exact Q.varStamp c a ha
  cons m hm hst := by
    rw [h.nodes] at hm; rw [h.staleOf] at hst
    exact h.consistent (Q.cons m hm hst)
  status := by rw [h.status]; exact Q.status
  alive := by rw [h.alive]; exact Q.alive
  setDuringStab := hs
  deadVars := by rw [h.deadVars]; exact Q.deadVars
  pinv := by rw [h.propagateInvalidity]; exact Q.pinv
  top k n hk := by rw [h.top] at hk; rw [h.nodes]; exact Q.top k n hk

/-- the handler bookkeeping does not read `vars`, `setDuringStab`, `log` -/
theorem SameP.hinv {s s' : State} (h : SameP s s') (H : SubsH.HInv s) : SubsH.HInv s' :=
  H.of_nodes h.observers (by rw [h.eq]) h.stabNum h.handleAfterStab h.nodes

/-- everything `SubsH.QInv` may read apart from the nodes and the observer records -/
def coreQ (s : State) : State :=
  { s with observers := #[], nodes := #[], memos := [], log := [], counters := ({} : Counters),
           handleAfterStab := [], currentlyRunning := none, nextToken := 0 }

/-- `SubsH.QInv` only reads `node`/`state` of observer records, and neither `memos`, `log`, `counters`,
`handleAfterStab`, `currentlyRunning`, `nextToken` nor the flags `inHandleAfterStab` -/
theorem qinvU_congr {env : Env} {s s' : State} (Q : SubsH.QInv env s) (heq : coreQ s' = coreQ s)
    (hsz : s'.nodes.size = s.nodes.size)
    (hnode : ∀ m, ∃ b, s'.nodeD m = { s.nodeD m with inHandleAfterStab := b })
    (hosz : s'.observers.size = s.observers.size)
    (hobs : ∀ (o : Nat) (ob : ObsRec), s.observers[o]? = some ob →
      ∃ ob', s'.observers[o]? = some ob' ∧ ob'.node = ob.node ∧ ob'.state = ob.state) :
    SubsH.QInv env s' := by
  have hE : ∀ m, NodeG (s.nodeD m) (s'.nodeD m) ∧ (s'.nodeD m).value = (s.nodeD m).value := by
    intro m
    obtain ⟨b, hb⟩ := hnode m
    rw [hb]
    exact ⟨⟨rfl, rfl, rfl, rfl, rfl, rfl, rfl, rfl, rfl, rfl, rfl⟩, rfl⟩
  have evars : s'.vars = s.vars := (congrArg State.vars heq :)
  have G : SameG s s' := ⟨(congrArg State.panicCountdown heq :), (congrArg State.currentScope heq :), hsz,
    (congrArg State.rch heq :), evars, fun m => (hE m).1⟩
  have hno : s'.newObservers = s.newObservers := (congrArg State.newObservers heq :)
  have hdo : s'.disallowedObservers = s.disallowedObservers := (congrArg State.disallowedObservers heq :)
  have estab : s'.stabNum = s.stabNum := (congrArg State.stabNum heq :)
  have hback : ∀ (o : Nat) (ob' : ObsRec), s'.observers[o]? = some ob' →
      ∃ ob, s.observers[o]? = some ob ∧ ob'.node = ob.node ∧ ob'.state = ob.state := by
    intro o ob' ho
    have hlt : o < s.observers.size := hosz ▸ e2_lt_of_some ho
    obtain ⟨ob, hob⟩ := e2_some_of_lt hlt
    obtain ⟨ob2, h2, h3, h4⟩ := hobs o ob hob
    rw [ho] at h2; cases h2
    exact ⟨ob, hob, h3, h4⟩
  refine ⟨Q.struct.congr G, ⟨?_, ?_⟩, ?_, by rw [estab]; exact Q.now, ?_, ?_, ?_,
    (congrArg State.status heq).trans Q.status, (congrArg State.alive heq).trans Q.alive,
    (congrArg State.setDuringStab heq).trans Q.setDuringStab, (congrArg State.deadVars heq).trans Q.deadVars,
    (congrArg State.propagateInvalidity heq).trans Q.pinv, ?_⟩
  · intro n c hlt hk; rw [(hE n).1.kind] at hk; rw [evars]; exact Q.vars.node n c (by rw [← hsz]; exact hlt) hk
  · intro c vc hc; rw [evars] at hc; rw [hsz, (hE _).1.kind]; exact Q.vars.cell c vc hc
  · unfold SubsH.ObsOK
    rw [hno, hdo]
    have o2 := Q.obs
    refine ⟨?_, ?_, ?_, ?_, ?_, ?_, o2.disNodup⟩
    · intro o ob' ho
      obtain ⟨ob, hob, h3, -⟩ := hback o ob' ho
      rw [hsz, h3]; exact o2.inRange o ob hob
    · intro n o
      rw [(hE n).1.observers, o2.mem n o]
      constructor
      · rintro ⟨ob, hob, h1, h2⟩
        obtain ⟨ob', h3, h4, h5⟩ := hobs o ob hob
        exact ⟨ob', h3, by rw [h4]; exact h1, by rw [h5]; exact h2⟩
      · rintro ⟨ob', hob', h1, h2⟩
        obtain ⟨ob, h3, h4, h5⟩ := hback o ob' hob'
        exact ⟨ob, h3, by rw [← h4]; exact h1, by rw [← h5]; exact h2⟩
    · intro o ob' ho hc
      obtain ⟨ob, hob, -, h4⟩ := hback o ob' ho
      exact o2.created o ob hob (by rw [← h4]; exact hc)
    · intro o ho
      obtain ⟨ob, hob⟩ := o2.newIn o ho
      obtain ⟨ob', h3, -⟩ := hobs o ob hob
      exact ⟨ob', h3⟩
    · intro o ob' ho
      obtain ⟨ob, hob, -, h4⟩ := hback o ob' ho
      rw [h4]; exact o2.dis o ob hob
    · intro o ho
      obtain ⟨ob, hob⟩ := o2.disIn o ho
      obtain ⟨ob', h3, -⟩ := hobs o ob hob
      exact ⟨ob', h3⟩
  · intro m
    rw [(hE m).1.recomputedAt, (hE m).1.changedAt, estab]; exact Q.stamps m
  · intro c vc hc
    rw [evars] at hc; rw [estab]; exact Q.varStamp c vc hc
  · intro m hm hs
    rw [G.staleOf] at hs
    obtain ⟨w, hw, hv⟩ := Q.cons m (by rw [← hsz]; exact hm) hs
    exact ⟨w, Target.congr (hE m).1.kind evars (fun c _ => (hE c).2) hw, by rw [(hE m).2]; exact hv⟩
  · intro k n hk
    have : s'.top = s.top := (congrArg State.top heq :)
    rw [this] at hk
    rw [hsz]; exact Q.top k n hk

/-- one deferred write applied by the var phase of `stabiliseEnd` keeps the subscription invariant (read with the
status reset) -/
theorem applyPending_qU {env : Env} {v : Nat} {b c : State} {u : Unit} (Q : SubsH.QInv env (quiet b))
    (h : (applyPending v).run.run b = (.ok u, c)) : SubsH.QInv env (quiet c) ∧ Applied b c := by
  rw [applyPending_run] at h
  cases hv : b.vars[v]? with
  | none => rw [hv] at h; cases h
  | some vc =>
    simp only [hv] at h
    cases hp : vc.pending with
    | none =>
      simp only [hp] at h; cases h
      exact ⟨Q, Applied.refl _⟩
    | some x =>
      simp only [hp] at h
      have hv1 := withCell_get v { vc with pending := none, value := x } vc b hv
      obtain ⟨hc, -, hh⟩ := e6_didSet_ok v _ _ _ _ hv1 h
      have hv0 : (quiet (withCell v { vc with pending := none } b)).vars[v]? = some { vc with pending := none } :=
        withCell_get v { vc with pending := none } vc b hv
      have P : SameP (quiet b) (quiet (withCell v { vc with pending := none } b)) := by
        refine ⟨rfl, by simp [quiet, withCell], fun w a ha => ?_⟩
        by_cases hw : w = v
        · subst hw
          have ha' : b.vars[w]? = some a := ha
          rw [hv] at ha'; cases ha'
          exact ⟨_, hv0, rfl⟩
        · exact ⟨a, by rw [← ha]; exact withCell_get_ne v w _ b hw, CellP.refl a⟩
      have Q0 : SubsH.QInv env (quiet (withCell v { vc with pending := none } b)) :=
        P.qinvU Q Q.setDuringStab
      obtain ⟨-, Q1⟩ := SubsH.wroteOutside_q x Q0 hv0 hh
      have e : quiet c = wroteOutside v { vc with pending := none } x
          (quiet (withCell v { vc with pending := none } b)) := by
        rw [hc, e6_quiet_didSetFinal, ← e6_didSetFinal_wrote]
        have : quiet (withCell v { vc with pending := none, value := x } b) =
            withCell v { vc with pending := none, value := x }
              (quiet (withCell v { vc with pending := none } b)) := by
          rw [← withCell_withCell v { vc with pending := none } { vc with pending := none, value := x } b]
          rfl
        rw [this]
      rw [e]
      refine ⟨Q1, ?_⟩
      rw [hc]
      exact (e6_applied_withCell v _ b).trans (e6_applied_didSetFinal v _ _)

theorem applyAll_qU {env : Env} : ∀ (stack : List Nat) (b c : State) (u : Unit), SubsH.QInv env (quiet b) →
    (applyAll stack).run.run b = (.ok u, c) → SubsH.QInv env (quiet c) ∧ Applied b c := by
  intro stack
  induction stack with
  | nil =>
    intro b c u Q h
    cases h
    exact ⟨Q, Applied.refl _⟩
  | cons v vs ih =>
    intro b c u Q h
    simp only [applyAll] at h
    obtain ⟨u1, s1, h1, h2⟩ := bind_ok_inv h
    obtain ⟨Q1, A1⟩ := applyPending_qU Q h1
    obtain ⟨Q2, A2⟩ := ih s1 c u Q1 h2
    exact ⟨Q2, A1.trans A2⟩

/-- `s'` is `s` after some immediate writes issued by handlers: only `vars`, the heap markers of nodes, the recompute
heap, the counters and the log differ; only `note`s were logged -/
structure AppliedL (s s' : State) : Prop where
  eq : s' = { s with vars := s'.vars, nodes := s'.nodes, rch := s'.rch, counters := s'.counters, log := s'.log }
  size : s'.nodes.size = s.nodes.size
  node : ∀ m, ∃ h, s'.nodeD m = { s.nodeD m with heightInRch := h }
  vsize : s'.vars.size = s.vars.size
  log : ∃ new, s'.log = new ++ s.log ∧ ∀ e, e ∈ new → ∃ str, e = .note str

theorem AppliedL.refl (s : State) : AppliedL s s :=
  ⟨rfl, rfl, fun _ => ⟨_, rfl⟩, rfl, ⟨[], rfl, fun e he => by cases he⟩⟩
theorem AppliedL.trans {a b c : State} (h1 : AppliedL a b) (h2 : AppliedL b c) : AppliedL a c where
  eq := by rw [h2.eq, h1.eq]
  size := h2.size.trans h1.size
  node m := by
    obtain ⟨x, hx⟩ := h1.node m
    obtain ⟨y, hy⟩ := h2.node m
    exact ⟨y, by rw [hy, hx]⟩
  vsize := h2.vsize.trans h1.vsize
  log := by
    obtain ⟨n1, e1, p1⟩ := h1.log
    obtain ⟨n2, e2, p2⟩ := h2.log
    refine ⟨n2 ++ n1, by rw [e2, e1, List.append_assoc], fun e he => ?_⟩
    rcases List.mem_append.1 he with he | he
    · exact p2 e he
    · exact p1 e he

/-! ## one immediate write -/

theorem e12_quiet_wroteOutside (v : Nat) (vc : VarCell) (x : Val) (s : State) :
    quiet (wroteOutside v vc x s) = wroteOutside v vc x (quiet s) := by
  unfold wroteOutside
  by_cases h2 : s.stabNum ≤ vc.setAt
  · rw [if_pos h2, if_pos (show (quiet s).stabNum ≤ vc.setAt from h2)]; rfl
  · rw [if_neg h2, if_neg (show ¬ (quiet s).stabNum ≤ vc.setAt from h2)]
    by_cases h4 : ((s.nodeD vc.node).valid && s.isNecessary vc.node && !(s.nodeD vc.node).inRch) = true
    · rw [if_pos h4, if_pos (show (((quiet s).nodeD vc.node).valid && (quiet s).isNecessary vc.node &&
        !((quiet s).nodeD vc.node).inRch) = true from h4)]; rfl
    · rw [if_neg h4, if_neg (show ¬ (((quiet s).nodeD vc.node).valid && (quiet s).isNecessary vc.node &&
        !((quiet s).nodeD vc.node).inRch) = true from h4)]; rfl

theorem e12_applied_wroteOutside (v : Nat) (vc : VarCell) (x : Val) (s : State) :
    Applied s (wroteOutside v vc x s) := by
  rw [← e6_didSetFinal_wrote]
  exact (e6_applied_withCell v _ s).trans (e6_applied_didSetFinal v _ _)

theorem e12_appliedL_logged {s t : State} (A : Applied s t) (es : List Event)
    (hes : ∀ e, e ∈ es → ∃ str, e = .note str) : AppliedL s (logged es t) where
  eq := by
    have hl : t.log = s.log := by rw [A.eq]
    show logged es t =
      { s with vars := t.vars, nodes := t.nodes, rch := t.rch, counters := t.counters, log := es ++ t.log }
    rw [hl]
    conv => lhs; rw [A.eq]
    rfl
  size := A.size
  node := A.node
  vsize := A.vsize
  log := ⟨es, by
    have : t.log = s.log := by rw [A.eq]
    show es ++ t.log = es ++ s.log
    rw [this], hes⟩

theorem e12_effNote_notes (e : Effect) (old : Val) : ∀ ev, ev ∈ effNote e old → ∃ str, ev = .note str := by
  intro ev hev
  cases e <;> simp only [effNote, List.mem_cons, List.not_mem_nil, or_false] at hev <;>
    first | exact hev.elim | exact ⟨_, hev⟩

theorem e12_sameP_logged (es : List Event) (s : State) : SameP s (logged es s) :=
  ⟨rfl, rfl, fun _ a h => ⟨a, h, CellP.refl a⟩⟩

/-- everything we need about one immediate write followed by a log entry -/
theorem e12_wrote {env0 : Env} {s : State} {v : Nat} {vc : VarCell} (f : Val → Val) (es : List Event)
    (hes : ∀ e, e ∈ es → ∃ str, e = .note str)
    (hh : HandlesOK s) (Q : SubsH.QInv env0 (quiet s)) (hv : s.vars[v]? = some vc)
    (hht : vc.setAt < s.stabNum →
      ((s.nodeD vc.node).valid && s.isNecessary vc.node && !(s.nodeD vc.node).inRch) = true →
      0 ≤ (s.nodeD vc.node).height ∧ (s.nodeD vc.node).height ≤ s.rch.maxAllowed) :
    let s1 := logged es (wroteOutside v vc (f vc.value) s)
    s1.status = s.status ∧ s1.stabNum = s.stabNum ∧ SubsH.QInv env0 (quiet s1) ∧ AppliedL s s1 ∧ HandlesOK s1 ∧
    (∀ (w : Nat) (c : VarCell), s.vars[w]? = some c →
      s1.vars[w]? = some (cellAfter s.stabNum (writesTo w [(v, f)]) c)) := by
  intro s1
  have hfr := wroteOutside_frame v vc (f vc.value) s
  have hvars := wroteOutside_vars v vc (f vc.value) s hv
  have hle : vc.setAt ≤ s.stabNum := Q.varStamp v vc hv
  have hset : (if vc.setAt < s.stabNum then s.stabNum else vc.setAt) = s.stabNum := by
    split <;> omega
  rw [hset] at hvars
  have hv1 : s1.vars[v]? = some { vc with value := f vc.value, setAt := s.stabNum } := hvars.1
  have hother : ∀ w, w ≠ v → s1.vars[w]? = s.vars[w]? := hvars.2
  refine ⟨hfr.2.1, hfr.1, ?_, e12_appliedL_logged (e12_applied_wroteOutside v vc _ s) es hes, ?_, ?_⟩
  · have Q1 : SubsH.QInv env0 (wroteOutside v vc (f vc.value) (quiet s)) :=
      (SubsH.wroteOutside_q (f vc.value) Q (show (quiet s).vars[v]? = some vc from hv) hht).2
    rw [← e12_quiet_wroteOutside] at Q1
    exact (e12_sameP_logged es _).qinvU Q1 Q1.setDuringStab
  · intro w c hc
    by_cases hw : w = v
    · subst hw
      rw [hv1] at hc; cases hc
      exact hh w vc hv
    · rw [hother w hw] at hc; exact hh w c hc
  · intro w c hc
    by_cases hw : w = v
    · subst hw
      rw [hv] at hc; cases hc
      rw [hv1, e2_writesTo_single_self]
      rfl
    · rw [hother w hw, e2_writesTo_single_ne f (Ne.symm hw)]
      exact hc

theorem e12_write_core (v : Nat) (f : Val → Val) (isSet : Bool) (k : Val → M Unit) (note : Val → List Event)
    (hk : ∀ x s, (k x).run.run s = (.ok (), logged (note x) s)) {s s1 : State} {u : Unit}
    (hst : s.status ≠ .stabilising) (hh : HandlesOK s)
    (h : (withVarHandle v (writeVar v f isSet >>= k)).run.run s = (.ok u, s1)) :
    ∃ vc, s.vars[v]? = some vc ∧ s1 = logged (note vc.value) (wroteOutside v vc (f vc.value) s) ∧
      (vc.setAt < s.stabNum →
        ((s.nodeD vc.node).valid && s.isNecessary vc.node && !(s.nodeD vc.node).inRch) = true →
        0 ≤ (s.nodeD vc.node).height ∧ (s.nodeD vc.node).height ≤ s.rch.maxAllowed) := by
  rw [e2_run_withVarHandle _ _ _ hh] at h
  obtain ⟨a, s2, h1, h2⟩ := bind_ok_inv h
  cases hv : s.vars[v]? with
  | none =>
    exfalso
    unfold writeVar at h1
    obtain ⟨a', s3, h3, -⟩ := bind_ok_inv h1
    rw [run_getVar, hv] at h3
    cases h3
  | some vc =>
    obtain ⟨ha, hs2, -, -, hht⟩ := writeVar_outside_ok v f isSet s s2 vc a hv hst h1
    refine ⟨vc, rfl, ?_, hht⟩
    rw [hk] at h2
    cases h2
    rw [ha, hs2]

/-- one write effect outside the drain: the written cell exists, the final state is `immStep` -/
theorem e12_runEffectBasic_imm {env : Env} {e : Effect} {s s1 : State} {u : Unit}
    (hst : s.status ≠ .stabilising) (hw : (effWrite e).isSome = true) (hh : HandlesOK s)
    (h : (runEffectBasic env e).run.run s = (.ok u, s1)) :
    ∃ v f vc, effWrite e = some (v, f) ∧ s.vars[v]? = some vc ∧
      s1 = logged (effNote e vc.value) (wroteOutside v vc (f vc.value) s) ∧
      (vc.setAt < s.stabNum →
        ((s.nodeD vc.node).valid && s.isNecessary vc.node && !(s.nodeD vc.node).inRch) = true →
        0 ≤ (s.nodeD vc.node).height ∧ (s.nodeD vc.node).height ≤ s.rch.maxAllowed) := by
  cases e <;> first | (exact Bool.noConfusion hw) | skip
  case setVar v x =>
    unfold runEffectBasic at h
    simp only [e2_discard_eq] at h
    obtain ⟨vc, hv, e1, hht⟩ := e12_write_core v _ _ _ (fun _ => []) (fun _ _ => rfl) hst hh h
    exact ⟨v, _, vc, rfl, hv, e1, hht⟩
  case modifyVar v d =>
    unfold runEffectBasic at h
    simp only [e2_discard_eq] at h
    obtain ⟨vc, hv, e1, hht⟩ := e12_write_core v _ _ _ (fun _ => []) (fun _ _ => rfl) hst hh h
    exact ⟨v, _, vc, rfl, hv, e1, hht⟩
  case updateVar v d =>
    unfold runEffectBasic at h
    simp only [e2_discard_eq] at h
    obtain ⟨vc, hv, e1, hht⟩ := e12_write_core v _ _ _ (fun _ => []) (fun _ _ => rfl) hst hh h
    exact ⟨v, _, vc, rfl, hv, e1, hht⟩
  case replaceVar v x =>
    unfold runEffectBasic at h
    obtain ⟨vc, hv, e1, hht⟩ := e12_write_core v _ _ _
      (fun old => [.note s!"replace v{v} -> {old.render}"]) (fun _ _ => rfl) hst hh h
    exact ⟨v, _, vc, rfl, hv, e1, hht⟩
  case replaceWithVar v d =>
    unfold runEffectBasic at h
    obtain ⟨vc, hv, e1, hht⟩ := e12_write_core v _ _ _
      (fun old => [.note s!"replacewith v{v} -> {old.render}"]) (fun _ _ => rfl) hst hh h
    exact ⟨v, _, vc, rfl, hv, e1, hht⟩

/-- **immediate writes.** A returning run of write effects while the handlers run (`status ≠ stabilising`): closed
form `immSteps`; the subscription invariant (read with the status reset) is kept; the cells are updated in program
order and stamped with the current round. -/
theorem runEffects_imm {env env0 : Env} {fuel : Nat} {es : List Effect} {arg : Int} {s s' : State} {u : Unit}
    (hst : s.status ≠ .stabilising) (hw : ∀ e, e ∈ es → (effWrite e).isSome = true) (hh : HandlesOK s)
    (Q : SubsH.QInv env0 (quiet s))
    (h : (runEffects env fuel es arg).run.run s = (.ok u, s')) :
    s' = immSteps es s ∧ SubsH.QInv env0 (quiet s') ∧ AppliedL s s' ∧ HandlesOK s' ∧
    (∀ (v : Nat) (c : VarCell), s.vars[v]? = some c →
      s'.vars[v]? = some (cellAfter s.stabNum (writesTo v (writesOf es)) c)) := by
  induction es generalizing s with
  | nil =>
    rw [runEffects_nil] at h
    obtain ⟨-, e1⟩ := pure_ok_inv h
    subst e1
    exact ⟨rfl, Q, AppliedL.refl _, hh, fun v c hc => hc⟩
  | cons e es ih =>
    have he := hw e (List.mem_cons_self ..)
    rw [e2_runEffects_cons env fuel e es arg he] at h
    obtain ⟨u1, s1, h1, h2⟩ := bind_ok_inv h
    obtain ⟨v, f, vc, hwe, hv, e1, hht⟩ := e12_runEffectBasic_imm hst he hh h1
    obtain ⟨hst1, hnum1, Q1, A1, hh1, hc1⟩ :=
      e12_wrote f (effNote e vc.value) (e12_effNote_notes e vc.value) hh Q hv hht
    rw [← e1] at hst1 hnum1 Q1 A1 hh1 hc1
    obtain ⟨e2, Q2, A2, hh2, hc2⟩ := ih (s := s1) (by rw [hst1]; exact hst)
      (fun e' he' => hw e' (List.mem_cons_of_mem _ he')) hh1 Q1 h2
    refine ⟨?_, Q2, A1.trans A2, hh2, ?_⟩
    · rw [e2, immSteps_cons]
      congr 1
      rw [e1]; unfold immStep; simp only [hwe, hv]
    · intro w c hc
      rw [hc2 w _ (hc1 w c hc), hnum1, cellAfter_cellAfter, ← e2_writesTo_append,
        e2_writesOf_cons_some es hwe]
      rfl

end IncrVerif.Proofs.EffH
