import IncrVerif.Proofs.EffH11
/-!
# Effects, part 14 (V3): the state between the drain and `stabiliseEnd` (cf. `SubsH.MidState`)
-/
namespace IncrVerif.Proofs.EffH
open IncrVerif.Engine IncrVerif.Driver IncrVerif.Proofs IncrVerif.Proofs.Step IncrVerif.Proofs.Sched
open IncrVerif.Proofs.Quiet

/-- `t3` is the state between the drain and `stabiliseEnd` of a `stabilise` from `s` to `s'` whose functions and
handlers have write effects (`SubsH.MidState` with `EndedW` instead of `Ended`) -/
structure MidStateW (env : Env) (s t3 s' : State) : Prop where
  ended : EndedW env t3 s'
  /-- nothing was delivered before the end of the drain -/
  log : ∃ pre, t3.log = pre ++ s.log ∧ ∀ e, e ∈ pre → SubsH.NotNotif e
  handlers : ∀ o, SubsH.hOf t3 o = SubsH.hOf s o
  obs : SubsH.ObsInv t3 [] []
  obsMap : ObsMap stabilisedState s t3
  hinv : SubsH.HInv t3
  stabNum : t3.stabNum = s.stabNum
  nextToken : t3.nextToken = s.nextToken
  hval : ∀ n, t3.isNecessary n = true → (t3.nodeD n).valid = true ∧ (t3.value env n).isSome = true
  plain : ∀ n, t3.isNecessary n = true → t3.value env n = (t3.nodeD n).value
  /-- the cutoff is exact: stamped in this round iff the stored value changed -/
  valchg : ∀ m, ((t3.nodeD m).changedAt = s.stabNum ↔ (t3.nodeD m).value ≠ (s.nodeD m).value) ∧
    ((t3.nodeD m).changedAt ≠ s.stabNum → (t3.nodeD m).changedAt = (s.nodeD m).changedAt)
  /-- changed nodes with update handlers are queued -/
  queued : ∀ n, (t3.nodeD n).changedAt = s.stabNum → 0 < (t3.nodeD n).numOnUpdateHandlers →
    n ∈ t3.handleAfterStab

end IncrVerif.Proofs.EffH
