import IncrVerif.Proofs.FullH14
import IncrVerif.Proofs.FullH15
/-!
# C01 full fragment: `Inherit` and `CFrag` from the invariants of the virtual state
-/
namespace IncrVerif.Proofs.FullH
open IncrVerif.Engine IncrVerif.Driver IncrVerif.Proofs IncrVerif.Proofs.Step IncrVerif.Proofs.Sched IncrVerif.Proofs.Quiet
open IncrVerif.Proofs.MapRefH (IsMapRef isMapRef_iff not_isMapRef_iff)
open IncrVerif.Proofs.BindH (DInv BGraph ConsistentB TargetB)
open IncrVerif.Proofs.NestH (All2 GInv2 QInv2)

section
variable {env : Env} {sp : Nat → Val → Val} {g : Nat → Option Val} {s : State}

/-- a valid map_ref node that is not stale is unclean only through its input: from the consistency of the virtual state -/
theorem inherit_of_cons (F : FFrag env sp g s)
    (hcons : ∀ m, m < s.nodes.size → (s.nodeD m).valid = true → s.isStale m = false → ConsistentB (VE env sp) (virt g s) m) :
    Inherit env g s := by
  intro m pr i hvm hk hst hu
  have hlt := F.lt_of_mapRef hk
  obtain ⟨w, hw, hv⟩ := hcons m hlt hvm hst
  have hkv : ((virt g s).nodeD m).kind = .map (pBase + pr) [i] := by
    rw [virt_nodeD, virtNode_kind, hk]; rfl
  unfold TargetB at hw
  rw [hkv] at hw
  simp only [Target, hkv] at hw
  obtain ⟨vals, hvals, hwv⟩ := hw
  rw [virt_plainVals] at hvals
  simp only [evalArgs] at hvals
  have hgm : g m = tv g s m := (tv_mapRef hk).symm
  have hread : s.value env m = (s.value env i).map (env.proj pr) := value_mapRef F hvm hk
  cases hx : tv g s i with
  | none => rw [hx] at hvals; simp at hvals
  | some x =>
    rw [hx] at hvals
    simp at hvals
    subst hvals
    have hgm' : g m = some (env.proj pr x) := by
      rw [hgm]; show ((virt g s).nodeD m).value = _; rw [hv, hwv, virtEnv_fn_proj env sp (F.pid hk)]; rfl
    have hne : s.value env i ≠ some x := by
      intro h; apply hu; unfold Unclean at *; rw [hgm', hread, h]; rfl
    by_cases hmi : ∀ p j, (s.nodeD i).kind ≠ .mapRef p j
    · exact absurd ((tv_eq_value_of_not_mapRef (env := env) hmi).symm.trans hx) hne
    · have hmr : IsMapRef (s.nodeD i).kind := Classical.byContradiction fun h => hmi (not_isMapRef_iff.1 h)
      refine ⟨hmr, ?_⟩
      obtain ⟨p, j, hki⟩ := isMapRef_iff.1 hmr
      unfold Unclean
      have : g i = some x := by rw [← tv_mapRef (g := g) hki]; exact hx
      rw [this]
      exact fun h => hne h.symm

/-- the facts the linking cascade needs, from the structural invariant of the virtual state -/
theorem cfrag_of_ginv2 {rk : Nat → Nat} {op : Nat → Op} {ex : Nat → Prop} {dy : List Nat} (F : FFrag env sp g s)
    (I : GInv2 (VE env sp) rk (virt g s) op ex dy) (hop : ∀ m, op m = .closed) (hnf : ∀ m, (s.nodeD m).forceNecessary = false) :
    CFrag env sp g rk s := by
  have A := I.frag
  have hch : ∀ n c, c ∈ s.children n → n < s.nodes.size := by
    intro n c hc
    by_cases hn : n < s.nodes.size
    · exact hn
    · rw [BindH.children_default s n (by omega)] at hc; cases hc
  refine ⟨F, fun n c hc => ?_, fun n c hc => ?_, fun n c hc => ?_, fun n hn => ?_, fun c p i hp => ?_⟩
  · have := (A.node n (by rw [virt_size]; exact hch n c hc)).kidLt c (by rw [virt_children]; exact hc)
    exact this
  · have := (A.node n (by rw [virt_size]; exact hch n c hc)).kidsValid c (by rw [virt_children]; exact hc)
    rw [virt_nodeD, virtNode_valid] at this; exact this
  · have := (A.node n (by rw [virt_size]; exact hch n c hc)).kidsIn c (by rw [virt_children]; exact hc)
    rw [virt_size] at this; exact this
  · cases hv : (s.nodeD n).valid with
    | true => rfl
    | false =>
      obtain ⟨h1, h2, h3, -, -⟩ := I.inv n (by rw [virt_nodeD, virtNode_valid]; exact hv)
      rw [virt_nodeD, virtNode_parents] at h1
      rw [virt_nodeD, virtNode_observers] at h2
      rw [virt_nodeD, virtNode_forceNecessary] at h3
      simp [State.isNecessary, Node.isNecessary, h1, h2, h3] at hn
  · have := (I.par c p i (by rw [virt_nodeD, virtNode_parents]; exact hp)).1
    rw [virt_children] at this; exact this

end
end IncrVerif.Proofs.FullH
