import IncrVerif.Proofs.NestH27
/-!
# Nested binds (F2), `lhsRelink`, part 3: `stateAddParent rhs 1 main` from `.linking 1` closes the bind's main node

Port of `BindH68` (`CR3`).  New in F2: `main` may be the main node of an INNER bind, i.e. a node of an outer scope `.bind b'`; the scope height
rule for `main` itself (hypothesis `hsh`: the change detector of `b'` is lower than `main`, and necessary — so it keeps its height through the
linking cascade) gives `adjustHeights_spec2`'s `hscope` / `close_full`'s `hself`; `rhs` may be the main node of an inner bind created by this
run of the closure (covered by `addParentWithoutAdjustingHeights_spec2`).
-/
namespace IncrVerif.Proofs.NestH
open IncrVerif.Engine IncrVerif.Proofs IncrVerif.Proofs.Step IncrVerif.Proofs.Sched IncrVerif.Proofs.Quiet
open IncrVerif.Proofs.BindH

namespace NR

/-- a bind's main node is not a change detector -/
theorem scopeQuiet_main {env : Env} {rk : Nat → Nat} {s : State} {dy : List Nat} (A : All2 env rk s dy) {p b lc : Nat}
    (hk : (s.nodeD p).kind = .bindMain b lc) : CL.ScopeQuiet s p := by
  intro m b' br' _ hb' hl
  obtain ⟨-, -, h3, -⟩ := A.recs b' br' hb'
  rw [hl, hk] at h3; cases h3

/-- `state_add_parent rhs 1 main` where `main` (excused, possibly queued) is `.linking 1` with children `[n, rhs]`:
afterwards everything is closed -/
theorem stateAddParent_spec2 {env : Env} {rk : Nat → Nat} {fuel b n main rhs : Nat} {t t' : State} {ex : Nat → Prop} {dy : List Nat}
    {br : BindRec}
    (h : (stateAddParent env fuel rhs 1 main).run.run t = (.ok (), t'))
    (I : GInv2 env rk t (upd allClosed main (.linking 1)) ex dy) (hex : ex main) (hah : AhhEmpty t)
    (hb : t.binds[b]? = some br) (hm : br.main = main) (hl : br.lhsChange = n) (hr : br.rhs = some rhs)
    (hhn : (t.nodeD n).height < (t.nodeD main).height) (h0 : 0 ≤ (t.nodeD main).height)
    (hgq : (t.nodeD main).inRch = true → (t.nodeD main).heightInRch = (t.nodeD main).height)
    (hpi : t.propagateInvalidity = [])
    (hF : ∀ m b' br', (t.nodeD m).forceNecessary = true → (t.nodeD m).createdIn = .bind b' →
      t.binds[b']? = some br' →
      t.isNecessary br'.lhsChange = true ∧ upd allClosed main (.linking 1) br'.lhsChange = .closed)
    (hdy : ∀ m, m ∈ dy → (t.nodeD m).createdIn = .bind b)
    (hst : (t.nodeD main).recomputedAt < (t.nodeD n).changedAt)
    (hsh : ∀ b' br', (t.nodeD main).createdIn = .bind b' → t.binds[b']? = some br' →
      (t.nodeD br'.lhsChange).height < (t.nodeD main).height ∧ t.isNecessary br'.lhsChange = true) :
    GInv2 env rk t' allClosed ex dy ∧ AhhEmpty t' ∧ BR.KRel t t' ∧ t'.isNecessary main = true := by
  have hopm : upd allClosed main (.linking 1) main = .linking 1 := upd_self _ _ _
  have hms : main < t.nodes.size := I.opLt main (by rw [hopm]; exact Op.linking_ne_closed _)
  obtain ⟨r1, -, -, hkm, -⟩ := I.frag.recs b br hb
  rw [hm] at r1 hkm
  rw [hl] at r1 hkm
  have hnm : n ≠ main := by omega
  have hvm : (t.nodeD main).valid = true := I.valid_of_open (by rw [hopm]; exact Op.linking_ne_closed _)
  have hch : t.children main = [n, rhs] := by
    have := I.main_children hb (by rw [hm]; exact hvm)
    rw [hm, hl, hr] at this; exact this
  have hstale : t.isStale main = true := BR.isStale_main hvm hkm hb hst
  have hk1 : (t.children main)[1]? = some rhs := by rw [hch]; rfl
  have hk0 : (t.children main)[0]? = some n := by rw [hch]; rfl
  have hrkr : rk rhs < rk main := I.kid_rk hk1
  have hnecn : t.isNecessary n = true :=
    nec_of_mem_parents (I.conv main 0 n hk0 ((wants_linking hopm).2 (by omega)))
  unfold stateAddParent at h
  rw [run_bind_get] at h
  replace h := bind_dassert_inv h
  obtain ⟨_, t1, hap, h⟩ := bind_ok_inv h
  obtain ⟨I1, hab1, hl1, -⟩ := addParentWithoutAdjustingHeights_spec2 hap I hopm hk1
    (by
      intro m hmo
      by_cases e : m = main
      · rw [e]; exact hrkr
      · rw [upd_other _ _ _ e] at hmo; exact absurd rfl hmo)
    (by
      intro m k
      by_cases e : m = main
      · rw [e, hopm]; exact fun e => by cases e
      · rw [upd_other _ _ _ e]; exact fun e => by cases e)
    hF
  rw [upd_upd] at I1
  have K1 : BR.KRel t t1 := BR.KRel.of_cframe hl1.fr hl1.pinv
  have E1 : AhhEmpty t1 :=
    BR.ahhEmpty_frame hah (BR.CFrame.ahh hl1.fr) (((BR.PresM.link env fuel).2 _ _ _).h _ _ _ hap)
  have hch1 : t1.children main = [n, rhs] := by
    rw [KeyEq2.children2 (BL.KeyEq.of_cframe hl1.fr) I.frag]; exact hch
  have hm1 : t1.nodeD main = t.nodeD main := hab1 main hrkr
  have hn1 : (t1.nodeD n).height = (t.nodeD n).height := hl1.hgt n (fun h => h) hnecn
  have hnec1 : t1.isNecessary main = true := I1.lnec main 2 (upd_self _ _ _)
  have hb1 : t1.binds[b]? = some br := by rw [K1.binds]; exact hb
  have hsh1 : ∀ b' br', (t1.nodeD main).createdIn = .bind b' → t1.binds[b']? = some br' →
      (t1.nodeD br'.lhsChange).height < (t1.nodeD main).height := by
    intro b' br' hc' hb'
    rw [hm1] at hc' ⊢
    rw [K1.binds] at hb'
    obtain ⟨h1, h2⟩ := hsh b' br' hc' hb'
    rw [hl1.hgt br'.lhsChange (fun h => h) h2]; exact h1
  obtain ⟨cn, hcn, h⟩ := bind_getNode_inv h
  obtain ⟨pn, hpn, h⟩ := bind_getNode_inv h
  dsimp only at h
  have hcnD : t1.nodeD rhs = cn := nodeD_of_some hcn
  have hpnD : t1.nodeD main = pn := nodeD_of_some hpn
  -- the tail of the function, from a state in which everything is closed
  have tail : ∀ t2, GInv2 env rk t2 allClosed ex dy → AhhEmpty t2 → BR.KRel t1 t2 → t2.isNecessary main = true →
      (do propagateInvalidity fuel
          let s ← get
          dassert (s.isNecessary main) "node:state_add_parent:parent-necessary"
          let p ← getNode main
          let c ← getNode rhs
          if !p.inRch && (p.recomputedAt == -1 || c.changedAt > p.recomputedAt) then
            rchInsert main).run.run t2 = (.ok (), t') →
      GInv2 env rk t' allClosed ex dy ∧ AhhEmpty t' ∧ BR.KRel t t' ∧ t'.isNecessary main = true := by
    intro t2 I2 E2 K2 hnec2 h
    have K12 : BR.KRel t t2 := K1.trans K2
    obtain ⟨_, t3, hpi3, h⟩ := bind_ok_inv h
    have e3 : t3 = t2 := BR.propagateInvalidity_nil hpi3 (by rw [K12.pinv]; exact hpi)
    rw [e3] at h
    rw [run_bind_get] at h
    replace h := bind_dassert_inv h
    obtain ⟨p, hp, h⟩ := bind_getNode_inv h
    obtain ⟨c, hc, h⟩ := bind_getNode_inv h
    have hpD : t2.nodeD main = p := nodeD_of_some hp
    split at h
    · rename_i hcond
      have hnq : (t2.nodeD main).inRch = false := by
        rw [hpD]
        simp only [Bool.and_eq_true, Bool.not_eq_true'] at hcond
        exact hcond.1
      obtain ⟨nd, hnd, -, hmax, e, -, hl⟩ := rchInsert_rel h
      have hndD : t2.nodeD main = nd := nodeD_of_some hnd
      have hst2 : t2.isStale main = true := by rw [KeyEq2.isStale2 (CR.KRel.keyEq K12) I.frag main]; exact hstale
      have hk2 : (t2.nodeD main).kind = .bindMain b n := by rw [K12.kind]; exact hkm
      have I3 := open_full I2 rfl hnec2
      have I4 := NL.GInv2.close_link_stale I3 (upd_self _ _ _) hnq (Nat.le_refl _)
        (by
          intro i c' hk
          have hm := I2.conv main i c' hk ((wants_closed rfl).2 hnec2)
          exact I2.hlt c' main i hm rfl)
        (I2.hpos main hnec2 rfl) (scopeQuiet_main I2.frag hk2)
        (by
          intro b' br' hc' hb'
          exact I2.scopeH main b' br' (I2.valid_of_nec hnec2) hc' hb' hnec2 rfl)
        (by rw [hndD]; exact hmax) hst2
      rw [upd_upd, BR.upd_allClosed_closed, hndD, ← e] at I4
      exact ⟨I4,
        BR.ahhEmpty_frame E2 (BR.CFrame.ahh (hl (fun _ => False)).fr) ((BR.PresM.rchInsert main).h _ _ _ h),
        K12.trans (BR.KRel.of_cframe (hl (fun _ => False)).fr (hl (fun _ => False)).pinv),
        (hl (fun _ => False)).nec hnec2⟩
    · obtain ⟨-, e⟩ := pure_ok_inv h
      rw [e]
      exact ⟨I2, E2, K12, hnec2⟩
  by_cases hge : cn.height ≥ pn.height
  · rw [if_pos hge] at h
    obtain ⟨_, t2, hadj, h⟩ := bind_ok_inv h
    have hedge : (main, 1) ∈ (t1.nodeD rhs).parents :=
      I1.conv main 1 rhs (by rw [hch1]; rfl) ((wants_linking (upd_self _ _ _)).2 (by omega))
    obtain ⟨I2, E2, R2, -⟩ := adjustHeights_spec2 hadj I1 (by rw [upd_self, hch1]; rfl)
      (fun m e => by rw [upd_other _ _ _ e]; rfl) ⟨1, hedge⟩
      (by
        intro c i hmem hc
        have hk := (I1.par c main i hmem).1
        rw [hch1] at hk
        rcases i with _ | _ | i
        · simp only [List.getElem?_cons_zero, Option.some.injEq] at hk
          rw [← hk, hm1, hn1]; exact hhn
        · simp only [List.getElem?_cons_succ, List.getElem?_cons_zero, Option.some.injEq] at hk
          exact absurd hk.symm hc
        · simp at hk)
      (by rw [hm1]; exact hgq) (fun _ => Or.inl hex) E1
      (by
        intro m hmd b' br' hc' hb'
        rw [CR.KRel.createdIn K1, hdy m hmd] at hc'
        injection hc' with hc'
        rw [← hc', hb1] at hb'
        cases hb'
        have := I1.frag.lc_rk_main hb1 (by rw [hm, hm1]; exact hvm)
        rw [hm] at this; exact this)
      hsh1
    rw [upd_upd, BR.upd_allClosed_closed] at I2
    exact tail t2 I2 E2 (BR.KRel.of_hrel R2) (by rw [R2.nec]; exact hnec1) h
  · rw [if_neg hge] at h
    have I2 := close_full I1 (upd_self _ _ _) (by rw [hch1]; exact Nat.le_refl 2)
      (by
        intro i c hk
        rw [hch1] at hk
        rcases i with _ | _ | i
        · simp only [List.getElem?_cons_zero, Option.some.injEq] at hk
          rw [← hk, hm1, hn1]; exact hhn
        · simp only [List.getElem?_cons_succ, List.getElem?_cons_zero, Option.some.injEq] at hk
          rw [← hk, hcnD, hpnD]; omega
        · simp at hk)
      (by rw [hm1]; exact h0) (by rw [hm1]; exact hgq) (fun _ => Or.inl hex) hsh1
    rw [upd_upd, BR.upd_allClosed_closed] at I2
    exact tail t1 I2 E1 (BR.KRel.refl _) hnec1 h

end NR

end IncrVerif.Proofs.NestH
