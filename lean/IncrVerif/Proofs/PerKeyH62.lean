import IncrVerif.Proofs.PerKeyH61
import IncrVerif.Proofs.PerKeyH15
/-!
# One `.right` iteration of the per-key loop, part d: the bookkeeping `OpCore` of the operator after the iteration
-/
namespace IncrVerif.Proofs.PerKeyH
open IncrVerif.Engine IncrVerif.Driver IncrVerif.Proofs IncrVerif.Proofs.Step IncrVerif.Proofs.Sched
open IncrVerif.Proofs.ExpertH IncrVerif.Proofs.EffH IncrVerif.Proofs.DriverH IncrVerif.Proofs.ExpertH.QR IncrVerif.Proofs.Xp

/-- every dependency name in `prevNodes` is the name of an edge of the result record, hence below `nextDep` -/
theorem r_dep_lt {env : Env} {σ : State} {op eres : Nat} {pr1 : PerKeyRec} {er0 : ExpertRec}
    (S : SlotInv env σ) (C : OpCore env σ op pr1) (hres : (σ.nodeD pr1.result).kind = .expert eres)
    (he : σ.experts[eres]? = some er0) {key : Int} {p d : Nat} (hm : (key, (p, d)) ∈ pr1.prevNodes) :
    d < σ.nextDep := by
  obtain ⟨x, e, er, hN, hee, -, -, hent, -⟩ := C.nodes
  have : e = eres := by have := hN.result; rw [hres] at this; cases this; rfl
  subst this
  rw [he] at hee; cases hee
  obtain ⟨ed, locs, h1, h2, -⟩ := (hent key p d hm).edge
  rw [← h2]
  exact (S.deps e er0 he).2.1 ed h1

theorem r_opcore {env : Env} {op eres : Nat} {key : Int} {pr : PerKeyRec} {pn : List (Int × (Nat × Nat))}
    {er0 : ExpertRec} {σ σ' : State} {mapped dep : Nat}
    (R : RSh env op key pr.lhsChange (env.perKey pr.fam) (fun e => e = eres) σ σ' mapped)
    (E : REF op key eres er0 σ σ' mapped dep)
    (M : Mid (twEnv env) (twL [] σ)) (F : PFrag env σ) (S : SlotInv env σ)
    (C : OpCore env σ op { pr with prevNodes := pn })
    (hres : (σ.nodeD pr.result).kind = .expert eres) (he : σ.experts[eres]? = some er0)
    (hfresh : ∀ x, x ∈ pn → x.1 ≠ key)
    (hnamed : ∀ (k x : Nat), σ.top[k]? = some x → x < σ.nodes.size)
    (hinst : Inst σ' (env.perKey pr.fam) key σ.nodes.size
      (List.range' (σ.nodes.size + 1) (env.perKey pr.fam).instrs.length) mapped)
    (hbelow : ExpertH.Below σ' mapped σ.nodes.size ∨ ((V σ').nodeD σ.nodes.size).recomputedAt = -1) :
    OpCore env σ' op { pr with prevNodes := (key, (σ.nodes.size, dep)) :: pn } := by
  have B : BF (fun e => e = eres) σ σ' := LF.bf R.lfx.lf
  obtain ⟨x, e, er, hN, hee, hpk, ⟨d0, rest, hch, hrest, hd0⟩, hent, hout⟩ := C.nodes
  have hee' : e = eres := by have := hN.result; rw [show ({ pr with prevNodes := pn } : PerKeyRec).result = pr.result from rfl, hres] at this; cases this; rfl
  subst hee'
  rw [he] at hee; cases hee
  obtain ⟨er', he', hch', hfs'⟩ := E.xres
  obtain ⟨er1, he1, -, -, hpk1, -⟩ := R.lfx.lf.xrec e er0 he
  rw [he'] at he1; cases he1
  have hrlt : pr.result + 2 < σ.nodes.size := hN.lt
  have hlc : pr.lhsChange = pr.result + 1 := hN.lc
  have hdep := E.hdep
  have hd0lt : d0 < σ.nextDep :=
    (S.deps e er0 he).2.1 _ (by rw [hch]; exact List.mem_cons_self ..)
  have hold_lt : ∀ key' p d, (key', (p, d)) ∈ pn → d < σ.nextDep := fun key' p d hm =>
    r_dep_lt S C hres he hm
  have hP : ∀ y, Priv env { pr with prevNodes := (key, (σ.nodes.size, dep)) :: pn } y ↔
      (Priv env { pr with prevNodes := pn } y ∨
        (σ.nodes.size ≤ y ∧ y ≤ σ.nodes.size + (env.perKey pr.fam).instrs.length)) := fun y =>
    bf_priv_cons (pr1 := { pr with prevNodes := pn })
      (pr2 := { pr with prevNodes := (key, (σ.nodes.size, dep)) :: pn }) rfl rfl rfl y
  refine ⟨C.cut, ?_, ?_, ?_, C.templ, ?_, ?_, ?_, C.sorted⟩
  · -- own
    exact own_extend (pr1 := { pr with prevNodes := pn })
      (pr2 := { pr with prevNodes := (key, (σ.nodes.size, dep)) :: pn }) B (fun e _ h => h) F hres
      (show pr.result < σ.nodes.size by omega) rfl rfl rfl rfl
      (by rw [R.size]; exact Nat.le_refl _) (fun c x _ hx => r_kids_lt M hx) C.own
  · -- noObs
    intro y hy
    rw [hP] at hy
    rcases hy with hy | ⟨h1, h2⟩
    · have hlt := bf_priv_lt C hy
      have := R.lfx.lf.node y hlt
      simp only [nodeKey, Prod.mk.injEq] at this
      rw [this.2.2.2.2.2.2.2.1]
      exact C.noObs y hy
    · exact (R.lfx.lf.new y h1 (by rw [R.size]; omega)).observers
  · -- privTop
    intro k y hk hy
    rw [R.top] at hk
    rw [hP] at hy
    rcases hy with hy | ⟨h1, -⟩
    · exact C.privTop k y hk hy
    · have := hnamed k y hk; omega
  · -- nodes
    refine ⟨x, e, er', OpNodes.bf (pr := { pr with prevNodes := pn })
      (pr' := { pr with prevNodes := (key, (σ.nodes.size, dep)) :: pn }) B rfl rfl hN, he', hpk1.trans hpk,
      ⟨d0, rest ++ [{ dep := σ.nextDep + 1, child := mapped, cb := some (σ.nextDep + 1) }], ?_, ?_, ?_⟩, ?_, ?_⟩
    · rw [hch', hch]; rfl
    · intro ed hed
      rcases List.mem_append.1 hed with h | h
      · obtain ⟨key', p, hm⟩ := hrest ed h
        exact ⟨key', p, List.mem_cons_of_mem _ hm⟩
      · rw [List.mem_singleton.1 h]
        exact ⟨key, σ.nodes.size, by rw [hdep]; exact List.mem_cons_self ..⟩
    · intro key' p d hm
      rcases List.mem_cons.1 hm with heq | hm
      · injection heq with _ e2
        injection e2 with _ e3
        rw [e3, hdep]; omega
      · exact hd0 key' p d hm
    · intro key' p d hm
      rcases List.mem_cons.1 hm with heq | hm
      · injection heq with e1 e2
        injection e2 with e2 e3
        rw [e1, e2, e3]
        have hmem : ({ dep := σ.nextDep + 1, child := mapped, cb := some (σ.nextDep + 1) } : ExpertEdge) ∈ er'.children := by
          rw [hch']; exact List.mem_append_right _ (List.mem_singleton.2 rfl)
        obtain ⟨erX, hx, x1, x2, x3, x4, x5⟩ := R.xnew
        refine ⟨by rw [R.size]; omega, ⟨_, erX, _, R.kind_p, hx, x3, x4⟩,
          ⟨_, _, hmem, hdep.symm, by rw [hdep], hinst, fun c hc => ?_, hrlt⟩,
          hbelow.imp (fun hb => ⟨_, hmem, hdep.symm, hb⟩) id, ⟨_, hmem, hdep.symm, hinst, ?_⟩⟩
        · have := List.mem_range'_1.1 hc
          show pr.result + 2 < c
          omega
        · show σ.nodes.size + (env.perKey pr.fam).instrs.length < σ'.nodes.size
          rw [R.size]; omega
      · exact EntryOK.bf (pr := { pr with prevNodes := pn })
          (pr' := { pr with prevNodes := (key, (σ.nodes.size, dep)) :: pn }) B (fun e h => h) he he' hpk rfl rfl rfl (hent key' p d hm)
    · intro k hk
      rw [R.top]; exact hout k hk
  · -- keys
    show ((key, (σ.nodes.size, dep)) :: pn |>.map (·.1)).Nodup
    rw [List.map_cons, List.nodup_cons]
    refine ⟨fun hmem => ?_, C.keys⟩
    obtain ⟨y, hy, hy2⟩ := List.mem_map.1 hmem
    exact hfresh y hy hy2
  · -- deps
    show ((key, (σ.nodes.size, dep)) :: pn |>.map (·.2.2)).Nodup
    rw [List.map_cons, List.nodup_cons]
    refine ⟨fun hmem => ?_, C.deps⟩
    obtain ⟨⟨k', p', d'⟩, hy, hy2⟩ := List.mem_map.1 hmem
    have := hold_lt k' p' d' hy
    simp only at hy2
    omega

end IncrVerif.Proofs.PerKeyH
