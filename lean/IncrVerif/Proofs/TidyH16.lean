import IncrVerif.Proofs.TidyH15
/-!
# T2b, part 7: `create` returns; every action of the fragment returns; valid histories never panic

* `Ext j jv s s1`: `s1` is `s` plus `j` fresh (unnecessary) nodes and `jv` fresh (linked) var cells; nothing else that
  `TInvW` reads changed.
* `elab_totW`: the creation instructions of the fragment (`WInstr`) whose operands exist return (by hand: `createNode`
  never fails, `resolveOpnd` needs the operand in range); `create_totalW`.
* `step_totalW`: every action of the fragment (`WAction`) that is `ActionOKW` returns, `QInvW`/`TInvW` are kept.
* `ValidHistW`, `runActions_totalW`, `history_totalW`: valid histories of the fragment never panic.
-/
namespace IncrVerif.Proofs.TidyH.WT
open IncrVerif.Engine IncrVerif.Driver IncrVerif.Proofs IncrVerif.Proofs.Step IncrVerif.Proofs.Sched IncrVerif.Proofs.Quiet
open IncrVerif.Proofs.MapOldH

/-! ## fresh nodes -/

/-- `s1` is `s` plus `j` fresh unnecessary nodes and `jv` fresh linked var cells (as far as `TInvW` reads) -/
structure Ext (j jv : Nat) (s s1 : State) : Prop where
  size : s1.nodes.size = s.nodes.size + j
  old : ∀ m, m < s.nodes.size → s1.nodeD m = s.nodeD m
  new : ∀ m, s.nodes.size ≤ m → s1.isNecessary m = false
  ahh : s1.ahh = s.ahh
  rch : s1.rch = s.rch
  vsize : s1.vars.size = s.vars.size + jv
  vars : ∀ (c : Nat) (vc : VarCell), s1.vars[c]? = some vc → s.vars[c]? = some vc ∨ vc.linked = true
  observers : s1.observers = s.observers
  newObservers : s1.newObservers = s.newObservers
  top : s1.top = s.top
  scope : s1.currentScope = s.currentScope

theorem Ext.refl (s : State) : Ext 0 0 s s :=
  ⟨rfl, fun _ _ => rfl, fun m hm => by
    rw [State.isNecessary, nodeD_default_of_ge s m hm]; rfl, rfl, rfl, rfl, fun _ _ h => Or.inl h, rfl, rfl, rfl, rfl⟩

theorem Ext.trans {j jv j' jv' : Nat} {a b c : State} (h1 : Ext j jv a b) (h2 : Ext j' jv' b c) :
    Ext (j + j') (jv + jv') a c where
  size := by rw [h2.size, h1.size]; omega
  old m hm := by rw [h2.old m (by rw [h1.size]; omega), h1.old m hm]
  new m hm := by
    by_cases hb : m < b.nodes.size
    · have := h1.new m hm
      rw [State.isNecessary] at this ⊢
      rw [h2.old m hb]; exact this
    · exact h2.new m (by omega)
  ahh := h2.ahh.trans h1.ahh
  rch := h2.rch.trans h1.rch
  vsize := by rw [h2.vsize, h1.vsize]; omega
  vars c vc h := by
    rcases h2.vars c vc h with h | h
    · exact h1.vars c vc h
    · exact Or.inr h
  observers := h2.observers.trans h1.observers
  newObservers := h2.newObservers.trans h1.newObservers
  top := h2.top.trans h1.top
  scope := h2.scope.trans h1.scope

/-- the state after `createNode k .top` -/
def pushK (k : Kind) (s : State) : State :=
  { s with counters := { s.counters with created := s.counters.created + 1 }, nodes := s.nodes.push (newNode k) }

theorem run_createNode (k : Kind) (s : State) :
    (createNode k .top).run.run s = (.ok s.nodes.size, pushK k s) := rfl

theorem pushK_size (k : Kind) (s : State) : (pushK k s).nodes.size = s.nodes.size + 1 := by
  simp [pushK]

theorem ext_push_nodes {s s1 : State} {k : Kind} (hn : s1.nodes = s.nodes.push (newNode k)) :
    (∀ m, m < s.nodes.size → s1.nodeD m = s.nodeD m) ∧ (∀ m, s.nodes.size ≤ m → s1.isNecessary m = false) := by
  refine ⟨fun m hm => ?_, fun m hm => ?_⟩
  · simp only [State.nodeD, hn, Array.getElem?_push, if_neg (show ¬ m = s.nodes.size by omega)]
  · rw [State.isNecessary]
    by_cases e : m = s.nodes.size
    · have : s1.nodeD m = newNode k := by
        simp only [State.nodeD, hn, Array.getElem?_push, if_pos e, Option.getD_some]
      rw [this]; rfl
    · rw [nodeD_default_of_ge s1 m (by rw [hn, Array.size_push]; omega)]; rfl

theorem ext_pushK (k : Kind) (s : State) : Ext 1 0 s (pushK k s) :=
  ⟨pushK_size k s, (ext_push_nodes (s1 := pushK k s) rfl).1, (ext_push_nodes (s1 := pushK k s) rfl).2, rfl, rfl, rfl,
    fun _ _ h => Or.inl h, rfl, rfl, rfl, rfl⟩

theorem Ext.tinvW {N j jv : Nat} {s s1 : State} (E : Ext j jv s s1) (T : TInvW N s) (hroom : s.nodes.size + j ≤ N) :
    TInvW N s1 where
  hb m hm ho := by
    have hlt : m < s.nodes.size := by
      rcases Nat.lt_or_ge m s.nodes.size with h | h
      · exact h
      · rw [E.new m h] at hm; cases hm
    have hnec : s.isNecessary m = true := by
      rw [State.isNecessary] at hm ⊢; rw [← E.old m hlt]; exact hm
    rw [E.old m hlt]; exact T.hb m hnec ho
  room := ⟨by rw [E.ahh]; exact T.room.ahh, by rw [E.rch]; exact T.room.rch, by rw [E.size]; exact hroom⟩
  linked c vc h := by
    rcases E.vars c vc h with h | h
    · exact T.linked c vc h
    · exact h
  newNodup := by rw [E.newObservers]; exact T.newNodup
  newState o ob h1 h2 := by
    rw [E.newObservers] at h1; rw [E.observers] at h2; exact T.newState o ob h1 h2

/-! ## the creation instructions return -/

section
variable {env : Env} {C : Val → Prop} {sp : Nat → Val → Val} {s : State}

theorem growW_create_top (i : Instr) : (growW (.create i)).2.1 = 1 ∧ (growW (.create i)).2.2.2 = 0 := by
  cases i <;> first | exact ⟨rfl, rfl⟩ | (rename_i op; cases op <;> exact ⟨rfl, rfl⟩)

/-- the post-condition of the elaboration of a creation instruction -/
def ElabPost (i : Instr) (s : State) (ro : Option Nat) (s1 : State) : Prop :=
  ∃ n, ro = some n ∧ Ext (growW (.create i)).1 (growW (.create i)).2.2.1 s s1

theorem opndOK_of_in {s : State} {o : Opnd} (h : OpndIn s o) : OpndOK o := by
  cases o <;> first | trivial | exact h.elim

/-- a top-level handle that exists resolves, to an existing node -/
theorem resolveW (Q : QInvW env C sp s) {o : Opnd} (ho : OpndIn s o) :
    ∃ n, (resolveOpnd [] o).run.run s = (.ok n, s) ∧ n < s.nodes.size := by
  obtain ⟨n, hn⟩ := resolveOpnd_run ho
  obtain ⟨-, k, hk⟩ := resolveOpnd_outer_inv (opndOK_of_in ho) hn
  exact ⟨n, hn, Q.top_lt k n hk⟩

/-- **the creation instructions of the fragment return** -/
theorem elab_totW {i : Instr} (Q : QInvW env C sp s) (hi : WInstr env C sp i) (hin : InstrInW s i) :
    Tot (elabInstrM env [] .unit i) s (ElabPost i s) := by
  have hsc := Q.scope
  cases i with
  | const v =>
    unfold elabInstrM
    simp only
    unfold elabInstr
    refine Tot.bind_get ?_
    simp only [hsc]
    exact Tot.of_ok (map_run_ok (run_createNode _ s)) ⟨_, rfl, ext_pushK _ s⟩
  | var v =>
    unfold elabInstrM
    simp only
    unfold elabInstr
    refine Tot.bind_get ?_
    simp only
    refine Tot.of_ok (map_run_ok (createVar_top_run _ s)) ⟨_, rfl, ?_⟩
    refine ⟨by simp [growW], (ext_push_nodes rfl).1, (ext_push_nodes rfl).2, rfl, rfl, by simp only [Array.size_push]; rfl,
      ?_, rfl, rfl, rfl, rfl⟩
    intro c vc h
    simp only [Array.getElem?_push] at h
    split at h
    · injection h with h; rw [← h]; exact Or.inr rfl
    · exact Or.inl h
  | map f args =>
    unfold elabInstrM
    simp only
    unfold elabInstr
    refine Tot.bind_get ?_
    simp only [hsc]
    obtain ⟨r, hr⟩ := mapM_resolve_run args hin
    refine Tot.bind_ok hr ?_
    exact Tot.of_ok (map_run_ok (run_createNode _ s)) ⟨_, rfl, ext_pushK _ s⟩
  | fold f init cs =>
    unfold elabInstrM
    simp only
    unfold elabInstr
    refine Tot.bind_get ?_
    simp only [hsc]
    obtain ⟨r, hr⟩ := mapM_resolve_run cs hin
    refine Tot.bind_ok hr ?_
    split
    · exact Tot.of_ok (map_run_ok (run_createNode _ s)) ⟨_, rfl, ext_pushK _ s⟩
    · exact Tot.of_ok (map_run_ok (run_createNode _ s)) ⟨_, rfl, ext_pushK _ s⟩
  | zip a b =>
    unfold elabInstrM
    simp only
    unfold elabInstr
    refine Tot.bind_get ?_
    simp only [hsc]
    obtain ⟨na, hna, hla⟩ := resolveW Q hin.1
    obtain ⟨nb, hnb, hlb⟩ := resolveW Q hin.2
    obtain ⟨ca, hca⟩ := isConstant_run hla
    obtain ⟨cb, hcb⟩ := isConstant_run hlb
    refine Tot.bind_ok hna (Tot.bind_ok hnb (Tot.bind_ok hca (Tot.bind_ok hcb ?_)))
    split
    · exact Tot.of_ok (map_run_ok (run_createNode _ s)) ⟨_, rfl, ext_pushK _ s⟩
    · exact Tot.of_ok (map_run_ok (run_createNode _ s)) ⟨_, rfl, ext_pushK _ s⟩
  | mapWithOld g o =>
    unfold elabInstrM
    simp only
    unfold elabInstr
    refine Tot.bind_get ?_
    simp only [hsc]
    obtain ⟨no, hno, -⟩ := resolveW Q (o := o) hin
    refine Tot.bind_ok hno ?_
    exact Tot.of_ok (map_run_ok (run_createNode _ s)) ⟨_, rfl, ext_pushK _ s⟩
  | mapOp op =>
    unfold elabInstrM
    simp only
    unfold elabInstr
    refine Tot.bind_get ?_
    simp only [hsc]
    have three : ∀ (k1 k2 k3 : Kind), Ext 3 0 s (pushK k3 (pushK k2 (pushK k1 s))) := fun k1 k2 k3 =>
      ((ext_pushK k1 s).trans (ext_pushK k2 _)).trans (ext_pushK k3 _)
    cases op with
    | fm m o =>
      obtain ⟨x, hx, -⟩ := resolveW Q (o := o) (hin o (List.mem_cons_self ..))
      simp only
      refine Tot.bind_ok hx (Tot.bind_ok (run_createNode _ _) (Tot.bind_ok (run_createNode _ _)
        (Tot.of_ok (map_run_ok (run_createNode _ _)) ⟨_, rfl, three _ _ _⟩)))
    | fold m rev upd o =>
      obtain ⟨x, hx, -⟩ := resolveW Q (o := o) (hin o (List.mem_cons_self ..))
      simp only
      refine Tot.bind_ok hx (Tot.bind_ok (run_createNode _ _) (Tot.bind_ok (run_createNode _ _)
        (Tot.of_ok (map_run_ok (run_createNode _ _)) ⟨_, rfl, three _ _ _⟩)))
    | part m o =>
      obtain ⟨x, hx, -⟩ := resolveW Q (o := o) (hin o (List.mem_cons_self ..))
      simp only
      refine Tot.bind_ok hx (Tot.bind_ok (run_createNode _ _) (Tot.bind_ok (run_createNode _ _)
        (Tot.of_ok (map_run_ok (run_createNode _ _)) ⟨_, rfl, three _ _ _⟩)))
    | merge m o1 o2 =>
      obtain ⟨x, hx, -⟩ := resolveW Q (o := o1) (hin o1 (List.mem_cons_self ..))
      have hin2 : OpndIn s o2 := hin o2 (List.mem_cons_of_mem _ (List.mem_cons_self ..))
      obtain ⟨k2, rfl⟩ : ∃ k, o2 = .outer k := by
        cases o2 <;> first | exact ⟨_, rfl⟩ | exact hin2.elim
      have hk2 : k2 < s.top.size := hin2
      have hy : (resolveOpnd [] (.outer k2)).run.run (pushK (.map fnIdent [x]) s)
          = (.ok s.top[k2], pushK (.map fnIdent [x]) s) := by
        unfold resolveOpnd
        simp only
        rw [run_bind_get]
        show (match s.top[k2]? with | some n => (pure n : M Nat) | none => _).run.run _ = _
        rw [Array.getElem?_eq_getElem hk2]
        rfl
      simp only
      refine Tot.bind_ok hx (Tot.bind_ok (run_createNode _ _) (Tot.bind_ok hy (Tot.bind_ok (run_createNode _ _)
        (Tot.bind_ok (run_createNode _ _) (Tot.bind_ok (run_createNode _ _)
        (Tot.of_ok (map_run_ok (run_createNode _ _)) ⟨_, rfl, ?_⟩))))))
      exact ((((ext_pushK _ s).trans (ext_pushK _ _)).trans (ext_pushK _ _)).trans (ext_pushK _ _)).trans
        (ext_pushK _ _)
  | _ => exact hi.elim

/-- **`create` returns** -/
theorem create_totalW {N : Nat} {i : Instr} {tk : Array Nat} (Q : QInvW env C sp s) (T : TInvW N s)
    (hi : WInstr env C sp i) (hok : ActionOKW N s (.create i)) :
    Tot (stepAction env (.create i) tk) s (fun r s' => r.2 = tk ∧ TInvW N s' ∧ GrownW (.create i) s s') := by
  obtain ⟨hin, hroom⟩ := hok
  obtain ⟨ro, s1, hrun, n, ero, E⟩ := elab_totW Q hi hin
  have T1 := E.tinvW T hroom
  obtain ⟨g1, g2⟩ := growW_create_top i
  unfold stepAction
  simp only
  refine Tot.bind_ok hrun ?_
  rw [ero]
  simp only
  refine Tot.bind_modify (Tot.pure ⟨rfl, ?_, ?_⟩)
  · exact ⟨T1.hb, ⟨T1.room.ahh, T1.room.rch, T1.room.size⟩, T1.linked, T1.newNodup, T1.newState⟩
  · refine ⟨E.size, ?_, E.vsize, ?_⟩
    · show (s1.top.push n).size = _
      rw [Array.size_push, E.top, g1]
    · show s1.observers.size = _
      rw [E.observers, g2]; rfl

/-! ## every action returns -/

/-- **every API action of the fragment static + map_with_old whose indices exist returns**; the invariants are kept. -/
theorem step_totalW {N : Nat} {a : Action} {tk : Array Nat} (V : ValOK env C sp) (Q : QInvW env C sp s)
    (T : TInvW N s) (ha : WAction env C sp a) (hok : ActionOKW N s a) :
    Tot (stepAction env a tk) s (fun r s' => r.2 = tk ∧ QInvW env C sp s' ∧ TInvW N s' ∧ GrownW a s s') := by
  have plain : WPlain C a → ActionOK N s a → Tot (stepAction env a tk) s
      (fun r s' => r.2 = tk ∧ QInvW env C sp s' ∧ TInvW N s' ∧ GrownW a s s') := by
    intro hp hk
    obtain ⟨r, s', h, h1, h2, h3⟩ := plain_totalW (tk := tk) Q T hp hk
    exact ⟨r, s', h, h1, stepW V Q ha h, h2, h3⟩
  cases a
  case create i =>
    obtain ⟨r, s', h, h1, h2, h3⟩ := create_totalW (tk := tk) Q T ha hok
    exact ⟨r, s', h, h1, stepW V Q ha h, h2, h3⟩
  case stabilise =>
    obtain ⟨_, s', h, T', htop⟩ := stabiliseW_total (N := N) V Q T hok
    have R := stabiliseW V Q h
    refine ⟨_, s', step_stabilise_run h, rfl, R.inv, T', ?_⟩
    have hsz := R.virt.size
    rw [virt_size, virt_size] at hsz
    have hv : s'.vars = s.vars := R.virt.vars
    have ho : s'.observers.size = s.observers.size := R.virt.obs.1
    exact ⟨hsz, by rw [htop]; rfl, by rw [hv]; rfl, ho⟩
  all_goals first
    | exact plain ha hok
    | exact ha.elim

end

/-! ## valid histories -/

/-- the operand names one of the first `nt` top-level nodes -/
def OpndLt (nt : Nat) : Opnd → Prop
  | .outer k => k < nt
  | _ => False

instance (nt : Nat) (o : Opnd) : Decidable (OpndLt nt o) := by
  cases o <;> simp only [OpndLt] <;> infer_instance

/-- the operands of a creation instruction name some of the first `nt` top-level nodes -/
def InstrOKc (nt : Nat) : Instr → Prop
  | .map _ args => ∀ a, a ∈ args → OpndLt nt a
  | .fold _ _ cs => ∀ a, a ∈ cs → OpndLt nt a
  | .zip a b => OpndLt nt a ∧ OpndLt nt b
  | .mapWithOld _ i => OpndLt nt i
  | .mapOp op => ∀ a, a ∈ opOpnds op → OpndLt nt a
  | _ => True

instance (nt : Nat) (i : Instr) : Decidable (InstrOKc nt i) := by
  cases i <;> simp only [InstrOKc] <;> infer_instance

/-- `ActionOKW` in terms of the numbers of nodes (`nn`), top-level names (`nt`), var cells (`nv`), observers (`no`) -/
def ActionOKWc (N nn nt nv no : Nat) : Action → Prop
  | .create i => InstrOKc nt i ∧ nn + (growW (.create i)).1 ≤ N
  | .observe n => OpndLt nt n
  | .dropObs o | .disallow o => o < no
  | .set v _ | .modify v _ | .update v _ | .replace v _ | .replaceWith v _ | .get v => v < nv
  | .stabilise => 3 * nn + 4 ≤ fuelDefault
  | _ => True

instance (N nn nt nv no : Nat) (a : Action) : Decidable (ActionOKWc N nn nt nv no a) := by
  cases a <;> simp only [ActionOKWc] <;> infer_instance

/-- a history whose actions name existing things, never exceeds `N` nodes, and whose `stabilise`s have fuel;
`nn`, `nt`, `nv`, `no` = numbers of nodes, top-level names, var cells, observers before the history -/
def ValidHistW (N : Nat) : Nat → Nat → Nat → Nat → List Action → Prop
  | _, _, _, _, [] => True
  | nn, nt, nv, no, a :: as =>
    ActionOKWc N nn nt nv no a ∧
      ValidHistW N (nn + (growW a).1) (nt + (growW a).2.1) (nv + (growW a).2.2.1) (no + (growW a).2.2.2) as

instance validHistW_dec (N : Nat) : ∀ (nn nt nv no : Nat) (acts : List Action),
    Decidable (ValidHistW N nn nt nv no acts)
  | _, _, _, _, [] => isTrue trivial
  | nn, nt, nv, no, a :: as =>
    have := validHistW_dec N (nn + (growW a).1) (nt + (growW a).2.1) (nv + (growW a).2.2.1) (no + (growW a).2.2.2) as
    inferInstanceAs (Decidable (_ ∧ _))

theorem opndIn_of_lt {s : State} {a : Opnd} (h : OpndLt s.top.size a) : OpndIn s a := by
  cases a <;> first | exact h | exact h.elim

theorem actionOKW_of {N : Nat} {s : State} {a : Action}
    (h : ActionOKWc N s.nodes.size s.top.size s.vars.size s.observers.size a) : ActionOKW N s a := by
  cases a <;> exact h

section
variable {env : Env} {C : Val → Prop} {sp : Nat → Val → Val}

/-- **T2b: total correctness for the fragment static + map_with_old.** A valid history of actions of the fragment runs
without panic from any state satisfying the invariants; the final state satisfies them. -/
theorem runActions_totalW {N : Nat} {acts : List Action} {s : State} {tk : Array Nat} (V : ValOK env C sp)
    (Q : QInvW env C sp s) (T : TInvW N s) (ha : ∀ a, a ∈ acts → WAction env C sp a)
    (hv : ValidHistW N s.nodes.size s.top.size s.vars.size s.observers.size acts) :
    ∃ s', runActions env acts s tk = .ok (s', tk) ∧ QInvW env C sp s' ∧ TInvW N s' := by
  induction acts generalizing s with
  | nil => exact ⟨s, rfl, Q, T⟩
  | cons a as ih =>
    obtain ⟨hok, hrest⟩ := hv
    obtain ⟨r, s1, h1, htk, Q1, T1, hg⟩ :=
      step_totalW (tk := tk) V Q T (ha a (List.mem_cons_self ..)) (actionOKW_of hok)
    obtain ⟨g1, g2, g3, g4⟩ := hg
    rw [← g1, ← g2, ← g3, ← g4] at hrest
    obtain ⟨s', h2, Q', T'⟩ := ih Q1 T1 (fun b hb => ha b (List.mem_cons_of_mem _ hb)) hrest
    refine ⟨s', ?_, Q', T'⟩
    simp only [runActions]
    rw [h1]
    simp only [htk]
    exact h2

/-- from the initial state: **a valid history of the fragment static + map_with_old never panics** -/
theorem history_totalW {N : Nat} {d : Bool} {acts : List Action} (V : ValOK env C sp)
    (ha : ∀ a, a ∈ acts → WAction env C sp a) (hv : ValidHistW N 0 0 0 0 acts) :
    ∃ s', runActions env acts (State.init N d) #[] = .ok (s', #[]) ∧ QInvW env C sp s' ∧ TInvW N s' :=
  runActions_totalW V (init_invW env C sp N d) (TInv.toW (tinv_init N d)) ha hv

end
end IncrVerif.Proofs.TidyH.WT
