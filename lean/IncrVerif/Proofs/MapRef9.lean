import IncrVerif.Proofs.MapRef8
/-!
# map_ref fragment: one `recomputeOne`
* a node that is not a map_ref node: the actual step is simulated by the virtual step (`recomputeOne_sim`);
* a map_ref node: master equation of the actual step (`recomputeOne_mapRef_run`).
-/
namespace IncrVerif.Proofs.MapRefH
open IncrVerif.Engine IncrVerif.Proofs IncrVerif.Proofs.Step IncrVerif.Proofs.Sched IncrVerif.Proofs.Quiet

section
variable {g : Nat → Option Val}

/-! ## `virt` commutes with the bookkeeping at the start of a step -/

theorem virt_nodes_modify (s : State) (n : Nat) (f : Node → Node)
    (hf : ∀ gv nd, virtNode gv (f nd) = f (virtNode gv nd)) :
    (s.nodes.modify n f).mapIdx (fun i nd => virtNode (g i) nd)
      = (s.nodes.mapIdx fun i nd => virtNode (g i) nd).modify n f := by
  apply Array.ext
  · simp
  · intro i h1 h2
    simp only [Array.getElem_mapIdx, Array.getElem_modify]
    split
    · rename_i e; subst e; exact hf _ _
    · rfl

theorem virt_started (n : Nat) (s : State) : virt g (started n s) = started n (virt g s) := by
  simp only [virt, started]
  rw [virt_nodes_modify s n _ (by vcomm)]
  rfl

theorem virt_logged (es : List Event) (s : State) : virt g (logged es s) = logged es (virt g s) := rfl

theorem Fr.started {s : State} (h : Fr s) (n : Nat) : Fr (started n s) :=
  Fr.of_nodes (fr_modify h n (fun x => { x with recomputedAt := s.stabNum }) (by vkind)) rfl rfl

theorem Fr.logged {s : State} (h : Fr s) (es : List Event) : Fr (logged es s) := Fr.of_nodes h rfl rfl

/-! ## the arguments -/

theorem valuesOf_of_isSome (env : Env) (s : State) (args : List Nat)
    (h : ∀ a, a ∈ args → (s.value env a).isSome = true) : ∃ vals, valuesOf env s args = some vals := by
  induction args with
  | nil => exact ⟨[], rfl⟩
  | cons a as ih =>
    obtain ⟨vs, hvs⟩ := ih fun b hb => h b (List.mem_cons_of_mem _ hb)
    have ha := h a (List.mem_cons_self ..)
    cases hv : s.value env a with
    | none => rw [hv] at ha; cases ha
    | some v => exact ⟨v :: vs, by simp only [valuesOf, hv, hvs]⟩

theorem valuesOf_virt (env : Env) (s : State) (args : List Nat)
    (h : ∀ a, a ∈ args → tv g s a = s.value env a) :
    valuesOf (virtEnv env) (virt g s) args = valuesOf env s args := by
  induction args with
  | nil => rfl
  | cons a as ih =>
    simp only [valuesOf]
    rw [virt_value, h a (List.mem_cons_self ..), ih fun b hb => h b (List.mem_cons_of_mem _ hb)]

/-! ## a node that is not a map_ref node -/

/-- both steps reduce to `maybe_change_value` from corresponding states -/
theorem recomputeOne_sim_finish {env : Env} {s s' : State} {fuel n : Nat} {r : Option Nat} {es : List Event} {v : Val}
    (hfr : Fr s) (hk : ∀ p i, (s.nodeD n).kind ≠ .mapRef p i)
    (ha : (recomputeOne env fuel n).run.run s
      = (maybeChangeValue env fuel n v).run.run (logged es (started n s)))
    (hv : (recomputeOne (virtEnv env) fuel n).run.run (virt g s)
      = (maybeChangeValue (virtEnv env) fuel n v).run.run (logged es (started n (virt g s))))
    (h : (recomputeOne env fuel n).run.run s = (.ok r, s')) :
    (recomputeOne (virtEnv env) fuel n).run.run (virt g s) = (.ok r, virt g s') ∧ Fr s' := by
  rw [ha] at h
  rw [hv, ← virt_started, ← virt_logged]
  have hk' : ∀ p i, ((logged es (started n s)).nodeD n).kind ≠ .mapRef p i := by
    intro p i
    show ((started n s).nodeD n).kind ≠ _
    rw [started_nodeD]; split <;> exact hk p i
  exact SimAt.maybeChangeValue hk' ((hfr.started n).logged es) r s' h

theorem recomputeOne_sim {env : Env} {s s' : State} {fuel n : Nat} {r : Option Nat}
    (F : RFrag env s) (hfr : Fr s) (hn : n < s.nodes.size)
    (hk : ∀ p i, (s.nodeD n).kind ≠ .mapRef p i)
    (hvar : ∀ c, (s.nodeD n).kind = .var c → ∃ vc, s.vars[c]? = some vc)
    (hkids : ∀ a, a ∈ kidsR (s.nodeD n).kind → tv g s a = s.value env a ∧ (s.value env a).isSome = true)
    (h : (recomputeOne env fuel n).run.run s = (.ok r, s')) :
    (recomputeOne (virtEnv env) fuel n).run.run (virt g s) = (.ok r, virt g s') ∧ Fr s' := by
  have hnd := some_of_lt hn
  have hval := F.valid n hn
  have hrk := F.kind n hn
  have hvn : (virt g s).nodes[n]? = some (virtNode (g n) (s.nodeD n)) := by rw [virt_getElem?, hnd]; rfl
  have hvval : (virtNode (g n) (s.nodeD n)).valid = true := by rw [virtNode_valid]; exact hval
  have hvk := virtNode_kind (g n) (s.nodeD n)
  cases hkd : (s.nodeD n).kind with
  | const v =>
    rw [hkd] at hvk
    refine recomputeOne_sim_finish (es := []) (v := v) hfr hk ?_ ?_ h
    · exact recomputeOne_const_run env fuel n s _ v hnd hval hkd
    · exact recomputeOne_const_run (virtEnv env) fuel n (virt g s) _ v hvn hvval hvk
  | var c =>
    rw [hkd] at hvk
    obtain ⟨vc, hvc⟩ := hvar c hkd
    refine recomputeOne_sim_finish (es := []) (v := vc.value) hfr hk ?_ ?_ h
    · exact recomputeOne_var_run env fuel n s _ c vc hnd hval hkd hvc
    · exact recomputeOne_var_run (virtEnv env) fuel n (virt g s) _ c vc hvn hvval hvk hvc
  | map f args =>
    rw [hkd] at hvk hrk hkids
    obtain ⟨vals, hvals⟩ := valuesOf_of_isSome env s args fun a ha => (hkids a ha).2
    have hvvals : valuesOf (virtEnv env) (virt g s) args = some vals := by
      rw [valuesOf_virt env s args fun a ha => (hkids a ha).1]; exact hvals
    by_cases hf : f < fnZip
    · refine recomputeOne_sim_finish (es := [.inv s!"f{f}" n vals (env.fn f vals).render]) (v := env.fn f vals)
        hfr hk ?_ ?_ h
      · exact recomputeOne_map_run env fuel n s _ f args vals hnd hval hkd hf hvals (hrk.2 hf vals) F.pc
      · have := recomputeOne_map_run (virtEnv env) fuel n (virt g s) _ f args vals hvn hvval hvk hf hvvals
          (hrk.2 hf vals) F.pc
        rw [virtEnv_fn_real env hrk.1] at this
        exact this
    · have hpk : f < fnPerKey := by
        have := hrk.1; unfold projBase at this; unfold fnPerKey; omega
      refine recomputeOne_sim_finish (es := []) (v := env.fn f vals) hfr hk ?_ ?_ h
      · exact recomputeOne_mapBuiltin_run env fuel n s _ f args vals hnd hval hkd hf hpk hvals
      · have := recomputeOne_mapBuiltin_run (virtEnv env) fuel n (virt g s) _ f args vals hvn hvval hvk hf hpk hvvals
        rw [virtEnv_fn_real env hrk.1] at this
        exact this
  | fold f init cs =>
    rw [hkd] at hvk hkids
    obtain ⟨vals, hvals⟩ := valuesOf_of_isSome env s cs fun a ha => (hkids a ha).2
    have hvvals : valuesOf (virtEnv env) (virt g s) cs = some vals := by
      rw [valuesOf_virt env s cs fun a ha => (hkids a ha).1]; exact hvals
    refine recomputeOne_sim_finish (es := [.inv s!"fold{f}" n vals (vals.foldl (env.foldStep f) init).render])
      (v := vals.foldl (env.foldStep f) init) hfr hk ?_ ?_ h
    · exact recomputeOne_fold_run env fuel n s _ f init cs vals hnd hval hkd hvals F.pc
    · exact recomputeOne_fold_run (virtEnv env) fuel n (virt g s) _ f init cs vals hvn hvval hvk hvvals F.pc
  | mapRef p i => exact absurd hkd (hk p i)
  | _ => rw [hkd] at hrk; exact hrk.elim

/-! ## a map_ref node -/

/-- node `n` after the actual recompute of a map_ref node has dropped its value and lowered its flag -/
def cleared (n : Nat) (s : State) : State :=
  { s with nodes := s.nodes.modify n fun x => { x with value := none, didChange := false } }

theorem recomputeOne_mapRef_run {env : Env} {fuel n : Nat} {s : State} {nd : Node} {p i : Nat}
    (hn : s.nodes[n]? = some nd) (hv : nd.valid = true) (hk : nd.kind = .mapRef p i) :
    (recomputeOne env fuel n).run.run s =
      (maybeChangeValueManual env fuel n none nd.didChange false).run.run (cleared n (started n s)) := by
  have hk? : ({ nd with recomputedAt := s.stabNum } : Node).kind? = some (.mapRef p i) := by
    simp [Node.kind?, hv, hk]
  have hn' := started_getElem? n s nd hn
  unfold recomputeOne
  simp only [run_bind_get]
  cases hd : s.cfg.debug
  all_goals
    simp only [started, hd, Bool.false_eq_true, if_false, if_true, run_bind_modify,
      run_bind_bumpCounter, run_bind_get, run_bind_modNode] at hn' ⊢
    rw [run_bind_ok (run_getNode_some hn'), hk?]
    dsimp only
    rw [run_bind_modNode]
    rfl

end
end IncrVerif.Proofs.MapRefH
