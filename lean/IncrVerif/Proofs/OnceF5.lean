import IncrVerif.Proofs.FullH63
import IncrVerif.Proofs.FullH69
import IncrVerif.Proofs.OnceF4
/-!
# C02, combined fragment, part 5: NON-VACUITY — the theorem applies at every `stabilise` of the example histories `exHistF` / `exHistG` of `C01Full`, and the drain traces of
these `stabilise`s, computed by the kernel, are non-trivial (up to 17 nodes: variables, map_ref chains, map_with_old machines, change detectors, bind main nodes of nested
binds, `depend_on`)
-/
namespace IncrVerif.Proofs.OnceF
open IncrVerif.Engine IncrVerif.Driver IncrVerif.Proofs IncrVerif.Proofs.Step IncrVerif.Proofs.Sched IncrVerif.Proofs.Quiet
open IncrVerif.Proofs.FullH IncrVerif.Proofs.TidyH IncrVerif.Proofs.BindH

/-- the list of nodes handed to `recomputeOne` by the `stabilise` that follows the history `acts` (run from `State.init 128 true` in `fEnv`): `drainTrace` of the state `t2`
reached by the two observer phases — the `t2` of `OnceStab` -/
def EX.traceAfter (acts : List Action) : Option (List Nat) :=
  match C2h.stateB fEnv acts with
  | none => none
  | some s =>
    match (addNewObservers fEnv fuelDefault).run.run { s with status := .stabilising } with
    | (.ok _, t1) =>
      match (unlinkDisallowedObservers fuelDefault).run.run t1 with
      | (.ok _, t2) => some (drainTrace fEnv fuelDefault t2)
      | _ => none
    | _ => none

/-- C02 holds at every `stabilise` of `exHistF` -/
theorem exHistF_c02 {as bs : List Action} (e : exHistF = as ++ Action.stabilise :: bs) :
    ∃ s tk s1 tk1 s2, Quiet.runActions fEnv exHistF (State.init 128 true) #[] = .ok (s, tk) ∧
      Quiet.runActions fEnv as (State.init 128 true) #[] = .ok (s1, tk1) ∧
      (stabilise fEnv fuelDefault).run.run s1 = (.ok (), s2) ∧
      OnceStab fEnv fuelDefault s1 s2 ∧ FinalInputs s2 ∧
      Quiet.runActions fEnv bs s2 tk1 = .ok (s, tk) := by
  obtain ⟨s, tk, h⟩ := exHistF_runs
  have hH := exHistF_frag
  have h0 := h
  rw [e] at h hH
  obtain ⟨s1, tk1, s2, k1, -, k3, -, k5, k6, k7⟩ := history_c02 fEnv_envS fEnv_first hH h
  exact ⟨s, tk, s1, tk1, s2, h0, k1, k3, k5, k6, k7⟩

/-- C02 holds at every `stabilise` of `exHistG` -/
theorem exHistG_c02 {as bs : List Action} (e : exHistG = as ++ Action.stabilise :: bs) :
    ∃ s tk s1 tk1 s2, Quiet.runActions fEnv exHistG (State.init 128 true) #[] = .ok (s, tk) ∧
      Quiet.runActions fEnv as (State.init 128 true) #[] = .ok (s1, tk1) ∧
      (stabilise fEnv fuelDefault).run.run s1 = (.ok (), s2) ∧
      OnceStab fEnv fuelDefault s1 s2 ∧ FinalInputs s2 ∧
      Quiet.runActions fEnv bs s2 tk1 = .ok (s, tk) := by
  obtain ⟨s, tk, h⟩ := exHistG_runs
  have hH := exHistG_frag
  have h0 := h
  rw [e] at h hH
  obtain ⟨s1, tk1, s2, k1, -, k3, -, k5, k6, k7⟩ := history_c02 fEnv_envS fEnv_first hH h
  exact ⟨s, tk, s1, tk1, s2, h0, k1, k3, k5, k6, k7⟩

set_option maxRecDepth 100000 in
/-- the drain traces of the seven `stabilise`s of `exHistF` (kernel-checked): first round — the variables, the outer change detector 3, the closure's map_ref chain 5, 6, the inner
change detector 9, its map_ref 12, the machines 7, 13, the maps, the two main nodes 10, 4; only `c` written — the chain node 5 runs, its projection is unchanged and 6, 7 do NOT
run; `a` written — 5, 6, 7 run; the lhs changes — the new generation (node 14) runs, no node of the dead one; nothing observed — nothing runs; re-observed — a fresh generation -/
theorem exHistF_traces :
    EX.traceAfter (exHistF.take 5) = some [1, 3, 0, 2, 9, 5, 6, 12, 7, 13, 8, 10, 11, 4] ∧
    EX.traceAfter (exHistF.take 7) = some [0, 5, 12, 13, 10, 11, 4] ∧
    EX.traceAfter (exHistF.take 9) = some [0, 5, 6, 7, 12, 8, 11, 4] ∧
    EX.traceAfter (exHistF.take 11) = some [1, 3, 14, 4] ∧
    EX.traceAfter (exHistF.take 13) = some [] ∧
    EX.traceAfter (exHistF.take 18) = some [1, 3, 0, 2, 15, 19, 16, 22, 17, 20, 18, 21, 4] ∧
    EX.traceAfter (exHistF.take 20) = some [2, 19, 23, 24, 18, 20, 21, 4] :=
  ⟨by decide +kernel, by decide +kernel, by decide +kernel, by decide +kernel, by decide +kernel, by decide +kernel, by decide +kernel⟩

set_option maxRecDepth 100000 in
/-- the drain traces of the five `stabilise`s of `exHistG` (kernel-checked) -/
theorem exHistG_traces :
    EX.traceAfter (exHistG.take 10) = some [1, 2, 3, 0, 6, 12, 7, 8, 15, 9, 10, 16, 11, 13, 14, 4, 5] ∧
    EX.traceAfter (exHistG.take 12) = some [2, 6, 12, 17, 18, 11, 13, 14, 4, 5] ∧
    EX.traceAfter (exHistG.take 15) = some [2, 6, 12, 7, 19, 20, 11, 13, 14, 4, 5] ∧
    EX.traceAfter (exHistG.take 17) = some [1, 3, 6, 21, 7, 4, 5] ∧
    EX.traceAfter (exHistG.take 19) = some [2, 6, 7, 5] :=
  ⟨by decide +kernel, by decide +kernel, by decide +kernel, by decide +kernel, by decide +kernel⟩

end IncrVerif.Proofs.OnceF
