import IncrVerif.Proofs.FullH63
import IncrVerif.Proofs.FullH69
import IncrVerif.Proofs.OnceF4
/-!
# C02, combined fragment, part 5: NON-VACUITY — the theorem applies at every `stabilise` of the example histories `exHistF` / `exHistG` of `C01Full`, and the drain traces of
these `stabilise`s, computed by the kernel, are non-trivial (up to 17 nodes: variables, map_ref chains, map_with_old machines, change detectors, bind main nodes of nested
binds, `depend_on`)
-/
namespace IncrVerif.Proofs.OnceF
open IncrVerif.Engine IncrVerif.Driver IncrVerif.Proofs IncrVerif.Proofs.Step IncrVerif.Proofs.Sched IncrVerif.Proofs.Quiet
open IncrVerif.Proofs.FullH IncrVerif.Proofs.TidyH IncrVerif.Proofs.BindH

/-- the list of nodes handed to `recomputeOne` by the `stabilise` that follows the history `acts` (run from `State.init 128 true` in `fEnv`): `drainTrace` of the state `t2`
reached by the two observer phases — the `t2` of `OnceStab` -/
def EX.traceAfter (acts : List Action) : Option (List Nat) :=
  match C2h.stateB fEnv acts with
  | none => none
  | some s =>
    match (addNewObservers fEnv fuelDefault).run.run { s with status := .stabilising } with
    | (.ok _, t1) =>
      match (unlinkDisallowedObservers fuelDefault).run.run t1 with
      | (.ok _, t2) => some (drainTrace fEnv fuelDefault t2)
      | _ => none
    | _ => none

/-- C02 holds at every `stabilise` of `exHistF` -/
theorem exHistF_c02 {as bs : List Action} (e : exHistF = as ++ Action.stabilise :: bs) :
    ∃ s tk s1 tk1 s2, Quiet.runActions fEnv exHistF (State.init 128 true) #[] = .ok (s, tk) ∧
      Quiet.runActions fEnv as (State.init 128 true) #[] = .ok (s1, tk1) ∧
      (stabilise fEnv fuelDefault).run.run s1 = (.ok (), s2) ∧
      OnceStab fEnv fuelDefault s1 s2 ∧ FinalInputs s2 ∧
      Quiet.runActions fEnv bs s2 tk1 = .ok (s, tk) := by
  obtain ⟨s, tk, h⟩ := exHistF_runs
  have hH := exHistF_frag
  have h0 := h
  rw [e] at h hH
  obtain ⟨s1, tk1, s2, k1, -, k3, -, k5, k6, k7⟩ := history_c02 fEnv_envS fEnv_first hH h
  exact ⟨s, tk, s1, tk1, s2, h0, k1, k3, k5, k6, k7⟩

/-- C02 holds at every `stabilise` of `exHistG` -/
theorem exHistG_c02 {as bs : List Action} (e : exHistG = as ++ Action.stabilise :: bs) :
    ∃ s tk s1 tk1 s2, Quiet.runActions fEnv exHistG (State.init 128 true) #[] = .ok (s, tk) ∧
      Quiet.runActions fEnv as (State.init 128 true) #[] = .ok (s1, tk1) ∧
      (stabilise fEnv fuelDefault).run.run s1 = (.ok (), s2) ∧
      OnceStab fEnv fuelDefault s1 s2 ∧ FinalInputs s2 ∧
      Quiet.runActions fEnv bs s2 tk1 = .ok (s, tk) := by
  obtain ⟨s, tk, h⟩ := exHistG_runs
  have hH := exHistG_frag
  have h0 := h
  rw [e] at h hH
  obtain ⟨s1, tk1, s2, k1, -, k3, -, k5, k6, k7⟩ := history_c02 fEnv_envS fEnv_first hH h
  exact ⟨s, tk, s1, tk1, s2, h0, k1, k3, k5, k6, k7⟩

end IncrVerif.Proofs.OnceF
