import IncrVerif.Proofs.MapRef6
/-!
# map_ref fragment: simulation of the observer and variable operations
-/
namespace IncrVerif.Proofs.MapRefH
open IncrVerif.Engine IncrVerif.Proofs IncrVerif.Proofs.Step IncrVerif.Proofs.Sched IncrVerif.Proofs.Quiet

section
variable {g : Nat → Option Val}

theorem Sim.getObs (o : Nat) : Sim g (Engine.getObs o) (Engine.getObs o) := by
  intro s; unfold Engine.getObs; sim
  split <;> sim
macro_rules | `(tactic| sim_leaf) => `(tactic| with_reducible exact Sim.getObs _)

theorem Sim.modObs (o : Nat) (f : ObsRec → ObsRec) : Sim g (Engine.modObs o f) (Engine.modObs o f) := by
  intro s; unfold Engine.modObs; sim
macro_rules | `(tactic| sim_leaf) => `(tactic| with_reducible exact Sim.modObs _ _)

theorem Sim.bumpCounter (f : Counters → Counters) : Sim g (Engine.bumpCounter f) (Engine.bumpCounter f) := by
  intro s; unfold Engine.bumpCounter; sim
macro_rules | `(tactic| sim_leaf) => `(tactic| with_reducible exact Sim.bumpCounter _)

theorem Sim.getVar (v : Nat) : Sim g (Engine.getVar v) (Engine.getVar v) := by
  intro s; unfold Engine.getVar; sim
  split <;> sim
macro_rules | `(tactic| sim_leaf) => `(tactic| with_reducible exact Sim.getVar _)

theorem Sim.modVar (v : Nat) (f : VarCell → VarCell) : Sim g (Engine.modVar v f) (Engine.modVar v f) := by
  intro s; unfold Engine.modVar; sim
macro_rules | `(tactic| sim_leaf) => `(tactic| with_reducible exact Sim.modVar _ _)

theorem Sim.addNewObservers (env : Env) (fuel : Nat) :
    Sim g (Engine.addNewObservers env fuel) (Engine.addNewObservers (virtEnv env) fuel) := by
  intro s; unfold Engine.addNewObservers; sim
  split <;> sim
macro_rules | `(tactic| sim_leaf) => `(tactic| with_reducible exact Sim.addNewObservers _ _)

theorem Sim.unlinkDisallowedObservers (fuel : Nat) :
    Sim g (Engine.unlinkDisallowedObservers fuel) (Engine.unlinkDisallowedObservers fuel) := by
  intro s; unfold Engine.unlinkDisallowedObservers; sim
macro_rules | `(tactic| sim_leaf) => `(tactic| with_reducible exact Sim.unlinkDisallowedObservers _)

theorem Sim.disallowFutureUse (o : Nat) : Sim g (Engine.disallowFutureUse o) (Engine.disallowFutureUse o) := by
  intro s; unfold Engine.disallowFutureUse; sim
  split <;> sim
macro_rules | `(tactic| sim_leaf) => `(tactic| with_reducible exact Sim.disallowFutureUse _)

theorem Sim.didSetVarWhileNotStabilising (v : Nat) :
    Sim g (Engine.didSetVarWhileNotStabilising v) (Engine.didSetVarWhileNotStabilising v) := by
  intro s; unfold Engine.didSetVarWhileNotStabilising; sim
macro_rules | `(tactic| sim_leaf) => `(tactic| with_reducible exact Sim.didSetVarWhileNotStabilising _)

theorem Sim.writeVar (v : Nat) (f : Val → Val) (isSet : Bool) :
    Sim g (Engine.writeVar v f isSet) (Engine.writeVar v f isSet) := by
  intro s; unfold Engine.writeVar; sim
  split <;> sim
  split <;> sim
macro_rules | `(tactic| sim_leaf) => `(tactic| with_reducible exact Sim.writeVar _ _ _)

end
end IncrVerif.Proofs.MapRefH
