import IncrVerif.Proofs.MemoH4
import IncrVerif.Proofs.MemoH5
/-!
# C20 over whole histories, part 5: sharing (K2)

* `Held s h` (the program holds a node handle or an observer handle on `h`), `SReach` (paths through the
  inputs of static nodes), `Anchored s n`; `Anchored.alive`.
* `KeepA m key n` (ILocal): while `n` is anchored, the entry `key ↦ n` of table `m` stays — through EVERY
  function of the model, memoised calls from bind closures included.
* `Same m key` (ILocal): the entry of `key` in table `m` is untouched — for everything except a call with this
  very `(m, key)` and the sweep; `entry_step`: what an API action does to the entry.
-/
namespace IncrVerif.Proofs.MemoH
open IncrVerif.Engine IncrVerif.Proofs.Obs IncrVerif.Proofs.Memo IncrVerif.Proofs.Own

/-! ## anchors -/

/-- the program holds a handle on node `h`: a node handle, or a (clone of a) public observer handle -/
def Held (s : State) (h : Nat) : Prop :=
  h ∈ s.handles ∨ ∃ (o : Nat) (ob : ObsRec), s.observers[o]? = some ob ∧ ob.node = h ∧ 0 < ob.clones

/-- a path through the inputs of static nodes (`map`, `fold`, `map_ref`, `map_with_old`) -/
inductive SReach (s : State) : Nat → Nat → Prop
  | refl (n : Nat) : SReach s n n
  | step {a b c : Nat} : b ∈ kindRefs (s.nodeD a).kind → SReach s b c → SReach s a c

/-- `n` is held, or is an input (of an input …) of a held static node -/
def Anchored (s : State) (n : Nat) : Prop := ∃ h, Held s h ∧ SReach s h n

theorem kindRefs_refsOf (s : State) (a b : Nat) (h : b ∈ kindRefs (s.nodeD a).kind) : b ∈ s.refsOf a := by
  unfold State.refsOf
  cases hk : (s.nodeD a).kind <;> rw [hk] at h <;> simp only [kindRefs] at h <;>
    first | exact h | cases h

theorem Held.root {s : State} {h : Nat} (hh : Held s h) : h ∈ s.roots := by
  rw [mem_roots]
  rcases hh with hh | ⟨o, ob, h1, h2, h3⟩
  · exact .inl hh
  · exact .inr (.inr (.inr (.inl ⟨ob, Array.mem_toList_iff.2 (Array.mem_of_getElem? h1), .inl h3, h2⟩)))

theorem Anchored.alive {s : State} {n : Nat} (h : Anchored s n) : n ∈ s.aliveSet := by
  obtain ⟨r, hr, hp⟩ := h
  apply aliveSet_complete
  have h0 : Reach s r := .root hr.root
  clear hr
  induction hp with
  | refl _ => exact h0
  | step hb _ ih => exact ih (.step h0 (kindRefs_refsOf s _ _ hb))

theorem Anchored.isAlive {s : State} {n : Nat} (h : Anchored s n) : s.isAlive n = true := by
  unfold State.isAlive; simpa using h.alive

theorem nodeD_default_of_ge (s : State) (a : Nat) (h : s.nodes.size ≤ a) : s.nodeD a = default := by
  simp [State.nodeD, Array.getElem?_eq_none h]

theorem SReach.mono {s s' : State} (hf : Fut s s') {a c : Nat} (h : SReach s a c) : SReach s' a c := by
  induction h with
  | refl _ => exact .refl _
  | @step a b c hb _ ih =>
    have ha : a < s.nodes.size := by
      rcases Nat.lt_or_ge a s.nodes.size with h | h
      · exact h
      · rw [nodeD_default_of_ge s a h] at hb; cases hb
    have hc := hf.core a ha
    simp only [nodeK, Prod.mk.injEq] at hc
    exact .step (hc.1 ▸ hb) ih

theorem Held.of_f0 {s s' : State} (hf : F0 s s') {h : Nat} (hh : Held s h) : Held s' h := by
  rcases hh with hh | ⟨o, ob, h1, h2, h3⟩
  · exact .inl (hf.handles ▸ hh)
  · have := hf.obs o
    rw [h1] at this
    cases h' : s'.observers[o]? with
    | none => rw [h'] at this; cases this
    | some ob' =>
      rw [h'] at this
      simp only [Option.map_some, Option.some.injEq, obsK, Prod.mk.injEq] at this
      exact .inr ⟨o, ob', h', this.1.trans h2, this.2 ▸ h3⟩

theorem Anchored.of_f0 {s s' : State} (hf : F0 s s') {n : Nat} (h : Anchored s n) : Anchored s' n := by
  obtain ⟨r, hr, hp⟩ := h
  exact ⟨r, hr.of_f0 hf, hp.mono hf.fut⟩

/-! ## the entry of one key -/

theorem stored_memoFinish_ne (sc : Scope) (m m' : Nat) (key key' : Int) (n' : Nat) (s : State)
    (hne : ¬ (m' = m ∧ key' = key)) :
    stored (memoFinish sc m' key' n' s) m key = stored s m key := by
  simp only [stored_eq, table, memoFinish_memos, List.lookup_cons]
  by_cases hm : m = m'
  · subst hm
    have hk : key ≠ key' := fun h => hne ⟨rfl, h.symm⟩
    have hb : (key == key') = false := by simpa using hk
    simp only [beq_self_eq_true, Option.getD_some, List.lookup_cons, hb]
    exact lookup_filter_key_ne _ hk
  · have hb : (m == m') = false := by simpa using hm
    simp only [hb]
    rw [lookup_filter_key_ne _ hm]

theorem stored_sweep (s : State) (m : Nat) (key : Int) :
    stored (sweep s) m key
      = ((table s m).filter fun e => s.aliveSet.contains e.2).lookup key := by
  show List.lookup key ((List.lookup m (gcMemos s.aliveSet s.memos)).getD []) = _
  rw [gcMemos_lookup]
  unfold table
  cases s.memos.lookup m <;> rfl

theorem lookup_filter_val_keep {α β : Type} [BEq α] [LawfulBEq α] (l : List (α × β)) (p : β → Bool)
    {k : α} {v : β} (h : l.lookup k = some v) (hp : p v = true) :
    (l.filter fun e => p e.2).lookup k = some v := by
  induction l with
  | nil => cases h
  | cons e l ih =>
    obtain ⟨k0, v0⟩ := e
    rw [List.lookup_cons] at h
    rw [List.filter_cons]
    by_cases hk : k == k0
    · rw [hk] at h; cases h
      simp only [hp, if_true, List.lookup_cons, hk]
    · simp only [hk] at h
      cases p v0
      · simp only [Bool.false_eq_true, if_false]; exact ih h
      · simp only [if_true, List.lookup_cons, hk]; exact ih h

/-- the sweep keeps the entry of a node that is still allocated -/
theorem stored_sweep_keep (s : State) (m : Nat) (key : Int) (n : Nat)
    (h : stored s m key = some n) (ha : n ∈ s.aliveSet) : stored (sweep s) m key = some n := by
  rw [stored_sweep]
  exact lookup_filter_val_keep _ (fun x => s.aliveSet.contains x) h (by simpa using ha)

/-- with distinct keys: the sweep keeps the entry iff its node is still allocated -/
theorem stored_sweep_eq {env : Env} (s : State) (ht : TInv env s) (m : Nat) (key : Int) :
    stored (sweep s) m key = (stored s m key).filter fun n => s.aliveSet.contains n := by
  rw [stored_sweep, stored_eq]
  exact lookup_filter_val _ (ht.table_keys m) (fun x => s.aliveSet.contains x) key

/-! ## `KeepA`: an anchored node keeps its entry -/

structure KeepA (m : Nat) (key : Int) (n : Nat) (s s' : State) : Prop where
  anch : Anchored s n → Anchored s' n
  entry : Anchored s n → stored s m key = some n → stored s' m key = some n

instance (m : Nat) (key : Int) (n : Nat) : PreOrd (KeepA m key n) :=
  ⟨fun _ => ⟨fun h => h, fun _ h => h⟩,
   fun h1 h2 => ⟨fun h => h2.anch (h1.anch h), fun ha h => h2.entry (h1.anch ha) (h1.entry ha h)⟩⟩

instance (m : Nat) (key : Int) (n : Nat) : ILocal (KeepA m key n) :=
  ⟨fun s s' hf => ⟨fun h => h.of_f0 hf, fun _ h => by simpa only [stored, hf.memos] using h⟩⟩

theorem KeepA.of_memos {m : Nat} {key : Int} {n : Nat} {s s' : State}
    (ha : Anchored s n → Anchored s' n) (hm : s'.memos = s.memos) : KeepA m key n s s' :=
  ⟨ha, fun _ h => by simpa only [stored, hm] using h⟩

theorem SReach.congr (s s' : State) (h1 : s'.nodes = s.nodes) {a c : Nat} (h : SReach s a c) :
    SReach s' a c := by
  induction h with
  | refl _ => exact .refl _
  | step hb _ ih =>
    refine .step ?_ ih
    simpa only [State.nodeD, h1] using hb

theorem Anchored.congr (s s' : State) {n : Nat} (h1 : s'.nodes = s.nodes) (h2 : s'.handles = s.handles)
    (h3 : s'.observers = s.observers) (h : Anchored s n) : Anchored s' n := by
  obtain ⟨r, hr, hp⟩ := h
  refine ⟨r, ?_, hp.congr s s' h1⟩
  rcases hr with hr | ⟨o, ob, q1, q2, q3⟩
  · exact .inl (h2 ▸ hr)
  · exact .inr ⟨o, ob, h3 ▸ q1, q2, q3⟩

/-- a memoised call — ANY memo function, ANY key, from top level or from inside a bind closure — keeps the
entry of an anchored node: with the same `(m, key)` it is a hit -/
theorem keepA_memoCall (env : Env) (m : Nat) (key : Int) (n : Nat) (m' : Nat) (key' : Int) :
    Pres (KeepA m key n) (memoCall env m' key') := by
  refine ⟨fun s r s' hrun => ?_⟩
  rw [memoCall_run] at hrun
  cases hh : memoHit s m' key' with
  | some x => rw [hh] at hrun; cases hrun; exact PreOrd.refl _
  | none =>
    rw [hh] at hrun
    dsimp only at hrun
    rcases ht : tick.run.run s with ⟨_ | u, s1⟩
    · rw [ht] at hrun; cases hrun
      exact ILocal.of_frame0 _ _ ((PresF.tick (R := F0V)).h _ _ _ ht).toF0
    · rw [ht] at hrun
      dsimp only at hrun
      have hf1 : F0V s (memoStart m' key' s1) :=
        PreOrd.trans ((PresF.tick (R := F0V)).h _ _ _ ht) (F0V.memoStart m' key' s1)
      rcases he : (elabTemplateBase (env.memo m') (.int key')).run.run (memoStart m' key' s1) with ⟨_ | x, s2⟩
      · rw [he] at hrun; cases hrun
        exact ILocal.of_frame0 _ _
          (PreOrd.trans hf1 ((PresF.elabTemplateBase (R := F0V) _ _ _).h _ _ _ he)).toF0
      · rw [he] at hrun; cases hrun
        have hf2 : F0V s s2 := PreOrd.trans hf1 ((PresF.elabTemplateBase (R := F0V) _ _ _).h _ _ _ he)
        refine ⟨fun ha => (ha.of_f0 hf2.toF0).congr s2 _ rfl rfl rfl, fun ha hs => ?_⟩
        by_cases hne : m' = m ∧ key' = key
        · -- the same key: the stored node is anchored, hence allocated: the call was a hit
          exfalso
          obtain ⟨rfl, rfl⟩ := hne
          simp only [memoHit, hs, ha.isAlive, if_true] at hh
          cases hh
        · rw [stored_memoFinish_ne _ _ _ _ _ _ _ hne]
          simpa only [stored, hf2.memos] using hs

theorem KeepA.sweep (m : Nat) (key : Int) (n : Nat) (s : State) : KeepA m key n s (sweep s) :=
  ⟨fun h => h.congr s _ rfl rfl rfl, fun ha hs => stored_sweep_keep s m key n hs ha.alive⟩

theorem Anchored.push {s : State} {n : Nat} (h : Anchored s n) (x : Nat) :
    Anchored { s with top := s.top.push x, handles := x :: s.handles } n := by
  obtain ⟨r, hr, hp⟩ := h
  refine ⟨r, ?_, ?_⟩
  · rcases hr with hr | ⟨o, ob, q1, q2, q3⟩
    · exact .inl (List.mem_cons_of_mem _ hr)
    · exact .inr ⟨o, ob, q1, q2, q3⟩
  · refine SReach.congr s _ ?_ hp; rfl

theorem Anchored.pushObs {s : State} {n : Nat} (h : Anchored s n) (ob : ObsRec) (l : List Nat) :
    Anchored { s with observers := s.observers.push ob, newObservers := l } n := by
  obtain ⟨r, hr, hp⟩ := h
  refine ⟨r, ?_, ?_⟩
  · rcases hr with hr | ⟨o, ob', q1, q2, q3⟩
    · exact .inl hr
    · refine .inr ⟨o, ob', ?_, q2, q3⟩
      show (s.observers.push ob)[o]? = some ob'
      have : o < s.observers.size := by
        rcases Nat.lt_or_ge o s.observers.size with h | h
        · exact h
        · rw [Array.getElem?_eq_none h] at q1; cases q1
      rw [Array.getElem?_push, if_neg (Nat.ne_of_lt this)]; exact q1
  · refine SReach.congr s _ ?_ hp; rfl

theorem Anchored.modObs {s : State} {n : Nat} (h : Anchored s n) (o : Nat) (f : ObsRec → ObsRec)
    (hf : ∀ x, (f x).node = x.node ∧ x.clones ≤ (f x).clones) :
    Anchored { s with observers := s.observers.modify o f } n := by
  obtain ⟨r, hr, hp⟩ := h
  refine ⟨r, ?_, ?_⟩
  · rcases hr with hr | ⟨o', ob', q1, q2, q3⟩
    · exact .inl hr
    · by_cases ho : o = o'
      · subst ho
        refine .inr ⟨o, f ob', ?_, (hf ob').1.trans q2, Nat.lt_of_lt_of_le q3 (hf ob').2⟩
        show (s.observers.modify o f)[o]? = some (f ob')
        rw [Array.getElem?_modify, if_pos rfl, q1]; rfl
      · refine .inr ⟨o', ob', ?_, q2, q3⟩
        show (s.observers.modify o f)[o']? = some ob'
        rw [Array.getElem?_modify, if_neg ho]; exact q1
  · refine SReach.congr s _ ?_ hp; rfl

/-- EVERY API action other than the two drops keeps the entry of an anchored node (and the anchor) -/
theorem keepA_stepAction (env : Env) (m : Nat) (key : Int) (n : Nat) (a : Action) (tokens : Array Nat)
    (hd : ∀ o, a ≠ .dropObs o) (hh : ∀ o, a ≠ .dropHandle o) :
    Pres (KeepA m key n) (stepAction env a tokens) := by
  have hm : ∀ m' key', (fun _ _ => True : Nat → Int → Prop) m' key' →
      Pres (KeepA m key n) (memoCall env m' key') := fun m' key' _ => keepA_memoCall env m key n m' key'
  by_cases hp : Action.isPlain a = true
  · exact PresI.stepAction_plain env a tokens hp
  · cases a <;> simp only [Action.isPlain, not_true_eq_false] at hp
    case create i =>
      exact PresB.stepAction_create hm (fun _ _ _ => trivial) tokens
        fun s x => KeepA.of_memos (fun h => h.push x) rfl
    case observe o =>
      exact PresI.stepAction_observe env o tokens fun s ob l => KeepA.of_memos (fun h => h.pushObs ob l) rfl
    case cloneObs o =>
      exact PresI.stepAction_cloneObs env o tokens fun s f hf => KeepA.of_memos (fun h => h.modObs o f hf) rfl
    case dropObs o => exact absurd rfl (hd o)
    case dropHandle o => exact absurd rfl (hh o)
    case stabilise =>
      refine ⟨fun s r s' hrun => ?_⟩
      rcases Split.stepAction_stabilise hm (bodiesP_true env) tokens s r s' hrun with h | ⟨s1, h1, rfl⟩
      · exact h
      · exact PreOrd.trans h1 (KeepA.sweep m key n s1)

/-- the two drops do not touch the tables -/
theorem drop_memos (env : Env) (a : Action) (tokens : Array Nat)
    (hd : (∃ o, a = .dropObs o) ∨ ∃ o, a = .dropHandle o) (s s' : State) (r)
    (h : (stepAction env a tokens).run.run s = (r, s')) : s'.memos = s.memos := by
  rcases hd with ⟨o, rfl⟩ | ⟨o, rfl⟩
  · exact ((Quiet0.stepAction_dropObs env o tokens).h _ _ _ h).memos
  · exact ((Quiet0.stepAction_dropHandle env o tokens).h _ _ _ h).memos

/-- K2 (anchor form), one action: whatever the action (bind closures may call any memoised function with any
key, this one included), if `n` is anchored before and after, its entry stays -/
theorem anchored_entry_step (env : Env) (m : Nat) (key : Int) (n : Nat) (a : Action) (tokens : Array Nat)
    (s s' : State) (r) (h : (stepAction env a tokens).run.run s = (r, s'))
    (ha : Anchored s n) (hs : stored s m key = some n) : stored s' m key = some n := by
  by_cases hd : (∃ o, a = .dropObs o) ∨ ∃ o, a = .dropHandle o
  · simpa only [stored, drop_memos env a tokens hd s s' r h] using hs
  · have h1 : ∀ o, a ≠ .dropObs o := fun o e => hd (.inl ⟨o, e⟩)
    have h2 : ∀ o, a ≠ .dropHandle o := fun o e => hd (.inr ⟨o, e⟩)
    exact ((keepA_stepAction env m key n a tokens h1 h2).h _ _ _ h).entry ha hs

end IncrVerif.Proofs.MemoH
