import IncrVerif.Proofs.ExpertH47
/-!
# Expert nodes: `add_dependency` keeps the invariant between actions

`addDep_unnec` (the node is not necessary: only the record changes) and `addDep_nec` (the node is necessary: the child
is linked at once — `becameNecessary` cascade —, heights are adjusted, the node is queued).
Hypothesis of both: the new edge closes no cycle (`¬ Below s c n`).
-/
namespace IncrVerif.Proofs.ExpertH
open IncrVerif.Engine IncrVerif.Driver IncrVerif.Proofs IncrVerif.Proofs.Step IncrVerif.Proofs.Sched
open IncrVerif.Proofs.ExpertH.QR IncrVerif.Proofs.Xp

/-! ## frames of the rest of the invariant -/

theorem restKey_of_nodeKey {a b : Node} (h : nodeKey b = nodeKey a) : restKey b = restKey a := by
  simp only [nodeKey, Prod.mk.injEq] at h
  simp only [restKey, Prod.mk.injEq]
  exact ⟨h.1, h.2.2.2.1, h.2.2.2.2.2.1, h.2.2.2.2.2.2.1, h.2.2.2.2.2.2.2.1, h.2.2.2.2.2.2.2.2.2⟩

theorem qKey_of_cframe {S S' : State} (h : CFrame S S') (hp : S'.propagateInvalidity = S.propagateInvalidity)
    (hh : S'.handleAfterStab = S.handleAfterStab) : qKey S' = qKey S ∧ S'.vars = S.vars := by
  have := h.key
  simp only [stateKey, Prod.mk.injEq] at this
  obtain ⟨h1, h2, h3, h4, -, -, h7, h8, h9, h10, -, h12, -, h14, -⟩ := this
  refine ⟨?_, h1⟩
  simp only [qKey, Prod.mk.injEq]
  exact ⟨h3, h4, h14, h7, h8, hh, hp, h12, h2, h9, h10⟩

theorem qKey_of_hrel {S S' : State} (h : HRel S S') : qKey S' = qKey S := by
  obtain ⟨m1, m2, m3, m4, -, m6, m7⟩ := h.misc
  simp only [qKey, Prod.mk.injEq]
  exact ⟨h.stabNum, h.status, m7, m1, m2, m6, h.pinv, h.top, h.observers, m3, m4⟩

theorem inserted_restKey (n : Nat) (x : Int) (S : State) (m : Nat) :
    restKey ((inserted n x S).nodeD m) = restKey (S.nodeD m) := by
  rw [inserted_nodeD]; split <;> rfl

/-! ## the kind of the expert's virtual node -/

section
variable {env : Env} {s : State} {n e c : Nat} {nd : Node} {er : ExpertRec} {cb : Bool}

theorem virt_kids_expert (hk : (s.nodeD n).kind = .expert e) (hx : s.experts[e]? = some er) :
    kids ((virt s).nodeD n).kind = er.children.map (·.child) := by
  rw [virt_kids, hk]; simp only [kidsX, xRec_some hx]

theorem kids_addedKind (er : ExpertRec) (c : Nat) : kids (addedKind er c) = er.children.map (·.child) ++ [c] := rfl

theorem staleOf_added {S2 : State} (R : Rekind n (addedKind er c) (virt s) S2) : staleOf S2 n = true := by
  unfold staleOf
  rw [R.kind_self, R.rec_self]
  simp [addedKind]

theorem kidsX_added_other (F : XFrag env s) (hk : (s.nodeD n).kind = .expert e) {m : Nat} (hm : m ≠ n) :
    kidsX (addedState e er c cb s).experts ((addedState e er c cb s).nodeD m).kind =
      kidsX s.experts (s.nodeD m).kind := by
  rw [addedState_nodeD]
  cases hkm : (s.nodeD m).kind <;> try rfl
  rename_i e'
  have : e' ≠ e := by intro h; rw [h] at hkm; exact hm (F.xinj hkm hk)
  simp only [kidsX, addedState_xRec_ne this]

theorem kidsX_added_self (hk : (s.nodeD n).kind = .expert e) (hx : s.experts[e]? = some er) :
    kidsX (addedState e er c cb s).experts ((addedState e er c cb s).nodeD n).kind =
      kidsX s.experts (s.nodeD n).kind ++ [c] := by
  rw [addedState_nodeD, hk]
  simp only [kidsX, addedState_xRec hx, xRec_some hx, List.map_append, List.map_cons, List.map_nil, newEdge]

/-- the rank and the static facts of the virtual state after the edge was added -/
theorem allStatic_added {rk : Nat → Nat} (F : XFrag env s) (A : AllStatic (virtEnv env) rk (virt s))
    (hk : (s.nodeD n).kind = .expert e) (hx : s.experts[e]? = some er)
    (hc : c < s.nodes.size) (hacyc : ¬ Below s c n) :
    ∃ rk', AllStatic (virtEnv env) rk' (virt (addedState e er c cb s)) := by
  have hlt := F.lt_of_expert hk
  obtain ⟨rk', R2⟩ := (rankOK_of_allStatic A).addEdge (s' := addedState e er c cb s) hlt hc hacyc rfl
    (fun m hm => kidsX_added_other F hk hm) (kidsX_added_self hk hx)
  have P : PlainNodes s := plainNodes_of_allStatic A
  have P2 : PlainNodes (addedState e er c cb s) := P
  exact ⟨rk', allStatic_virt (F.added hx) R2 P2⟩

end

/-! ## the node is not necessary -/

theorem addDep_unnec {env : Env} {rk : Nat → Nat} {s s' : State} {fuel n c e dep : Nat} {cb : Bool} {nd : Node}
    {er : ExpertRec} (F : XFrag env s) (Q : QInv (virtEnv env) rk (virt s)) (hA : AhhEmpty s)
    (hx : IsExpert s n nd e er) (hnec : nd.isNecessary = false)
    (hc : c < s.nodes.size) (hacyc : ¬ Below s c n)
    (h : (expertAddDependency env fuel n c cb).run.run s = (.ok dep, s')) :
    ∃ rk', XFrag env s' ∧ QInv (virtEnv env) rk' (virt s') ∧ AhhEmpty s' ∧ s' = addedState e er c cb s := by
  have hD : s.nodeD n = nd := nodeD_of_some hx.node
  have hk : (s.nodeD n).kind = .expert e := by rw [hD]; exact hx.kind
  rw [expertAddDependency_unnecessary env fuel n c cb hx hnec] at h
  have e' : s' = addedState e er c cb s := by cases h; rfl
  subst e'
  obtain ⟨rk', A2⟩ := allStatic_added (cb := cb) F Q.struct.static hk hx.xrec hc hacyc
  have R := rekind_added (c := c) (cb := cb) F hk hx.xrec
  have hn : (virt s).isNecessary n = false := by
    rw [virt_isNecessary]; simp only [State.isNecessary, hD]; exact hnec
  have hko : ∀ c', ((virt s).nodeD n).kind ≠ .var c' := by
    intro c'; rw [virt_nodeD, virtNode_kind, hk]; simp [virtKind]
  refine ⟨rk', F.added hx.xrec, ?_, ahhEmpty_of_ahf hA (AhF.of_nodes rfl rfl), rfl⟩
  exact QInv.rekind_unnec Q R A2 hn (staleOf_added R) (fun c' => by simp [addedKind]) hko

/-! ## the node is necessary -/

set_option maxHeartbeats 1000000 in
theorem addDep_nec {env : Env} {rk : Nat → Nat} {s s' : State} {fuel n c e dep : Nat} {cb : Bool} {nd : Node}
    {er : ExpertRec} (F : XFrag env s) (Q : QInv (virtEnv env) rk (virt s)) (hA : AhhEmpty s)
    (hx : IsExpert s n nd e er) (hnec : nd.isNecessary = true)
    (hc : c < s.nodes.size) (hacyc : ¬ Below s c n)
    (h : (expertAddDependency env fuel n c cb).run.run s = (.ok dep, s')) :
    ∃ rk', XFrag env s' ∧ QInv (virtEnv env) rk' (virt s') ∧ AhhEmpty s' := by
  have hD : s.nodeD n = nd := nodeD_of_some hx.node
  have hk : (s.nodeD n).kind = .expert e := by rw [hD]; exact hx.kind
  have hlt := F.lt_of_expert hk
  rw [expertAddDependency_necessary_factor env fuel n c cb hx hnec] at h
  -- the bookkeeping step, in the virtual state
  obtain ⟨rk', A2⟩ := allStatic_added (cb := cb) F Q.struct.static hk hx.xrec hc hacyc
  have R := rekind_added (c := c) (cb := cb) F hk hx.xrec
  have F2 : XFrag env (addedState e er c cb s) := F.added hx.xrec
  have hnn : (virt s).isNecessary n = true := by
    rw [virt_isNecessary]; simp only [State.isNecessary, hD]; exact hnec
  have hkids0 : kids ((virt s).nodeD n).kind = er.children.map (·.child) := virt_kids_expert hk hx.xrec
  have hst2 := staleOf_added R
  have I2 := GInv.open_extend Q.struct R A2 hnn (c := c) (by rw [hkids0]; rfl) hst2
  have hklen : (kids ((virt s).nodeD n).kind).length = er.children.length := by rw [hkids0, List.length_map]
  rw [hklen] at I2
  generalize hs2 : addedState e er c cb s = s2 at h R F2 A2 I2 hst2
  have hkind2 : ((virt s2).nodeD n).kind = addedKind er c := R.kind_self
  have hkid2 : (kids ((virt s2).nodeD n).kind)[er.children.length]? = some c := by
    rw [hkind2, kids_addedKind]
    rw [List.getElem?_append_right (by rw [List.length_map]; exact Nat.le_refl _)]
    simp
  have hother2 : ∀ c' i, (n, i) ∈ ((virt s2).nodeD c').parents →
      ((virt s2).nodeD c').height < ((virt s2).nodeD n).height := by
    intro c' i hm
    rw [R.parents] at hm
    rw [R.height, R.height]; exact Q.struct.hlt c' n i hm rfl
  have hg2 : ((virt s2).nodeD n).inRch = true → ((virt s2).nodeD n).heightInRch = ((virt s2).nodeD n).height := by
    intro hq
    rw [R.inRch] at hq
    rw [R.heightInRch, R.height]; exact Q.struct.hgt n hq rfl
  have h02 : 0 ≤ ((virt s2).nodeD n).height := by rw [R.height]; exact Q.struct.hpos n hnn rfl
  have QR2 : QRest (virtEnv env) (virt s2) :=
    QRest.rekind (QInv.rest Q) R hst2 (fun c' => by simp [addedKind])
      (fun c' => by rw [virt_nodeD, virtNode_kind, hk]; simp [virtKind])
  have hp2 : s2.propagateInvalidity = [] := QR2.pinv
  have fr2 : Fr s2 := F2.fr hp2
  have hA2 : AhhEmpty s2 := by rw [← hs2]; exact ahhEmpty_of_ahf hA (AhF.of_nodes rfl rfl)
  have hnum2 : ∀ m, (s2.nodeD m).numOnUpdateHandlers ≤ 0 := fun m => by
    have := QR2.handlers m; rwa [virt_nodeD] at this
  -- peel the run
  obtain ⟨_, s5, hsap, h⟩ := bind_ok_inv h
  unfold stateAddParent at hsap
  rw [run_bind_get] at hsap
  replace hsap := bind_dassert_inv hsap
  obtain ⟨_, s3, hap, hsap⟩ := bind_ok_inv hsap
  -- the linking cascade
  obtain ⟨hv3, fr3⟩ := Sim.addParentWithoutAdjustingHeights env fuel c er.children.length n s2 fr2 _ s3 hap
  obtain ⟨I3, hn3, cf3, hp3, hedge3, hother3⟩ := link_phase I2 hkid2 hother2 hv3
  have hA3 : AhhEmpty s3 :=
    ahhEmpty_of_ahf hA2 ((PresAh.addParentWithoutAdjustingHeights env fuel c er.children.length n).h _ _ _ hap)
  have xf3 : XF s2 s3 := (PresX.addParentWithoutAdjustingHeights env fuel c er.children.length n).h _ _ _ hap
  have hf3 := (PresH.addParentWithoutAdjustingHeights env fuel c er.children.length n).h _ _ _ hap hnum2
  obtain ⟨hk3, hvars3⟩ := qKey_of_cframe cf3 hp3 (by show s3.handleAfterStab = s2.handleAfterStab; exact hf3.1)
  have QR3 : QRest (virtEnv env) (virt s3) :=
    QR2.frame cf3.size (fun m => restKey_of_nodeKey (cf3.node m)) hvars3 hk3
  have hkind3 : ((virt s3).nodeD n).kind = addedKind er c := by rw [hn3]; exact hkind2
  have hop3 : upd allClosed n (.linking (er.children.length + 1)) n = .linking (er.children.length + 1) :=
    upd_self ..
  -- heights
  obtain ⟨cn, hcn, hsap⟩ := bind_getNode_inv hsap
  obtain ⟨pn, hpn, hsap⟩ := bind_getNode_inv hsap
  have hcD : (virt s3).nodeD c = virtNode s3.experts cn := by rw [virt_nodeD, nodeD_of_some hcn]
  have hpD : (virt s3).nodeD n = virtNode s3.experts pn := by rw [virt_nodeD, nodeD_of_some hpn]
  dsimp only at hsap
  -- after the height phase: a state `s4` with all edges into `n` going upwards
  have key : ∃ s4, Fr s4 ∧ AhhEmpty s4 ∧ XF s3 s4 ∧
      GInv (virtEnv env) rk' (virt s4) (upd allClosed n (.linking (er.children.length + 1))) ∧
      (∀ c' i, (n, i) ∈ ((virt s4).nodeD c').parents →
        ((virt s4).nodeD c').height < ((virt s4).nodeD n).height) ∧
      (((virt s4).nodeD n).inRch = true → ((virt s4).nodeD n).heightInRch = ((virt s4).nodeD n).height) ∧
      0 ≤ ((virt s4).nodeD n).height ∧
      (virt s4).nodes.size = (virt s3).nodes.size ∧
      (∀ m, restKey ((virt s4).nodeD m) = restKey ((virt s3).nodeD m)) ∧
      (virt s4).vars = (virt s3).vars ∧ qKey (virt s4) = qKey (virt s3) ∧
      (do propagateInvalidity fuel
          dassert ((← get).isNecessary n) "node:state_add_parent:parent-necessary"
          let p ← getNode n
          let c ← getNode c
          if !p.inRch && (p.recomputedAt == -1 || c.changedAt > p.recomputedAt) then
            rchInsert n : M Unit).run.run s4 = (.ok (), s5) := by
    have hg3 : ((virt s3).nodeD n).inRch = true →
        ((virt s3).nodeD n).heightInRch = ((virt s3).nodeD n).height := by rw [hn3]; exact hg2
    have h03 : 0 ≤ ((virt s3).nodeD n).height := by rw [hn3]; exact h02
    by_cases hge : cn.height ≥ pn.height
    · rw [if_pos hge] at hsap
      obtain ⟨_, s4, hadj, hsap⟩ := bind_ok_inv hsap
      obtain ⟨hv4, fr4⟩ := Sim.adjustHeights c n fuel s3 fr3 _ s4 hadj
      have hopen : upd allClosed n (.linking (er.children.length + 1)) n =
          .linking (kids ((virt s3).nodeD n).kind).length := by
        rw [hop3, hkind3, kids_addedKind]; simp
      obtain ⟨I4, hA4, hr, hh4, hg4⟩ := adjustHeights_specR hv4 I3 hopen
        (fun m hm => upd_other _ _ _ hm) ⟨_, hedge3⟩ hother3 hg3 h03 (ahhEmpty_virt.2 hA3)
      refine ⟨s4, fr4, ahhEmpty_virt.1 hA4, (PresX.adjustHeights c n fuel).h _ _ _ hadj, I4, hh4, hg4,
        Int.le_trans h03 (hr.height n), hr.size, fun m => restKey_of_nodeKey (hr.node m), hr.vars,
        qKey_of_hrel hr, hsap⟩
    · rw [if_neg hge] at hsap
      refine ⟨s3, fr3, hA3, XF.refl _, I3, ?_, hg3, h03, rfl, fun _ => rfl, rfl, rfl, hsap⟩
      intro c' i hm
      by_cases hcc : c' = c
      · rw [hcc, hcD, hpD]
        show cn.height < pn.height
        omega
      · exact hother3 c' i hm hcc
  obtain ⟨s4, fr4, hA4, xf4, I4, hh4, hg4, h04, hsz4, hrk4, hvars4, hk4, hjp⟩ := key
  have QR4 : QRest (virtEnv env) (virt s4) := QR3.frame hsz4 hrk4 hvars4 hk4
  have hkind4 : ((virt s4).nodeD n).kind = addedKind er c := by
    have := hrk4 n; simp only [restKey, Prod.mk.injEq] at this; rw [this.1]; exact hkind3
  have hrec4 : ((virt s4).nodeD n).recomputedAt = -1 := by
    have := hrk4 n; simp only [restKey, Prod.mk.injEq] at this
    rw [this.2.2.1, hn3]; exact R.rec_self
  have hst4 : staleOf (virt s4) n = true := by
    unfold staleOf; rw [hkind4, hrec4]; simp [addedKind]
  have hlen4 : (kids ((virt s4).nodeD n).kind).length ≤ er.children.length + 1 := by
    rw [hkind4, kids_addedKind]; simp
  -- the end of the call
  obtain ⟨-, hcase⟩ := finish_phase hjp h fr4.pinv
  rcases hcase with ⟨hq, rfl⟩ | ⟨hnq, hins⟩
  · have S' := close_phase I4 hlen4 hh4 h04 hg4 hst4
      (Or.inl ⟨by rw [virt_nodeD]; exact hq, rfl⟩)
    exact ⟨rk', F2.of_xf (xf3.trans xf4) fr4, QR4.inv S', hA4⟩
  · obtain ⟨hv6, fr6⟩ := Sim.rchInsert n s4 fr4 _ s' hins
    have S' := close_phase I4 hlen4 hh4 h04 hg4 hst4
      (Or.inr ⟨by rw [virt_nodeD]; exact hnq, hv6⟩)
    obtain ⟨nd6, -, -, -, e6⟩ := rchInsert_ok_inv hv6
    have QR6 : QRest (virtEnv env) (virt s') := by
      rw [e6]
      exact QR4.frame (Array.size_modify ..) (fun m => inserted_restKey n _ _ m) rfl rfl
    exact ⟨rk', F2.of_xf ((xf3.trans xf4).trans ((PresX.rchInsert n).h _ _ _ hins)) fr6, QR6.inv S',
      ahhEmpty_of_ahf hA4 ((PresAh.rchInsert n).h _ _ _ hins)⟩

end IncrVerif.Proofs.ExpertH
