import IncrVerif.Proofs.NestH73
import IncrVerif.Proofs.NestH65
import IncrVerif.Proofs.BindH105
/-!
# Nested binds (F2), part 5g3: "generations are current" (`GenOK2`) through `stabilise` and the API actions; observers read the from-scratch value `den2`

Port of `BindH105` (`C3g3`).  `C3g.NBT` (nodes, bind table and naming table unchanged), `C3g.presN_observe/cloneObs/dropObs/disallow`, `C3g.push_mono` are generic and
reused.  All theorems about `stabilise` are under the four contracts `ClosureSpec2`, `RelinkSpec2`, `InvalSpec2`, `ClosureElabSpec2`.

* `stabilise_gen2`: the observer prefix and `stabiliseEnd` keep everything `GenOK2` reads; the drain keeps `GenOK2` (`drainHeap_gen2`);
* `step_gen2`: every API action of the fragment keeps `GenOK2` (a new bind's change detector has never run, hence is stale: no obligation);
* `genOK2_init`;
* `stabilise_reads_den2`: after a `stabilise` every in-use observer reads the from-scratch value `den2` of the node it watches.
-/
namespace IncrVerif.Proofs.NestH
open IncrVerif.Engine IncrVerif.Driver IncrVerif.Proofs IncrVerif.Proofs.Step IncrVerif.Proofs.Sched IncrVerif.Proofs.Quiet
open IncrVerif.Proofs.BindH

/-! ## `stabilise` -/

set_option maxHeartbeats 800000 in
/-- **`stabilise` keeps `GenOK2`** -/
theorem stabilise_gen2 {env : Env} (CS : ClosureSpec2 env) (RS : RelinkSpec2 env) (IS : InvalSpec2 env)
    (ES : ClosureElabSpec2 env) {fuel : Nat} {s s' : State} (Q : QI2 env s) (G : GenOK2 env s)
    (h : (stabilise env fuel).run.run s = (.ok (), s')) : GenOK2 env s' := by
  obtain ⟨rk, Q⟩ := Q
  unfold stabilise at h
  rw [run_bind_get] at h
  obtain ⟨_, sa, ha, h⟩ := bind_ok_inv h
  have hsa : sa = s := by
    rw [run_assertM] at ha
    split at ha <;> cases ha
    rfl
  rw [hsa] at h
  obtain ⟨s0, hs0, h⟩ := bind_modify_inv h
  obtain ⟨_, t1, h1, h⟩ := bind_ok_inv h
  obtain ⟨_, t2, h2, h⟩ := bind_ok_inv h
  obtain ⟨_, t3, h3, h4⟩ := bind_ok_inv h
  have S0 : SInv2 env rk s0 s0.newObservers s0.disallowedObservers := by
    have I0 : SInv2 env rk s s.newObservers s.disallowedObservers := SInv2.of_qinv2 Q
    rw [hs0]
    exact N4p.sInv2_congr I0 rfl rfl rfl rfl rfl rfl rfl rfl
  -- the prefix (keeps the rank)
  obtain ⟨S1, hn1, hd1, F1, O1, -⟩ := addNewObservers_s2 S0 h1
  have M1 := addNewObservers_marks2 S0 h1
  obtain ⟨S2, hn2, hd2, F2, O2⟩ := unlinkDisallowedObservers_s2 S1 hn1 h2
  have M2 := unlinkDisallowedObservers_marks2 S1 hn1 h2
  have F : C2s.PreF s t2 := C2s.PreF.of hs0 (F1.trans F2) (fun m => (M2 m).trans (M1 m))
  obtain ⟨D2, A2⟩ := N4s.drain_start2 Q F S2
  have G2 : GenOK2 env t2 :=
    N5g.genOK2_frame G Q.f2.frag F.binds F.top F.kind F.valid F.recomputedAt F.changedAt F.value
  -- the drain (re-chooses the rank)
  have X2 : AuxS2 env t2 t2 := ⟨⟨rk, A2⟩, DKey.refl _, NKey.refl _⟩
  obtain ⟨D3, ⟨⟨rk3, A3⟩, K3, N3⟩, G3, he3, f3⟩ := drainHeap_gen2 CS RS IS ES D2 X2 G2 h3
  obtain ⟨V3, O3, T3⟩ := N4s.after_drain2 A3 K3 N3 f3.vars (F.varsOK Q.vars) S2.obs S2.obsTop
  -- the end (keeps the rank)
  have hsd : t3.setDuringStab = [] := by rw [K3.setDuringStab, F.setDuringStab]; exact Q.setDuringStab
  have hdv : t3.deadVars = [] := by rw [K3.deadVars, F.deadVars]; exact Q.deadVars
  have hoh : ∀ (o : Nat) (ob : ObsRec), t3.observers[o]? = some ob → ob.handlers = [] :=
    fun o ob ho => (O3.inRange o ob ho).2
  have E := stabiliseEnd_fin (env := env) (fuel := fuel) hsd hdv hoh h4
  have hb := C2s.stabiliseEnd_binds hsd hdv hoh h4
  have hno3 : t3.newObservers = [] := by rw [K3.newObservers]; exact hn2
  have hdo3 : t3.disallowedObservers = [] := by rw [K3.disallowedObservers]; exact hd2
  obtain ⟨-, GG, hval⟩ := N4s.qinv2_end D3 A3 E hb V3 O3 hno3 hdo3 T3
    (by rw [K3.alive, F.alive]; exact Q.alive)
  have K := BL.KeyEq.of_same GG
  exact N5g.genOK2_frame G3 A3.frag hb E.top K.kind K.valid K.recomputedAt K.changedAt hval

/-! ## the API actions -/

namespace N5g

theorem NBT_gen2 {env : Env} {rk : Nat → Nat} {s s' : State} {dy : List Nat} (F : C3g.NBT s s') (A : All2 env rk s dy)
    (G : GenOK2 env s) : GenOK2 env s' := by
  have hnd : ∀ m, s'.nodeD m = s.nodeD m := fun m => by simp [State.nodeD, F.nodes]
  exact genOK2_frame G A F.binds F.top (fun m => by rw [hnd]) (fun m => by rw [hnd]) (fun m => by rw [hnd])
    (fun m => by rw [hnd]) (fun m => by rw [hnd])

/-- a write keeps `GenOK2`: it changes a cell, not the stored value or a stamp of a node -/
theorem writeVar_gen2 {env : Env} {rk : Nat → Nat} {s s' : State} {v : Nat} {f : Val → Val} {isSet : Bool} {r : Val}
    (Q : QInv2 env rk s) (G : GenOK2 env s) (h : (writeVar v f isSet).run.run s = (.ok r, s')) : GenOK2 env s' := by
  obtain ⟨vc, hv⟩ := writeVar_ok_cell h
  have hst : s.status ≠ .stabilising := by rw [Q.status]; intro e; cases e
  obtain ⟨hr, hs', -, -, hh⟩ := writeVar_outside_ok v f isSet s s' vc r hv hst h
  obtain ⟨R, -⟩ := N4w.wroteOutside_q (f vc.value) Q hv hh
  rw [← hs'] at R
  exact genOK2_frame G Q.f2.frag R.binds R.top R.kind R.valid R.recomputedAt R.changedAt R.value

/-- node creation keeps `GenOK2`: old nodes and records are untouched, the naming table only grows, and the change detector of a new bind is stale -/
theorem ext_gen2 {env : Env} {rk : Nat → Nat} {s s1 : State} (Q : QInv2 env rk s) (G : GenOK2 env s) (E : C2c.Ext s s1)
    (htop : ∀ (k n : Nat), s.top[k]? = some n → s1.top[k]? = some n)
    (hnew : ∀ (b : Nat) (br : BindRec), s.binds.size ≤ b → s1.binds[b]? = some br →
      s1.isStale br.lhsChange = true) : GenOK2 env s1 := by
  have A := Q.f2.frag
  refine genOK2_transfer G htop ?_
  intro b br hb hvl hst
  by_cases hlt : b < s.binds.size
  · rw [E.bold b hlt] at hb
    have f1 := A.lc_lt hb
    rw [E.old _ f1] at hvl
    obtain ⟨-, -, -, f4, -⟩ := rec_facts2 A hb hvl
    refine ⟨hb, hvl, ?_, ?_, ?_, ?_⟩
    · rw [← N4c.isStale_old2 E A Q.vars f1]; exact hst
    · rw [E.old br.lhs f4]
    · intro m hm
      rw [E.old m ((A.gen b br hb m).1 (Or.inl hm)).1]
    · intro b2 br2 k1 _
      exact ⟨br2, by rw [E.bold b2 (NC.lt_of_getElem?_some k1)]; exact k1, RecSame.refl _⟩
  · rw [hnew b br (by omega) hb] at hst; cases hst

theorem create_gen2 {env : Env} {rk : Nat → Nat} {s s' : State} {i : Instr} {tokens : Array Nat} {r : String × Array Nat}
    (Q : QInv2 env rk s) (G : GenOK2 env s) (hi : InstrTop2 env s.top.size i)
    (h : (stepAction env (.create i) tokens).run.run s = (.ok r, s')) : GenOK2 env s' := by
  have hsc := Q.struct.frag.scope
  unfold stepAction at h
  simp only at h
  obtain ⟨ro, s1, h1, h2⟩ := bind_ok_inv h
  by_cases hb : ∃ body lhs, i = .bind body lhs
  · obtain ⟨body, lhs, ei⟩ := hb
    rw [ei] at hi h1
    obtain ⟨⟨k, ek⟩, hB⟩ := hi
    rw [ek] at h1
    obtain ⟨l, hl, ero, C⟩ := C2c.elab_bind1 hsc h1
    rw [ero] at h2
    simp only at h2
    obtain ⟨s2, e2, h3⟩ := bind_modify_inv h2
    obtain ⟨-, e3⟩ := pure_ok_inv h3
    rw [e3, e2]
    refine ext_gen2 Q G (C.ext.withTop _ _) ?_ ?_
    · show ∀ (k n : Nat), s.top[k]? = some n → (s1.top.push _)[k]? = some n
      rw [C.top]; exact C3g.push_mono _
    · intro b br hge hbr
      have hbr' : s1.binds[b]? = some br := hbr
      obtain ⟨-, e⟩ := C.bind_inv hge hbr'
      rw [e]
      show s1.isStale s.nodes.size = true
      exact C.stale_lc
  · have hst : StaticInstr env i := by
      cases i <;> first | exact hi | exact (hb ⟨_, _, rfl⟩).elim
    obtain ⟨k, ero, hk, hkids, C⟩ := C2c.elab_static1 hsc hst h1
    rw [ero] at h2
    simp only at h2
    obtain ⟨s2, e2, h3⟩ := bind_modify_inv h2
    obtain ⟨-, e3⟩ := pure_ok_inv h3
    rw [e3, e2]
    refine ext_gen2 Q G (C.ext.withTop _ _) ?_ ?_
    · show ∀ (k n : Nat), s.top[k]? = some n → (s1.top.push _)[k]? = some n
      rw [C.top]; exact C3g.push_mono _
    · intro b br hge hbr
      exfalso
      have hbr' : s1.binds[b]? = some br := hbr
      rw [C.binds] at hbr'
      have := (Array.getElem?_eq_some_iff.1 hbr').1
      omega

end N5g

/-- **every API action of the fragment keeps `GenOK2`** -/
theorem step_gen2 {env : Env} (CS : ClosureSpec2 env) (RS : RelinkSpec2 env) (IS : InvalSpec2 env)
    (ES : ClosureElabSpec2 env) {s s' : State} {a : Action} {tokens : Array Nat} {r : String × Array Nat}
    (Q : QI2 env s) (G : GenOK2 env s) (ha : ActionF2 env s.top.size a)
    (h : (stepAction env a tokens).run.run s = (.ok r, s')) : GenOK2 env s' := by
  cases a <;> try exact ha.elim
  case stabilise =>
    unfold stepAction at h
    dsimp only at h
    obtain ⟨_, s1, h1, h2⟩ := bind_ok_inv h
    obtain ⟨-, e2⟩ := pure_ok_inv h2
    rw [e2]; exact stabilise_gen2 CS RS IS ES Q G h1
  all_goals obtain ⟨rk, Q⟩ := Q
  all_goals have A := Q.f2.frag
  case create i => exact N5g.create_gen2 Q G ha h
  case observe n => exact N5g.NBT_gen2 ((C3g.presN_observe env n tokens).h s _ s' h) A G
  case cloneObs o => exact N5g.NBT_gen2 ((C3g.presN_cloneObs env o tokens).h s _ s' h) A G
  case dropObs o => exact N5g.NBT_gen2 ((C3g.presN_dropObs env o tokens).h s _ s' h) A G
  case disallow o => exact N5g.NBT_gen2 ((C3g.presN_disallow env o tokens).h s _ s' h) A G
  case set v x =>
    unfold stepAction at h
    dsimp only at h
    obtain ⟨_, s1, h1, h2⟩ := bind_ok_inv h
    obtain ⟨-, e2⟩ := pure_ok_inv h2
    obtain ⟨r1, h1⟩ := discard_ok_inv h1
    rw [e2]; exact N5g.writeVar_gen2 Q G h1
  case modify v d =>
    unfold stepAction at h
    dsimp only at h
    obtain ⟨_, s1, h1, h2⟩ := bind_ok_inv h
    obtain ⟨-, e2⟩ := pure_ok_inv h2
    obtain ⟨r1, h1⟩ := discard_ok_inv h1
    rw [e2]; exact N5g.writeVar_gen2 Q G h1
  case update v d =>
    unfold stepAction at h
    dsimp only at h
    obtain ⟨_, s1, h1, h2⟩ := bind_ok_inv h
    obtain ⟨-, e2⟩ := pure_ok_inv h2
    obtain ⟨r1, h1⟩ := discard_ok_inv h1
    rw [e2]; exact N5g.writeVar_gen2 Q G h1
  case replace v x =>
    unfold stepAction at h
    dsimp only at h
    obtain ⟨_, s1, h1, h2⟩ := bind_ok_inv h
    obtain ⟨-, e2⟩ := pure_ok_inv h2
    rw [e2]; exact N5g.writeVar_gen2 Q G h1
  case replaceWith v d =>
    unfold stepAction at h
    dsimp only at h
    obtain ⟨_, s1, h1, h2⟩ := bind_ok_inv h
    obtain ⟨-, e2⟩ := pure_ok_inv h2
    rw [e2]; exact N5g.writeVar_gen2 Q G h1
  case get v =>
    unfold stepAction at h
    dsimp only at h
    obtain ⟨_, s1, h1, h2⟩ := bind_ok_inv h
    obtain ⟨-, e2⟩ := pure_ok_inv h2
    rw [e2, getVar_ok_inv h1]; exact G
  case isStable =>
    unfold stepAction at h
    dsimp only at h
    rw [run_bind_get] at h
    obtain ⟨-, e2⟩ := pure_ok_inv h
    rw [e2]; exact G
  case stats =>
    unfold stepAction at h
    dsimp only at h
    obtain ⟨-, e2⟩ := pure_ok_inv h
    rw [e2]; exact G

/-- the initial state has no binds -/
theorem genOK2_init (env : Env) (N : Nat) (d : Bool) : GenOK2 env (State.init N d) := by
  intro b br hb
  have : (State.init N d).binds = #[] := rfl
  rw [this] at hb
  simp at hb

/-! ## what observers read -/

/-- **after a `stabilise` every in-use observer reads the from-scratch value of the node it watches**: evaluate the lhs of each bind, run the closure on that value,
evaluate the template it returns, nested binds recursively (`den2`; no node created by a closure is looked at) -/
theorem stabilise_reads_den2 {env : Env} (CS : ClosureSpec2 env) (RS : RelinkSpec2 env) (IS : InvalSpec2 env)
    (ES : ClosureElabSpec2 env) {fuel : Nat} {s s' : State} (Q : QI2 env s) (G : GenOK2 env s)
    (h : (stabilise env fuel).run.run s = (.ok (), s')) :
    ∀ (o : Nat) (ob : ObsRec), s'.observers[o]? = some ob → ob.state = .inUse →
      ∃ v, s'.tryGetValue env o = .ok v ∧ ∃ K, ∀ k, K ≤ k → den2 env s' k ob.node = some v := by
  have H : LcStepF2 env := fun _ _ _ _ _ _ _ I A hk h => recomputeOne_lcF2 CS RS IS I A hk h
  have R := stabilise_F2 H Q h
  have G' := stabilise_gen2 CS RS IS ES Q G h
  obtain ⟨rk', Q'⟩ := R.inv
  obtain ⟨hreads, -⟩ := stabilised_reads2 R
  have O' : ObsInv s' [] [] := by
    have := Q'.obs
    unfold ObsOK at this
    rw [R.newObservers, R.disallowedObservers] at this
    exact this
  have hall : ∀ m, s'.isNecessary m = true → s'.isStale m = false ∧ ConsistentB env s' m := by
    intro m hm
    obtain ⟨k1, k2, -⟩ := R.values m hm ((s'.nodeD m).height.toNat + 1) (Nat.lt_succ_self _)
    exact ⟨k2, Q'.cons m (Q'.bgraph.nec_lt hm) k1 k2⟩
  intro o ob ho hst
  have hmem : o ∈ (s'.nodeD ob.node).observers := (O'.mem ob.node o).2 ⟨ob, ho, rfl, Or.inl hst⟩
  have hn : s'.isNecessary ob.node = true := by
    rw [isNecessary_iff]; right; left; exact List.ne_nil_of_mem hmem
  obtain ⟨-, -, hv, -⟩ := R.values ob.node hn ((s'.nodeD ob.node).height.toNat + 1) (Nat.lt_succ_self _)
  obtain ⟨v, hread, hev⟩ := hreads o ob ho hst ((s'.nodeD ob.node).height.toNat + 1) (Nat.lt_succ_self _)
  obtain ⟨K, w, hw, hden⟩ := den2_of_consistent Q'.bgraph Q'.f2 G' hall ob.node hn (Q'.obsTop o ob ho).1
  refine ⟨v, hread, K, fun k hk => ?_⟩
  rw [hden k hk, ← hw, hv, hev]

end IncrVerif.Proofs.NestH
