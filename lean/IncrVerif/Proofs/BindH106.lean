import IncrVerif.Proofs.BindH13
/-!
# Binds, part 3h: the drain invariant implies the invariants of the ordering lemma (B1)
-/
namespace IncrVerif.Proofs.BindH
open IncrVerif.Engine IncrVerif.Proofs IncrVerif.Proofs.Step IncrVerif.Proofs.Sched

/-- the hypotheses of `pop_order` / `handover_order` / `queued_blocks_handover` follow from the drain invariant -/
theorem DInv.orderInv {env : Env} {s : State} {x : Option Nat} (I : DInv env s x)
    (hrec : ∀ (b : Nat) (br : BindRec), s.binds[b]? = some br → (s.nodeD br.lhsChange).kind = .bindLhsChange b) :
    OrderInv s x where
  heap := I.heap
  scope n b br hv hn hsc hb := by
    obtain ⟨br', hb', h1, -, h2⟩ := I.graph.scope n b (I.graph.nec_lt hn) hv hsc
    rw [hb] at hb'; cases hb'
    exact ⟨h1, (h2 hn).2⟩
  scopeNec n b br hv hn hsc hb := by
    obtain ⟨br', hb', -, -, h2⟩ := I.graph.scope n b (I.graph.nec_lt hn) hv hsc
    rw [hb] at hb'; cases hb'
    exact (h2 hn).1
  pending := I.pending
  mainLc p b' lc' hv hn hk := by
    have hp := I.graph.nec_lt hn
    obtain ⟨br, hb, hm, hl, hsc⟩ := I.graph.mainRec p b' lc' hp hv hk
    have hc : lc' ∈ s.children p := by
      unfold State.children Node.kind?
      rw [hv, hk]
      simp only [if_true, hb]
      cases br.rhs <;> simp
    obtain ⟨h1, h2⟩ := (I.graph.node p hp hv).2.2 lc' hc
    exact ⟨h1, h2, (I.graph.edge_nec hn (Edge.child hc)).1, hsc⟩
  lcPar b br p i hb hpar hsc := by
    obtain ⟨hpn, hk⟩ := I.graph.parent br.lhsChange p i hpar
    have hp := I.graph.nec_lt hpn
    have hv := (I.graph.nec p hpn).1
    -- `p` has the change detector as a child and was created in its scope: a cycle
    have h1 : Edge s p br.lhsChange := Edge.child (List.mem_of_getElem? hk)
    have h2 : Edge s p br.lhsChange := Edge.scope hv hsc hb
    -- the child edge makes the change detector lower than `p`; the main node `p` and the change detector live in the same scope
    obtain ⟨hcl, hcv⟩ := I.graph.edge_target h1
    have hkd := hrec b br hb
    have hpk := I.graph.lcChild p br.lhsChange b hp hv (List.mem_of_getElem? hk) hkd
    obtain ⟨br2, hb2, -, -, hsc2⟩ := I.graph.mainRec p b br.lhsChange hp hv hpk
    -- the change detector was created in scope `b` too: a self-loop through the virtual edge
    have hself : Edge s br.lhsChange br.lhsChange := Edge.scope hcv (hsc2.trans hsc) hb
    exact I.graph.edge_ne hself rfl

end IncrVerif.Proofs.BindH
