import IncrVerif.Proofs.PerKeyH18
/-! # twin simulation, part 4: the unlinking cascade, `propagate_invalidity` (port of ExpertH26) -/
namespace IncrVerif.Proofs.PerKeyH
open IncrVerif.Engine IncrVerif.Driver IncrVerif.Proofs IncrVerif.Proofs.Step IncrVerif.Proofs.Sched
open IncrVerif.Proofs.ExpertH IncrVerif.Proofs.EffH

theorem TSim.unlink (fuel : Nat) :
    (∀ n, TSim (becameUnnecessary fuel n) (becameUnnecessary fuel n)) ∧
    (∀ n, TSim (checkIfUnnecessary fuel n) (checkIfUnnecessary fuel n)) ∧
    (∀ n, TSim (removeChildren fuel n) (removeChildren fuel n)) := by
  induction fuel with
  | zero =>
    refine ⟨?_, ?_, ?_⟩
    · intro n; apply TSim.ofL; intro s l; unfold becameUnnecessary; tsim
    · intro n; apply TSim.ofL; intro s l; unfold checkIfUnnecessary; tsim
    · intro n; apply TSim.ofL; intro s l; unfold removeChildren; tsim
  | succ fuel ih =>
    refine ⟨?_, ?_, ?_⟩
    · intro n; apply TSim.ofL; intro s l
      unfold becameUnnecessary
      tsim
      all_goals first
        | exact TSim.atL (ih.2.2 _) _ _
        | tsim_kind
    · intro n; apply TSim.ofL; intro s l
      unfold checkIfUnnecessary
      tsim
      all_goals exact TSim.atL (ih.1 _) _ _
    · intro n; apply TSim.ofL; intro s l
      unfold removeChildren
      tsim
      all_goals exact TSim.atL (ih.2.1 _) _ _

theorem TSim.becameUnnecessary (fuel n : Nat) :
    TSim (Engine.becameUnnecessary fuel n) (Engine.becameUnnecessary fuel n) := (TSim.unlink fuel).1 n
theorem TSim.checkIfUnnecessary (fuel n : Nat) :
    TSim (Engine.checkIfUnnecessary fuel n) (Engine.checkIfUnnecessary fuel n) := (TSim.unlink fuel).2.1 n
theorem TSim.removeChildren (fuel n : Nat) :
    TSim (Engine.removeChildren fuel n) (Engine.removeChildren fuel n) := (TSim.unlink fuel).2.2 n
macro_rules | `(tactic| tsim_leaf) => `(tactic|
  with_reducible exact IncrVerif.Proofs.PerKeyH.TSim.becameUnnecessary _ _)
macro_rules | `(tactic| tsim_leaf) => `(tactic|
  with_reducible exact IncrVerif.Proofs.PerKeyH.TSim.checkIfUnnecessary _ _)
macro_rules | `(tactic| tsim_leaf) => `(tactic|
  with_reducible exact IncrVerif.Proofs.PerKeyH.TSim.removeChildren _ _)

/-- `Fr.pinv`: the stack is empty, a no-op on both sides -/
theorem TSim.propagateInvalidity (fuel : Nat) :
    TSim (Engine.propagateInvalidity fuel) (Engine.propagateInvalidity fuel) := by
  intro s hn l r s' hr
  cases fuel with
  | zero => unfold Engine.propagateInvalidity at hr; cases hr
  | succ fuel =>
    unfold Engine.propagateInvalidity at hr ⊢
    rw [run_bind_get] at hr ⊢
    rw [twL_propagateInvalidity]
    rw [hn.pinv] at hr ⊢
    cases hr
    exact ⟨⟨l, rfl⟩, hn⟩
macro_rules | `(tactic| tsim_leaf) => `(tactic|
  with_reducible exact IncrVerif.Proofs.PerKeyH.TSim.propagateInvalidity _)

end IncrVerif.Proofs.PerKeyH
