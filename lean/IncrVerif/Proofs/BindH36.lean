import IncrVerif.Proofs.Invalidation
import IncrVerif.Proofs.BindH30
/-!
# Binds, the run of a change detector in fragment F0, part 1: the run-form skeleton

From `(recomputeOne env fuel n).run.run s = (.ok r, s')` on a `bindLhsChange b` node whose bind's closure creates
no nodes and returns a top-level node: the state `s1 = logged [ev] (started n s)` in which `relink` starts, the
run of `relink`, and the run of the final `maybeChangeValue`.
-/
namespace IncrVerif.Proofs.BindH
open IncrVerif.Engine IncrVerif.Proofs IncrVerif.Proofs.Step IncrVerif.Proofs.Sched IncrVerif.Proofs.Quiet
namespace BC

/-- a template without instructions only resolves its result operand -/
theorem elabTemplate_nil (env : Env) (t : Template) (v : Val) (h : t.instrs = []) :
    elabTemplate env t v = resolveOpnd [] t.ret := by
  unfold elabTemplate
  rw [h]
  simp only [List.forIn_nil, pure_bind]

theorem resolveOpnd_outer_run (loc : List Nat) (k : Nat) (s : State) :
    (resolveOpnd loc (.outer k)).run.run s = match s.top[k]? with
      | some n => (.ok n, s)
      | none => (.error (.site "model:bad-outer"), s) := by
  simp only [resolveOpnd, run_bind_get]
  cases s.top[k]? <;> rfl

/-- resetting a field that is already empty changes nothing -/
theorem bindRec_reset (br : BindRec) (h : br.allNodesCreatedOnRhs = []) :
    { br with allNodesCreatedOnRhs := [] } = br := by
  cases br
  simp only at h
  subst h
  rfl

/-- the bind table after forgetting a list that is empty anyway -/
theorem binds_reset (s : State) (b : Nat)
    (h : ∀ br, s.binds[b]? = some br → br.allNodesCreatedOnRhs = []) :
    s.binds.modify b (fun x => { x with allNodesCreatedOnRhs := [] }) = s.binds := by
  apply Array.ext_getElem?
  intro i
  rw [Array.getElem?_modify]
  split
  · rename_i e
    subst e
    cases hb : s.binds[b]? with
    | none => rfl
    | some br => simp only [Option.map_some]; rw [bindRec_reset br (h br hb)]
  · rfl

/-- the event the closure run logs -/
def lcEvent (n : Nat) (br : BindRec) (v : Val) : Event := .inv s!"b{br.body}" n [v] ""

/-- the state in which `relink` starts -/
def pre (n : Nat) (br : BindRec) (v : Val) (s : State) : State := logged [lcEvent n br v] (started n s)

/-- phase 1 in F0 -/
theorem lhsRunClosure_inv {env : Env} {n b rhs : Nat} {br : BindRec} {s t1 : State}
    (hpc : s.panicCountdown = none)
    (hnil : ∀ br, s.binds[b]? = some br → br.allNodesCreatedOnRhs = [])
    (hcl : ∀ v, (env.body br.body v).instrs = [] ∧ ∃ k, (env.body br.body v).ret = .outer k)
    (h : (Inval.lhsRunClosure env n b br).run.run (started n s) = (.ok rhs, t1)) :
    ∃ v k, (env.body br.body v).ret = .outer k ∧ s.top[k]? = some rhs ∧ t1 = pre n br v s := by
  unfold Inval.lhsRunClosure at h
  simp only [modBind, run_bind_modify] at h
  obtain ⟨v, sA, hA, h⟩ := bind_ok_inv h
  rw [run_valueUnwrap] at hA
  split at hA
  · cases hA
    obtain ⟨hins, k, hret⟩ := hcl v
    refine ⟨v, k, hret, ?_⟩
    simp only [run_bind_get, run_bind_modify, elabTemplate_nil env _ v hins, hret] at h
    simp only [started, run_bind_tick_none, hpc, run_bind_logEv] at h
    obtain ⟨r1, s2, h1, h2⟩ := bind_ok_inv h
    rw [resolveOpnd_outer_run] at h1
    simp only at h1
    cases htop : s.top[k]? with
    | none => rw [htop] at h1; cases h1
    | some r0 =>
      rw [htop] at h1
      cases h1
      rw [run_bind_modify] at h2
      cases h2
      refine ⟨rfl, ?_⟩
      simp only [pre, logged, started, lcEvent, binds_reset s b hnil, List.cons_append, List.nil_append, hpc]
  · cases hA

/-- phase 3 in F0: nothing to invalidate -/
theorem lhsInvalidateOld_inv {fuel : Nat} {br : BindRec} {t t' : State} {u : Unit}
    (hnil : br.allNodesCreatedOnRhs = []) (hp : t.propagateInvalidity = [])
    (h : (Inval.lhsInvalidateOld fuel br).run.run t = (.ok u, t')) : t' = t := by
  unfold Inval.lhsInvalidateOld at h
  rw [hnil] at h
  split at h
  · simp only [List.forIn_nil, pure_bind] at h
    cases fuel with
    | zero => unfold propagateInvalidity at h; cases h
    | succ fuel =>
      unfold propagateInvalidity at h
      simp only [run_bind_get, hp] at h
      exact (pure_ok_inv h).2
  · exact (pure_ok_inv h).2

/-- phase 4 -/
theorem lhsFinish_inv {env : Env} {fuel n : Nat} {t s' : State} {r : Option Nat}
    (h : (Inval.lhsFinish env fuel n).run.run t = (.ok r, s')) :
    (maybeChangeValue env fuel n .unit).run.run t = (.ok r, s') := by
  unfold Inval.lhsFinish at h
  obtain ⟨nd, -, h⟩ := bind_getNode_inv h
  exact bind_dassert_inv h

/-- **the skeleton of the run of a change detector in F0** -/
theorem lc_run_inv {env : Env} {fuel n b : Nat} {br : BindRec} {s s' : State} {r : Option Nat}
    (hlt : n < s.nodes.size) (hv : (s.nodeD n).valid = true) (hk : (s.nodeD n).kind = .bindLhsChange b)
    (hb : s.binds[b]? = some br) (hpc : s.panicCountdown = none)
    (hnil : ∀ br, s.binds[b]? = some br → br.allNodesCreatedOnRhs = [])
    (hcl : ∀ v, (env.body br.body v).instrs = [] ∧ ∃ k, (env.body br.body v).ret = .outer k)
    (h : (recomputeOne env fuel n).run.run s = (.ok r, s')) :
    ∃ v k rhs t, (env.body br.body v).ret = .outer k ∧ s.top[k]? = some rhs ∧
      (relink env fuel b n br.main br.rhs rhs (pre n br v s).stabNum).run.run (pre n br v s) = (.ok (), t) ∧
      (t.propagateInvalidity = [] → (maybeChangeValue env fuel n .unit).run.run t = (.ok r, s')) := by
  rw [Inval.recomputeOne_bindLhsChange_run env fuel n s _ b br (some_of_lt hlt) hv hk hb] at h
  obtain ⟨rhs, t1, h1, ha⟩ := bind_ok_inv h
  obtain ⟨u2, t2, h2, hb'⟩ := bind_ok_inv ha
  obtain ⟨u3, t3, h3, hc⟩ := bind_ok_inv hb'
  obtain ⟨v, k, hret, htop, rfl⟩ := lhsRunClosure_inv hpc hnil hcl h1
  refine ⟨v, k, rhs, t2, hret, htop, h2, fun hp => ?_⟩
  obtain rfl := lhsInvalidateOld_inv (hnil br hb) hp h3
  exact lhsFinish_inv hc

end BC
end IncrVerif.Proofs.BindH
