import IncrVerif.Proofs.FullT1
/-!
# C04 combined fragment, part 2: bisimulation ladder — heap, height, necessity primitives (conversion of FullH6), the carried invariant `PInv`,
`markMapRefUnknown` returns
-/
namespace IncrVerif.Proofs.FullT
set_option linter.unusedSectionVars false
open IncrVerif.Engine IncrVerif.Proofs IncrVerif.Proofs.Step IncrVerif.Proofs.Sched IncrVerif.Proofs.Quiet IncrVerif.Proofs.FullH

/-- registered `BSim` lemmas -/
syntax "bsim_leaf" : tactic
macro_rules | `(tactic| bsim_leaf) => `(tactic| fail "no leaf")

set_option hygiene false in
macro "bsim_step" : tactic => `(tactic| first
  | with_reducible exact BSimAt.ret _
  | with_reducible exact BSimAt.thr _ _
  | with_reducible exact BSimAt.pan _ _
  | ((with_reducible refine BSimAt.get_seq ?_); try fnorm)
  | ((with_reducible refine BSimAt.getNode_seq fun nd hnd hne => ?_); try fnorm)
  | ((with_reducible refine BSimAt.mod_seq ?_ ?_ (by rfl) ?_) <;> (first | rfl | skip))
  | ((with_reducible refine BSimAt.mod ?_ ?_ ?_) <;> rfl)
  | ((with_reducible refine BSimAt.modG_seq ?_ ?_ ?_) <;> (first | rfl | skip))
  | ((with_reducible refine BSimAt.modG ?_ ?_) <;> rfl)
  | ((with_reducible refine BSim.at ?_ _); bsim_leaf)
  | ((with_reducible refine BSim.at (BSim.forIn _ (fun _ _ _ => ?_) _) _); intro _)
  | (with_reducible refine BSimAt.seq ?_ fun _ _ _ => ?_)
  | (refine BSimAt.cond Iff.rfl (fun _ => ?_) (fun _ => ?_)))

macro "bsim" : tactic => `(tactic| repeat (any_goals bsim_step))

set_option hygiene false in
/-- a `match` on the kind of the node last read by `getNode` -/
macro "bsim_kind" : tactic => `(tactic| (
  simp only [virtNode_kind?]
  rcases hk : nd.kind? with _ | k
  all_goals try cases k
  all_goals simp only [Option.map_none, Option.map_some, virtKind]
  all_goals try exact absurd (kind_of_kind? hk) (hne _)
  bsim))

/-- closes `∀ nd, NKeep nd (f nd)` -/
macro "fpar" : tactic => `(tactic| (intro nd; exact ⟨rfl, rfl, rfl, rfl, rfl, rfl⟩))

section
variable {K : Kind → Prop} {P : State → Prop} [Keeps P] {g : Nat → Option Val}

macro_rules | `(tactic| bsim_leaf) => `(tactic| with_reducible exact BSim.dassert _ _)
macro_rules | `(tactic| bsim_leaf) => `(tactic| with_reducible exact BSim.assertM _ _)
macro_rules | `(tactic| bsim_leaf) => `(tactic| ((with_reducible refine BSim.modNode _ ?_ ?_ ?_) <;> first | fcomm | fkind | fpar))

theorem BSim.setHeight (n : Nat) (h : Int) : BSim K P g (Engine.setHeight n h) (Engine.setHeight n h) := by
  intro s; unfold Engine.setHeight; bsim
macro_rules | `(tactic| bsim_leaf) => `(tactic| with_reducible exact BSim.setHeight _ _)

theorem BSim.rchLink (n : Nat) : BSim K P g (Engine.rchLink n) (Engine.rchLink n) := by
  intro s; unfold Engine.rchLink; bsim
macro_rules | `(tactic| bsim_leaf) => `(tactic| with_reducible exact BSim.rchLink _)

theorem BSim.rchInsert (n : Nat) : BSim K P g (Engine.rchInsert n) (Engine.rchInsert n) := by
  intro s; unfold Engine.rchInsert; bsim
macro_rules | `(tactic| bsim_leaf) => `(tactic| with_reducible exact BSim.rchInsert _)

theorem BSim.getBind (b : Nat) : BSim K P g (Engine.getBind b) (Engine.getBind b) := by
  intro s; unfold Engine.getBind; bsim
  split <;> bsim
macro_rules | `(tactic| bsim_leaf) => `(tactic| with_reducible exact BSim.getBind _)

theorem BSim.getExpert (b : Nat) : BSim K P g (Engine.getExpert b) (Engine.getExpert b) := by
  intro s; unfold Engine.getExpert; bsim
  split <;> bsim
macro_rules | `(tactic| bsim_leaf) => `(tactic| with_reducible exact BSim.getExpert _)

theorem BSim.logEv (e : Event) : BSim K P g (Engine.logEv e) (Engine.logEv e) := by
  intro s; unfold Engine.logEv; bsim
macro_rules | `(tactic| bsim_leaf) => `(tactic| with_reducible exact BSim.logEv _)

theorem BSim.modExpert (e : Nat) (f : ExpertRec → ExpertRec) : BSim K P g (Engine.modExpert e f) (Engine.modExpert e f) := by
  intro s; unfold Engine.modExpert; bsim
macro_rules | `(tactic| bsim_leaf) => `(tactic| with_reducible exact BSim.modExpert _ _)

theorem BSim.observabilityChange (e : Nat) (b : Bool) :
    BSim K P g (Engine.observabilityChange e b) (Engine.observabilityChange e b) := by
  intro s; unfold Engine.observabilityChange; bsim
macro_rules | `(tactic| bsim_leaf) => `(tactic| with_reducible exact BSim.observabilityChange _ _)

theorem BSim.scopeHeight (sc : Scope) : BSim K P g (Engine.scopeHeight sc) (Engine.scopeHeight sc) := by
  intro s; unfold Engine.scopeHeight
  cases sc with
  | top => bsim
  | bind b => bsim
macro_rules | `(tactic| bsim_leaf) => `(tactic| with_reducible exact BSim.scopeHeight _)

theorem BSim.scopeIsNecessary (sc : Scope) : BSim K P g (Engine.scopeIsNecessary sc) (Engine.scopeIsNecessary sc) := by
  intro s; unfold Engine.scopeIsNecessary
  cases sc with
  | top => bsim
  | bind b => bsim
macro_rules | `(tactic| bsim_leaf) => `(tactic| with_reducible exact BSim.scopeIsNecessary _)

theorem BSim.scopeIsValid (sc : Scope) : BSim K P g (Engine.scopeIsValid sc) (Engine.scopeIsValid sc) := by
  intro s; unfold Engine.scopeIsValid
  cases sc with
  | top => bsim
  | bind b => bsim
macro_rules | `(tactic| bsim_leaf) => `(tactic| with_reducible exact BSim.scopeIsValid _)

theorem BSim.handleAfterStabilisation (n : Nat) :
    BSim K P g (Engine.handleAfterStabilisation n) (Engine.handleAfterStabilisation n) := by
  intro s; unfold Engine.handleAfterStabilisation; bsim
macro_rules | `(tactic| bsim_leaf) => `(tactic| with_reducible exact BSim.handleAfterStabilisation _)

theorem BSim.maybeHandleAfterStabilisation (n : Nat) :
    BSim K P g (Engine.maybeHandleAfterStabilisation n) (Engine.maybeHandleAfterStabilisation n) := by
  intro s; unfold Engine.maybeHandleAfterStabilisation; bsim
macro_rules | `(tactic| bsim_leaf) => `(tactic| with_reducible exact BSim.maybeHandleAfterStabilisation _)


/-- the bind table changes: `KeepsG` -/
theorem BSim.modBind [KeepsG P] (b : Nat) (f : BindRec → BindRec) : BSim K P g (Engine.modBind b f) (Engine.modBind b f) := by
  intro s; unfold Engine.modBind; bsim
macro_rules | `(tactic| bsim_leaf) => `(tactic| with_reducible exact BSim.modBind _ _)


end
end IncrVerif.Proofs.FullT
