import IncrVerif.Proofs.PerKeyH5
import IncrVerif.Proofs.PerKeyH8
import IncrVerif.Proofs.PerKeyH11
import IncrVerif.Proofs.PerKeyH12
/-!
# A run of a per-key change detector, part 1: local contract additions, the frame `LF`, the loop invariant `LI`

Notation of the whole `LC*` series (one `recomputeOne env fuel n` on `n = pr.lhsChange`, `PD env s (some n)`, `NoRem s`):
* `s0 := started n s`; `σ`: the actual state between two iterations of the loop of `perKeyDriver env fuel op m`
  (`m` = the value of the conversion node); `s2`: after `prevMap := m`; `s'`: after `maybeChangeValue env fuel n .unit`.
* `E := twEnv env`; the STRUCTURE invariant between two engine calls is `Mid E (twL [] σ)` (any log: `mid_relog`).
* `eres`: the index of the result's expert record (`(s.nodeD pr.result).kind = .expert eres`).

The clauses requested from `lean-perkey` (`PKOK.lcs`, `AuxP.obs`, ownership `OpOK.own/noObs/privTop`, `EntryOK.consec`) are
in PK2 now; the target is `LcStepSpec env` of PK3.
-/
namespace IncrVerif.Proofs.PerKeyH
open IncrVerif.Engine IncrVerif.Driver IncrVerif.Proofs IncrVerif.Proofs.Step IncrVerif.Proofs.Sched
open IncrVerif.Proofs.ExpertH IncrVerif.Proofs.EffH IncrVerif.Proofs.DriverH IncrVerif.Proofs.ExpertH.QR

/-! ## 1. small definitions -/

/-- a listed observer is in use or disallowed (`AuxP.obs`) -/
def ObsListed (s : State) : Prop :=
  ∀ m o, o ∈ (s.nodeD m).observers →
    ∃ ob, s.observers[o]? = some ob ∧ ob.node = m ∧ (ob.state = .inUse ∨ ob.state = .disallowed)

/-! ## 2. `OpOK` without the two clauses that fail inside the loop (`dom`, `input`) -/

structure OpCore (env : Env) (s : State) (op : Nat) (pr : PerKeyRec) : Prop where
  cut : pr.cut = none ∨ pr.cut = some .eq
  own : ∀ c x, c < s.nodes.size → x ∈ kidsX s.experts (s.nodeD c).kind → Priv env pr x → c = pr.result ∨ Priv env pr c
  noObs : ∀ x, Priv env pr x → (s.nodeD x).observers = []
  privTop : ∀ (k x : Nat), s.top[k]? = some x → ¬ Priv env pr x
  templ : TemplOK env (env.perKey pr.fam)
  nodes : ∃ x e er, OpNodes s op pr x e ∧ s.experts[e]? = some er ∧ er.pk = some (op, none) ∧
    (∃ d0 rest, er.children = { dep := d0, child := pr.lhsChange, cb := none } :: rest ∧
      (∀ ed, ed ∈ rest → ∃ key p, (key, (p, ed.dep)) ∈ pr.prevNodes) ∧
      (∀ key p d, (key, (p, d)) ∈ pr.prevNodes → d ≠ d0)) ∧
    (∀ key p d, (key, (p, d)) ∈ pr.prevNodes → EntryOK env s op pr er key p d) ∧
    (∀ k : Nat, k ∈ templOuter (env.perKey pr.fam) → ∃ o, s.top[k]? = some o ∧ o < pr.result - 1)
  keys : (pr.prevNodes.map (·.1)).Nodup
  deps : (pr.prevNodes.map (·.2.2)).Nodup
  sorted : IncrVerif.AMap.Sorted pr.prevMap

theorem OpOK.core {env : Env} {s : State} {op : Nat} {pr : PerKeyRec} (h : OpOK env s op pr) : OpCore env s op pr :=
  ⟨h.cut, h.own, h.noObs, h.privTop, h.templ, h.nodes, h.keys, h.deps, h.sorted⟩

theorem OpCore.toOK {env : Env} {s : State} {op : Nat} {pr : PerKeyRec} (h : OpCore env s op pr)
    (dom : ∀ key, (pr.prevMap.lookup key).isSome = (pr.prevNodes.lookup key).isSome)
    (input : s.isStale pr.lhsChange = false → (s.nodeD (pr.result - 1)).value = some (.map pr.prevMap)) :
    OpOK env s op pr :=
  ⟨h.cut, h.own, h.noObs, h.privTop, h.templ, h.nodes, h.keys, h.deps, h.sorted, dom, input⟩

/-! ## 3. the frame of (a sequence of) engine calls inside the loop, on ACTUAL states -/

/-- a node that has just been created and never computed (validity, scope, cutoff: `PFrag`) -/
structure NewNode (nd : Node) : Prop where
  recomputedAt : nd.recomputedAt = -1
  changedAt : nd.changedAt = -1
  value : nd.value = none
  observers : nd.observers = []
  handlers : nd.numOnUpdateHandlers = 0
  notVar : ∀ c, nd.kind ≠ .var c
  /-- not a change detector -/
  notLc : ∀ f args, nd.kind = .map f args → f < fnPerKey

/-- the frame of the loop: nodes and records are only appended; old nodes keep `nodeKey`; old records keep everything
but `forceStale` (only raised), `slots`, `willFireAllCallbacks`, and — for the records `e` with `D e` only (in `LI`: the
result record `eres`) — `children` (only appended); necessity only grows -/
structure LF (D : Nat → Prop) (a b : State) : Prop where
  grow : a.nodes.size ≤ b.nodes.size
  node : ∀ m, m < a.nodes.size → nodeKey (b.nodeD m) = nodeKey (a.nodeD m)
  key : eKey b = eKey a
  xgrow : a.experts.size ≤ b.experts.size
  xrec : ∀ (e : Nat) (er : ExpertRec), a.experts[e]? = some er → ∃ er', b.experts[e]? = some er' ∧
    er'.f = er.f ∧ er'.node = er.node ∧ er'.pk = er.pk ∧ er'.script = er.script ∧ er'.sel = er.sel ∧
    er'.numInvalidChildren = er.numInvalidChildren ∧
    (er.forceStale = true → er'.forceStale = true) ∧
    (¬ D e → er'.children = er.children) ∧
    (∃ ext, er'.children = er.children ++ ext) ∧
    ((er'.children = er.children ∧ er'.forceStale = er.forceStale) ∨ er'.forceStale = true)
  nextDep : a.nextDep ≤ b.nextDep
  new : ∀ m, a.nodes.size ≤ m → m < b.nodes.size → NewNode (b.nodeD m)
  nec : ∀ m, a.isNecessary m = true → b.isNecessary m = true

theorem LF.refl (D : Nat → Prop) (a : State) : LF D a a :=
  ⟨Nat.le_refl _, fun _ _ => rfl, rfl, Nat.le_refl _,
    fun _ er h => ⟨er, h, rfl, rfl, rfl, rfl, rfl, rfl, id, fun _ => rfl, ⟨[], (List.append_nil _).symm⟩,
      Or.inl ⟨rfl, rfl⟩⟩,
    Nat.le_refl _, fun m h1 h2 => absurd h2 (Nat.not_lt.2 h1), fun _ h => h⟩

theorem NewNode.of_key {a b : Node} (h : nodeKey b = nodeKey a) (N : NewNode a) : NewNode b := by
  simp only [nodeKey, Prod.mk.injEq] at h
  obtain ⟨h1, -, -, h4, -, h6, h7, h8, -, h10⟩ := h
  exact ⟨h6 ▸ N.recomputedAt, h7 ▸ N.changedAt, h4 ▸ N.value, h8 ▸ N.observers, h10 ▸ N.handlers,
    fun c => h1 ▸ N.notVar c, fun f args => h1 ▸ N.notLc f args⟩

theorem LF.trans {D : Nat → Prop} {a b c : State} (h1 : LF D a b) (h2 : LF D b c) : LF D a c := by
  refine ⟨Nat.le_trans h1.grow h2.grow,
    fun m hm => (h2.node m (Nat.lt_of_lt_of_le hm h1.grow)).trans (h1.node m hm), h2.key.trans h1.key,
    Nat.le_trans h1.xgrow h2.xgrow, ?_, Nat.le_trans h1.nextDep h2.nextDep, ?_, fun m hm => h2.nec m (h1.nec m hm)⟩
  · intro e er he
    obtain ⟨er1, he1, a1, a2, a3, a4, a5, a6, a7, a8, ⟨x1, a9⟩, a10⟩ := h1.xrec e er he
    obtain ⟨er2, he2, b1, b2, b3, b4, b5, b6, b7, b8, ⟨x2, b9⟩, b10⟩ := h2.xrec e er1 he1
    refine ⟨er2, he2, b1.trans a1, b2.trans a2, b3.trans a3, b4.trans a4, b5.trans a5, b6.trans a6,
      fun h => b7 (a7 h), fun h => (b8 h).trans (a8 h), ⟨x1 ++ x2, by rw [b9, a9, List.append_assoc]⟩, ?_⟩
    rcases b10 with ⟨k1, k2⟩ | k
    · rcases a10 with ⟨j1, j2⟩ | j
      · exact Or.inl ⟨k1.trans j1, k2.trans j2⟩
      · exact Or.inr (k2.trans j)
    · exact Or.inr k
  · intro m hm1 hm2
    by_cases hb : m < b.nodes.size
    · exact NewNode.of_key (h2.node m hb) (h1.new m hm1 hb)
    · exact h2.new m (by omega) hm2

/-- only the OLD records count for `D` -/
theorem LF.restrict {D D' : Nat → Prop} {a b : State} (h : LF D' a b)
    (hD : ∀ e, e < a.experts.size → D' e → D e) : LF D a b := by
  refine ⟨h.grow, h.node, h.key, h.xgrow, ?_, h.nextDep, h.new, h.nec⟩
  intro e er he
  obtain ⟨er1, he1, a1, a2, a3, a4, a5, a6, a7, a8, a9, a10⟩ := h.xrec e er he
  exact ⟨er1, he1, a1, a2, a3, a4, a5, a6, a7,
    fun hn => a8 fun hd => hn (hD e (Array.getElem?_eq_some_iff.1 he).1 hd), a9, a10⟩

theorem LF.mono {D D' : Nat → Prop} {a b : State} (h : LF D a b) (hD : ∀ e, D e → D' e) : LF D' a b :=
  h.restrict (D := D') fun e _ hd => hD e hd

/-! ## 3'. the frame the BOOKKEEPING reads (`LF` gives it; so does the final `maybeChangeValue`) -/

/-- what `EntryOK`, `Inst`, `OpNodes`, `ExpertH.Below`, `Own.own`, `Pot` read of two states: sizes, kinds of old nodes,
the naming table, old records (`node`, `pk`; `children` appended, unchanged outside `D`) -/
structure BF (D : Nat → Prop) (a b : State) : Prop where
  grow : a.nodes.size ≤ b.nodes.size
  kind : ∀ m, m < a.nodes.size → (b.nodeD m).kind = (a.nodeD m).kind
  top : b.top = a.top
  xrec : ∀ (e : Nat) (er : ExpertRec), a.experts[e]? = some er → ∃ er', b.experts[e]? = some er' ∧
    er'.node = er.node ∧ er'.pk = er.pk ∧ (¬ D e → er'.children = er.children) ∧
    (∃ ext, er'.children = er.children ++ ext)
  /-- old expert nodes whose virtual stamp is `-1` keep it (no expert node runs) -/
  stamp : ∀ m e, m < a.nodes.size → (a.nodeD m).kind = .expert e → ((V a).nodeD m).recomputedAt = -1 →
    ((V b).nodeD m).recomputedAt = -1

/-- an old node whose virtual stamp is `-1` keeps it: the actual stamp is kept, a raised flag stays up -/
theorem LF.stamp {D : Nat → Prop} {a b : State} (h : LF D a b) {m : Nat} (hm : m < a.nodes.size)
    (hs : ((V a).nodeD m).recomputedAt = -1) : ((V b).nodeD m).recomputedAt = -1 := by
  have := h.node m hm
  simp only [nodeKey, Prod.mk.injEq] at this
  rw [V_stamp_iff] at hs ⊢
  rw [this.1, this.2.2.2.2.2.1]
  rcases hs with hs | hs
  · refine Or.inl ?_
    cases hk : (a.nodeD m).kind with
    | expert e =>
      rw [hk] at hs
      simp only [forced] at hs ⊢
      cases he : a.experts[e]? with
      | none => rw [xRec_none he] at hs; cases hs
      | some er =>
        obtain ⟨er', he', -, -, -, -, -, -, a7, -⟩ := h.xrec e er he
        rw [xRec_some he] at hs
        rw [xRec_some he']; exact a7 hs
    | _ => rw [hk] at hs; cases hs
  · exact Or.inr hs

theorem LF.bf {D : Nat → Prop} {a b : State} (h : LF D a b) : BF D a b := by
  refine ⟨h.grow, fun m hm => ?_, ?_, fun e er he => ?_, fun m _ hm _ hs => ?_⟩
  · have := h.node m hm
    simp only [nodeKey, Prod.mk.injEq] at this
    exact this.1
  · have := h.key
    simp only [eKey, Prod.mk.injEq] at this
    exact this.2.2.2.2.2.2.2.2.2.2.2.2.2.2.1
  · obtain ⟨er1, he1, -, a2, a3, -, -, -, -, a8, a9, -⟩ := h.xrec e er he
    exact ⟨er1, he1, a2, a3, a8, a9⟩
  · exact h.stamp hm hs

theorem BF.refl (D : Nat → Prop) (a : State) : BF D a a :=
  ⟨Nat.le_refl _, fun _ _ => rfl, rfl, fun _ er h => ⟨er, h, rfl, rfl, fun _ => rfl, [], (List.append_nil _).symm⟩,
    fun _ _ _ _ h => h⟩

theorem BF.trans {D : Nat → Prop} {a b c : State} (h1 : BF D a b) (h2 : BF D b c) : BF D a c := by
  refine ⟨Nat.le_trans h1.grow h2.grow,
    fun m hm => (h2.kind m (Nat.lt_of_lt_of_le hm h1.grow)).trans (h1.kind m hm), h2.top.trans h1.top, ?_,
    fun m e hm hk hs => h2.stamp m e (Nat.lt_of_lt_of_le hm h1.grow) ((h1.kind m hm).trans hk) (h1.stamp m e hm hk hs)⟩
  intro e er he
  obtain ⟨er1, he1, a2, a3, a8, x1, a9⟩ := h1.xrec e er he
  obtain ⟨er2, he2, b2, b3, b8, x2, b9⟩ := h2.xrec e er1 he1
  exact ⟨er2, he2, b2.trans a2, b3.trans a3, fun h => (b8 h).trans (a8 h), x1 ++ x2,
    by rw [b9, a9, List.append_assoc]⟩

/-! ## 4. the loop invariant -/

/-- **the loop invariant** of `perKeyDriver env fuel op m` run from `started n s`.
`pr`: the operator record at the start; `eres`: the result's expert record; `rk` / `uk`: the keys of the `.right` /
`.unequal` entries processed so far. -/
structure LI (env : Env) (s : State) (n op : Nat) (pr : PerKeyRec) (eres : Nat) (rk uk : List Int) (σ : State) :
    Prop where
  /-- STRUCTURE, on the twin -/
  mid : Mid (twEnv env) (twL [] σ)
  /-- the frame from the start of the loop -/
  lf : LF (fun e => e = eres) (started n s) σ
  frag : PFrag env σ
  slots : SlotInv env σ
  obs : ObsListed σ
  /-- the operator records: only `prevNodes` of `op` changes -/
  psize : σ.perkeys.size = s.perkeys.size
  pother : ∀ op', op' ≠ op → σ.perkeys[op']? = s.perkeys[op']?
  pop : ∃ pn, σ.perkeys[op]? = some { pr with prevNodes := pn }
  /-- the bookkeeping of `op` in `σ` (all of `OpOK` but `dom`, `input`) -/
  core : ∀ pr', σ.perkeys[op]? = some pr' → OpCore env σ op pr'
  dom : ∀ pr', σ.perkeys[op]? = some pr' → ∀ key,
    (pr'.prevNodes.lookup key).isSome = ((pr.prevMap.lookup key).isSome || decide (key ∈ rk))
  /-- old entries are kept (as a sublist: new entries are consed in front) -/
  pnOld : ∀ pr', σ.perkeys[op]? = some pr' → ∀ key p d, (key, (p, d)) ∈ pr.prevNodes → (key, (p, d)) ∈ pr'.prevNodes
  /-- new records are entries of `op` -/
  newrec : ∀ (e : Nat) (er : ExpertRec), s.experts.size ≤ e → σ.experts[e]? = some er →
    ∃ pr' key d, σ.perkeys[op]? = some pr' ∧ er.pk = some (op, some key) ∧ (key, (er.node, d)) ∈ pr'.prevNodes
  pot : ∃ ψ, Pot σ ψ
  /-- what the new nodes reference: the change detector, new nodes, named top-level nodes -/
  newKids : ∀ c x : Nat, s.nodes.size ≤ c → c < σ.nodes.size → x ∈ kidsX σ.experts (σ.nodeD c).kind →
    x = pr.lhsChange ∨ s.nodes.size ≤ x ∨ ∃ k : Nat, s.top[k]? = some x
  /-- what the new edges of the result reference: new nodes, named top-level nodes -/
  resKids : ∀ er er', s.experts[eres]? = some er → σ.experts[eres]? = some er' → ∀ ed : ExpertEdge, ed ∈ er'.children →
    ed ∈ er.children ∨ s.nodes.size ≤ ed.child ∨ ∃ k : Nat, s.top[k]? = some ed.child
  /-- the result is necessary (hence so are the per-key nodes that are used by their instances: `EntryOK.input`) -/
  resNec : σ.isNecessary pr.result = true
  /-- the per-key nodes of the processed `.unequal` keys are forced stale or have never been computed: the virtual stamp is `-1` -/
  forcedU : ∀ key p d, key ∈ uk → (key, (p, d)) ∈ pr.prevNodes → ((V σ).nodeD p).recomputedAt = -1
  /-- the result: untouched so far (no `.right` entry yet), or forced stale -/
  resAlt : ((∀ pr', σ.perkeys[op]? = some pr' → pr'.prevNodes = pr.prevNodes) ∧
      (∀ er er', s.experts[eres]? = some er → σ.experts[eres]? = some er' →
        er'.children = er.children ∧ er'.forceStale = er.forceStale)) ∨
    forced σ.experts (σ.nodeD pr.result).kind = true
  /-- `forceStale` of the other old records is untouched, but for the per-key nodes of the processed `.unequal` keys -/
  fsame : ∀ (e : Nat) (er er' : ExpertRec), e ≠ eres → s.experts[e]? = some er → σ.experts[e]? = some er' →
    er'.forceStale = er.forceStale ∨ ∃ key d, key ∈ uk ∧ (key, (er.node, d)) ∈ pr.prevNodes

/-- the static facts about the start of the run -/
structure LcBase (env : Env) (s : State) (n op : Nat) (pr : PerKeyRec) (eres : Nat) : Prop where
  pd : PD env s (some n)
  norem : NoRem s
  hop : s.perkeys[op]? = some pr
  hn : pr.lhsChange = n
  hres : (s.nodeD pr.result).kind = .expert eres

/-- **the end of the driver** (after `prevMap := m`): the loop invariant with the final bookkeeping.  `m`: the value of
the conversion node.  `s2`: the state in which `maybeChangeValue env fuel n .unit` starts. -/
structure LE (env : Env) (s : State) (n op : Nat) (pr : PerKeyRec) (eres : Nat) (m : List (Int × Int)) (s2 : State) :
    Prop where
  conv : (s.nodeD (pr.result - 1)).value = some (.map m)
  sorted : IncrVerif.AMap.Sorted m
  mid : Mid (twEnv env) (twL [] s2)
  lf : LF (fun e => e = eres) (started n s) s2
  frag : PFrag env s2
  slots : SlotInv env s2
  obs : ObsListed s2
  psize : s2.perkeys.size = s.perkeys.size
  pother : ∀ op', op' ≠ op → s2.perkeys[op']? = s.perkeys[op']?
  pop : ∃ pn, s2.perkeys[op]? = some { pr with prevNodes := pn, prevMap := m }
  core : ∀ pr2, s2.perkeys[op]? = some pr2 → OpCore env s2 op pr2
  dom : ∀ pr2, s2.perkeys[op]? = some pr2 → ∀ key, (pr2.prevMap.lookup key).isSome = (pr2.prevNodes.lookup key).isSome
  pnOld : ∀ pr2, s2.perkeys[op]? = some pr2 → ∀ key p d, (key, (p, d)) ∈ pr.prevNodes → (key, (p, d)) ∈ pr2.prevNodes
  newrec : ∀ (e : Nat) (er : ExpertRec), s.experts.size ≤ e → s2.experts[e]? = some er →
    ∃ pr2 key d, s2.perkeys[op]? = some pr2 ∧ er.pk = some (op, some key) ∧ (key, (er.node, d)) ∈ pr2.prevNodes
  pot : ∃ ψ, Pot s2 ψ
  newKids : ∀ c x : Nat, s.nodes.size ≤ c → c < s2.nodes.size → x ∈ kidsX s2.experts (s2.nodeD c).kind →
    x = pr.lhsChange ∨ s.nodes.size ≤ x ∨ ∃ k : Nat, s.top[k]? = some x
  resKids : ∀ er er', s.experts[eres]? = some er → s2.experts[eres]? = some er' → ∀ ed : ExpertEdge, ed ∈ er'.children →
    ed ∈ er.children ∨ s.nodes.size ≤ ed.child ∨ ∃ k : Nat, s.top[k]? = some ed.child
  resNec : s2.isNecessary pr.result = true
  /-- the OLD per-key nodes whose constant changed are forced stale or have never been computed: the virtual stamp is `-1` -/
  forcedU : ∀ key p d, (key, (p, d)) ∈ pr.prevNodes → pr.prevMap.lookup key ≠ m.lookup key →
    ((V s2).nodeD p).recomputedAt = -1
  /-- the result: untouched (no key was added), or forced stale -/
  resAlt : ((∀ pr2, s2.perkeys[op]? = some pr2 → pr2.prevNodes = pr.prevNodes) ∧
      (∀ er er', s.experts[eres]? = some er → s2.experts[eres]? = some er' →
        er'.children = er.children ∧ er'.forceStale = er.forceStale)) ∨
    forced s2.experts (s2.nodeD pr.result).kind = true
  /-- `forceStale` of the other old records is untouched, but for the per-key nodes whose constant changed -/
  fsame : ∀ (e : Nat) (er er' : ExpertRec), e ≠ eres → s.experts[e]? = some er → s2.experts[e]? = some er' →
    er'.forceStale = er.forceStale ∨
      ∃ key d, (key, (er.node, d)) ∈ pr.prevNodes ∧ pr.prevMap.lookup key ≠ m.lookup key

/-! ## 4'. the contracts of the two iterations (proved in LC4*, LC5*; consumed by the loop in LC6*) -/

/-- one `.right` iteration (a new key) keeps the loop invariant -/
def IterRight (env : Env) : Prop :=
  ∀ (s : State) (n op : Nat) (pr : PerKeyRec) (eres : Nat) (rk uk : List Int) (σ σ' : State) (fuel : Nat)
    (key v : Int), LcBase env s n op pr eres → LI env s n op pr eres rk uk σ →
    pr.prevMap.lookup key = none → key ∉ rk →
    (PKL.perKeyStep env fuel op .top (key, .right v)).run.run σ = (.ok (), σ') →
    LI env s n op pr eres (key :: rk) uk σ'

/-- one `.unequal` iteration (the value of an old key changed) keeps the loop invariant -/
def IterUnequal (env : Env) : Prop :=
  ∀ (s : State) (n op : Nat) (pr : PerKeyRec) (eres : Nat) (rk uk : List Int) (σ σ' : State) (fuel : Nat)
    (key a b : Int), LcBase env s n op pr eres → LI env s n op pr eres rk uk σ →
    (pr.prevMap.lookup key).isSome = true →
    (PKL.perKeyStep env fuel op .top (key, .unequal a b)).run.run σ = (.ok (), σ') →
    LI env s n op pr eres rk (key :: uk) σ'

/-- `AMap.lookup` is `List.lookup` -/
theorem amap_lookup_eq (m : List (Int × Int)) (k : Int) : IncrVerif.AMap.lookup m k = m.lookup k := by
  induction m with
  | nil => rfl
  | cons kv m ih =>
    rcases kv with ⟨k0, v0⟩
    rw [IncrVerif.AMap.lookup, List.lookup_cons]
    by_cases hk : k = k0
    · subst hk; simp
    · have h1 : (k == k0) = false := by simpa using hk
      simp only [hk, if_false, h1, ih]

/-! ## 5. the twin does not read its log -/

theorem twL_withLog (l l' : List Event) (σ : State) : twL l' σ = { twL l σ with log := l' } := rfl

theorem mid_withLog {E : Env} {t : State} (M : Mid E t) (l' : List Event) : Mid E { t with log := l' } := by
  obtain ⟨rk, I⟩ := M.st
  refine ⟨⟨M.frag.pc, M.frag.kind, M.frag.valid, M.frag.xrec, M.frag.xok⟩, ⟨M.ahh.length, M.ahh.buckets, M.ahh.marks⟩,
    ⟨rk, ?_⟩, M.pinv, M.handlers⟩
  exact GInv.congr I (SameG.of_nodes rfl rfl rfl rfl rfl)

theorem mid_relog {E : Env} {l : List Event} {σ : State} (M : Mid E (twL l σ)) (l' : List Event) :
    Mid E (twL l' σ) := by
  rw [twL_withLog l l' σ]; exact mid_withLog M l'

end IncrVerif.Proofs.PerKeyH
