import IncrVerif.Proofs.LeakH12
/-!
# C12 over histories, part 13: the final `stabilise` returns

`stabilise_total_q` (`Proofs/Quiet24.lean`) for a state whose STRIPPED form satisfies `QInv` and `TInv`
(dead variables, dropped handles allowed).
-/
namespace IncrVerif.Proofs.LeakH
open IncrVerif.Engine IncrVerif.Driver IncrVerif.Proofs IncrVerif.Proofs.Step IncrVerif.Proofs.Sched
open IncrVerif.Proofs.Quiet

set_option maxHeartbeats 800000 in
theorem stabilise_total_strip {env : Env} {N fuel : Nat} {s : State} (Q : QInv env (strip s))
    (T : TInv N (strip s)) (hf : 3 * s.nodes.size + 4 ≤ fuel) :
    ∃ s', (stabilise env fuel).run.run s = (.ok (), s') := by
  obtain ⟨s0, hs0⟩ : ∃ s0 : State, s0 = { s with status := .stabilising } := ⟨_, rfl⟩
  have hv : VEq (strip s).vars s.vars := veq_strip s.vars
  have hnd0 : ∀ m, s0.nodeD m = (strip s).nodeD m := fun m => by rw [hs0]; rfl
  have hsz0 : s0.nodes.size = (strip s).nodes.size := by rw [hs0]; rfl
  have hsz0' : s0.nodes.size = s.nodes.size := by rw [hs0]
  have hvars0 : s0.vars = s.vars := by rw [hs0]
  have hv0 : VEq (strip s).vars s0.vars := by rw [hvars0]; exact hv
  have hstab0 : s0.stabNum = (strip s).stabNum := by rw [hs0]; rfl
  have S0s : Struct env s0 := by
    rw [hs0]
    exact (ginv_vars Q.struct hv).congr (SameG.of_nodes rfl rfl rfl rfl rfl)
  have S0 : SInv env s0 s0.newObservers s0.disallowedObservers := by
    refine ⟨S0s, ?_, ?_, ?_⟩
    · rw [hs0]
      exact ⟨Q.obs.inRange, Q.obs.mem, Q.obs.created, Q.obs.newIn, Q.obs.dis, Q.obs.disIn, Q.obs.disNodup⟩
    · rw [hs0]; exact Q.pinv
    · intro m; rw [hnd0]; exact Q.handlers m
  have hb0 : HBo s0 allClosed := by
    intro m hm ho
    rw [hnd0]; exact T.hb m (by rw [State.isNecessary, ← hnd0]; exact hm) ho
  have R0 : Room N s0 := by rw [hs0]; exact ⟨T.room.ahh, T.room.rch, T.room.size⟩
  -- the two loops
  have hf1 : 2 * s0.nodes.size + 2 ≤ fuel := by rw [hsz0']; omega
  obtain ⟨_, t1, h1, hb1⟩ := addNewObservers_total (fuel := fuel) (env := env) S0 hb0 R0
    (by rw [hs0]; exact T.newNodup) (by rw [hs0]; exact T.newState) hf1
  obtain ⟨S1, hn1, hd1, F1, O1, N1⟩ := addNewObservers_s S0 h1
  have hf2 : 3 * t1.nodes.size + 3 ≤ fuel := by rw [F1.size, hsz0']; omega
  obtain ⟨_, t2, h2, hb2⟩ := unlinkDisallowedObservers_total (fuel := fuel) S1 hn1 hb1 hf2
  obtain ⟨S2, hn2, hd2, F2, O2⟩ := unlinkDisallowedObservers_s S1 hn1 h2
  have F : PFrame s0 t2 := F1.trans F2
  have R2 : Room N t2 := R0.of_pframe F
  have V0 : VarsOK s0 := varsOK_veq hsz0 hnd0 hv0 Q.vars
  have V2 : VarsOK t2 := F.varsOK V0
  have st2 : ∀ m, (t2.nodeD m).recomputedAt < t2.stabNum ∧ (t2.nodeD m).changedAt < t2.stabNum := by
    intro m
    rw [F.recomputedAt, F.changedAt, F.stabNum, hstab0, hnd0]; exact Q.stamps m
  have cons2 : ∀ m, m < t2.nodes.size → staleOf t2 m = false → Consistent env t2 m := by
    intro m hm hs
    rw [F.staleOf, staleOf_veq hnd0 hv0] at hs
    have hc := Q.cons m (by rw [← hsz0, ← F.size]; exact hm) hs
    exact F.consistent (consistent_veq hnd0 hv0 hc)
  have D2 : DrainInv env t2 :=
    drainInv_of S2.struct V2 (by rw [F.stabNum, hstab0]; exact Q.now) st2
      (fun c vc hc => by
        rw [F.vars] at hc
        obtain ⟨vc0, h0, -, -, e⟩ := hv0.get_some hc
        rw [F.stabNum, hstab0, ← e]; exact Q.varStamp c vc0 h0) cons2
  -- the drain
  have Sf : Safe t2 := by
    refine ⟨fun n hn => ?_, fun n hn => (GInv.node S2.struct (nec_lt_size hn)).top⟩
    have h1 := hb2 n hn rfl
    have h2 := nec_lt_size hn
    have h3 := R2.size
    rw [R2.rch]; omega
  have hf3 : t2.nodes.size + 2 ≤ fuel := by rw [F.size, hsz0']; omega
  obtain ⟨t3, h3, D3, he3, f3, -⟩ := drainHeap_total_values D2 Sf hf3
  have c3 := drainHeap_calm fuel t2 t3 D2 h3
  have k3 := drainHeap_keyD D2 h3
  simp only [stateKeyD, Prod.mk.injEq] at k3
  obtain ⟨k_obs, -, -, k_top, -, -, -, -, -, -, k_ahh⟩ := k3
  -- the end
  have hnum2 : ∀ m, (t2.nodeD m).numOnUpdateHandlers ≤ 0 := S2.handlers
  have hhas0 : HasRange s0 := by
    intro n hn; rw [hs0] at hn
    have : s.handleAfterStab = [] := Q.handleAfterStab
    rw [show ({ s with status := Status.stabilising } : State).handleAfterStab = s.handleAfterStab from rfl,
      this] at hn
    cases hn
  have hhas2 : HasRange t2 :=
    unlinkDisallowedObservers_hasRange h2 (addNewObservers_hasRange h1 hhas0)
  have hhas3 : HasRange t3 := by
    intro n hn
    rw [c3.has hnum2] at hn
    rw [f3.size]; exact hhas2 n hn
  obtain ⟨_, s', h4, -⟩ := stabiliseEnd_total_dead (env := env) (fuel := fuel) (s := t3)
    (by rw [c3.setDuringStab, F.setDuringStab, hs0]; exact Q.setDuringStab)
    (by intro o ob ho; rw [k_obs] at ho; exact (S2.obs.inRange o ob ho).2)
    hhas3
    (by
      intro n o ho
      rw [(f3.shape n).observers] at ho
      obtain ⟨ob, hob, -⟩ := (S2.obs.mem n o).1 ho
      rw [k_obs]
      exact (Array.getElem?_eq_some_iff.1 hob).1)
  -- the run
  refine ⟨s', ?_⟩
  unfold stabilise
  have hst : (s.status == Status.notStabilising) = true := by
    have : s.status = .notStabilising := Q.status
    rw [this]; rfl
  rw [run_bind_get, run_bind_ok (show (assertM (s.status == Status.notStabilising)
    "state:stabilise:status").run.run s = (.ok (), s) by rw [run_assertM, hst]; rfl),
    run_bind_modify]
  rw [← hs0, run_bind_ok h1, run_bind_ok h2, run_bind_ok h3]
  exact h4

end IncrVerif.Proofs.LeakH
