import IncrVerif.Proofs.DriverH21
/-!
# Effects of a driver, part 5: the loop — `effectsSpec`
-/
namespace IncrVerif.Proofs.DriverH
open IncrVerif.Engine IncrVerif.Driver IncrVerif.Proofs IncrVerif.Proofs.Step IncrVerif.Proofs.Sched
open IncrVerif.Proofs.ExpertH IncrVerif.Proofs.ExpertH.QR IncrVerif.Proofs.EffH

theorem effX_along {D : Nat → Prop} {s t : State} (ef : EF D s t) (eff : Effect) : effX t eff = effX s eff := by
  cases eff <;> simp only [effX, ef.resOp]

theorem EffOK.effX {s : State} {n : Nat} {eff : Effect} (ok : EffOK s n eff) :
    ∃ x, effX s eff = some x ∧ Drives s n x := by
  cases eff <;> first | exact False.elim ok | skip
  case xAdd eo co cb => obtain ⟨x, c, h1, -, h2, -⟩ := ok; exact ⟨x, h1, h2⟩
  case xRm eo i => obtain ⟨x, h1, h2⟩ := ok; exact ⟨x, h1, h2⟩
  case xSel eo cb al tg => obtain ⟨x, h1, h2, -⟩ := ok; exact ⟨x, h1, h2⟩
  case xStale eo => obtain ⟨x, h1, h2⟩ := ok; exact ⟨x, h1, h2⟩

/-- legality of an effect is stable along the frame of effects -/
theorem EffOK.along {D : Nat → Prop} {s t : State} {n : Nat} {eff : Effect} (ef : EF D s t)
    (hdr : ∀ m x, Drives s m x → Drives t m x) (ok : EffOK s n eff) : EffOK t n eff := by
  cases eff <;> first | exact False.elim ok | skip
  case xAdd eo co cb =>
    obtain ⟨x, c, h1, h2, h3, h4⟩ := ok
    exact ⟨x, c, by rw [ef.resOp]; exact h1, by rw [ef.resOp]; exact h2, hdr _ _ h3, h4.along ef⟩
  case xRm eo i =>
    obtain ⟨x, h1, h2⟩ := ok
    exact ⟨x, by rw [ef.resOp]; exact h1, hdr _ _ h2⟩
  case xSel eo cb al tg =>
    obtain ⟨x, h1, h2, h3⟩ := ok
    refine ⟨x, by rw [ef.resOp]; exact h1, hdr _ _ h2, fun tg' hm => ?_⟩
    obtain ⟨c, h4, h5⟩ := h3 tg' hm
    exact ⟨c, by rw [ef.resOp]; exact h4, h5.along ef⟩
  case xStale eo =>
    obtain ⟨x, h1, h2⟩ := ok
    exact ⟨x, by rw [ef.resOp]; exact h1, hdr _ _ h2⟩

/-- one legal effect -/
theorem step_eff {env : Env} (hA : AddSpec (noEff env)) (hR : RmSpec (noEff env)) (hS : StaleSpec (noEff env))
    {fuel n : Nat} {eff : Effect} {es : List Effect} {arg : Int} {t s' : State} (M : Mid (noEff env) t)
    (ok : EffOK t n eff) (h : (runEffects env fuel (eff :: es) arg).run.run t = (.ok (), s')) :
    ∃ t', (runEffects env fuel es arg).run.run t' = (.ok (), s') ∧ Step1 (noEff env) n eff t t' := by
  cases eff <;> first | exact False.elim ok | skip
  case xAdd eo co cb => exact step_xAdd hA M ok h
  case xRm eo i => exact step_xRm hR M ok h
  case xSel eo cb al tg => exact step_xSel hA hR M ok h
  case xStale eo => exact step_xStale hS M ok h

theorem effects_loop {env : Env} (hA : AddSpec (noEff env)) (hR : RmSpec (noEff env)) (hS : StaleSpec (noEff env))
    (fuel n : Nat) (arg : Int) (s : State) :
    ∀ (effs : List Effect) (t s' : State), Mid (noEff env) t → EF (DOf s n) s t →
      (∀ m x, Drives s m x → Drives t m x) → (s.isNecessary n = true → t.isNecessary n = true) →
      (∀ eff, eff ∈ effs → EffOK s n eff) →
      (runEffects env fuel effs arg).run.run t = (.ok (), s') →
      Mid (noEff env) s' ∧ EF (DOf s n) s s' ∧ (∀ m x, Drives s m x → Drives s' m x) ∧
        (s.isNecessary n = true → s'.isNecessary n = true) := by
  intro effs
  induction effs with
  | nil =>
    intro t s' M ef hdr hnec _ h
    rw [runEffects_nil] at h
    obtain ⟨-, rfl⟩ := pure_ok_inv h
    exact ⟨M, ef, hdr, hnec⟩
  | cons eff es ih =>
    intro t s' M ef hdr hnec hok h
    have ok0 := hok eff (List.mem_cons_self ..)
    obtain ⟨t', h', S⟩ := step_eff hA hR hS M (ok0.along ef hdr) h
    obtain ⟨x, e, hx, hk, ef1⟩ := S.ef
    obtain ⟨x0, hx0, hd0⟩ := ok0.effX
    rw [effX_along ef, hx0] at hx
    have hxx : x0 = x := Option.some.inj hx
    subst hxx
    have hD : ∀ e', e' = e → DOf s n e' := by
      intro e' he
      subst he
      exact ⟨x0, hd0, (ef.kind x0).symm.trans hk⟩
    exact ih t' s' S.mid (ef.trans (ef1.mono hD)) (fun m y hd => S.drv m y (hdr m y hd))
      (fun hn => S.nec (hnec hn)) (fun eff' hm => hok eff' (List.mem_cons_of_mem _ hm)) h'

/-- **the effect list of a driver**, from `Mid` to `Mid` -/
theorem effectsSpec (env : Env) (hA : AddSpec (EffH.noEff env)) (hR : RmSpec (EffH.noEff env))
    (hS : StaleSpec (EffH.noEff env)) : EffectsSpec env := by
  intro fuel n effs arg s s' M hok h
  exact effects_loop hA hR hS fuel n arg s effs s s' M (EF.refl _ _) (fun _ _ h => h) (fun h => h) hok h

end IncrVerif.Proofs.DriverH
