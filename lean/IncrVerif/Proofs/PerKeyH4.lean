import IncrVerif.Proofs.PerKeyH3
/-!
# Per-key operators over whole histories, part 3: stage-1 side condition, frames, and the contracts between the work packages

* `NoRem s` (stage 1): the key sets only grow along `prevMap ⊆ value of the conversion node ⊆ value of the input var node ⊆
  value of the var cell`, so a run of a change detector never sees a removed key (no `.left` entry in the diff).
* `PStep s s'`: what every step of the drain keeps.
* contracts: `LcStepSpec`, `XStepSpec`, `StaticStepSpec`, `PopSpecP`, `DrainSpecP`; `PQ`, `StabilisedP`, `StabSpecP`.
* the specification of the output: `evalTempl`, `specMap`, `OutputOK`.
-/
namespace IncrVerif.Proofs.PerKeyH
open IncrVerif.Engine IncrVerif.Driver IncrVerif.Proofs IncrVerif.Proofs.Step IncrVerif.Proofs.Sched
open IncrVerif.Proofs.ExpertH IncrVerif.Proofs.EffH IncrVerif.Proofs.DriverH

/-! ## stage 1: keys are never removed -/

def keysSub (a b : List (Int × Int)) : Prop := ∀ k : Int, (a.lookup k).isSome = true → (b.lookup k).isSome = true

/-- the input of operator `op` is a variable `x` holding sorted maps, and the key sets only grow from `prevMap` to the
conversion node to the var node to the cell -/
structure NoRemOp (s : State) (pr : PerKeyRec) : Prop where
  input : ∃ x c vc mv, (s.nodeD (pr.result - 1)).kind = .map fnIdent [x] ∧ (s.nodeD x).kind = .var c ∧
    s.vars[c]? = some vc ∧ vc.value = .map mv ∧ IncrVerif.AMap.Sorted mv ∧
    keysSub pr.prevMap mv ∧
    (∀ w, (s.nodeD x).value = some w → ∃ m2, w = .map m2 ∧ IncrVerif.AMap.Sorted m2 ∧ keysSub m2 mv ∧
      keysSub pr.prevMap m2) ∧
    (∀ w, (s.nodeD (pr.result - 1)).value = some w → ∃ m1, w = .map m1 ∧ IncrVerif.AMap.Sorted m1 ∧ keysSub m1 mv ∧
      keysSub pr.prevMap m1 ∧ ∀ m2, (s.nodeD x).value = some (.map m2) → keysSub m1 m2)

def NoRem (s : State) : Prop := ∀ (op : Nat) (pr : PerKeyRec), s.perkeys[op]? = some pr → NoRemOp s pr

/-! ## the frame of a step of the drain -/

/-- what every step of the drain keeps (`eKey`: state fields; `frameB`: round number, cells, stamps of this round, read in
the virtual states; old nodes keep their actual kind and the fields no step touches; nodes are only appended) -/
structure PStep (s s' : State) : Prop where
  frameB : BindH.FrameB (V s) (V s')
  grow : s.nodes.size ≤ s'.nodes.size
  key : eKey s' = eKey s
  node : ∀ m, m < s.nodes.size → dnKey (s'.nodeD m) = dnKey (s.nodeD m)
  /-- nodes created by the step have no observers -/
  newObs : ∀ m, s.nodes.size ≤ m → (s'.nodeD m).observers = []

/-! ## contracts of the drain -/

/-- **a run of a per-key change detector** -/
def LcStepSpec (env : Env) : Prop :=
  ∀ (fuel n op : Nat) (args : List Nat) (s s' : State) (r : Option Nat), PD env s (some n) → NoRem s →
    (s.nodeD n).kind = .map (fnPerKey + op) args →
    (recomputeOne env fuel n).run.run s = (.ok r, s') →
    PD env s' r ∧ NoRem s' ∧ PStep s s' ∧ ((V s').nodeD n).recomputedAt = s.stabNum

/-- **a run of an expert node** (a per-key input node or the result of an operator) -/
def XStepSpec (env : Env) : Prop :=
  ∀ (fuel n e : Nat) (s s' : State) (r : Option Nat), PD env s (some n) → NoRem s →
    (s.nodeD n).kind = .expert e →
    (recomputeOne env fuel n).run.run s = (.ok r, s') →
    PD env s' r ∧ NoRem s' ∧ PStep s s' ∧ ((V s').nodeD n).recomputedAt = s.stabNum

/-- **a run of any other node** (`const`, `var`, `fold`, `map` with a pure user function or built-in) -/
def StaticStepSpec (env : Env) : Prop :=
  ∀ (fuel n : Nat) (s s' : State) (r : Option Nat), PD env s (some n) → NoRem s →
    (∀ e, (s.nodeD n).kind ≠ .expert e) → (∀ f args, (s.nodeD n).kind = .map f args → f < fnPerKey) →
    (recomputeOne env fuel n).run.run s = (.ok r, s') →
    PD env s' r ∧ NoRem s' ∧ PStep s s' ∧ ((V s').nodeD n).recomputedAt = s.stabNum

def StepSpecP (env : Env) : Prop :=
  ∀ (fuel n : Nat) (s s' : State) (r : Option Nat), PD env s (some n) → NoRem s →
    (recomputeOne env fuel n).run.run s = (.ok r, s') →
    PD env s' r ∧ NoRem s' ∧ PStep s s' ∧ ((V s').nodeD n).recomputedAt = s.stabNum

def PopSpecP (env : Env) : Prop :=
  ∀ (s s1 : State) (n : Nat), PD env s none → NoRem s → rchRemoveMin.run.run s = (.ok (some n), s1) →
    PD env s1 (some n) ∧ NoRem s1 ∧ PStep s s1

def DrainSpecP (env : Env) : Prop :=
  ∀ (fuel : Nat) (s s' : State), PD env s none → NoRem s → (drainHeap env fuel).run.run s = (.ok (), s') →
    PD env s' none ∧ NoRem s' ∧ s'.rch.length = 0 ∧ PStep s s' ∧ (drainTrace env fuel s).Nodup

/-! ## the invariant between API actions -/

structure PQ (env : Env) (rk : Nat → Nat) (s : State) : Prop where
  frag : PFrag env s
  q : QR.QInv (penv env) rk (V s)
  ahh : QR.AhhEmpty s
  pk : PKOK env s
  slots : SlotInv env s
  norem : NoRem s

/-! ## the specification of the output -/

def evalOpnd (ov : Nat → Option Val) (loc : List (Option Val)) : Opnd → Option Val
  | .outer k => ov k
  | .loc j => (loc[j]?).join
  | _ => none

/-- from-scratch evaluation of one template instruction (`key` = the key constant) -/
def evalInstr (env : Env) (ov : Nat → Option Val) (loc : List (Option Val)) (key : Int) : Instr → Option Val
  | .const v => some v
  | .lhsConst => some (.int key)
  | .map f args => (args.mapM (evalOpnd ov loc)).map (env.fn f)
  | .fold f init cs => (cs.mapM (evalOpnd ov loc)).map (List.foldl (env.foldStep f) init)
  | _ => none

/-- `F_fam(key, v)`: from-scratch evaluation of the template on the entry `(key, v)` (`%0 = v`) and the current values
`ov k` of the outer nodes `n<k>` -/
def evalTempl (env : Env) (ov : Nat → Option Val) (t : Template) (key v : Int) : Option Val :=
  evalOpnd ov (t.instrs.foldl (fun loc i => loc ++ [evalInstr env ov loc key i]) [some (.int v)]) t.ret

/-- the map `{k ↦ F_fam(k, v) | (k, v) ∈ m}` -/
def specMap (env : Env) (ov : Nat → Option Val) (t : Template) (m : List (Int × Int)) : Option (List (Int × Int)) :=
  m.mapM fun kv => (evalTempl env ov t kv.1 kv.2).map fun w => (kv.1, w.toInt)

/-- the output of every operator whose output node is necessary is the specified map of the CURRENT value of its input
variable and the current values of the outer nodes -/
def OutputOK (env : Env) (s : State) : Prop :=
  ∀ (op : Nat) (pr : PerKeyRec), s.perkeys[op]? = some pr → s.isNecessary (pr.result + 2) = true →
    ∃ x c vc mx mo, (s.nodeD (pr.result - 1)).kind = .map fnIdent [x] ∧ (s.nodeD x).kind = .var c ∧
      s.vars[c]? = some vc ∧ vc.value = .map mx ∧
      s.value env (pr.result + 2) = some (.map mo) ∧
      specMap env (fun k => (s.top[k]?).bind fun o => s.value env o) (env.perKey pr.fam) mx = some mo

/-- what a `stabilise` establishes -/
structure StabilisedP (env : Env) (fuel : Nat) (s s' : State) : Prop where
  inv : ∃ rk', PQ env rk' s'
  /-- every necessary node is not stale -/
  settled : ∀ n, s'.isNecessary n = true → s'.isStale n = false
  output : OutputOK env s'
  obs : QR.ObsSettled s'
  vars : s'.vars = s.vars
  stabNum : s'.stabNum = s.stabNum + 1
  grow : s.nodes.size ≤ s'.nodes.size
  drain : ∃ t1 t2 t3, (addNewObservers env fuel).run.run { s with status := .stabilising } = (.ok (), t1) ∧
    (unlinkDisallowedObservers fuel).run.run t1 = (.ok (), t2) ∧ PD env t2 none ∧
    (drainHeap env fuel).run.run t2 = (.ok (), t3) ∧ PD env t3 none ∧ t3.rch.length = 0 ∧
    (drainTrace env fuel t2).Nodup ∧ (stabiliseEnd env fuel).run.run t3 = (.ok (), s')

def StabSpecP (env : Env) : Prop :=
  ∀ (rk : Nat → Nat) (fuel : Nat) (s s' : State), PQ env rk s →
    (stabilise env fuel).run.run s = (.ok (), s') → StabilisedP env fuel s s'

end IncrVerif.Proofs.PerKeyH
