import IncrVerif.Proofs.PerKeyH97
import IncrVerif.Proofs.PerKeyH102
import IncrVerif.Proofs.PerKeyH105
/-!
# Per-key operators, API actions part 12: **`ActionSpecP env`** — every action of the fragment other than `stabilise`
keeps the invariant between actions (for some rank)
-/
namespace IncrVerif.Proofs.PerKeyH
open IncrVerif.Engine IncrVerif.Driver IncrVerif.Proofs IncrVerif.Proofs.Step IncrVerif.Proofs.Sched
open IncrVerif.Proofs.ExpertH IncrVerif.Proofs.EffH IncrVerif.Proofs.DriverH

/-- **every action of the fragment other than `stabilise` keeps `PQ`** (the rank changes only for `create (.perKey ..)`) -/
theorem actionSpecP (env : Env) : ActionSpecP env := by
  intro rk s s' a tk r Q ha hns h
  by_cases hpk : ∃ cut fam x, a = .create (.perKey cut fam x)
  · obtain ⟨cut, fam, x, rfl⟩ := hpk
    exact action_create_perKey Q ha h
  · have hnp : ∀ cut fam x, a ≠ .create (.perKey cut fam x) := fun cut fam x e => hpk ⟨cut, fam, x, e⟩
    exact ⟨rk, action_static_vs Q ha (pstaticAct_of ha hns hnp) (action_static_slots_pk Q ha hns hnp h) h⟩

end IncrVerif.Proofs.PerKeyH
